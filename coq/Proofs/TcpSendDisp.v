(* C05, layer 4: the segments [tcp_dispatch] builds.  First the data path
   ([tcp_dispatch_build_data]: fast retransmission, normal transmission, zero-window probe),
   characterised in terms of the ghost stream. *)
From SV Require Import Lib.Base Gen.Consts.
From SV Require Import Model.Seq32 Model.Assembler Model.TcpBuf Model.TcpTypes Model.Tcp.
From SV Require Import Proofs.TcpSendBase Proofs.TcpSendInv Proofs.TcpSendAck Proofs.TcpSendProc
                       Proofs.TcpSendApi.

(* the skeleton segment dispatch starts from: an empty ACK without SYN options *)
Definition base_repr (r : tcp_repr) : Prop :=
  r_control r = CNone /\ r_payload r = [] /\ r_window_scale r = None /\ r_max_seg_size r = None /\
  r_sack_permitted r = false /\ r_sack_ranges r = no_sack.

Definition opt_len (r : tcp_repr) : Z := if is_some (r_timestamp r) then 12 else 0.

Lemma base_header_len : forall r, base_repr r -> repr_header_len r = wtcp_HEADER_LEN + opt_len r.
Proof.
  intros r (_ & _ & Hws & Hm & Hsp & Hsr). unfold repr_header_len, opt_len.
  rewrite Hws, Hm, Hsp, Hsr. cbn [is_some no_sack fold_left].
  destruct (r_timestamp r); cbn [is_some]; reflexivity.
Qed.

Lemma header_len_set : forall r x pl c,
  repr_header_len (repr_set_control (repr_set_payload (repr_set_seq r x) pl) c) = repr_header_len r.
Proof. intros. reflexivity. Qed.

Lemma flight_size_ok : forall g s, tx_inv g s -> tcp_flight_size s = Ok (g_flight g).
Proof.
  intros g s (Hwf & Hcap & _ & _ & _ & Hl & Hr & Hf & _). unfold tcp_flight_size.
  pose proof Hwf as (Hl0 & _).
  pose proof (budget_bound g (rb_len (s_tx_buffer s)) ltac:(lia)) as Hb.
  rewrite Hr, Hl.
  replace (g_iss g + g_una g) with (g_iss g + g_una g + 0) at 2 by lia.
  replace (g_iss g + g_una g + g_flight g) with (g_iss g + (g_una g + g_flight g)) by lia.
  replace (g_iss g + g_una g + 0) with (g_iss g + (g_una g + 0)) by lia.
  rewrite seq_sub_sq by lia. destruct (Z.ltb_spec (g_una g + g_flight g) (g_una g + 0)); [lia|].
  f_equal. lia.
Qed.

(* the data states of dispatch *)
Definition data_state (st : tcp_state) : bool :=
  match st with Established | FinWait1 | Closing | CloseWait | LastAck => true | _ => false end.
Definition fin_state (st : tcp_state) : bool :=
  match st with FinWait1 | Closing | LastAck => true | _ => false end.

Lemma rb_get_allocated_pos : forall r offset size,
  rb_wf r -> 0 <= offset < rb_len r -> 1 <= size ->
  1 <= l_len (rb_get_allocated r offset size).
Proof.
  intros r offset size Hwf Ho Hs. pose proof Hwf as (Hl & Hst & Hr & Hcap).
  unfold rb_get_allocated.
  destruct (Z.gtb_spec offset (rb_len r)); [lia|].
  assert (Hcp : 0 < rb_cap r) by lia.
  assert (Hi : 0 <= rb_get_idx r offset < rb_cap r).
  { unfold rb_get_idx. destruct (Z.gtb_spec (rb_cap r) 0); [|lia]. apply Z.mod_pos_bound. lia. }
  rewrite l_len_slice by lia. lia.
Qed.

Lemma build_data_spec : forall cx g s repr s2 r zwp tg,
  inv g s -> ctx_ok cx -> base_repr repr ->
  data_state (s_state s) = true -> g_phase g = PData ->
  r_seq_number repr = s_remote_last_seq s ->
  tcp_dispatch_build_data cx s repr = Ok (s2, Some r, zwp, tg) ->
  let eff := eff_mss (cx_ip_mtu cx) (s_remote_mss s) (opt_len repr) in
  let len := rb_len (s_tx_buffer s) in
  exists off n c,
    r = repr_set_control (repr_set_payload (repr_set_seq repr (sq (g_iss g + g_una g + off)))
                            (l_slice (g_acked g + off) n (g_stream g))) c /\
    (off = 0 \/ off = g_flight g) /\ 0 <= n /\ n <= eff /\
    (off <= len -> off + n <= len) /\ (len < off -> n = 0) /\
    (zwp = false -> n = 0 \/ off + n <= s_remote_win_len s) /\
    (zwp = true -> n <= 1 /\ off = g_flight g /\ s_remote_win_len s <= g_flight g /\
                   timer_should_zero_window_probe (s_timer s) (cx_now cx) = true) /\
    (c = CNone \/ c = CPsh \/ c = CFin) /\
    (c = CFin <-> (off + n = len /\ fin_state (s_state s) = true)) /\
    (c = CPsh -> 0 < n) /\
    (s2 = s \/ s2 = upd_pending_fast_retransmit s false) /\
    (n = 0 -> len <= off \/ eff <= 0 \/ s_remote_win_len s <= off \/
              cc_window (s_congestion_controller s) <= g_flight g).
Proof.
  intros cx g s repr s2 r zwp tg (Htx & Htm) Hcx Hbase Hds Hph Hseq H. cbv zeta.
  pose proof Htx as (Hwf & Hcap & Ha & Hlen & Hc & Hl & Hr & Hf & Hhw & Hpo & Hw & Hs).
  pose proof Hwf as (Hl0 & _).
  pose proof (budget_bound g (rb_len (s_tx_buffer s)) ltac:(lia)) as Hb.
  pose proof max_window_val as Hmw.
  unfold tcp_dispatch_build_data in H.
  rewrite (base_header_len _ Hbase) in H. unfold usub in H.
  assert (Hopt : 0 <= opt_len repr) by (unfold opt_len; destruct (is_some _); lia).
  replace (wtcp_HEADER_LEN + opt_len repr - wtcp_HEADER_LEN) with (opt_len repr) in H by lia.
  destruct (Z.ltb_spec (opt_len repr) 0); [lia|]. cbn [obind] in H.
  rewrite (tcp_local_mss_ok _ Hcx) in H. cbn [obind] in H.
  fold (eff_mss (cx_ip_mtu cx) (s_remote_mss s) (opt_len repr)) in H.
  set (eff := eff_mss (cx_ip_mtu cx) (s_remote_mss s) (opt_len repr)) in *.
  destruct (eff_mss_bounds (cx_ip_mtu cx) (s_remote_mss s) (opt_len repr) Hopt) as (He0 & _).
  fold eff in He0.
  (* the control flag chosen at the end *)
  assert (Hctl : forall s0 rp off,
     s_state s0 = s_state s -> s_tx_buffer s0 = s_tx_buffer s -> r_control rp = CNone ->
     let has_payload := match r_payload rp with [] => false | _ => true end in
     let rp' := if off + l_len (r_payload rp) =? rb_len (s_tx_buffer s0) then
                  match s_state s0 with
                  | FinWait1 | LastAck | Closing => repr_set_control rp CFin
                  | Established | CloseWait => if has_payload then repr_set_control rp CPsh else rp
                  | _ => rp
                  end
                else rp in
     exists c, rp' = repr_set_control rp c /\ (c = CNone \/ c = CPsh \/ c = CFin) /\
       (c = CFin <-> (off + l_len (r_payload rp) = rb_len (s_tx_buffer s) /\
                      fin_state (s_state s) = true)) /\
       (c = CPsh -> 0 < l_len (r_payload rp))).
  { intros s0 rp off Es Et Ec. cbv zeta. rewrite Es, Et.
    assert (Hid : rp = repr_set_control rp CNone) by (destruct rp; cbn in Ec |- *; rewrite Ec; reflexivity).
    destruct (Z.eqb_spec (off + l_len (r_payload rp)) (rb_len (s_tx_buffer s))).
    - destruct (s_state s) eqn:Est; cbn [data_state] in Hds; try discriminate; cbn [fin_state].
      + destruct (r_payload rp) eqn:Ep.
        * exists CNone. split; [exact Hid|]. split; [auto|]. split; [split; [discriminate|intros (_ & X); discriminate]|discriminate].
        * exists CPsh. split; [reflexivity|]. split; [auto|]. split; [split; [discriminate|intros (_ & X); discriminate]|].
          intros _. apply l_len_cons_pos.
      + exists CFin. split; [reflexivity|]. split; [auto|]. split; [tauto|discriminate].
      + destruct (r_payload rp) eqn:Ep.
        * exists CNone. split; [exact Hid|]. split; [auto|]. split; [split; [discriminate|intros (_ & X); discriminate]|discriminate].
        * exists CPsh. split; [reflexivity|]. split; [auto|]. split; [split; [discriminate|intros (_ & X); discriminate]|].
          intros _. apply l_len_cons_pos.
      + exists CFin. split; [reflexivity|]. split; [auto|]. split; [tauto|discriminate].
      + exists CFin. split; [reflexivity|]. split; [auto|]. split; [tauto|discriminate].
    - exists CNone. split; [exact Hid|]. split; [auto|]. split; [split; [discriminate|tauto]|discriminate]. }
  destruct Hbase as (Hbc & Hbp & _).
  destruct (s_pending_fast_retransmit s && (s_remote_win_len s >? 0)) eqn:Efast; cbn [obind] in H.
  - (* fast retransmission: from SND.UNA, limited by MSS, queue and window *)
    apply andb_prop in Efast. destruct Efast as (_ & Ewin). apply Z.gtb_lt in Ewin.
    set (size := Z.min (Z.min eff (rb_len (s_tx_buffer s))) (s_remote_win_len s)) in *.
    destruct (get_allocated_stream _ _ _ _ _ _ _ _ 0 size Htx ltac:(lia)) as (Epl & P0 & P1 & P2).
    set (pl := rb_get_allocated (s_tx_buffer s) 0 size) in *.
    destruct (Hctl (upd_pending_fast_retransmit s false)
                   (repr_set_payload (repr_set_seq repr (s_local_seq_no s)) pl) 0
                   eq_refl eq_refl Hbc) as (c & Ec & Hc1 & Hc2 & Hc3).
    cbv zeta in Ec. rewrite Ec in H. cbn [r_payload repr_set_payload] in Hc2, Hc3.
    injection H as <- <- <- <-.
    exists 0, (l_len pl), c.
    split; [rewrite Hl, <- Epl, Z.add_0_r; reflexivity|].
    split; [auto|]. split; [lia|]. split; [lia|]. split; [lia|]. split; [lia|].
    split; [intros _; right; lia|]. split; [discriminate|].
    split; [exact Hc1|]. split; [exact Hc2|]. split; [exact Hc3|]. split; [auto|].
    intros Hz. destruct (Z.leb_spec size 0); [lia|].
    destruct (Z.leb_spec (rb_len (s_tx_buffer s)) 0); [lia|].
    pose proof (rb_get_allocated_pos (s_tx_buffer s) 0 size Hwf ltac:(lia) ltac:(lia)). fold pl in H2. lia.
  - (* normal transmission or zero-window probe: from SND.NXT *)
    rewrite Hl, Hr in H. rewrite seq_add_sq in H.
    replace (g_iss g + g_una g + s_remote_win_len s) with (g_iss g + (g_una g + s_remote_win_len s)) in H by lia.
    replace (g_iss g + g_una g + g_flight g) with (g_iss g + (g_una g + g_flight g)) in H by lia.
    rewrite seq_ge_sq, seq_sub_sq in H by lia.
    assert (Hwl : exists wl, 0 <= wl /\ (wl = 0 -> s_remote_win_len s <= g_flight g) /\
                  (0 < wl -> wl = s_remote_win_len s - g_flight g) /\
              (do win_limit <- Ok wl;
        do size <-
        (if (win_limit =? 0) && timer_should_zero_window_probe (s_timer s) (cx_now cx)
         then Ok (Z.min (if (win_limit =? 0) && timer_should_zero_window_probe (s_timer s) (cx_now cx)
                         then 1 else win_limit) eff)
         else
          do cwr <- tcp_cwnd_remaining s;
          Ok (Z.min (Z.min (if (win_limit =? 0) && timer_should_zero_window_probe (s_timer s) (cx_now cx)
                            then 1 else win_limit) eff) cwr));
        do offset <- tcp_flight_size s;
        Ok (s, repr_set_payload repr (rb_get_allocated (s_tx_buffer s) offset size), offset,
           (win_limit =? 0) && timer_should_zero_window_probe (s_timer s) (cx_now cx),
           if (win_limit =? 0) && timer_should_zero_window_probe (s_timer s) (cx_now cx)
           then 225 else 226)) =
              (do win_limit <-
        (if g_una g + s_remote_win_len s >=? g_una g + g_flight g
         then
          if g_una g + s_remote_win_len s <? g_una g + g_flight g
          then Panic
          else Ok (g_una g + s_remote_win_len s - (g_una g + g_flight g))
         else Ok 0);
        do size <-
        (if (win_limit =? 0) && timer_should_zero_window_probe (s_timer s) (cx_now cx)
         then Ok (Z.min (if (win_limit =? 0) && timer_should_zero_window_probe (s_timer s) (cx_now cx)
                         then 1 else win_limit) eff)
         else
          do cwr <- tcp_cwnd_remaining s;
          Ok (Z.min (Z.min (if (win_limit =? 0) && timer_should_zero_window_probe (s_timer s) (cx_now cx)
                            then 1 else win_limit) eff) cwr));
        do offset <- tcp_flight_size s;
        Ok (s, repr_set_payload repr (rb_get_allocated (s_tx_buffer s) offset size), offset,
           (win_limit =? 0) && timer_should_zero_window_probe (s_timer s) (cx_now cx),
           if (win_limit =? 0) && timer_should_zero_window_probe (s_timer s) (cx_now cx)
           then 225 else 226))).
    { destruct (Z.geb_spec (g_una g + s_remote_win_len s) (g_una g + g_flight g)).
      - destruct (Z.ltb_spec (g_una g + s_remote_win_len s) (g_una g + g_flight g)); [lia|].
        exists (g_una g + s_remote_win_len s - (g_una g + g_flight g)).
        split; [lia|]. split; [lia|]. split; [lia|reflexivity].
      - exists 0. split; [lia|]. split; [lia|]. split; [lia|reflexivity]. }
    destruct Hwl as (wl & Hwl0 & Hwl1 & Hwl2 & Ewl). rewrite <- Ewl in H. clear Ewl.
    cbn [obind] in H. rewrite (flight_size_ok _ _ Htx) in H.
    set (zw := (wl =? 0) && timer_should_zero_window_probe (s_timer s) (cx_now cx)) in *.
    assert (Hsize : exists size, size <= eff /\ (zw = true -> size <= 1) /\ (zw = false -> size <= wl) /\
      (size <= 0 -> eff <= 0 \/ wl <= 0 \/ cc_window (s_congestion_controller s) <= g_flight g) /\
      (do r1 <- (do size0 <- Ok size;
                do offset <- Ok (g_flight g);
                Ok (s, repr_set_payload repr (rb_get_allocated (s_tx_buffer s) offset size0), offset, zw,
                    if zw then 225 else 226));
       let '(s, repr, offset, zwp, tg) := r1 in
        Ok (s, Some
             (if offset + l_len (r_payload repr) =? rb_len (s_tx_buffer s)
              then match s_state s with
               | Established | CloseWait =>
                   if match r_payload repr with [] => false | _ :: _ => true end
                   then repr_set_control repr CPsh else repr
               | FinWait1 | Closing | LastAck => repr_set_control repr CFin
               | _ => repr
               end
              else repr), zwp, tg)) = Ok (s2, Some r, zwp, tg)).
    { destruct zw eqn:Ezw.
      - exists (Z.min 1 eff). split; [lia|]. split; [lia|]. split; [discriminate|]. split; [lia|exact H].
      - unfold tcp_cwnd_remaining in H. rewrite (flight_size_ok _ _ Htx) in H. cbn [obind] in H.
        eexists. split; [|split; [discriminate|split; [|split; [|exact H]]]]; unfold sat_sub; lia. }
    clear H. destruct Hsize as (size & Hsz1 & Hsz2 & Hsz3 & Hsz4 & H). cbn [obind] in H.
    (* the payload read at offset flight *)
    assert (Hpl : exists n, rb_get_allocated (s_tx_buffer s) (g_flight g) size =
                            l_slice (g_acked g + g_flight g) n (g_stream g) /\
                  l_len (rb_get_allocated (s_tx_buffer s) (g_flight g) size) = n /\
                  0 <= n /\ n <= Z.max 0 size /\
                  (g_flight g <= rb_len (s_tx_buffer s) -> g_flight g + n <= rb_len (s_tx_buffer s)) /\
                  (rb_len (s_tx_buffer s) < g_flight g -> n = 0) /\
                  (n = 0 -> rb_len (s_tx_buffer s) <= g_flight g \/ size <= 0)).
    { destruct (Z.leb_spec (g_flight g) (rb_len (s_tx_buffer s))).
      - destruct (get_allocated_stream _ _ _ _ _ _ _ _ (g_flight g) size Htx ltac:(lia))
          as (Epl & P0 & P1 & P2).
        eexists. split; [exact Epl|]. split; [reflexivity|]. split; [lia|]. split; [lia|].
        split; [lia|]. split; [lia|]. intros Hz.
        destruct (Z.leb_spec (rb_len (s_tx_buffer s)) (g_flight g)); [auto|].
        destruct (Z.leb_spec size 0); [auto|].
        pose proof (rb_get_allocated_pos (s_tx_buffer s) (g_flight g) size Hwf ltac:(lia) ltac:(lia)). lia.
      - rewrite rb_get_allocated_beyond by lia. exists 0.
        split; [rewrite l_slice_nonpos by lia; reflexivity|]. split; [reflexivity|]. lia. }
    destruct Hpl as (n & Epl & Enl & Hn0 & Hn1 & Hn2 & Hn3 & Hn4).
    set (pl := rb_get_allocated (s_tx_buffer s) (g_flight g) size) in *.
    destruct (Hctl s (repr_set_payload repr pl) (g_flight g) eq_refl eq_refl Hbc)
      as (c & Ec & Hc1 & Hc2 & Hc3).
    cbv zeta in Ec. rewrite Ec in H. cbn [r_payload repr_set_payload] in Hc2, Hc3.
    injection H as <- <- <- <-.
    exists (g_flight g), n, c.
    split.
    { rewrite <- Epl, <- Hr, <- Hseq. destruct repr; reflexivity. }
    rewrite Enl in *.
    split; [auto|]. split; [lia|]. split; [lia|]. split; [exact Hn2|]. split; [exact Hn3|].
    split; [intros Ez; specialize (Hsz3 Ez); lia|].
    split.
    { intros Ez. specialize (Hsz2 Ez). unfold zw in Ez. apply andb_prop in Ez.
      destruct Ez as (Ez1 & Ez2). apply Z.eqb_eq in Ez1.
      split; [lia|]. split; [reflexivity|]. split; [auto|exact Ez2]. }
    split; [exact Hc1|]. split; [exact Hc2|]. split; [exact Hc3|]. split; [auto|].
    intros Hz. destruct (Hn4 Hz) as [X|X]; [auto|]. destruct (Hsz4 X) as [Y|[Y|Y]]; [auto| |auto].
    right; right; left. apply Hwl1. lia.
Qed.

(* ------------------------------------------------------------------------------------------ *)
(* the last steps of segment construction (bare-ACK sequence number, keep-alive, MSS option)    *)
(* ------------------------------------------------------------------------------------------ *)
Definition with_mss (repr : tcp_repr) (m : Z) : tcp_repr :=
  mkRepr (r_src_port repr) (r_dst_port repr) (r_control repr) (r_seq_number repr)
         (r_ack_number repr) (r_window_len repr) (r_window_scale repr)
         (Some (m mod 65536)) (r_sack_permitted repr) (r_sack_ranges repr)
         (r_timestamp repr) (r_payload repr).

Definition post_build (cx : ctx) (s : socket) (repr : tcp_repr) (zwp : bool) (tg : Z)
  : outcome (socket * option tcp_repr * bool * bool * Z) :=
  let now := cx_now cx in
  let repr := if repr_is_empty repr && control_eqb (r_control repr) CNone
              then repr_set_seq repr (tcp_send_next_seq s) else repr in
  let is_keep_alive := timer_should_keep_alive (s_timer s) now && repr_is_empty repr in
  let repr := if is_keep_alive
              then repr_set_payload (repr_set_seq repr (seq_subn (r_seq_number repr) 1)) [0]
              else repr in
  do repr <-
    (if control_eqb (r_control repr) CSyn then
       do m <- tcp_local_mss cx;
       Ok (with_mss repr m)
     else Ok repr);
  Ok (s, Some repr, zwp, is_keep_alive, tg).

Lemma post_nonempty : forall cx s repr zwp tg s2 r zwp2 ka tg2,
  ctx_ok cx -> repr_is_empty repr = false ->
  post_build cx s repr zwp tg = Ok (s2, Some r, zwp2, ka, tg2) ->
  s2 = s /\ zwp2 = zwp /\ ka = false /\
  r = (if control_eqb (r_control repr) CSyn
       then with_mss repr (cx_ip_mtu cx - wipv4_HEADER_LEN - wtcp_HEADER_LEN) else repr).
Proof.
  intros cx s repr zwp tg s2 r zwp2 ka tg2 Hcx He H. unfold post_build in H.
  rewrite He in H. cbn [andb] in H. rewrite He in H. rewrite andb_false_r in H.
  rewrite (tcp_local_mss_ok _ Hcx) in H.
  destruct (control_eqb (r_control repr) CSyn); cbn [obind] in H; injection H as <- <- <- <- <-; auto.
Qed.

Lemma post_empty : forall cx s repr zwp tg s2 r zwp2 ka tg2,
  repr_is_empty repr = true -> r_control repr = CNone ->
  post_build cx s repr zwp tg = Ok (s2, Some r, zwp2, ka, tg2) ->
  s2 = s /\ zwp2 = zwp /\
  ((ka = false /\ r = repr_set_seq repr (tcp_send_next_seq s)) \/
   (ka = true /\ timer_should_keep_alive (s_timer s) (cx_now cx) = true /\
    r = repr_set_payload (repr_set_seq repr (seq_subn (tcp_send_next_seq s) 1)) [0])).
Proof.
  intros cx s repr zwp tg s2 r zwp2 ka tg2 He Hc H. unfold post_build in H.
  rewrite He, Hc in H. cbn [control_eqb andb] in H.
  assert (He' : repr_is_empty (repr_set_seq repr (tcp_send_next_seq s)) = true).
  { unfold repr_is_empty in *. cbn [repr_set_seq r_payload r_control]. exact He. }
  rewrite He' in H. rewrite andb_true_r in H.
  destruct (timer_should_keep_alive (s_timer s) (cx_now cx)) eqn:Eka;
  cbn [repr_set_payload repr_set_seq r_control r_seq_number] in H; rewrite Hc in H;
  cbn [control_eqb obind] in H; injection H as <- <- <- <- <-; auto.
  split; [reflexivity|]. split; [reflexivity|]. right. auto.
Qed.

Lemma build_unfold : forall cx s t,
  tcp_dispatch_build cx s t =
  (let ts := if s_tsval_generator s then Some (cx_tsval cx, s_last_remote_tsval s) else None in
   let repr := mkRepr (tu_local_port t) (tu_remote_port t) CNone (s_remote_last_seq s)
                      (Some (tcp_window_start s)) (tcp_scaled_window s) None None false no_sack ts [] in
   do built <-
     match s_state s with
     | Closed => Ok (s, Some (repr_set_control repr CRst), false, 220)
     | Listen => Ok (s, None, false, 221)
     | FinWait1 =>
         if s_syn_unacked_in_fin_wait s
         then Ok (s, Some (tcp_syn_repr s repr ts false), false, 228)
         else tcp_dispatch_build_data cx s repr
     | SynSent => Ok (s, Some (tcp_syn_repr s repr ts true), false, 222)
     | SynReceived => Ok (s, Some (tcp_syn_repr s repr ts false), false, 223)
     | Established | Closing | CloseWait | LastAck => tcp_dispatch_build_data cx s repr
     | FinWait2 | TimeWait => Ok (s, Some repr, false, 227)
     end;
   let '(s, orepr, zwp, tg) := built in
   match orepr with
   | None => Ok (s, None, false, false, tg)
   | Some repr => post_build cx s repr zwp tg
   end).
Proof. reflexivity. Qed.

(* ------------------------------------------------------------------------------------------ *)
(* every segment dispatch builds                                                                *)
(* ------------------------------------------------------------------------------------------ *)
Definition ts_opt (s : socket) : Z := if s_tsval_generator s then 12 else 0.

Definition seg_ok (cx : ctx) (g : ghost) (s : socket) (r : tcp_repr) (zwp ka : bool) : Prop :=
  let n := l_len (r_payload r) in
  let len := rb_len (s_tx_buffer s) in
  (ka = true ->
     r_payload r = [0] /\ r_control r = CNone /\
     r_seq_number r = seq_subn (tcp_send_next_seq s) 1 /\
     timer_should_keep_alive (s_timer s) (cx_now cx) = true /\
     r_window_len r = tcp_scaled_window s) /\
  (ka = false ->
     (0 < n \/ r_control r = CFin ->
        g_phase g = PData /\ data_state (s_state s) = true /\
        repr_header_len r = wtcp_HEADER_LEN + ts_opt s /\
        exists off, (off = 0 \/ off = g_flight g) /\
          r_seq_number r = sq (g_iss g + g_una g + off) /\
          r_payload r = l_slice (g_acked g + off) n (g_stream g) /\
          off + n <= len /\
          n <= eff_mss (cx_ip_mtu cx) (s_remote_mss s) (ts_opt s) /\
          (zwp = false -> n = 0 \/ off + n <= s_remote_win_len s) /\
          (zwp = true -> n <= 1 /\ off = g_flight g /\ s_remote_win_len s <= g_flight g /\
                         timer_should_zero_window_probe (s_timer s) (cx_now cx) = true) /\
          (r_control r = CFin -> off + n = len /\ fin_state (s_state s) = true)) /\
     (r_control r = CSyn ->
        n = 0 /\ g_phase g = PSyn /\ zwp = false /\ r_seq_number r = sq (g_iss g + g_una g) /\
        r_window_len r = u16_try (rb_window (s_rx_buffer s)) /\
        r_max_seg_size r =
          Some ((cx_ip_mtu cx - wipv4_HEADER_LEN - wtcp_HEADER_LEN) mod 65536) /\
        r_window_scale r =
          (if tcp_state_eqb (s_state s) SynSent then Some (s_remote_win_shift s)
           else match s_remote_win_scale s with
                | Some _ => Some (s_remote_win_shift s) | None => None end)) /\
     (r_control r = CRst -> n = 0 /\ zwp = false) /\
     (r_control r <> CSyn ->
        r_window_len r = tcp_scaled_window s /\ r_window_scale r = None /\
        r_max_seg_size r = None)).

(* what is known when the segment built is a keep-alive: nothing else could be sent *)
Definition ka_ok (cx : ctx) (g : ghost) (s : socket) : Prop :=
  let len := rb_len (s_tx_buffer s) in
  g_phase g = PFinAcked \/
  (g_phase g = PData /\ data_state (s_state s) = true /\
   exists off, (off = 0 \/ off = g_flight g) /\
     ~ (off = len /\ fin_state (s_state s) = true) /\
     (len <= off \/ eff_mss (cx_ip_mtu cx) (s_remote_mss s) (ts_opt s) <= 0 \/
      s_remote_win_len s <= off \/ cc_window (s_congestion_controller s) <= g_flight g)).

Lemma base_repr_mk : forall a b c d e f, base_repr (mkRepr a b CNone c d e None None false no_sack f []).
Proof. intros. unfold base_repr. cbn. repeat split; reflexivity. Qed.

Lemma build_spec : forall cx g s t s2 r zwp ka tg,
  inv g s -> ctx_ok cx ->
  tcp_dispatch_build cx s t = Ok (s2, Some r, zwp, ka, tg) ->
  (s2 = s \/ s2 = upd_pending_fast_retransmit s false) /\ seg_ok cx g s r zwp ka /\
  (ka = true -> ka_ok cx g s).
Proof.
  intros cx g s t s2 r zwp ka tg Hinv Hcx H. rewrite build_unfold in H. cbv zeta in H.
  set (ts := if s_tsval_generator s then Some (cx_tsval cx, s_last_remote_tsval s) else None) in *.
  set (repr := mkRepr (tu_local_port t) (tu_remote_port t) CNone (s_remote_last_seq s)
                      (Some (tcp_window_start s)) (tcp_scaled_window s) None None false no_sack ts []) in *.
  assert (Hbase : base_repr repr) by apply base_repr_mk.
  assert (Hopt : opt_len repr = ts_opt s).
  { unfold opt_len, ts_opt, repr, ts. cbn [r_timestamp]. destruct (s_tsval_generator s); reflexivity. }
  pose proof Hinv as ((Hwf & Hcap & Ha & Hlen & Hc & Hl & Hr & Hf & Hhw & Hpo & Hw & Hs) & Htm).
  (* the data states *)
  assert (Hdata : forall s2' r1 zwp1 tg1, data_state (s_state s) = true -> g_phase g = PData ->
            tcp_dispatch_build_data cx s repr = Ok (s2', Some r1, zwp1, tg1) ->
            post_build cx s2' r1 zwp1 tg1 = Ok (s2, Some r, zwp, ka, tg) ->
            (s2 = s \/ s2 = upd_pending_fast_retransmit s false) /\ seg_ok cx g s r zwp ka /\
            (ka = true -> ka_ok cx g s)).
  { intros s2' r1 zwp1 tg1 Hds Hph Hb Hp.
    destruct (build_data_spec cx g s repr s2' r1 zwp1 tg1 Hinv Hcx Hbase Hds Hph eq_refl Hb)
      as (off & n & c & Er & Hoff & Hn0 & Hn1 & Hn2 & Hn3 & Hz0 & Hz1 & Hc1 & Hc2 & Hc3 & Hs2 & Hn4).
    rewrite Hopt in Hn1, Hn4.
    assert (Hsl : l_len (l_slice (g_acked g + off) n (g_stream g)) = n).
    { pose proof Hwf as (Hl0 & _). destruct (Z.leb_spec off (rb_len (s_tx_buffer s))).
      - apply l_len_slice; lia.
      - rewrite (Hn3 ltac:(lia)). rewrite l_slice_nonpos by lia. reflexivity. }
    assert (Hts : tcp_send_next_seq s2' = tcp_send_next_seq s /\ s_timer s2' = s_timer s).
    { destruct Hs2 as [->| ->]; split; reflexivity. }
    destruct Hts as (Hts1 & Hts2).
    destruct (repr_is_empty r1) eqn:Eemp.
    - (* nothing to send: a bare ACK or a keep-alive *)
      assert (Hcn : r_control r1 = CNone /\ n = 0).
      { rewrite Er in Eemp |- *. unfold repr_is_empty in Eemp.
        cbn [repr_set_control repr_set_payload r_payload r_control] in Eemp |- *.
        destruct (l_slice (g_acked g + off) n (g_stream g)) eqn:Esl; [|discriminate].
        rewrite l_len_nil in Hsl. split; [|lia].
        destruct Hc1 as [->|[->| ->]]; [reflexivity| |discriminate].
        specialize (Hc3 eq_refl). lia. }
      destruct Hcn as (Hcn & Hn00).
      assert (Ec : c = CNone) by (rewrite Er in Hcn; exact Hcn).
      destruct (post_empty _ _ _ _ _ _ _ _ _ _ Eemp Hcn Hp) as (-> & -> & [(-> & Er2)|(-> & Hka & Er2)]).
      + split; [exact Hs2|]. split; [|discriminate]. unfold seg_ok. cbv zeta. split; [discriminate|]. intros _.
        rewrite Er2, Er. cbn [repr_set_seq repr_set_control repr_set_payload r_payload r_control
                              r_window_len r_window_scale r_max_seg_size r_seq_number].
        rewrite Hsl, Hn00, Ec.
        split; [intros [X|X]; [lia|discriminate]|]. split; [discriminate|]. split; [discriminate|].
        intros _. repeat split; reflexivity.
      + split; [exact Hs2|]. split.
        2:{ intros _. unfold ka_ok. cbv zeta. right. split; [exact Hph|]. split; [exact Hds|].
            exists off. split; [exact Hoff|]. split; [|exact (Hn4 Hn00)].
            intros (X1 & X2). assert (Y : c = CFin) by (apply Hc2; split; [lia|exact X2]). congruence. }
        unfold seg_ok. cbv zeta. split; [|discriminate]. intros _.
        rewrite Er2, Er. cbn [repr_set_seq repr_set_payload repr_set_control r_payload r_control r_seq_number
                              r_window_len repr].
        rewrite Hts1, <- Hts2, Ec. auto 6.
    - (* a data segment and/or a FIN *)
      destruct (post_nonempty _ _ _ _ _ _ _ _ _ _ Hcx Eemp Hp) as (-> & -> & -> & Er2).
      assert (Ecs : control_eqb (r_control r1) CSyn = false).
      { rewrite Er. cbn [repr_set_control r_control]. destruct Hc1 as [->|[->| ->]]; reflexivity. }
      rewrite Ecs in Er2. subst r.
      split; [exact Hs2|]. split; [|discriminate]. unfold seg_ok. cbv zeta. split; [discriminate|]. intros _.
      rewrite Er. cbn [repr_set_seq repr_set_control repr_set_payload r_payload r_control
                       r_window_len r_window_scale r_max_seg_size r_seq_number].
      rewrite Hsl.
      split.
      { intros Hpre. split; [exact Hph|]. split; [exact Hds|].
        split; [rewrite header_len_set, (base_header_len _ Hbase), Hopt; reflexivity|].
        exists off. split; [exact Hoff|]. split; [reflexivity|]. split; [reflexivity|].
        assert (Hol : off + n <= rb_len (s_tx_buffer s)).
        { destruct Hpre as [X|X]; [|apply Hc2 in X; lia].
          destruct (Z.leb_spec off (rb_len (s_tx_buffer s))); [auto|]. specialize (Hn3 ltac:(lia)). lia. }
        split; [exact Hol|]. split; [exact Hn1|]. split; [exact Hz0|]. split.
        - intros X. destruct (Hz1 X) as (Z1 & Z2 & Z3 & Z4). auto.
        - intros X. apply Hc2. exact X. }
      split; [intros X; destruct Hc1 as [Y|[Y|Y]]; rewrite Y in X; discriminate|].
      split; [intros X; destruct Hc1 as [Y|[Y|Y]]; rewrite Y in X; discriminate|].
      intros _. repeat split; reflexivity. }
  (* SYN segments *)
  assert (Hsyn : forall syn_sent, g_phase g = PSyn ->
            tcp_state_eqb (s_state s) SynSent = syn_sent ->
            post_build cx s (tcp_syn_repr s repr ts syn_sent) false tg = Ok (s2, Some r, zwp, ka, tg) ->
            (s2 = s \/ s2 = upd_pending_fast_retransmit s false) /\ seg_ok cx g s r zwp ka /\
            (ka = true -> ka_ok cx g s)).
  { intros syn_sent Hph Hss Hp.
    destruct (post_nonempty cx s (tcp_syn_repr s repr ts syn_sent) _ _ _ _ _ _ _ Hcx eq_refl Hp)
      as (-> & -> & -> & Er2).
    cbn [tcp_syn_repr r_control control_eqb] in Er2. subst r.
    split; [left; reflexivity|]. split; [|discriminate]. unfold seg_ok. cbv zeta. split; [discriminate|]. intros _.
    cbn [with_mss tcp_syn_repr r_payload r_control r_window_len r_window_scale r_max_seg_size
         r_seq_number].
    rewrite l_len_nil.
    split; [intros [X|X]; [lia|discriminate]|].
    split.
    { intros _. split; [reflexivity|]. split; [exact Hph|]. split; [reflexivity|].
      split; [rewrite Hl; reflexivity|]. split; [reflexivity|]. split; [reflexivity|].
      rewrite Hss. destruct syn_sent; reflexivity. }
    split; [discriminate|]. intros X. congruence. }
  unfold phase_ok in Hpo.
  destruct (s_state s) eqn:Est; cbn [obind] in H.
  - (* Closed: RST *)
    destruct (post_nonempty cx s (repr_set_control repr CRst) _ _ _ _ _ _ _ Hcx eq_refl H)
      as (-> & -> & -> & Er2).
    cbn [repr_set_control r_control control_eqb] in Er2. subst r.
    split; [left; reflexivity|]. split; [|discriminate]. unfold seg_ok. cbv zeta. split; [discriminate|]. intros _.
    cbn [repr_set_control r_payload r_control r_window_len r_window_scale r_max_seg_size
         r_seq_number repr]. rewrite l_len_nil.
    split; [intros [X|X]; [lia|discriminate]|]. split; [discriminate|].
    split; [intros _; split; reflexivity|]. intros _. repeat split; reflexivity.
  - discriminate.
  - (* SynSent *)
    assert (Etg : tg = 222).
    { unfold post_build in H. destruct (control_eqb _ CSyn); cbn [obind] in H;
      repeat match type of H with context [obind ?x _] => destruct x; cbn [obind] in H; try discriminate end;
      injection H; auto. }
    subst tg. apply (Hsyn true); [destruct (g_phase g); tauto|reflexivity|exact H].
  - (* SynReceived *)
    assert (Etg : tg = 223).
    { unfold post_build in H. destruct (control_eqb _ CSyn); cbn [obind] in H;
      repeat match type of H with context [obind ?x _] => destruct x; cbn [obind] in H; try discriminate end;
      injection H; auto. }
    subst tg. apply (Hsyn false); [destruct (g_phase g); tauto|reflexivity|exact H].
  - (* Established *)
    destruct (tcp_dispatch_build_data cx s repr) as [[[[s2' [r1|]] zwp1] tg1]| |] eqn:Eb;
      cbn [obind] in H; try discriminate.
    apply (Hdata s2' r1 zwp1 tg1); [reflexivity|destruct (g_phase g); tauto|reflexivity|exact H].
  - (* FinWait1 *)
    destruct (s_syn_unacked_in_fin_wait s) eqn:Efw; cbn [obind] in H.
    + assert (Etg : tg = 228).
      { unfold post_build in H. destruct (control_eqb _ CSyn); cbn [obind] in H;
        repeat match type of H with context [obind ?x _] => destruct x; cbn [obind] in H; try discriminate end;
        injection H; auto. }
      subst tg. apply (Hsyn false); [|reflexivity|exact H].
      destruct (g_phase g); [reflexivity| |tauto]. destruct Hpo as (_ & X). discriminate.
    + destruct (tcp_dispatch_build_data cx s repr) as [[[[s2' [r1|]] zwp1] tg1]| |] eqn:Eb;
        cbn [obind] in H; try discriminate.
      apply (Hdata s2' r1 zwp1 tg1); [reflexivity| |reflexivity|exact H].
      destruct (g_phase g); [|reflexivity|tauto]. destruct Hpo as (_ & _ & _ & X). discriminate.
  - (* FinWait2: a bare ACK or a keep-alive *)
    assert (Hemp : repr_is_empty repr = true) by reflexivity.
    destruct (post_empty _ _ _ _ _ _ _ _ _ _ Hemp eq_refl H) as (-> & -> & [(-> & Er2)|(-> & Hka & Er2)]);
    (split; [left; reflexivity|]); unfold seg_ok; cbv zeta; subst r.
    + split; [|discriminate]. split; [discriminate|]. intros _.
      cbn [repr_set_seq r_payload r_control r_window_len r_window_scale r_max_seg_size r_seq_number repr].
      rewrite l_len_nil.
      split; [intros [X|X]; [lia|discriminate]|]. split; [discriminate|]. split; [discriminate|].
      intros _. repeat split; reflexivity.
    + split; [|intros _; unfold ka_ok; cbv zeta; left; destruct (g_phase g); first [reflexivity|tauto]].
      split; [|discriminate]. intros _.
      cbn [repr_set_seq repr_set_payload r_payload r_control r_seq_number r_window_len repr].
      auto 6.
  - (* CloseWait *)
    destruct (tcp_dispatch_build_data cx s repr) as [[[[s2' [r1|]] zwp1] tg1]| |] eqn:Eb;
      cbn [obind] in H; try discriminate.
    apply (Hdata s2' r1 zwp1 tg1); [reflexivity|destruct (g_phase g); tauto|reflexivity|exact H].
  - (* Closing *)
    destruct (tcp_dispatch_build_data cx s repr) as [[[[s2' [r1|]] zwp1] tg1]| |] eqn:Eb;
      cbn [obind] in H; try discriminate.
    apply (Hdata s2' r1 zwp1 tg1); [reflexivity|destruct (g_phase g); tauto|reflexivity|exact H].
  - (* LastAck *)
    destruct (tcp_dispatch_build_data cx s repr) as [[[[s2' [r1|]] zwp1] tg1]| |] eqn:Eb;
      cbn [obind] in H; try discriminate.
    apply (Hdata s2' r1 zwp1 tg1); [reflexivity|destruct (g_phase g); tauto|reflexivity|exact H].
  - (* TimeWait *)
    assert (Hemp : repr_is_empty repr = true) by reflexivity.
    destruct (post_empty _ _ _ _ _ _ _ _ _ _ Hemp eq_refl H) as (-> & -> & [(-> & Er2)|(-> & Hka & Er2)]);
    (split; [left; reflexivity|]); unfold seg_ok; cbv zeta; subst r.
    + split; [|discriminate]. split; [discriminate|]. intros _.
      cbn [repr_set_seq r_payload r_control r_window_len r_window_scale r_max_seg_size r_seq_number repr].
      rewrite l_len_nil.
      split; [intros [X|X]; [lia|discriminate]|]. split; [discriminate|]. split; [discriminate|].
      intros _. repeat split; reflexivity.
    + split; [|intros _; unfold ka_ok; cbv zeta; left; destruct (g_phase g); first [reflexivity|tauto]].
      split; [|discriminate]. intros _.
      cbn [repr_set_seq repr_set_payload r_payload r_control r_seq_number r_window_len repr].
      auto 6.
Qed.
