(* C05, layer 4: the segments [tcp_dispatch] builds.  First the data path
   ([tcp_dispatch_build_data]: fast retransmission, normal transmission, zero-window probe),
   characterised in terms of the ghost stream. *)
From SV Require Import Lib.Base Gen.Consts.
From SV Require Import Model.Seq32 Model.Assembler Model.TcpBuf Model.TcpTypes Model.Tcp.
From SV Require Import Proofs.TcpSendBase Proofs.TcpSendInv Proofs.TcpSendAck Proofs.TcpSendProc
                       Proofs.TcpSendApi.

(* the skeleton segment dispatch starts from: an empty ACK without SYN options *)
Definition base_repr (r : tcp_repr) : Prop :=
  r_control r = CNone /\ r_payload r = [] /\ r_window_scale r = None /\ r_max_seg_size r = None /\
  r_sack_permitted r = false /\ r_sack_ranges r = no_sack.

Definition opt_len (r : tcp_repr) : Z := if is_some (r_timestamp r) then 12 else 0.

Lemma base_header_len : forall r, base_repr r -> repr_header_len r = wtcp_HEADER_LEN + opt_len r.
Proof.
  intros r (_ & _ & Hws & Hm & Hsp & Hsr). unfold repr_header_len, opt_len.
  rewrite Hws, Hm, Hsp, Hsr. cbn [is_some no_sack fold_left].
  destruct (r_timestamp r); cbn [is_some]; reflexivity.
Qed.

Lemma header_len_set : forall r x pl c,
  repr_header_len (repr_set_control (repr_set_payload (repr_set_seq r x) pl) c) = repr_header_len r.
Proof. intros. reflexivity. Qed.

Lemma flight_size_ok : forall g s, tx_inv g s -> tcp_flight_size s = Ok (g_flight g).
Proof.
  intros g s (Hwf & Hcap & _ & _ & _ & Hl & Hr & Hf & _). unfold tcp_flight_size.
  pose proof Hwf as (Hl0 & _).
  pose proof (budget_bound g (rb_len (s_tx_buffer s)) ltac:(lia)) as Hb.
  rewrite Hr, Hl.
  replace (g_iss g + g_una g) with (g_iss g + g_una g + 0) at 2 by lia.
  replace (g_iss g + g_una g + g_flight g) with (g_iss g + (g_una g + g_flight g)) by lia.
  replace (g_iss g + g_una g + 0) with (g_iss g + (g_una g + 0)) by lia.
  rewrite seq_sub_sq by lia. destruct (Z.ltb_spec (g_una g + g_flight g) (g_una g + 0)); [lia|].
  f_equal. lia.
Qed.

(* the data states of dispatch *)
Definition data_state (st : tcp_state) : bool :=
  match st with Established | FinWait1 | Closing | CloseWait | LastAck => true | _ => false end.
Definition fin_state (st : tcp_state) : bool :=
  match st with FinWait1 | Closing | LastAck => true | _ => false end.

Lemma build_data_spec : forall cx g s repr s2 r zwp tg,
  inv g s -> ctx_ok cx -> base_repr repr ->
  data_state (s_state s) = true -> g_phase g = PData ->
  r_seq_number repr = s_remote_last_seq s ->
  tcp_dispatch_build_data cx s repr = Ok (s2, Some r, zwp, tg) ->
  let eff := eff_mss (cx_ip_mtu cx) (s_remote_mss s) (opt_len repr) in
  let len := rb_len (s_tx_buffer s) in
  exists off n c,
    r = repr_set_control (repr_set_payload (repr_set_seq repr (sq (g_iss g + g_una g + off)))
                            (l_slice (g_acked g + off) n (g_stream g))) c /\
    (off = 0 \/ off = g_flight g) /\ 0 <= n /\ n <= eff /\
    (off <= len -> off + n <= len) /\ (len < off -> n = 0) /\
    (zwp = false -> n = 0 \/ off + n <= s_remote_win_len s) /\
    (zwp = true -> n <= 1 /\ off = g_flight g /\ s_remote_win_len s <= g_flight g /\
                   timer_should_zero_window_probe (s_timer s) (cx_now cx) = true) /\
    (c = CNone \/ c = CPsh \/ c = CFin) /\
    (c = CFin <-> (off + n = len /\ fin_state (s_state s) = true)) /\
    (c = CPsh -> 0 < n) /\
    (s2 = s \/ s2 = upd_pending_fast_retransmit s false).
Proof.
  intros cx g s repr s2 r zwp tg (Htx & Htm) Hcx Hbase Hds Hph Hseq H. cbv zeta.
  pose proof Htx as (Hwf & Hcap & Ha & Hlen & Hc & Hl & Hr & Hf & Hhw & Hpo & Hw & Hs).
  pose proof Hwf as (Hl0 & _).
  pose proof (budget_bound g (rb_len (s_tx_buffer s)) ltac:(lia)) as Hb.
  pose proof max_window_val as Hmw.
  unfold tcp_dispatch_build_data in H.
  rewrite (base_header_len _ Hbase) in H. unfold usub in H.
  assert (Hopt : 0 <= opt_len repr) by (unfold opt_len; destruct (is_some _); lia).
  replace (wtcp_HEADER_LEN + opt_len repr - wtcp_HEADER_LEN) with (opt_len repr) in H by lia.
  destruct (Z.ltb_spec (opt_len repr) 0); [lia|]. cbn [obind] in H.
  rewrite (tcp_local_mss_ok _ Hcx) in H. cbn [obind] in H.
  fold (eff_mss (cx_ip_mtu cx) (s_remote_mss s) (opt_len repr)) in H.
  set (eff := eff_mss (cx_ip_mtu cx) (s_remote_mss s) (opt_len repr)) in *.
  destruct (eff_mss_bounds (cx_ip_mtu cx) (s_remote_mss s) (opt_len repr) Hopt) as (He0 & _).
  fold eff in He0.
  (* the control flag chosen at the end *)
  assert (Hctl : forall s0 rp off,
     s_state s0 = s_state s -> s_tx_buffer s0 = s_tx_buffer s -> r_control rp = CNone ->
     let has_payload := match r_payload rp with [] => false | _ => true end in
     let rp' := if off + l_len (r_payload rp) =? rb_len (s_tx_buffer s0) then
                  match s_state s0 with
                  | FinWait1 | LastAck | Closing => repr_set_control rp CFin
                  | Established | CloseWait => if has_payload then repr_set_control rp CPsh else rp
                  | _ => rp
                  end
                else rp in
     exists c, rp' = repr_set_control rp c /\ (c = CNone \/ c = CPsh \/ c = CFin) /\
       (c = CFin <-> (off + l_len (r_payload rp) = rb_len (s_tx_buffer s) /\
                      fin_state (s_state s) = true)) /\
       (c = CPsh -> 0 < l_len (r_payload rp))).
  { intros s0 rp off Es Et Ec. cbv zeta. rewrite Es, Et.
    assert (Hid : rp = repr_set_control rp CNone) by (destruct rp; cbn in Ec |- *; rewrite Ec; reflexivity).
    destruct (Z.eqb_spec (off + l_len (r_payload rp)) (rb_len (s_tx_buffer s))).
    - destruct (s_state s) eqn:Est; cbn [data_state] in Hds; try discriminate; cbn [fin_state].
      + destruct (r_payload rp) eqn:Ep.
        * exists CNone. split; [exact Hid|]. split; [auto|]. split; [split; [discriminate|intros (_ & X); discriminate]|discriminate].
        * exists CPsh. split; [reflexivity|]. split; [auto|]. split; [split; [discriminate|intros (_ & X); discriminate]|].
          intros _. apply l_len_cons_pos.
      + exists CFin. split; [reflexivity|]. split; [auto|]. split; [tauto|discriminate].
      + destruct (r_payload rp) eqn:Ep.
        * exists CNone. split; [exact Hid|]. split; [auto|]. split; [split; [discriminate|intros (_ & X); discriminate]|discriminate].
        * exists CPsh. split; [reflexivity|]. split; [auto|]. split; [split; [discriminate|intros (_ & X); discriminate]|].
          intros _. apply l_len_cons_pos.
      + exists CFin. split; [reflexivity|]. split; [auto|]. split; [tauto|discriminate].
      + exists CFin. split; [reflexivity|]. split; [auto|]. split; [tauto|discriminate].
    - exists CNone. split; [exact Hid|]. split; [auto|]. split; [split; [discriminate|tauto]|discriminate]. }
  destruct Hbase as (Hbc & Hbp & _).
  destruct (s_pending_fast_retransmit s && (s_remote_win_len s >? 0)) eqn:Efast; cbn [obind] in H.
  - (* fast retransmission: from SND.UNA, limited by MSS, queue and window *)
    apply andb_prop in Efast. destruct Efast as (_ & Ewin). apply Z.gtb_lt in Ewin.
    set (size := Z.min (Z.min eff (rb_len (s_tx_buffer s))) (s_remote_win_len s)) in *.
    destruct (get_allocated_stream _ _ _ _ _ _ _ _ 0 size Htx ltac:(lia)) as (Epl & P0 & P1 & P2).
    set (pl := rb_get_allocated (s_tx_buffer s) 0 size) in *.
    destruct (Hctl (upd_pending_fast_retransmit s false)
                   (repr_set_payload (repr_set_seq repr (s_local_seq_no s)) pl) 0
                   eq_refl eq_refl Hbc) as (c & Ec & Hc1 & Hc2 & Hc3).
    cbv zeta in Ec. rewrite Ec in H. cbn [r_payload repr_set_payload] in Hc2, Hc3.
    injection H as <- <- <- <-.
    exists 0, (l_len pl), c.
    split; [rewrite Hl, <- Epl, Z.add_0_r; reflexivity|].
    split; [auto|]. split; [lia|]. split; [lia|]. split; [lia|]. split; [lia|].
    split; [intros _; right; lia|]. split; [discriminate|].
    split; [exact Hc1|]. split; [exact Hc2|]. split; [exact Hc3|]. auto.
  - (* normal transmission or zero-window probe: from SND.NXT *)
    rewrite Hl, Hr in H. rewrite seq_add_sq in H.
    replace (g_iss g + g_una g + s_remote_win_len s) with (g_iss g + (g_una g + s_remote_win_len s)) in H by lia.
    replace (g_iss g + g_una g + g_flight g) with (g_iss g + (g_una g + g_flight g)) in H by lia.
    rewrite seq_ge_sq, seq_sub_sq in H by lia.
    assert (Hwl : exists wl, 0 <= wl /\ (wl = 0 -> s_remote_win_len s <= g_flight g) /\
                  (0 < wl -> wl = s_remote_win_len s - g_flight g) /\
              (do win_limit <- Ok wl;
        do size <-
        (if (win_limit =? 0) && timer_should_zero_window_probe (s_timer s) (cx_now cx)
         then Ok (Z.min (if (win_limit =? 0) && timer_should_zero_window_probe (s_timer s) (cx_now cx)
                         then 1 else win_limit) eff)
         else
          do cwr <- tcp_cwnd_remaining s;
          Ok (Z.min (Z.min (if (win_limit =? 0) && timer_should_zero_window_probe (s_timer s) (cx_now cx)
                            then 1 else win_limit) eff) cwr));
        do offset <- tcp_flight_size s;
        Ok (s, repr_set_payload repr (rb_get_allocated (s_tx_buffer s) offset size), offset,
           (win_limit =? 0) && timer_should_zero_window_probe (s_timer s) (cx_now cx),
           if (win_limit =? 0) && timer_should_zero_window_probe (s_timer s) (cx_now cx)
           then 225 else 226)) =
              (do win_limit <-
        (if g_una g + s_remote_win_len s >=? g_una g + g_flight g
         then
          if g_una g + s_remote_win_len s <? g_una g + g_flight g
          then Panic
          else Ok (g_una g + s_remote_win_len s - (g_una g + g_flight g))
         else Ok 0);
        do size <-
        (if (win_limit =? 0) && timer_should_zero_window_probe (s_timer s) (cx_now cx)
         then Ok (Z.min (if (win_limit =? 0) && timer_should_zero_window_probe (s_timer s) (cx_now cx)
                         then 1 else win_limit) eff)
         else
          do cwr <- tcp_cwnd_remaining s;
          Ok (Z.min (Z.min (if (win_limit =? 0) && timer_should_zero_window_probe (s_timer s) (cx_now cx)
                            then 1 else win_limit) eff) cwr));
        do offset <- tcp_flight_size s;
        Ok (s, repr_set_payload repr (rb_get_allocated (s_tx_buffer s) offset size), offset,
           (win_limit =? 0) && timer_should_zero_window_probe (s_timer s) (cx_now cx),
           if (win_limit =? 0) && timer_should_zero_window_probe (s_timer s) (cx_now cx)
           then 225 else 226))).
    { destruct (Z.geb_spec (g_una g + s_remote_win_len s) (g_una g + g_flight g)).
      - destruct (Z.ltb_spec (g_una g + s_remote_win_len s) (g_una g + g_flight g)); [lia|].
        exists (g_una g + s_remote_win_len s - (g_una g + g_flight g)).
        split; [lia|]. split; [lia|]. split; [lia|reflexivity].
      - exists 0. split; [lia|]. split; [lia|]. split; [lia|reflexivity]. }
    destruct Hwl as (wl & Hwl0 & Hwl1 & Hwl2 & Ewl). rewrite <- Ewl in H. clear Ewl.
    cbn [obind] in H. rewrite (flight_size_ok _ _ Htx) in H.
    set (zw := (wl =? 0) && timer_should_zero_window_probe (s_timer s) (cx_now cx)) in *.
    assert (Hsize : exists size, size <= eff /\ (zw = true -> size <= 1) /\ (zw = false -> size <= wl) /\
      (do r1 <- (do size0 <- Ok size;
                do offset <- Ok (g_flight g);
                Ok (s, repr_set_payload repr (rb_get_allocated (s_tx_buffer s) offset size0), offset, zw,
                    if zw then 225 else 226));
       let '(s, repr, offset, zwp, tg) := r1 in
        Ok (s, Some
             (if offset + l_len (r_payload repr) =? rb_len (s_tx_buffer s)
              then match s_state s with
               | Established | CloseWait =>
                   if match r_payload repr with [] => false | _ :: _ => true end
                   then repr_set_control repr CPsh else repr
               | FinWait1 | Closing | LastAck => repr_set_control repr CFin
               | _ => repr
               end
              else repr), zwp, tg)) = Ok (s2, Some r, zwp, tg)).
    { destruct zw eqn:Ezw.
      - exists (Z.min 1 eff). split; [lia|]. split; [lia|]. split; [discriminate|exact H].
      - unfold tcp_cwnd_remaining in H. rewrite (flight_size_ok _ _ Htx) in H. cbn [obind] in H.
        eexists. split; [|split; [discriminate|split; [|exact H]]]; unfold sat_sub; lia. }
    clear H. destruct Hsize as (size & Hsz1 & Hsz2 & Hsz3 & H). cbn [obind] in H.
    (* the payload read at offset flight *)
    assert (Hpl : exists n, rb_get_allocated (s_tx_buffer s) (g_flight g) size =
                            l_slice (g_acked g + g_flight g) n (g_stream g) /\
                  l_len (rb_get_allocated (s_tx_buffer s) (g_flight g) size) = n /\
                  0 <= n /\ n <= Z.max 0 size /\
                  (g_flight g <= rb_len (s_tx_buffer s) -> g_flight g + n <= rb_len (s_tx_buffer s)) /\
                  (rb_len (s_tx_buffer s) < g_flight g -> n = 0)).
    { destruct (Z.leb_spec (g_flight g) (rb_len (s_tx_buffer s))).
      - destruct (get_allocated_stream _ _ _ _ _ _ _ _ (g_flight g) size Htx ltac:(lia))
          as (Epl & P0 & P1 & P2).
        eexists. split; [exact Epl|]. split; [reflexivity|]. lia.
      - rewrite rb_get_allocated_beyond by lia. exists 0.
        split; [rewrite l_slice_nonpos by lia; reflexivity|]. split; [reflexivity|]. lia. }
    destruct Hpl as (n & Epl & Enl & Hn0 & Hn1 & Hn2 & Hn3).
    set (pl := rb_get_allocated (s_tx_buffer s) (g_flight g) size) in *.
    destruct (Hctl s (repr_set_payload repr pl) (g_flight g) eq_refl eq_refl Hbc)
      as (c & Ec & Hc1 & Hc2 & Hc3).
    cbv zeta in Ec. rewrite Ec in H. cbn [r_payload repr_set_payload] in Hc2, Hc3.
    injection H as <- <- <- <-.
    exists (g_flight g), n, c.
    split.
    { rewrite <- Epl, <- Hr, <- Hseq. destruct repr; reflexivity. }
    rewrite Enl in *.
    split; [auto|]. split; [lia|]. split; [lia|]. split; [exact Hn2|]. split; [exact Hn3|].
    split; [intros Ez; specialize (Hsz3 Ez); lia|].
    split.
    { intros Ez. specialize (Hsz2 Ez). unfold zw in Ez. apply andb_prop in Ez.
      destruct Ez as (Ez1 & Ez2). apply Z.eqb_eq in Ez1.
      split; [lia|]. split; [reflexivity|]. split; [auto|exact Ez2]. }
    split; [exact Hc1|]. split; [exact Hc2|]. split; [exact Hc3|]. auto.
Qed.
