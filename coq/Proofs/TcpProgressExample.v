(* C02 (liveness half): NON-VACUITY of the fairness hypothesis.
   [fair_runb] decides [fair_run] on concrete runs (soundness: [fair_runb_sound]); the Example is an
   event list that satisfies [fair_schedule] from the initial state of the system model (handshake,
   data with a delayed ACK, the clock advancing exactly to reported deadlines, close in both
   directions) and on which the model (evaluated by vm_compute) delivers every octet written and both
   sockets finish the shutdown handshake (TIME-WAIT / CLOSED).
   vm_compute is used only in the concrete Examples. *)
From SV Require Import Lib.Base Gen.Consts.
From SV Require Import Model.Seq32 Model.Assembler Model.TcpBuf Model.TcpTypes Model.Tcp Model.TcpNet.
From SV Require Import Proofs.TcpNetBase Proofs.TcpProgressBase.

(* ---------------------------------------------------------------------------------------- *)
(* a decision procedure for fair_ev / fair_run                                               *)
(* ---------------------------------------------------------------------------------------- *)
Definition poll_permitsb (st : net) (x : side) (d : Z) : bool :=
  match net_poll_at st x with
  | Ok PIngress => true
  | Ok (PTime t) => net_now st x + d <=? t
  | _ => false
  end.

Definition dl_okb (l : list (option Z)) (bound : Z) : bool :=
  forallb (fun o => match o with Some t => bound <=? t | None => true end) l.

Definition side_okb (fa : fair_aux) (st : net) (d : Z) (x : side) : bool :=
  poll_permitsb st x d && dl_okb (fa_dl fa x) (net_now st x + d) &&
  match fa_rd fa x with Some t => net_now st x + d <=? t | None => true end.

Definition fair_evb (fa : fair_aux) (st : net) (ev : net_event) : bool :=
  match ev with
  | NDrop _ _ | NCorrupt _ _ => false
  | NPoll _ ok => ok
  | NTick d => (0 <=? d) && ((d <=? 0) || (side_okb fa st d SA && side_okb fa st d SB))
  | _ => true
  end.

Fixpoint fair_runb (Dt Da : Z) (fa : fair_aux) (st : net) (evs : list net_event) : bool :=
  match evs with
  | [] => true
  | ev :: rest =>
      fair_evb fa st ev &&
      match net_step st ev with
      | Ok st' => fair_runb Dt Da (fa_after Dt Da fa ev st') st' rest
      | _ => true
      end
  end.

Lemma dl_okb_sound l b : dl_okb l b = true -> forall t, In (Some t) l -> b <= t.
Proof.
  unfold dl_okb. intros H t Hin. rewrite forallb_forall in H. specialize (H _ Hin). cbn in H. lia.
Qed.

Lemma side_okb_sound fa st d x :
  side_okb fa st d x = true ->
  poll_permits st x d /\
  (forall t, In (Some t) (fa_dl fa x) -> net_now st x + d <= t) /\
  (forall t, fa_rd fa x = Some t -> net_now st x + d <= t).
Proof.
  unfold side_okb. intros H. apply andb_true_iff in H. destruct H as (H & H3).
  apply andb_true_iff in H. destruct H as (H1 & H2).
  split; [|split].
  - unfold poll_permits, poll_permitsb in *. destruct (net_poll_at st x) as [[|t|]|e|]; try discriminate; [lia | exact I].
  - apply dl_okb_sound. exact H2.
  - intros t E. rewrite E in H3. lia.
Qed.

Lemma fair_evb_sound fa st ev : fair_evb fa st ev = true -> fair_ev fa st ev.
Proof.
  destruct ev; cbn [fair_evb fair_ev]; try discriminate; try (intros _; exact I).
  - intros H. apply andb_true_iff in H. destruct H as (H0 & H1). split; [lia|].
    intros Hd. apply orb_true_iff in H1. destruct H1 as [H1 | H1]; [lia|].
    apply andb_true_iff in H1. destruct H1 as (Ha & Hb).
    intros [|]; apply side_okb_sound; assumption.
  - intros H. exact H.
Qed.

Theorem fair_runb_sound Dt Da evs : forall fa st, fair_runb Dt Da fa st evs = true -> fair_run Dt Da fa st evs.
Proof.
  induction evs as [|ev r IH]; intros fa st H; cbn [fair_runb fair_run] in *; [exact I|].
  apply andb_true_iff in H. destruct H as (H1 & H2). split; [apply fair_evb_sound; exact H1|].
  destruct (net_step st ev) as [st'|e|]; try exact I. apply IH. exact H2.
Qed.

Definition opts_okb (st : net) : bool :=
  match s_timeout (net_sock st SA), s_keep_alive (net_sock st SA),
        s_timeout (net_sock st SB), s_keep_alive (net_sock st SB) with
  | None, None, None, None => true
  | _, _, _, _ => false
  end.

Lemma opts_okb_sound st : opts_okb st = true -> opts_ok st.
Proof.
  unfold opts_okb, opts_ok. intros H.
  destruct (s_timeout (net_sock st SA)) eqn:E1; [discriminate|].
  destruct (s_keep_alive (net_sock st SA)) eqn:E2; [discriminate|].
  destruct (s_timeout (net_sock st SB)) eqn:E3; [discriminate|].
  destruct (s_keep_alive (net_sock st SB)) eqn:E4; [discriminate|].
  intros [|]; split; assumption.
Qed.

(* ---------------------------------------------------------------------------------------- *)
(* the example                                                                               *)
(* ---------------------------------------------------------------------------------------- *)
Fixpoint zlist_eqb (a b : list Z) : bool :=
  match a, b with
  | [], [] => true
  | x :: a', y :: b' => (x =? y) && zlist_eqb a' b'
  | _, _ => false
  end.

Lemma zlist_eqb_eq a : forall b, zlist_eqb a b = true -> a = b.
Proof.
  induction a as [|x a IH]; intros [|y b] H; cbn in H; try discriminate; [reflexivity|].
  apply andb_true_iff in H. destruct H as (H1 & H2). f_equal; [lia | apply IH; exact H2].
Qed.

(* everything the example claims, as one computable check; the run is kept abstract in the packaging
   lemma and evaluated only by vm_compute *)
Definition ex_check (ca cb : ep_config) (Dt Da : Z) (evs : list net_event) (data : list Z) : bool :=
  match net_init ca cb with
  | Ok st0 =>
      (0 <=? Dt) && (0 <=? Da) && opts_okb st0 && fair_runb Dt Da (fa_init Dt Da st0) st0 evs &&
      match net_run st0 evs with
      | Ok st =>
          zlist_eqb (ep_written (n_a st)) data && zlist_eqb (ep_read (n_b st)) data &&
          ep_finished (n_b st) && ep_finished (n_a st) &&
          tcp_state_eqb (s_state (net_sock st SA)) Closed && tcp_state_eqb (s_state (net_sock st SB)) Closed
      | _ => false
      end
  | _ => false
  end.

Lemma tcp_state_eqb_eq a b : tcp_state_eqb a b = true -> a = b.
Proof. destruct a, b; cbn; congruence. Qed.

Lemma ex_package ca cb Dt Da evs data :
  ex_check ca cb Dt Da evs data = true ->
  exists st0 st,
    net_init ca cb = Ok st0 /\ fair_schedule Dt Da st0 evs /\ net_run st0 evs = Ok st /\
    ep_written (n_a st) = data /\ ep_read (n_b st) = data /\
    ep_finished (n_b st) = true /\ ep_finished (n_a st) = true /\
    s_state (net_sock st SA) = Closed /\ s_state (net_sock st SB) = Closed.
Proof.
  unfold ex_check. intros H.
  destruct (net_init ca cb) as [st0|e|] eqn:Ei; try discriminate.
  apply andb_true_iff in H. destruct H as (H & Hr).
  apply andb_true_iff in H. destruct H as (H & Hf).
  apply andb_true_iff in H. destruct H as (H & Ho).
  apply andb_true_iff in H. destruct H as (Hd1 & Hd2).
  destruct (net_run st0 evs) as [st|e|] eqn:Er; try discriminate.
  apply andb_true_iff in Hr. destruct Hr as (Hr & Hsb).
  apply andb_true_iff in Hr. destruct Hr as (Hr & Hsa).
  apply andb_true_iff in Hr. destruct Hr as (Hr & Hfa).
  apply andb_true_iff in Hr. destruct Hr as (Hr & Hfb).
  apply andb_true_iff in Hr. destruct Hr as (Hw & Hrd).
  exists st0, st. split; [reflexivity|].
  split; [split; [lia|]; split; [lia|]; split; [apply opts_okb_sound; exact Ho | apply fair_runb_sound; exact Hf]|].
  split; [exact Er|].
  split; [apply zlist_eqb_eq; exact Hw|]. split; [apply zlist_eqb_eq; exact Hrd|].
  split; [exact Hfb|]. split; [exact Hfa|].
  split; apply tcp_state_eqb_eq; assumption.
Qed.

(* A: Reno, delayed ACK (ACK_DELAY_DEFAULT), Nagle; B: no congestion control, delayed ACK *)
Definition ex_cfg_a : ep_config :=
  mkEpCfg (repeat 0 64) (repeat 0 64) (CcReno reno_new) false None None (Some tcp_ACK_DELAY_DEFAULT)
          true None 0 1500 1 4000 1000 0.
Definition ex_cfg_b : ep_config :=
  mkEpCfg (repeat 0 64) (repeat 0 64) CcNone false None None (Some tcp_ACK_DELAY_DEFAULT)
          true None 0 1500 2 80 5000 0.

(* handshake; 5 octets; B's application reads; the clock advances exactly to B's delayed-ACK
   deadline (ACK_DELAY_DEFAULT = 10 ms); ACK; A closes, B closes; TIME-WAIT runs out (CLOSE_DELAY);
   every poll is at a reported deadline or right after an arrival, every segment is delivered *)
Definition ex_sched : list net_event :=
  [NPoll SA true; NDeliver SB 0; NPoll SB true; NDeliver SA 0; NPoll SA true; NDeliver SB 1;
   NSend SA [1;2;3;4;5]; NPoll SA true; NDeliver SB 2; NRecv SB 100;
   NTick tcp_ACK_DELAY_DEFAULT; NPoll SB true; NDeliver SA 1;
   NClose SA; NPoll SA true; NDeliver SB 3; NRecv SB 100; NClose SB; NPoll SB true; NDeliver SA 2;
   NPoll SA true; NDeliver SB 4; NRecv SA 100;
   NTick tcp_CLOSE_DELAY; NPoll SA true].

Lemma ex_check_ok : ex_check ex_cfg_a ex_cfg_b 5000 5000 ex_sched [1;2;3;4;5] = true.
Proof. vm_compute. reflexivity. Qed.

Theorem fair_schedule_example :
  exists st0 st,
    net_init ex_cfg_a ex_cfg_b = Ok st0 /\ fair_schedule 5000 5000 st0 ex_sched /\
    net_run st0 ex_sched = Ok st /\
    ep_written (n_a st) = [1;2;3;4;5] /\ ep_read (n_b st) = [1;2;3;4;5] /\
    ep_finished (n_b st) = true /\ ep_finished (n_a st) = true /\
    s_state (net_sock st SA) = Closed /\ s_state (net_sock st SB) = Closed.
Proof. exact (ex_package _ _ _ _ _ _ ex_check_ok). Qed.
