(* C02 (liveness half): THE WINDOW SHIFT NEVER EXCEEDS THE RECEIVE BUFFER - a static fact, threaded through every
   event of a socket from Socket::new.
     capf   s' s : the capacity of the receive buffer is unchanged and the window shift is kept, set to 0 (the peer
                   offered no window scaling) or set again to the value Socket::new computes from the capacity (reset)
     step_capf   : every event (API calls, segments, dispatch) relates the socket after to the socket before by capf
     capw        : the shift is 0 or tcp_win_shift_for (capacity) - invariant under capf, true of tcp_new
     capw_window : with capw and a non-empty storage, an EMPTY receive buffer advertises a non-zero window
                   (the premise zx_capw of Proofs/TcpProgressZw3.v). *)
From SV Require Import Lib.Base Gen.Consts.
From SV Require Import Model.Seq32 Model.Assembler Model.TcpBuf Model.TcpTypes Model.Tcp.
From SV Require Import Proofs.AssemblerProofs Proofs.TcpRecvBase Proofs.TcpRecvWindow
  Proofs.TcpRecvPayload Proofs.TcpRecvInv Proofs.TcpRecvProcess.
From SV Require Import Proofs.TcpProgressFrame.

Definition capf (s' s : socket) : Prop :=
  rb_cap (s_rx_buffer s') = rb_cap (s_rx_buffer s) /\
  (s_remote_win_shift s' = s_remote_win_shift s \/ s_remote_win_shift s' = 0 \/
   s_remote_win_shift s' = tcp_win_shift_for (rb_cap (s_rx_buffer s))).

Lemma capf_refl s : capf s s.
Proof. split; [reflexivity | left; reflexivity]. Qed.
Lemma capf_trans a b c : capf a b -> capf b c -> capf a c.
Proof.
  intros (A1 & A2) (B1 & B2). split; [congruence|].
  destruct A2 as [A2 | [A2 | A2]].
  - rewrite A2. exact B2.
  - right; left; exact A2.
  - right; right. rewrite A2, B1. reflexivity.
Qed.

Ltac capf_solve :=
  unfold capf; rproj; cbn [rb_clear rb_cap];
  split; [reflexivity | first [left; reflexivity | right; left; reflexivity | right; right; reflexivity]].

(* ---------------------------------------------------------------------------------------- *)
(* process                                                                                   *)
(* ---------------------------------------------------------------------------------------- *)
Lemma ack_reply_capf cx s ip r : capf (fst (tcp_ack_reply cx s ip r)) s.
Proof. unfold tcp_ack_reply. destruct (tcp_reply ip r) as (ip', reply). cbn [fst]. capf_solve. Qed.

Lemma challenge_capf cx s ip r : capf (fst (tcp_challenge_ack_reply cx s ip r)) s.
Proof.
  unfold tcp_challenge_ack_reply. destruct (cx_now cx <? s_challenge_ack_timer s); [apply capf_refl|].
  destruct (tcp_ack_reply cx (upd_challenge_ack_timer s (cx_now cx + 1000000)) ip r) as (s1, p) eqn:E.
  cbn [fst]. change s1 with (fst (s1, p)). rewrite <- E.
  eapply capf_trans; [apply ack_reply_capf|]. capf_solve.
Qed.

Lemma ack_check_ret_capf cx s ip r t s1 rep :
  tcp_process_ack_check cx s ip r = Ok (Ret t s1 rep) -> capf s1 s.
Proof.
  unfold tcp_process_ack_check. intros H. des_all H.
  all: try (apply obind_ok_inv in H; destruct H as (? & _ & H)).
  all: try (inversion H; subst; apply capf_refl).
  all: match goal with
       | E : tcp_challenge_ack_reply ?cx ?s ?ip ?r = (_, _) |- _ =>
           inversion H; subst;
           pose proof (challenge_capf cx s ip r) as Hc; rewrite E in Hc; exact Hc
       end.
Qed.

Lemma window_capf cx s ip r res :
  tcp_process_window cx s ip r = Ok res ->
  match res with
  | Cont _ (s2, _, _) => capf s2 s
  | Ret _ s1 _ => capf s1 s
  end.
Proof.
  unfold tcp_process_window. intros H.
  assert (Hmain :
    (let '(in_window, tg) := tcp_segment_in_window (tcp_window_start s) (tcp_window_end s)
                               (r_seq_number r) (seq_add (r_seq_number r) (l_len (r_payload r))) in
      if in_window then
        let overlap_start := seq_max (tcp_window_start s) (r_seq_number r) in
        let overlap_end := seq_min (tcp_window_end s) (seq_add (r_seq_number r) (l_len (r_payload r))) in
        if negb (seq_le overlap_start overlap_end) then Panic else
        let s := upd_local_rx_last_seq s (Some (r_seq_number r)) in
        do a <- seq_sub overlap_start (r_seq_number r);
        do b <- seq_sub overlap_end (r_seq_number r);
        do payload <- slice_range (r_payload r) a b;
        do off <- seq_sub overlap_start (tcp_window_start s);
        Ok (Cont tg (s, payload, off))
      else if control_eqb (r_control r) CRst then Ok (Ret (tg + 1000) s None)
      else
        let s := if tcp_state_eqb (s_state s) TimeWait
                 then upd_timer s (timer_set_for_close (cx_now cx)) else s in
        if (match r_payload r with [] => false | _ => true end)
           && (match r_control r with CNone | CPsh | CFin => true | _ => false end)
        then let '(s', p) := tcp_ack_reply cx s ip r in Ok (Ret (tg + 2000) s' (Some p))
        else let '(s', p) := tcp_challenge_ack_reply cx s ip r in Ok (Ret (tg + 3000) s' p)) = Ok res ->
    match res with
    | Cont _ (s2, _, _) => capf s2 s
    | Ret _ s1 _ => capf s1 s
    end).
  { clear H. intros H. cbv zeta in H.
    destruct (tcp_segment_in_window _ _ _ _) as (inw, tg).
    destruct inw.
    - destruct (negb (seq_le _ _)); [discriminate|].
      repeat (apply obind_ok_inv in H; destruct H as (? & _ & H)).
      inversion H; subst res. capf_solve.
    - destruct (control_eqb (r_control r) CRst); [inversion H; subst res; apply capf_refl|].
      set (q := if tcp_state_eqb (s_state s) TimeWait
                then upd_timer s (timer_set_for_close (cx_now cx)) else s) in *.
      assert (Hq : capf q s) by (unfold q; destruct (tcp_state_eqb (s_state s) TimeWait); capf_solve).
      clearbody q.
      destruct ((match r_payload r with [] => false | _ => true end)
                && (match r_control r with CNone | CPsh | CFin => true | _ => false end)).
      + pose proof (ack_reply_capf cx q ip r) as C. destruct (tcp_ack_reply cx q ip r) as (s', p).
        inversion H; subst res. eapply capf_trans; eassumption.
      + pose proof (challenge_capf cx q ip r) as C.
        destruct (tcp_challenge_ack_reply cx q ip r) as (s', p).
        inversion H; subst res. eapply capf_trans; eassumption. }
  destruct (s_state s); try exact (Hmain H); inversion H; subst res; apply capf_refl.
Qed.

Lemma apply_mss_capf s r : capf (tcp_apply_mss s r) s.
Proof.
  unfold tcp_apply_mss. destruct (r_max_seg_size r) as [m|]; [destruct (m =? 0)|]; capf_solve.
Qed.

Lemma reset_capf s : capf (tcp_reset s) s.
Proof. unfold tcp_reset. capf_solve. Qed.

Lemma relisten_capf s ep : capf (tcp_set_state (upd_listen_endpoint (tcp_reset s) ep) Listen) s.
Proof.
  eapply capf_trans; [|apply reset_capf]. generalize (tcp_reset s). intros q. unfold tcp_set_state. capf_solve.
Qed.

Lemma transition_capf cx s ip r ctl al aof res :
  tcp_process_transition cx s ip r ctl al aof = Ok res ->
  match res with Cont _ s3 => capf s3 s | Ret _ s3 _ => capf s3 s end.
Proof.
  intros H. unfold tcp_process_transition in H.
  pose proof (challenge_capf cx s ip r) as Hch.
  pose proof (apply_mss_capf s r) as Hm.
  destruct (s_state s) eqn:Est; destruct ctl; cbv beta iota in H.
  (* the SYN arms of LISTEN and SYN-SENT go through apply_mss: abstract it first *)
  all: try (revert H Hm; generalize (tcp_apply_mss s r); intros q H Hm;
            match type of H with context [upd_tuple q] => idtac | context [upd_remote_seq_no q] => idtac end;
            repeat match type of H with context [if ?c then _ else _] => destruct c end;
            inversion H; subst res; (eapply capf_trans; [|exact Hm]); unfold tcp_set_state; capf_solve).
  all: unfold tcp_enter_time_wait, tcp_fin_received in H.
  all: repeat match type of H with
              | context [if ?c then _ else _] => destruct c
              | (let '(_, _) := ?m in _) = _ => destruct m eqn:?
              end.
  all: try discriminate H.
  all: inversion H; subst res; clear H.
  all: try apply capf_refl.
  all: try (match goal with |- capf (tcp_set_state (upd_listen_endpoint (tcp_reset _) _) Listen) _ => apply relisten_capf end).
  all: try (cbn [fst] in Hch; exact Hch).
  all: try capf_solve.
Qed.

Lemma update_remote_capf cx s r al s' iwu :
  tcp_process_update_remote cx s r al = Ok (s', iwu) -> capf s' s.
Proof.
  unfold tcp_process_update_remote. intros H. des_all H.
  all: try (apply obind_ok_inv in H; destruct H as (tx & _ & H)).
  all: inversion H; subst; capf_solve.
Qed.

Lemma dup_ack_capf cx s r al iwu s' tg :
  tcp_process_dup_ack cx s r al iwu = Ok (s', tg) -> capf s' s.
Proof.
  unfold tcp_process_dup_ack. intros H.
  destruct (r_ack_number r) as [a|]; [|inversion H; subst; apply capf_refl].
  apply obind_ok_inv in H. destruct H as ((s1, tg1) & H1 & H).
  assert (Hf1 : capf s1 s).
  { des1 H1.
    - repeat (apply obind_ok_inv in H1; destruct H1 as (? & _ & H1)).
      inversion H1; subst. des_all H1; capf_solve.
    - repeat (apply obind_ok_inv in H1; destruct H1 as (? & _ & H1)).
      inversion H1; subst. des_all H1; capf_solve. }
  cbv beta iota zeta in H.
  eapply capf_trans; [|exact Hf1].
  des_all H; inversion H; subst; capf_solve.
Qed.

Lemma timers_capf cx s al aall : capf (fst (tcp_process_timers cx s al aall)) s.
Proof.
  unfold tcp_process_timers. destruct (s_timer s); try destruct aall; try destruct (al >? 0);
    cbn [fst]; capf_solve.
Qed.

Lemma zwp_capf cx s al : capf (fst (tcp_process_zwp cx s al)) s.
Proof.
  unfold tcp_process_zwp.
  repeat match goal with
  | |- context [if ?c then _ else _] => destruct c
  end; cbn [fst]; capf_solve.
Qed.

Lemma tsval_capf s r :
  capf (match r_timestamp r with Some (tsval, _) => upd_last_remote_tsval s tsval | None => s end) s.
Proof. destruct (r_timestamp r) as [(a, b)|]; capf_solve. Qed.

Lemma write_pass_cap r off data : rb_cap (fst (rb_write_pass r off data)) = rb_cap r.
Proof.
  unfold rb_write_pass.
  repeat match goal with
  | |- context [let '(_, _) := ?x in _] => destruct x
  | |- context [if ?c then _ else _] => destruct c
  end; reflexivity.
Qed.

Lemma write_unallocated_cap r off data : rb_cap (fst (rb_write_unallocated r off data)) = rb_cap r.
Proof.
  unfold rb_write_unallocated.
  pose proof (write_pass_cap r off data) as H1. destruct (rb_write_pass r off data) as (r1, n1). cbn [fst] in H1.
  pose proof (write_pass_cap r1 (off + n1) (l_drop n1 data)) as H2.
  destruct (rb_write_pass r1 (off + n1) (l_drop n1 data)) as (r2, n2). cbn [fst] in *. congruence.
Qed.

Lemma payload_capf cx s ip r payload off s' rep tg :
  tcp_process_payload cx s ip r payload off = Ok (s', rep, tg) -> capf s' s.
Proof.
  intros H. unfold tcp_process_payload in H.
  destruct (l_len payload =? 0); [inversion H; subst; apply capf_refl|].
  destruct (asm_atrf _ _ _ _) as (asm', res).
  destruct res as [contig|]; [|inversion H; subst; apply capf_refl].
  pose proof (write_unallocated_cap (s_rx_buffer s) off payload) as Hw.
  destruct (rb_write_unallocated _ _ _) as (rx, lw). cbn [fst] in Hw.
  destruct (negb (lw =? l_len payload)); [discriminate|].
  apply obind_ok_inv in H. destruct H as (rx2 & Hrx2 & H).
  assert (Hc2 : rb_cap rx2 = rb_cap (s_rx_buffer s)).
  { destruct (negb (contig =? 0)); [|inversion Hrx2; subst; exact Hw].
    unfold rb_enqueue_unallocated in Hrx2. destruct (contig <=? rb_window rx); [|discriminate].
    inversion Hrx2; subst. cbn [rb_cap]. exact Hw. }
  set (q := upd_rx_buffer (upd_assembler s asm') rx2) in *.
  assert (Cq : capf q s) by (unfold q, capf; rproj; split; [exact Hc2 | left; reflexivity]).
  clearbody q.
  match type of H with (let '(_, _) := ?m in _) = _ =>
    assert (Cm : capf (fst m) q); [|destruct m as (q1, t1)] end.
  { repeat match goal with
    | |- context [match ?x with _ => _ end] => destruct x
    | |- context [if ?c then _ else _] => destruct c
    end; cbn [fst]; capf_solve. }
  cbn [fst] in Cm.
  destruct (negb (asm_is_empty (s_assembler q1)) || negb (asm_is_empty (s_assembler s))).
  - pose proof (ack_reply_capf cx q1 ip r) as Ca. destruct (tcp_ack_reply cx q1 ip r) as (q2, p).
    inversion H; subst s' rep tg. cbn [fst] in Ca.
    eapply capf_trans; [exact Ca|]. eapply capf_trans; eassumption.
  - inversion H; subst s' rep tg. eapply capf_trans; eassumption.
Qed.

Lemma process_capf cx s ip r s' rep tags :
  tcp_process cx s ip r = Ok (s', rep, tags) -> capf s' s.
Proof.
  intros H. unfold tcp_process in H.
  destruct (negb (tcp_accepts s ip r)); [discriminate|].
  apply obind_ok_inv in H. destruct H as (p1 & H1 & H).
  destruct p1 as [t1 []|t1 s1 rep1].
  2:{ inversion H; subst. exact (ack_check_ret_capf _ _ _ _ _ _ _ H1). }
  apply obind_ok_inv in H. destruct H as (p2 & H2 & H).
  pose proof (window_capf _ _ _ _ _ H2) as P2.
  destruct p2 as [t2 ((s2, payload), off)|t2 s2r rep2].
  2:{ inversion H; subst. exact P2. }
  apply obind_ok_inv in H. destruct H as (((al & aof) & aall) & _ & H).
  apply obind_ok_inv in H. destruct H as (p3 & H3 & H).
  pose proof (transition_capf _ _ _ _ _ _ _ _ H3) as P3.
  destruct p3 as [t3 s3|t3 s3r rep3].
  2:{ inversion H; subst. eapply capf_trans; eassumption. }
  apply obind_ok_inv in H. destruct H as ((s4 & wu) & H4 & H).
  pose proof (update_remote_capf _ _ _ _ _ _ H4) as P4.
  apply obind_ok_inv in H. destruct H as ((s5 & t5) & H5 & H).
  pose proof (dup_ack_capf _ _ _ _ _ _ _ H5) as P5.
  pose proof (tsval_capf s5 r) as P5'.
  set (q5 := match r_timestamp r with
             | Some (tsval, _) => upd_last_remote_tsval s5 tsval
             | None => s5
             end) in *. clearbody q5.
  pose proof (timers_capf cx q5 al aall) as P6.
  destruct (tcp_process_timers cx q5 al aall) as (s6, t6). cbn [fst] in P6.
  pose proof (zwp_capf cx s6 al) as P7.
  destruct (tcp_process_zwp cx s6 al) as (s7, t7). cbn [fst] in P7.
  apply obind_ok_inv in H. destruct H as (((s8 & rep8) & t8) & H8 & H).
  pose proof (payload_capf _ _ _ _ _ _ _ _ _ H8) as P8.
  inversion H; subst s' rep tags.
  eapply capf_trans; [exact P8|]. eapply capf_trans; [exact P7|]. eapply capf_trans; [exact P6|].
  eapply capf_trans; [exact P5'|]. eapply capf_trans; [exact P5|]. eapply capf_trans; [exact P4|].
  eapply capf_trans; [exact P3 | exact P2].
Qed.

Lemma ingress_capf cx s ip r s' rep tags :
  iface_tcp_ingress cx s ip r = Ok (s', rep, tags) -> capf s' s.
Proof.
  unfold iface_tcp_ingress. intros H.
  destruct ((ip_src ip =? 0) || (ip_dst ip =? 0)); [inversion H; subst; apply capf_refl|].
  destruct ((r_src_port r =? 0) || (r_dst_port r =? 0)); [inversion H; subst; apply capf_refl|].
  destruct (tcp_accepts s ip r); [apply (process_capf _ _ _ _ _ _ _ H)|].
  destruct (control_eqb (r_control r) CRst); [inversion H; subst; apply capf_refl|].
  apply obind_ok_inv in H. destruct H as (p & _ & H). inversion H; subst. apply capf_refl.
Qed.

(* ---------------------------------------------------------------------------------------- *)
(* dispatch                                                                                  *)
(* ---------------------------------------------------------------------------------------- *)
Lemma dispatch_timers_capf cx s s1 t : tcp_dispatch_timers cx s = Ok (s1, t) -> capf s1 s.
Proof.
  unfold tcp_dispatch_timers. intros H.
  set (s0 := if is_some (s_remote_last_ts s) then s else upd_remote_last_ts s (Some (cx_now cx))) in *.
  assert (H0 : capf s0 s) by (unfold s0; destruct (is_some (s_remote_last_ts s)); capf_solve).
  apply (capf_trans _ s0); [|exact H0]. clear H0. clearbody s0.
  destruct (tcp_timed_out s0 (cx_now cx)); [inversion H; subst; unfold tcp_set_state; capf_solve|].
  destruct (timer_should_retransmit (s_timer s0) (cx_now cx)); [|inversion H; subst; capf_solve].
  apply obind_ok_inv in H. destruct H as (fl & _ & H).
  destruct (s_timer s0); cbv beta iota zeta in H; rproj; des_all H; inversion H; subst; capf_solve.
Qed.

Lemma dispatch_decide_capf cx s s2 go t : tcp_dispatch_decide cx s = Ok (s2, go, t) -> capf s2 s.
Proof.
  unfold tcp_dispatch_decide. intros H.
  apply obind_ok_inv in H. destruct H as (stt & _ & H).
  destruct stt; [inversion H; subst; unfold tcp_set_state; capf_solve|].
  destruct (tcp_ack_to_transmit s && tcp_delayed_ack_expired s (cx_now cx)); [inversion H; subst; capf_solve|].
  apply obind_ok_inv in H. destruct H as (wtu & _ & H).
  des_all H; inversion H; subst; capf_solve.
Qed.

Lemma build_data_capf cx s repr s' orepr zwp tg :
  tcp_dispatch_build_data cx s repr = Ok (s', orepr, zwp, tg) -> capf s' s.
Proof.
  unfold tcp_dispatch_build_data. intros H.
  apply obind_ok_inv in H. destruct H as (ol & _ & H).
  apply obind_ok_inv in H. destruct H as (lm & _ & H).
  apply obind_ok_inv in H. destruct H as (((((s1 & r1) & off) & zw) & tg1) & H1 & H).
  assert (Hr1 : capf s1 s).
  { des1 H1.
    - inversion H1; subst. capf_solve.
    - repeat (apply obind_ok_inv in H1; destruct H1 as (? & _ & H1)). inversion H1; subst. apply capf_refl. }
  cbv beta iota zeta in H. inversion H; subst. exact Hr1.
Qed.

Lemma dispatch_build_capf cx s t s' orepr zwp ka tg :
  tcp_dispatch_build cx s t = Ok (s', orepr, zwp, ka, tg) -> capf s' s.
Proof.
  unfold tcp_dispatch_build. intros H.
  apply obind_ok_inv in H. destruct H as ((((s1 & or1) & zw1) & tg1) & H1 & H).
  assert (Hb : capf s1 s).
  { destruct (s_state s); try (inversion H1; subst; apply capf_refl);
      try (apply build_data_capf in H1; exact H1).
    destruct (s_syn_unacked_in_fin_wait s); [inversion H1; subst; apply capf_refl|].
    apply build_data_capf in H1; exact H1. }
  destruct or1 as [repr|]; [|inversion H; subst; exact Hb].
  apply obind_ok_inv in H. destruct H as (repr' & _ & H). inversion H; subst. exact Hb.
Qed.

Lemma dispatch_finish_capf cx s repr zwp ka : capf (fst (tcp_dispatch_finish cx s repr zwp ka)) s.
Proof.
  unfold tcp_dispatch_finish.
  destruct zwp; [cbn [fst]; capf_solve|].
  destruct ka; [cbn [fst]; capf_solve|].
  repeat match goal with
  | |- context [if ?c then _ else _] => destruct c
  | |- context [let '(_, _) := ?x in _] => destruct x
  end; cbn [fst]; capf_solve.
Qed.

Lemma dispatch_capf cx s ok s' res tags :
  tcp_dispatch cx s ok = Ok (s', res, tags) -> capf s' s.
Proof.
  unfold tcp_dispatch. intros H.
  destruct (s_tuple s) as [t|]; [|inversion H; subst; apply capf_refl].
  destruct (negb (tu_local_addr t =? cx_addr cx)); [inversion H; subst; apply reset_capf|].
  apply obind_ok_inv in H. destruct H as ((s1 & t1) & H1 & H).
  pose proof (dispatch_timers_capf _ _ _ _ H1) as P1.
  apply obind_ok_inv in H. destruct H as (((s2 & go) & t2) & H2 & H).
  pose proof (dispatch_decide_capf _ _ _ _ _ H2) as P2.
  pose proof (capf_trans _ _ _ P2 P1) as P12.
  destruct (negb go); [inversion H; subst; exact P12|].
  apply obind_ok_inv in H. destruct H as (((((s3 & orepr) & zwp) & ka) & t3) & H3 & H).
  pose proof (capf_trans _ _ _ (dispatch_build_capf _ _ _ _ _ _ _ _ H3) P12) as P3.
  destruct orepr as [repr|]; [|inversion H; subst; exact P3].
  destruct (negb ok); [inversion H; subst; exact P3|].
  pose proof (dispatch_finish_capf cx s3 repr zwp ka) as F.
  destruct (tcp_dispatch_finish cx s3 repr zwp ka) as (s4, t4). cbn [fst] in F.
  inversion H; subst. eapply capf_trans; eassumption.
Qed.

(* ---------------------------------------------------------------------------------------- *)
(* every event                                                                               *)
(* ---------------------------------------------------------------------------------------- *)
Lemma send_slice_capf s data s' n : tcp_send_slice s data = Ok (s', n) -> capf s' s.
Proof.
  unfold tcp_send_slice. intros H. destruct (negb (tcp_may_send s)); [discriminate|].
  destruct (rb_enqueue_slice (s_tx_buffer s) data) as (tx, size).
  des_all H; inversion H; subst; capf_solve.
Qed.

Lemma dequeue_pass_cap r n : rb_cap (fst (rb_dequeue_pass r n)) = rb_cap r.
Proof.
  unfold rb_dequeue_pass.
  repeat match goal with
  | |- context [let '(_, _) := ?x in _] => destruct x
  | |- context [if ?c then _ else _] => destruct c
  end; reflexivity.
Qed.

Lemma dequeue_slice_cap r n : rb_cap (fst (rb_dequeue_slice r n)) = rb_cap r.
Proof.
  unfold rb_dequeue_slice.
  pose proof (dequeue_pass_cap r n) as H1. destruct (rb_dequeue_pass r n) as (r1, b1). cbn [fst] in H1.
  pose proof (dequeue_pass_cap r1 (n - l_len b1)) as H2.
  destruct (rb_dequeue_pass r1 (n - l_len b1)) as (r2, b2). cbn [fst] in *. congruence.
Qed.

Lemma recv_slice_capf s n s' b : tcp_recv_slice s n = Ok (s', b) -> capf s' s.
Proof.
  unfold tcp_recv_slice. intros H. apply obind_ok_inv in H. destruct H as (u & _ & H).
  pose proof (dequeue_slice_cap (s_rx_buffer s) n) as Hc.
  destruct (rb_dequeue_slice (s_rx_buffer s) n) as (rx, bytes). cbn [fst] in Hc.
  inversion H; subst. unfold capf. rproj. split; [exact Hc | left; reflexivity].
Qed.

Theorem step_capf cx s ev s' out tags :
  tcp_step cx s ev = Ok (s', out, tags) -> capf s' s.
Proof.
  intros H. destruct ev; cbn [tcp_step] in H.
  - (* listen *)
    destruct (tcp_listen s ep) as [s1|e|] eqn:E; [| |discriminate]; inversion H; subst; [|apply capf_refl].
    unfold tcp_listen in E. destruct (le_port ep =? 0); [discriminate|].
    destruct (tcp_is_open s).
    + destruct (_ && _); inversion E; subst. apply capf_refl.
    + inversion E; subst. eapply capf_trans; [|apply reset_capf]. generalize (tcp_reset s). intros q.
      unfold tcp_set_state. capf_solve.
  - (* connect *)
    destruct (tcp_connect cx s remote_addr remote_port local) as [s1|e|] eqn:E; [| |discriminate];
      inversion H; subst; [|apply capf_refl].
    unfold tcp_connect in E. destruct (tcp_is_open s); [discriminate|].
    destruct (_ || _); [discriminate|]. destruct (le_port local =? 0); [discriminate|].
    apply obind_ok_inv in E. destruct E as (la & _ & E). inversion E; subst.
    eapply capf_trans; [|apply reset_capf]. generalize (tcp_reset s). intros q. unfold tcp_set_state. capf_solve.
  - inversion H; subst. unfold tcp_close, tcp_set_state. destruct (s_state s); capf_solve.
  - inversion H; subst. unfold tcp_abort, tcp_set_state. capf_solve.
  - destruct (tcp_send_slice s data) as [(s1, n)|e|] eqn:E; [| |discriminate]; inversion H; subst;
      [exact (send_slice_capf _ _ _ _ E) | apply capf_refl].
  - destruct (tcp_recv_slice s n) as [(s1, b)|e|] eqn:E; [| |discriminate]; inversion H; subst;
      [exact (recv_slice_capf _ _ _ _ E) | apply capf_refl].
  - destruct (tcp_peek s n) as [l|e|]; [| |discriminate]; inversion H; subst; apply capf_refl.
  - destruct (tcp_peek_slice s n) as [l|e|]; [| |discriminate]; inversion H; subst; apply capf_refl.
  - inversion H; subst. unfold tcp_set_timeout. capf_solve.
  - inversion H; subst. unfold tcp_set_keep_alive.
    repeat match goal with |- context [if ?c then _ else _] => destruct c | |- context [match ?x with _ => _ end] => destruct x end;
      capf_solve.
  - inversion H; subst. unfold tcp_set_ack_delay. capf_solve.
  - inversion H; subst. unfold tcp_set_nagle_enabled. capf_solve.
  - apply obind_ok_inv in H. destruct H as (s1 & Hh & H). inversion H; subst.
    unfold tcp_set_hop_limit in Hh. destruct h as [[|hp|hp]|]; inversion Hh; subst; capf_solve.
  - apply obind_ok_inv in H. destruct H as (((s1 & rep) & tg) & Hi & H). inversion H; subst.
    exact (ingress_capf _ _ _ _ _ _ _ Hi).
  - apply obind_ok_inv in H. destruct H as (((s1 & res) & tg) & Hd & H). inversion H; subst.
    exact (dispatch_capf _ _ _ _ _ _ Hd).
Qed.

(* ---------------------------------------------------------------------------------------- *)
(* the invariant and what it gives                                                           *)
(* ---------------------------------------------------------------------------------------- *)
Definition capw (s : socket) : Prop :=
  s_remote_win_shift s = 0 \/ s_remote_win_shift s = tcp_win_shift_for (rb_cap (s_rx_buffer s)).

Lemma capw_capf s' s : capf s' s -> capw s -> capw s'.
Proof.
  intros (C & [E | [E | E]]) Hw; unfold capw; rewrite C.
  - rewrite E. exact Hw.
  - left. exact E.
  - right. exact E.
Qed.

Lemma capw_new rx tx cc ts s : tcp_new rx tx cc ts = Ok s -> capw s /\ rb_cap (s_rx_buffer s) = l_len rx.
Proof.
  unfold tcp_new. intros H. destruct (rb_cap (rb_new rx) >? 2 ^ 30); [discriminate|]. inversion H; subst.
  split; [right; reflexivity | reflexivity].
Qed.

Lemma shift_for_le c : 0 < c -> 2 ^ tcp_win_shift_for c <= c.
Proof.
  intros Hc. unfold tcp_win_shift_for, sat_sub.
  destruct (c <=? 0) eqn:E; [apply Z.leb_le in E; lia|].
  pose proof (Z.log2_nonneg c) as Hl. pose proof (Z.log2_spec c Hc) as (Hlo & _).
  destruct (Z.max_spec 0 (Z.log2 c + 1 - 16)) as [(H1 & ->) | (H1 & ->)].
  - apply Z.le_trans with (2 ^ Z.log2 c); [|exact Hlo]. apply Z.pow_le_mono_r; lia.
  - change (2 ^ 0) with 1. lia.
Qed.

(* an empty receive buffer of positive capacity advertises a non-zero window *)
Theorem capw_window s :
  capw s -> 0 < rb_cap (s_rx_buffer s) -> rb_len (s_rx_buffer s) = 0 -> 0 < tcp_scaled_window s.
Proof.
  intros Hw Hc Hl. unfold tcp_scaled_window, rb_window, shr. rewrite Hl, Z.sub_0_r.
  assert (Hp : 0 < 2 ^ s_remote_win_shift s /\ 2 ^ s_remote_win_shift s <= rb_cap (s_rx_buffer s)).
  { destruct Hw as [-> | ->].
    - change (2 ^ 0) with 1. lia.
    - split; [|exact (shift_for_le _ Hc)]. apply Z.pow_pos_nonneg; [lia|].
      unfold tcp_win_shift_for, sat_sub. lia. }
  destruct Hp as (Hp1 & Hp2).
  assert (Hq : 1 <= rb_cap (s_rx_buffer s) / 2 ^ s_remote_win_shift s).
  { apply Z.div_le_lower_bound; lia. }
  unfold u16_try, u16_max. destruct (_ <=? _); lia.
Qed.
