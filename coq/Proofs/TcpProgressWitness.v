(* C02 (liveness half): NON-VACUITY of the composition theorems' hypotheses.
   [safe3b] decides the run hypotheses [safe3] = [oneway_safe] /\ [ack_safe] on concrete states
   (soundness: [safe3b_sound]); [run_allb] decides [run_all].  The Example is a run of the system model
   from [net_init] with a LOSSY PREFIX (A's data segment is dropped by the network) followed by a fair
   suffix (retransmission at the RTO deadline, delivery, delayed ACK at ACK_DELAY_DEFAULT, then the
   clock runs on for more than 5 rounds) on which every hypothesis of
   all_written_bytes_eventually_acked holds - so the theorem applies and its conclusion is not vacuous. *)
From SV Require Import Lib.Base Gen.Consts.
From SV Require Import Model.Seq32 Model.Assembler Model.TcpBuf Model.TcpTypes Model.Tcp Model.TcpNet.
From SV Require Import Proofs.TcpSendBase Proofs.TcpLiveBase Proofs.TcpLiveProofs Proofs.TcpLiveMore
  Proofs.TcpLiveProgress.
From SV Require Import Proofs.TcpNetBase.
From SV Require Proofs.AssemblerProofs Proofs.TcpRecvBase Proofs.TcpRecvWindow Proofs.TcpRecvPayload.
From SV Require Import Proofs.TcpProgressBase Proofs.TcpProgressFrame Proofs.TcpProgressRecv
  Proofs.TcpProgressSend Proofs.TcpProgressNet Proofs.TcpProgressData Proofs.TcpProgressAck
  Proofs.TcpProgressAll Proofs.TcpProgressExample.

(* ---------------------------------------------------------------------------------------- *)
(* decision procedures                                                                       *)
(* ---------------------------------------------------------------------------------------- *)
Fixpoint wf_tailb (l : asm) : bool :=
  match l with
  | [] => true
  | c :: r => (0 <? c_hole c) && (0 <? c_data c) && wf_tailb r
  end.
Definition asm_wfb (l : asm) : bool :=
  match l with
  | [] => true
  | c :: r => (0 <=? c_hole c) && (0 <? c_data c) && wf_tailb r
  end.

Lemma wf_tailb_sound l : wf_tailb l = true -> AssemblerProofs.wf_tail l.
Proof.
  induction l as [|c r IH]; cbn; [intros; exact I|]. intros H.
  apply andb_true_iff in H. destruct H as (H & H3). apply andb_true_iff in H. destruct H as (H1 & H2).
  repeat split; try lia. apply IH. exact H3.
Qed.
Lemma asm_wfb_sound l : asm_wfb l = true -> AssemblerProofs.asm_wf l.
Proof.
  destruct l as [|c r]; cbn; [intros; exact I|]. intros H.
  apply andb_true_iff in H. destruct H as (H & H3). apply andb_true_iff in H. destruct H as (H1 & H2).
  repeat split; try lia. apply wf_tailb_sound. exact H3.
Qed.

Definition rcv_wfb (s : socket) : bool :=
  asm_wfb (s_assembler s) && (Z.of_nat (length (s_assembler s)) <=? TcpRecvPayload.asm_cap).

Definition adv_Wb (s : socket) (lo : Z) : bool :=
  let W := seq_sdiff (tcp_window_end s) (tcp_window_start s) in
  (lo <=? W) && (W <=? TcpRecvWindow.p30) && (tcp_window_end s =? seq_norm (tcp_window_start s + W)).

Definition rb_wfb (r : ring) : bool :=
  (0 <=? rb_len r) && (rb_len r <=? rb_cap r) && (l_len (rb_store r) =? rb_cap r) &&
  (0 <=? rb_read_at r) && ((rb_read_at r <? rb_cap r) || ((rb_cap r =? 0) && (rb_read_at r =? 0))).

Definition accepts_okb (s : socket) (p : packet) : bool :=
  negb ((ip_src (fst p) =? 0) || (ip_dst (fst p) =? 0)) &&
  negb ((r_src_port (wire_parse (snd p)) =? 0) || (r_dst_port (wire_parse (snd p)) =? 0)) &&
  tcp_accepts s (fst p) (wire_parse (snd p)).

Definition seg_to_rcvb (sy : socket) (r : tcp_repr) : bool :=
  (control_eqb (r_control r) CSyn && negb (is_some (r_ack_number r))) ||
  ((control_eqb (r_control r) CNone || control_eqb (r_control r) CPsh) &&
   opt_eqb (r_ack_number r) (Some (s_local_seq_no sy)) && (l_len (r_payload r) <=? 65535)).

Definition seg_to_sndb (sx : socket) (r : tcp_repr) : bool :=
  control_eqb (r_control r) CSyn ||
  (control_eqb (r_control r) CNone && (match r_payload r with [] => true | _ => false end) &&
   (r_seq_number r =? tcp_window_start sx)).

Definition tuple_okb (st : net) (z : side) : bool :=
  match s_tuple (net_sock st z) with
  | Some t => tu_local_addr t =? cx_addr (ep_cx (net_get st z))
  | None => false
  end.

Definition mss_okb (cx : ctx) (s : socket) : bool :=
  (wipv4_HEADER_LEN + wtcp_HEADER_LEN <=? cx_ip_mtu cx) &&
  (12 <? Z.min (cx_ip_mtu cx - wipv4_HEADER_LEN - wtcp_HEADER_LEN) (s_remote_mss s)).

Section Dec.
Variable x : side.
Notation y := (side_other x).
Variable Dack : Z.

Definition oneway_safeb (st : net) : bool :=
  andb (tcp_state_eqb (s_state (net_sock st x)) Established)
 (  andb (tcp_state_eqb (s_state (net_sock st y)) Established)
 (  andb (tuple_okb st x)
 (  andb (tuple_okb st y)
 (  andb (forallb (accepts_okb (net_sock st x)) (chan_to st x))
 (  andb (forallb (accepts_okb (net_sock st y)) (chan_to st y))
 (  andb (0 <? s_remote_win_len (net_sock st x))
 (  andb (negb (timer_is_zero_window_probe (s_timer (net_sock st x))))
 (  andb (mss_okb (ep_cx (net_get st x)) (net_sock st x))
 (  andb (rb_len (s_tx_buffer (net_sock st x)) <? 2 ^ 30)
 (  andb (rb_len (s_tx_buffer (net_sock st y)) =? 0)
 (  andb (rcv_wfb (net_sock st y))
 (  andb (adv_Wb (net_sock st y) 1)
 (  andb (rb_wfb (s_rx_buffer (net_sock st y)))
 (  andb (0 <=? s_remote_win_shift (net_sock st y))
 (  andb (forallb (fun p => seg_to_rcvb (net_sock st y) (wire_parse (snd p))) (chan_to st y))
 (  andb (tcp_window_start (net_sock st y) =? sq (s_local_seq_no (net_sock st x) + (rcv_off (net_get st y) - una_off (net_get st x))))
 (  andb (0 <=? rcv_off (net_get st y) - una_off (net_get st x))
 (  rcv_off (net_get st y) - una_off (net_get st x) <=? rb_len (s_tx_buffer (net_sock st x)))))))))))))))))))).

Definition ack_safeb (st : net) : bool :=
  andb (match s_remote_last_ack (net_sock st y) with
        | Some la =>
            let j := seq_sdiff (tcp_window_start (net_sock st y)) la in
            andb (0 <=? la) (andb (la <? 4294967296) (andb (tcp_window_start (net_sock st y) =? sq (la + j))
                 (andb (0 <=? j) (j <=? 2 ^ 30))))
        | None => false
        end)
 (andb (rb_cap (s_rx_buffer (net_sock st y)) <=? 2 ^ 30)
 (andb (match s_ack_delay (net_sock st y) with Some d => (0 <=? d) && (d <=? Dack) | None => true end)
 (andb (adv_Wb (net_sock st x) 0)
       (forallb (fun q => seg_to_sndb (net_sock st x) (wire_parse (snd q))) (chan_to st x))))).

Definition safe3b (st : net) : bool := oneway_safeb st && ack_safeb st.

Lemma adv_Wb_sound s lo : adv_Wb s lo = true ->
  exists W, lo <= W <= TcpRecvWindow.p30 /\ tcp_window_end s = seq_norm (tcp_window_start s + W).
Proof.
  unfold adv_Wb. intros H. apply andb_true_iff in H. destruct H as (H & H3).
  apply andb_true_iff in H. destruct H as (H1 & H2).
  eexists. split; [split; [apply Z.leb_le; exact H1 | apply Z.leb_le; exact H2] | apply Z.eqb_eq; exact H3].
Qed.

Lemma accepts_okb_sound s p : accepts_okb s p = true -> accepts_ok s p.
Proof.
  unfold accepts_okb, accepts_ok. intros H. apply andb_true_iff in H. destruct H as (H & H3).
  apply andb_true_iff in H. destruct H as (H1 & H2).
  apply negb_true_iff in H1. apply negb_true_iff in H2. auto.
Qed.

Lemma control_eqb_eq a b : control_eqb a b = true -> a = b.
Proof. destruct a, b; cbn; congruence. Qed.

Lemma seg_to_rcvb_sound sy r : seg_to_rcvb sy r = true -> seg_to_rcv sy r.
Proof.
  unfold seg_to_rcvb, seg_to_rcv. intros H. apply orb_true_iff in H. destruct H as [H | H].
  - apply andb_true_iff in H. destruct H as (H1 & H2). left. split; [apply control_eqb_eq; exact H1|].
    destruct (r_ack_number r); [discriminate | reflexivity].
  - apply andb_true_iff in H. destruct H as (H & H3). apply andb_true_iff in H. destruct H as (H1 & H2).
    right. split.
    + apply orb_true_iff in H1. destruct H1 as [H1 | H1]; [left | right]; apply control_eqb_eq; exact H1.
    + split; [|lia]. unfold opt_eqb in H2. destruct (r_ack_number r) as [a|]; [|discriminate].
      f_equal. lia.
Qed.

Lemma seg_to_sndb_sound sx r : seg_to_sndb sx r = true -> seg_to_snd sx r.
Proof.
  unfold seg_to_sndb, seg_to_snd. intros H. apply orb_true_iff in H. destruct H as [H | H].
  - left. apply control_eqb_eq. exact H.
  - apply andb_true_iff in H. destruct H as (H & H3). apply andb_true_iff in H. destruct H as (H1 & H2).
    right. split; [apply control_eqb_eq; exact H1|]. split; [destruct (r_payload r); [reflexivity | discriminate] | lia].
Qed.

Lemma tuple_okb_sound st z : tuple_okb st z = true ->
  exists t, s_tuple (net_sock st z) = Some t /\ tu_local_addr t = cx_addr (ep_cx (net_get st z)).
Proof.
  unfold tuple_okb. destruct (s_tuple (net_sock st z)) as [t|]; [|discriminate].
  intros H. exists t. split; [reflexivity | lia].
Qed.

Ltac band H := repeat (apply andb_true_iff in H; let H' := fresh "B" in destruct H as (H & H')).

Lemma oneway_safeb_sound st : oneway_safeb st = true -> oneway_safe x st.
Proof.
  unfold oneway_safeb. intros H.
  apply andb_true_iff in H; destruct H as (E1 & H).
  apply andb_true_iff in H; destruct H as (E2 & H).
  apply andb_true_iff in H; destruct H as (T1 & H).
  apply andb_true_iff in H; destruct H as (T2 & H).
  apply andb_true_iff in H; destruct H as (A1 & H).
  apply andb_true_iff in H; destruct H as (A2 & H).
  apply andb_true_iff in H; destruct H as (W1 & H).
  apply andb_true_iff in H; destruct H as (Z1 & H).
  apply andb_true_iff in H; destruct H as (M1 & H).
  apply andb_true_iff in H; destruct H as (X1 & H).
  apply andb_true_iff in H; destruct H as (Y1 & H).
  apply andb_true_iff in H; destruct H as (R1 & H).
  apply andb_true_iff in H; destruct H as (R2 & H).
  apply andb_true_iff in H; destruct H as (R3 & H).
  apply andb_true_iff in H; destruct H as (R4 & H).
  apply andb_true_iff in H; destruct H as (C1 & H).
  apply andb_true_iff in H; destruct H as (K1 & H).
  apply andb_true_iff in H; destruct H as (K2 & H).
  rename H into K3.
  constructor.
  - intros z. destruct (side_cases x z) as [<- | ->]; apply tcp_state_eqb_eq; assumption.
  - intros z. destruct (side_cases x z) as [<- | ->]; apply tuple_okb_sound; assumption.
  - intros z p Hin. apply accepts_okb_sound.
    destruct (side_cases x z) as [<- | ->].
    + rewrite forallb_forall in A1. apply A1. exact Hin.
    + rewrite forallb_forall in A2. apply A2. exact Hin.
  - lia.
  - apply negb_true_iff. assumption.
  - unfold mss_okb in M1. apply andb_true_iff in M1. destruct M1 as (Ma & Mb). split; lia.
  - lia.
  - apply Z.eqb_eq. assumption.
  - split; [|split; [|split]].
    + unfold rcv_wfb in R1. apply andb_true_iff in R1. destruct R1 as (Ra & Rb).
      split; [apply asm_wfb_sound; exact Ra | apply Z.leb_le; exact Rb].
    + destruct (adv_Wb_sound _ _ R2) as (W & HW & E). exists W. split; [lia | exact E].
    + unfold rb_wfb in R3.
      apply andb_true_iff in R3. destruct R3 as (R3 & Q5).
      apply andb_true_iff in R3. destruct R3 as (R3 & Q4).
      apply andb_true_iff in R3. destruct R3 as (R3 & Q3).
      apply andb_true_iff in R3. destruct R3 as (Q1 & Q2).
      unfold TcpRecvBase.rb_wf.
      split; [lia|]. split; [lia|]. split; [lia|].
      apply orb_true_iff in Q5. destruct Q5 as [X | X]; [left; lia|].
      apply andb_true_iff in X. right. lia.
    + lia.
  - intros p Hin. apply seg_to_rcvb_sound. rewrite forallb_forall in C1. apply C1. exact Hin.
  - split; [apply Z.eqb_eq; assumption | lia].
Qed.

Lemma ack_safeb_sound st : ack_safeb st = true -> ack_safe x Dack st.
Proof.
  unfold ack_safeb. intros H.
  apply andb_true_iff in H; destruct H as (L1 & H).
  apply andb_true_iff in H; destruct H as (L2 & H).
  apply andb_true_iff in H; destruct H as (L3 & H).
  apply andb_true_iff in H; destruct H as (L4 & L5).
  constructor.
  - destruct (s_remote_last_ack (net_sock st (side_other x))) as [la|]; [|discriminate].
    cbv zeta in L1.
    apply andb_true_iff in L1; destruct L1 as (P1 & L1).
    apply andb_true_iff in L1; destruct L1 as (P2 & L1).
    apply andb_true_iff in L1; destruct L1 as (P3 & L1).
    apply andb_true_iff in L1; destruct L1 as (P4 & P5).
    eexists la, _. split; [reflexivity|]. split; [lia|]. split; [apply Z.eqb_eq; exact P3|]. lia.
  - lia.
  - destruct (s_ack_delay (net_sock st (side_other x))); [lia | exact I].
  - destruct (adv_Wb_sound _ _ L4) as (W & HW & E). exists W. split; [exact HW | exact E].
  - intros q Hin. apply seg_to_sndb_sound. rewrite forallb_forall in L5. apply L5. exact Hin.
Qed.

Lemma safe3b_sound st : safe3b st = true -> safe3 x Dack st.
Proof.
  unfold safe3b. intros H. apply andb_true_iff in H. destruct H as (H1 & H2).
  split; [apply oneway_safeb_sound; exact H1 | apply ack_safeb_sound; exact H2].
Qed.

Fixpoint run_allb (st : net) (evs : list net_event) : bool :=
  safe3b st &&
  match evs with
  | [] => true
  | ev :: rest => match net_step st ev with Ok st' => run_allb st' rest | _ => true end
  end.

Lemma run_allb_sound evs : forall st, run_allb st evs = true -> run_all (safe3 x Dack) st evs.
Proof.
  induction evs as [|ev r IH]; intros st H; cbn [run_allb run_all] in *;
    apply andb_true_iff in H; destruct H as (H1 & H2); (split; [apply safe3b_sound; exact H1|]); [exact I|].
  destruct (net_step st ev); try exact I. apply IH. exact H2.
Qed.

End Dec.

(* ---------------------------------------------------------------------------------------- *)
(* the witness run                                                                           *)
(* ---------------------------------------------------------------------------------------- *)
(* lossy prefix: handshake, A writes 5 octets and transmits them, the network DROPS the segment *)
Definition wit_prefix : list net_event :=
  [NPoll SA true; NDeliver SB 0; NPoll SB true; NDeliver SA 0; NPoll SA true; NDeliver SB 1;
   NSend SA [1;2;3;4;5]; NPoll SA true; NDrop SB 2].
(* fair suffix: everything still in flight is delivered (old SYN, old ACK, old SYN-ACK - answered by a
   challenge ACK, also delivered); the clock advances exactly to A's retransmission deadline; A
   retransmits; B accepts, its application reads, the delayed ACK goes out at its deadline and is
   delivered; then the clock runs on for more than 5 rounds *)
Definition wit_suffix : list net_event :=
  [NDeliver SB 0; NDeliver SB 1; NDeliver SA 0; NDeliver SB 2;
   NTick (tcp_RTTE_INITIAL_RTO * 1000); NPoll SA true; NDeliver SB 3; NRecv SB 100;
   NTick tcp_ACK_DELAY_DEFAULT; NPoll SB true; NDeliver SA 1;
   NTick 400000000].

Definition wit_check_gen (ca cb : ep_config) (pre suf : list net_event) (Dt Da Dack L : Z) (n m : nat) : bool :=
  match net_init ca cb with
  | Ok st0 =>
      match net_run st0 pre with
      | Ok st =>
          opts_okb st && fair_runb Dt Da (fa_init Dt Da st) st suf &&
          run_allb SA Dack st suf &&
          (L <=? l_len (ep_written (net_get st SA))) && (L - una_off (net_get st SA) <=? Z.of_nat n) &&
          (L - read_off (net_get st SB) <=? Z.of_nat m) && (0 <=? Dt) && (0 <=? Da) && (0 <=? Dack) &&
          match net_run st suf with
          | Ok st' => net_now st SA + Z.of_nat n * W3 Dt Dack + Z.of_nat m * Da <? net_now st' SA
          | _ => false
          end
      | _ => false
      end
  | _ => false
  end.

(* the run is kept abstract here and evaluated only by vm_compute below *)
Lemma wit_package ca cb pre suf Dt Da Dack L n m :
  cc_ok (c_cc ca) -> cc_ok (c_cc cb) -> 0 <= c_now ca -> 0 <= c_now cb ->
  wit_check_gen ca cb pre suf Dt Da Dack L n m = true ->
  exists st0 st st',
    net_init ca cb = Ok st0 /\ net_run st0 pre = Ok st /\
    NI st /\ opts_ok st /\ dl_sync Da (fa_init Dt Da st) st /\
    run_all (safe3 SA Dack) st suf /\ fair_run Dt Da (fa_init Dt Da st) st suf /\
    net_run st suf = Ok st' /\
    L <= l_len (ep_written (net_get st SA)) /\ L - una_off (net_get st SA) <= Z.of_nat n /\
    L - read_off (net_get st SB) <= Z.of_nat m /\ 0 <= Dt /\ 0 <= Da /\ 0 <= Dack /\
    net_now st SA + Z.of_nat n * W3 Dt Dack + Z.of_nat m * Da < net_now st' SA.
Proof.
  intros C1 C2 C3 C4 H. unfold wit_check_gen in H.
  destruct (net_init ca cb) as [st0|e|] eqn:Ei; try discriminate.
  destruct (net_run st0 pre) as [st|e|] eqn:Ep; try discriminate.
  apply andb_true_iff in H. destruct H as (H & Hclk).
  apply andb_true_iff in H. destruct H as (H & Hd3).
  apply andb_true_iff in H. destruct H as (H & Hd2).
  apply andb_true_iff in H. destruct H as (H & Hd1).
  apply andb_true_iff in H. destruct H as (H & Hm).
  apply andb_true_iff in H. destruct H as (H & Hu).
  apply andb_true_iff in H. destruct H as (H & Hw).
  apply andb_true_iff in H. destruct H as (H & Hra).
  apply andb_true_iff in H. destruct H as (Ho & Hf).
  destruct (net_run st suf) as [st'|e|] eqn:Es; try discriminate.
  exists st0, st, st'. split; [reflexivity|]. split; [exact Ep|].
  split; [apply (NI_run pre st0 st (NI_init _ _ _ C1 C2 C3 C4 Ei) Ep)|].
  split; [apply opts_okb_sound; exact Ho|]. split; [apply fa_init_sync|].
  split; [apply run_allb_sound; exact Hra|]. split; [apply fair_runb_sound; exact Hf|].
  split; [exact Es|]. lia.
Qed.

Lemma wit_check_ok : wit_check_gen ex_cfg_a ex_cfg_b wit_prefix wit_suffix 5000 5000 10000 5 5 5 = true.
Proof. vm_compute. reflexivity. Qed.

Lemma ex_cfg_cc : cc_ok (c_cc ex_cfg_a) /\ cc_ok (c_cc ex_cfg_b) /\ 0 <= c_now ex_cfg_a /\ 0 <= c_now ex_cfg_b.
Proof.
  unfold ex_cfg_a, ex_cfg_b. cbn [c_cc c_now cc_ok]. split; [apply reno_new_pos|]. split; [exact I|]. lia.
Qed.

Lemma wit_prefix_lossy : In (NDrop SB 2) wit_prefix.
Proof. unfold wit_prefix. cbn [In]. tauto. Qed.

(* every hypothesis of all_written_bytes_eventually_delivered (x = A, Dt = Da = 5 ms, Dack = 10 ms,
   n = m = 5, L0 = 5) holds on this run, which starts after a real loss *)
Theorem composition_hypotheses_satisfiable :
  exists st0 st st',
    net_init ex_cfg_a ex_cfg_b = Ok st0 /\ net_run st0 wit_prefix = Ok st /\
    NI st /\ opts_ok st /\ dl_sync 5000 (fa_init 5000 5000 st) st /\
    run_all (safe3 SA 10000) st wit_suffix /\ fair_run 5000 5000 (fa_init 5000 5000 st) st wit_suffix /\
    net_run st wit_suffix = Ok st' /\
    5 <= l_len (ep_written (net_get st SA)) /\ 5 - una_off (net_get st SA) <= Z.of_nat 5 /\
    5 - read_off (net_get st SB) <= Z.of_nat 5 /\ 0 <= 5000 /\ 0 <= 5000 /\ 0 <= 10000 /\
    net_now st SA + Z.of_nat 5 * W3 5000 10000 + Z.of_nat 5 * 5000 < net_now st' SA.
Proof.
  destruct ex_cfg_cc as (C1 & C2 & C3 & C4).
  exact (wit_package _ _ _ _ _ _ _ _ _ _ C1 C2 C3 C4 wit_check_ok).
Qed.

(* ... so the theorem applies to it: the run passes through a state in which all 5 octets have been
   handed to B's application *)
Theorem composition_applies :
  exists st0 st st',
    net_init ex_cfg_a ex_cfg_b = Ok st0 /\ net_run st0 wit_prefix = Ok st /\ net_run st wit_suffix = Ok st' /\
    exists pre post st1, wit_suffix = pre ++ post /\ net_run st pre = Ok st1 /\ net_run st1 post = Ok st' /\
                         5 <= read_off (net_get st1 SB).
Proof.
  destruct composition_hypotheses_satisfiable
    as (st0 & st & st' & Ei & Ep & HN & Ho & Hsy & HR & Hf & Es & HL & Hn & Hm & H1 & H2 & H3 & Hclk).
  exists st0, st, st'. split; [exact Ei|]. split; [exact Ep|]. split; [exact Es|].
  exact (all_written_bytes_eventually_delivered SA 5000 5000 10000 5 5 wit_suffix (fa_init 5000 5000 st) st st' 5
           H1 H3 H2 HN Ho Hsy HR Hf Es HL Hn Hm Hclk).
Qed.
