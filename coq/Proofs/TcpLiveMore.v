(* C02 / C13(TCP), layer 2: the statements exported to Props/C02.v
   - the two C13 clauses for the TCP socket and the instance of the interface-level composition
     ([comp_sound], [opt_future] of Proofs/PollAtProofs.v);
   - Reno: the congestion window over arbitrary sequences of controller events;
   - non-vacuity: reachable states with data in flight / a closed remote window, computed with the
     model. *)
From SV Require Import Lib.Base Gen.Consts.
From SV Require Import Model.PollAt Proofs.PollAtProofs.
From SV Require Import Model.Seq32 Model.Assembler Model.TcpBuf Model.TcpTypes Model.Tcp.
From SV Require Import Proofs.TcpSendBase Proofs.TcpLiveBase Proofs.TcpLiveProofs.

(* ------------------------------------------------------------------------------------------ *)
(* C13 for the TCP socket                                                                       *)
(* ------------------------------------------------------------------------------------------ *)
Definition emitted (res : dispatch_result) : bool :=
  match res with DNothing => false | DSent _ | DEmitFailed _ => true end.

(* clause 1: a poll before the reported deadline (or at any time when the socket reports
   "ingress only") does not reach the emit callback, and leaves the socket as it is (or reset when
   the interface lost the socket's address) *)
Theorem tcp_early_poll_silent : forall cx s emit_ok p s' res tags,
  tcp_poll_at cx s = Ok p ->
  (p = Tcp.PIngress \/ exists t, p = Tcp.PTime t /\ cx_now cx < t) ->
  tcp_dispatch cx s emit_ok = Ok (s', res, tags) ->
  emitted res = false /\ (s' = s \/ s' = tcp_reset s).
Proof.
  intros cx s emit_ok p s' res tags Hp Hf Hd.
  assert (Hfut : pa_future (cx_now cx) p).
  { destruct Hf as [-> | (t & -> & Ht)]; cbn; auto. }
  destruct (tcp_early_poll_silent_lemma _ _ _ _ _ _ _ Hp Hfut Hd) as (-> & Hs). auto.
Qed.

(* clause 2: after a dispatch that emitted nothing (the emit callback was not even called, so it
   was not refused either) the socket's deadline is absent or strictly later than that poll *)
Theorem tcp_no_spin : forall cx s emit_ok s' tags p,
  tcp_reachable s ->
  tcp_dispatch cx s emit_ok = Ok (s', DNothing, tags) ->
  tcp_poll_at cx s' = Ok p ->
  p = Tcp.PIngress \/ exists t, p = Tcp.PTime t /\ cx_now cx < t.
Proof.
  intros cx s emit_ok s' tags p R Hd Hp.
  pose proof (reachable_inv s R) as I.
  pose proof (tcp_no_spin_lemma _ _ _ _ _ _ (li_rtte s I) (li_listen s I) Hd Hp) as Hf.
  destruct p as [|t|]; cbn in Hf; [contradiction | right; exists t; auto | left; reflexivity].
Qed.

(* the socket's deadline as the interface sees it (socket::PollAt after an Active Meta) *)
Definition tcp_to_pollat (p : Tcp.poll_at) : PollAt.pollat :=
  match p with
  | Tcp.PNow => PollAt.PNow
  | Tcp.PTime t => PollAt.PTime t
  | Tcp.PIngress => PollAt.PIngress
  end.

(* instance of the per-component hypothesis of C13_iface_early_poll_silent *)
Theorem tcp_comp_sound : forall cx s emit_ok p s' res tags,
  0 <= cx_now cx ->
  tcp_poll_at cx s = Ok p ->
  tcp_dispatch cx s emit_ok = Ok (s', res, tags) ->
  comp_sound (cx_now cx) (pollat_instant (tcp_to_pollat p), emitted res).
Proof.
  intros cx s emit_ok p s' res tags Hnow Hp Hd. unfold comp_sound. cbn [fst snd]. intros He.
  destruct p as [|t|]; cbn [tcp_to_pollat pollat_instant opt_le].
  - exact Hnow.
  - destruct (Z_le_gt_dec t (cx_now cx)) as [Hle|Hgt]; [exact Hle|]. exfalso.
    assert (Hf : pa_future (cx_now cx) (Tcp.PTime t)) by (cbn; lia).
    destruct (tcp_early_poll_silent_lemma _ _ _ _ _ _ _ Hp Hf Hd) as (-> & _). discriminate.
  - assert (Hf : pa_future (cx_now cx) Tcp.PIngress) by exact I.
    destruct (tcp_early_poll_silent_lemma _ _ _ _ _ _ _ Hp Hf Hd) as (-> & _). discriminate.
Qed.

(* instance of the per-socket hypothesis of C13_iface_no_spin *)
Theorem tcp_future_after_idle_dispatch : forall cx s emit_ok s' tags p,
  tcp_reachable s ->
  tcp_dispatch cx s emit_ok = Ok (s', DNothing, tags) ->
  tcp_poll_at cx s' = Ok p ->
  opt_future (cx_now cx) (pollat_instant (tcp_to_pollat p)).
Proof.
  intros cx s emit_ok s' tags p R Hd Hp.
  destruct (tcp_no_spin _ _ _ _ _ _ R Hd Hp) as [-> | (t & -> & Ht)]; cbn; auto.
Qed.

(* ------------------------------------------------------------------------------------------ *)
(* Reno over arbitrary event sequences                                                          *)
(* ------------------------------------------------------------------------------------------ *)
Inductive reno_op :=
| RAck (len : Z) | RDupAck (len : Z) | RLoss (in_flight : Z) | RRto (in_flight : Z)
| RSetRwnd (w : Z) | RSetMss (m : Z).

Definition reno_apply (r : reno) (op : reno_op) : outcome reno :=
  match op with
  | RAck len => reno_on_ack r len
  | RDupAck len => Ok (reno_on_dup_ack r len)
  | RLoss f => Ok (reno_on_loss r f)
  | RRto f => Ok (reno_on_rto r f)
  | RSetRwnd w => Ok (reno_set_remote_window r w)
  | RSetMss m => Ok (reno_set_mss r m)
  end.

Fixpoint reno_run (r : reno) (ops : list reno_op) : outcome reno :=
  match ops with
  | [] => Ok r
  | op :: rest => do r' <- reno_apply r op; reno_run r' rest
  end.

(* an MSS is a positive 16-bit-ish number *)
Definition reno_op_ok (op : reno_op) : Prop :=
  match op with RSetMss m => 0 < m <= usize_max | _ => True end.

Lemma reno_apply_pos : forall r op r',
  reno_op_ok op -> reno_pos r -> reno_apply r op = Ok r' -> reno_pos r'.
Proof.
  intros r [len|len|f|f|w|m] r' Hok Hp H; cbn [reno_apply reno_op_ok] in *;
    try (inversion H; subst r').
  - eauto using reno_on_ack_pos.
  - apply reno_on_dup_ack_pos; exact Hp.
  - apply reno_on_loss_pos; exact Hp.
  - apply reno_on_rto_pos; exact Hp.
  - apply reno_set_remote_window_pos; exact Hp.
  - apply reno_set_mss_pos; [lia | exact Hp].
Qed.

Lemma reno_apply_ge_mss : forall r op r',
  reno_op_ok op -> reno_ge_mss r -> reno_apply r op = Ok r' -> reno_ge_mss r'.
Proof.
  intros r [len|len|f|f|w|m] r' Hok Hp H; cbn [reno_apply reno_op_ok] in *;
    try (inversion H; subst r').
  - eauto using reno_on_ack_ge_mss.
  - apply reno_on_dup_ack_ge_mss; exact Hp.
  - apply reno_on_loss_ge_mss; exact Hp.
  - apply reno_on_rto_ge_mss; exact Hp.
  - apply reno_set_remote_window_ge_mss; exact Hp.
  - apply reno_set_mss_ge_mss; [exact Hok | exact Hp].
Qed.

(* the window never drops below one MSS (hence is never 0), on any path: every sequence of
   controller events with any arguments, from the initial controller or any controller satisfying
   the invariant *)
Theorem reno_window_ge_mss : forall ops r r',
  reno_ge_mss r -> Forall reno_op_ok ops ->
  reno_run r ops = Ok r' -> 0 < rn_mss r' <= rn_cwnd r'.
Proof.
  induction ops as [|op ops IH]; intros r r' Hp Hok H; cbn [reno_run] in *.
  - inversion H; subst. destruct Hp as ((Hm & _) & Hc & _). lia.
  - inversion Hok; subst. obind_inv H.
    eapply IH; [|eassumption|exact H]. eapply reno_apply_ge_mss; eassumption.
Qed.

Theorem reno_new_window_ge_mss : forall ops r',
  Forall reno_op_ok ops -> reno_run reno_new ops = Ok r' -> 0 < rn_mss r' <= rn_cwnd r'.
Proof. intros ops r'. apply reno_window_ge_mss. exact reno_new_ge_mss. Qed.

(* socket level: every reachable socket has a positive congestion window *)
Theorem tcp_cwnd_positive : forall s, tcp_reachable s -> 0 < cc_window (s_congestion_controller s).
Proof. intros s R. apply cc_window_pos. apply (li_cc s (reachable_inv s R)). Qed.

Theorem tcp_rto_bounds : forall s,
  tcp_reachable s ->
  0 < rtte_retransmission_timeout (s_rtte s) <= tcp_RTTE_MAX_RTO * 1000.
Proof. intros s R. apply rtte_timeout_bounds. apply (li_rtte s (reachable_inv s R)). Qed.

(* ------------------------------------------------------------------------------------------ *)
(* non-vacuity                                                                                  *)
(* ------------------------------------------------------------------------------------------ *)
Fixpoint tcp_run (s : socket) (evs : list (ctx * event)) : outcome socket :=
  match evs with
  | [] => Ok s
  | (cx, ev) :: rest =>
      do x <- tcp_step cx s ev; let '(s', _, _) := x in tcp_run s' rest
  end.

Lemma run_reachable : forall evs s s',
  tcp_reachable s -> Forall (fun ce => ctx_ok (fst ce) /\ ev_ok (snd ce)) evs ->
  tcp_run s evs = Ok s' -> tcp_reachable s'.
Proof.
  induction evs as [|(cx, ev) evs IH]; intros s s' R Hok H; cbn [tcp_run] in H.
  - inversion H; subst; exact R.
  - inversion Hok as [|? ? (Hc & He) Hrest]; subst. cbn [fst snd] in *.
    obind_inv H. destruct a as ((s1, out), tg).
    eapply IH; [|exact Hrest|exact H]. eapply reach_step; eassumption.
Qed.

Definition ex_local : Z := 167772161.   (* 10.0.0.1 *)
Definition ex_peer : Z := 167772162.    (* 10.0.0.2 *)
Definition ex_cx (now : Z) : ctx := mkCtx now 1500 ex_local 0 1000.
Definition ex_ip : ip_repr := mkIp ex_peer ex_local 64 20.
Definition ex_synack (win : Z) : tcp_repr :=
  mkRepr 4000 49152 CSyn 5000 (Some 1001) win None (Some 1460) false no_sack None [].

(* connect, SYN out, SYN|ACK in (window [win]), ACK out, 3 octets written, one more poll *)
Definition ex_events (win : Z) : list (ctx * event) :=
  [ (ex_cx 0, EvConnect ex_peer 4000 (mkListenEp None 49152));
    (ex_cx 0, EvDispatch true);
    (ex_cx 1000, EvSegment ex_ip (ex_synack win));
    (ex_cx 1000, EvDispatch true);
    (ex_cx 2000, EvSend [1; 2; 3]);
    (ex_cx 2000, EvDispatch true) ].

Definition ex_new : outcome socket := tcp_new (repeat 0 64) (repeat 0 64) (CcReno reno_new) false.

Definition ex_view (s : socket) :=
  (s_state s, s_timer s, rb_len (s_tx_buffer s), s_local_seq_no s, s_remote_last_seq s,
   s_remote_win_len s).

Lemma ex_events_ok : forall win, 0 <= win <= 65535 ->
  Forall (fun ce => ctx_ok (fst ce) /\ ev_ok (snd ce)) (ex_events win).
Proof.
  intros win Hw. unfold ex_events.
  repeat (constructor; [split; [unfold ctx_ok, u32; cbn; lia|]; cbn [snd ev_ok]; try exact I|]);
    try constructor.
  unfold seg_ok, u32. cbn. repeat split; try lia; exact I.
Qed.

(* [new], [evs] are kept abstract in the packaging lemma: the kernel must never evaluate the
   concrete run symbolically (only the VM does, in the two [ex_check_*] lemmas) *)
Definition ex_check_gen (new : outcome socket) (evs : list (ctx * event)) (cx : ctx)
           (v : tcp_state * timer * Z * Z * Z * Z) (p : Tcp.poll_at) : Prop :=
  match new with
  | Ok s0 =>
      match tcp_run s0 evs with
      | Ok s => ex_view s = v /\ tcp_poll_at cx s = Ok p
      | _ => False
      end
  | _ => False
  end.

Lemma ex_package_gen : forall new evs cx st tm len una nxt w p,
  (forall s0, new = Ok s0 -> tcp_reachable s0) ->
  Forall (fun ce => ctx_ok (fst ce) /\ ev_ok (snd ce)) evs ->
  st = Established -> 0 < len ->
  ex_check_gen new evs cx (st, tm, len, una, nxt, w) p ->
  exists s0 s, new = Ok s0 /\ tcp_run s0 evs = Ok s /\
               tcp_reachable s /\ tcp_need s /\
               ex_view s = (st, tm, len, una, nxt, w) /\ tcp_poll_at cx s = Ok p.
Proof.
  intros new evs cx st tm len una nxt w p Hnew Hok Hst Hlen C. unfold ex_check_gen in C.
  destruct new as [s0| |]; try contradiction.
  destruct (tcp_run s0 evs) as [s| |] eqn:E; try contradiction.
  destruct C as (V & P). exists s0, s. split; [reflexivity|]. split; [exact E|].
  split; [exact (run_reachable evs s0 s (Hnew s0 eq_refl) Hok E)|]. split; [|split; assumption].
  unfold tcp_need. unfold ex_view in V. inversion V as [[V1 V2 V3 V4 V5 V6]].
  rewrite Hst in V1. rewrite V1, V3. exact Hlen.
Qed.

Lemma ex_new_reachable : forall s0, ex_new = Ok s0 -> tcp_reachable s0.
Proof. intros s0 E. eapply reach_new; [|exact E]. exact reno_new_pos. Qed.

Lemma ex_check_1000 :
  ex_check_gen ex_new (ex_events 1000) (ex_cx 2000)
    (Established, TRetransmit 1002000, 3, 1001, 1004, 1000) (Tcp.PTime 1002000).
Proof. vm_compute. split; reflexivity. Qed.

Lemma ex_check_0 :
  ex_check_gen ex_new (ex_events 0) (ex_cx 2000)
    (Established, TZeroWindowProbe 1000000 1000000, 3, 1001, 1001, 0) (Tcp.PTime 1000000).
Proof. vm_compute. split; reflexivity. Qed.

(* data in flight with a running retransmission timer: the deadline is the timer's
   (connect, SYN out, SYN|ACK with window 1000 in, ACK out, 3 octets written and sent) *)
Theorem example_data_in_flight :
  exists s0 s, ex_new = Ok s0 /\ tcp_run s0 (ex_events 1000) = Ok s /\
               tcp_reachable s /\ tcp_need s /\
               ex_view s = (Established, TRetransmit 1002000, 3, 1001, 1004, 1000) /\
               tcp_poll_at (ex_cx 2000) s = Ok (Tcp.PTime 1002000).
Proof.
  apply (ex_package_gen ex_new (ex_events 1000) (ex_cx 2000));
    [exact ex_new_reachable | apply ex_events_ok; lia | reflexivity | lia | exact ex_check_1000].
Qed.

(* octets queued behind a closed remote window (SYN|ACK with window 0): the zero-window-probe
   timer is armed *)
Theorem example_zero_window :
  exists s0 s, ex_new = Ok s0 /\ tcp_run s0 (ex_events 0) = Ok s /\
               tcp_reachable s /\ tcp_need s /\
               ex_view s = (Established, TZeroWindowProbe 1000000 1000000, 3, 1001, 1001, 0) /\
               tcp_poll_at (ex_cx 2000) s = Ok (Tcp.PTime 1000000).
Proof.
  apply (ex_package_gen ex_new (ex_events 0) (ex_cx 2000));
    [exact ex_new_reachable | apply ex_events_ok; lia | reflexivity | lia | exact ex_check_0].
Qed.

(* the retransmission step on the first example: polled at the timer's deadline (t = 1002 s/1000)
   the three octets go out again from SND.UNA = 1001 and the timer is re-armed with the doubled
   timeout *)
Definition ex_rto_step : option (Z * Z * Z * timer * Z) :=
  match ex_new with
  | Ok s0 =>
      match tcp_run s0 (ex_events 1000) with
      | Ok s =>
          match tcp_dispatch (ex_cx 1002000) s true with
          | Ok (s', DSent (_, r), _) =>
              Some (r_seq_number r, l_len (r_payload r), repr_segment_len r, s_timer s', s_local_seq_no s')
          | _ => None
          end
      | _ => None
      end
  | _ => None
  end.

Theorem example_rto_step : ex_rto_step = Some (1001, 3, 3, TRetransmit 3002000, 1001).
Proof. vm_compute. reflexivity. Qed.
