(* Lemmas about Model/WireSixFrag.v and Model/WireNhc.v (property C20, step 1):
   emit produces a closed-form octet string whatever the buffer contained, parse inverts it,
   parse never panics.  Bit-field identities over octets / 16-bit words are proved by exhaustive
   evaluation over the (genuinely finite) domain, lifted with [zrange_forall]. *)
From SV Require Import Lib.Base Gen.Consts Gen.WireFields Model.WireBase Model.WireSixFrag Model.WireNhc
  Proofs.WireBaseProofs.

(* ---------- exhaustive checks over 0 <= x < n ---------- *)

Definition zrange (n : nat) : list Z := map Z.of_nat (seq 0 n).

Lemma zrange_forall (P : Z -> bool) (n : nat) :
  forallb P (zrange n) = true -> forall x, 0 <= x < Z.of_nat n -> P x = true.
Proof.
  intros H x Hx. rewrite forallb_forall in H. apply H. unfold zrange.
  apply in_map_iff. exists (Z.to_nat x). split; [lia|]. apply in_seq. lia.
Qed.

Lemma zrange_forall2 (P : Z -> Z -> bool) (n m : nat) :
  forallb (fun x => forallb (P x) (zrange m)) (zrange n) = true ->
  forall x y, 0 <= x < Z.of_nat n -> 0 <= y < Z.of_nat m -> P x y = true.
Proof.
  intros H x y Hx Hy. pose proof (zrange_forall _ n H x Hx) as H1. cbv beta in H1.
  exact (zrange_forall _ m H1 y Hy).
Qed.

(* fold closed bit-level subterms (the arithmetic ones are folded by [zfold]) *)
Ltac cfold_step :=
  match goal with
  | |- context [Z.shiftl ?a ?b] =>
      is_closed a; is_closed b; let v := eval vm_compute in (Z.shiftl a b) in progress change (Z.shiftl a b) with v
  | |- context [Z.shiftr ?a ?b] =>
      is_closed a; is_closed b; let v := eval vm_compute in (Z.shiftr a b) in progress change (Z.shiftr a b) with v
  | |- context [?a mod ?b] =>
      is_closed a; is_closed b; let v := eval vm_compute in (a mod b) in progress change (a mod b) with v
  | |- context [?a / ?b] =>
      is_closed a; is_closed b; let v := eval vm_compute in (a / b) in progress change (a / b) with v
  | |- context [Z.land ?a ?b] =>
      is_closed a; is_closed b; let v := eval vm_compute in (Z.land a b) in progress change (Z.land a b) with v
  | |- context [Z.lor ?a ?b] =>
      is_closed a; is_closed b; let v := eval vm_compute in (Z.lor a b) in progress change (Z.lor a b) with v
  end.
Ltac cfold := repeat (first [cfold_step | zfold_step]).

(* [bits1 n P]: prove  forall x, 0 <= x < n -> P x  by evaluation; P x must be a Z equation *)
Ltac by_range1 n :=
  match goal with
  | |- forall x, 0 <= x < _ -> @?l x = @?r x =>
      let H := fresh in
      assert (H : forallb (fun x => l x =? r x) (zrange n) = true) by (vm_compute; reflexivity);
      let x := fresh "x" in let Hx := fresh in
      intros x Hx; pose proof (zrange_forall _ n H x Hx) as E; cbv beta in E; apply Z.eqb_eq in E; exact E
  end.
Ltac by_range2 n m :=
  match goal with
  | |- forall x y, 0 <= x < _ -> 0 <= y < _ -> @?l x y = @?r x y =>
      let H := fresh in
      assert (H : forallb (fun x => forallb (fun y => l x y =? r x y) (zrange m)) (zrange n) = true)
        by (vm_compute; reflexivity);
      let x := fresh "x" in let y := fresh "y" in let Hx := fresh in let Hy := fresh in
      intros x y Hx Hy; pose proof (zrange_forall2 _ n m H x y Hx Hy) as E; cbv beta in E;
      apply Z.eqb_eq in E; exact E
  end.

(* Ok [a; b; ..] = Ok [a'; b'; ..] by lia on each cell *)
Ltac list_lia := apply f_equal; repeat (apply (f_equal2 (@cons Z)); [lia|]); try reflexivity.

(* ================================================================================
   Fragment header
   ================================================================================ *)

(* the octets Repr::emit produces *)
Definition sixfrag_bytes (r : sixfrag_repr) : list Z :=
  match r with
  | SfFirst size tag => [192 + size / 256; size mod 256; tag / 256; tag mod 256]
  | SfNext size tag off => [224 + size / 256; size mod 256; tag / 256; tag mod 256; off]
  end.

Lemma sixfrag_bytes_len r : blen (sixfrag_bytes r) = sixfrag_buffer_len r.
Proof. destruct r; reflexivity. Qed.

(* set_dispatch_field on an arbitrary old octet *)
Lemma sf_dispatch_bits_first : forall raw, 0 <= raw < 256 -> Z.lor (Z.land raw 7) 192 = 192 + raw mod 8.
Proof. by_range1 256%nat. Qed.
Lemma sf_dispatch_bits_next : forall raw, 0 <= raw < 256 -> Z.lor (Z.land raw 7) 224 = 224 + raw mod 8.
Proof. by_range1 256%nat. Qed.

(* (v & !0x7ff) for a 16-bit word keeps the five top bits *)
Lemma sf_size_mask_bits : forall hi lo, 0 <= hi < 256 -> 0 <= lo < 256 ->
  Z.land (hi * 256 + lo) 63488 = (hi / 8) * 2048.
Proof. by_range2 256%nat 256%nat. Qed.

Lemma sf_size_or_bits : forall d size, 0 <= d < 32 -> 0 <= size < 2048 ->
  Z.lor (d * 2048) size = d * 2048 + size.
Proof. by_range2 32%nat 2048%nat. Qed.

Lemma sixfrag_wf_inv r : sixfrag_wf r = true ->
  match r with
  | SfFirst size tag => 0 <= size < 2048 /\ 0 <= tag < 65536
  | SfNext size tag off => 0 <= size < 2048 /\ 0 <= tag < 65536 /\ 0 <= off < 256
  end.
Proof. destruct r; unfold sixfrag_wf, sixfrag_SIZE_MASK; intros H; bsplit; lia. Qed.

(* the two-octet prefix after set_dispatch_field; set_datagram_size, whatever it held before *)
Lemma sf_prefix_bits d c c0 size : 0 <= c < 256 -> 0 <= c0 < 256 -> d = 192 \/ d = 224 ->
  0 <= size < 2048 ->
  Z.lor (Z.land ((d + c mod 8) * 256 + c0) 63488) size = d * 256 + size.
Proof.
  intros Hc Hc0 Hv Hs.
  rewrite sf_size_mask_bits by (destruct Hv; subst; lia).
  replace ((d + c mod 8) / 8) with (d / 8) by (destruct Hv; subst; lia).
  rewrite sf_size_or_bits by (destruct Hv; subst; lia).
  destruct Hv; subst; lia.
Qed.

(* emit into a buffer that holds exactly the header *)
Lemma sixfrag_emit_exact r h : sixfrag_wf r = true -> bytes_ok h = true ->
  blen h = sixfrag_buffer_len r -> sixfrag_emit r h = Ok (sixfrag_bytes r).
Proof.
  intros Hwf Hb Hl. apply sixfrag_wf_inv in Hwf. destruct r as [size tag|size tag off].
  - destruct Hwf as (Hs & Ht). apply (blen_length _ 4) in Hl. cells Hl.
    cbn [bytes_ok forallb] in Hb. bsplit.
    unfold sixfrag_emit, sixfrag_set_dispatch_field, sixfrag_set_datagram_size, sixfrag_set_datagram_tag,
      sixfrag_SIZE_MASK.
    cfold.
    match goal with |- ?lhs = _ => heval lhs end.
    rewrite be_dec2, sf_dispatch_bits_first, (sf_prefix_bits 192) by (auto; lia).
    unfold sixfrag_bytes. list_lia.
  - destruct Hwf as (Hs & Ht & Ho). apply (blen_length _ 5) in Hl. cells Hl.
    cbn [bytes_ok forallb] in Hb. bsplit.
    unfold sixfrag_emit, sixfrag_set_dispatch_field, sixfrag_set_datagram_size, sixfrag_set_datagram_tag,
      sixfrag_set_datagram_offset, sixfrag_SIZE_MASK.
    cfold.
    match goal with |- ?lhs = _ => heval lhs end.
    rewrite be_dec2, sf_dispatch_bits_next, (sf_prefix_bits 224) by (auto; lia).
    unfold sixfrag_bytes. list_lia.
Qed.

(* emitting into a longer buffer leaves the rest untouched *)
Lemma sixfrag_emit_frame r h t : blen h = sixfrag_buffer_len r ->
  sixfrag_emit r (h ++ t) = omap (fun x => x ++ t) (sixfrag_emit r h).
Proof.
  intros Hb. pose proof (blen_nonneg t).
  destruct r as [size tag|size tag off]; cbn [sixfrag_buffer_len] in Hb; zfold_in Hb;
    unfold sixfrag_emit, sixfrag_set_dispatch_field, sixfrag_set_datagram_size, sixfrag_set_datagram_tag,
      sixfrag_set_datagram_offset, wb_put_u16.
  - rewrite wb_upd_u8_app_l by (zfold; lia). apply obind_omap_tail. intros h1 E1. apply wb_upd_u8_len in E1.
    rewrite wb_upd_u16_app_l by (zfold; lia). apply obind_omap_tail. intros h2 E2. apply wb_upd_u16_len in E2.
    apply wb_put_be_app_l. zfold; lia.
  - rewrite wb_upd_u8_app_l by (zfold; lia). apply obind_omap_tail. intros h1 E1. apply wb_upd_u8_len in E1.
    rewrite wb_upd_u16_app_l by (zfold; lia). apply obind_omap_tail. intros h2 E2. apply wb_upd_u16_len in E2.
    rewrite wb_put_be_app_l by (zfold; lia). apply obind_omap_tail. intros h3 E3. apply wb_put_be_len in E3.
    apply wb_set_u8_app_l. zfold; lia.
Qed.

(* Repr::emit into any sufficiently long buffer: the header octets depend on the repr only, the
   rest of the buffer is unchanged *)
Lemma sixfrag_emit_spec r b : sixfrag_wf r = true -> bytes_ok b = true ->
  sixfrag_buffer_len r <= blen b ->
  sixfrag_emit r b = Ok (sixfrag_bytes r ++ skipn (Z.to_nat (sixfrag_buffer_len r)) b).
Proof.
  intros Hwf Hb Hl.
  assert (Hn : 0 <= sixfrag_buffer_len r) by (destruct r; cbn; zfold; lia).
  destruct (split_hdr b (sixfrag_buffer_len r) ltac:(lia)) as (h & t & -> & Hh & Ht).
  rewrite bytes_ok_app in Hb. apply andb_prop in Hb. destruct Hb as (Hbh & Hbt).
  assert (Hlh : blen h = sixfrag_buffer_len r) by (unfold blen; lia).
  rewrite sixfrag_emit_frame by assumption.
  rewrite sixfrag_emit_exact by assumption. cbn [omap].
  rewrite skipn_app, skipn_all2 by lia. rewrite Hh, Nat.sub_diag. reflexivity.
Qed.

Lemma sf_shiftr_first : forall k, 0 <= k < 8 -> Z.shiftr (192 + k) 3 = 24.
Proof. by_range1 8%nat. Qed.
Lemma sf_shiftr_next : forall k, 0 <= k < 8 -> Z.shiftr (224 + k) 3 = 28.
Proof. by_range1 8%nat. Qed.
Lemma sf_land_size : forall hi lo, 0 <= hi < 256 -> 0 <= lo < 256 ->
  Z.land (hi * 256 + lo) 2047 = (hi mod 8) * 256 + lo.
Proof. by_range2 256%nat 256%nat. Qed.

(* parse inverts the emitted octets, whatever follows them; the payload is what follows *)
Lemma sixfrag_parse_bytes r p : sixfrag_wf r = true ->
  sixfrag_parse (sixfrag_bytes r ++ p) = Ok r /\
  sixfrag_new_checked (sixfrag_bytes r ++ p) = Ok tt /\
  sixfrag_payload (sixfrag_bytes r ++ p) = Ok p.
Proof.
  intros Hwf. apply sixfrag_wf_inv in Hwf. pose proof (blen_nonneg p) as Hp.
  destruct r as [size tag|size tag off]; unfold sixfrag_bytes.
  - destruct Hwf as (Hs & Ht).
    remember (192 + size / 256) as b0 eqn:E0. remember (size mod 256) as b1 eqn:E1.
    remember (tag / 256) as b2 eqn:E2. remember (tag mod 256) as b3 eqn:E3.
    assert (Hd : Z.shiftr b0 3 = 24) by (subst b0; apply sf_shiftr_first; lia).
    assert (Hsz : Z.land (b0 * 256 + b1) 2047 = size) by (rewrite sf_land_size by lia; lia).
    unfold sixfrag_parse, sixfrag_new_checked, sixfrag_payload, sixfrag_check_len, sixfrag_dispatch,
      sixfrag_datagram_size, sixfrag_datagram_tag, sixfrag_datagram_offset, wb_get_u16, sixfrag_SIZE_MASK.
    autorewrite with blen. zfold. zbool.
    repeat hstep. rewrite Hd. unfold sixfrag_FIRST, sixfrag_NEXT. zfold. zbool. cbn [obind negb andb].
    repeat hstep. rewrite !be_dec2, Hsz. cbn [obind].
    replace (b2 * 256 + b3) with tag by lia.
    split; [reflexivity|]. split; [reflexivity|].
    apply (wb_from_tail [b0; b1; b2; b3]). reflexivity.
  - destruct Hwf as (Hs & Ht & Ho).
    remember (224 + size / 256) as b0 eqn:E0. remember (size mod 256) as b1 eqn:E1.
    remember (tag / 256) as b2 eqn:E2. remember (tag mod 256) as b3 eqn:E3.
    assert (Hd : Z.shiftr b0 3 = 28) by (subst b0; apply sf_shiftr_next; lia).
    assert (Hsz : Z.land (b0 * 256 + b1) 2047 = size) by (rewrite sf_land_size by lia; lia).
    unfold sixfrag_parse, sixfrag_new_checked, sixfrag_payload, sixfrag_check_len, sixfrag_dispatch,
      sixfrag_datagram_size, sixfrag_datagram_tag, sixfrag_datagram_offset, wb_get_u16, sixfrag_SIZE_MASK.
    autorewrite with blen. zfold. zbool.
    repeat hstep. rewrite Hd. unfold sixfrag_FIRST, sixfrag_NEXT. zfold. zbool. cbn [obind negb andb].
    repeat hstep. rewrite !be_dec2, Hsz. cbn [obind].
    repeat hstep. rewrite Hd. zfold. cbn [obind].
    repeat hstep.
    replace (b2 * 256 + b3) with tag by lia.
    split; [reflexivity|]. split; [reflexivity|].
    apply (wb_from_tail [b0; b1; b2; b3; off]). reflexivity.
Qed.
