(* Lemmas about Model/WireSixFrag.v and Model/WireNhc.v (property C20, step 1):
   emit produces a closed-form octet string whatever the buffer contained, parse inverts it,
   parse never panics.  Bit-field identities over octets / 16-bit words are proved by exhaustive
   evaluation over the (genuinely finite) domain, lifted with [zrange_forall]. *)
From SV Require Import Lib.Base Gen.Consts Gen.WireFields Model.WireBase Model.WireSixFrag Model.WireNhc
  Proofs.WireBaseProofs.

(* ---------- exhaustive checks over 0 <= x < n ---------- *)

Definition zrange (n : nat) : list Z := map Z.of_nat (seq 0 n).

Lemma zrange_forall (P : Z -> bool) (n : nat) :
  forallb P (zrange n) = true -> forall x, 0 <= x < Z.of_nat n -> P x = true.
Proof.
  intros H x Hx. rewrite forallb_forall in H. apply H. unfold zrange.
  apply in_map_iff. exists (Z.to_nat x). split; [lia|]. apply in_seq. lia.
Qed.

Lemma zrange_forall2 (P : Z -> Z -> bool) (n m : nat) :
  forallb (fun x => forallb (P x) (zrange m)) (zrange n) = true ->
  forall x y, 0 <= x < Z.of_nat n -> 0 <= y < Z.of_nat m -> P x y = true.
Proof.
  intros H x y Hx Hy. pose proof (zrange_forall _ n H x Hx) as H1. cbv beta in H1.
  exact (zrange_forall _ m H1 y Hy).
Qed.

(* fold closed bit-level subterms (the arithmetic ones are folded by [zfold]) *)
Ltac cfold_step :=
  match goal with
  | |- context [Z.shiftl ?a ?b] =>
      is_closed a; is_closed b; let v := eval vm_compute in (Z.shiftl a b) in progress change (Z.shiftl a b) with v
  | |- context [Z.shiftr ?a ?b] =>
      is_closed a; is_closed b; let v := eval vm_compute in (Z.shiftr a b) in progress change (Z.shiftr a b) with v
  | |- context [?a mod ?b] =>
      is_closed a; is_closed b; let v := eval vm_compute in (a mod b) in progress change (a mod b) with v
  | |- context [?a / ?b] =>
      is_closed a; is_closed b; let v := eval vm_compute in (a / b) in progress change (a / b) with v
  | |- context [Z.land ?a ?b] =>
      is_closed a; is_closed b; let v := eval vm_compute in (Z.land a b) in progress change (Z.land a b) with v
  | |- context [Z.lor ?a ?b] =>
      is_closed a; is_closed b; let v := eval vm_compute in (Z.lor a b) in progress change (Z.lor a b) with v
  end.
Ltac cfold := repeat (first [cfold_step | zfold_step]).

(* [bits1 n P]: prove  forall x, 0 <= x < n -> P x  by evaluation; P x must be a Z equation *)
Ltac by_range1 n :=
  match goal with
  | |- forall x, 0 <= x < _ -> @?l x = @?r x =>
      let H := fresh in
      assert (H : forallb (fun x => l x =? r x) (zrange n) = true) by (vm_compute; reflexivity);
      let x := fresh "x" in let Hx := fresh in
      intros x Hx; pose proof (zrange_forall _ n H x Hx) as E; cbv beta in E; apply Z.eqb_eq in E; exact E
  end.
Ltac by_range2 n m :=
  match goal with
  | |- forall x y, 0 <= x < _ -> 0 <= y < _ -> @?l x y = @?r x y =>
      let H := fresh in
      assert (H : forallb (fun x => forallb (fun y => l x y =? r x y) (zrange m)) (zrange n) = true)
        by (vm_compute; reflexivity);
      let x := fresh "x" in let y := fresh "y" in let Hx := fresh in let Hy := fresh in
      intros x y Hx Hy; pose proof (zrange_forall2 _ n m H x y Hx Hy) as E; cbv beta in E;
      apply Z.eqb_eq in E; exact E
  end.

(* Ok [a; b; ..] = Ok [a'; b'; ..] by lia on each cell *)
Ltac list_lia := apply f_equal; repeat (apply (f_equal2 (@cons Z)); [lia|]); try reflexivity.

(* ================================================================================
   Fragment header
   ================================================================================ *)

(* the octets Repr::emit produces *)
Definition sixfrag_bytes (r : sixfrag_repr) : list Z :=
  match r with
  | SfFirst size tag => [192 + size / 256; size mod 256; tag / 256; tag mod 256]
  | SfNext size tag off => [224 + size / 256; size mod 256; tag / 256; tag mod 256; off]
  end.

Lemma sixfrag_bytes_len r : blen (sixfrag_bytes r) = sixfrag_buffer_len r.
Proof. destruct r; reflexivity. Qed.

(* set_dispatch_field on an arbitrary old octet *)
Lemma sf_dispatch_bits_first : forall raw, 0 <= raw < 256 -> Z.lor (Z.land raw 7) 192 = 192 + raw mod 8.
Proof. by_range1 256%nat. Qed.
Lemma sf_dispatch_bits_next : forall raw, 0 <= raw < 256 -> Z.lor (Z.land raw 7) 224 = 224 + raw mod 8.
Proof. by_range1 256%nat. Qed.

(* (v & !0x7ff) for a 16-bit word keeps the five top bits *)
Lemma sf_size_mask_bits : forall hi lo, 0 <= hi < 256 -> 0 <= lo < 256 ->
  Z.land (hi * 256 + lo) 63488 = (hi / 8) * 2048.
Proof. by_range2 256%nat 256%nat. Qed.

Lemma sf_size_or_bits : forall d size, 0 <= d < 32 -> 0 <= size < 2048 ->
  Z.lor (d * 2048) size = d * 2048 + size.
Proof. by_range2 32%nat 2048%nat. Qed.

Lemma sixfrag_wf_inv r : sixfrag_wf r = true ->
  match r with
  | SfFirst size tag => 0 <= size < 2048 /\ 0 <= tag < 65536
  | SfNext size tag off => 0 <= size < 2048 /\ 0 <= tag < 65536 /\ 0 <= off < 256
  end.
Proof. destruct r; unfold sixfrag_wf, sixfrag_SIZE_MASK; intros H; bsplit; lia. Qed.

(* the two-octet prefix after set_dispatch_field; set_datagram_size, whatever it held before *)
Lemma sf_prefix_bits d c c0 size : 0 <= c < 256 -> 0 <= c0 < 256 -> d = 192 \/ d = 224 ->
  0 <= size < 2048 ->
  Z.lor (Z.land ((d + c mod 8) * 256 + c0) 63488) size = d * 256 + size.
Proof.
  intros Hc Hc0 Hv Hs.
  rewrite sf_size_mask_bits by (destruct Hv; subst; lia).
  replace ((d + c mod 8) / 8) with (d / 8) by (destruct Hv; subst; lia).
  rewrite sf_size_or_bits by (destruct Hv; subst; lia).
  destruct Hv; subst; lia.
Qed.

(* emit into a buffer that holds exactly the header *)
Lemma sixfrag_emit_exact r h : sixfrag_wf r = true -> bytes_ok h = true ->
  blen h = sixfrag_buffer_len r -> sixfrag_emit r h = Ok (sixfrag_bytes r).
Proof.
  intros Hwf Hb Hl. apply sixfrag_wf_inv in Hwf. destruct r as [size tag|size tag off].
  - destruct Hwf as (Hs & Ht). apply (blen_length _ 4) in Hl. cells Hl.
    cbn [bytes_ok forallb] in Hb. bsplit.
    unfold sixfrag_emit, sixfrag_set_dispatch_field, sixfrag_set_datagram_size, sixfrag_set_datagram_tag,
      sixfrag_SIZE_MASK.
    cfold.
    match goal with |- ?lhs = _ => heval lhs end.
    rewrite be_dec2, sf_dispatch_bits_first, (sf_prefix_bits 192) by (auto; lia).
    unfold sixfrag_bytes. list_lia.
  - destruct Hwf as (Hs & Ht & Ho). apply (blen_length _ 5) in Hl. cells Hl.
    cbn [bytes_ok forallb] in Hb. bsplit.
    unfold sixfrag_emit, sixfrag_set_dispatch_field, sixfrag_set_datagram_size, sixfrag_set_datagram_tag,
      sixfrag_set_datagram_offset, sixfrag_SIZE_MASK.
    cfold.
    match goal with |- ?lhs = _ => heval lhs end.
    rewrite be_dec2, sf_dispatch_bits_next, (sf_prefix_bits 224) by (auto; lia).
    unfold sixfrag_bytes. list_lia.
Qed.

(* emitting into a longer buffer leaves the rest untouched *)
Lemma sixfrag_emit_frame r h t : blen h = sixfrag_buffer_len r ->
  sixfrag_emit r (h ++ t) = omap (fun x => x ++ t) (sixfrag_emit r h).
Proof.
  intros Hb. pose proof (blen_nonneg t).
  destruct r as [size tag|size tag off]; cbn [sixfrag_buffer_len] in Hb; zfold_in Hb;
    unfold sixfrag_emit, sixfrag_set_dispatch_field, sixfrag_set_datagram_size, sixfrag_set_datagram_tag,
      sixfrag_set_datagram_offset, wb_put_u16.
  - rewrite wb_upd_u8_app_l by (zfold; lia). apply obind_omap_tail. intros h1 E1. apply wb_upd_u8_len in E1.
    rewrite wb_upd_u16_app_l by (zfold; lia). apply obind_omap_tail. intros h2 E2. apply wb_upd_u16_len in E2.
    apply wb_put_be_app_l. zfold; lia.
  - rewrite wb_upd_u8_app_l by (zfold; lia). apply obind_omap_tail. intros h1 E1. apply wb_upd_u8_len in E1.
    rewrite wb_upd_u16_app_l by (zfold; lia). apply obind_omap_tail. intros h2 E2. apply wb_upd_u16_len in E2.
    rewrite wb_put_be_app_l by (zfold; lia). apply obind_omap_tail. intros h3 E3. apply wb_put_be_len in E3.
    apply wb_set_u8_app_l. zfold; lia.
Qed.

(* Repr::emit into any sufficiently long buffer: the header octets depend on the repr only, the
   rest of the buffer is unchanged *)
Lemma sixfrag_emit_spec r b : sixfrag_wf r = true -> bytes_ok b = true ->
  sixfrag_buffer_len r <= blen b ->
  sixfrag_emit r b = Ok (sixfrag_bytes r ++ skipn (Z.to_nat (sixfrag_buffer_len r)) b).
Proof.
  intros Hwf Hb Hl.
  assert (Hn : 0 <= sixfrag_buffer_len r) by (destruct r; cbn; zfold; lia).
  destruct (split_hdr b (sixfrag_buffer_len r) ltac:(lia)) as (h & t & -> & Hh & Ht).
  rewrite bytes_ok_app in Hb. apply andb_prop in Hb. destruct Hb as (Hbh & Hbt).
  assert (Hlh : blen h = sixfrag_buffer_len r) by (unfold blen; lia).
  rewrite sixfrag_emit_frame by assumption.
  rewrite sixfrag_emit_exact by assumption. cbn [omap].
  rewrite skipn_app, skipn_all2 by lia. rewrite Hh, Nat.sub_diag. reflexivity.
Qed.

Lemma sf_shiftr_first : forall k, 0 <= k < 8 -> Z.shiftr (192 + k) 3 = 24.
Proof. by_range1 8%nat. Qed.
Lemma sf_shiftr_next : forall k, 0 <= k < 8 -> Z.shiftr (224 + k) 3 = 28.
Proof. by_range1 8%nat. Qed.
Lemma sf_land_size : forall hi lo, 0 <= hi < 256 -> 0 <= lo < 256 ->
  Z.land (hi * 256 + lo) 2047 = (hi mod 8) * 256 + lo.
Proof. by_range2 256%nat 256%nat. Qed.

(* parse inverts the emitted octets, whatever follows them; the payload is what follows *)
Lemma sixfrag_parse_bytes r p : sixfrag_wf r = true ->
  sixfrag_parse (sixfrag_bytes r ++ p) = Ok r /\
  sixfrag_new_checked (sixfrag_bytes r ++ p) = Ok tt /\
  sixfrag_payload (sixfrag_bytes r ++ p) = Ok p.
Proof.
  intros Hwf. apply sixfrag_wf_inv in Hwf. pose proof (blen_nonneg p) as Hp.
  destruct r as [size tag|size tag off]; unfold sixfrag_bytes.
  - destruct Hwf as (Hs & Ht).
    remember (192 + size / 256) as b0 eqn:E0. remember (size mod 256) as b1 eqn:E1.
    remember (tag / 256) as b2 eqn:E2. remember (tag mod 256) as b3 eqn:E3.
    assert (Hd : Z.shiftr b0 3 = 24) by (subst b0; apply sf_shiftr_first; lia).
    assert (Hsz : Z.land (b0 * 256 + b1) 2047 = size) by (rewrite sf_land_size by lia; lia).
    unfold sixfrag_parse, sixfrag_new_checked, sixfrag_payload, sixfrag_check_len, sixfrag_dispatch,
      sixfrag_datagram_size, sixfrag_datagram_tag, sixfrag_datagram_offset, wb_get_u16, sixfrag_SIZE_MASK.
    autorewrite with blen. zfold. zbool.
    repeat hstep. rewrite Hd. unfold sixfrag_FIRST, sixfrag_NEXT. zfold. zbool. cbn [obind negb andb].
    repeat hstep. rewrite !be_dec2, Hsz. cbn [obind].
    replace (b2 * 256 + b3) with tag by lia.
    split; [reflexivity|]. split; [reflexivity|].
    apply (wb_from_tail [b0; b1; b2; b3]). reflexivity.
  - destruct Hwf as (Hs & Ht & Ho).
    remember (224 + size / 256) as b0 eqn:E0. remember (size mod 256) as b1 eqn:E1.
    remember (tag / 256) as b2 eqn:E2. remember (tag mod 256) as b3 eqn:E3.
    assert (Hd : Z.shiftr b0 3 = 28) by (subst b0; apply sf_shiftr_next; lia).
    assert (Hsz : Z.land (b0 * 256 + b1) 2047 = size) by (rewrite sf_land_size by lia; lia).
    unfold sixfrag_parse, sixfrag_new_checked, sixfrag_payload, sixfrag_check_len, sixfrag_dispatch,
      sixfrag_datagram_size, sixfrag_datagram_tag, sixfrag_datagram_offset, wb_get_u16, sixfrag_SIZE_MASK.
    autorewrite with blen. zfold. zbool.
    repeat hstep. rewrite Hd. unfold sixfrag_FIRST, sixfrag_NEXT. zfold. zbool. cbn [obind negb andb].
    repeat hstep. rewrite !be_dec2, Hsz. cbn [obind].
    unfold sixfrag_dispatch. repeat hstep. rewrite Hd. zfold. cbn [obind].
    repeat hstep.
    replace (b2 * 256 + b3) with tag by lia.
    split; [reflexivity|]. split; [reflexivity|].
    apply (wb_from_tail [b0; b1; b2; b3; off]). reflexivity.
Qed.

Lemma sixfrag_check_len_inv b : sixfrag_check_len b = Ok tt ->
  exists x, wb_get_u8 b 0 = Ok x /\
    ((Z.shiftr x 3 = sixfrag_FIRST /\ 4 <= blen b) \/ (Z.shiftr x 3 = sixfrag_NEXT /\ 5 <= blen b)).
Proof.
  unfold sixfrag_check_len, sixfrag_dispatch. zfold.
  destruct (blen b =? 0) eqn:E0; [intros HH; discriminate HH|].
  destruct (wb_get_u8 b 0) as [x| |] eqn:Ex; cbn [obind]; try (intros HH; discriminate HH).
  destruct (Z.shiftr x 3 =? 24) eqn:E1.
  - destruct (4 <=? blen b) eqn:E2; [|intros HH; discriminate HH]. intros _. exists x. bsplit. unfold sixfrag_FIRST, sixfrag_NEXT. zfold. auto.
  - destruct (Z.shiftr x 3 =? 28) eqn:E3; [|intros HH; discriminate HH].
    destruct (5 <=? blen b) eqn:E2; [|intros HH; discriminate HH]. intros _. exists x. bsplit. unfold sixfrag_FIRST, sixfrag_NEXT. zfold. auto.
Qed.

(* C07-style: after new_checked no accessor panics *)
Lemma sixfrag_accessors_safe b : sixfrag_new_checked b = Ok tt ->
  sixfrag_datagram_size b <> Panic /\ sixfrag_datagram_tag b <> Panic /\
  sixfrag_datagram_offset b <> Panic /\ sixfrag_is_first b <> Panic /\ sixfrag_payload b <> Panic.
Proof.
  unfold sixfrag_new_checked. intros H.
  destruct (sixfrag_check_len b) as [[]| |] eqn:E; cbn [obind] in H; try discriminate.
  apply sixfrag_check_len_inv in E. destruct E as (x & Ex & Hx).
  unfold sixfrag_datagram_size, sixfrag_datagram_tag, sixfrag_datagram_offset, sixfrag_is_first,
    sixfrag_payload, sixfrag_dispatch, wb_get_u16. zfold. rewrite Ex. cbn [obind].
  assert (H4 : 4 <= blen b) by (destruct Hx as [[_ ?]|[_ ?]]; lia).
  repeat split.
  - apply obind_nopanic; [apply wb_get_be_nopanic; lia | discriminate].
  - apply wb_get_be_nopanic; lia.
  - destruct Hx as [[-> _]|[-> H5]]; unfold sixfrag_FIRST, sixfrag_NEXT; zfold; cbn [obind].
    + discriminate.
    + apply wb_get_u8_nopanic; lia.
  - discriminate.
  - destruct Hx as [[-> _]|[-> H5]]; unfold sixfrag_FIRST, sixfrag_NEXT; zfold; cbn [obind];
      apply wb_from_nopanic; lia.
Qed.

(* Repr::parse / new_checked / SixlowpanPacket::dispatch never panic, on any octet string *)
Lemma sixfrag_check_len_total b : sixfrag_check_len b <> Panic.
Proof.
  unfold sixfrag_check_len, sixfrag_dispatch. zfold. pose proof (blen_nonneg b).
  destruct (blen b =? 0) eqn:E0; [discriminate|]. bsplit.
  rewrite wb_get_u8_ok by lia. cbn [obind]. nopanic.
Qed.

Lemma sixfrag_new_checked_total b : sixfrag_new_checked b <> Panic.
Proof.
  unfold sixfrag_new_checked.
  destruct (sixfrag_check_len b) as [[]| |] eqn:E; cbn [obind]; try discriminate.
  - apply sixfrag_check_len_inv in E. destruct E as (x & Ex & _).
    unfold sixfrag_dispatch. zfold. rewrite Ex. cbn [obind]. nopanic.
  - exfalso. exact (sixfrag_check_len_total b E).
Qed.

Lemma sixfrag_parse_total b : sixfrag_parse b <> Panic.
Proof.
  unfold sixfrag_parse.
  destruct (sixfrag_check_len b) as [[]| |] eqn:E; cbn [obind]; try discriminate.
  - apply sixfrag_check_len_inv in E. destruct E as (x & Ex & Hx).
    assert (H4 : 4 <= blen b) by (destruct Hx as [[_ ?]|[_ ?]]; lia).
    unfold sixfrag_datagram_size, sixfrag_datagram_tag, sixfrag_datagram_offset, sixfrag_dispatch, wb_get_u16.
    zfold. rewrite Ex.
    apply obind_nopanic; [apply obind_nopanic; [apply wb_get_be_nopanic; lia | discriminate]|]. intros sz _.
    apply obind_nopanic; [apply wb_get_be_nopanic; lia|]. intros tg _. cbn [obind].
    destruct Hx as [[-> _]|[-> H5]]; unfold sixfrag_FIRST, sixfrag_NEXT; zfold; cbn [obind]; try discriminate.
    apply obind_nopanic; [apply wb_get_u8_nopanic; lia | discriminate].
  - exfalso. exact (sixfrag_check_len_total b E).
Qed.

Lemma sixlowpan_dispatch_total b : sixlowpan_dispatch b <> Panic.
Proof.
  unfold sixlowpan_dispatch. pose proof (blen_nonneg b).
  destruct (blen b =? 0) eqn:E0; [discriminate|]. bsplit.
  rewrite wb_get_u8_ok by lia. cbn [obind]. nopanic.
Qed.

(* the round trip: for ALL field values the format can hold, ANY old buffer content *)
Lemma sixfrag_roundtrip r b : sixfrag_wf r = true -> bytes_ok b = true ->
  sixfrag_buffer_len r <= blen b ->
  exists bs, sixfrag_emit r b = Ok bs /\ blen bs = blen b /\
             firstn (Z.to_nat (sixfrag_buffer_len r)) bs = sixfrag_bytes r /\
             skipn (Z.to_nat (sixfrag_buffer_len r)) bs = skipn (Z.to_nat (sixfrag_buffer_len r)) b /\
             sixfrag_parse bs = Ok r /\
             sixfrag_payload bs = Ok (skipn (Z.to_nat (sixfrag_buffer_len r)) b).
Proof.
  intros Hwf Hb Hl. eexists. split; [apply sixfrag_emit_spec; assumption|].
  pose proof (sixfrag_bytes_len r) as Hbl.
  assert (Hn : 0 <= sixfrag_buffer_len r) by (destruct r; cbn; zfold; lia).
  assert (Hlen : length (sixfrag_bytes r) = Z.to_nat (sixfrag_buffer_len r)) by (unfold blen in Hbl; lia).
  destruct (sixfrag_parse_bytes r (skipn (Z.to_nat (sixfrag_buffer_len r)) b) Hwf) as (Hp & _ & Hpl).
  repeat split; try assumption.
  - rewrite blen_app, Hbl, blen_skipn by lia. lia.
  - rewrite firstn_app, <- Hlen, firstn_all, Nat.sub_diag. cbn [firstn]. apply app_nil_r.
  - rewrite skipn_app, <- Hlen, skipn_all, Nat.sub_diag. reflexivity.
Qed.

Lemma sixfrag_emit_ignores_old_bytes r b1 b2 : sixfrag_wf r = true ->
  bytes_ok b1 = true -> bytes_ok b2 = true ->
  sixfrag_buffer_len r <= blen b1 -> sixfrag_buffer_len r <= blen b2 ->
  omap (firstn (Z.to_nat (sixfrag_buffer_len r))) (sixfrag_emit r b1) =
  omap (firstn (Z.to_nat (sixfrag_buffer_len r))) (sixfrag_emit r b2).
Proof.
  intros Hwf H1 H2 L1 L2. rewrite !sixfrag_emit_spec by assumption. cbn [omap].
  pose proof (sixfrag_bytes_len r) as Hbl.
  assert (Hn : 0 <= sixfrag_buffer_len r) by (destruct r; cbn; zfold; lia).
  assert (Hlen : length (sixfrag_bytes r) = Z.to_nat (sixfrag_buffer_len r)) by (unfold blen in Hbl; lia).
  rewrite !firstn_app, <- Hlen, !firstn_all, Nat.sub_diag. reflexivity.
Qed.


(* ================================================================================
   LOWPAN_NHC UDP header
   ================================================================================ *)

Lemma wb_set_slice_tail h t lo hi v : lo = blen h -> hi = blen h + blen t -> blen v = blen t ->
  wb_set_slice (h ++ t) lo hi v = Ok (h ++ v).
Proof.
  intros -> -> Hv. unfold wb_set_slice. rewrite blen_app.
  pose proof (blen_nonneg h). pose proof (blen_nonneg t). zbool.
  rewrite firstn_app_l, skipn_all2 by (rewrite ?app_length; unfold blen in *; lia).
  replace (Z.to_nat (blen h)) with (length h) by (unfold blen; lia). rewrite firstn_all, app_nil_r. reflexivity.
Qed.

Definition nhc_hb (c p : Z) : Z := Z.lor (Z.land (Z.lor (Z.land c 7) 240) 252) p.
Lemma nhc_hb_ports : forall c p, 0 <= c < 256 -> 0 <= p < 4 -> Z.land (Z.shiftr (nhc_hb c p) 0) 3 = p.
Proof. unfold nhc_hb. by_range2 256%nat 4%nat. Qed.
Lemma nhc_hb_ck : forall c p, 0 <= c < 256 -> 0 <= p < 4 -> Z.lor (Z.land (nhc_hb c p) 251) 0 = 240 + p.
Proof. unfold nhc_hb. by_range2 256%nat 4%nat. Qed.
Lemma nhc_hb2_ports : forall p, 0 <= p < 4 -> Z.land (Z.shiftr (240 + p) 0) 3 = p.
Proof. by_range1 4%nat. Qed.
Lemma nhc_44_bits : forall a b, 0 <= a < 16 -> 0 <= b < 16 ->
  Z.lor (Z.shiftl (a mod 256) 4 mod 256) (b mod 256) = a * 16 + b.
Proof. by_range2 16%nat 16%nat. Qed.

(* the checksum value put on the wire for a computed value [ck] *)
Definition nhc_ck_tx (ck : Z) : Z := if ck =? 0 then 65535 else ck.

(* the header octets for ports [r] and transmitted checksum [ck] *)
Definition nhc_udp_hdr_bytes (r : nhc_ports) (ck : Z) : list Z :=
  let sp := np_src r in let dp := np_dst r in
  if nhc_port_4bit sp && nhc_port_4bit dp then
    [243; (sp - 61616) * 16 + (dp - 61616)] ++ be_enc2 ck
  else if nhc_port_8bit sp then [242; sp - 61440] ++ be_enc2 dp ++ be_enc2 ck
  else if nhc_port_8bit dp then [241] ++ be_enc2 sp ++ [dp - 61440] ++ be_enc2 ck
  else [240] ++ be_enc2 sp ++ be_enc2 dp ++ be_enc2 ck.


(* ---------- the checksum value is a u16 ---------- *)

Lemma wb_propagate_range w : 0 <= w < 4294967296 -> 0 <= wb_propagate_carries w <= 65535.
Proof. unfold wb_propagate_carries. cbv zeta. lia. Qed.

Lemma wb_sum16_range_n n : forall l, (length l <= n)%nat -> bytes_ok l = true ->
  0 <= wb_sum16 l <= 65535 * blen l.
Proof.
  induction n as [|n IH]; intros l Hn Hb.
  - destruct l; [cbn; unfold blen; cbn; lia | cbn in Hn; lia].
  - destruct l as [|a [|b t]].
    + cbn. unfold blen. cbn. lia.
    + cbn [wb_sum16]. cbn [bytes_ok forallb] in Hb. bsplit. unfold blen. cbn [length]. lia.
    + cbn [wb_sum16]. cbn [bytes_ok forallb] in Hb. bsplit.
      assert (Ht : bytes_ok t = true) by assumption.
      specialize (IH t ltac:(cbn in Hn; lia) Ht). autorewrite with blen. lia.
Qed.

Lemma wb_sum16_range l : bytes_ok l = true -> 0 <= wb_sum16 l <= 65535 * blen l.
Proof. apply (wb_sum16_range_n (length l)). lia. Qed.

Lemma wb_cksum_data_range l : bytes_ok l = true -> blen l < 65536 ->
  0 <= wb_cksum_data l <= 65535.
Proof.
  intros Hb Hl. unfold wb_cksum_data. apply wb_propagate_range.
  pose proof (wb_sum16_range l Hb). pose proof (blen_nonneg l). nia.
Qed.

Lemma wb_pseudo_header_range src dst proto len :
  is_arr 16 src = true -> is_arr 16 dst = true -> 0 <= proto < 256 ->
  0 <= wb_pseudo_header src dst proto len <= 65535.
Proof.
  intros Hs Hd Hp. unfold is_arr in *. bsplit.
  unfold wb_pseudo_header, wb_cksum_combine. cbn [fold_left].
  pose proof (wb_cksum_data_range src ltac:(assumption) ltac:(lia)).
  pose proof (wb_cksum_data_range dst ltac:(assumption) ltac:(lia)).
  assert (Hb3 : bytes_ok ([0; proto] ++ be_enc2 len) = true).
  { rewrite bytes_ok_app, be_enc2_bytes. cbn [bytes_ok forallb]. unfold is_u8. zbool. reflexivity. }
  pose proof (wb_cksum_data_range _ Hb3 ltac:(autorewrite with blen; unfold be_enc2, blen; cbn [length]; lia)).
  apply wb_propagate_range. lia.
Qed.

Lemma nhc_udp_cksum_range src dst sp dp payload ck :
  is_arr 16 src = true -> is_arr 16 dst = true -> 0 <= sp < 65536 -> 0 <= dp < 65536 ->
  bytes_ok payload = true -> blen payload < 65528 ->
  nhc_udp_cksum src dst sp dp payload = Ok ck -> 0 <= ck < 65536.
Proof.
  intros Hs Hd Hsp Hdp Hb Hl. unfold nhc_udp_cksum, nhc_udp_len_overflow, nhc_udp_sum_words. cbv zeta.
  pose proof (blen_nonneg payload).
  pose proof (wb_pseudo_header_range src dst nhc_PROTO_UDP ((blen payload + 8) mod 4294967296) Hs Hd
                ltac:(unfold nhc_PROTO_UDP; lia)).
  destruct (65535 <? blen payload mod 65536 + 8) eqn:E; [intros HH; discriminate HH|].
  apply Z.ltb_ge in E.
  intros HH. injection HH as <-.
  pose proof (wb_cksum_data_range payload Hb ltac:(lia)).
  unfold wb_cksum_combine. cbn [fold_left].
  match goal with |- context [wb_propagate_carries ?w] =>
    pose proof (wb_propagate_range w ltac:(lia)) end.
  lia.
Qed.

Lemma nhc_udp_cksum_ok src dst sp dp payload : blen payload < 65528 ->
  exists ck, nhc_udp_cksum src dst sp dp payload = Ok ck.
Proof.
  intros Hl. unfold nhc_udp_cksum, nhc_udp_len_overflow. cbv zeta. pose proof (blen_nonneg payload).
  replace (65535 <? blen payload mod 65536 + 8) with false by (symmetry; apply Z.ltb_ge; lia).
  eauto.
Qed.

(* common tail of the four port forms, after set_ports: [H] explicit header cells, first cell [nhc_hb c p] *)
Ltac nhc_emit_tail c p ck Hck :=
  match goal with
  | |- context [nhc_udp_payload_mut_start ((?x :: ?h) ++ ?t)] =>
      change x with (nhc_hb c p);
      let hb := fresh "hb" in let Ehb := fresh "Ehb" in
      remember (nhc_hb c p) as hb eqn:Ehb;
      let Hp := fresh "Hp" in let Hc := fresh "Hc" in
      assert (Hp : Z.land (Z.shiftr hb 0) 3 = p) by (subst hb; apply nhc_hb_ports; lia);
      assert (Hc : Z.lor (Z.land hb 251) 0 = 240 + p) by (subst hb; rewrite nhc_hb_ck by lia; reflexivity);
      unfold nhc_udp_payload_mut_start, nhc_udp_ports_size, nhc_udp_ports_field, nhc_get_field;
      repeat hstep; rewrite Hp; unfold nhc_udp_ports_size_of; zfold; cbn [obind];
      rewrite (wb_from_tail (hb :: h)) by reflexivity; cbn [obind];
      rewrite (wb_set_slice_tail (hb :: h)) by (autorewrite with blen; zfold; lia); cbn [obind];
      rewrite (wb_from_tail (hb :: h)) by reflexivity; cbn [obind];
      rewrite Hck; cbn [obind];
      change (if ck =? 0 then 65535 else ck) with (nhc_ck_tx ck);
      let ck' := fresh "ck'" in remember (nhc_ck_tx ck) as ck';
      unfold nhc_udp_set_checksum, nhc_udp_set_checksum_field, nhc_set_field, nhc_udp_ports_size,
        nhc_udp_ports_field, nhc_get_field;
      cfold; repeat hstep; rewrite Hc;
      repeat hstep; cfold; unfold nhc_udp_ports_size_of; zfold; cbn [obind];
      repeat hstep; cbn [omap]
  end.

Lemma nhc_udp_emit_exact r src dst payload ck h t :
  nhc_ports_wf r = true -> bytes_ok h = true -> blen h = nhc_udp_header_len r -> blen t = blen payload ->
  nhc_udp_cksum src dst (np_src r) (np_dst r) payload = Ok ck ->
  nhc_udp_emit r src dst payload true (h ++ t) = Ok (nhc_udp_hdr_bytes r (nhc_ck_tx ck) ++ payload).
Proof.
  intros Hwf Hb Hl Ht Hck. destruct r as [sp dp]. unfold nhc_ports_wf in Hwf. cbn [np_src np_dst] in *. bsplit.
  unfold nhc_udp_header_len, nhc_udp_hdr_bytes in *. cbn [np_src np_dst] in *.
  unfold nhc_udp_emit, nhc_udp_set_ports. cbn [np_src np_dst].
  destruct (nhc_port_4bit sp && nhc_port_4bit dp) eqn:M3.
  - zfold_in Hl. apply (blen_length _ 4) in Hl. cells Hl. cbn [bytes_ok forallb] in Hb. bsplit.
    unfold nhc_port_4bit in *. bsplit.
    remember (Z.lor (Z.shiftl ((sp - 61616) mod 256) 4 mod 256) ((dp - 61616) mod 256)) as x1 eqn:Ex1.
    unfold nhc_udp_set_dispatch_field, nhc_udp_set_ports_field, nhc_set_field. cfold.
    repeat hstep.
    nhc_emit_tail c 3 ck Hck.
    rewrite nhc_44_bits in Ex1 by lia. subst x1. reflexivity.
  - destruct (nhc_port_8bit sp) eqn:M2; [|destruct (nhc_port_8bit dp) eqn:M1]; cbn [orb] in Hl.
    + zfold_in Hl. apply (blen_length _ 6) in Hl. cells Hl. cbn [bytes_ok forallb] in Hb. bsplit.
      unfold nhc_port_8bit in *. bsplit.
      remember ((sp - 61440) mod 256) as x1 eqn:Ex1.
      unfold nhc_udp_set_dispatch_field, nhc_udp_set_ports_field, nhc_set_field. cfold.
      repeat hstep.
      nhc_emit_tail c 2 ck Hck.
      subst x1. rewrite (Z.mod_small (sp - 61440)) by lia. reflexivity.
    + zfold_in Hl. apply (blen_length _ 6) in Hl. cells Hl. cbn [bytes_ok forallb] in Hb. bsplit.
      unfold nhc_port_8bit in *. bsplit.
      remember ((dp - 61440) mod 256) as x1 eqn:Ex1.
      unfold nhc_udp_set_dispatch_field, nhc_udp_set_ports_field, nhc_set_field. cfold.
      repeat hstep.
      nhc_emit_tail c 1 ck Hck.
      subst x1. rewrite (Z.mod_small (dp - 61440)) by lia. reflexivity.
    + zfold_in Hl. apply (blen_length _ 7) in Hl. cells Hl. cbn [bytes_ok forallb] in Hb. bsplit.
      unfold nhc_udp_set_dispatch_field, nhc_udp_set_ports_field, nhc_set_field. cfold.
      repeat hstep.
      nhc_emit_tail c 0 ck Hck.
      reflexivity.
Qed.

Lemma nhc_44_hi : forall a b, 0 <= a < 16 -> 0 <= b < 16 -> Z.shiftr (a * 16 + b) 4 = a.
Proof. by_range2 16%nat 16%nat. Qed.
Lemma nhc_44_lo : forall a b, 0 <= a < 16 -> 0 <= b < 16 -> Z.land (a * 16 + b) 15 = b.
Proof. by_range2 16%nat 16%nat. Qed.

Lemma be_dec_enc2_mod v : be_dec (be_enc2 v) = v mod 65536.
Proof. unfold be_enc2. rewrite be_dec2. lia. Qed.

Ltac nhc_eval :=
  unfold nhc_udp_parse, nhc_udp_check_len, nhc_udp_payload, nhc_udp_checksum, nhc_udp_src_port, nhc_udp_dst_port,
    nhc_udp_ports_size, nhc_udp_checksum_size, nhc_udp_dispatch_field, nhc_udp_checksum_field,
    nhc_udp_ports_field, nhc_get_field;
  autorewrite with blen; zfold; zbool;
  repeat (first [progress cfold | progress (unfold nhc_udp_ports_size_of) | hstep | progress cbn [obind negb orb]]);
  zbool; cbn [obind].

Lemma nhc_udp_parse_bytes r ck payload src dst : nhc_ports_wf r = true -> 0 <= ck < 65536 ->
  let b := nhc_udp_hdr_bytes r ck ++ payload in
  nhc_udp_check_len b = Ok tt /\ nhc_udp_parse b src dst false = Ok r /\
  nhc_udp_payload b = Ok payload /\ nhc_udp_checksum b = Ok (Some ck) /\
  nhc_udp_src_port b = Ok (np_src r) /\ nhc_udp_dst_port b = Ok (np_dst r).
Proof.
  intros Hwf Hck. destruct r as [sp dp]. unfold nhc_ports_wf in Hwf. cbn [np_src np_dst] in *. bsplit.
  pose proof (blen_nonneg payload) as Hp.
  unfold nhc_udp_hdr_bytes. cbn [np_src np_dst]. cbv zeta.
  destruct (nhc_port_4bit sp && nhc_port_4bit dp) eqn:M3.
  - unfold nhc_port_4bit in *. bsplit.
    remember ((sp - 61616) * 16 + (dp - 61616)) as x1 eqn:Ex1.
    assert (Hhi : Z.shiftr x1 4 = sp - 61616) by (subst x1; apply nhc_44_hi; lia).
    assert (Hlo : Z.land x1 15 = dp - 61616) by (subst x1; apply nhc_44_lo; lia).
    unfold be_enc2. cbn [app].
    change (243 :: x1 :: (ck / 256) mod 256 :: ck mod 256 :: payload)
      with ([243; x1; (ck / 256) mod 256; ck mod 256] ++ payload).
    nhc_eval. rewrite Hhi, Hlo, be_dec2.
    rewrite (wb_from_tail [243; x1; (ck / 256) mod 256; ck mod 256]) by reflexivity.
    repeat split; repeat f_equal; lia.
  - destruct (nhc_port_8bit sp) eqn:M2; [|destruct (nhc_port_8bit dp) eqn:M1].
    + unfold nhc_port_8bit in *. bsplit.
      remember (sp - 61440) as x1 eqn:Ex1.
      unfold be_enc2. cbn [app].
      change (242 :: x1 :: (dp / 256) mod 256 :: dp mod 256 :: (ck / 256) mod 256 :: ck mod 256 :: payload)
        with ([242; x1; (dp / 256) mod 256; dp mod 256; (ck / 256) mod 256; ck mod 256] ++ payload).
      nhc_eval. rewrite !be_dec2.
      rewrite (wb_from_tail [242; x1; (dp / 256) mod 256; dp mod 256; (ck / 256) mod 256; ck mod 256]) by reflexivity.
      repeat split; repeat f_equal; lia.
    + unfold nhc_port_8bit in *. bsplit.
      remember (dp - 61440) as x1 eqn:Ex1.
      unfold be_enc2. cbn [app].
      change (241 :: (sp / 256) mod 256 :: sp mod 256 :: x1 :: (ck / 256) mod 256 :: ck mod 256 :: payload)
        with ([241; (sp / 256) mod 256; sp mod 256; x1; (ck / 256) mod 256; ck mod 256] ++ payload).
      nhc_eval. rewrite !be_dec2.
      rewrite (wb_from_tail [241; (sp / 256) mod 256; sp mod 256; x1; (ck / 256) mod 256; ck mod 256]) by reflexivity.
      repeat split; repeat f_equal; lia.
    + unfold be_enc2. cbn [app].
      change (240 :: (sp / 256) mod 256 :: sp mod 256 :: (dp / 256) mod 256 :: dp mod 256 :: (ck / 256) mod 256 :: ck mod 256 :: payload)
        with ([240; (sp / 256) mod 256; sp mod 256; (dp / 256) mod 256; dp mod 256; (ck / 256) mod 256; ck mod 256] ++ payload).
      nhc_eval. rewrite !be_dec2.
      rewrite (wb_from_tail [240; (sp / 256) mod 256; sp mod 256; (dp / 256) mod 256; dp mod 256; (ck / 256) mod 256; ck mod 256]) by reflexivity.
      repeat split; repeat f_equal; lia.
Qed.

(* ---------- no panic on arbitrary octets ---------- *)

Lemma nhc_dispatch_total b : nhc_dispatch b <> Panic.
Proof.
  unfold nhc_dispatch. pose proof (blen_nonneg b).
  destruct (blen b =? 0) eqn:E0; [discriminate|]. bsplit.
  rewrite wb_get_u8_ok by lia. cbn [obind]. nopanic.
Qed.

Lemma nhc_udp_check_len_inv b : nhc_udp_check_len b = Ok tt ->
  exists x, wb_get_u8 b 0 = Ok x /\
    1 + nhc_udp_ports_size_of (Z.land (Z.shiftr x 0) 3) + (if Z.land (Z.shiftr x 2) 1 =? 0 then 2 else 0) <= blen b.
Proof.
  unfold nhc_udp_check_len, nhc_udp_ports_size, nhc_udp_checksum_size, nhc_udp_ports_field, nhc_udp_checksum_field,
    nhc_get_field.
  destruct (blen b =? 0) eqn:E0; [intros HH; discriminate HH|].
  destruct (wb_get_u8 b 0) as [x| |] eqn:Ex; cbn [obind]; try (intros HH; discriminate HH).
  match goal with |- context [?a >? ?c] => destruct (a >? c) eqn:E1 end; [intros HH; discriminate HH|].
  intros _. exists x. split; [reflexivity|]. rewrite Z.gtb_ltb in E1. apply Z.ltb_ge in E1. exact E1.
Qed.

Lemma nhc_udp_check_len_total b : nhc_udp_check_len b <> Panic.
Proof.
  unfold nhc_udp_check_len, nhc_udp_ports_size, nhc_udp_checksum_size, nhc_udp_ports_field, nhc_udp_checksum_field,
    nhc_get_field. pose proof (blen_nonneg b).
  destruct (blen b =? 0) eqn:E0; [discriminate|]. bsplit.
  rewrite wb_get_u8_ok by lia. cbn [obind]. nopanic.
Qed.

Lemma nhc_udp_accessors_safe b : nhc_udp_check_len b = Ok tt ->
  nhc_udp_src_port b <> Panic /\ nhc_udp_dst_port b <> Panic /\ nhc_udp_checksum b <> Panic /\
  nhc_udp_payload b <> Panic /\ nhc_udp_dispatch_field b <> Panic.
Proof.
  intros H. apply nhc_udp_check_len_inv in H. destruct H as (x & Ex & Hl).
  unfold nhc_udp_src_port, nhc_udp_dst_port, nhc_udp_checksum, nhc_udp_payload, nhc_udp_dispatch_field,
    nhc_udp_ports_size, nhc_udp_checksum_size, nhc_udp_ports_field, nhc_udp_checksum_field, nhc_get_field.
  rewrite Ex. cbn [obind].
  unfold nhc_udp_ports_size_of in *.
  set (p := Z.land (Z.shiftr x 0) 3) in *. set (c := Z.land (Z.shiftr x 2) 1) in *.
  destruct (p =? 0) eqn:P0; [|destruct (p =? 1) eqn:P1; [|destruct (p =? 2) eqn:P2]];
    destruct (c =? 0) eqn:C0; cbn [orb obind];
    (repeat split; try discriminate;
     repeat first [ apply wb_get_be_nopanic; lia | apply wb_get_u8_nopanic; lia | apply wb_from_nopanic; lia
                  | apply obind_nopanic; [|intros ? ?] | discriminate ]).
Qed.

Lemma nhc_udp_verify_total src dst sp dp payload c : blen payload < 65528 ->
  nhc_udp_verify src dst sp dp payload c <> Panic.
Proof.
  intros Hl. unfold nhc_udp_verify, nhc_udp_len_overflow. pose proof (blen_nonneg payload).
  replace (65535 <? blen payload mod 65536 + 8) with false by (symmetry; apply Z.ltb_ge; lia).
  nopanic.
Qed.

Lemma nhc_udp_payload_len b p : nhc_udp_payload b = Ok p -> blen p <= blen b.
Proof.
  unfold nhc_udp_payload. intros H. obind_inv H. unfold wb_from in H.
  destruct ((0 <=? 1 + v + v0) && (1 + v + v0 <=? blen b)) eqn:EE; [|discriminate H].
  injection H as <-. bsplit. rewrite blen_skipn by lia. lia.
Qed.

(* UdpNhcRepr::parse (with or without checksum verification) never panics *)
Lemma nhc_udp_parse_total b src dst rx : blen b < 65528 -> nhc_udp_parse b src dst rx <> Panic.
Proof.
  intros Hl. unfold nhc_udp_parse.
  destruct (nhc_udp_check_len b) as [[]| |] eqn:E; cbn [obind]; try discriminate;
    [|exfalso; exact (nhc_udp_check_len_total b E)].
  destruct (nhc_udp_accessors_safe b E) as (Hs & Hd & Hc & Hp & Hdf).
  apply obind_nopanic; [assumption|]. intros d _.
  destruct (negb (d =? wsix_DISPATCH_UDP_HEADER)); [discriminate|].
  apply obind_nopanic.
  - destruct rx; [|discriminate].
    apply obind_nopanic; [assumption|]. intros [c|] _; [|discriminate].
    apply obind_nopanic; [assumption|]. intros pl Epl.
    apply obind_nopanic; [assumption|]. intros sp _.
    apply obind_nopanic; [assumption|]. intros dp _.
    apply nhc_udp_verify_total. apply nhc_udp_payload_len in Epl. lia.
  - intros _ _. apply obind_nopanic; [assumption|]. intros sp _.
    apply obind_nopanic; [assumption|]. intros dp _. discriminate.
Qed.

(* ---------- the round trip, for ALL port values and payloads, ANY old buffer content ---------- *)

Lemma nhc_udp_hdr_bytes_len r ck : blen (nhc_udp_hdr_bytes r ck) = nhc_udp_header_len r.
Proof.
  unfold nhc_udp_hdr_bytes, nhc_udp_header_len. cbv zeta.
  destruct (nhc_port_4bit (np_src r) && nhc_port_4bit (np_dst r)); [reflexivity|].
  destruct (nhc_port_8bit (np_src r)); [reflexivity|]. destruct (nhc_port_8bit (np_dst r)); reflexivity.
Qed.

Lemma nhc_ck_tx_range ck : 0 <= ck < 65536 -> 0 < nhc_ck_tx ck < 65536.
Proof. unfold nhc_ck_tx. destruct (ck =? 0) eqn:E; bsplit; lia. Qed.

Lemma nhc_ports_wf_inv r : nhc_ports_wf r = true -> 0 <= np_src r < 65536 /\ 0 <= np_dst r < 65536.
Proof. unfold nhc_ports_wf. intros H. bsplit. lia. Qed.

Lemma nhc_udp_roundtrip r src dst payload b :
  nhc_ports_wf r = true -> is_arr 16 src = true -> is_arr 16 dst = true ->
  bytes_ok payload = true -> blen payload < 65528 ->
  bytes_ok b = true -> blen b = nhc_udp_header_len r + blen payload ->
  exists ck bs,
    nhc_udp_cksum src dst (np_src r) (np_dst r) payload = Ok ck /\
    nhc_udp_emit r src dst payload true b = Ok bs /\
    bs = nhc_udp_hdr_bytes r (nhc_ck_tx ck) ++ payload /\
    nhc_udp_parse bs src dst false = Ok r /\
    nhc_udp_payload bs = Ok payload /\
    nhc_udp_checksum bs = Ok (Some (nhc_ck_tx ck)).
Proof.
  intros Hwf Hs Hd Hpb Hpl Hb Hl.
  destruct (nhc_udp_cksum_ok src dst (np_src r) (np_dst r) payload Hpl) as (ck & Hck).
  assert (Hr : 0 <= ck < 65536).
  { destruct (nhc_ports_wf_inv r Hwf) as (Hsp & Hdp).
    apply (nhc_udp_cksum_range src dst (np_src r) (np_dst r) payload ck); assumption. }
  pose proof (blen_nonneg payload).
  assert (Hn : 0 <= nhc_udp_header_len r <= blen b).
  { pose proof (nhc_udp_hdr_bytes_len r 0). pose proof (blen_nonneg (nhc_udp_hdr_bytes r 0)). lia. }
  destruct (split_hdr b (nhc_udp_header_len r) Hn) as (h & t & -> & Hh & Ht).
  rewrite bytes_ok_app in Hb. apply andb_prop in Hb. destruct Hb as (Hbh & Hbt).
  exists ck, (nhc_udp_hdr_bytes r (nhc_ck_tx ck) ++ payload).
  split; [assumption|]. split.
  - apply nhc_udp_emit_exact; try assumption; [unfold blen; lia | lia].
  - split; [reflexivity|].
    destruct (nhc_udp_parse_bytes r (nhc_ck_tx ck) payload src dst Hwf) as (_ & Hp & Hpay & Hcs & _).
    { pose proof (nhc_ck_tx_range ck Hr). lia. }
    auto.
Qed.

Lemma nhc_udp_emit_ignores_old_bytes r src dst payload b1 b2 :
  nhc_ports_wf r = true -> is_arr 16 src = true -> is_arr 16 dst = true ->
  bytes_ok payload = true -> blen payload < 65528 ->
  bytes_ok b1 = true -> bytes_ok b2 = true ->
  blen b1 = nhc_udp_header_len r + blen payload -> blen b2 = nhc_udp_header_len r + blen payload ->
  nhc_udp_emit r src dst payload true b1 = nhc_udp_emit r src dst payload true b2.
Proof.
  intros Hwf Hs Hd Hpb Hpl H1 H2 L1 L2.
  destruct (nhc_udp_roundtrip r src dst payload b1 Hwf Hs Hd Hpb Hpl H1 L1) as (ck1 & bs1 & C1 & E1 & -> & _).
  destruct (nhc_udp_roundtrip r src dst payload b2 Hwf Hs Hd Hpb Hpl H2 L2) as (ck2 & bs2 & C2 & E2 & -> & _).
  rewrite E1, E2. congruence.
Qed.

(* ---------- the receiver's checksum verification accepts what the sender emits ---------- *)

Lemma wb_propagate_spec w : 0 <= w < 4294967296 ->
  wb_propagate_carries w = if w =? 0 then 0 else (w - 1) mod 65535 + 1.
Proof.
  intros Hw. unfold wb_propagate_carries. cbv zeta. destruct (w =? 0) eqn:E; bsplit.
  - subst. reflexivity.
  - lia.
Qed.

Lemma nhc_udp_verify_accepts src dst sp dp payload ck :
  is_arr 16 src = true -> is_arr 16 dst = true -> 0 <= sp < 65536 -> 0 <= dp < 65536 ->
  bytes_ok payload = true -> blen payload < 65528 ->
  nhc_udp_cksum src dst sp dp payload = Ok ck ->
  nhc_udp_verify src dst sp dp payload (nhc_ck_tx ck) = Ok tt.
Proof.
  intros Hs Hd Hsp Hdp Hb Hl. unfold nhc_udp_cksum, nhc_udp_verify, nhc_udp_len_overflow.
  pose proof (blen_nonneg payload).
  pose proof (wb_pseudo_header_range src dst nhc_PROTO_UDP ((blen payload + 8) mod 4294967296) Hs Hd
                ltac:(unfold nhc_PROTO_UDP; lia)) as Hph.
  pose proof (wb_cksum_data_range payload Hb ltac:(lia)) as Hdat.
  replace (65535 <? blen payload mod 65536 + 8) with false by (symmetry; apply Z.ltb_ge; lia).
  intros HH. injection HH as <-.
  unfold wb_cksum_combine. rewrite fold_left_app. cbn [fold_left].
  unfold nhc_udp_sum_words in *. cbv zeta in *. cbn [fold_left] in *.
  set (S := 0 + wb_pseudo_header src dst nhc_PROTO_UDP ((blen payload + 8) mod 4294967296) + sp + dp +
            (blen payload mod 65536 + 8) + wb_cksum_data payload) in *.
  assert (HS : 0 <= S < 4294967296 - 65536) by (subst S; lia).
  rewrite (wb_propagate_spec S) by lia.
  unfold nhc_ck_tx.
  destruct (S =? 0) eqn:ES.
  - bsplit. rewrite ES. cbn. reflexivity.
  - bsplit.
    destruct (65535 - ((S - 1) mod 65535 + 1) =? 0) eqn:E0; bsplit.
    + rewrite wb_propagate_spec by lia. zbool. cbn [orb negb]. reflexivity.
    + rewrite wb_propagate_spec by lia. zbool. cbn [orb negb]. reflexivity.
Qed.

Lemma nhc_udp_roundtrip_verified r src dst payload ck :
  nhc_ports_wf r = true -> is_arr 16 src = true -> is_arr 16 dst = true ->
  bytes_ok payload = true -> blen payload < 65528 ->
  nhc_udp_cksum src dst (np_src r) (np_dst r) payload = Ok ck ->
  nhc_udp_parse (nhc_udp_hdr_bytes r (nhc_ck_tx ck) ++ payload) src dst true = Ok r.
Proof.
  intros Hwf Hs Hd Hpb Hpl Hck.
  destruct (nhc_ports_wf_inv r Hwf) as (Hsp & Hdp).
  pose proof (nhc_udp_cksum_range src dst _ _ payload ck Hs Hd Hsp Hdp Hpb Hpl Hck) as Hr.
  pose proof (nhc_ck_tx_range ck Hr) as Hr'.
  destruct (nhc_udp_parse_bytes r (nhc_ck_tx ck) payload src dst Hwf ltac:(lia)) as (Hcl & Hp & Hpay & Hcs & Hsp' & Hdp').
  cbv zeta in *.
  unfold nhc_udp_parse in *. rewrite Hcl in *. cbn [obind] in *.
  destruct (nhc_udp_dispatch_field _) as [d| |]; cbn [obind] in *; try discriminate Hp.
  destruct (negb (d =? wsix_DISPATCH_UDP_HEADER)); [discriminate Hp|].
  rewrite Hcs, Hpay, Hsp', Hdp'. cbn [obind].
  rewrite (nhc_udp_verify_accepts src dst _ _ payload ck Hs Hd Hsp Hdp Hpb Hpl Hck). cbn [obind].
  destruct r; reflexivity.
Qed.

Lemma sixfrag_no_panic b :
  sixlowpan_dispatch b <> Panic /\ sixfrag_new_checked b <> Panic /\ sixfrag_parse b <> Panic.
Proof.
  split; [apply sixlowpan_dispatch_total|]. split; [apply sixfrag_new_checked_total | apply sixfrag_parse_total].
Qed.

Lemma nhc_udp_no_panic b src dst rx : blen b < 65528 ->
  nhc_dispatch b <> Panic /\ nhc_udp_check_len b <> Panic /\ nhc_udp_parse b src dst rx <> Panic /\
  (nhc_udp_check_len b = Ok tt ->
     nhc_udp_src_port b <> Panic /\ nhc_udp_dst_port b <> Panic /\ nhc_udp_checksum b <> Panic /\
     nhc_udp_payload b <> Panic /\ nhc_udp_dispatch_field b <> Panic).
Proof.
  intros Hl. split; [apply nhc_dispatch_total|]. split; [apply nhc_udp_check_len_total|].
  split; [apply nhc_udp_parse_total; assumption | apply nhc_udp_accessors_safe].
Qed.
