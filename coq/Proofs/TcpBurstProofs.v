(* C03, "fail to return" clause for the TCP socket, layer 3: the theorems.

     burst_step                    one emitting dispatch strictly decreases [mu]
     tcp_egress_burst_terminates   at a fixed instant at most [mu cx s] <= [burst_bound cx s]
                                   consecutive dispatches emit
     tcp_poll_egress_returns       the egress loop of Interface::poll for the socket ends by itself
                                   within that fuel, whatever the device accepts
     tcp_ingress_reply_bounded     one received segment produces at most one reply, without payload

   Hypotheses, all discharged for sockets reachable from [tcp_new] in Proofs/TcpBurstInv.v, except
   the two user/device-settable ones, which are necessary ([*_refuted] at the end):
     ka_pos   the keep-alive interval is not Some 0
     mtu_ok   the interface MTU leaves room for a payload octet *)
From SV Require Import Lib.Base Gen.Consts.
From SV Require Import Model.Seq32 Model.Assembler Model.TcpBuf Model.TcpTypes Model.Tcp.
From SV Require Import Proofs.TcpSendBase Proofs.TcpSendInv Proofs.TcpSendDisp Proofs.TcpSendDisp2
                       Proofs.TcpSendDisp3 Proofs.TcpSendReply.
From SV Require Import Proofs.TcpLiveBase Proofs.TcpLiveProofs.
From SV Require Import Proofs.TcpBurstBase Proofs.TcpBurstStep Proofs.TcpBurstEmit.

(* everything the burst argument assumes of the socket and the context *)
Definition binv (cx : ctx) (s : socket) : Prop :=
  TcpSendInv.ctx_ok cx /\ mtu_ok cx /\ tcp_live_inv s /\ (exists g, inv g s) /\
  sinv s /\ rx_ok s /\ ka_pos s.

(* ------------------------------------------------------------------------------------------ *)
(* the timer-driven part of dispatch                                                            *)
(* ------------------------------------------------------------------------------------------ *)
Lemma dtimers_mine : forall cx s s1 tg,
  tcp_dispatch_timers cx s = Ok (s1, tg) -> rtte_ok (s_rtte s) -> rb_wf (s_tx_buffer s) ->
  zwp_ok s ->
  s_keep_alive s1 = s_keep_alive s /\ zwp_ok s1.
Proof.
  intros cx s s1 tg H Hr Hwf Hz. unfold tcp_dispatch_timers in H. fold (dt_pre cx s) in H.
  assert (Q : s_keep_alive (dt_pre cx s) = s_keep_alive s /\ zwp_ok (dt_pre cx s) /\
              rtte_ok (s_rtte (dt_pre cx s)) /\ rb_wf (s_tx_buffer (dt_pre cx s))).
  { unfold dt_pre. destruct (is_some (s_remote_last_ts s)); auto. }
  revert H Q. generalize (dt_pre cx s). intros q H (Q1 & Q2 & Q3 & Q4). rewrite <- Q1.
  destruct (tcp_timed_out q (cx_now cx)); [injection H as <- _; auto|].
  destruct (timer_should_retransmit (s_timer q) (cx_now cx)) eqn:Hsr; [|injection H as <- _; auto].
  obind_inv H.
  pose proof (rtte_timeout_bounds _ Q3) as Hb.
  pose proof (rtte_timeout_bounds _ (rtte_on_rto_ok _ Q3)) as Hb'.
  destruct (s_timer q) as [k|e| |e d|e] eqn:Ht; cbn in Hsr; try discriminate.
  - sproj in H.
    destruct ((s_remote_win_len q =? 0) && negb (rb_is_empty (s_tx_buffer q))) eqn:Hzz;
      injection H as <- _; unfold zwp_ok; sproj; (split; [reflexivity|]); try exact I.
    cbn [timer_set_for_zero_window_probe]. apply andb_prop in Hzz. destruct Hzz as (_ & Hne).
    unfold rb_is_empty in Hne. pose proof (Z.eqb_spec (rb_len (s_tx_buffer q)) 0) as X.
    destruct X; [discriminate|].
    destruct Q4 as (Hl & _). split; lia.
  - sproj in H. injection H as <- _. unfold zwp_ok. sproj. split; [reflexivity|exact I].
Qed.

Lemma timers_post : forall cx s t s1 tg,
  binv cx s -> s_tuple s = Some t -> tcp_dispatch_timers cx s = Ok (s1, tg) ->
  exists g1,
    inv g1 s1 /\ tcp_live_inv s1 /\ sinv s1 /\ rx_ok s1 /\ ka_pos s1 /\ s_tuple s1 = Some t /\
    (s_tx_buffer s1 = s_tx_buffer s /\ s_remote_win_len s1 = s_remote_win_len s /\
     s_remote_mss s1 = s_remote_mss s /\ s_tsval_generator s1 = s_tsval_generator s) /\
    ((s_state s1 = Closed /\ tcp_timed_out s1 (cx_now cx) = true) \/
     (timer_should_retransmit (s_timer s1) (cx_now cx) = false /\
      is_some (s_remote_last_ts s1) = true /\ tcp_timed_out s1 (cx_now cx) = false)).
Proof.
  intros cx s t s1 tg (Hcx & Hmtu & Hlive & (g & Hinv) & (Hz & Hrm & Hfw) & Hrx & Hka) Htup H.
  pose proof (dispatch_timers_inv _ _ _ _ Hlive H) as Hlive1.
  destruct (dtimers_mine _ _ _ _ H (li_rtte s Hlive) (li_tx s Hlive) Hz) as (Eka & Hz1).
  (* the sender invariant and the frame *)
  pose proof H as H'. rewrite dtimers_unfold in H'.
  set (s0 := if is_some (s_remote_last_ts s) then s else upd_remote_last_ts s (Some (cx_now cx))) in *.
  assert (Hinv0 : inv g s0).
  { unfold s0. destruct (is_some _); [exact Hinv|]. eapply inv_txv; [|exact Hinv]. reflexivity. }
  destruct (dtimers_body_spec cx g s0 Hinv0) as (s1' & tg' & g1 & E1 & Hinv1 & _ & Hfr & Ht1 & _).
  rewrite E1 in H'. injection H' as -> ->.
  assert (F0 : s_remote_mss s0 = s_remote_mss s /\ s_remote_win_shift s0 = s_remote_win_shift s /\
               s_syn_unacked_in_fin_wait s0 = s_syn_unacked_in_fin_wait s /\
               s_rx_buffer s0 = s_rx_buffer s /\ s_remote_seq_no s0 = s_remote_seq_no s /\
               s_state s0 = s_state s /\ s_tuple s0 = s_tuple s /\
               s_tx_buffer s0 = s_tx_buffer s /\ s_remote_win_len s0 = s_remote_win_len s /\
               s_tsval_generator s0 = s_tsval_generator s).
  { unfold s0. destruct (is_some _); repeat split; reflexivity. }
  destruct F0 as (G1 & G2 & G3 & G4 & G5 & G6 & G7 & G8 & G9 & G10).
  destruct Hfr as (F1 & F2 & F3 & F4 & F5 & F6 & F7 & F8 & F9 & F10 & F11).
  exists g1. split; [exact Hinv1|]. split; [exact Hlive1|].
  split.
  { split; [exact Hz1|]. split.
    - unfold rmss_ok in *. rewrite F5, G1. exact Hrm.
    - unfold synfw_ok in *. rewrite F7, G3. intros X. specialize (Hfw X).
      destruct F11 as [->| ->]; [rewrite G6; exact Hfw|auto]. }
  split; [unfold rx_ok in *; rewrite F6, F8, G2, G4; exact Hrx|].
  split; [unfold ka_pos in *; rewrite Eka; exact Hka|].
  split; [rewrite Ht1, G7; exact Htup|].
  split; [rewrite F1, F3, F5, F9, G1, G8, G9, G10; auto|].
  pose proof (dt_pre_lts cx s) as Qlts.
  assert (Q10 : s_rtte (dt_pre cx s) = s_rtte s)
    by (unfold dt_pre; destruct (is_some (s_remote_last_ts s)); reflexivity).
  destruct (dt_spec _ _ _ _ H) as [(Hto & ->) | [(Hto & Hsr & ->) | (Hto & _ & _ & _ & _ & _ & _ & _ & Hlts & Htmo & _ & _ & _ & Hsr & _)]].
  - left. split; [reflexivity|]. unfold tcp_timed_out in *. sproj. exact Hto.
  - right. auto.
  - right. split; [apply Hsr; rewrite Q10; apply (li_rtte s Hlive)|].
    split; [rewrite Hlts; exact Qlts|]. unfold tcp_timed_out in *. rewrite Hlts, Htmo. exact Hto.
Qed.

(* a socket whose timers are quiet is not touched by the timer-driven part *)
Lemma timers_settled : forall cx s,
  is_some (s_remote_last_ts s) = true -> tcp_timed_out s (cx_now cx) = false ->
  timer_should_retransmit (s_timer s) (cx_now cx) = false ->
  tcp_dispatch_timers cx s = Ok (s, 200).
Proof.
  intros cx s H1 H2 H3. unfold tcp_dispatch_timers. rewrite H1, H2, H3. reflexivity.
Qed.

Lemma nu_pos : forall cx s, 0 < emss cx s -> 1 <= nu cx s.
Proof.
  intros cx s Hm. unfold nu. pose proof (D_01 cx s). pose proof (B_01 s). pose proof (P_01 s).
  rewrite m_Phi_of. pose proof (phi_of_nonneg cx s (fl s) Hm). lia.
Qed.

(* ------------------------------------------------------------------------------------------ *)
(* one emitting dispatch                                                                        *)
(* ------------------------------------------------------------------------------------------ *)
Theorem burst_step : forall cx s s' p tags,
  binv cx s -> tcp_dispatch cx s true = Ok (s', DSent p, tags) ->
  mu cx s' < mu cx s /\ (s_tuple s' = None \/ binv cx s').
Proof.
  intros cx s s' p tags Hb H.
  pose proof Hb as (Hcx & Hmtu & Hlive & (g & Hinv) & Hsinv & Hrx & Hka).
  (* the invariants of C02 and C05 after the dispatch *)
  pose proof (TcpLiveProofs.dispatch_inv _ _ _ _ _ _ Hlive H) as Hlive'.
  destruct (TcpSendDisp3.dispatch_inv _ _ _ _ _ _ _ Hinv Hcx H) as (_ & _ & g' & _ & _ & _ & Hinv' & _).
  unfold tcp_dispatch in H. unfold mu at 2.
  destruct (s_tuple s) as [t|] eqn:Htup; [|discriminate].
  destruct (negb (tu_local_addr t =? cx_addr cx)) eqn:Haddr; [discriminate|].
  obind_inv H. destruct a as (s1, t1). rename E into E1. rewrite E1.
  obind_inv H. destruct a as ((s2, go), t2). rename E into E2.
  destruct go; cbn [negb] in H; [|discriminate].
  obind_inv H. destruct a as ((((s3, o), zwp), ka), t3). rename E into E3.
  destruct o as [repr|]; [|discriminate]. cbn [negb] in H.
  destruct (tcp_dispatch_finish cx s3 repr zwp ka) as (s4, t4) eqn:E4.
  injection H as <- _ _.
  destruct (timers_post cx s t s1 t1 Hb Htup E1)
    as (g1 & Hinv1 & Hlive1 & Hsinv1 & Hrx1 & Hka1 & Htup1 & _ & Hcase).
  assert (Hm1 : 0 < emss cx s1) by (destruct Hsinv1 as (_ & X & _); apply emss_pos; assumption).
  pose proof (nu_pos cx s1 Hm1) as Hnu1.
  assert (Hpost : emit_ok_post cx s1 s4 t).
  { destruct Hcase as [(Hcl & _)|(Hnr & _)].
    - (* timed out: the RST goes out, the tuple is forgotten *)
      destruct (decide_go _ _ _ _ E2) as (-> & _).
      destruct (build_closed _ _ _ _ _ _ _ _ Hcx Hcl E3) as (-> & -> & ->).
      pose proof (finish_n_fields cx s1 repr s4 t4 E4) as X. cbv zeta in X.
      destruct X as (_ & Et & _). rewrite Hcl in Et. left. exact Et.
    - exact (emit_core cx g1 s1 t Hcx Hmtu Hlive1 Hinv1 Hsinv1 Hrx1 Hka1 Htup1 Hnr
               _ _ _ _ _ _ _ _ _ E2 E3 E4). }
  destruct Hpost as [Hn|(Ht4 & Hq & Elts & Eto & Eka & Emss & Efw & Est & Hz4 & Hrx4 & Hlt)].
  - split; [unfold mu; rewrite Hn; lia|left; exact Hn].
  - destruct Hcase as [(Hcl & _)|(Hnr & Hlts & Hto)].
    { (* cannot happen: a CLOSED socket forgets its tuple; still, the bound holds *)
      exfalso. destruct (decide_go _ _ _ _ E2) as (-> & _).
      destruct (build_closed _ _ _ _ _ _ _ _ Hcx Hcl E3) as (-> & -> & ->).
      pose proof (finish_n_fields cx s1 repr s4 t4 E4) as X. cbv zeta in X.
      destruct X as (_ & Et & _). rewrite Hcl in Et. cbn in Et. congruence. }
    assert (Hset : tcp_dispatch_timers cx s4 = Ok (s4, 200)).
    { apply timers_settled; [rewrite Elts; exact Hlts| |apply Hq].
      unfold tcp_timed_out in *. rewrite Elts, Eto. exact Hto. }
    split.
    + unfold mu. rewrite Ht4, Haddr, Hset. exact Hlt.
    + right. unfold binv. split; [exact Hcx|]. split; [exact Hmtu|]. split; [exact Hlive'|].
      split; [exists g'; exact Hinv'|].
      destruct Hsinv1 as (_ & Hrm1 & Hfw1).
      split.
      { split; [exact Hz4|]. split.
        - unfold rmss_ok in *. rewrite Emss. exact Hrm1.
        - unfold synfw_ok in *. rewrite Efw, Est. exact Hfw1. }
      split; [exact Hrx4|]. unfold ka_pos in *. rewrite Eka. exact Hka1.
Qed.

(* ------------------------------------------------------------------------------------------ *)
(* the measure is a natural number below the closed bound                                        *)
(* ------------------------------------------------------------------------------------------ *)
Lemma mu_bounds : forall cx s, binv cx s -> 0 <= mu cx s <= burst_bound cx s.
Proof.
  intros cx s Hb. pose proof Hb as (Hcx & Hmtu & Hlive & (g & Hinv) & (Hz & Hrm & Hfw) & Hrx & Hka).
  assert (Hm : 0 < emss cx s) by (apply emss_pos; assumption).
  assert (Hbb : 6 <= burst_bound cx s).
  { unfold burst_bound.
    pose proof (div_ceil_nonneg (Z.max 0 (Z.min (s_remote_win_len s) (rb_len (s_tx_buffer s))))
                                (emss cx s) ltac:(lia) Hm). lia. }
  unfold mu. destruct (s_tuple s) as [t|] eqn:Htup; [|lia].
  destruct (negb (tu_local_addr t =? cx_addr cx)); [lia|].
  destruct (tcp_dispatch_timers cx s) as [(s1, t1)| |] eqn:E1; [|lia|lia].
  destruct (timers_post cx s t s1 t1 Hb Htup E1)
    as (g1 & (Htx1 & _) & _ & (_ & Hrm1 & _) & _ & _ & _ & (S1 & S2 & S3 & S4) & _).
  assert (Hm1 : 0 < emss cx s1) by (apply emss_pos; assumption).
  pose proof (nu_pos cx s1 Hm1). split; [lia|].
  unfold nu, burst_bound. pose proof (D_01 cx s1). pose proof (B_01 s1). pose proof (P_01 s1).
  rewrite m_Phi_of. rewrite (fl_inv g1 s1 Htx1).
  destruct (inv_nf g1 s1 Htx1) as (_ & _ & (Hf0 & _) & _).
  assert (Em : emss cx s1 = emss cx s) by (unfold emss, ts_opt; rewrite S3, S4; reflexivity).
  unfold phi_of. rewrite S1, S2, Em.
  pose proof (div_ceil_nonneg (Z.max 0 (Z.min (s_remote_win_len s) (rb_len (s_tx_buffer s))))
                              (emss cx s) ltac:(lia) Hm).
  destruct (tcp_sent_syn s1).
  - pose proof (b2z_01 (g_flight g1 =? 0)). lia.
  - destruct (data_state (s_state s1)); [|lia].
    pose proof (phi_data_bound (s_remote_win_len s) (rb_len (s_tx_buffer s)) (cwnd s1) (emss cx s)
                  (rb_read_at (s_tx_buffer s)) (rb_cap (s_tx_buffer s)) (fin_state (s_state s1))
                  (g_flight g1) Hm Hf0). lia.
Qed.

(* ------------------------------------------------------------------------------------------ *)
(* a burst of dispatches at one fixed instant terminates                                         *)
(* ------------------------------------------------------------------------------------------ *)
(* [burst_run cx s n s']: n consecutive dispatches with the same context (same instant), each of
   which emitted a frame that the device accepted; no ingress, no API call in between *)
Inductive burst_run (cx : ctx) : socket -> nat -> socket -> Prop :=
| br_nil : forall s, burst_run cx s O s
| br_step : forall s s1 p tags n s',
    tcp_dispatch cx s true = Ok (s1, DSent p, tags) ->
    burst_run cx s1 n s' -> burst_run cx s (S n) s'.

Lemma no_tuple_silent : forall cx s e s' p tags,
  s_tuple s = None -> tcp_dispatch cx s e = Ok (s', DSent p, tags) -> False.
Proof. intros cx s e s' p tags Ht H. unfold tcp_dispatch in H. rewrite Ht in H. discriminate. Qed.

Theorem tcp_egress_burst_terminates : forall cx s n s',
  binv cx s -> burst_run cx s n s' ->
  Z.of_nat n <= mu cx s /\ mu cx s <= burst_bound cx s.
Proof.
  intros cx s n s' Hb Hrun. split; [|apply mu_bounds; exact Hb].
  induction Hrun as [s|s s1 p tags n s' Hd Hrun IH].
  - apply mu_bounds. exact Hb.
  - destruct (burst_step cx s s1 p tags Hb Hd) as (Hlt & [Hn|Hb1]).
    + destruct Hrun as [s1|s1 s2 p2 tags2 n s' Hd2 _].
      * assert (mu cx s1 = 0) by (unfold mu; rewrite Hn; reflexivity). lia.
      * exfalso. exact (no_tuple_silent _ _ _ _ _ _ Hn Hd2).
    + specialize (IH Hb1). lia.
Qed.

(* ------------------------------------------------------------------------------------------ *)
(* the egress loop of Interface::poll for one TCP socket returns                                 *)
(* ------------------------------------------------------------------------------------------ *)
Lemma refused_not_sent : forall cx s s' p tags,
  tcp_dispatch cx s false = Ok (s', DSent p, tags) -> False.
Proof.
  intros cx s s' p tags H. unfold tcp_dispatch in H.
  destruct (s_tuple s) as [t|]; [|discriminate].
  destruct (negb (tu_local_addr t =? cx_addr cx)); [discriminate|].
  obind_inv H. destruct a as (s1, t1). obind_inv H. destruct a as ((s2, go), t2).
  destruct (negb go); [discriminate|].
  obind_inv H. destruct a as ((((s3, o), zwp), ka), t3). destruct o; discriminate.
Qed.

Lemma rev_append_length : forall A (l acc : list A),
  length (rev_append l acc) = (length l + length acc)%nat.
Proof. induction l; intros; cbn; [reflexivity|]. rewrite IHl. cbn. lia. Qed.

Lemma poll_egress_acc_bound : forall fuel cx s budget acc tg s' sent tags fin,
  (s_tuple s = None \/ binv cx s) ->
  iface_poll_egress_acc fuel cx s budget acc tg = Ok (s', sent, tags, fin) ->
  exists k, length sent = (length acc + k)%nat /\ Z.of_nat k <= mu cx s /\
            (mu cx s < Z.of_nat fuel -> fin = true).
Proof.
  induction fuel as [|fuel IH]; intros cx s budget acc tg s' sent tags fin Hs H.
  - cbn [iface_poll_egress_acc] in H. injection H as <- <- <- <-.
    exists O. rewrite rev_append_length. cbn [length]. split; [lia|].
    assert (0 <= mu cx s).
    { destruct Hs as [Hn|Hb]; [unfold mu; rewrite Hn; lia|apply mu_bounds; exact Hb]. }
    split; [lia|]. intros X. lia.
  - cbn [iface_poll_egress_acc] in H.
    set (emit_ok := match budget with Some b => b >? 0 | None => true end) in *.
    obind_inv H. destruct a as ((s1, res), tg1). rename E into Hd.
    assert (Hmu0 : 0 <= mu cx s).
    { destruct Hs as [Hn|Hb]; [unfold mu; rewrite Hn; lia|apply mu_bounds; exact Hb]. }
    destruct res as [|p|p].
    + injection H as <- <- <- <-. exists O. rewrite rev_append_length. cbn [length].
      split; [lia|]. split; [lia|]. reflexivity.
    + destruct emit_ok eqn:Ee; [|exfalso; exact (refused_not_sent _ _ _ _ _ Hd)].
      destruct Hs as [Hn|Hb]; [exfalso; exact (no_tuple_silent _ _ _ _ _ _ Hn Hd)|].
      destruct (burst_step cx s s1 p tg1 Hb Hd) as (Hlt & Hs1).
      destruct (IH _ _ _ _ _ _ _ _ _ Hs1 H) as (k & Hk1 & Hk2 & Hk3).
      exists (S k). cbn [length] in Hk1. split; [lia|]. split; [lia|].
      intros X. apply Hk3. lia.
    + injection H as <- <- <- <-. exists O. rewrite rev_append_length. cbn [length].
      split; [lia|]. split; [lia|]. reflexivity.
Qed.

(* Whatever the device accepts ([budget] frames, or all of them), the loop sends at most
   [mu cx s] <= [burst_bound cx s] frames and, given more fuel than that, ends by itself: the model's
   fuel (20000 in the correspondence driver, where it stands for the harness' LIVELOCK verdict)
   is never what stops it. *)
Theorem tcp_poll_egress_returns : forall fuel cx s budget s' sent tags fin,
  binv cx s ->
  iface_poll_egress fuel cx s budget = Ok (s', sent, tags, fin) ->
  Z.of_nat (length sent) <= mu cx s /\ mu cx s <= burst_bound cx s /\
  (burst_bound cx s < Z.of_nat fuel -> fin = true).
Proof.
  intros fuel cx s budget s' sent tags fin Hb H. unfold iface_poll_egress in H.
  destruct (poll_egress_acc_bound _ _ _ _ _ _ _ _ _ _ (or_intror Hb) H) as (k & Hk1 & Hk2 & Hk3).
  cbn [length] in Hk1. pose proof (mu_bounds cx s Hb) as (_ & Hub).
  split; [lia|]. split; [exact Hub|]. intros X. apply Hk3. lia.
Qed.

(* ------------------------------------------------------------------------------------------ *)
(* ingress cannot loop either: one segment, at most one reply                                    *)
(* ------------------------------------------------------------------------------------------ *)
Definition replies (o : option packet) : list packet := match o with Some p => [p] | None => [] end.

Theorem tcp_ingress_reply_bounded : forall cx s ip r s' reply tags,
  iface_tcp_ingress cx s ip r = Ok (s', reply, tags) ->
  (length (replies reply) <= 1)%nat /\
  forall p, reply = Some p ->
    r_payload (snd p) = [] /\ (r_control (snd p) = CNone \/ r_control (snd p) = CRst).
Proof.
  intros cx s ip r s' reply tags H. split; [destruct reply; cbn; lia|].
  intros p ->. exact (ingress_reply_no_data _ _ _ _ _ _ _ H).
Qed.
