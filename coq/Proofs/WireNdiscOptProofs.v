(* Lemmas about Model/WireNdiscOpt.v (properties C06, C07): NDISC options. *)
From SV Require Import Lib.Base Gen.WireFields Model.WireBase Model.WireIpv6 Model.WireNdiscOpt
  Proofs.WireBaseProofs Proofs.Wire2Kit Proofs.WireIpv6Proofs.

(* ---------- list / slice helpers (pre ++ mid ++ post) ---------- *)

Lemma ndopt_firstn_app (x y : list Z) n : n = blen x -> firstn (Z.to_nat n) (x ++ y) = x.
Proof.
  intros ->. unfold blen. rewrite Nat2Z.id, firstn_app, firstn_all.
  replace (length x - length x)%nat with 0%nat by lia. cbn [firstn]. apply app_nil_r.
Qed.

Lemma ndopt_skipn_app (x y : list Z) n : n = blen x -> skipn (Z.to_nat n) (x ++ y) = y.
Proof.
  intros ->. unfold blen. rewrite Nat2Z.id, skipn_app, skipn_all.
  replace (length x - length x)%nat with 0%nat by lia. reflexivity.
Qed.

Lemma ndopt_sub_mid pre mid post lo hi : lo = blen pre -> hi = lo + blen mid ->
  wb_sub (pre ++ mid ++ post) lo hi = Ok mid.
Proof.
  intros -> ->. pose proof (blen_nonneg pre). pose proof (blen_nonneg mid).
  rewrite wb_sub_app_r by lia. rewrite wb_sub_app_l by lia.
  replace (blen pre - blen pre) with 0 by lia. replace (blen pre + blen mid - blen pre) with (0 + blen mid) by lia.
  rewrite <- (app_nil_l mid) at 1. apply wb_sub_tail; reflexivity.
Qed.

Lemma ndopt_set_slice_mid pre mid post lo hi v : lo = blen pre -> hi = lo + blen mid -> blen v = blen mid ->
  wb_set_slice (pre ++ mid ++ post) lo hi v = Ok (pre ++ v ++ post).
Proof.
  intros -> -> Hv. pose proof (blen_nonneg pre). pose proof (blen_nonneg mid). pose proof (blen_nonneg post).
  unfold wb_set_slice. rewrite !blen_app. zbool. f_equal.
  rewrite ndopt_firstn_app by reflexivity. f_equal. f_equal.
  rewrite app_assoc. apply ndopt_skipn_app. rewrite blen_app. reflexivity.
Qed.

Lemma ndopt_upto_app x y n : n = blen x -> wb_upto (x ++ y) n = Ok x.
Proof. intros ->. rewrite wb_upto_app_l by lia. apply wb_upto_all. Qed.

(* data_mut()[from..] on an option laid out as  hd(2) ++ gap(from) ++ mid ++ post  with
   length field l, 8 * l = |hd ++ gap ++ mid| *)
Lemma ndopt_on_data_from_split bs hd gap mid post from l f :
  bs = hd ++ gap ++ mid ++ post -> wb_get_u8 bs 1 = Ok l ->
  blen hd = 2 -> blen gap = from -> 2 + from + blen mid = l * 8 ->
  ndopt_on_data_from bs from f = do s' <- f mid; Ok ((hd ++ gap) ++ s' ++ post).
Proof.
  intros -> Hl Hh Hg Hm. pose proof (blen_nonneg gap). pose proof (blen_nonneg mid).
  unfold ndopt_on_data_from, ndopt_data_len. change wndiscopt_f_LENGTH with 1. rewrite Hl. cbn [obind].
  unfold wb_field, ndopt_f_DATA. cbn [fst snd].
  rewrite (app_assoc gap mid post).
  rewrite (ndopt_sub_mid hd (gap ++ mid) post) by (rewrite ?blen_app; lia). cbn [obind].
  rewrite (wb_from_tail gap mid from) by lia. cbn [obind].
  destruct (f mid); cbn [obind]; try reflexivity. f_equal.
  rewrite <- (app_assoc gap mid post).
  rewrite (app_assoc hd gap (mid ++ post)).
  rewrite (ndopt_firstn_app (hd ++ gap)) by (rewrite blen_app; lia). f_equal. f_equal.
  rewrite (app_assoc (hd ++ gap) mid post). apply ndopt_skipn_app. rewrite !blen_app. lia.
Qed.

Ltac on_data_split hd gap mid post l :=
  match goal with
  | |- context [ndopt_on_data_from ?bs ?from ?f] =>
      rewrite (ndopt_on_data_from_split bs hd gap mid post from l f)
  end.

(* ---------- the octets emit produces ---------- *)

Definition ndopt_pad (used : Z) : list Z := repeat 0 (Z.to_nat (ndopt_div_ceil8 used * 8 - used)).

Definition ndopt_lladdr_bytes (ty : Z) (a : list Z) : list Z :=
  [ty; ndopt_div_ceil8 (blen a + 2)] ++ a ++ ndopt_pad (blen a + 2).

Definition ndopt_bytes (r : ndopt_repr) : list Z :=
  match r with
  | NdSourceLL a => ndopt_lladdr_bytes ndopt_T_SLLA a
  | NdTargetLL a => ndopt_lladdr_bytes ndopt_T_TLLA a
  | NdPrefixInfo p =>
      [ndopt_T_PREFIX; 4; ndpi_prefix_len p; ndpi_flags p] ++ be_enc4 (ndpi_valid p) ++
      be_enc4 (ndpi_preferred p) ++ [0; 0; 0; 0] ++ ndpi_prefix p
  | NdRedirected h =>
      [ndopt_T_REDIR; ndopt_div_ceil8 (48 + blen (ndrh_data h)); 0; 0; 0; 0; 0; 0] ++
      ipv6_bytes (ndrh_header h) ++ ndrh_data h ++ ndopt_pad (48 + blen (ndrh_data h))
  | NdMtu m => [ndopt_T_MTU; 1; 0; 0] ++ be_enc4 m
  | NdUnknown t l d => [t; l] ++ d
  end.

Lemma ndopt_pad_len used : 0 <= used -> blen (ndopt_pad used) = ndopt_div_ceil8 used * 8 - used.
Proof. intros. unfold ndopt_pad, ndopt_div_ceil8. rewrite blen_repeat. lia. Qed.

Lemma ndopt_bytes_len r : ndopt_wf r = true -> blen (ndopt_bytes r) = ndopt_buffer_len r.
Proof.
  destruct r as [a|a|p|h|m|t l d]; cbn [ndopt_wf ndopt_bytes ndopt_buffer_len]; intros Hwf.
  - unfold ndopt_lladdr_ok in Hwf. bsplit. unfold ndopt_lladdr_bytes. pose proof (blen_nonneg a).
    autorewrite with blen. rewrite ndopt_pad_len by lia. unfold ndopt_div_ceil8. lia.
  - unfold ndopt_lladdr_ok in Hwf. bsplit. unfold ndopt_lladdr_bytes. pose proof (blen_nonneg a).
    autorewrite with blen. rewrite ndopt_pad_len by lia. unfold ndopt_div_ceil8. lia.
  - unfold ndopt_prefix_info_wf in Hwf. bsplit. autorewrite with blen. unfold be_enc4. autorewrite with blen.
    zfold. lia.
  - unfold ndopt_redirected_wf in Hwf. bsplit. pose proof (blen_nonneg (ndrh_data h)).
    autorewrite with blen. rewrite ndopt_pad_len by lia. rewrite ipv6_bytes_len by assumption.
    unfold ipv6_buffer_len, ndopt_div_ceil8. zfold. lia.
  - reflexivity.
  - bsplit. autorewrite with blen. unfold ndopt_f_DATA. cbn [snd]. lia.
Qed.

(* ---------- C06: emit ---------- *)

Lemma ndopt_zero_spec s : ndopt_zero s = Ok (repeat 0 (length s)).
Proof. reflexivity. Qed.

Lemma ndopt_emit_lladdr_tail ty a h t : ndopt_lladdr_ok a = true ->
  blen h = ndopt_div_ceil8 (2 + blen a) * 8 ->
  ndopt_emit_lladdr ty a (h ++ t) = Ok (ndopt_lladdr_bytes ty a ++ t).
Proof.
  unfold ndopt_lladdr_ok. intros Hwf Hb. bsplit.
  unfold ndopt_emit_lladdr, ndopt_lladdr_bytes, ndopt_set_option_type, ndopt_set_data_len,
    ndopt_set_link_layer_addr, ndopt_pad.
  match goal with H : _ || _ = true |- _ => apply orb_prop in H; destruct H as [La|La] end; bsplit;
    rewrite La in *; unfold ndopt_div_ceil8 in *; zfold_in Hb; zfold.
  - apply (blen_length _ 8) in Hb. apply (blen_length _ 6) in La. cells Hb. cells La.
    hstep. hstep. hstep.
    on_data_split [ty; 1] [c7; c8; c9; c10; c11; c12] (@nil Z) t 1;
      [ | reflexivity | hstep; reflexivity | reflexivity | reflexivity | reflexivity ].
    reflexivity.
  - apply (blen_length _ 16) in Hb. apply (blen_length _ 8) in La. cells Hb. cells La.
    hstep. hstep. hstep.
    on_data_split [ty; 2] [c15; c16; c17; c18; c19; c20; c21; c22] [c9; c10; c11; c12; c13; c14] t 2;
      [ | reflexivity | hstep; reflexivity | reflexivity | reflexivity | reflexivity ].
    reflexivity.
Qed.

Lemma ndopt_emit_prefix_tail p h t : ndopt_prefix_info_wf p = true -> blen h = 32 ->
  ndopt_emit (NdPrefixInfo p) (h ++ t) = Ok (ndopt_bytes (NdPrefixInfo p) ++ t).
Proof.
  unfold ndopt_prefix_info_wf. intros Hwf Hb. bsplit.
  destruct p as [pl fl vl pf px]; cbn [ndpi_prefix_len ndpi_flags ndpi_valid ndpi_preferred ndpi_prefix] in *.
  apply (blen_length _ 32) in Hb.
  match goal with H : blen px = 16 |- _ => apply (blen_length _ 16) in H; rename H into Lp end.
  cells Hb. cells Lp.
  cbn [ndopt_emit ndopt_bytes ndpi_prefix_len ndpi_flags ndpi_valid ndpi_preferred ndpi_prefix].
  unfold ndopt_clear_prefix_reserved, ndopt_set_option_type, ndopt_set_data_len, ndopt_set_prefix_len,
    ndopt_set_prefix_flags, ndopt_set_valid_lifetime, ndopt_set_preferred_lifetime, ndopt_set_prefix,
    wb_put_u32, wb_set_field.
  rewrite (Z.mod_small vl) by lia. rewrite (Z.mod_small pf) by lia.
  hstep. hstep. hstep. hstep. hstep. hstep. hstep. hstep. reflexivity.
Qed.

Lemma ndopt_emit_mtu_tail m h t : blen h = 8 ->
  ndopt_emit (NdMtu m) (h ++ t) = Ok (ndopt_bytes (NdMtu m) ++ t).
Proof.
  intros Hb. apply (blen_length _ 8) in Hb. cells Hb.
  cbn [ndopt_emit ndopt_bytes].
  unfold ndopt_clear_mtu_reserved, ndopt_set_option_type, ndopt_set_data_len, ndopt_set_mtu, wb_put_u32, wb_fill.
  zfold. hstep. hstep. hstep. hstep. reflexivity.
Qed.

Lemma ndopt_emit_unknown_tail ty l d h t :
  1 <= l -> blen d = l * 8 - 2 -> blen h = l * 8 ->
  ndopt_emit (NdUnknown ty l d) (h ++ t) = Ok (ndopt_bytes (NdUnknown ty l d) ++ t).
Proof.
  intros Hl Hd Hb.
  destruct (split_hdr h 2 ltac:(lia)) as (h2 & rest & -> & Hh & Hr). zfold_in Hh. cells Hh.
  cbn [ndopt_emit ndopt_bytes].
  unfold ndopt_set_option_type, ndopt_set_data_len, ndopt_data_len, wb_set_field, ndopt_f_DATA. cbn [fst snd].
  rewrite <- app_assoc.
  hstep. hstep. hstep.
  change ((ty :: l :: nil) ++ rest ++ t) with ([ty; l] ++ rest ++ t).
  rewrite (ndopt_set_slice_mid [ty; l] rest t) by (autorewrite with blen; lia).
  rewrite <- app_assoc. reflexivity.
Qed.

Lemma ndopt_get1 a b rest : wb_get_u8 (a :: b :: rest) 1 = Ok b.
Proof. unfold wb_get_u8. rewrite !blen_cons. pose proof (blen_nonneg rest). zbool. reflexivity. Qed.

Lemma ndopt_redir_len n : 0 <= n <= 1992 ->
  6 <= ndopt_div_ceil8 (48 + n) <= 255 /\ 48 + n <= ndopt_div_ceil8 (48 + n) * 8 < 48 + n + 8.
Proof. unfold ndopt_div_ceil8. lia. Qed.

Lemma ndopt_emit_redir_tail hd h t : ndopt_redirected_wf hd = true ->
  blen h = ndopt_div_ceil8 (48 + blen (ndrh_data hd)) * 8 ->
  ndopt_emit (NdRedirected hd) (h ++ t) = Ok (ndopt_bytes (NdRedirected hd) ++ t).
Proof.
  unfold ndopt_redirected_wf. intros Hwf Hb. destruct hd as [ip data]. cbn [ndrh_header ndrh_data] in *. bsplit.
  pose proof (blen_nonneg data) as Hn0.
  destruct (ndopt_redir_len (blen data) ltac:(lia)) as (HL1 & HL2).
  destruct (split_hdr h 8 ltac:(lia)) as (h8 & r1 & -> & Hh8 & Hr1). zfold_in Hh8.
  destruct (split_hdr r1 40 ltac:(lia)) as (ip40 & r2 & -> & Hip & Hr2). zfold_in Hip.
  destruct (split_hdr r2 (blen data) ltac:(lia)) as (dat & pad & -> & Hdat & Hpad).
  cells Hh8.
  remember (ndopt_div_ceil8 (48 + blen data)) as L eqn:EL.
  cbn [ndopt_emit ndopt_bytes ndrh_header ndrh_data].
  replace (ndopt_div_ceil8 (8 + ipv6_buffer_len ip + blen data) mod 256) with L
    by (unfold ipv6_buffer_len; zfold; replace (8 + 40 + blen data) with (48 + blen data) by lia;
        rewrite <- EL; symmetry; apply Z.mod_small; lia).
  rewrite <- EL.
  unfold ndopt_clear_redirected_reserved, wb_fill, ndopt_set_option_type, ndopt_set_data_len. zfold.
  rewrite <- !app_assoc.
  hstep. hstep. hstep.
  assert (Lip : blen ip40 = 40) by (unfold blen; lia).
  assert (Ldat : blen dat = blen data) by (unfold blen in *; lia).
  assert (Lpad : blen pad = L * 8 - 48 - blen data) by (autorewrite with blen in *; zfold_in Hb; lia).
  clear Hb Hr1 Hr2 Hip Hdat Hpad.
  on_data_split [4; L] [0; 0; 0; 0; 0; 0] (ip40 ++ dat ++ pad) t L;
    [ | cbn [app]; rewrite <- !app_assoc; reflexivity | hstep; reflexivity | reflexivity | reflexivity
      | autorewrite with blen; lia ].
  rewrite ipv6_emit_tail by (try assumption; unfold ipv6_buffer_len; zfold; lia). cbn [obind].
  destruct (ipv6_bytes_accessors ip (dat ++ pad) H) as (_ & _ & _ & Hpl & _).
  unfold ipv6_total_len, ipv6_header_len. rewrite Hpl. cbn [obind]. zfold.
  assert (Lib : blen (ipv6_bytes ip) = 40) by (rewrite ipv6_bytes_len by assumption; unfold ipv6_buffer_len; zfold; reflexivity).
  rewrite (ndopt_set_slice_mid (ipv6_bytes ip) dat pad) by lia. cbn [obind].
  unfold ipv6_buffer_len. zfold.
  on_data_split [4; L] ([0; 0; 0; 0; 0; 0] ++ ipv6_bytes ip ++ data) pad t L;
    [ | cbn [app]; rewrite <- !app_assoc; reflexivity | cbn [app]; apply ndopt_get1 | reflexivity
      | autorewrite with blen; lia | autorewrite with blen; lia ].
  rewrite ndopt_zero_spec. cbn [obind]. f_equal. cbn [app]. rewrite <- !app_assoc. repeat f_equal.
  unfold ndopt_pad. rewrite <- EL. f_equal. unfold blen in *. lia.
Qed.

(* emitting into the front of a longer buffer (what NdiscRepr::emit does: the option view is
   opened on the whole rest of the payload) writes exactly the option and leaves the rest alone *)
Lemma ndopt_emit_tail r h t : ndopt_wf r = true -> blen h = ndopt_buffer_len r ->
  ndopt_emit r (h ++ t) = Ok (ndopt_bytes r ++ t).
Proof.
  destruct r as [a|a|p|hd|m|ty l d]; cbn [ndopt_wf ndopt_buffer_len]; intros Hwf Hb.
  - apply ndopt_emit_lladdr_tail; assumption.
  - apply ndopt_emit_lladdr_tail; assumption.
  - apply ndopt_emit_prefix_tail; [assumption | zfold_in Hb; assumption].
  - apply ndopt_emit_redir_tail; [assumption|]. rewrite Hb. unfold ipv6_buffer_len. zfold.
    replace (8 + 40 + blen (ndrh_data hd)) with (48 + blen (ndrh_data hd)) by lia. reflexivity.
  - apply ndopt_emit_mtu_tail. zfold_in Hb. assumption.
  - bsplit. apply ndopt_emit_unknown_tail; try lia. unfold ndopt_f_DATA in Hb. cbn [snd] in Hb. assumption.
Qed.

Lemma ndopt_emit_spec r b : ndopt_wf r = true -> blen b = ndopt_buffer_len r ->
  ndopt_emit r b = Ok (ndopt_bytes r).
Proof.
  intros Hwf Hb. rewrite <- (app_nil_r b). rewrite ndopt_emit_tail by assumption.
  rewrite app_nil_r. reflexivity.
Qed.

Lemma ndopt_emit_frame r h t : ndopt_wf r = true -> blen h = ndopt_buffer_len r ->
  ndopt_emit r (h ++ t) = omap (fun x => x ++ t) (ndopt_emit r h).
Proof. intros Hwf Hb. rewrite ndopt_emit_tail, ndopt_emit_spec by assumption. reflexivity. Qed.

Lemma ndopt_emit_no_panic r b : ndopt_wf r = true -> blen b = ndopt_buffer_len r -> ndopt_emit r b <> Panic.
Proof. intros; rewrite ndopt_emit_spec by assumption; discriminate. Qed.

Lemma ndopt_emit_ignores_old_bytes r b1 b2 : ndopt_wf r = true ->
  blen b1 = ndopt_buffer_len r -> blen b2 = ndopt_buffer_len r -> ndopt_emit r b1 = ndopt_emit r b2.
Proof. intros; rewrite !ndopt_emit_spec by assumption; reflexivity. Qed.

(* ---------- C06: parse of emitted octets ---------- *)

(* the embedded IPv6 header followed by at least payload_len octets (Proofs/WireIpv6Proofs.v
   states this for exactly payload_len octets) *)
Lemma ndopt_ipv6_parse_rest r rest : ipv6_wf r = true -> ipv6_payload_len r <= blen rest ->
  ipv6_check_len (ipv6_bytes r ++ rest) = Ok tt /\ ipv6_parse (ipv6_bytes r ++ rest) = Ok r.
Proof.
  intros Hwf Hpl. apply ipv6_wf_inv in Hwf. destruct Hwf as (H1 & H2 & _ & _ & Hn & Hh & Hp).
  destruct r as [s d n pl hop]; cbn [ipv6_src ipv6_dst ipv6_hop_limit ipv6_nxt ipv6_payload_len] in *.
  revert Hpl. cells H1. cells H2. intros Hpl.
  unfold ipv6_bytes. cbn [ipv6_src ipv6_dst ipv6_hop_limit ipv6_nxt ipv6_payload_len].
  unfold be_enc2. cbn [app]. refold_tail rest. pose proof (blen_nonneg rest).
  assert (C : ipv6_check_len ([96; 0; 0; 0; (pl / 256) mod 256; pl mod 256; n; hop; c; c0; c1; c2; c3; c4; c5; c6; c7; c8; c9; c10; c11; c12; c13; c14; c15; c16; c17; c18; c19; c20; c21; c22; c23; c24; c25; c26; c27; c28; c29; c30] ++ rest) = Ok tt).
  { unfold ipv6_check_len, ipv6_total_len, ipv6_payload_len_, ipv6_header_len, wb_get_u16. zfold.
    autorewrite with blen. zfold. zbool.
    hstep. rewrite (be_dec_cells2 pl) by lia. zbool. reflexivity. }
  split; [exact C|].
  unfold ipv6_parse. rewrite C. cbn [obind].
  unfold ipv6_payload_len_, ipv6_version,
      ipv6_src_addr, ipv6_dst_addr, ipv6_next_header, ipv6_hop_limit_, wb_get_u16, wb_field. zfold.
  hstep. zfold. cbn [wb_guard obind].
  hstep. hstep. hstep. hstep. rewrite (be_dec_cells2 pl) by lia. 
  unfold wb_arr. autorewrite with blen. zfold. cbn [obind]. hstep. reflexivity.
Qed.

Lemma ndopt_parse_lladdr ty a rest : ndopt_lladdr_ok a = true -> ty = ndopt_T_SLLA \/ ty = ndopt_T_TLLA ->
  ndopt_parse (ndopt_lladdr_bytes ty a ++ rest) =
  Ok (if ty =? ndopt_T_SLLA then NdSourceLL a else NdTargetLL a).
Proof.
  unfold ndopt_lladdr_ok. intros Hwf Hty. bsplit. pose proof (blen_nonneg rest).
  unfold ndopt_lladdr_bytes, ndopt_pad.
  match goal with H : _ || _ = true |- _ => apply orb_prop in H; destruct H as [La|La] end; bsplit;
    rewrite La; unfold ndopt_div_ceil8; zfold.
  - apply (blen_length _ 6) in La. cells La. cbn [repeat app]. refold_tail rest.
    unfold ndopt_parse, ndopt_check_len, ndopt_link_layer_addr, ndopt_option_type, ndopt_data_len, ndopt_f_DATA.
    cbn [snd]. zfold. autorewrite with blen. zfold. zbool.
    hstep. zfold. zbool. hstep.
    destruct Hty as [-> | ->]; zfold; cbn [orb andb obind wb_assert]. all: zfold; cbn [wb_assert obind]; hstep; reflexivity.
  - apply (blen_length _ 8) in La. cells La. cbn [repeat app]. refold_tail rest.
    unfold ndopt_parse, ndopt_check_len, ndopt_link_layer_addr, ndopt_option_type, ndopt_data_len, ndopt_f_DATA.
    cbn [snd]. zfold. autorewrite with blen. zfold. zbool.
    hstep. zfold. zbool. hstep.
    destruct Hty as [-> | ->]; zfold; cbn [orb andb obind wb_assert]; zfold; cbn [wb_assert obind]; hstep; reflexivity.
Qed.

Lemma ndopt_parse_prefix p rest : ndopt_prefix_info_wf p = true ->
  ndopt_parse (ndopt_bytes (NdPrefixInfo p) ++ rest) = Ok (NdPrefixInfo p).
Proof.
  unfold ndopt_prefix_info_wf. intros Hwf. bsplit. pose proof (blen_nonneg rest).
  destruct p as [pl fl vl pf px]; cbn [ndpi_prefix_len ndpi_flags ndpi_valid ndpi_preferred ndpi_prefix] in *.
  match goal with H : blen px = 16 |- _ => apply (blen_length _ 16) in H; rename H into Lp end.
  cells Lp.
  cbn [ndopt_bytes ndpi_prefix_len ndpi_flags ndpi_valid ndpi_preferred ndpi_prefix].
  unfold be_enc4. cbn [app]. refold_tail rest.
  unfold ndopt_parse, ndopt_check_len, ndopt_prefix_len, ndopt_prefix_flags, ndopt_valid_lifetime,
    ndopt_preferred_lifetime, ndopt_prefix, ndopt_option_type, ndopt_data_len, ndopt_f_DATA, wb_get_u32, wb_field.
  cbn [snd]. zfold. autorewrite with blen. zfold. zbool.
  hstep. zfold. zbool. hstep. zfold. cbn [orb andb negb obind].
  hstep. hstep. hstep. hstep. hstep.
  rewrite (be_dec_cells4 vl) by lia. rewrite (be_dec_cells4 pf) by lia.
  unfold wb_arr. autorewrite with blen. zfold. cbn [obind].
  match goal with H : Z.land fl _ = fl |- _ => change ndopt_PREFIX_FLAGS_MASK with 192 in H; rewrite H end.
  zbool. reflexivity.
Qed.

Lemma ndopt_parse_mtu m rest : is_u32 m = true ->
  ndopt_parse (ndopt_bytes (NdMtu m) ++ rest) = Ok (NdMtu m).
Proof.
  intros Hm. bsplit. pose proof (blen_nonneg rest).
  cbn [ndopt_bytes]. unfold be_enc4. cbn [app]. refold_tail rest.
  unfold ndopt_parse, ndopt_check_len, ndopt_mtu, ndopt_option_type, ndopt_data_len, ndopt_f_DATA, wb_get_u32.
  cbn [snd]. zfold. autorewrite with blen. zfold. zbool.
  hstep. zfold. zbool. hstep. zfold. cbn [orb andb negb obind].
  hstep. rewrite (be_dec_cells4 m) by lia. zbool. reflexivity.
Qed.

Lemma ndopt_parse_unknown ty l d rest : ndopt_wf (NdUnknown ty l d) = true ->
  ndopt_parse (ndopt_bytes (NdUnknown ty l d) ++ rest) = Ok (NdUnknown ty l d).
Proof.
  cbn [ndopt_wf]. intros Hwf. bsplit. pose proof (blen_nonneg rest). pose proof (blen_nonneg d).
  cbn [ndopt_bytes]. rewrite <- app_assoc.
  unfold ndopt_parse, ndopt_check_len, ndopt_data, ndopt_option_type, ndopt_data_len, ndopt_f_DATA, wb_field.
  cbn [fst snd]. zfold. autorewrite with blen. zfold. zbool.
  hstep. zbool. hstep.
  match goal with H : ndopt_type_known ty = false |- _ => rewrite H; unfold ndopt_type_known in H end.
  assert (ty < 1 \/ 5 < ty) as Hty.
  { match goal with H : _ && _ = false |- _ => apply andb_false_iff in H; destruct H; bsplit; lia end. }
  unfold ndopt_T_SLLA, ndopt_T_TLLA, ndopt_T_PREFIX, ndopt_T_REDIR, ndopt_T_MTU. zbool. cbn [obind].
  change ((ty :: l :: nil) ++ d ++ rest) with ([ty; l] ++ d ++ rest).
  rewrite (ndopt_sub_mid [ty; l] d rest) by (autorewrite with blen; lia). reflexivity.
Qed.

Lemma ndopt_parse_redir hd rest : ndopt_redirected_wf hd = true ->
  ndopt_parse (ndopt_bytes (NdRedirected hd) ++ rest) = Ok (NdRedirected hd).
Proof.
  unfold ndopt_redirected_wf. intros Hwf. destruct hd as [ip data]. cbn [ndrh_header ndrh_data] in *. bsplit.
  pose proof (blen_nonneg data) as Hn0. pose proof (blen_nonneg rest).
  destruct (ndopt_redir_len (blen data) ltac:(lia)) as (HL1 & HL2).
  cbn [ndopt_bytes ndrh_header ndrh_data].
  pose proof (ndopt_pad_len (48 + blen data) ltac:(lia)) as Lpad.
  remember (ndopt_pad (48 + blen data)) as pad eqn:Epad.
  remember (ndopt_div_ceil8 (48 + blen data)) as L eqn:EL.
  assert (Lib : blen (ipv6_bytes ip) = 40)
    by (rewrite ipv6_bytes_len by assumption; unfold ipv6_buffer_len; zfold; reflexivity).
  rewrite <- !app_assoc.
  unfold ndopt_parse, ndopt_check_len, ndopt_data, ndopt_option_type, ndopt_data_len, ndopt_f_DATA, wb_field.
  cbn [fst snd]. zfold. autorewrite with blen. zfold. rewrite Lib. zbool.
  hstep. zbool. hstep. zfold. cbn [orb andb negb obind]. zbool. cbn [obind].
  change ([4; L; 0; 0; 0; 0; 0; 0] ++ ipv6_bytes ip ++ data ++ pad ++ rest)
    with ([4; L] ++ ([0; 0; 0; 0; 0; 0] ++ ipv6_bytes ip ++ data ++ pad ++ rest)).
  replace ([0; 0; 0; 0; 0; 0] ++ ipv6_bytes ip ++ data ++ pad ++ rest)
    with (([0; 0; 0; 0; 0; 0] ++ ipv6_bytes ip ++ data ++ pad) ++ rest)
    by (rewrite <- !app_assoc; reflexivity).
  rewrite (ndopt_sub_mid [4; L]) by (autorewrite with blen; zfold; lia). cbn [obind].
  rewrite (wb_from_tail [0; 0; 0; 0; 0; 0]) by reflexivity. cbn [obind].
  destruct (ndopt_ipv6_parse_rest ip (data ++ pad)) as (C & P);
    [assumption | autorewrite with blen; lia |].
  rewrite C, P. cbn [obind]. unfold ipv6_buffer_len. zfold.
  rewrite (wb_from_tail (ipv6_bytes ip)) by lia. cbn [obind].
  rewrite ndopt_upto_app by lia. reflexivity.
Qed.

(* the emitted option followed by anything (the following options of an NDISC message) parses back *)
Lemma ndopt_parse_bytes r rest : ndopt_wf r = true -> ndopt_parse (ndopt_bytes r ++ rest) = Ok r.
Proof.
  destruct r as [a|a|p|hd|m|ty l d]; intros Hwf.
  - cbn [ndopt_wf] in Hwf. cbn [ndopt_bytes]. rewrite ndopt_parse_lladdr by (auto). reflexivity.
  - cbn [ndopt_wf] in Hwf. cbn [ndopt_bytes]. rewrite ndopt_parse_lladdr by (auto). reflexivity.
  - apply ndopt_parse_prefix. exact Hwf.
  - apply ndopt_parse_redir. exact Hwf.
  - apply ndopt_parse_mtu. exact Hwf.
  - apply ndopt_parse_unknown. exact Hwf.
Qed.

Lemma ndopt_roundtrip r b : ndopt_wf r = true -> blen b = ndopt_buffer_len r ->
  exists bs, ndopt_emit r b = Ok bs /\ blen bs = ndopt_buffer_len r /\ ndopt_parse bs = Ok r.
Proof.
  intros Hwf Hb. exists (ndopt_bytes r). split; [apply ndopt_emit_spec; assumption|].
  split; [apply ndopt_bytes_len; assumption|].
  rewrite <- (app_nil_r (ndopt_bytes r)). apply ndopt_parse_bytes. assumption.
Qed.

(* ---------- C07 ---------- *)

Lemma ndopt_check_len_total bs : ndopt_check_len bs <> Panic.
Proof.
  unfold ndopt_check_len, ndopt_option_type. zfold.
  destruct (blen bs <? 8) eqn:E; [discriminate|]. bsplit.
  rewrite !wb_get_u8_ok by lia. cbn [obind].
  repeat case_if; discriminate.
Qed.

Lemma ndopt_check_len_inv bs : bytes_ok bs = true -> ndopt_check_len bs = Ok tt ->
  exists t l, wb_get_u8 bs 0 = Ok t /\ wb_get_u8 bs 1 = Ok l /\ 0 <= t < 256 /\ 0 <= l < 256 /\
    8 <= blen bs /\ l * 8 <= blen bs /\ (t = 3 -> 32 <= l * 8) /\ (t = 4 -> 48 <= l * 8).
Proof.
  intros Hb. unfold ndopt_check_len, ndopt_option_type, ndopt_f_DATA, ndopt_type_known. zfold. cbn [snd].
  destruct (blen bs <? 8) eqn:E; [discriminate|]. bsplit.
  rewrite !wb_get_u8_ok by lia. cbn [obind]. zfold.
  pose proof (bytes_ok_byte bs 0 Hb ltac:(lia)) as H0. pose proof (bytes_ok_byte bs 1 Hb ltac:(lia)) as H1.
  zfold_in H0. zfold_in H1.
  set (t := nth 0 bs 0) in *. set (l := nth 1 bs 0) in *.
  destruct (blen bs <? l * 8) eqn:E2; [discriminate|]. bsplit.
  intros Hc. exists t, l. repeat split; try lia.
  - intros ->. revert Hc. unfold ndopt_T_SLLA, ndopt_T_TLLA, ndopt_T_MTU, ndopt_T_PREFIX, ndopt_T_REDIR.
    zfold. cbn [orb andb negb]. destruct (l * 8 >=? 32) eqn:E3; [bsplit; lia | discriminate].
  - intros ->. revert Hc. unfold ndopt_T_SLLA, ndopt_T_TLLA, ndopt_T_MTU, ndopt_T_PREFIX, ndopt_T_REDIR.
    zfold. cbn [orb andb negb]. destruct (l * 8 >=? 48) eqn:E3; [bsplit; lia | discriminate].
Qed.

Lemma ndopt_new_checked_inv bs : bytes_ok bs = true -> ndopt_new_checked bs = Ok tt ->
  exists t l, wb_get_u8 bs 0 = Ok t /\ wb_get_u8 bs 1 = Ok l /\ 0 <= t < 256 /\ 1 <= l < 256 /\
    8 <= blen bs /\ l * 8 <= blen bs /\ (t = 3 -> 32 <= l * 8) /\ (t = 4 -> 48 <= l * 8).
Proof.
  intros Hb. unfold ndopt_new_checked.
  destruct (ndopt_check_len bs) as [[]| |] eqn:E; cbn [obind]; try discriminate.
  destruct (ndopt_check_len_inv bs Hb E) as (t & l & Ht & Hl & Rt & Rl & L8 & Ll & L3 & L4).
  unfold ndopt_data_len. change wndiscopt_f_LENGTH with 1. rewrite Hl. cbn [obind].
  destruct (l =? 0) eqn:E0; [discriminate|]. bsplit. intros _. exists t, l. repeat split; try assumption; lia.
Qed.

(* after new_checked: the generic accessors and the link-layer / MTU accessors never panic (for
   any option type); the prefix-information accessors never panic on a Prefix Information
   option (their own message type: check_len guarantees the 32 octets only for type 3) *)
Lemma ndopt_accessors_safe bs : bytes_ok bs = true -> ndopt_new_checked bs = Ok tt ->
  ndopt_option_type bs <> Panic /\ ndopt_data_len bs <> Panic /\ ndopt_data bs <> Panic /\
  ndopt_link_layer_addr bs <> Panic /\ ndopt_mtu bs <> Panic /\
  (ndopt_option_type bs = Ok ndopt_T_PREFIX ->
   ndopt_prefix_len bs <> Panic /\ ndopt_prefix_flags bs <> Panic /\ ndopt_valid_lifetime bs <> Panic /\
   ndopt_preferred_lifetime bs <> Panic /\ ndopt_prefix bs <> Panic).
Proof.
  intros Hb H. destruct (ndopt_new_checked_inv bs Hb H) as (t & l & Ht & Hl & Rt & Rl & L8 & Ll & L3 & L4).
  unfold ndopt_option_type, ndopt_data_len, ndopt_data, ndopt_link_layer_addr, ndopt_mtu, ndopt_data_len,
    ndopt_prefix_len, ndopt_prefix_flags, ndopt_valid_lifetime, ndopt_preferred_lifetime, ndopt_prefix,
    wb_get_u32, wb_field, ndopt_f_DATA, ndopt_MAX_HW. zfold. cbn [fst snd].
  rewrite Ht, Hl. cbn [obind].
  repeat split; try discriminate.
  - apply wb_sub_nopanic; lia.
  - unfold wb_assert. zbool. cbn [obind]. apply wb_sub_nopanic; lia.
  - apply wb_get_be_nopanic; lia.
  - rewrite wb_get_u8_ok by lia. discriminate.
  - rewrite wb_get_u8_ok by lia. discriminate.
  - apply wb_get_be_nopanic; injection H0 as ->; specialize (L3 eq_refl); lia.
  - apply wb_get_be_nopanic; injection H0 as ->; specialize (L3 eq_refl); lia.
  - injection H0 as ->. specialize (L3 eq_refl). rewrite wb_sub_ok by lia. cbn [obind]. unfold wb_arr.
    rewrite blen_firstn by (rewrite blen_skipn; lia). zbool. discriminate.
Qed.

(* the tail of the Redirected Header branch of parse on the redirected packet [rp] *)
Definition ndopt_parse_redir_tail (rp : list Z) : outcome ndopt_repr :=
  do _ <- ipv6_check_len rp;
  do ip <- ipv6_parse rp;
  do rest <- wb_from rp (ipv6_buffer_len ip);
  do dd <- wb_upto rest (ipv6_payload_len ip);
  Ok (NdRedirected (mkNdRedir ip dd)).

Lemma ndopt_parse_redir_tail_ok rp : bytes_ok rp = true -> blen rp <= 2032 ->
  (exists r, ndopt_parse_redir_tail rp = Ok r /\ ndopt_wf r = true) \/
  (exists e, ndopt_parse_redir_tail rp = Err e).
Proof.
  intros Hb Hlen. unfold ndopt_parse_redir_tail.
  pose proof (ipv6_parse_total rp Hb) as PT.
  destruct (ipv6_check_len rp) as [[]|e|] eqn:C; cbn [obind].
  - destruct (ipv6_check_len_inv rp Hb C) as (l' & Hl' & Rl' & Ll').
    destruct (ipv6_parse rp) as [ip|e|] eqn:P; cbn [obind]; [ | right; eauto | congruence].
    pose proof (ipv6_parse_wf rp ip Hb P) as Hwf.
    assert (Hpl : ipv6_payload_len ip = l').
    { unfold ipv6_parse in P. rewrite C in P. cbn [obind] in P. obind_inv P. injection P as <-.
      cbn [ipv6_payload_len]. congruence. }
    unfold ipv6_buffer_len. zfold. rewrite wb_from_ok by lia. cbn [obind].
    unfold wb_upto. rewrite blen_skipn by lia. rewrite Hpl. zbool. cbn [obind].
    left. eexists. split; [reflexivity|].
    cbn [ndopt_wf]. unfold ndopt_redirected_wf. cbn [ndrh_header ndrh_data].
    rewrite Hwf, Hpl. rewrite bytes_ok_firstn by (apply bytes_ok_skipn; assumption).
    rewrite blen_firstn by (rewrite blen_skipn; lia). zbool. reflexivity.
  - right; eauto.
  - exfalso. apply PT. unfold ipv6_parse. rewrite C. reflexivity.
Qed.

Lemma ndopt_flags_tab : forallb (fun x => is_u8 (Z.land x 192) && (Z.land (Z.land x 192) 192 =? Z.land x 192)) (ztab 256) = true.
Proof. vm_compute. reflexivity. Qed.

Lemma ndopt_lladdr_read bs l : bytes_ok bs = true -> 1 <= l -> l * 8 <= blen bs ->
  exists a, wb_sub bs 2 (Z.min 8 (l * 8 - 2) + 2) = Ok a /\ ndopt_lladdr_ok a = true.
Proof.
  intros Hb Hl Hlen.
  destruct (wb_sub_ok_len bs 2 (Z.min 8 (l * 8 - 2) + 2) ltac:(lia) ltac:(lia)) as (a & Ha & La & Ba).
  exists a. split; [assumption|]. unfold ndopt_lladdr_ok. rewrite (Ba Hb). cbn [andb].
  destruct (Z.eq_dec l 1) as [->|]; [replace (blen a) with 6 by lia | replace (blen a) with 8 by lia]; reflexivity.
Qed.

(* Repr::parse on octets returns a well-formed representation or an error - never panics *)
Lemma ndopt_parse_ok_or_err bs : bytes_ok bs = true ->
  (exists r, ndopt_parse bs = Ok r /\ ndopt_wf r = true) \/ (exists e, ndopt_parse bs = Err e).
Proof.
  intros Hb. unfold ndopt_parse.
  destruct (ndopt_check_len bs) as [[]|e|] eqn:C; cbn [obind];
    [ | right; eauto | exfalso; exact (ndopt_check_len_total bs C) ].
  destruct (ndopt_check_len_inv bs Hb C) as (t & l & Ht & Hl & Rt & Rl & L8 & Ll & L3 & L4).
  unfold ndopt_option_type, ndopt_data_len. zfold. rewrite Ht, Hl. cbn [obind].
  unfold ndopt_T_SLLA, ndopt_T_TLLA, ndopt_T_PREFIX, ndopt_T_REDIR, ndopt_T_MTU.
  destruct (t =? 1) eqn:T1; [|destruct (t =? 2) eqn:T2; [|destruct (t =? 3) eqn:T3;
    [|destruct (t =? 4) eqn:T4; [|destruct (t =? 5) eqn:T5]]]]; bsplit.
  - destruct (l >=? 1) eqn:E; [|right; eauto]. bsplit.
    unfold ndopt_link_layer_addr, ndopt_data_len. zfold. rewrite Hl. cbn [obind]. unfold wb_assert. zbool. cbn [obind].
    destruct (ndopt_lladdr_read bs l Hb ltac:(lia) Ll) as (a & -> & Wa). cbn [obind]. left. eauto.
  - destruct (l >=? 1) eqn:E; [|right; eauto]. bsplit.
    unfold ndopt_link_layer_addr, ndopt_data_len. zfold. rewrite Hl. cbn [obind]. unfold wb_assert. zbool. cbn [obind].
    destruct (ndopt_lladdr_read bs l Hb ltac:(lia) Ll) as (a & -> & Wa). cbn [obind]. left. eauto.
  - destruct (l =? 4) eqn:E; [|right; eauto]. bsplit. subst l. specialize (L3 ltac:(lia)).
    unfold ndopt_prefix_len, ndopt_prefix_flags, ndopt_valid_lifetime, ndopt_preferred_lifetime, ndopt_prefix,
      wb_field. zfold.
    destruct (wb_get_u8_byte bs 2 ltac:(lia) Hb) as (pl & -> & Rpl).
    destruct (wb_get_u8_byte bs 3 ltac:(lia) Hb) as (fl & -> & Rfl). cbn [obind].
    destruct (wb_get_u32_ok' bs wndiscopt_f_VALID_LT) as (vl & -> & Rvl); try (zfold; lia); try assumption.
    destruct (wb_get_u32_ok' bs wndiscopt_f_PREF_LT) as (pf & -> & Rpf); try (zfold; lia); try assumption.
    cbn [obind].
    destruct (wb_sub_ok_len bs 16 32 ltac:(lia) ltac:(lia)) as (px & -> & Lpx & Bpx). cbn [obind].
    unfold wb_arr. rewrite Lpx. zfold. cbn [obind]. left. eexists. split; [reflexivity|].
    cbn [ndopt_wf]. unfold ndopt_prefix_info_wf, ndopt_PREFIX_FLAGS_MASK.
    cbn [ndpi_prefix_len ndpi_flags ndpi_valid ndpi_preferred ndpi_prefix].
    pose proof (tab1 256 _ ndopt_flags_tab fl Rfl) as Tf. cbv beta in Tf. apply andb_prop in Tf. destruct Tf as [Tf1 Tf2].
    rewrite Tf1, Tf2. unfold is_u8, is_u32, is_arr. rewrite Lpx, (Bpx Hb). zbool. reflexivity.
  - destruct (l <? 6) eqn:E; [right; eauto|]. bsplit.
    unfold ndopt_data, ndopt_data_len, wb_field, ndopt_f_DATA. zfold. rewrite Hl. cbn [obind fst snd].
    destruct (wb_sub_ok_len bs 2 (l * 8) ltac:(lia) ltac:(lia)) as (d & -> & Ld & Bd). cbn [obind].
    rewrite wb_from_ok by lia. cbn [obind].
    apply (ndopt_parse_redir_tail_ok (skipn (Z.to_nat 6) d)).
    + apply bytes_ok_skipn, Bd, Hb.
    + rewrite blen_skipn by lia. lia.
  - destruct (l =? 1) eqn:E; [|right; eauto]. bsplit. unfold ndopt_mtu.
    destruct (wb_get_u32_ok' bs wndiscopt_f_MTU) as (m & -> & Rm); try (zfold; lia); try assumption.
    cbn [obind]. left. eexists. split; [reflexivity|]. cbn [ndopt_wf]. unfold is_u32. zbool. reflexivity.
  - destruct (l =? 0) eqn:E; cbn [negb]; [right; eauto|]. bsplit.
    unfold ndopt_data, ndopt_data_len, wb_field, ndopt_f_DATA. zfold. rewrite Hl. cbn [obind fst snd].
    destruct (wb_sub_ok_len bs 2 (l * 8) ltac:(lia) ltac:(lia)) as (d & -> & Ld & Bd). cbn [obind].
    left. eexists. split; [reflexivity|]. cbn [ndopt_wf]. unfold ndopt_type_known, is_u8.
    rewrite (Bd Hb), Ld. zbool.
    destruct (1 <=? t) eqn:A1; [destruct (t <=? 5) eqn:A2|]; bsplit; try reflexivity. exfalso. lia.
Qed.

Lemma ndopt_parse_total bs : bytes_ok bs = true -> ndopt_parse bs <> Panic.
Proof. intros Hb. destruct (ndopt_parse_ok_or_err bs Hb) as [(r & -> & _) | (e & ->)]; discriminate. Qed.

Lemma ndopt_parse_wf bs r : bytes_ok bs = true -> ndopt_parse bs = Ok r -> ndopt_wf r = true.
Proof.
  intros Hb H. destruct (ndopt_parse_ok_or_err bs Hb) as [(r' & H' & W) | (e & H')]; rewrite H in H'.
  - injection H' as ->. exact W.
  - discriminate.
Qed.

Lemma ndopt_reparse bs r : bytes_ok bs = true -> ndopt_parse bs = Ok r ->
  ndopt_wf r = true /\
  forall b, blen b = ndopt_buffer_len r ->
    exists bs', ndopt_emit r b = Ok bs' /\ ndopt_parse bs' = Ok r.
Proof.
  intros Hb H. pose proof (ndopt_parse_wf bs r Hb H) as Hwf. split; [assumption|].
  intros b Hlen. destruct (ndopt_roundtrip r b Hwf Hlen) as (bs' & He & _ & Hp). eauto.
Qed.

(* ---------- facts about emitted options used by the NDISC message proofs ---------- *)

Lemma ndopt_buffer_len_ge8 r : ndopt_wf r = true -> 8 <= ndopt_buffer_len r.
Proof.
  destruct r as [a|a|p|hd|m|ty l d]; cbn [ndopt_wf ndopt_buffer_len]; intros Hwf.
  - pose proof (blen_nonneg a). unfold ndopt_div_ceil8. lia.
  - pose proof (blen_nonneg a). unfold ndopt_div_ceil8. lia.
  - zfold. lia.
  - pose proof (blen_nonneg (ndrh_data hd)). unfold ndopt_div_ceil8, ipv6_buffer_len. zfold. lia.
  - zfold. lia.
  - bsplit. unfold ndopt_f_DATA. cbn [snd]. lia.
Qed.

(* the checked view and the length field of an emitted option followed by anything *)
Lemma ndopt_bytes_head r rest : ndopt_wf r = true ->
  ndopt_new_checked (ndopt_bytes r ++ rest) = Ok tt /\
  exists l, ndopt_data_len (ndopt_bytes r ++ rest) = Ok l /\ l * 8 = ndopt_buffer_len r.
Proof.
  intros Hwf. pose proof (ndopt_parse_bytes r rest Hwf) as P. pose proof (ndopt_buffer_len_ge8 r Hwf) as G.
  assert (C : ndopt_check_len (ndopt_bytes r ++ rest) = Ok tt).
  { unfold ndopt_parse in P. destruct (ndopt_check_len _) as [[]| |]; cbn [obind] in P; try discriminate. reflexivity. }
  assert (D : exists l, ndopt_data_len (ndopt_bytes r ++ rest) = Ok l /\ l * 8 = ndopt_buffer_len r).
  { unfold ndopt_data_len. change wndiscopt_f_LENGTH with 1.
    destruct r as [a|a|p|hd|m|ty l d]; cbn [ndopt_wf ndopt_bytes ndopt_buffer_len] in *.
    - unfold ndopt_lladdr_bytes. cbn [app]. rewrite ndopt_get1. eexists; split; [reflexivity|].
      unfold ndopt_div_ceil8. lia.
    - unfold ndopt_lladdr_bytes. cbn [app]. rewrite ndopt_get1. eexists; split; [reflexivity|].
      unfold ndopt_div_ceil8. lia.
    - cbn [app]. rewrite ndopt_get1. eexists; split; [reflexivity|]. reflexivity.
    - cbn [app]. rewrite ndopt_get1. eexists; split; [reflexivity|].
      unfold ndopt_div_ceil8, ipv6_buffer_len. zfold. lia.
    - cbn [app]. rewrite ndopt_get1. eexists; split; [reflexivity|]. reflexivity.
    - cbn [app]. rewrite ndopt_get1. eexists; split; [reflexivity|]. reflexivity. }
  split; [|exact D]. destruct D as (l & Dl & El).
  unfold ndopt_new_checked. rewrite C, Dl. cbn [obind].
  destruct (l =? 0) eqn:E; [bsplit; lia | reflexivity].
Qed.
