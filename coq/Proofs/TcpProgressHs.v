(* C02 (liveness half), layer 1c: the HANDSHAKE at socket level - what `process` does in LISTEN /
   SYN-SENT / SYN-RECEIVED when the segment is the one the peer of an honest handshake sends:
     process_listen_syn      LISTEN + SYN (no ACK): SYN-RECEIVED, tuple from the segment, ISS = the
                             interface's random number, RCV.NXT = seq + 1, nothing replied
     process_syn_dropped     a SYN without ACK reaching any later state is dropped
     process_synrecv_ack     SYN-RECEIVED + a segment without SYN/FIN/RST acknowledging ISS + 1: never a
                             RST; the socket stays, or becomes ESTABLISHED with SND.UNA = ISS + 1
     process_synsent_synack  SYN-SENT + SYN|ACK acknowledging ISS + 1: ESTABLISHED, RCV.NXT = seq + 1,
                             nothing replied
   All statements are about Model/Tcp.v only. *)
From SV Require Import Lib.Base Gen.Consts.
From SV Require Import Model.Seq32 Model.Assembler Model.TcpBuf Model.TcpTypes Model.Tcp.
From SV Require Import Proofs.AssemblerProofs Proofs.TcpRecvBase Proofs.TcpRecvWindow
  Proofs.TcpRecvPayload Proofs.TcpRecvInv Proofs.TcpRecvProcess.
From SV Require Proofs.TcpSendBase Proofs.TcpRecvDispatch.
From SV Require Import Proofs.TcpProgressFrame Proofs.TcpProgressCtl.

(* ---------------------------------------------------------------------------------------- *)
(* the sequence-number fields that only the transition table and the ACK bookkeeping write   *)
(* ---------------------------------------------------------------------------------------- *)
Definition cpf (s' s : socket) : Prop :=
  s_local_seq_no s' = s_local_seq_no s /\ s_tx_buffer s' = s_tx_buffer s /\
  s_remote_seq_no s' = s_remote_seq_no s /\ s_remote_last_seq s' = s_remote_last_seq s.

Lemma cpf_refl s : cpf s s.
Proof. repeat split. Qed.
Lemma cpf_trans a b c : cpf a b -> cpf b c -> cpf a c.
Proof. intros (A1 & A2 & A3 & A4) (B1 & B2 & B3 & B4). repeat split; congruence. Qed.

Ltac cpf_solve := unfold cpf; rproj; repeat split; reflexivity.

Lemma ack_reply_cpf cx s ip r : cpf (fst (tcp_ack_reply cx s ip r)) s.
Proof. unfold tcp_ack_reply. destruct (tcp_reply ip r) as (ip', reply). cbn [fst]. cpf_solve. Qed.

Lemma challenge_cpf cx s ip r : cpf (fst (tcp_challenge_ack_reply cx s ip r)) s.
Proof.
  unfold tcp_challenge_ack_reply. destruct (cx_now cx <? s_challenge_ack_timer s); [apply cpf_refl|].
  destruct (tcp_ack_reply cx (upd_challenge_ack_timer s (cx_now cx + 1000000)) ip r) as (s1, p) eqn:E.
  cbn [fst]. change s1 with (fst (s1, p)). rewrite <- E.
  eapply cpf_trans; [apply ack_reply_cpf|]. cpf_solve.
Qed.

Lemma window_cpf cx s ip r res :
  tcp_process_window cx s ip r = Ok res ->
  match res with
  | Cont _ (s2, _, _) => cpf s2 s
  | Ret _ s1 _ => cpf s1 s
  end.
Proof.
  unfold tcp_process_window. intros H.
  assert (Hmain :
    (let '(in_window, tg) := tcp_segment_in_window (tcp_window_start s) (tcp_window_end s)
                               (r_seq_number r) (seq_add (r_seq_number r) (l_len (r_payload r))) in
      if in_window then
        let overlap_start := seq_max (tcp_window_start s) (r_seq_number r) in
        let overlap_end := seq_min (tcp_window_end s) (seq_add (r_seq_number r) (l_len (r_payload r))) in
        if negb (seq_le overlap_start overlap_end) then Panic else
        let s := upd_local_rx_last_seq s (Some (r_seq_number r)) in
        do a <- seq_sub overlap_start (r_seq_number r);
        do b <- seq_sub overlap_end (r_seq_number r);
        do payload <- slice_range (r_payload r) a b;
        do off <- seq_sub overlap_start (tcp_window_start s);
        Ok (Cont tg (s, payload, off))
      else if control_eqb (r_control r) CRst then Ok (Ret (tg + 1000) s None)
      else
        let s := if tcp_state_eqb (s_state s) TimeWait
                 then upd_timer s (timer_set_for_close (cx_now cx)) else s in
        if (match r_payload r with [] => false | _ => true end)
           && (match r_control r with CNone | CPsh | CFin => true | _ => false end)
        then let '(s', p) := tcp_ack_reply cx s ip r in Ok (Ret (tg + 2000) s' (Some p))
        else let '(s', p) := tcp_challenge_ack_reply cx s ip r in Ok (Ret (tg + 3000) s' p)) = Ok res ->
    match res with
    | Cont _ (s2, _, _) => cpf s2 s
    | Ret _ s1 _ => cpf s1 s
    end).
  { clear H. intros H. cbv zeta in H.
    destruct (tcp_segment_in_window _ _ _ _) as (inw, tg).
    destruct inw.
    - destruct (negb (seq_le _ _)); [discriminate|].
      repeat (apply obind_ok_inv in H; destruct H as (? & _ & H)).
      inversion H; subst res. cpf_solve.
    - destruct (control_eqb (r_control r) CRst); [inversion H; subst res; apply cpf_refl|].
      set (q := if tcp_state_eqb (s_state s) TimeWait
                then upd_timer s (timer_set_for_close (cx_now cx)) else s) in *.
      assert (Hq : cpf q s) by (unfold q; destruct (tcp_state_eqb (s_state s) TimeWait); cpf_solve).
      clearbody q.
      destruct ((match r_payload r with [] => false | _ => true end)
                && (match r_control r with CNone | CPsh | CFin => true | _ => false end)).
      + pose proof (ack_reply_cpf cx q ip r) as C. destruct (tcp_ack_reply cx q ip r) as (s', p).
        inversion H; subst res. eapply cpf_trans; eassumption.
      + pose proof (challenge_cpf cx q ip r) as C.
        destruct (tcp_challenge_ack_reply cx q ip r) as (s', p).
        inversion H; subst res. eapply cpf_trans; eassumption. }
  destruct (s_state s); try exact (Hmain H); inversion H; subst res; apply cpf_refl.
Qed.

Lemma timers_cpf cx s al aall : cpf (fst (tcp_process_timers cx s al aall)) s.
Proof.
  unfold tcp_process_timers. destruct (s_timer s); try destruct aall; try destruct (al >? 0);
    cbn [fst]; cpf_solve.
Qed.

Lemma zwp_cpf cx s al : cpf (fst (tcp_process_zwp cx s al)) s.
Proof.
  unfold tcp_process_zwp.
  repeat match goal with
  | |- context [if ?c then _ else _] => destruct c
  end; cbn [fst]; cpf_solve.
Qed.

Lemma tsval_cpf s r :
  cpf (match r_timestamp r with Some (tsval, _) => upd_last_remote_tsval s tsval | None => s end) s.
Proof. destruct (r_timestamp r) as [(a, b)|]; cpf_solve. Qed.

Lemma payload_cpf cx s ip r payload off s' rep tg :
  tcp_process_payload cx s ip r payload off = Ok (s', rep, tg) -> cpf s' s.
Proof.
  intros H. unfold tcp_process_payload in H.
  destruct (l_len payload =? 0); [inversion H; subst; apply cpf_refl|].
  destruct (asm_atrf _ _ _ _) as (asm', res).
  destruct res as [contig|]; [|inversion H; subst; apply cpf_refl].
  destruct (rb_write_unallocated _ _ _) as (rx, lw).
  destruct (negb (lw =? l_len payload)); [discriminate|].
  apply obind_ok_inv in H. destruct H as (rx2 & _ & H).
  set (q := upd_rx_buffer (upd_assembler s asm') rx2) in *.
  assert (Cq : cpf q s) by (unfold q; cpf_solve).
  clearbody q.
  match type of H with (let '(_, _) := ?m in _) = _ =>
    assert (Cm : cpf (fst m) q); [|destruct m as (q1, t1)] end.
  { destruct (s_ack_delay q) as [d|]; [|apply cpf_refl].
    destruct (tcp_ack_to_transmit q); [|apply cpf_refl].
    destruct (s_ack_delay_timer q); cbn [fst]; try apply cpf_refl; try cpf_solve.
    destruct (tcp_immediate_ack_to_transmit q); cbn [fst]; [cpf_solve | apply cpf_refl]. }
  cbn [fst] in Cm.
  pose proof (cpf_trans _ _ _ Cm Cq) as Hq1.
  destruct (negb (asm_is_empty (s_assembler q1)) || negb (asm_is_empty (s_assembler s))).
  - pose proof (ack_reply_cpf cx q1 ip r) as Ca. destruct (tcp_ack_reply cx q1 ip r) as (q2, p).
    inversion H; subst s' rep tg. cbn [fst] in Ca. eapply cpf_trans; eassumption.
  - inversion H; subst s' rep tg. exact Hq1.
Qed.

Lemma update_remote_cpf cx s r al s' iwu :
  al <= 0 -> tcp_process_update_remote cx s r al = Ok (s', iwu) -> cpf s' s.
Proof.
  unfold tcp_process_update_remote. intros Hal H.
  destruct (Z.gtb_spec al 0) as [G | G]; [lia|].
  inversion H; subst. cpf_solve.
Qed.

(* the ACK bookkeeping: SND.UNA := the acknowledgement number *)
Lemma dup_ack_fields cx s r al iwu s' tg :
  tcp_process_dup_ack cx s r al iwu = Ok (s', tg) ->
  s_tx_buffer s' = s_tx_buffer s /\ s_remote_seq_no s' = s_remote_seq_no s /\
  match r_ack_number r with
  | None => s_local_seq_no s' = s_local_seq_no s /\ s_remote_last_seq s' = s_remote_last_seq s
  | Some a => s_local_seq_no s' = a /\
              s_remote_last_seq s' = (if seq_lt (s_remote_last_seq s) a then a else s_remote_last_seq s)
  end.
Proof.
  unfold tcp_process_dup_ack. intros H.
  destruct (r_ack_number r) as [a|]; [|inversion H; subst; auto].
  apply obind_ok_inv in H. destruct H as ((s1, tg1) & H1 & H).
  assert (Hf1 : s_tx_buffer s1 = s_tx_buffer s /\ s_remote_seq_no s1 = s_remote_seq_no s /\
                s_remote_last_seq s1 = s_remote_last_seq s).
  { des1 H1.
    - repeat (apply obind_ok_inv in H1; destruct H1 as (? & _ & H1)).
      inversion H1; subst. des_all H1; rproj; auto.
    - repeat (apply obind_ok_inv in H1; destruct H1 as (? & _ & H1)).
      inversion H1; subst. des_all H1; rproj; auto. }
  destruct Hf1 as (F1 & F2 & F3).
  cbv beta iota zeta in H. revert H. rproj. rewrite F3. intros H.
  destruct (seq_lt (s_remote_last_seq s) a); inversion H; subst; rproj; auto.
Qed.

(* ---------------------------------------------------------------------------------------- *)
(* the later phases of `process` as one frame                                                *)
(* ---------------------------------------------------------------------------------------- *)
(* after the transition table, for a segment whose trimmed payload is [payload] and whose ACK moves
   nothing out of the transmit queue *)
Lemma process_tail cx s3 ip r al aall payload off s' rep tags t0 :
  al <= 0 ->
  (do ur <- tcp_process_update_remote cx s3 r al;
   let '(s4, is_window_update) := ur in
   do da <- tcp_process_dup_ack cx s4 r al is_window_update;
   let '(s5, t5) := da in
   let s5 := match r_timestamp r with
             | Some (tsval, _) => upd_last_remote_tsval s5 tsval
             | None => s5
             end in
   let '(s6, t6) := tcp_process_timers cx s5 al aall in
   let '(s7, t7) := tcp_process_zwp cx s6 al in
   do pr <- tcp_process_payload cx s7 ip r payload off;
   let '(s8, reply, t8) := pr in
   Ok (s8, reply, t0 ++ [t5; t6; t7; t8])) = Ok (s', rep, tags) ->
  stf s' s3 /\ s_tx_buffer s' = s_tx_buffer s3 /\ s_remote_seq_no s' = s_remote_seq_no s3 /\
  match r_ack_number r with
  | None => s_local_seq_no s' = s_local_seq_no s3 /\ s_remote_last_seq s' = s_remote_last_seq s3
  | Some a => s_local_seq_no s' = a /\
              s_remote_last_seq s' = (if seq_lt (s_remote_last_seq s3) a then a else s_remote_last_seq s3)
  end /\
  (payload = [] -> rep = None /\ s_rx_buffer s' = s_rx_buffer s3 /\ s_remote_last_ack s' = s_remote_last_ack s3 /\
                   s_ack_delay_timer s' = s_ack_delay_timer s3) /\
  match rep with Some p => reply_to ip r p /\ ack_shape s' p | None => True end.
Proof.
  intros Hal H.
  apply obind_ok_inv in H. destruct H as ((s4 & wu) & H4 & H).
  pose proof (update_remote_stf _ _ _ _ _ _ H4) as S4.
  pose proof (update_remote_cpf _ _ _ _ _ _ Hal H4) as C4.
  pose proof (update_remote_frame _ _ _ _ _ _ H4) as F4.
  pose proof (update_remote_auxf _ _ _ _ _ _ H4) as (_ & X4).
  apply obind_ok_inv in H. destruct H as ((s5 & t5) & H5 & H).
  pose proof (dup_ack_auxf _ _ _ _ _ _ _ H5) as (_ & X5).
  pose proof (tsval_auxf s5 r) as (_ & X5').
  pose proof (dup_ack_stf _ _ _ _ _ _ _ H5) as S5.
  pose proof (dup_ack_fields _ _ _ _ _ _ _ H5) as (D1 & D2 & D3).
  pose proof (dup_ack_frame _ _ _ _ _ _ _ H5) as F5.
  pose proof (tsval_stf s5 r) as S5'. pose proof (tsval_cpf s5 r) as C5'. pose proof (tsval_frame s5 r) as F5'.
  set (q5 := match r_timestamp r with
             | Some (tsval, _) => upd_last_remote_tsval s5 tsval
             | None => s5
             end) in *. clearbody q5. cbv zeta in H.
  pose proof (timers_stf cx q5 al aall) as S6. pose proof (timers_cpf cx q5 al aall) as C6.
  pose proof (timers_frame cx q5 al aall) as F6.
  pose proof (timers_auxf cx q5 al aall) as (_ & X6).
  destruct (tcp_process_timers cx q5 al aall) as (s6, t6). cbn [fst] in S6, C6, F6, X6.
  pose proof (zwp_stf cx s6 al) as S7. pose proof (zwp_cpf cx s6 al) as C7. pose proof (zwp_frame cx s6 al) as F7.
  pose proof (zwp_auxf cx s6 al) as (_ & X7).
  destruct (tcp_process_zwp cx s6 al) as (s7, t7). cbn [fst] in S7, C7, F7, X7.
  apply obind_ok_inv in H. destruct H as (((s8 & rep8) & t8) & H8 & H).
  pose proof (payload_stf _ _ _ _ _ _ _ _ _ H8) as S8. pose proof (payload_cpf _ _ _ _ _ _ _ _ _ H8) as C8.
  pose proof (payload_ack _ _ _ _ _ _ _ _ _ H8) as R8.
  inversion H; subst s' rep tags; clear H.
  assert (S : stf s8 s3).
  { eapply stf_trans; [exact S8|]. eapply stf_trans; [exact S7|]. eapply stf_trans; [exact S6|].
    eapply stf_trans; [exact S5'|]. eapply stf_trans; [exact S5 | exact S4]. }
  assert (C75 : cpf s7 s5).
  { eapply cpf_trans; [exact C7|]. eapply cpf_trans; [exact C6 | exact C5']. }
  pose proof (cpf_trans _ _ _ C8 C75) as (K1 & K2 & K3 & K4).
  destruct C4 as (L1 & L2 & L3 & L4).
  split; [exact S|]. split; [congruence|]. split; [congruence|].
  split.
  { destruct (r_ack_number r) as [a|].
    - destruct D3 as (E1 & E2). split; [congruence|]. rewrite K4, E2, L4. reflexivity.
    - destruct D3 as (E1 & E2). split; congruence. }
  split.
  { intros ->. rewrite payload_nil in H8. inversion H8; subst s8 rep8 t8.
    split; [reflexivity|].
    pose proof (frame_trans _ _ _ F7 (frame_trans _ _ _ F6 (frame_trans _ _ _ F5' (frame_trans _ _ _ F5 F4)))) as ((_ & Y2 & _ & _ & Y5 & _) & _).
    split; [exact Y2|]. split; [exact Y5|]. congruence. }
  exact R8.
Qed.

(* ---------------------------------------------------------------------------------------- *)
(* LISTEN + SYN                                                                              *)
(* ---------------------------------------------------------------------------------------- *)
Lemma apply_mss_fields s r :
  s_tx_buffer (tcp_apply_mss s r) = s_tx_buffer s /\ s_rx_buffer (tcp_apply_mss s r) = s_rx_buffer s /\
  rt_max_seq_sent (s_rtte (tcp_apply_mss s r)) = rt_max_seq_sent (s_rtte s) /\
  s_local_seq_no (tcp_apply_mss s r) = s_local_seq_no s /\ s_tuple (tcp_apply_mss s r) = s_tuple s /\
  s_ack_delay_timer (tcp_apply_mss s r) = s_ack_delay_timer s.
Proof.
  unfold tcp_apply_mss. destruct (r_max_seg_size r) as [m|]; [destruct (m =? 0)|]; rproj; repeat split; reflexivity.
Qed.

Theorem process_listen_syn cx s ip r s' rep tags :
  s_state s = Listen -> r_control r = CSyn -> r_ack_number r = None ->
  tcp_process cx s ip r = Ok (s', rep, tags) ->
  s_state s' = SynReceived /\
  s_tuple s' = Some (mkTuple (ip_dst ip) (r_dst_port r) (ip_src ip) (r_src_port r)) /\
  s_local_seq_no s' = cx_isn cx /\ s_remote_last_seq s' = cx_isn cx /\
  s_tx_buffer s' = s_tx_buffer s /\
  s_remote_seq_no s' = seq_add (r_seq_number r) 1 /\ s_rx_buffer s' = s_rx_buffer s /\
  s_remote_last_ack s' = None /\ rep = None /\
  rt_max_seq_sent (s_rtte s') = rt_max_seq_sent (s_rtte s).
Proof.
  intros Hst Hc Ha H. unfold tcp_process in H.
  destruct (negb (tcp_accepts s ip r)); [discriminate|].
  unfold tcp_process_ack_check in H. rewrite Hst, Hc, Ha in H. cbn [obind] in H.
  unfold tcp_process_window in H. rewrite Hst in H. cbn [obind] in H.
  unfold tcp_process_ack_len in H. rewrite Ha in H. cbn [obind] in H.
  assert (Hq : tcp_process_quash s r = CSyn).
  { unfold tcp_process_quash, quash_psh. rewrite Hc. reflexivity. }
  rewrite Hq in H.
  unfold tcp_process_transition in H. rewrite Hst in H. cbn [obind] in H.
  destruct (apply_mss_fields s r) as (M1 & M2 & M3 & M4 & M5 & M6).
  revert H M1 M2 M3 M4 M5 M6. generalize (tcp_apply_mss s r). intros q H M1 M2 M3 M4 M5 M6.
  match type of H with context [tcp_process_update_remote cx ?t r 0] => set (s3 := t) in * end.
  assert (P3 : s_state s3 = SynReceived /\
               s_tuple s3 = Some (mkTuple (ip_dst ip) (r_dst_port r) (ip_src ip) (r_src_port r)) /\
               s_local_seq_no s3 = cx_isn cx /\ s_remote_last_seq s3 = cx_isn cx /\
               s_tx_buffer s3 = s_tx_buffer s /\
               s_remote_seq_no s3 = seq_add (r_seq_number r) 1 /\ s_rx_buffer s3 = s_rx_buffer s /\
               s_remote_last_ack s3 = None /\ rt_max_seq_sent (s_rtte s3) = rt_max_seq_sent (s_rtte s)).
  { unfold s3, tcp_set_state. rproj.
    destruct (is_some (r_window_scale r)); destruct (is_some (r_timestamp r)); rproj;
      rewrite ?M1, ?M2, ?M3; repeat split; reflexivity. }
  clearbody s3.
  destruct (process_tail cx s3 ip r 0 false [] 0 s' rep tags [104; 128; 143] ltac:(lia) H)
    as ((T1 & T2 & _ & T4) & T5 & T6 & T7 & T8 & _).
  rewrite Ha in T7. destruct T7 as (T7a & T7b). destruct (T8 eq_refl) as (T8a & T8b & T8c & _).
  destruct P3 as (Q1 & Q2 & Q3 & Q4 & Q5 & Q6 & Q7 & Q8 & Q9).
  repeat split; congruence.
Qed.

(* a SYN without ACK reaching a synchronised (or synchronising) socket is dropped *)
Theorem process_syn_dropped cx s ip r s' rep tags :
  s_state s <> Listen -> s_state s <> SynSent -> r_control r = CSyn -> r_ack_number r = None ->
  tcp_process cx s ip r = Ok (s', rep, tags) -> s' = s /\ rep = None.
Proof.
  intros N1 N2 Hc Ha H. unfold tcp_process in H. destruct (negb (tcp_accepts s ip r)); [discriminate|].
  unfold tcp_process_ack_check in H. rewrite Hc, Ha in H.
  destruct (s_state s); try contradiction; cbn [obind] in H; inversion H; auto.
Qed.

(* ---------------------------------------------------------------------------------------- *)
(* SYN-RECEIVED + ACK of the SYN; SYN-SENT + SYN|ACK                                         *)
(* ---------------------------------------------------------------------------------------- *)
Lemma seq_sdiff_refl a : seq_sdiff a a = 0.
Proof. unfold seq_sdiff. rewrite Z.sub_diag. reflexivity. Qed.

Lemma ack_len_of_syn s r :
  tcp_sent_syn s = true -> tcp_sent_fin s = false ->
  r_control r <> CRst -> r_ack_number r = Some (seq_add (s_local_seq_no s) 1) ->
  exists aall, tcp_process_ack_len s r = Ok (0, false, aall).
Proof.
  intros Hs Hf Hc Ha. unfold tcp_process_ack_len. rewrite Ha, Hs, Hf.
  destruct (control_eqb (r_control r) CRst) eqn:E; [destruct (r_control r); try discriminate; contradiction|].
  cbn [b2z andb]. unfold seq_ge, seq_sub. rewrite seq_sdiff_refl. cbn. eexists. reflexivity.
Qed.

Theorem process_synrecv_ack cx s ip r s' rep tags :
  s_state s = SynReceived -> (r_control r = CNone \/ r_control r = CPsh) ->
  r_ack_number r = Some (seq_add (s_local_seq_no s) 1) ->
  tcp_process cx s ip r = Ok (s', rep, tags) ->
  s_tuple s' = s_tuple s /\ s_tx_buffer s' = s_tx_buffer s /\
  (s_remote_last_ack s <> None -> s_remote_last_ack s' <> None) /\
  rt_max_seq_sent (s_rtte s') = rt_max_seq_sent (s_rtte s) /\
  ((s_state s' = SynReceived /\ s_local_seq_no s' = s_local_seq_no s /\
    fst (tcp_segment_in_window (tcp_window_start s) (tcp_window_end s) (r_seq_number r)
                               (seq_add (r_seq_number r) (l_len (r_payload r)))) = false) \/
   (s_state s' = Established /\ s_local_seq_no s' = seq_add (s_local_seq_no s) 1)) /\
  reply_ack ip r s' rep.
Proof.
  intros Hst Hc Ha H. unfold tcp_process in H.
  destruct (negb (tcp_accepts s ip r)); [discriminate|].
  assert (Hck : tcp_process_ack_check cx s ip r = Ok (Cont 113 tt)).
  { unfold tcp_process_ack_check. rewrite Hst, Ha, Z.eqb_refl. destruct Hc as [-> | ->]; reflexivity. }
  rewrite Hck in H. cbn [obind] in H.
  apply obind_ok_inv in H. destruct H as (p2 & H2 & H).
  pose proof (window_stf _ _ _ _ _ H2) as S2. pose proof (window_cpf _ _ _ _ _ H2) as C2.
  destruct p2 as [t2 ((s2, payload), off)|t2 s2r rep2].
  2:{ inversion H; subst s2r rep2 tags. destruct S2 as (A1 & A2 & A3 & A4). destruct C2 as (B1 & B2 & _).
      repeat (split; [assumption|]). split; [|exact (window_ret_ack _ _ _ _ _ _ _ H2)].
      left. split; [congruence|]. split; [congruence|].
      unfold tcp_process_window in H2. rewrite Hst in H2.
      destruct (tcp_segment_in_window _ _ _ _) as (inw, tg). destruct inw; [|reflexivity].
      destruct (negb (seq_le _ _)); [discriminate|].
      repeat (apply obind_ok_inv in H2; destruct H2 as (? & _ & H2)). discriminate. }
  destruct S2 as (A1 & A2 & A3 & A4). destruct C2 as (B1 & B2 & B3 & B4).
  assert (Hnr : r_control r <> CRst) by (destruct Hc as [-> | ->]; discriminate).
  destruct (ack_len_of_syn s2 r) as (aall & Hal).
  { unfold tcp_sent_syn. rewrite A1, Hst. reflexivity. }
  { unfold tcp_sent_fin. rewrite A1, Hst. reflexivity. }
  { exact Hnr. }
  { rewrite B1. exact Ha. }
  rewrite Hal in H. cbn [obind] in H.
  assert (Hq : tcp_process_quash s2 r = CNone).
  { unfold tcp_process_quash, quash_psh. destruct Hc as [-> | ->]; reflexivity. }
  rewrite Hq in H. unfold tcp_process_transition in H. rewrite A1, Hst in H. cbn [obind] in H.
  destruct (process_tail cx (tcp_set_state s2 Established) ip r 0 aall payload off s' rep tags [113; t2; 144] ltac:(lia) H)
    as ((T1 & T2 & T3 & T4) & T5 & _ & T7 & _ & T9).
  rewrite Ha in T7. destruct T7 as (T7 & _).
  unfold tcp_set_state in *. revert T1 T2 T3 T4 T5. rproj. intros T1 T2 T3 T4 T5.
  split; [congruence|]. split; [congruence|]. split; [auto|]. split; [congruence|].
  split; [right; split; assumption | exact T9].
Qed.

Theorem process_synsent_synack cx s ip r s' rep tags :
  s_state s = SynSent -> r_control r = CSyn ->
  r_ack_number r = Some (seq_add (s_local_seq_no s) 1) ->
  tcp_process cx s ip r = Ok (s', rep, tags) ->
  s_state s' = Established /\ s_tuple s' = s_tuple s /\ s_tx_buffer s' = s_tx_buffer s /\
  s_local_seq_no s' = seq_add (s_local_seq_no s) 1 /\
  s_remote_seq_no s' = seq_add (r_seq_number r) 1 /\ s_rx_buffer s' = s_rx_buffer s /\
  s_remote_last_ack s' = Some (r_seq_number r) /\ rep = None /\
  rt_max_seq_sent (s_rtte s') = rt_max_seq_sent (s_rtte s) /\
  s_remote_last_seq s' = seq_add (s_local_seq_no s) 1 /\ s_ack_delay_timer s' = s_ack_delay_timer s.
Proof.
  intros Hst Hc Ha H. unfold tcp_process in H.
  destruct (negb (tcp_accepts s ip r)); [discriminate|].
  assert (Hck : tcp_process_ack_check cx s ip r = Ok (Cont 106 tt)).
  { unfold tcp_process_ack_check. rewrite Hst, Hc, Ha, Z.eqb_refl. reflexivity. }
  rewrite Hck in H. cbn [obind] in H.
  unfold tcp_process_window in H. rewrite Hst in H. cbn [obind] in H.
  destruct (ack_len_of_syn s r) as (aall & Hal).
  { unfold tcp_sent_syn. rewrite Hst. reflexivity. }
  { unfold tcp_sent_fin. rewrite Hst. reflexivity. }
  { rewrite Hc. discriminate. }
  { exact Ha. }
  rewrite Hal in H. cbn [obind] in H.
  assert (Hq : tcp_process_quash s r = CSyn).
  { unfold tcp_process_quash, quash_psh. rewrite Hc. reflexivity. }
  rewrite Hq in H. unfold tcp_process_transition in H. rewrite Hst, Ha in H. cbn [is_some obind] in H.
  destruct (apply_mss_fields s r) as (M1 & M2 & M3 & M4 & M5 & M6).
  revert H M1 M2 M3 M4 M5 M6. generalize (tcp_apply_mss s r). intros q H M1 M2 M3 M4 M5 M6.
  match type of H with context [tcp_process_update_remote cx ?t r 0] => set (s3 := t) in * end.
  assert (P3 : s_state s3 = Established /\ s_tuple s3 = s_tuple s /\ s_tx_buffer s3 = s_tx_buffer s /\
               s_remote_seq_no s3 = seq_add (r_seq_number r) 1 /\ s_rx_buffer s3 = s_rx_buffer s /\
               s_remote_last_ack s3 = Some (r_seq_number r) /\
               rt_max_seq_sent (s_rtte s3) = rt_max_seq_sent (s_rtte s) /\
               s_remote_last_seq s3 = seq_add (s_local_seq_no s) 1 /\ s_ack_delay_timer s3 = s_ack_delay_timer s).
  { unfold s3, tcp_set_state. rproj.
    destruct (is_some (r_window_scale r)); destruct (is_some (r_timestamp r)); rproj;
      rewrite ?M1, ?M2, ?M3, ?M4, ?M5, ?M6; repeat split; reflexivity. }
  clearbody s3.
  destruct (process_tail cx s3 ip r 0 aall [] 0 s' rep tags [106; 128; 146] ltac:(lia) H)
    as ((T1 & T2 & _ & T4) & T5 & T6 & T7 & T8 & _).
  rewrite Ha in T7. destruct T7 as (T7 & T7b). destruct (T8 eq_refl) as (T8a & T8b & T8c & T8d).
  destruct P3 as (Q1 & Q2 & Q3 & Q4 & Q5 & Q6 & Q7 & Q8 & Q9).
  split; [congruence|]. split; [congruence|]. split; [congruence|]. split; [exact T7|].
  split; [congruence|]. split; [congruence|]. split; [congruence|]. split; [exact T8a|]. split; [congruence|].
  split; [|congruence].
  rewrite T7b, Q8. unfold seq_lt. rewrite seq_sdiff_refl. reflexivity.
Qed.

(* ---------------------------------------------------------------------------------------- *)
(* an ESTABLISHED socket that processes a segment without payload keeps RCV.NXT               *)
(* ---------------------------------------------------------------------------------------- *)
Lemma l_slice_nil a n : l_slice a n [] = [].
Proof. rewrite l_slice_spec. rewrite skipn_nil, firstn_nil. reflexivity. Qed.

Lemma window_ws cx s ip r res :
  tcp_process_window cx s ip r = Ok res ->
  match res with
  | Cont _ (s2, pl, _) => tcp_window_start s2 = tcp_window_start s /\ (r_payload r = [] -> pl = [])
  | Ret _ s1 _ => tcp_window_start s1 = tcp_window_start s
  end.
Proof.
  unfold tcp_process_window. intros H.
  assert (Hmain :
    (let '(in_window, tg) := tcp_segment_in_window (tcp_window_start s) (tcp_window_end s)
                               (r_seq_number r) (seq_add (r_seq_number r) (l_len (r_payload r))) in
      if in_window then
        let overlap_start := seq_max (tcp_window_start s) (r_seq_number r) in
        let overlap_end := seq_min (tcp_window_end s) (seq_add (r_seq_number r) (l_len (r_payload r))) in
        if negb (seq_le overlap_start overlap_end) then Panic else
        let s := upd_local_rx_last_seq s (Some (r_seq_number r)) in
        do a <- seq_sub overlap_start (r_seq_number r);
        do b <- seq_sub overlap_end (r_seq_number r);
        do payload <- slice_range (r_payload r) a b;
        do off <- seq_sub overlap_start (tcp_window_start s);
        Ok (Cont tg (s, payload, off))
      else if control_eqb (r_control r) CRst then Ok (Ret (tg + 1000) s None)
      else
        let s := if tcp_state_eqb (s_state s) TimeWait
                 then upd_timer s (timer_set_for_close (cx_now cx)) else s in
        if (match r_payload r with [] => false | _ => true end)
           && (match r_control r with CNone | CPsh | CFin => true | _ => false end)
        then let '(s', p) := tcp_ack_reply cx s ip r in Ok (Ret (tg + 2000) s' (Some p))
        else let '(s', p) := tcp_challenge_ack_reply cx s ip r in Ok (Ret (tg + 3000) s' p)) = Ok res ->
    match res with
    | Cont _ (s2, pl, _) => tcp_window_start s2 = tcp_window_start s /\ (r_payload r = [] -> pl = [])
    | Ret _ s1 _ => tcp_window_start s1 = tcp_window_start s
    end).
  { clear H. intros H. cbv zeta in H.
    destruct (tcp_segment_in_window _ _ _ _) as (inw, tg).
    destruct inw.
    - destruct (negb (seq_le _ _)); [discriminate|].
      apply obind_ok_inv in H; destruct H as (a & _ & H).
      apply obind_ok_inv in H; destruct H as (b & _ & H).
      apply obind_ok_inv in H; destruct H as (pl & Hpl & H).
      apply obind_ok_inv in H; destruct H as (off & _ & H).
      inversion H; subst res. split; [unfold tcp_window_start; rproj; reflexivity|].
      intros E. rewrite E in Hpl. unfold slice_range in Hpl.
      destruct ((a <=? b) && (b <=? l_len [])); [|discriminate]. inversion Hpl. apply l_slice_nil.
    - destruct (control_eqb (r_control r) CRst); [inversion H; subst res; reflexivity|].
      set (q := if tcp_state_eqb (s_state s) TimeWait
                then upd_timer s (timer_set_for_close (cx_now cx)) else s) in *.
      assert (Hq : tcp_window_start q = tcp_window_start s)
        by (unfold q; destruct (tcp_state_eqb (s_state s) TimeWait); unfold tcp_window_start; rproj; reflexivity).
      clearbody q.
      destruct ((match r_payload r with [] => false | _ => true end)
                && (match r_control r with CNone | CPsh | CFin => true | _ => false end)).
      + destruct (tcp_ack_reply cx q ip r) as (s', p) eqn:E.
        inversion H; subst res. destruct (ack_reply_rxv _ _ _ _ _ _ E) as (Ha & _).
        rewrite (acked_window_start _ _ Ha). exact Hq.
      + destruct (tcp_challenge_ack_reply cx q ip r) as (s', p) eqn:E.
        inversion H; subst res.
        destruct (challenge_ack_reply_rxv _ _ _ _ _ _ E) as (_ & [(Ha & _) | (Ha & _)]).
        * rewrite (rxv_eq_window_start _ _ Ha). exact Hq.
        * rewrite (acked_window_start _ _ Ha). exact Hq. }
  destruct (s_state s); try exact (Hmain H); inversion H; subst res; (split; [reflexivity | reflexivity]).
Qed.

Theorem process_empty_ws cx s ip r s' rep tags :
  s_state s = Established -> r_control r <> CFin -> r_control r <> CRst -> r_payload r = [] ->
  tcp_process cx s ip r = Ok (s', rep, tags) -> tcp_window_start s' = tcp_window_start s.
Proof.
  intros Hst Hf Hr Hp H. unfold tcp_process in H.
  destruct (negb (tcp_accepts s ip r)); [discriminate|].
  apply obind_ok_inv in H. destruct H as (p1 & H1 & H).
  destruct p1 as [t1 []|t1 s1 rep1].
  2:{ inversion H; subst. destruct (ack_check_ret _ _ _ _ _ _ _ H1) as (_ & [E | E] & _).
      - exact (rxv_eq_window_start _ _ E).
      - exact (acked_window_start _ _ E). }
  apply obind_ok_inv in H. destruct H as (p2 & H2 & H).
  pose proof (window_ws _ _ _ _ _ H2) as W2. pose proof (window_stf _ _ _ _ _ H2) as S2.
  destruct p2 as [t2 ((s2, payload), off)|t2 s2r rep2].
  2:{ inversion H; subst. exact W2. }
  destruct W2 as (W2 & Wp). specialize (Wp Hp). subst payload.
  apply obind_ok_inv in H. destruct H as (((al & aof) & aall) & _ & H).
  apply obind_ok_inv in H. destruct H as (p3 & H3 & H).
  assert (Hst2 : s_state s2 = Established) by (destruct S2 as (S2 & _); congruence).
  destruct (transition_est _ _ _ _ _ _ _ _ Hst2 (quash_not_fin_rst s2 r Hf Hr) H3) as [(t3 & ->) | (t3 & ->)].
  2:{ inversion H; subst. exact W2. }
  apply obind_ok_inv in H. destruct H as ((s4 & wu) & H4 & H).
  pose proof (update_remote_frame _ _ _ _ _ _ H4) as F4.
  pose proof (update_remote_auxf _ _ _ _ _ _ H4) as (_ & X4).
  apply obind_ok_inv in H. destruct H as ((s5 & t5) & H5 & H).
  pose proof (dup_ack_auxf _ _ _ _ _ _ _ H5) as (_ & X5).
  pose proof (tsval_auxf s5 r) as (_ & X5').
  pose proof (dup_ack_frame _ _ _ _ _ _ _ H5) as F5.
  pose proof (tsval_frame s5 r) as F5'.
  set (q5 := match r_timestamp r with
             | Some (tsval, _) => upd_last_remote_tsval s5 tsval
             | None => s5
             end) in *. clearbody q5. cbv zeta in H.
  pose proof (timers_frame cx q5 al aall) as F6.
  destruct (tcp_process_timers cx q5 al aall) as (s6, t6). cbn [fst] in F6.
  pose proof (zwp_frame cx s6 al) as F7.
  destruct (tcp_process_zwp cx s6 al) as (s7, t7). cbn [fst] in F7.
  rewrite payload_nil in H. cbn [obind] in H. inversion H; subst s' rep tags.
  pose proof (frame_trans _ _ _ F7 (frame_trans _ _ _ F6 (frame_trans _ _ _ F5' (frame_trans _ _ _ F5 F4)))) as (E & _).
  rewrite (rxv_eq_window_start _ _ E). exact W2.
Qed.
