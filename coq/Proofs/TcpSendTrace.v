(* C05, layer 5: one step of [tcp_step] (any API call, any segment, any dispatch) preserves the
   sender invariant; lift over arbitrary event lists; the property theorems about every emitted
   segment. *)
From SV Require Import Lib.Base Gen.Consts.
From SV Require Import Model.Seq32 Model.Assembler Model.TcpBuf Model.TcpTypes Model.Tcp.
From SV Require Import Proofs.TcpSendBase Proofs.TcpSendInv Proofs.TcpSendAck Proofs.TcpSendProc
                       Proofs.TcpSendApi Proofs.TcpSendDisp Proofs.TcpSendDisp2 Proofs.TcpSendDisp3.

(* a freshly constructed socket (transmit capacity at most 2^30, like the receive capacity the
   source asserts) *)
Lemma new_inv : forall rxs txs cc ts s,
  tcp_new rxs txs cc ts = Ok s -> l_len txs <= 2 ^ 30 -> inv ghost0 s.
Proof.
  intros rxs txs cc ts s H Hcap. unfold tcp_new in H.
  destruct (rb_cap (rb_new rxs) >? 2 ^ 30); [discriminate|]. injection H as <-.
  change ghost0 with (g_fresh 0).
  apply fresh_inv; cbn [s_tx_buffer s_local_seq_no s_remote_last_seq s_remote_win_len
                        s_remote_win_scale s_state s_timer].
  all: first [ apply rb_new_wf | exact Hcap | reflexivity | exact I
             | split; [apply Z.le_refl|reflexivity]
             | unfold max_window; split; [apply Z.le_refl|discriminate] | discriminate ].
Qed.

Definition tx_ev_ok (ev : event) : Prop :=
  match ev with EvSegment ip r => repr_ok r | _ => True end.

Lemma ingress_inv : forall cx g s ip r s' reply tags,
  inv g s -> ctx_ok cx -> repr_ok r ->
  iface_tcp_ingress cx s ip r = Ok (s', reply, tags) ->
  exists g', inv g' s' /\ ghost_rel g g' /\ learned s r s' /\ proc_ghost cx g s r g' s' /\
             (g' = g \/ tcp_accepts s ip r = true).
Proof.
  intros cx g s ip r s' reply tags Hinv Hcx Hr H. unfold iface_tcp_ingress in H.
  assert (Hsame : exists g', inv g' s /\ ghost_rel g g' /\ learned s r s /\ proc_ghost cx g s r g' s /\
                             (g' = g \/ tcp_accepts s ip r = true)).
  { exists g. split; [exact Hinv|]. split; [left; apply same_epoch_refl|].
    split; [apply learned_txv; reflexivity|]. split; [left; reflexivity|left; reflexivity]. }
  destruct (_ || _); [injection H as <- <- <-; exact Hsame|].
  destruct (_ || _); [injection H as <- <- <-; exact Hsame|].
  destruct (tcp_accepts s ip r) eqn:Ea.
  - destruct (process_inv _ _ _ _ _ _ _ _ Hinv Hcx Hr H) as (g' & A & B & C & D).
    exists g'. auto 6.
  - destruct (control_eqb (r_control r) CRst); [injection H as <- <- <-; exact Hsame|].
    destruct (tcp_rst_reply ip r); cbn [obind] in H; try discriminate.
    injection H as <- <- <-. exact Hsame.
Qed.

(* one step, any event *)
Theorem tx_step_inv : forall cx g s ev s' out tags,
  inv g s -> ctx_ok cx -> tx_ev_ok ev ->
  tcp_step cx s ev = Ok (s', out, tags) ->
  exists g', inv g' s' /\ ghost_rel g g'.
Proof.
  intros cx g s ev s' out tags Hinv Hcx Hev H.
  assert (Hsame : forall s0, txv s0 = txv s -> exists g', inv g' s0 /\ ghost_rel g g').
  { intros s0 E. exists g. split; [eapply inv_txv; eassumption|left; apply same_epoch_refl]. }
  destruct ev; cbn [tcp_step tx_ev_ok] in H, Hev.
  - (* listen *)
    destruct (tcp_listen s ep) as [s1|e1|] eqn:E; try discriminate; injection H as <- <- <-.
    + eapply listen_inv; eassumption.
    + apply Hsame. reflexivity.
  - (* connect *)
    destruct (tcp_connect cx s remote_addr remote_port local) as [s1|e1|] eqn:E; try discriminate;
      injection H as <- <- <-.
    + destruct (connect_inv _ _ _ _ _ _ _ Hinv Hcx E) as (Hi & _).
      eexists. split; [exact Hi|apply new_epoch_fresh].
    + apply Hsame. reflexivity.
  - (* close *)
    injection H as <- <- <-. destruct (close_inv g s Hinv) as (g' & Hi & Hse & _).
    exists g'. split; [exact Hi|left; exact Hse].
  - (* abort *)
    injection H as <- <- <-. exists g. split; [apply abort_inv; exact Hinv|left; apply same_epoch_refl].
  - (* send *)
    destruct (tcp_send_slice s data) as [[s1 n]|e1|] eqn:E; try discriminate; injection H as <- <- <-.
    + destruct (send_inv _ _ _ _ _ Hinv E) as (Hi & _).
      eexists. split; [exact Hi|]. left. unfold same_epoch, g_send. cbn [g_iss g_stream g_acked g_hw g_fin].
      split; [reflexivity|]. split; [eexists; reflexivity|]. split; [lia|]. split; [lia|].
      intros G. exfalso.
      destruct (send_inv _ _ _ _ _ Hinv E) as (_ & _ & _ & Hms).
      destruct Hinv as ((_ & _ & _ & _ & _ & _ & _ & _ & _ & Hph & _) & _).
      unfold phase_ok in Hph. unfold tcp_may_send in Hms.
      destruct (g_phase g); destruct (s_state s); try discriminate; try tauto;
        try (destruct Hph as (X & _); congruence); congruence.
    + apply Hsame. reflexivity.
  - (* recv *)
    destruct (tcp_recv_slice s n) as [[s1 l]|e1|] eqn:E; try discriminate; injection H as <- <- <-.
    + apply Hsame. unfold tcp_recv_slice in E.
      destruct (tcp_recv_error_check s); cbn [obind] in E; try discriminate.
      destruct (rb_dequeue_slice (s_rx_buffer s) n). injection E as <- _. reflexivity.
    + apply Hsame. reflexivity.
  - destruct (tcp_peek s n); try discriminate; injection H as <- <- <-; apply Hsame; reflexivity.
  - destruct (tcp_peek_slice s n); try discriminate; injection H as <- <- <-; apply Hsame; reflexivity.
  - injection H as <- <- <-. apply Hsame. reflexivity.
  - (* set_keep_alive: an idle timer stays idle *)
    injection H as <- <- <-. exists g. split; [|left; apply same_epoch_refl].
    unfold tcp_set_keep_alive. destruct (is_some d); [|eapply inv_txv; [|exact Hinv]; reflexivity].
    destruct Hinv as (Htx & Htm). split; [unfold tx_inv; fld; exact Htx|].
    unfold tm_inv, tm_inv_f in *. fld. destruct (s_timer s) as [[k|]| | | |]; exact Htm.
  - injection H as <- <- <-. apply Hsame. reflexivity.
  - injection H as <- <- <-. apply Hsame. reflexivity.
  - (* set_hop_limit *)
    destruct (tcp_set_hop_limit s h) as [s1| |] eqn:E; cbn [obind] in H; try discriminate.
    injection H as <- <- <-. apply Hsame. unfold tcp_set_hop_limit in E.
    destruct h as [[|?|?]|]; try discriminate; injection E as <-; reflexivity.
  - (* segment *)
    destruct (iface_tcp_ingress cx s ip r) as [[[s1 rp] tg]| |] eqn:E; cbn [obind] in H; try discriminate.
    injection H as <- <- <-.
    destruct (ingress_inv _ _ _ _ _ _ _ _ Hinv Hcx Hev E) as (g' & Hi & Hrel & _ & _ & _).
    exists g'. auto.
  - (* dispatch *)
    destruct (tcp_dispatch cx s emit_ok) as [[[s1 rs] tg]| |] eqn:E; cbn [obind] in H; try discriminate.
    injection H as <- <- <-.
    destruct (dispatch_inv _ _ _ _ _ _ _ Hinv Hcx E) as (g1 & s1' & g' & _ & _ & _ & Hi & Hrel & _ & _).
    exists g'. auto.
Qed.

(* ------------------------------------------------------------------------------------------ *)
(* the property theorems: every segment dispatch hands to `emit`                                *)
(* ------------------------------------------------------------------------------------------ *)
Definition disp_pkt (res : dispatch_result) : option packet :=
  match res with DSent p | DEmitFailed p => Some p | DNothing => None end.

(* a keep-alive segment (RFC 1122 4.2.3.6): one garbage octet at SND.NXT - 1; it is not part of
   the stream and is recognisable as such *)
Definition is_keep_alive_seg (s1 : socket) (cx : ctx) (r : tcp_repr) : Prop :=
  r_payload r = [0] /\ r_control r = CNone /\
  r_seq_number r = seq_subn (tcp_send_next_seq s1) 1 /\
  timer_should_keep_alive (s_timer s1) (cx_now cx) = true.

(* the facts about one emitted data-bearing or FIN segment, relative to the ghost and the socket
   BEFORE the dispatch call *)
Definition data_seg_ok (cx : ctx) (g : ghost) (s : socket) (p : packet) : Prop :=
  let r := snd p in
  let n := l_len (r_payload r) in
  exists k,
    (* tx_payload_is_stream *)
    r_seq_number r = sq (g_iss g + 1 + k) /\ g_acked g <= k /\ k + n <= l_len (g_stream g) /\
    r_payload r = l_slice k n (g_stream g) /\
    (* tx_within_window, with the one-byte probe exception *)
    (n = 0 \/ k + n <= g_acked g + s_remote_win_len s \/
     (n = 1 /\ s_remote_win_len s = 0 /\
      exists s1, frame s s1 /\ timer_should_zero_window_probe (s_timer s1) (cx_now cx) = true)) /\
    (* tx_within_mss_mtu *)
    (0 < n -> n <= s_remote_mss s /\ wipv4_HEADER_LEN + ip_payload_len (fst p) <= cx_ip_mtu cx) /\
    (* tx_new_data_contiguous: never starts beyond the highest sequence offset reached so far *)
    1 + k <= g_hw g /\
    (* fin_after_all_data *)
    (r_control r = CFin -> g_fin g = true /\ k + n = l_len (g_stream g)).

Theorem dispatch_segments : forall cx g s e s' res tags p,
  inv g s -> ctx_ok cx -> tcp_dispatch cx s e = Ok (s', res, tags) -> disp_pkt res = Some p ->
  let r := snd p in
  let n := l_len (r_payload r) in
  ((exists s1, frame s s1 /\ is_keep_alive_seg s1 cx r) \/
   (0 < n \/ r_control r = CFin -> data_seg_ok cx g s p) /\
   (* syn_window_unscaled *)
   (r_control r = CSyn -> n = 0 /\ r_seq_number r = sq (g_iss g) /\ g_phase g = PSyn /\
                          r_window_len r = u16_try (rb_window (s_rx_buffer s))) /\
   (r_control r = CRst -> n = 0)) /\
  (* window_scaled_as_negotiated *)
  (r_control r <> CSyn -> r_window_len r = tcp_scaled_window s).
Proof.
  intros cx g s e s' res tags p Hinv Hcx H Hp. cbv zeta.
  destruct (dispatch_inv _ _ _ _ _ _ _ Hinv Hcx H) as (g1 & s1 & g' & Hg1 & Hinv1 & Hfr & _ & _ & _ & Hres).
  assert (Hseg : exists zwp ka, seg_ok cx g1 s1 (snd p) zwp ka /\ ip_payload_len (fst p) = repr_buffer_len (snd p)).
  { destruct res; cbn [disp_pkt] in Hp; try discriminate; injection Hp as <-;
    destruct Hres as (zwp & ka & A & B & _); eauto. }
  clear Hres. destruct Hseg as (zwp & ka & Hok & Hip).
  pose proof Hfr as (F1 & F2 & F3 & F4 & F5 & F6 & F7 & F8 & F9 & F10 & F11).
  assert (Hsw : tcp_scaled_window s1 = tcp_scaled_window s).
  { unfold tcp_scaled_window. rewrite F8, F6. reflexivity. }
  assert (Hgg : g_iss g1 = g_iss g /\ g_stream g1 = g_stream g /\ g_acked g1 = g_acked g /\
                g_phase g1 = g_phase g /\ g_fin g1 = g_fin g /\ g_hw g1 = g_hw g /\ g_una g1 = g_una g).
  { destruct Hg1 as [->| ->]; repeat split; reflexivity. }
  destruct Hgg as (G1 & G2 & G3 & G4 & G5 & G6 & G7).
  destruct Hok as (Hka & Hnka).
  destruct ka.
  - destruct (Hka eq_refl) as (K1 & K2 & K3 & K4 & K5).
    split; [left; exists s1; split; [exact Hfr|repeat split; assumption]|].
    intros _. rewrite K5. exact Hsw.
  - destruct (Hnka eq_refl) as (Hdata & Hsyn & Hrst & Hwin). clear Hka Hnka.
    split.
    + right. split; [|split].
      * intros Hpre. destruct (Hdata Hpre) as (P & Hds & Hhl & off & Hoff & Es & Epl & Hol & Hmss & Hz0 & Hz1 & Hfin).
        pose proof Hinv1 as ((Hwf & Hcap & Ha & Hlen & Hc & Hl & Hr & Hf & Hhw & Hpo & Hw & Hs) & Htm).
        pose proof Hwf as (Hl0 & _).
        unfold data_seg_ok. cbv zeta. exists (g_acked g + off).
        assert (U : g_una g1 = 1 + g_acked g) by (unfold g_una; rewrite P, G3; reflexivity).
        assert (Hoff0 : 0 <= off) by (destruct Hoff; lia).
        split; [rewrite Es, G1, U; f_equal; lia|]. split; [lia|].
        split; [rewrite <- G2, <- Hlen, G3; lia|].
        split; [rewrite <- G2, <- G3; exact Epl|].
        split.
        { destruct zwp.
          - destruct (Hz1 eq_refl) as (Z1 & Z2 & Z3 & Z4).
            pose proof (l_len_nonneg (r_payload (snd p))) as Hn0.
            destruct (Z.eq_dec (l_len (r_payload (snd p))) 0) as [E0|E0]; [left; exact E0|].
            right. right. split; [lia|]. split.
            + destruct Htm as (T1 & _). rewrite <- F3. apply T1.
              unfold timer_should_zero_window_probe in Z4. destruct (s_timer s1); try discriminate. reflexivity.
            + exists s1. split; [exact Hfr|exact Z4].
          - destruct (Hz0 eq_refl) as [E0|E0]; [left; exact E0|]. right. left. rewrite <- F3. lia. }
        split.
        { intros Hn. destruct (eff_mss_bounds (cx_ip_mtu cx) (s_remote_mss s1) (ts_opt s1)) as (_ & B2 & B3).
          { unfold ts_opt. destruct (s_tsval_generator s1); lia. }
          split; [rewrite <- F5; lia|].
          rewrite Hip. unfold repr_buffer_len. rewrite Hhl. specialize (B3 ltac:(lia)). lia. }
        split; [rewrite <- G6; lia|].
        intros Ef. destruct (Hfin Ef) as (E1 & E2). split.
        -- unfold phase_ok in Hpo. rewrite P in Hpo. rewrite <- G5.
           destruct (s_state s1); cbn [fin_state] in E2; try discriminate; tauto.
        -- rewrite <- G2, <- Hlen, G3. lia.
      * intros Ec. destruct (Hsyn Ec) as (N0 & P & _ & Es & Ew & _).
        split; [exact N0|]. split; [|split; [rewrite <- G4; exact P|rewrite Ew, F8; reflexivity]].
        rewrite Es, G1. unfold g_una. rewrite P. f_equal. lia.
      * intros Ec. destruct (Hrst Ec) as (N0 & _). exact N0.
    + intros Hc. destruct (Hwin Hc) as (W1 & _). rewrite W1. exact Hsw.
Qed.

(* the same digest keyed on the model's own keep-alive decision: the branch tag 245 of tcp_dispatch
   is present exactly when dispatch turned the (empty) segment into a keep-alive.  For every
   TRANSMITTED segment without that tag all claims hold - no side condition on the segment. *)
Theorem dispatch_sent_segments : forall cx g s e s' tags p,
  inv g s -> ctx_ok cx -> tcp_dispatch cx s e = Ok (s', DSent p, tags) -> ~ In 245 tags ->
  let r := snd p in
  let n := l_len (r_payload r) in
  ((0 < n \/ r_control r = CFin -> data_seg_ok cx g s p) /\
   (r_control r = CSyn -> n = 0 /\ r_seq_number r = sq (g_iss g) /\ g_phase g = PSyn /\
                          r_window_len r = u16_try (rb_window (s_rx_buffer s))) /\
   (r_control r = CRst -> n = 0)) /\
  (r_control r <> CSyn -> r_window_len r = tcp_scaled_window s).
Proof.
  intros cx g s e s' tags p Hinv Hcx H Hnt. cbv zeta.
  destruct (dispatch_inv_full _ _ _ _ _ _ _ Hinv Hcx H)
    as (g1 & s1 & g' & Hg1 & Hinv1 & Hfr & _ & _ & _ & _ & Hres).
  destruct Hres as (zwp & ka & Hok & Hip & _ & _ & Htag).
  pose proof Hfr as (F1 & F2 & F3 & F4 & F5 & F6 & F7 & F8 & F9 & F10 & F11).
  assert (Hsw : tcp_scaled_window s1 = tcp_scaled_window s).
  { unfold tcp_scaled_window. rewrite F8, F6. reflexivity. }
  assert (Hgg : g_iss g1 = g_iss g /\ g_stream g1 = g_stream g /\ g_acked g1 = g_acked g /\
                g_phase g1 = g_phase g /\ g_fin g1 = g_fin g /\ g_hw g1 = g_hw g /\ g_una g1 = g_una g).
  { destruct Hg1 as [->| ->]; repeat split; reflexivity. }
  destruct Hgg as (G1 & G2 & G3 & G4 & G5 & G6 & G7).
  destruct Hok as (Hka & Hnka).
  destruct ka; [exfalso; exact (Hnt Htag)|].
  revert Hka Hnka. intros Hka Hnka.
  cut True; [intros _|exact I].
  destruct (Hnka eq_refl) as (Hdata & Hsyn & Hrst & Hwin). clear Hka Hnka.
    split.
    + split; [|split].
      * intros Hpre. destruct (Hdata Hpre) as (P & Hds & Hhl & off & Hoff & Es & Epl & Hol & Hmss & Hz0 & Hz1 & Hfin).
        pose proof Hinv1 as ((Hwf & Hcap & Ha & Hlen & Hc & Hl & Hr & Hf & Hhw & Hpo & Hw & Hs) & Htm).
        pose proof Hwf as (Hl0 & _).
        unfold data_seg_ok. cbv zeta. exists (g_acked g + off).
        assert (U : g_una g1 = 1 + g_acked g) by (unfold g_una; rewrite P, G3; reflexivity).
        assert (Hoff0 : 0 <= off) by (destruct Hoff; lia).
        split; [rewrite Es, G1, U; f_equal; lia|]. split; [lia|].
        split; [rewrite <- G2, <- Hlen, G3; lia|].
        split; [rewrite <- G2, <- G3; exact Epl|].
        split.
        { destruct zwp.
          - destruct (Hz1 eq_refl) as (Z1 & Z2 & Z3 & Z4).
            pose proof (l_len_nonneg (r_payload (snd p))) as Hn0.
            destruct (Z.eq_dec (l_len (r_payload (snd p))) 0) as [E0|E0]; [left; exact E0|].
            right. right. split; [lia|]. split.
            + destruct Htm as (T1 & _). rewrite <- F3. apply T1.
              unfold timer_should_zero_window_probe in Z4. destruct (s_timer s1); try discriminate. reflexivity.
            + exists s1. split; [exact Hfr|exact Z4].
          - destruct (Hz0 eq_refl) as [E0|E0]; [left; exact E0|]. right. left. rewrite <- F3. lia. }
        split.
        { intros Hn. destruct (eff_mss_bounds (cx_ip_mtu cx) (s_remote_mss s1) (ts_opt s1)) as (_ & B2 & B3).
          { unfold ts_opt. destruct (s_tsval_generator s1); lia. }
          split; [rewrite <- F5; lia|].
          rewrite Hip. unfold repr_buffer_len. rewrite Hhl. specialize (B3 ltac:(lia)). lia. }
        split; [rewrite <- G6; lia|].
        intros Ef. destruct (Hfin Ef) as (E1 & E2). split.
        -- unfold phase_ok in Hpo. rewrite P in Hpo. rewrite <- G5.
           destruct (s_state s1); cbn [fin_state] in E2; try discriminate; tauto.
        -- rewrite <- G2, <- Hlen, G3. lia.
      * intros Ec. destruct (Hsyn Ec) as (N0 & P & _ & Es & Ew & _).
        split; [exact N0|]. split; [|split; [rewrite <- G4; exact P|rewrite Ew, F8; reflexivity]].
        rewrite Es, G1. unfold g_una. rewrite P. f_equal. lia.
      * intros Ec. destruct (Hrst Ec) as (N0 & _). exact N0.
    + intros Hc. destruct (Hwin Hc) as (W1 & _). rewrite W1. exact Hsw.
Qed.

(* ... and a transmitted data or FIN segment that is not a keep-alive is sent in the data phase *)
Theorem dispatch_sent_phase : forall cx g s e s' tags p,
  inv g s -> ctx_ok cx -> tcp_dispatch cx s e = Ok (s', DSent p, tags) -> ~ In 245 tags ->
  0 < l_len (r_payload (snd p)) \/ r_control (snd p) = CFin -> g_phase g = PData.
Proof.
  intros cx g s e s' tags p Hinv Hcx H Hnt Hpre.
  destruct (dispatch_inv_full _ _ _ _ _ _ _ Hinv Hcx H)
    as (g1 & s1 & g' & Hg1 & _ & _ & _ & _ & _ & _ & Hres).
  destruct Hres as (zwp & ka & (_ & Hnka) & _ & _ & _ & Htag).
  destruct ka; [exfalso; exact (Hnt Htag)|].
  destruct (Hnka eq_refl) as (Hdata & _). destruct (Hdata Hpre) as (P & _).
  destruct Hg1 as [->| ->]; exact P.
Qed.


(* ------------------------------------------------------------------------------------------ *)
(* layer 5: every history                                                                       *)
(* ------------------------------------------------------------------------------------------ *)
Definition seg_claims (cx : ctx) (g : ghost) (s : socket) (p : packet) : Prop :=
  let r := snd p in
  let n := l_len (r_payload r) in
  ((exists s1, frame s s1 /\ is_keep_alive_seg s1 cx r) \/
   (0 < n \/ r_control r = CFin -> data_seg_ok cx g s p) /\
   (r_control r = CSyn -> n = 0 /\ r_seq_number r = sq (g_iss g) /\ g_phase g = PSyn /\
                          r_window_len r = u16_try (rb_window (s_rx_buffer s))) /\
   (r_control r = CRst -> n = 0)) /\
  (r_control r <> CSyn -> r_window_len r = tcp_scaled_window s).

Definition sent_claims (cx : ctx) (g : ghost) (s : socket) (p : packet) : Prop :=
  let r := snd p in
  let n := l_len (r_payload r) in
  ((0 < n \/ r_control r = CFin -> data_seg_ok cx g s p) /\
   (r_control r = CSyn -> n = 0 /\ r_seq_number r = sq (g_iss g) /\ g_phase g = PSyn /\
                          r_window_len r = u16_try (rb_window (s_rx_buffer s))) /\
   (r_control r = CRst -> n = 0)) /\
  (r_control r <> CSyn -> r_window_len r = tcp_scaled_window s).

(* every built segment satisfies [seg_claims]; every TRANSMITTED segment that the model did not
   turn into a keep-alive (branch tag 245 absent) satisfies [sent_claims] unconditionally *)
Definition step_claims (cx : ctx) (g : ghost) (s : socket) (ev : event) (out : step_out)
           (tags : list Z) : Prop :=
  match ev, out with
  | EvDispatch _, ODispatch res =>
      (forall p, disp_pkt res = Some p -> seg_claims cx g s p) /\
      (forall p, res = DSent p -> ~ In 245 tags -> sent_claims cx g s p)
  | _, _ => True
  end.

(* along a history: each step's emitted segment satisfies the claims relative to the ghost of that
   moment, and consecutive ghosts are related by [ghost_rel] (same epoch: same ISS, the stream only
   grows by what send accepted, acked only grows; or a new connection) *)
Fixpoint hist_ok (g : ghost) (s : socket) (evs : list (ctx * event)) : Prop :=
  match evs with
  | [] => True
  | (cx, ev) :: rest =>
      match tcp_step cx s ev with
      | Ok (s', out, tags) =>
          step_claims cx g s ev out tags /\
          exists g', inv g' s' /\ ghost_rel g g' /\ hist_ok g' s' rest
      | _ => True
      end
  end.

Theorem tx_all_histories : forall evs g s,
  inv g s -> Forall (fun ce => ctx_ok (fst ce) /\ tx_ev_ok (snd ce)) evs -> hist_ok g s evs.
Proof.
  induction evs as [|[cx ev] rest IH]; intros g s Hinv Hall; cbn [hist_ok]; [exact I|].
  inversion Hall as [|x l (Hcx & Hev) Hrest]; subst. cbn [fst snd] in Hcx, Hev.
  destruct (tcp_step cx s ev) as [[[s' out] tags]| |] eqn:E; try exact I.
  destruct (tx_step_inv _ _ _ _ _ _ _ Hinv Hcx Hev E) as (g' & Hinv' & Hrel).
  split.
  - unfold step_claims. destruct ev; try exact I. destruct out; try exact I.
    cbn [tcp_step] in E.
    destruct (tcp_dispatch cx s emit_ok) as [[[s1 rs] tg]| |] eqn:Ed; cbn [obind] in E; try discriminate.
    injection E as <- <- <-. split.
    + intros p Hp. exact (dispatch_segments _ _ _ _ _ _ _ _ Hinv Hcx Ed Hp).
    + intros p -> Hnt. exact (dispatch_sent_segments _ _ _ _ _ _ _ Hinv Hcx Ed Hnt).
  - exists g'. split; [exact Hinv'|]. split; [exact Hrel|]. apply IH; assumption.
Qed.

(* "never alters data": within an epoch the stream only grows at its end, so a byte once sent at a
   stream offset is the byte every later (re)transmission carries at that offset *)
Lemma same_epoch_trans : forall a b c, same_epoch a b -> same_epoch b c -> same_epoch a c.
Proof.
  intros a b c (A1 & (m1 & A2) & A3 & A4 & A5) (B1 & (m2 & B2) & B3 & B4 & B5).
  unfold same_epoch. split; [congruence|]. split; [exists (m1 ++ m2); rewrite B2, A2, app_assoc; reflexivity|].
  split; [lia|]. split; [lia|]. intros G. destruct (A5 G) as (G1 & S1). destruct (B5 G1) as (G2 & S2).
  split; [exact G2|congruence].
Qed.

Lemma same_epoch_slice : forall g g' k n, same_epoch g g' -> 0 <= k -> 0 <= n ->
  k + n <= l_len (g_stream g) -> l_slice k n (g_stream g') = l_slice k n (g_stream g).
Proof.
  intros g g' k n (_ & (m & E) & _) Hk Hn Hle. rewrite E. apply znth_ext.
  - rewrite !l_len_slice; try lia. rewrite l_len_app. pose proof (l_len_nonneg m). lia.
  - intros i Hi. rewrite l_len_slice in Hi; [|lia|lia|rewrite l_len_app; pose proof (l_len_nonneg m); lia].
    rewrite !znth_slice by lia. rewrite znth_app by lia.
    destruct (Z.ltb_spec (k + i) (l_len (g_stream g))); [reflexivity|lia].
Qed.

(* running a list of events *)
Fixpoint tcp_run (s : socket) (evs : list (ctx * event)) : outcome (socket * list step_out) :=
  match evs with
  | [] => Ok (s, [])
  | (cx, ev) :: rest =>
      do x <- tcp_step cx s ev;
      let '(s', out, _) := x in
      do y <- tcp_run s' rest;
      let '(s'', outs) := y in
      Ok (s'', out :: outs)
  end.

Theorem tx_invariant_preserved : forall evs g s s' outs,
  inv g s -> Forall (fun ce => ctx_ok (fst ce) /\ tx_ev_ok (snd ce)) evs ->
  tcp_run s evs = Ok (s', outs) -> exists g', inv g' s'.
Proof.
  induction evs as [|[cx ev] rest IH]; intros g s s' outs Hinv Hall H; cbn [tcp_run] in H.
  - injection H as <- <-. eauto.
  - inversion Hall as [|x l (Hcx & Hev) Hrest]; subst. cbn [fst snd] in Hcx, Hev.
    destruct (tcp_step cx s ev) as [[[s1 out] tags]| |] eqn:E; cbn [obind] in H; try discriminate.
    destruct (tx_step_inv _ _ _ _ _ _ _ Hinv Hcx Hev E) as (g1 & Hinv1 & _).
    destruct (tcp_run s1 rest) as [[s2 outs2]| |] eqn:E2; cbn [obind] in H; try discriminate.
    injection H as <- <-. eapply IH; eassumption.
Qed.

(* ------------------------------------------------------------------------------------------ *)
(* non-vacuity: a reachable ESTABLISHED socket with data in flight                              *)
(* ------------------------------------------------------------------------------------------ *)
Definition ex_cx (now : Z) : ctx := mkCtx now 1500 167772161 0 1000.
Definition ex_ip : ip_repr := mkIp 167772162 167772161 64 0.
Definition ex_synack : tcp_repr :=
  mkRepr 80 49500 CSyn 5000 (Some 1001) 30 None (Some 100) false no_sack None [].
Definition ex_ack (a win : Z) : tcp_repr :=
  mkRepr 80 49500 CNone 5001 (Some a) win None None false no_sack None [].
Definition ex_events : list (ctx * event) :=
  [ (ex_cx 0, EvConnect 167772162 80 (mkListenEp None 49500));
    (ex_cx 0, EvDispatch true);                                   (* SYN *)
    (ex_cx 1000, EvSegment ex_ip ex_synack);                      (* SYN|ACK: window 30, MSS 100 *)
    (ex_cx 1000, EvSend [11; 12; 13; 14; 15; 16; 17; 18; 19; 20; 21; 22]);
    (ex_cx 2000, EvDispatch true);                                (* ACK + 12 bytes *)
    (ex_cx 3000, EvSegment ex_ip (ex_ack 1005 4));                (* 4 bytes acked, window shrinks to 4 *)
    (ex_cx 3000, EvSend [23; 24; 25]) ].

Definition ex_dummy : socket :=
  mkSocket Closed timer_new rtte_default asm_new (rb_new []) false (rb_new [])
        None None None (mkListenEp None 0) None
        0 0 0 None 0 0 0 None false 0 None None None 0 false false
        None ADIdle 0 true CcNone false 0.

Definition ex_s0 : socket :=
  Eval vm_compute in
    match tcp_new (repeat 0 64) (repeat 0 16) (CcReno reno_new) false with Ok s => s | _ => ex_dummy end.

Definition ex_s : socket :=
  Eval vm_compute in match tcp_run ex_s0 ex_events with Ok (s, _) => s | _ => ex_dummy end.

Lemma ex_s0_new : tcp_new (repeat 0 64) (repeat 0 16) (CcReno reno_new) false = Ok ex_s0.
Proof. vm_compute. reflexivity. Qed.

Lemma ex_s_run : exists outs, tcp_run ex_s0 ex_events = Ok (ex_s, outs).
Proof. vm_compute. eexists. reflexivity. Qed.

Lemma ex_s_inv : exists g, inv g ex_s.
Proof.
  destruct ex_s_run as (outs & E1).
  eapply (tx_invariant_preserved ex_events ghost0 ex_s0); [| |exact E1].
  - eapply new_inv; [exact ex_s0_new|]. vm_compute. discriminate.
  - unfold ex_events, ex_cx, ctx_ok, tx_ev_ok, repr_ok.
    repeat (constructor; [cbn; repeat split; try exact I; try lia; try (vm_compute; discriminate)|]).
    constructor.
Qed.

Example c05_example :
    s_state ex_s = Established /\ rb_len (s_tx_buffer ex_s) = 11 /\
    s_local_seq_no ex_s = 1005 /\ s_remote_last_seq ex_s = 1013 /\ s_remote_win_len ex_s = 4 /\
    s_remote_mss ex_s = 100 /\
    (exists g, inv g ex_s) /\
    (* 8 bytes are in flight beyond the shrunk window of 4: the next dispatch sends nothing *)
    (exists s' tags, tcp_dispatch (ex_cx 4000) ex_s true = Ok (s', DNothing, tags)) /\
    (* after a retransmission timeout the socket resends exactly the 4 bytes the window admits,
       with the original content *)
    (exists s' p tags, tcp_dispatch (ex_cx 2000000) ex_s true = Ok (s', DSent p, tags) /\
                       r_seq_number (snd p) = 1005 /\ r_payload (snd p) = [15; 16; 17; 18]).
Proof.
  do 6 (split; [vm_compute; reflexivity|]).
  split; [exact ex_s_inv|]. split.
  - vm_compute. do 2 eexists. reflexivity.
  - vm_compute. do 3 eexists. repeat split; reflexivity.
Qed.
