(* C05, layer 5: one step of [tcp_step] (any API call, any segment, any dispatch) preserves the
   sender invariant; lift over arbitrary event lists; the property theorems about every emitted
   segment. *)
From SV Require Import Lib.Base Gen.Consts.
From SV Require Import Model.Seq32 Model.Assembler Model.TcpBuf Model.TcpTypes Model.Tcp.
From SV Require Import Proofs.TcpSendBase Proofs.TcpSendInv Proofs.TcpSendAck Proofs.TcpSendProc
                       Proofs.TcpSendApi Proofs.TcpSendDisp Proofs.TcpSendDisp2 Proofs.TcpSendDisp3.

(* a freshly constructed socket (transmit capacity at most 2^30, like the receive capacity the
   source asserts) *)
Lemma new_inv : forall rxs txs cc ts s,
  tcp_new rxs txs cc ts = Ok s -> l_len txs <= 2 ^ 30 -> inv ghost0 s.
Proof.
  intros rxs txs cc ts s H Hcap. unfold tcp_new in H.
  destruct (rb_cap (rb_new rxs) >? 2 ^ 30); [discriminate|]. injection H as <-.
  change ghost0 with (g_fresh 0).
  apply fresh_inv; cbn [s_tx_buffer s_local_seq_no s_remote_last_seq s_remote_win_len
                        s_remote_win_scale s_state s_timer].
  all: first [ apply rb_new_wf | exact Hcap | reflexivity | exact I
             | split; [apply Z.le_refl|reflexivity]
             | unfold max_window; split; [apply Z.le_refl|discriminate] | discriminate ].
Qed.

Definition tx_ev_ok (ev : event) : Prop :=
  match ev with EvSegment ip r => repr_ok r | _ => True end.

Lemma ingress_inv : forall cx g s ip r s' reply tags,
  inv g s -> ctx_ok cx -> repr_ok r ->
  iface_tcp_ingress cx s ip r = Ok (s', reply, tags) ->
  exists g', inv g' s' /\ ghost_rel g g' /\ learned s r s'.
Proof.
  intros cx g s ip r s' reply tags Hinv Hcx Hr H. unfold iface_tcp_ingress in H.
  assert (Hsame : exists g', inv g' s /\ ghost_rel g g' /\ learned s r s).
  { exists g. split; [exact Hinv|]. split; [left; apply same_epoch_refl|apply learned_txv; reflexivity]. }
  destruct (_ || _); [injection H as <- <- <-; exact Hsame|].
  destruct (_ || _); [injection H as <- <- <-; exact Hsame|].
  destruct (tcp_accepts s ip r); [eapply process_inv; eassumption|].
  destruct (control_eqb (r_control r) CRst); [injection H as <- <- <-; exact Hsame|].
  destruct (tcp_rst_reply ip r); cbn [obind] in H; try discriminate.
  injection H as <- <- <-. exact Hsame.
Qed.

(* one step, any event *)
Theorem tx_step_inv : forall cx g s ev s' out tags,
  inv g s -> ctx_ok cx -> tx_ev_ok ev ->
  tcp_step cx s ev = Ok (s', out, tags) ->
  exists g', inv g' s' /\ ghost_rel g g'.
Proof.
  intros cx g s ev s' out tags Hinv Hcx Hev H.
  assert (Hsame : forall s0, txv s0 = txv s -> exists g', inv g' s0 /\ ghost_rel g g').
  { intros s0 E. exists g. split; [eapply inv_txv; eassumption|left; apply same_epoch_refl]. }
  destruct ev; cbn [tcp_step tx_ev_ok] in H, Hev.
  - (* listen *)
    destruct (tcp_listen s ep) as [s1|e1|] eqn:E; try discriminate; injection H as <- <- <-.
    + eapply listen_inv; eassumption.
    + apply Hsame. reflexivity.
  - (* connect *)
    destruct (tcp_connect cx s remote_addr remote_port local) as [s1|e1|] eqn:E; try discriminate;
      injection H as <- <- <-.
    + destruct (connect_inv _ _ _ _ _ _ _ Hinv Hcx E) as (Hi & _).
      eexists. split; [exact Hi|apply new_epoch_fresh].
    + apply Hsame. reflexivity.
  - (* close *)
    injection H as <- <- <-. destruct (close_inv g s Hinv) as (g' & Hi & Hse & _).
    exists g'. split; [exact Hi|left; exact Hse].
  - (* abort *)
    injection H as <- <- <-. exists g. split; [apply abort_inv; exact Hinv|left; apply same_epoch_refl].
  - (* send *)
    destruct (tcp_send_slice s data) as [[s1 n]|e1|] eqn:E; try discriminate; injection H as <- <- <-.
    + destruct (send_inv _ _ _ _ _ Hinv E) as (Hi & _).
      eexists. split; [exact Hi|]. left. unfold same_epoch, g_send. cbn [g_iss g_stream g_acked g_hw g_fin].
      split; [reflexivity|]. split; [eexists; reflexivity|]. split; [lia|]. split; [lia|].
      intros G. exfalso.
      destruct (send_inv _ _ _ _ _ Hinv E) as (_ & _ & _ & Hms).
      destruct Hinv as ((_ & _ & _ & _ & _ & _ & _ & _ & _ & Hph & _) & _).
      unfold phase_ok in Hph. unfold tcp_may_send in Hms.
      destruct (g_phase g); destruct (s_state s); try discriminate; try tauto;
        try (destruct Hph as (X & _); congruence); congruence.
    + apply Hsame. reflexivity.
  - (* recv *)
    destruct (tcp_recv_slice s n) as [[s1 l]|e1|] eqn:E; try discriminate; injection H as <- <- <-.
    + apply Hsame. unfold tcp_recv_slice in E.
      destruct (tcp_recv_error_check s); cbn [obind] in E; try discriminate.
      destruct (rb_dequeue_slice (s_rx_buffer s) n). injection E as <- _. reflexivity.
    + apply Hsame. reflexivity.
  - destruct (tcp_peek s n); try discriminate; injection H as <- <- <-; apply Hsame; reflexivity.
  - destruct (tcp_peek_slice s n); try discriminate; injection H as <- <- <-; apply Hsame; reflexivity.
  - injection H as <- <- <-. apply Hsame. reflexivity.
  - (* set_keep_alive: an idle timer stays idle *)
    injection H as <- <- <-. exists g. split; [|left; apply same_epoch_refl].
    unfold tcp_set_keep_alive. destruct (is_some d); [|eapply inv_txv; [|exact Hinv]; reflexivity].
    destruct Hinv as (Htx & Htm). split; [unfold tx_inv; fld; exact Htx|].
    unfold tm_inv, tm_inv_f in *. fld. destruct (s_timer s) as [[k|]| | | |]; exact Htm.
  - injection H as <- <- <-. apply Hsame. reflexivity.
  - injection H as <- <- <-. apply Hsame. reflexivity.
  - (* set_hop_limit *)
    destruct (tcp_set_hop_limit s h) as [s1| |] eqn:E; cbn [obind] in H; try discriminate.
    injection H as <- <- <-. apply Hsame. unfold tcp_set_hop_limit in E.
    destruct h as [[|?|?]|]; try discriminate; injection E as <-; reflexivity.
  - (* segment *)
    destruct (iface_tcp_ingress cx s ip r) as [[[s1 rp] tg]| |] eqn:E; cbn [obind] in H; try discriminate.
    injection H as <- <- <-.
    destruct (ingress_inv _ _ _ _ _ _ _ _ Hinv Hcx Hev E) as (g' & Hi & Hrel & _).
    exists g'. auto.
  - (* dispatch *)
    destruct (tcp_dispatch cx s emit_ok) as [[[s1 rs] tg]| |] eqn:E; cbn [obind] in H; try discriminate.
    injection H as <- <- <-.
    destruct (dispatch_inv _ _ _ _ _ _ _ Hinv Hcx E) as (g1 & s1' & g' & _ & _ & _ & Hi & Hrel & _).
    exists g'. auto.
Qed.

(* ------------------------------------------------------------------------------------------ *)
(* the property theorems: every segment dispatch hands to `emit`                                *)
(* ------------------------------------------------------------------------------------------ *)
Definition disp_pkt (res : dispatch_result) : option packet :=
  match res with DSent p | DEmitFailed p => Some p | DNothing => None end.

(* a keep-alive segment (RFC 1122 4.2.3.6): one garbage octet at SND.NXT - 1; it is not part of
   the stream and is recognisable as such *)
Definition is_keep_alive_seg (s1 : socket) (cx : ctx) (r : tcp_repr) : Prop :=
  r_payload r = [0] /\ r_control r = CNone /\
  r_seq_number r = seq_subn (tcp_send_next_seq s1) 1 /\
  timer_should_keep_alive (s_timer s1) (cx_now cx) = true.

(* the facts about one emitted data-bearing or FIN segment, relative to the ghost and the socket
   BEFORE the dispatch call *)
Definition data_seg_ok (cx : ctx) (g : ghost) (s : socket) (p : packet) : Prop :=
  let r := snd p in
  let n := l_len (r_payload r) in
  exists k,
    (* tx_payload_is_stream *)
    r_seq_number r = sq (g_iss g + 1 + k) /\ g_acked g <= k /\ k + n <= l_len (g_stream g) /\
    r_payload r = l_slice k n (g_stream g) /\
    (* tx_within_window, with the one-byte probe exception *)
    (n = 0 \/ k + n <= g_acked g + s_remote_win_len s \/
     (n = 1 /\ s_remote_win_len s = 0 /\
      exists s1, frame s s1 /\ timer_should_zero_window_probe (s_timer s1) (cx_now cx) = true)) /\
    (* tx_within_mss_mtu *)
    (0 < n -> n <= s_remote_mss s /\ wipv4_HEADER_LEN + ip_payload_len (fst p) <= cx_ip_mtu cx) /\
    (* tx_new_data_contiguous: never starts beyond the highest sequence offset reached so far *)
    1 + k <= g_hw g /\
    (* fin_after_all_data *)
    (r_control r = CFin -> g_fin g = true /\ k + n = l_len (g_stream g)).

Theorem dispatch_segments : forall cx g s e s' res tags p,
  inv g s -> ctx_ok cx -> tcp_dispatch cx s e = Ok (s', res, tags) -> disp_pkt res = Some p ->
  let r := snd p in
  let n := l_len (r_payload r) in
  ((exists s1, frame s s1 /\ is_keep_alive_seg s1 cx r) \/
   (0 < n \/ r_control r = CFin -> data_seg_ok cx g s p) /\
   (* syn_window_unscaled *)
   (r_control r = CSyn -> n = 0 /\ r_seq_number r = sq (g_iss g) /\ g_phase g = PSyn /\
                          r_window_len r = u16_try (rb_window (s_rx_buffer s))) /\
   (r_control r = CRst -> n = 0)) /\
  (* window_scaled_as_negotiated *)
  (r_control r <> CSyn -> r_window_len r = tcp_scaled_window s).
Proof.
  intros cx g s e s' res tags p Hinv Hcx H Hp. cbv zeta.
  destruct (dispatch_inv _ _ _ _ _ _ _ Hinv Hcx H) as (g1 & s1 & g' & Hg1 & Hinv1 & Hfr & _ & _ & Hres).
  assert (Hseg : exists zwp ka, seg_ok cx g1 s1 (snd p) zwp ka /\ ip_payload_len (fst p) = repr_buffer_len (snd p)).
  { destruct res; cbn [disp_pkt] in Hp; try discriminate; injection Hp as <-;
    destruct Hres as (zwp & ka & A & B & _); eauto. }
  clear Hres. destruct Hseg as (zwp & ka & Hok & Hip).
  pose proof Hfr as (F1 & F2 & F3 & F4 & F5 & F6 & F7 & F8 & F9 & F10 & F11).
  assert (Hsw : tcp_scaled_window s1 = tcp_scaled_window s).
  { unfold tcp_scaled_window. rewrite F8, F6. reflexivity. }
  assert (Hgg : g_iss g1 = g_iss g /\ g_stream g1 = g_stream g /\ g_acked g1 = g_acked g /\
                g_phase g1 = g_phase g /\ g_fin g1 = g_fin g /\ g_hw g1 = g_hw g /\ g_una g1 = g_una g).
  { destruct Hg1 as [->| ->]; repeat split; reflexivity. }
  destruct Hgg as (G1 & G2 & G3 & G4 & G5 & G6 & G7).
  destruct Hok as (Hka & Hnka).
  destruct ka.
  - destruct (Hka eq_refl) as (K1 & K2 & K3 & K4 & K5).
    split; [left; exists s1; split; [exact Hfr|repeat split; assumption]|].
    intros _. rewrite K5. exact Hsw.
  - destruct (Hnka eq_refl) as (Hdata & Hsyn & Hrst & Hwin). clear Hka Hnka.
    split.
    + right. split; [|split].
      * intros Hpre. destruct (Hdata Hpre) as (P & Hds & Hhl & off & Hoff & Es & Epl & Hol & Hmss & Hz0 & Hz1 & Hfin).
        pose proof Hinv1 as ((Hwf & Hcap & Ha & Hlen & Hc & Hl & Hr & Hf & Hhw & Hpo & Hw & Hs) & Htm).
        pose proof Hwf as (Hl0 & _).
        unfold data_seg_ok. cbv zeta. exists (g_acked g + off).
        assert (U : g_una g1 = 1 + g_acked g) by (unfold g_una; rewrite P, G3; reflexivity).
        assert (Hoff0 : 0 <= off) by (destruct Hoff; lia).
        split; [rewrite Es, G1, U; f_equal; lia|]. split; [lia|].
        split; [rewrite <- G2, <- Hlen, G3; lia|].
        split; [rewrite <- G2, <- G3; exact Epl|].
        split.
        { destruct zwp.
          - destruct (Hz1 eq_refl) as (Z1 & Z2 & Z3 & Z4).
            pose proof (l_len_nonneg (r_payload (snd p))) as Hn0.
            destruct (Z.eq_dec (l_len (r_payload (snd p))) 0) as [E0|E0]; [left; exact E0|].
            right. right. split; [lia|]. split.
            + destruct Htm as (T1 & _). rewrite <- F3. apply T1.
              unfold timer_should_zero_window_probe in Z4. destruct (s_timer s1); try discriminate. reflexivity.
            + exists s1. split; [exact Hfr|exact Z4].
          - destruct (Hz0 eq_refl) as [E0|E0]; [left; exact E0|]. right. left. rewrite <- F3. lia. }
        split.
        { intros Hn. destruct (eff_mss_bounds (cx_ip_mtu cx) (s_remote_mss s1) (ts_opt s1)) as (_ & B2 & B3).
          { unfold ts_opt. destruct (s_tsval_generator s1); lia. }
          split; [rewrite <- F5; lia|].
          rewrite Hip. unfold repr_buffer_len. rewrite Hhl. specialize (B3 ltac:(lia)). lia. }
        split; [rewrite <- G6; lia|].
        intros Ef. destruct (Hfin Ef) as (E1 & E2). split.
        -- unfold phase_ok in Hpo. rewrite P in Hpo. rewrite <- G5.
           destruct (s_state s1); cbn [fin_state] in E2; try discriminate; tauto.
        -- rewrite <- G2, <- Hlen, G3. lia.
      * intros Ec. destruct (Hsyn Ec) as (N0 & P & _ & Es & Ew & _).
        split; [exact N0|]. split; [|split; [rewrite <- G4; exact P|rewrite Ew, F8; reflexivity]].
        rewrite Es, G1. unfold g_una. rewrite P. f_equal. lia.
      * intros Ec. destruct (Hrst Ec) as (N0 & _). exact N0.
    + intros Hc. destruct (Hwin Hc) as (W1 & _). rewrite W1. exact Hsw.
Qed.
