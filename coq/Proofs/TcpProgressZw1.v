(* C02 (liveness half), step 4 (zero window), layer 1: socket-level facts for the composition over
   reliable schedules (Proofs/TcpProgressZw2.v).
     process_reply_win / dispatch_est_win   every segment an ESTABLISHED socket emits carries the scaled
                                            window of the state it leaves behind
     process_sender_win                     a segment arriving at an ESTABLISHED sender: nothing but
                                            bookkeeping changes (core_eq), or the learned window becomes
                                            the advertised one
     poll_at_le_timer                       poll_at is never later than an armed timer
     build_data_win0, dispatch_zw_*         dispatches of a sender that believes the window closed *)
From SV Require Import Lib.Base Gen.Consts.
From SV Require Import Model.Seq32 Model.Assembler Model.TcpBuf Model.TcpTypes Model.Tcp.
From SV Require Import Proofs.TcpRecvInv Proofs.TcpRecvProcess.
From SV Require Import Proofs.TcpSendBase Proofs.TcpLiveBase Proofs.TcpLiveProofs Proofs.TcpLiveMore
  Proofs.TcpLiveProgress.
From SV Require Import Proofs.TcpProgressFrame Proofs.TcpProgressCtl Proofs.TcpProgressSend Proofs.TcpProgressZwp.

(* ---------------------------------------------------------------------------------------- *)
(* the window field of what is emitted                                                       *)
(* ---------------------------------------------------------------------------------------- *)
Definition wsh (s' : socket) (rep : option packet) : Prop :=
  match rep with
  | None => True
  | Some p => r_control (snd p) = CRst \/ r_window_len (snd p) = tcp_scaled_window s'
  end.

Lemma ack_reply_win cx s ip r s' p :
  tcp_ack_reply cx s ip r = (s', p) -> r_window_len (snd p) = tcp_scaled_window s'.
Proof.
  unfold tcp_ack_reply, tcp_reply, with_payload_len. intros H. inversion H; subst s' p; clear H.
  unfold tcp_scaled_window. rproj. cbn [snd r_window_len]. reflexivity.
Qed.

Lemma challenge_win cx s0 ip r s' rep : tcp_challenge_ack_reply cx s0 ip r = (s', rep) -> wsh s' rep.
Proof.
  unfold tcp_challenge_ack_reply. destruct (cx_now cx <? s_challenge_ack_timer s0).
  - intros H; inversion H; subst. exact I.
  - destruct (tcp_ack_reply cx (upd_challenge_ack_timer s0 (cx_now cx + 1000000)) ip r) as (s1, p) eqn:E.
    intros H; inversion H; subst s' rep; clear H. right. exact (ack_reply_win _ _ _ _ _ _ E).
Qed.

Lemma ack_check_ret_win cx s ip r t s1 rep :
  tcp_process_ack_check cx s ip r = Ok (Ret t s1 rep) -> wsh s1 rep.
Proof.
  unfold tcp_process_ack_check. intros H.
  destruct (s_state s) eqn:Est; des_all H.
  all: try (apply obind_ok_inv in H; destruct H as (p & Hp & H); inversion H; subst;
            destruct (rst_reply_to _ _ _ Hp) as (A & B); left; exact B).
  all: try (inversion H; subst; exact I).
  all: match goal with
       | E : tcp_challenge_ack_reply ?cx ?s0 ?ip ?r = (_, _) |- _ =>
           inversion H; subst; exact (challenge_win _ _ _ _ _ _ E)
       end.
Qed.

Lemma window_ret_win cx s ip r t s1 rep :
  tcp_process_window cx s ip r = Ok (Ret t s1 rep) -> wsh s1 rep.
Proof.
  unfold tcp_process_window. intros H.
  destruct (s_state s); try discriminate H.
  all: destruct (tcp_segment_in_window _ _ _ _) as (inw, tg); destruct inw;
    [ destruct (negb (seq_le _ _)); [discriminate|];
      repeat (apply obind_ok_inv in H; destruct H as (? & _ & H)); discriminate | ].
  all: destruct (control_eqb (r_control r) CRst); [inversion H; subst; exact I|].
  all: match type of H with context [tcp_ack_reply ?cx0 ?q ?ip0 ?r0] =>
         destruct ((match r_payload r0 with [] => false | _ => true end)
                   && (match r_control r0 with CNone | CPsh | CFin => true | _ => false end));
         [ destruct (tcp_ack_reply cx0 q ip0 r0) as (s', p) eqn:E; inversion H; subst;
           right; exact (ack_reply_win _ _ _ _ _ _ E)
         | destruct (tcp_challenge_ack_reply cx0 q ip0 r0) as (s', p) eqn:E; inversion H; subst;
           exact (challenge_win _ _ _ _ _ _ E) ]
       end.
Qed.

Lemma transition_ret_win cx s0 ip r c al aof t s1 rep :
  tcp_process_transition cx s0 ip r c al aof = Ok (Ret t s1 rep) -> wsh s1 rep.
Proof.
  intros H. unfold tcp_process_transition in H.
  destruct (s_state s0); destruct c; cbv beta iota in H.
  all: unfold tcp_enter_time_wait, tcp_fin_received in H.
  all: repeat match type of H with
              | context [if ?c then _ else _] => destruct c
              end.
  all: try discriminate H.
  all: try (inversion H; subst; exact I).
  all: match type of H with context [tcp_challenge_ack_reply ?cx0 ?q ?ip0 ?r0] =>
         destruct (tcp_challenge_ack_reply cx0 q ip0 r0) as (s', p) eqn:E; inversion H; subst;
         exact (challenge_win _ _ _ _ _ _ E)
       end.
Qed.

Lemma payload_win cx s0 ip r payload off s' rep tg :
  tcp_process_payload cx s0 ip r payload off = Ok (s', rep, tg) -> wsh s' rep.
Proof.
  intros H. unfold tcp_process_payload in H.
  destruct (l_len payload =? 0); [inversion H; subst; exact I|].
  destruct (asm_atrf _ _ _ _) as (asm', res).
  destruct res as [contig|]; [|inversion H; subst; exact I].
  destruct (rb_write_unallocated _ _ _) as (rx, lw).
  destruct (negb (lw =? l_len payload)); [discriminate|].
  apply obind_ok_inv in H. destruct H as (rx2 & _ & H).
  match type of H with (let '(_, _) := ?m in _) = _ => destruct m as (q1, t1) end.
  destruct (negb (asm_is_empty (s_assembler q1)) || _).
  - destruct (tcp_ack_reply cx q1 ip r) as (q2, p) eqn:E.
    inversion H; subst s' rep tg. right. exact (ack_reply_win _ _ _ _ _ _ E).
  - inversion H; subst. exact I.
Qed.

Theorem process_reply_win cx s ip r s' rep tags :
  tcp_process cx s ip r = Ok (s', rep, tags) -> wsh s' rep.
Proof.
  intros H. unfold tcp_process in H.
  destruct (negb (tcp_accepts s ip r)); [discriminate|].
  apply obind_ok_inv in H. destruct H as (p1 & H1 & H).
  destruct p1 as [t1 []|t1 s1 rep1].
  2:{ inversion H; subst. exact (ack_check_ret_win _ _ _ _ _ _ _ H1). }
  apply obind_ok_inv in H. destruct H as (p2 & H2 & H).
  destruct p2 as [t2 ((s2, payload), off)|t2 s2r rep2].
  2:{ inversion H; subst. exact (window_ret_win _ _ _ _ _ _ _ H2). }
  apply obind_ok_inv in H. destruct H as (((al & aof) & aall) & _ & H).
  apply obind_ok_inv in H. destruct H as (p3 & H3 & H).
  destruct p3 as [t3 s3|t3 s3r rep3].
  2:{ inversion H; subst. exact (transition_ret_win _ _ _ _ _ _ _ _ _ _ H3). }
  apply obind_ok_inv in H. destruct H as ((s4 & wu) & H4 & H).
  apply obind_ok_inv in H. destruct H as ((s5 & t5) & H5 & H).
  destruct (tcp_process_timers cx _ al aall) as (s6, t6).
  destruct (tcp_process_zwp cx s6 al) as (s7, t7).
  apply obind_ok_inv in H. destruct H as (((s8 & rep8) & t8) & H8 & H).
  inversion H; subst s' rep tags.
  exact (payload_win _ _ _ _ _ _ _ _ _ H8).
Qed.

Lemma scaled_window_rxv s' s : rxv_eq s' s -> tcp_scaled_window s' = tcp_scaled_window s.
Proof. intros (_ & E2 & _ & _ & _ & _ & E7). unfold tcp_scaled_window. rewrite E2, E7. reflexivity. Qed.

(* what an ESTABLISHED socket transmits carries the scaled window of the state it leaves *)
Theorem dispatch_est_win cx s ok s' res tags t :
  s_state s = Established -> s_state s' = Established ->
  s_tuple s = Some t -> tu_local_addr t = cx_addr cx ->
  tcp_dispatch cx s ok = Ok (s', res, tags) ->
  forall p, res = DSent p -> r_window_len (snd p) = tcp_scaled_window s'.
Proof.
  intros Hst Hst' Htu Haddr H. unfold tcp_dispatch in H.
  rewrite Htu, Haddr, Z.eqb_refl in H. cbn [negb] in H.
  apply obind_ok_inv in H. destruct H as ((s1 & t1) & H1 & H).
  apply obind_ok_inv in H. destruct H as (((s2 & go) & t2) & H2 & H).
  destruct (negb go); [inversion H; subst; intros p Hp; discriminate|].
  apply obind_ok_inv in H. destruct H as (((((s3 & orepr) & zwp) & ka) & t3) & H3 & H).
  destruct orepr as [repr|]; [|inversion H; subst; intros p Hp; discriminate].
  destruct (negb ok); [inversion H; subst; intros p Hp; discriminate|].
  destruct (tcp_dispatch_finish cx s3 repr zwp ka) as (s4, t4) eqn:Ef.
  inversion H; subst s' res tags; clear H. intros p Hp. inversion Hp; subst p; clear Hp.
  unfold with_payload_len. cbn [snd].
  pose proof (TcpRecvDispatch.dispatch_finish_spec _ _ _ _ _ _ _ Ef) as F4.
  (* the state at build time *)
  unfold tcp_dispatch_build in H3.
  apply obind_ok_inv in H3. destruct H3 as ((((sb & ob) & zb) & tb) & Hb & H3).
  set (ts := if s_tsval_generator s2 then Some (cx_tsval cx, s_last_remote_tsval s2) else None) in *.
  set (repr0 := mkRepr (tu_local_port t) (tu_remote_port t) CNone (s_remote_last_seq s2)
                       (Some (tcp_window_start s2)) (tcp_scaled_window s2) None None false no_sack ts []) in *.
  assert (Hs3 : s3 = sb) by (destruct ob; [apply obind_ok_inv in H3; destruct H3 as (? & _ & H3)|]; inversion H3; reflexivity).
  subst sb.
  assert (Est2 : s_state s2 = Established).
  { destruct F4 as (_ & X & _).
    destruct (s_state s2) eqn:E2; try reflexivity; exfalso.
    all: try (inversion Hb; subst s3; rewrite E2 in X; congruence).
    - destruct (s_syn_unacked_in_fin_wait s2); [inversion Hb; subst s3; rewrite E2 in X; congruence|].
      pose proof (TcpRecvDispatch.build_data_spec _ _ _ _ _ _ _ Hb eq_refl) as ((_ & Hs) & _). congruence.
    - pose proof (TcpRecvDispatch.build_data_spec _ _ _ _ _ _ _ Hb eq_refl) as ((_ & Hs) & _). congruence.
    - pose proof (TcpRecvDispatch.build_data_spec _ _ _ _ _ _ _ Hb eq_refl) as ((_ & Hs) & _). congruence.
    - pose proof (TcpRecvDispatch.build_data_spec _ _ _ _ _ _ _ Hb eq_refl) as ((_ & Hs) & _). congruence. }
  rewrite Est2 in Hb.
  destruct (TcpRecvDispatch.build_data_spec _ _ _ _ _ _ _ Hb eq_refl) as ((F3 & _) & repr1 & -> & _ & _ & _ & Hw).
  assert (Hwr : r_window_len repr = tcp_scaled_window s2).
  { cbv beta iota zeta in H3.
    repeat match type of H3 with context [if ?c then _ else _] => destruct c end;
      first [ apply obind_ok_inv in H3; destruct H3 as (rr & Hrr & H3);
              apply obind_ok_inv in Hrr; destruct Hrr as (m & _ & Hrr); inversion Hrr; subst rr; clear Hrr
            | cbn [obind] in H3 ];
      match type of H3 with Ok (_, Some ?a, _, _, _) = _ =>
        assert (Er : repr = a) by (inversion H3; reflexivity) end; rewrite Er;
      cbn [repr_set_seq repr_set_payload r_window_len]; exact Hw. }
  rewrite Hwr.
  destruct F4 as (F4 & _).
  transitivity (tcp_scaled_window s3); [symmetry; exact (scaled_window_rxv _ _ F3)|].
  symmetry. unfold tcp_scaled_window. destruct F4 as (_ & E2 & _ & _ & E5). rewrite E2, E5. reflexivity.
Qed.

(* ---------------------------------------------------------------------------------------- *)
(* a segment arrives at an ESTABLISHED sender                                                *)
(* ---------------------------------------------------------------------------------------- *)
Theorem process_sender_win : forall cx s ip r s' reply tags,
  ctx_ok cx -> seg_ok r -> tcp_live_inv s ->
  s_state s = Established -> s_state s' = Established ->
  rb_len (s_tx_buffer s) < 2 ^ 31 ->
  tcp_process cx s ip r = Ok (s', reply, tags) ->
  core_eq s s' \/
  (r_control r <> CSyn /\ s_remote_win_len s' = shl (r_window_len r) (win_scale_of s r)).
Proof.
  intros cx s ip r s' reply tags Hcx Hseg I Hst Hst' Htxb H. unfold tcp_process in H.
  destruct (negb (tcp_accepts s ip r)); [discriminate|].
  obind_inv H. rename a into p1. rename E into H1.
  destruct p1 as [t1 []|t1 s1 rep1].
  2:{ inversion H; subst s'. left. exact (ack_check_ret_core _ _ _ _ _ _ _ H1). }
  obind_inv H. rename a into p2. rename E into H2.
  pose proof (process_window_spec _ _ _ _ _ H2 I) as P2.
  destruct p2 as [t2 ((s2, payload), off)|t2 s2r rep2].
  2:{ inversion H; subst s'. left. apply (window_ret_core _ _ _ _ _ _ _ ltac:(rewrite Hst; discriminate) H2). }
  pose proof (inv_core_eq _ _ P2 I) as I2.
  pose proof P2 as (C1 & C2 & C3 & C4 & C5 & C6 & C7 & C8 & C9 & C10 & C11).
  obind_inv H. destruct a as ((al, aof), aall). rename E into Hal.
  obind_inv H. rename a into p3. rename E into H3.
  destruct (quash_spec s2 r) as (Qr & Qs & Qp).
  assert (Hst2 : s_state s2 = Established) by congruence.
  unfold tcp_process_transition in H3. rewrite Hst2 in H3.
  destruct (tcp_process_quash s2 r) eqn:Hq; try (exfalso; apply Qp; reflexivity).
  - (* CNone: the normal path *)
    inversion H3; subst p3; clear H3.
    assert (Hns : r_control r <> CSyn) by (intros X; apply Qs in X; congruence).
    pose proof (inv_weak _ I2) as W3.
    obind_inv H. destruct a as (s4, wu). rename E into H4.
    destruct (update_remote_spec _ _ _ _ _ _ H4 W3 Hseg) as (W4 & _).
    pose proof (update_remote_win _ _ _ _ _ _ H4) as Hw4.
    obind_inv H. destruct a as (s5, t5). rename E into H5.
    destruct (dup_ack_spec _ _ _ _ _ _ _ H5 W4 Hseg) as (W5 & _ & _ & Wn5 & _).
    set (q5 := match r_timestamp r with
               | Some (tsval, _) => upd_last_remote_tsval s5 tsval
               | None => s5
               end) in *.
    assert (D53 : s_remote_win_len q5 = s_remote_win_len s5)
      by (unfold q5; destruct (r_timestamp r) as [(tv, te)|]; sproj; auto).
    clearbody q5.
    pose proof (timers_spec cx q5 al aall) as P6.
    destruct (tcp_process_timers cx q5 al aall) as (s6, t6). cbn [fst] in P6.
    destruct P6 as ((_ & _ & _ & _ & _ & F6 & _) & _).
    pose proof (zwp_spec cx s6 al) as P7.
    destruct (tcp_process_zwp cx s6 al) as (s7, t7). cbn [fst] in P7.
    destruct P7 as ((_ & _ & _ & _ & _ & G6 & _) & _).
    obind_inv H. destruct a as ((s8, rep8), t8). rename E into H8.
    destruct (payload_core _ _ _ _ _ _ _ _ _ H8) as (_ & _ & _ & _ & _ & _ & P7' & _).
    inversion H; subst s' reply tags; clear H.
    right. split; [exact Hns|].
    rewrite P7', G6, F6, D53, Wn5, Hw4. unfold win_scale_of. rewrite C8. reflexivity.
  - (* SYN on a synchronised connection: ignored *)
    inversion H3; subst p3; clear H3. inversion H; subst s'. left. exact P2.
  - (* FIN: CLOSE-WAIT, not ESTABLISHED any more *)
    exfalso. inversion H3; subst p3; clear H3.
    pose proof (inv_weak _ I2) as W2.
    set (s3 := tcp_set_state (tcp_fin_received s2) CloseWait) in *.
    assert (S3 : s_state s3 = CloseWait) by (unfold s3, tcp_fin_received; sproj; reflexivity).
    assert (W3 : tcp_weak_inv s3).
    { unfold s3, tcp_fin_received. weak_destruct W2. constructor; sproj; auto; try (intros; discriminate).
      - rewrite Hst2 in *. auto.
      - intros X. destruct (Wc X) as [Y|Y]; rewrite Hst2 in Y; discriminate. }
    clearbody s3.
    obind_inv H. destruct a as (s4, wu). rename E into H4.
    destruct (update_remote_spec _ _ _ _ _ _ H4 W3 Hseg) as (W4 & S4 & _).
    obind_inv H. destruct a as (s5, t5). rename E into H5.
    destruct (dup_ack_spec _ _ _ _ _ _ _ H5 W4 Hseg) as (W5 & S5 & _).
    set (q5 := match r_timestamp r with
               | Some (tsval, _) => upd_last_remote_tsval s5 tsval
               | None => s5
               end) in *.
    assert (D54 : s_state q5 = s_state s5) by (unfold q5; destruct (r_timestamp r) as [(tv, te)|]; sproj; auto).
    clearbody q5.
    pose proof (timers_spec cx q5 al aall) as P6.
    destruct (tcp_process_timers cx q5 al aall) as (s6, t6). cbn [fst] in P6.
    destruct P6 as ((F1 & _) & _).
    pose proof (zwp_spec cx s6 al) as P7.
    destruct (tcp_process_zwp cx s6 al) as (s7, t7). cbn [fst] in P7.
    destruct P7 as ((G1 & _) & _).
    obind_inv H. destruct a as ((s8, rep8), t8). rename E into H8.
    destruct (payload_core _ _ _ _ _ _ _ _ _ H8) as (P1 & _).
    inversion H; subst s'. rewrite P1, G1, F1, D54, S5, S4, S3 in Hst'. discriminate.
  - (* RST: CLOSED *)
    exfalso. inversion H3; subst p3; clear H3. inversion H; subst s'. sproj in Hst'. discriminate.
Qed.

(* ---------------------------------------------------------------------------------------- *)
(* poll_at and the armed timer                                                               *)
(* ---------------------------------------------------------------------------------------- *)
Lemma poll_at_le_timer cx s :
  s_tuple s <> None ->
  match tcp_poll_at cx s with
  | Ok PNow => True
  | Ok (PTime t) => match s_timer s with
                    | TRetransmit e | TZeroWindowProbe e _ => t <= e
                    | TFastRetransmit => False
                    | _ => True
                    end
  | Ok PIngress => match s_timer s with
                   | TRetransmit _ | TZeroWindowProbe _ _ | TFastRetransmit => False
                   | _ => True
                   end
  | _ => True
  end.
Proof.
  intros Htu. unfold tcp_poll_at.
  destruct (s_tuple s); [|congruence]. cbn [is_some negb].
  destruct (is_some (s_remote_last_ts s)); cbn [negb]; [|exact I].
  destruct (tcp_state_eqb (s_state s) Closed); [exact I|].
  destruct (tcp_seq_to_transmit cx s) as [[|]|e|]; cbn [obind]; try exact I.
  destruct (tcp_window_to_update s) as [[|]|e|]; cbn [obind]; try exact I.
  destruct (s_timer s) as [k|e| |e d|e]; try (match goal with |- match ?p with _ => _ end => destruct p; exact I end).
  - match goal with |- match ?p with _ => _ end =>
      assert (Hle : pa_le p e) by (apply pa_le_min_l, pa_le_min_l; cbn; lia); destruct p end; cbn in Hle; tauto.
  - cbn [timer_poll_at poll_at_min]. exact I.
  - match goal with |- match ?p with _ => _ end =>
      assert (Hle : pa_le p e) by (apply pa_le_min_l, pa_le_min_l; cbn; lia); destruct p end; cbn in Hle; tauto.
Qed.

(* ---------------------------------------------------------------------------------------- *)
(* a sender that believes the window closed, nothing in flight, no probe due: no data goes out *)
(* ---------------------------------------------------------------------------------------- *)
Lemma build_data_win0 cx s repr s' orepr z tg :
  tcp_dispatch_build_data cx s repr = Ok (s', orepr, z, tg) ->
  s_state s = Established -> tcp_live_inv s ->
  s_remote_win_len s = 0 -> s_remote_last_seq s = s_local_seq_no s ->
  timer_should_zero_window_probe (s_timer s) (cx_now cx) = false ->
  r_control repr = CNone -> r_payload repr = [] ->
  s' = s /\ z = false /\ exists repr', orepr = Some repr' /\ repr_segment_len repr' = 0.
Proof.
  unfold tcp_dispatch_build_data. intros H Hst I Hwin Hfl Hz Hc Hp.
  apply obind_ok_inv in H. destruct H as (ol & _ & H).
  apply obind_ok_inv in H. destruct H as (lm & _ & H).
  apply obind_ok_inv in H. destruct H as (((((s1 & r1) & off) & zw) & tg1) & H1 & H).
  rewrite Hwin in H1. change (0 >? 0) with false in H1. rewrite andb_false_r in H1.
  pose proof (li_una s I) as Hu.
  rewrite (seq_add_zero _ Hu), Hfl in H1.
  rewrite (seq_lt_false_ge _ _ (seq_lt_irrefl _)), seq_sub_self in H1. cbn [obind] in H1.
  rewrite Hz in H1. change (0 =? 0) with true in H1. cbn [andb] in H1.
  apply obind_ok_inv in H1. destruct H1 as (size & Hsz & H1).
  apply obind_ok_inv in Hsz. destruct Hsz as (cwr & Hcwr & Hsz). inversion Hsz; subst size; clear Hsz.
  unfold tcp_cwnd_remaining, tcp_flight_size in Hcwr. rewrite Hfl, seq_sub_self in Hcwr. cbn [obind] in Hcwr.
  inversion Hcwr; subst cwr; clear Hcwr.
  unfold tcp_flight_size in H1. rewrite Hfl, seq_sub_self in H1. cbn [obind] in H1.
  inversion H1; subst s1 r1 off zw tg1; clear H1.
  set (size := Z.min (Z.min 0 _) _) in *.
  assert (Hsize : size <= 0) by (unfold size; lia).
  assert (Hpl : rb_get_allocated (s_tx_buffer s) 0 size = []).
  { apply l_len_zero_nil. pose proof (rb_get_allocated_len (s_tx_buffer s) 0 size (li_tx s I) ltac:(lia)). lia. }
  rewrite Hpl in H. cbn [repr_set_payload r_payload] in H.
  change (l_len []) with 0 in H. rewrite Z.add_0_l in H.
  cbv beta iota zeta in H. rewrite Hst in H.
  split; [|split]; try (inversion H; reflexivity).
  eexists. split; [inversion H; reflexivity|].
  match goal with |- context [if ?c then _ else _] => destruct c end;
    unfold repr_segment_len, repr_set_payload; cbn [r_payload r_control]; rewrite Hc; reflexivity.
Qed.

Lemma seglen0_not_syn r : repr_segment_len r = 0 -> control_eqb (r_control r) CSyn = false.
Proof.
  unfold repr_segment_len. pose proof (l_len_nonneg (r_payload r)).
  destruct (r_control r); cbn [control_len control_eqb]; intros; try reflexivity; lia.
Qed.

(* after the timer stage: the probe timer is not due, the window is believed closed, nothing is in
   flight - the rest of the dispatch leaves the probe timer where it is *)
Lemma zw_tail cx s1 t ok t1 s' res tags e d :
  (do d2 <- tcp_dispatch_decide cx s1;
   let '(s, go, t2) := d2 in
   if negb go then Ok (s, DNothing, [t1; t2]) else
   do d3 <- tcp_dispatch_build cx s t;
   let '(s, orepr, zwp, ka, t3) := d3 in
   match orepr with
   | None => Ok (s, DNothing, [t1; t2; t3])
   | Some repr =>
       let hop := match s_hop_limit s with Some h => h | None => 64 end in
       let p := with_payload_len (mkIp (tu_local_addr t) (tu_remote_addr t) hop 0) repr in
       if negb ok then Ok (s, DEmitFailed p, [t1; t2; t3; 244]) else
       let '(s, t4) := tcp_dispatch_finish cx s repr zwp ka in
       Ok (s, DSent p, [t1; t2; t3; t4; if ka then 245 else 246])
   end) = Ok (s', res, tags) ->
  tcp_live_inv s1 -> s_state s1 = Established ->
  s_remote_win_len s1 = 0 -> s_remote_last_seq s1 = s_local_seq_no s1 ->
  s_timer s1 = TZeroWindowProbe e d -> cx_now cx < e ->
  s_timer s' = TZeroWindowProbe e d /\ s_remote_win_len s' = 0 /\
  forall p, res = DSent p -> repr_segment_len (snd p) = 0.
Proof.
  intros H I1 Hst Hwin Hfl T1 He.
  assert (Hnz : timer_should_zero_window_probe (s_timer s1) (cx_now cx) = false) by (rewrite T1; cbn; lia).
  obind_inv H. destruct a as ((s2, go), t2). rename E into Edd.
  assert (E2 : s2 = s1).
  { unfold tcp_dispatch_decide in Edd.
    destruct (tcp_seq_to_transmit cx s1) as [[|]|e0|]; cbn [obind] in Edd; try discriminate; [inversion Edd; reflexivity|].
    destruct (tcp_ack_to_transmit s1 && tcp_delayed_ack_expired s1 (cx_now cx)); [inversion Edd; reflexivity|].
    destruct (tcp_window_to_update s1) as [[|]|e0|]; cbn [obind] in Edd; try discriminate; [inversion Edd; reflexivity|].
    destruct (tcp_state_eqb (s_state s1) Closed); [inversion Edd; reflexivity|].
    destruct (timer_should_keep_alive (s_timer s1) (cx_now cx)); [inversion Edd; reflexivity|].
    destruct (timer_should_zero_window_probe (s_timer s1) (cx_now cx)); [inversion Edd; reflexivity|].
    destruct (timer_should_close (s_timer s1) (cx_now cx)) eqn:Hcl; [|inversion Edd; reflexivity].
    rewrite T1 in Hcl. discriminate. }
  subst s2.
  destruct (negb go); [inversion H; subst; split; [exact T1|]; split; [exact Hwin|]; intros p Hp; discriminate|].
  obind_inv H. destruct a as ((((s3, o), z), k), t3). rename E into Ebd.
  unfold tcp_dispatch_build in Ebd. rewrite Hst in Ebd.
  apply obind_ok_inv in Ebd. destruct Ebd as ((((sb & ob) & zb) & tb) & Hb & Ebd).
  destruct (build_data_win0 _ _ _ _ _ _ _ Hb Hst I1 Hwin Hfl Hnz eq_refl eq_refl) as (-> & -> & repr1 & -> & Hl1).
  cbv beta iota zeta in Ebd. rewrite T1 in Ebd. cbn [timer_should_keep_alive andb] in Ebd.
  set (repr2 := if repr_is_empty repr1 && control_eqb (r_control repr1) CNone
                then repr_set_seq repr1 (tcp_send_next_seq s1) else repr1) in *.
  assert (Hl2 : repr_segment_len repr2 = 0) by (unfold repr2; destruct (_ && _); exact Hl1).
  clearbody repr2. rewrite (seglen0_not_syn _ Hl2) in Ebd. cbn [obind] in Ebd.
  inversion Ebd; subst s3 o z k t3; clear Ebd.
  destruct (negb ok); [inversion H; subst; split; [exact T1|]; split; [exact Hwin|]; intros p Hp; discriminate|].
  unfold tcp_dispatch_finish in H. rewrite Hl2 in H. change (0 >? 0) with false in H. cbn [andb] in H.
  sproj in H. rewrite T1 in H. cbn [timer_rewind_keep_alive] in H.
  destruct (tcp_state_eqb (s_state s1) Closed); inversion H; subst s' res tags; sproj;
    (split; [reflexivity|]; split; [exact Hwin|]; intros p Hp; inversion Hp; subst p;
     unfold with_payload_len; cbn [snd]; exact Hl2).
Qed.

(* the probe timer is not due: the dispatch leaves it, and sends no data *)
Theorem dispatch_zw_not_due : forall cx s t ok s' res tags e d,
  tcp_live_inv s -> s_state s = Established -> s_timeout s = None ->
  s_tuple s = Some t -> tu_local_addr t = cx_addr cx ->
  s_remote_win_len s = 0 -> s_remote_last_seq s = s_local_seq_no s ->
  s_timer s = TZeroWindowProbe e d -> cx_now cx < e ->
  tcp_dispatch cx s ok = Ok (s', res, tags) ->
  s_timer s' = TZeroWindowProbe e d /\ s_remote_win_len s' = 0 /\
  forall p, res = DSent p -> repr_segment_len (snd p) = 0.
Proof.
  intros cx s t ok s' res tags e d I Hst Hto Htu Haddr Hwin Hfl Ht He H. unfold tcp_dispatch in H.
  assert (Hca : (tu_local_addr t =? cx_addr cx) = true) by (rewrite Haddr; apply Z.eqb_refl).
  rewrite Htu, Hca in H. cbn [negb] in H.
  obind_inv H. destruct a as (s1, t1). rename E into Edt.
  pose proof (dispatch_timers_inv _ _ _ _ I Edt) as I1.
  pose proof (dt_pre_core cx s) as (Q1 & Q2 & _ & _ & Q5 & Q6 & Q7 & _).
  pose proof (not_timed_out (dt_pre cx s) (cx_now cx) ltac:(rewrite dt_pre_timeout; exact Hto)) as Hnto.
  assert (E1 : s1 = dt_pre cx s).
  { destruct (dt_spec _ _ _ _ Edt) as [(X & _) | [(_ & _ & ->) | (_ & X & _)]]; [|reflexivity|].
    - rewrite Hnto in X. discriminate.
    - rewrite Q2, Ht in X. discriminate. }
  subst s1.
  apply (zw_tail cx (dt_pre cx s) t ok t1 s' res tags e d H I1); congruence.
Qed.

(* the retransmission timer fires while the window is believed closed: the probe timer is armed,
   within RTTE_MAX_RTO, and no data goes out *)
Theorem dispatch_zw_rto : forall cx s t ok s' res tags e,
  tcp_live_inv s -> s_state s = Established -> s_timeout s = None ->
  s_tuple s = Some t -> tu_local_addr t = cx_addr cx ->
  s_remote_win_len s = 0 -> 0 < rb_len (s_tx_buffer s) ->
  s_timer s = TRetransmit e -> e <= cx_now cx ->
  tcp_dispatch cx s ok = Ok (s', res, tags) ->
  (exists e' d', s_timer s' = TZeroWindowProbe e' d' /\ cx_now cx < e' <= cx_now cx + max_rto_us) /\
  s_remote_win_len s' = 0 /\ forall p, res = DSent p -> repr_segment_len (snd p) = 0.
Proof.
  intros cx s t ok s' res tags e I Hst Hto Htu Haddr Hwin Hlen Ht He H. unfold tcp_dispatch in H.
  assert (Hca : (tu_local_addr t =? cx_addr cx) = true) by (rewrite Haddr; apply Z.eqb_refl).
  rewrite Htu, Hca in H. cbn [negb] in H.
  obind_inv H. destruct a as (s1, t1). rename E into Edt.
  pose proof (dispatch_timers_inv _ _ _ _ I Edt) as I1.
  (* the timer stage *)
  assert (D : s_state s1 = Established /\ s_remote_win_len s1 = 0 /\
              s_remote_last_seq s1 = s_local_seq_no s1 /\
              exists rto, 0 < rto <= max_rto_us /\ s_timer s1 = TZeroWindowProbe (cx_now cx + rto) rto).
  { unfold tcp_dispatch_timers in Edt. fold (dt_pre cx s) in Edt.
    pose proof (dt_pre_core cx s) as (Q1 & Q2 & _ & Q4 & Q5 & Q6 & Q7 & _ & _ & Q10 & _).
    pose proof (not_timed_out (dt_pre cx s) (cx_now cx) ltac:(rewrite dt_pre_timeout; exact Hto)) as Hnto.
    pose proof (inv_core_eq _ _ (dt_pre_core cx s) I) as Iq.
    rewrite <- Q1 in Hst. rewrite <- Q2 in Ht. rewrite <- Q4 in Hlen. rewrite <- Q7 in Hwin.
    revert Edt Hnto Iq Hst Ht Hlen Hwin. generalize (dt_pre cx s). intros q Edt Hnto Iq Hst Ht Hlen Hwin.
    rewrite Hnto in Edt. rewrite Ht in Edt. cbn [timer_should_retransmit] in Edt.
    destruct (Z.geb_spec (cx_now cx) e) as [_ | X]; [|lia].
    obind_inv Edt. sproj in Edt.
    assert (Hne : rb_is_empty (s_tx_buffer q) = false) by (unfold rb_is_empty; apply Z.eqb_neq; lia).
    rewrite Hwin, Hne in Edt. cbn [Z.eqb negb andb] in Edt.
    inversion Edt; subst s1; clear Edt. sproj.
    split; [exact Hst|]. split; [exact Hwin|]. split; [reflexivity|].
    eexists. split; [|reflexivity]. apply rto_le_max. apply rtte_on_rto_ok. exact (li_rtte q Iq). }
  destruct D as (Hst1 & Hwin1 & Hfl1 & rto & Hrto & Ht1).
  destruct (zw_tail cx s1 t ok t1 s' res tags _ _ H I1 Hst1 Hwin1 Hfl1 Ht1 ltac:(lia)) as (T' & W' & P').
  split; [|split; assumption]. exists (cx_now cx + rto), rto. split; [exact T' | lia].
Qed.

(* a segment at an ESTABLISHED sender, whatever its timer: the queue shrinks (SND.UNA advanced) or
   SND.UNA and the queue are as before *)
Theorem process_sender_core : forall cx s ip r s' reply tags,
  ctx_ok cx -> seg_ok r -> tcp_live_inv s ->
  s_state s = Established -> s_state s' = Established ->
  rb_len (s_tx_buffer s) < 2 ^ 31 ->
  tcp_process cx s ip r = Ok (s', reply, tags) ->
  rb_len (s_tx_buffer s') < rb_len (s_tx_buffer s) \/
  (s_local_seq_no s' = s_local_seq_no s /\ s_tx_buffer s' = s_tx_buffer s).
Proof.
  intros cx s ip r s' reply tags Hcx Hseg I Hst Hst' Htxb H.
  destruct (process_sender_win _ _ _ _ _ _ _ Hcx Hseg I Hst Hst' Htxb H) as [(_ & _ & _ & C4 & C5 & _) | (Hns & _)];
    [right; split; assumption|].
  unfold tcp_process in H.
  destruct (negb (tcp_accepts s ip r)); [discriminate|].
  assert (Hcore : forall q, core_eq s q -> s_local_seq_no q = s_local_seq_no s /\ s_tx_buffer q = s_tx_buffer s).
  { intros q (_ & _ & _ & C4 & C5 & _). auto. }
  obind_inv H. rename a into p1. rename E into H1.
  destruct p1 as [t1 []|t1 s1 rep1].
  2:{ inversion H; subst s'. right. apply Hcore. exact (ack_check_ret_core _ _ _ _ _ _ _ H1). }
  obind_inv H. rename a into p2. rename E into H2.
  pose proof (process_window_spec _ _ _ _ _ H2 I) as P2.
  destruct p2 as [t2 ((s2, payload), off)|t2 s2r rep2].
  2:{ inversion H; subst s'. right. apply Hcore. apply (window_ret_core _ _ _ _ _ _ _ ltac:(rewrite Hst; discriminate) H2). }
  pose proof (inv_core_eq _ _ P2 I) as I2.
  pose proof P2 as (C1 & C2 & C3 & C4 & C5 & C6 & C7 & C8 & C9 & C10 & C11).
  obind_inv H. destruct a as ((al, aof), aall). rename E into Hal.
  obind_inv H. rename a into p3. rename E into H3.
  destruct (quash_spec s2 r) as (Qr & Qs & Qp).
  assert (Hst2 : s_state s2 = Established) by congruence.
  unfold tcp_process_transition in H3. rewrite Hst2 in H3.
  destruct (tcp_process_quash s2 r) eqn:Hq; try (exfalso; apply Qp; reflexivity).
  - inversion H3; subst p3; clear H3.
    assert (Hnr : r_control r <> CRst) by (intros X; apply Qr in X; congruence).
    pose proof (inv_weak _ I2) as W3.
    obind_inv H. destruct a as (s4, wu). rename E into H4.
    destruct (update_remote_spec _ _ _ _ _ _ H4 W3 Hseg) as (W4 & S4 & T4 & U4 & N4 & _ & L4).
    obind_inv H. destruct a as (s5, t5). rename E into H5.
    destruct (dup_ack_spec _ _ _ _ _ _ _ H5 W4 Hseg) as (W5 & S5 & B5 & _ & _ & T5 & Seq5).
    pose proof (li_tx s I) as ((Htx0 & _) & _).
    destruct (ack_check_established _ _ _ _ _ Hst Hnr (li_una s I)
                ltac:(split; [lia | change (2 ^ 31) with 2147483648; lia]) ltac:(apply Hseg) H1)
      as (d & Hack & Hd).
    rewrite Hack in Seq5. destruct Seq5 as (U5 & N5).
    destruct (ack_len_established s2 r al aof aall d Hst2 ltac:(rewrite C5; apply (li_una s I))
                ltac:(change (2 ^ 31) with 2147483648; lia) ltac:(rewrite C5; exact Hack) Hnr Hal) as (-> & Ed).
    subst d.
    set (q5 := match r_timestamp r with
               | Some (tsval, _) => upd_last_remote_tsval s5 tsval
               | None => s5
               end) in *.
    assert (D5 : s_local_seq_no q5 = s_local_seq_no s5 /\ s_tx_buffer q5 = s_tx_buffer s5)
      by (unfold q5; destruct (r_timestamp r) as [(tv, te)|]; sproj; auto).
    destruct D5 as (D51 & D52). clearbody q5.
    pose proof (timers_spec cx q5 al aall) as P6.
    destruct (tcp_process_timers cx q5 al aall) as (s6, t6). cbn [fst] in P6.
    destruct P6 as ((_ & _ & F3 & F4 & _) & _).
    pose proof (zwp_spec cx s6 al) as P7.
    destruct (tcp_process_zwp cx s6 al) as (s7, t7). cbn [fst] in P7.
    destruct P7 as ((_ & _ & G3 & G4 & _) & _).
    obind_inv H. destruct a as ((s8, rep8), t8). rename E into H8.
    destruct (payload_core _ _ _ _ _ _ _ _ _ H8) as (_ & _ & _ & P4 & P5 & _).
    inversion H; subst s' reply tags; clear H.
    destruct (Z.eq_dec al 0) as [Eal | Nal].
    + right. subst al. assert (Ea : sq (s_local_seq_no s + 0) = s_local_seq_no s)
        by (symmetry; apply u32_sq_self; apply (li_una s I)).
      split; [rewrite P5, G4, F4, D51, U5; exact Ea|].
      rewrite P4, G3, F3, D52, B5, (update_remote_tx_same _ _ _ _ _ _ H4 ltac:(lia)); exact C4.
    + left. rewrite P4, G3, F3, D52, B5, L4, C4.
      destruct (Z.gtb_spec al 0); lia.
  - inversion H3; subst p3; clear H3. inversion H; subst s'. right. apply Hcore. exact P2.
  - (* FIN: CLOSE-WAIT, not ESTABLISHED any more *)
    exfalso. inversion H3; subst p3; clear H3.
    pose proof (inv_weak _ I2) as W2.
    set (s3 := tcp_set_state (tcp_fin_received s2) CloseWait) in *.
    assert (S3 : s_state s3 = CloseWait) by (unfold s3, tcp_fin_received; sproj; reflexivity).
    assert (W3 : tcp_weak_inv s3).
    { unfold s3, tcp_fin_received. weak_destruct W2. constructor; sproj; auto; try (intros; discriminate).
      - rewrite Hst2 in *. auto.
      - intros X. destruct (Wc X) as [Y|Y]; rewrite Hst2 in Y; discriminate. }
    clearbody s3.
    obind_inv H. destruct a as (s4, wu). rename E into H4.
    destruct (update_remote_spec _ _ _ _ _ _ H4 W3 Hseg) as (W4 & S4 & _).
    obind_inv H. destruct a as (s5, t5). rename E into H5.
    destruct (dup_ack_spec _ _ _ _ _ _ _ H5 W4 Hseg) as (W5 & S5 & _).
    set (q5 := match r_timestamp r with
               | Some (tsval, _) => upd_last_remote_tsval s5 tsval
               | None => s5
               end) in *.
    assert (D54 : s_state q5 = s_state s5) by (unfold q5; destruct (r_timestamp r) as [(tv, te)|]; sproj; auto).
    clearbody q5.
    pose proof (timers_spec cx q5 al aall) as P6.
    destruct (tcp_process_timers cx q5 al aall) as (s6, t6). cbn [fst] in P6.
    destruct P6 as ((F1 & _) & _).
    pose proof (zwp_spec cx s6 al) as P7.
    destruct (tcp_process_zwp cx s6 al) as (s7, t7). cbn [fst] in P7.
    destruct P7 as ((G1 & _) & _).
    obind_inv H. destruct a as ((s8, rep8), t8). rename E into H8.
    destruct (payload_core _ _ _ _ _ _ _ _ _ H8) as (P1 & _).
    inversion H; subst s'. rewrite P1, G1, F1, D54, S5, S4, S3 in Hst'. discriminate.
  - exfalso. inversion H3; subst p3; clear H3. inversion H; subst s'. sproj in Hst'. discriminate.
Qed.

(* ---------------------------------------------------------------------------------------- *)
(* the advertised window after an ACK went out                                               *)
(* ---------------------------------------------------------------------------------------- *)
(* the last advertisement is of RCV.NXT and of the scaled window of this very state *)
Definition fresh_adv (s' : socket) : Prop :=
  s_remote_last_ack s' = Some (tcp_window_start s') /\ s_remote_last_win s' = tcp_scaled_window s'.

Definition fsh (s' : socket) (rep : option packet) : Prop :=
  match rep with
  | None => True
  | Some p => r_control (snd p) = CRst \/ fresh_adv s'
  end.

Lemma ack_reply_fresh cx s ip r s' p : tcp_ack_reply cx s ip r = (s', p) -> fresh_adv s'.
Proof.
  unfold tcp_ack_reply, tcp_reply, with_payload_len. intros H. inversion H; subst s' p; clear H.
  unfold fresh_adv, tcp_scaled_window, tcp_window_start. rproj. split; reflexivity.
Qed.

Lemma challenge_fresh cx s0 ip r s' rep : tcp_challenge_ack_reply cx s0 ip r = (s', rep) -> fsh s' rep.
Proof.
  unfold tcp_challenge_ack_reply. destruct (cx_now cx <? s_challenge_ack_timer s0).
  - intros H; inversion H; subst. exact I.
  - destruct (tcp_ack_reply cx (upd_challenge_ack_timer s0 (cx_now cx + 1000000)) ip r) as (s1, p) eqn:E.
    intros H; inversion H; subst s' rep; clear H. right. exact (ack_reply_fresh _ _ _ _ _ _ E).
Qed.

Lemma ack_check_ret_fresh cx s ip r t s1 rep :
  tcp_process_ack_check cx s ip r = Ok (Ret t s1 rep) -> fsh s1 rep.
Proof.
  unfold tcp_process_ack_check. intros H.
  destruct (s_state s) eqn:Est; des_all H.
  all: try (apply obind_ok_inv in H; destruct H as (p & Hp & H); inversion H; subst;
            destruct (rst_reply_to _ _ _ Hp) as (A & B); left; exact B).
  all: try (inversion H; subst; exact I).
  all: match goal with
       | E : tcp_challenge_ack_reply ?cx ?s0 ?ip ?r = (_, _) |- _ =>
           inversion H; subst; exact (challenge_fresh _ _ _ _ _ _ E)
       end.
Qed.

Lemma window_ret_fresh cx s ip r t s1 rep :
  tcp_process_window cx s ip r = Ok (Ret t s1 rep) -> fsh s1 rep.
Proof.
  unfold tcp_process_window. intros H.
  destruct (s_state s); try discriminate H.
  all: destruct (tcp_segment_in_window _ _ _ _) as (inw, tg); destruct inw;
    [ destruct (negb (seq_le _ _)); [discriminate|];
      repeat (apply obind_ok_inv in H; destruct H as (? & _ & H)); discriminate | ].
  all: destruct (control_eqb (r_control r) CRst); [inversion H; subst; exact I|].
  all: match type of H with context [tcp_ack_reply ?cx0 ?q ?ip0 ?r0] =>
         destruct ((match r_payload r0 with [] => false | _ => true end)
                   && (match r_control r0 with CNone | CPsh | CFin => true | _ => false end));
         [ destruct (tcp_ack_reply cx0 q ip0 r0) as (s', p) eqn:E; inversion H; subst;
           right; exact (ack_reply_fresh _ _ _ _ _ _ E)
         | destruct (tcp_challenge_ack_reply cx0 q ip0 r0) as (s', p) eqn:E; inversion H; subst;
           exact (challenge_fresh _ _ _ _ _ _ E) ]
       end.
Qed.

Lemma transition_ret_fresh cx s0 ip r c al aof t s1 rep :
  tcp_process_transition cx s0 ip r c al aof = Ok (Ret t s1 rep) -> fsh s1 rep.
Proof.
  intros H. unfold tcp_process_transition in H.
  destruct (s_state s0); destruct c; cbv beta iota in H.
  all: unfold tcp_enter_time_wait, tcp_fin_received in H.
  all: repeat match type of H with
              | context [if ?c then _ else _] => destruct c
              end.
  all: try discriminate H.
  all: try (inversion H; subst; exact I).
  all: match type of H with context [tcp_challenge_ack_reply ?cx0 ?q ?ip0 ?r0] =>
         destruct (tcp_challenge_ack_reply cx0 q ip0 r0) as (s', p) eqn:E; inversion H; subst;
         exact (challenge_fresh _ _ _ _ _ _ E)
       end.
Qed.

Lemma payload_fresh cx s0 ip r payload off s' rep tg :
  tcp_process_payload cx s0 ip r payload off = Ok (s', rep, tg) -> fsh s' rep.
Proof.
  intros H. unfold tcp_process_payload in H.
  destruct (l_len payload =? 0); [inversion H; subst; exact I|].
  destruct (asm_atrf _ _ _ _) as (asm', res).
  destruct res as [contig|]; [|inversion H; subst; exact I].
  destruct (rb_write_unallocated _ _ _) as (rx, lw).
  destruct (negb (lw =? l_len payload)); [discriminate|].
  apply obind_ok_inv in H. destruct H as (rx2 & _ & H).
  match type of H with (let '(_, _) := ?m in _) = _ => destruct m as (q1, t1) end.
  destruct (negb (asm_is_empty (s_assembler q1)) || _).
  - destruct (tcp_ack_reply cx q1 ip r) as (q2, p) eqn:E.
    inversion H; subst s' rep tg. right. exact (ack_reply_fresh _ _ _ _ _ _ E).
  - inversion H; subst. exact I.
Qed.

Theorem process_reply_fresh cx s ip r s' rep tags :
  tcp_process cx s ip r = Ok (s', rep, tags) -> fsh s' rep.
Proof.
  intros H. unfold tcp_process in H.
  destruct (negb (tcp_accepts s ip r)); [discriminate|].
  apply obind_ok_inv in H. destruct H as (p1 & H1 & H).
  destruct p1 as [t1 []|t1 s1 rep1].
  2:{ inversion H; subst. exact (ack_check_ret_fresh _ _ _ _ _ _ _ H1). }
  apply obind_ok_inv in H. destruct H as (p2 & H2 & H).
  destruct p2 as [t2 ((s2, payload), off)|t2 s2r rep2].
  2:{ inversion H; subst. exact (window_ret_fresh _ _ _ _ _ _ _ H2). }
  apply obind_ok_inv in H. destruct H as (((al & aof) & aall) & _ & H).
  apply obind_ok_inv in H. destruct H as (p3 & H3 & H).
  destruct p3 as [t3 s3|t3 s3r rep3].
  2:{ inversion H; subst. exact (transition_ret_fresh _ _ _ _ _ _ _ _ _ _ H3). }
  apply obind_ok_inv in H. destruct H as ((s4 & wu) & H4 & H).
  apply obind_ok_inv in H. destruct H as ((s5 & t5) & H5 & H).
  destruct (tcp_process_timers cx _ al aall) as (s6, t6).
  destruct (tcp_process_zwp cx s6 al) as (s7, t7).
  apply obind_ok_inv in H. destruct H as (((s8 & rep8) & t8) & H8 & H).
  inversion H; subst s' rep tags.
  exact (payload_fresh _ _ _ _ _ _ _ _ _ H8).
Qed.
