(* C05: the named property theorems, as corollaries of [dispatch_segments], [dispatch_inv],
   [process_inv], [tx_step_inv]. *)
From SV Require Import Lib.Base Gen.Consts.
From SV Require Import Model.Seq32 Model.Assembler Model.TcpBuf Model.TcpTypes Model.Tcp.
From SV Require Import Proofs.TcpSendBase Proofs.TcpSendInv Proofs.TcpSendAck Proofs.TcpSendProc
                       Proofs.TcpSendApi Proofs.TcpSendDisp Proofs.TcpSendDisp2 Proofs.TcpSendDisp3
                       Proofs.TcpSendTrace.

Section Emitted.
Variables (cx : ctx) (g : ghost) (s : socket) (e : bool) (s' : socket)
          (tags : list Z) (p : packet).
Hypothesis Hinv : inv g s.
Hypothesis Hcx : ctx_ok cx.
(* p is a segment dispatch handed to the device (DSent) ... *)
Hypothesis Hd : tcp_dispatch cx s e = Ok (s', DSent p, tags).
Let r := snd p.
Let n := l_len (r_payload r).
(* ... and the model did not turn it into a keep-alive: tcp_dispatch reports that decision as
   branch tag 245 (keep-alive segments: [keep_alive_shape]) *)
Hypothesis Hnka : ~ In 245 tags.

Lemma seg_data : 0 < n \/ r_control r = CFin -> data_seg_ok cx g s p.
Proof.
  pose proof (dispatch_sent_segments cx g s e s' tags p Hinv Hcx Hd Hnka) as H. cbv zeta in H.
  destruct H as ((H & _) & _). exact H.
Qed.

(* every data segment carries exactly the stream bytes of its sequence numbers - also when it is
   an RTO retransmission, a fast retransmission or a zero-window probe *)
Theorem tx_payload_is_stream : 0 < n ->
  exists k, r_seq_number r = sq (g_iss g + 1 + k) /\ g_acked g <= k /\
            k + n <= l_len (g_stream g) /\ r_payload r = l_slice k n (g_stream g).
Proof.
  intros Hn. destruct (seg_data (or_introl Hn)) as (k & A & B & C & D & _). exists k. auto.
Qed.

(* inside the window last learned from the peer; the only exception is a ONE-byte probe into a
   window learned as 0 when the zero-window-probe timer has fired *)
Theorem tx_within_window : 0 < n ->
  exists k, r_seq_number r = sq (g_iss g + 1 + k) /\
    (k + n <= g_acked g + s_remote_win_len s \/
     (n = 1 /\ s_remote_win_len s = 0 /\
      exists s1, frame s s1 /\ timer_should_zero_window_probe (s_timer s1) (cx_now cx) = true)).
Proof.
  intros Hn. destruct (seg_data (or_introl Hn)) as (k & A & _ & _ & _ & W & _). exists k.
  split; [exact A|]. fold r n in W. destruct W as [W|[W|W]]; [lia|auto|auto].
Qed.

(* no more payload than the MSS learned from the peer, and the IP datagram fits the MTU *)
Theorem tx_within_mss_mtu : 0 < n ->
  n <= s_remote_mss s /\ wipv4_HEADER_LEN + ip_payload_len (fst p) <= cx_ip_mtu cx.
Proof.
  intros Hn. destruct (seg_data (or_introl Hn)) as (k & _ & _ & _ & _ & _ & M & _). apply M. exact Hn.
Qed.

(* a data segment never starts beyond the highest sequence offset reached so far: new data is
   sent in contiguous sequence order *)
Theorem tx_new_data_contiguous : 0 < n ->
  exists k, r_seq_number r = sq (g_iss g + 1 + k) /\ 1 + k <= g_hw g.
Proof.
  intros Hn. destruct (seg_data (or_introl Hn)) as (k & A & _ & _ & _ & _ & _ & H & _). eauto.
Qed.

(* a FIN is sent only by a closed sender, and its sequence number follows the last queued byte;
   together with [data within the stream] (tx_payload_is_stream) and [closing freezes the
   stream] (fin_freezes_stream) no data segment ever lies beyond a FIN *)
Theorem fin_after_all_data : r_control r = CFin ->
  g_fin g = true /\
  exists k, r_seq_number r = sq (g_iss g + 1 + k) /\ k + n = l_len (g_stream g).
Proof.
  intros Hf. destruct (seg_data (or_intror Hf)) as (k & A & _ & _ & _ & _ & _ & _ & F).
  destruct (F Hf) as (F1 & F2). split; [exact F1|]. exists k. auto.
Qed.

Theorem syn_window_unscaled : r_control r = CSyn ->
  n = 0 /\ r_seq_number r = sq (g_iss g) /\
  r_window_len r = u16_try (rb_window (s_rx_buffer s)).
Proof.
  intros Hs. pose proof (dispatch_sent_segments cx g s e s' tags p Hinv Hcx Hd Hnka) as H. cbv zeta in H.
  destruct H as ((_ & H & _) & _).
  destruct (H Hs) as (A & B & _ & C). auto.
Qed.

End Emitted.

(* every segment that is not a SYN carries the receive window shifted by the negotiated scale *)
Theorem window_scaled_as_negotiated : forall cx g s e s' res tags p,
  inv g s -> ctx_ok cx -> tcp_dispatch cx s e = Ok (s', res, tags) -> disp_pkt res = Some p ->
  r_control (snd p) <> CSyn ->
  r_window_len (snd p) = u16_try (shr (rb_window (s_rx_buffer s)) (s_remote_win_shift s)).
Proof.
  intros cx g s e s' res tags p Hinv Hcx Hd Hp Hc.
  pose proof (dispatch_segments cx g s e s' res tags p Hinv Hcx Hd Hp) as H. cbv zeta in H.
  destruct H as (_ & H). exact (H Hc).
Qed.

(* closing freezes the stream: within an epoch nothing is appended after close() *)
Theorem fin_freezes_stream : forall g g', same_epoch g g' -> g_fin g = true ->
  g_fin g' = true /\ g_stream g' = g_stream g.
Proof. intros g g' (_ & _ & _ & _ & H) F. exact (H F). Qed.

(* what the socket learns from the peer: the window of every processed segment (scaled as
   negotiated, unscaled in SYN segments), the MSS and the use of window scaling only from a SYN;
   API calls and dispatch change none of them (except a reset) *)
Theorem window_mss_learned_only_from_segments : forall cx g s ip r s' reply tags,
  inv g s -> ctx_ok cx -> repr_ok r -> iface_tcp_ingress cx s ip r = Ok (s', reply, tags) ->
  learned s r s'.
Proof.
  intros cx g s ip r s' reply tags Hinv Hcx Hr H.
  destruct (ingress_inv _ _ _ _ _ _ _ _ Hinv Hcx Hr H) as (g' & _ & _ & L & _). exact L.
Qed.

(* the MSS taken from a SYN: the announced value, raised to MIN_REMOTE_MSS; 0 or absent leaves
   the default *)
Theorem mss_of_syn : forall s r,
  s_remote_mss (tcp_apply_mss s r) =
  match r_max_seg_size r with
  | Some m => if m =? 0 then s_remote_mss s else Z.max m tcp_MIN_REMOTE_MSS
  | None => s_remote_mss s
  end.
Proof.
  intros. unfold tcp_apply_mss. destruct (r_max_seg_size r) as [m|]; [|reflexivity].
  destruct (m =? 0); reflexivity.
Qed.

Theorem dispatch_keeps_learned : forall cx g s e s' res tags,
  inv g s -> ctx_ok cx -> tcp_dispatch cx s e = Ok (s', res, tags) ->
  (s_remote_win_len s' = s_remote_win_len s /\ s_remote_mss s' = s_remote_mss s /\
   s_remote_win_shift s' = s_remote_win_shift s) \/ s' = tcp_reset s.
Proof.
  intros cx g s e s' res tags Hinv Hcx H.
  destruct (dispatch_inv _ _ _ _ _ _ _ Hinv Hcx H) as (_ & _ & _ & _ & _ & _ & _ & _ & [F|F] & _).
  - left. destruct F as (_ & _ & F3 & _ & F5 & F6 & _). auto.
  - right. exact F.
Qed.

Theorem reset_forgets : forall s,
  s_remote_win_len (tcp_reset s) = 0 /\ s_remote_mss (tcp_reset s) = tcp_DEFAULT_MSS.
Proof. intros. destruct (reset_txv_fields s) as (A & B & _). auto. Qed.

(* a keep-alive segment has this recognisable shape *)
Theorem keep_alive_shape : forall s1 cx r, is_keep_alive_seg s1 cx r ->
  r_payload r = [0] /\ r_control r = CNone /\
  r_seq_number r = seq_subn (tcp_send_next_seq s1) 1 /\
  timer_should_keep_alive (s_timer s1) (cx_now cx) = true.
Proof. intros s1 cx r H. exact H. Qed.
