(* Lemmas about Model/WireIgmp.v (properties C06, C07). *)
From SV Require Import Lib.Base Gen.WireFields Model.WireBase Model.WireIgmp Proofs.WireBaseProofs.

(* ---------- the Max Resp Code: a genuinely finite domain (256 codes) ---------- *)

Definition igmp_code_ok (c : Z) : bool :=
  igmp_duration_to_max_resp_code (igmp_max_resp_code_to_duration c) =? c.

Lemma igmp_codes_table : forallb igmp_code_ok (map Z.of_nat (seq 0 256)) = true.
Proof. vm_compute. reflexivity. Qed.

(* every code is the code of the duration it stands for (bound: the 256 values of a u8) *)
Lemma igmp_code_roundtrip c : 0 <= c < 256 ->
  igmp_duration_to_max_resp_code (igmp_max_resp_code_to_duration c) = c.
Proof.
  intros Hc. pose proof igmp_codes_table as T. rewrite forallb_forall in T.
  specialize (T c). unfold igmp_code_ok in T. apply Z.eqb_eq. apply T.
  apply in_map_iff. exists (Z.to_nat c). split; [lia|]. apply in_seq. lia.
Qed.

Lemma igmp_code_duration_range c : 0 <= c < 256 ->
  0 <= igmp_max_resp_code_to_duration c < 2 ^ 64.
Proof.
  intros Hc. unfold igmp_max_resp_code_to_duration.
  destruct (c <? 128) eqn:E; bsplit; [lia|].
  pose proof (land_15_range c).
  assert (0 <= Z.land (Z.shiftr c 4) 7 < 8) by (exact (land_ones_range (Z.shiftr c 4) 3 ltac:(lia))).
  assert (16 <= Z.lor (Z.land c 15) 16 < 32).
  { generalize dependent (Z.land c 15). intros x Hx.
    assert (Ex : exists n, (n < 16)%nat /\ x = Z.of_nat n) by (exists (Z.to_nat x); lia).
    destruct Ex as (n & Hn & ->).
    do 16 (destruct n as [|n]; [vm_compute; split; [discriminate | reflexivity]|]). lia. }
  rewrite Z.shiftl_mul_pow2 by lia.
  set (m := Z.lor (Z.land c 15) 16) in *. set (e := Z.land (Z.shiftr c 4) 7) in *.
  assert (2 ^ (e + 3) <= 2 ^ 10) by (apply Z.pow_le_mono_r; lia).
  assert (0 < 2 ^ (e + 3)) by (apply Z.pow_pos_nonneg; lia).
  change (2 ^ 10) with 1024 in *. change (2 ^ 64) with 18446744073709551616. nia.
Qed.

(* the loop never needs more than 8 rounds: `exp < 8` is part of its condition *)
Lemma igmp_mant_exp_fuel k m e : 0 <= e ->
  igmp_mant_exp (Z.to_nat (8 - e) + k) m e = igmp_mant_exp (Z.to_nat (8 - e)) m e.
Proof.
  intros He. remember (Z.to_nat (8 - e)) as n eqn:Hn. revert m e He Hn.
  induction n; intros m e He Hn.
  - cbn [Nat.add]. destruct k; [reflexivity|]. cbn [igmp_mant_exp].
    replace (e <? 8) with false by (symmetry; apply Z.ltb_ge; lia). rewrite andb_false_r. reflexivity.
  - cbn [Nat.add igmp_mant_exp]. destruct ((m >? 31) && (e <? 8)); [|reflexivity].
    apply IHn; lia.
Qed.

Section Checksum.
Variable sum_ok : list Z -> bool.
Variable sum_fill : list Z -> Z.

(* ---------- C06 ---------- *)

Definition igmp_type_code (r : igmp_repr) : Z * Z :=
  match r with
  | IgmpQuery d _ IgmpV1 => (igmp_MSG_QUERY, 0)
  | IgmpQuery d _ IgmpV2 => (igmp_MSG_QUERY, igmp_duration_to_max_resp_code d)
  | IgmpReport _ IgmpV1 => (igmp_MSG_REPORT_V1, 0)
  | IgmpReport _ IgmpV2 => (igmp_MSG_REPORT_V2, 0)
  | IgmpLeave _ => (igmp_MSG_LEAVE, 0)
  end.

Definition igmp_group (r : igmp_repr) : list Z :=
  match r with IgmpQuery _ g _ => g | IgmpReport g _ => g | IgmpLeave g => g end.

Definition igmp_bytes_ck (r : igmp_repr) (ck : Z) : list Z :=
  [fst (igmp_type_code r); snd (igmp_type_code r)] ++ be_enc2 ck ++ igmp_group r.

Definition igmp_bytes (r : igmp_repr) : list Z :=
  igmp_bytes_ck r (sum_fill (igmp_bytes_ck r 0)).

Lemma igmp_wf_group r : igmp_wf r = true -> igmp_group_ok (igmp_group r) = true.
Proof. destruct r as [d g [|]|g v|g]; cbn [igmp_wf igmp_group]; intros H; bsplit; assumption. Qed.

Lemma igmp_group_ok_len g : igmp_group_ok g = true -> length g = 4%nat.
Proof. unfold igmp_group_ok. intros H. bsplit. apply blen_length. assumption. Qed.

Lemma igmp_emit_spec r b : igmp_wf r = true -> blen b = igmp_buffer_len r ->
  igmp_emit sum_fill r b = Ok (igmp_bytes r).
Proof.
  intros Hwf Hb. pose proof (igmp_group_ok_len _ (igmp_wf_group r Hwf)) as Hg.
  apply (blen_length _ 8) in Hb. cells Hb.
  unfold igmp_bytes, igmp_bytes_ck.
  destruct r as [d g [|]|g [|]|g]; cbn [igmp_group igmp_type_code fst snd] in *; cells Hg;
    unfold igmp_emit; try generalize (igmp_duration_to_max_resp_code d); intros; reflexivity.
Qed.

Lemma igmp_bytes_len r : igmp_wf r = true -> blen (igmp_bytes r) = igmp_buffer_len r.
Proof.
  intros Hwf. pose proof (igmp_group_ok_len _ (igmp_wf_group r Hwf)) as Hg.
  unfold igmp_bytes, igmp_bytes_ck, blen. rewrite !app_length, Hg. reflexivity.
Qed.

Lemma igmp_emit_no_panic r b : igmp_wf r = true -> blen b = igmp_buffer_len r ->
  igmp_emit sum_fill r b <> Panic.
Proof. intros; rewrite igmp_emit_spec by assumption; discriminate. Qed.

Lemma igmp_emit_ignores_old_bytes r b1 b2 : igmp_wf r = true ->
  blen b1 = igmp_buffer_len r -> blen b2 = igmp_buffer_len r ->
  igmp_emit sum_fill r b1 = igmp_emit sum_fill r b2.
Proof. intros; rewrite !igmp_emit_spec by assumption; reflexivity. Qed.

Lemma igmp_parse_bytes_ck r ck : igmp_wf r = true -> igmp_parse (igmp_bytes_ck r ck) = Ok r.
Proof.
  intros Hwf. pose proof (igmp_wf_group r Hwf) as Hgo.
  pose proof (igmp_group_ok_len _ Hgo) as Hg.
  unfold igmp_group_ok in Hgo. apply andb_prop in Hgo. destruct Hgo as [_ Hgo].
  unfold igmp_bytes_ck, igmp_parse.
  destruct r as [d g [|]|g [|]|g]; cbn [igmp_group igmp_type_code fst snd igmp_wf] in *; cells Hg;
    unfold be_enc2; cbn [app].
  - (* query v1 *)
    bsplit. subst d.
    transitivity (do _ <- wb_guard (ipv4_addr_is_unspecified [c; c0; c1; c2] || ipv4_addr_is_multicast [c; c0; c1; c2]);
                  Ok (IgmpQuery 0 [c; c0; c1; c2] IgmpV1)); [reflexivity|].
    rewrite Hgo. reflexivity.
  - (* query v2 *)
    bsplit. set (code := igmp_duration_to_max_resp_code d) in *.
    transitivity (do _ <- wb_guard (ipv4_addr_is_unspecified [c; c0; c1; c2] || ipv4_addr_is_multicast [c; c0; c1; c2]);
                  Ok (IgmpQuery (igmp_max_resp_code_to_duration code) [c; c0; c1; c2]
                                (if code =? 0 then IgmpV1 else IgmpV2))); [reflexivity|].
    rewrite Hgo. cbn [wb_guard obind].
    replace (code =? 0) with false by (symmetry; apply Z.eqb_neq; assumption).
    f_equal. f_equal. assumption.
  - transitivity (do _ <- wb_guard (ipv4_addr_is_unspecified [c; c0; c1; c2] || ipv4_addr_is_multicast [c; c0; c1; c2]);
                  Ok (IgmpReport [c; c0; c1; c2] IgmpV1)); [reflexivity|].
    rewrite Hgo. reflexivity.
  - transitivity (do _ <- wb_guard (ipv4_addr_is_unspecified [c; c0; c1; c2] || ipv4_addr_is_multicast [c; c0; c1; c2]);
                  Ok (IgmpReport [c; c0; c1; c2] IgmpV2)); [reflexivity|].
    rewrite Hgo. reflexivity.
  - transitivity (do _ <- wb_guard (ipv4_addr_is_unspecified [c; c0; c1; c2] || ipv4_addr_is_multicast [c; c0; c1; c2]);
                  Ok (IgmpLeave [c; c0; c1; c2])); [reflexivity|].
    rewrite Hgo. reflexivity.
Qed.

Lemma igmp_roundtrip r b : igmp_wf r = true -> blen b = igmp_buffer_len r ->
  exists bs, igmp_emit sum_fill r b = Ok bs /\ blen bs = igmp_buffer_len r /\ igmp_parse bs = Ok r.
Proof.
  intros Hwf Hb. exists (igmp_bytes r). split; [apply igmp_emit_spec; assumption|].
  split; [apply igmp_bytes_len; assumption | apply igmp_parse_bytes_ck; assumption].
Qed.

End Checksum.

(* ---------- C07 ---------- *)

Lemma igmp_check_len_inv bs : igmp_check_len bs = Ok tt -> 8 <= blen bs.
Proof. unfold igmp_check_len. zfold. case_if; [discriminate|]. bsplit. lia. Qed.

Lemma igmp_group_addr_ok bs : 8 <= blen bs ->
  igmp_group_addr bs = Ok (firstn 4 (skipn 4 bs)) /\ blen (firstn 4 (skipn 4 bs)) = 4.
Proof.
  intros H. unfold igmp_group_addr, wb_field. zfold. rewrite wb_sub_ok by lia. zfold. cbn [obind].
  assert (L : blen (firstn 4 (skipn 4 bs)) = 4).
  { change 4%nat with (Z.to_nat 4). rewrite blen_firstn; [lia|]. rewrite blen_skipn; lia. }
  unfold wb_arr. rewrite L. split; reflexivity.
Qed.

Lemma igmp_accessors_safe (sum_ok : list Z -> bool) bs : igmp_check_len bs = Ok tt ->
  igmp_msg_type bs <> Panic /\ igmp_max_resp_code bs <> Panic /\ igmp_checksum bs <> Panic /\
  igmp_group_addr bs <> Panic /\ igmp_verify_checksum sum_ok bs <> Panic.
Proof.
  intros H. apply igmp_check_len_inv in H.
  unfold igmp_msg_type, igmp_max_resp_code, igmp_checksum, wb_get_u16, igmp_verify_checksum. zfold.
  repeat split; try discriminate.
  - apply wb_get_u8_nopanic; lia.
  - apply wb_get_u8_nopanic; lia.
  - apply wb_get_be_nopanic; lia.
  - destruct (igmp_group_addr_ok bs H) as [-> _]. discriminate.
Qed.

Lemma igmp_parse_total bs : igmp_parse bs <> Panic.
Proof.
  unfold igmp_parse. destruct (igmp_check_len bs) as [[]| |] eqn:E; cbn [obind]; try discriminate.
  - destruct (igmp_accessors_safe (fun _ => true) bs E) as (A1 & A2 & A3 & A4 & A5). nopanic.
  - revert E. unfold igmp_check_len. case_if; discriminate.
Qed.

(* a parsed representation is well-formed *)
Lemma igmp_parse_wf bs r : bytes_ok bs = true -> igmp_parse bs = Ok r -> igmp_wf r = true.
Proof.
  intros Hb H. unfold igmp_parse in H.
  destruct (igmp_check_len bs) as [[]| |] eqn:E; cbn [obind] in H; try discriminate.
  apply igmp_check_len_inv in E.
  destruct (igmp_group_addr_ok bs E) as [Hg Lg]. rewrite Hg in H. cbn [obind] in H.
  set (g := firstn 4 (skipn 4 bs)) in *.
  assert (Hgb : bytes_ok g = true) by (apply bytes_ok_firstn, bytes_ok_skipn, Hb).
  destruct (ipv4_addr_is_unspecified g || ipv4_addr_is_multicast g) eqn:Eg; cbn [wb_guard obind] in H; [|discriminate].
  assert (Hgo : igmp_group_ok g = true).
  { unfold igmp_group_ok, is_arr. rewrite Lg, Hgb, Eg. reflexivity. }
  unfold igmp_msg_type, igmp_max_resp_code in H. zfold_in H.
  rewrite !wb_get_u8_ok in H by lia. cbn [obind] in H. zfold_in H.
  set (c := nth 1 bs 0) in *.
  assert (Hc : 0 <= c < 256) by (apply bytes_ok_nth; [assumption | unfold blen in *; lia]).
  repeat case_if_in H; try discriminate; injection H as <-; cbn [igmp_wf]; try assumption.
  - (* query, code 0: Version1, duration 0 *)
    bsplit. rewrite Hgo. replace c with 0 by lia. reflexivity.
  - (* query, code <> 0: Version2 *)
    bsplit. pose proof (igmp_code_duration_range c Hc).
    rewrite Hgo, (igmp_code_roundtrip c Hc). zbool. reflexivity.
Qed.

Lemma igmp_reparse (sum_fill : list Z -> Z) bs r : bytes_ok bs = true -> igmp_parse bs = Ok r ->
  igmp_wf r = true /\
  forall b, blen b = igmp_buffer_len r ->
    exists bs', igmp_emit sum_fill r b = Ok bs' /\ igmp_parse bs' = Ok r.
Proof.
  intros Hb H. pose proof (igmp_parse_wf bs r Hb H) as Hwf. split; [assumption|].
  intros b Hlen. destruct (igmp_roundtrip sum_fill r b Hwf Hlen) as (bs' & He & _ & Hp). eauto.
Qed.
