(* C02 (liveness half), layer 3: the two-endpoint system.
   - [NI]: the per-socket invariants the progress argument uses, proved to hold along EVERY run of
     Model/TcpNet.v (from tcp-c02's [tcp_timed_inv] = [tcp_live_inv] + bounded timer deadline, and
     this development's [delack_bounded]);
   - stream offsets without ghosts: [una_off] (octets of its own stream a sender has had
     acknowledged), [rcv_off] (octets of the peer's stream a receiver has accepted), and how each
     system event moves them;
   - lifting of the socket-level lemmas to [net_step]. *)
From SV Require Import Lib.Base Gen.Consts.
From SV Require Import Model.Seq32 Model.Assembler Model.TcpBuf Model.TcpTypes Model.Tcp Model.TcpNet.
From SV Require Import Proofs.TcpSendBase Proofs.TcpLiveBase Proofs.TcpLiveProofs Proofs.TcpLiveMore
  Proofs.TcpLiveProgress.
From SV Require Import Proofs.TcpNetBase.
From SV Require Import Proofs.TcpProgressBase Proofs.TcpProgressFrame.

(* ---------------------------------------------------------------------------------------- *)
(* what crosses the channel is a parsed segment                                              *)
(* ---------------------------------------------------------------------------------------- *)
Lemma seg_ok_parse r : seg_ok (wire_parse r).
Proof.
  unfold seg_ok, wire_parse. cbn [r_window_len r_ack_number r_window_scale].
  split; [lia|]. split.
  - destruct (r_ack_number r); [|exact I]. unfold u32, seq_norm, seq_modulus. lia.
  - unfold wire_clamp_wscale. destruct (r_window_scale r) as [v|]; [|exact I].
    destruct (Z.gtb_spec (v mod 256) 14); lia.
Qed.

Lemma sock_event_ev_ok st ev x ev0 : sock_event st ev x ev0 -> ev_ok ev0.
Proof.
  destruct ev; cbn [sock_event]; try contradiction.
  - intros (_ & p & _ & ->). cbn [ev_ok]. apply seg_ok_parse.
  - intros (_ & ->). exact I.
  - intros (_ & ->). exact I.
  - intros (_ & ->). exact I.
  - intros (_ & ->). exact I.
Qed.

Lemma sock_event_run_ev st ev x ev0 : sock_event st ev x ev0 -> run_ev ev0.
Proof.
  destruct ev; cbn [sock_event]; try contradiction.
  - intros (_ & p & _ & ->). exact I.
  - intros (_ & ->). exact I.
  - intros (_ & ->). exact I.
  - intros (_ & ->). exact I.
  - intros (_ & ->). exact I.
Qed.

(* ---------------------------------------------------------------------------------------- *)
(* the invariant of every run                                                                *)
(* ---------------------------------------------------------------------------------------- *)
Definition ep_inv (e : endpoint) : Prop :=
  ctx_ok (ep_cx e) /\ 0 <= cx_now (ep_cx e) /\
  tcp_timed_inv (cx_now (ep_cx e)) (ep_sock e) /\ delack_bounded (cx_now (ep_cx e)) (ep_sock e).

Definition NI (st : net) : Prop := forall x, ep_inv (net_get st x).

Lemma timed_inv_mono now now' s : now <= now' -> tcp_timed_inv now s -> tcp_timed_inv now' s.
Proof. intros H (I & B). split; [exact I | eapply timer_bounded_mono; eassumption]. Qed.

Lemma ep_step_inv e ev e' : run_ev ev -> ev_ok ev -> ep_inv e -> ep_step e ev = Ok e' -> ep_inv e'.
Proof.
  intros Hr Hev (Hcx & Hnow & Ht & Hd) H.
  destruct (ep_step_spec _ _ _ H) as (s' & out & tags & Hs & Hk & Hc & _).
  unfold ep_inv. rewrite Hc, Hk. split; [exact Hcx|]. split; [exact Hnow|]. split.
  - assert (Hn2 : 0 <= cx_now (ep_cx e) <= cx_now (ep_cx e)) by lia.
    exact (step_timed_inv (cx_now (ep_cx e)) _ _ _ _ _ _ Hn2 Hcx Hev Ht Hs).
  - apply (step_delack _ _ _ _ _ _ Hr Hs Hd).
Qed.

Theorem NI_step st ev st' : NI st -> net_step st ev = Ok st' -> NI st'.
Proof.
  intros HN H.
  destruct (net_step_kind _ _ _ H) as [y ev0 e' Hse He -> | to i -> _ -> | d -> -> | y isn ts -> -> | to i Hd].
  - intros x. destruct (side_cases y x) as [-> | ->].
    + rewrite net_get_set_same.
      apply (ep_step_inv _ _ _ (sock_event_run_ev _ _ _ _ Hse) (sock_event_ev_ok _ _ _ _ Hse) (HN y) He).
    + rewrite net_get_set_other. apply HN.
  - exact HN.
  - intros x. specialize (HN x). destruct HN as (Hcx & Hnow & Ht & Hdl).
    assert (E : net_get (tick_net st d) x = ep_set_cx (net_get st x) (cx_tick (ep_cx (net_get st x)) d))
      by (destruct x; reflexivity).
    rewrite E. unfold ep_inv. cbn [ep_set_cx ep_cx ep_sock cx_tick cx_now cx_isn].
    split; [exact Hcx|]. split; [lia|].
    split; [eapply timed_inv_mono; [|exact Ht]; lia | eapply delack_bounded_mono; [|exact Hdl]; lia].
  - intros x. destruct (side_cases y x) as [-> | ->].
    + rewrite net_get_set_same. specialize (HN y). destruct HN as (Hcx & Hnow & Ht & Hdl).
      unfold ep_inv. cbn [ep_set_cx ep_cx ep_sock cx_rand cx_now cx_isn].
      split; [unfold ctx_ok, u32; cbn [cx_isn]; apply Z.mod_pos_bound; reflexivity|]. auto.
    + rewrite net_get_set_other. apply HN.
  - unfold net_step in H. destruct Hd as [-> | ->]; inversion H; subst; intros x;
      destruct (side_cases (side_other to) x) as [E | E]; rewrite E;
      rewrite ?net_get_set_same, ?net_get_set_other; try apply HN;
      specialize (HN (side_other to)); unfold ep_inv in *; cbn [ep_set_out ep_cx ep_sock]; exact HN.
Qed.

Lemma NI_live st x : NI st -> tcp_live_inv (net_sock st x).
Proof. intros H. destruct (H x) as (_ & _ & (I & _) & _). exact I. Qed.

(* ---------------------------------------------------------------------------------------- *)
(* stream offsets                                                                            *)
(* ---------------------------------------------------------------------------------------- *)
(* octets of its own stream the endpoint has had acknowledged *)
Definition una_off (e : endpoint) : Z := l_len (ep_written e) - rb_len (s_tx_buffer (ep_sock e)).
(* octets of the peer's stream the endpoint has accepted (handed to the application or queued) *)
Definition rcv_off (e : endpoint) : Z := l_len (ep_read e) + rb_len (s_rx_buffer (ep_sock e)).

(* ---------------------------------------------------------------------------------------- *)
(* how one socket event moves the offsets                                                    *)
(* ---------------------------------------------------------------------------------------- *)
From SV Require Proofs.TcpRecvBase Proofs.TcpRecvInv Proofs.TcpRecvProcess Proofs.TcpRecvDispatch.
From SV Require Import Proofs.TcpProgressRecv Proofs.TcpProgressSend.

Lemma l_len_app2 a b : l_len (a ++ b) = l_len a + l_len b.
Proof. apply l_len_app. Qed.

(* una_off: a send appends to the stream and to the queue alike; otherwise it moves by what left the queue *)
Lemma ep_step_una_off e ev e' s' out tags :
  run_ev ev -> rb_wf (s_tx_buffer (ep_sock e)) ->
  ep_step e ev = Ok e' -> tcp_step (ep_cx e) (ep_sock e) ev = Ok (s', out, tags) ->
  (forall d, ev <> EvSend d) ->
  una_off e' = una_off e + (rb_len (s_tx_buffer (ep_sock e)) - rb_len (s_tx_buffer s')).
Proof.
  intros Hr Hwf H Hs Hns. destruct (ep_step_spec _ _ _ H) as (s1 & out1 & tags1 & Hs1 & Hk & _ & _ & _ & Hw & _).
  rewrite Hs in Hs1. assert (E1 : s1 = s' /\ out1 = out) by (inversion Hs1; auto). destruct E1 as (E1 & E2).
  unfold una_off. rewrite Hk, Hw, E1, E2.
  unfold log_written. destruct ev; try contradiction; try lia. exfalso. eapply Hns. reflexivity.
Qed.

Lemma ep_step_send_una_off e data e' :
  rb_wf (s_tx_buffer (ep_sock e)) -> ep_step e (EvSend data) = Ok e' ->
  una_off e' = una_off e /\
  rb_len (s_tx_buffer (ep_sock e)) <= rb_len (s_tx_buffer (ep_sock e')) /\
  s_local_seq_no (ep_sock e') = s_local_seq_no (ep_sock e) /\
  s_state (ep_sock e') = s_state (ep_sock e) /\
  (s_remote_win_len (ep_sock e) <> 0 -> s_timer (ep_sock e') = s_timer (ep_sock e)) /\
  s_rx_buffer (ep_sock e') = s_rx_buffer (ep_sock e) /\ ep_read e' = ep_read e.
Proof.
  intros Hwf H. destruct (ep_step_spec _ _ _ H) as (s1 & out1 & tags1 & Hs1 & Hk & _ & _ & _ & Hw & Hrd & _).
  cbn [tcp_step] in Hs1. unfold una_off. rewrite Hk, Hw, Hrd.
  destruct (tcp_send_slice (ep_sock e) data) as [(s2, n)|err|] eqn:E; [| |discriminate];
    assert (E1 : s1 = match tcp_send_slice (ep_sock e) data with Ok (q, _) => q | _ => ep_sock e end /\
                 out1 = match tcp_send_slice (ep_sock e) data with Ok (_, k) => OSize k | Err k => OErr k | Panic => OUnit end)
      by (rewrite E; inversion Hs1; auto);
    rewrite E in E1; destruct E1 as (-> & ->).
  2:{ cbn [log_written log_read]. repeat split; try lia; reflexivity. }
  cbn [log_written log_read]. unfold tcp_send_slice in E.
  destruct (negb (tcp_may_send (ep_sock e))); [discriminate|].
  destruct (rb_enqueue_slice (s_tx_buffer (ep_sock e)) data) as (tx, size) eqn:Eq.
  destruct (rb_enqueue_slice_spec _ _ _ _ Hwf Eq) as (_ & _ & Hl & Hn & _).
  destruct (size >? 0) eqn:Hsz.
  - inversion E; subst s2 n; clear E. rewrite l_len_app2, l_len_take by lia.
    assert (Hwz : forall q, s_remote_win_len q = s_remote_win_len (ep_sock e) -> s_timer q = s_timer (ep_sock e) ->
              s_remote_win_len (ep_sock e) <> 0 ->
              s_timer (if (s_remote_win_len q =? 0) && timer_is_idle (s_timer q)
                       then upd_timer q (timer_set_for_zero_window_probe 0 (rtte_retransmission_timeout (s_rtte q)))
                       else q) = s_timer (ep_sock e)).
    { intros q Hq1 Hq2 Hnz. rewrite Hq1. destruct (Z.eqb_spec (s_remote_win_len (ep_sock e)) 0); [contradiction|].
      cbn [andb]. exact Hq2. }
    destruct (rb_len (s_tx_buffer (ep_sock e)) =? 0).
    + split; [|split; [|split; [|split; [|split; [apply Hwz; sproj; reflexivity|]]]]];
        match goal with |- context [if ?b then _ else _] => destruct b end; sproj; try lia; auto.
    + split; [|split; [|split; [|split; [|split; [apply Hwz; sproj; reflexivity|]]]]];
        match goal with |- context [if ?b then _ else _] => destruct b end; sproj; try lia; auto.
  - inversion E; subst s2 n; clear E. rewrite l_len_app2, l_len_take by lia.
    sproj. repeat split; try lia; reflexivity.
Qed.

(* rcv_off: a recv moves octets from the queue to the application; otherwise it moves by what
   entered the queue *)
Lemma ep_step_rcv_off e ev e' s' out tags :
  ep_step e ev = Ok e' -> tcp_step (ep_cx e) (ep_sock e) ev = Ok (s', out, tags) ->
  (forall n, ev <> EvRecv n) ->
  rcv_off e' = rcv_off e + (rb_len (s_rx_buffer s') - rb_len (s_rx_buffer (ep_sock e))).
Proof.
  intros H Hs Hnr. destruct (ep_step_spec _ _ _ H) as (s1 & out1 & tags1 & Hs1 & Hk & _ & _ & _ & _ & Hrd & _).
  rewrite Hs in Hs1. assert (E1 : s1 = s' /\ out1 = out) by (inversion Hs1; auto). destruct E1 as (E1 & E2).
  unfold rcv_off. rewrite Hk, Hrd, E1, E2.
  unfold log_read. destruct ev; try lia. exfalso. eapply Hnr. reflexivity.
Qed.

Lemma ep_step_recv e n e' :
  TcpRecvBase.rb_wf (s_rx_buffer (ep_sock e)) -> 0 <= n -> ep_step e (EvRecv n) = Ok e' ->
  rcv_off e' = rcv_off e /\ core_eq (ep_sock e) (ep_sock e') /\ ep_written e' = ep_written e /\
  s_assembler (ep_sock e') = s_assembler (ep_sock e) /\
  rb_len (s_rx_buffer (ep_sock e')) <= rb_len (s_rx_buffer (ep_sock e)).
Proof.
  intros Hwf Hn H. destruct (ep_step_spec _ _ _ H) as (s1 & out1 & tags1 & Hs1 & Hk & _ & _ & _ & Hw & Hrd & _).
  cbn [tcp_step] in Hs1. unfold rcv_off. rewrite Hk, Hrd, Hw. cbn [log_written].
  destruct (tcp_recv_slice (ep_sock e) n) as [(s2, b)|err|] eqn:E; [| |discriminate];
    assert (E1 : s1 = match tcp_recv_slice (ep_sock e) n with Ok (q, _) => q | _ => ep_sock e end /\
                 out1 = match tcp_recv_slice (ep_sock e) n with Ok (_, k) => OBytes k | Err k => OErr k | Panic => OUnit end)
      by (rewrite E; inversion Hs1; auto);
    rewrite E in E1; destruct E1 as (-> & ->).
  2:{ cbn [log_read]. destruct err as [|[|[| |]|]|]; repeat split; try lia; try reflexivity; apply core_eq_refl. }
  cbn [log_read]. pose proof (recv_slice_core _ _ _ _ E) as C.
  unfold tcp_recv_slice in E. obind_inv E.
  destruct (rb_dequeue_slice (s_rx_buffer (ep_sock e)) n) as (rx, bytes) eqn:Ed.
  destruct (TcpRecvBase.rb_dequeue_slice_spec _ _ _ _ Hwf Hn Ed) as (Hk2 & _ & _ & Hl & _). cbv zeta in Hk2, Hl.
  inversion E; subst s2 b; clear E. sproj. rewrite l_len_app2.
  pose proof (TcpRecvBase.l_len_nonneg bytes).
  repeat split; try lia; try reflexivity; exact C.
Qed.

(* ---------------------------------------------------------------------------------------- *)
(* NI holds initially, hence in every state reached from net_init                            *)
(* ---------------------------------------------------------------------------------------- *)
Theorem NI_run evs : forall st st', NI st -> net_run st evs = Ok st' -> NI st'.
Proof.
  induction evs as [|ev r IH]; intros st st' HN H; cbn [net_run] in H.
  - inversion H; subst. exact HN.
  - apply obind_ok in H. destruct H as (st1 & H1 & H2). eapply IH; [|exact H2]. eapply NI_step; eassumption.
Qed.

Definition ep_inv0 (e : endpoint) : Prop := ep_inv e /\ s_ack_delay_timer (ep_sock e) = ADIdle.

Lemma reset_delack s : s_ack_delay_timer (tcp_reset s) = ADIdle.
Proof. unfold tcp_reset. sproj. reflexivity. Qed.

Lemma ep_step_inv0 e ev e' :
  match ev with
  | EvSetTimeout _ | EvSetKeepAlive _ | EvSetAckDelay _ | EvSetNagle _ | EvSetHopLimit _
  | EvListen _ | EvConnect _ _ _ => True
  | _ => False
  end ->
  ep_inv0 e -> ep_step e ev = Ok e' -> ep_inv0 e'.
Proof.
  intros Hev ((Hcx & Hnow & Ht & Hd) & Hi) H.
  destruct (ep_step_spec _ _ _ H) as (s' & out & tags & Hs & Hk & Hc & _).
  assert (Hevok : ev_ok ev) by (destruct ev; try contradiction; exact I).
  assert (Hn2 : 0 <= cx_now (ep_cx e) <= cx_now (ep_cx e)) by lia.
  pose proof (step_timed_inv (cx_now (ep_cx e)) _ _ _ _ _ _ Hn2 Hcx Hevok Ht Hs) as Ht'.
  assert (Hi' : s_ack_delay_timer s' = ADIdle).
  { destruct ev; try contradiction; cbn [tcp_step] in Hs.
    - destruct (tcp_listen (ep_sock e) ep) as [s1|err|] eqn:E; [| |discriminate].
      + assert (E1 : s1 = s') by (inversion Hs; reflexivity). subst s1.
        unfold tcp_listen in E. destruct (le_port ep =? 0); [discriminate|].
        destruct (tcp_is_open (ep_sock e)).
        * destruct (tcp_state_eqb _ _ && _); inversion E; subst; exact Hi.
        * inversion E; subst. pose proof (reset_delack (ep_sock e)) as R. revert R.
          generalize (tcp_reset (ep_sock e)). intros q R. sproj. exact R.
      + assert (E1 : s' = ep_sock e) by (inversion Hs; reflexivity). rewrite E1. exact Hi.
    - destruct (tcp_connect (ep_cx e) (ep_sock e) remote_addr remote_port local) as [s1|err|] eqn:E; [| |discriminate].
      + assert (E1 : s1 = s') by (inversion Hs; reflexivity). subst s1.
        unfold tcp_connect in E. destruct (tcp_is_open (ep_sock e)); [discriminate|].
        destruct ((remote_port =? 0) || (remote_addr =? 0)); [discriminate|].
        destruct (le_port local =? 0); [discriminate|].
        obind_inv E. inversion E; subst. pose proof (reset_delack (ep_sock e)) as R. revert R.
        generalize (tcp_reset (ep_sock e)). intros q R. sproj. exact R.
      + assert (E1 : s' = ep_sock e) by (inversion Hs; reflexivity). rewrite E1. exact Hi.
    - inversion Hs; subst. unfold tcp_set_timeout. sproj. exact Hi.
    - inversion Hs; subst. unfold tcp_set_keep_alive. destruct (is_some d); sproj; exact Hi.
    - inversion Hs; subst. unfold tcp_set_ack_delay. sproj. exact Hi.
    - inversion Hs; subst. unfold tcp_set_nagle_enabled. sproj. exact Hi.
    - obind_inv Hs. inversion Hs; subst. unfold tcp_set_hop_limit in E.
      destruct h as [[|hp|hn]|]; inversion E; subst; sproj; exact Hi. }
  split; [|rewrite Hk; exact Hi'].
  unfold ep_inv. rewrite Hc, Hk. split; [exact Hcx|]. split; [exact Hnow|]. split; [exact Ht'|].
  unfold delack_bounded. rewrite Hi'. exact I.
Qed.

Lemma ep_create_inv0 c e :
  cc_ok (c_cc c) -> 0 <= c_now c -> ep_create c = Ok e -> ep_inv0 e.
Proof.
  intros Hcc Hnow H. apply (ep_create_ind ep_inv0 c e); [| |exact H].
  - intros s Hs. pose proof (new_inv _ _ _ _ _ Hcc Hs) as I.
    assert (Ht : s_timer s = timer_new /\ s_ack_delay_timer s = ADIdle).
    { unfold tcp_new in Hs. destruct (rb_cap (rb_new (c_rx_storage c)) >? 2 ^ 30); [discriminate|].
      inversion Hs; subst. cbn. auto. }
    destruct Ht as (Ht & Hd).
    split; [|exact Hd]. unfold ep_inv. cbn [ep_cx ep_sock cfg_ctx cx_now].
    split; [unfold ctx_ok, u32; cbn [cx_isn]; apply Z.mod_pos_bound; reflexivity|].
    split; [exact Hnow|]. split; [split; [exact I | rewrite Ht; exact Logic.I]|].
    unfold delack_bounded. rewrite Hd. exact Logic.I.
  - intros e0 ev e1 P0 H1. destruct ev; try exact Logic.I;
      match type of H1 with ep_step _ ?v = _ => apply (ep_step_inv0 e0 v e1 Logic.I P0 H1) end.
Qed.

Theorem NI_init ca cb st :
  cc_ok (c_cc ca) -> cc_ok (c_cc cb) -> 0 <= c_now ca -> 0 <= c_now cb ->
  net_init ca cb = Ok st -> NI st.
Proof.
  intros Ha Hb Hna Hnb H. unfold net_init in H.
  apply obind_ok in H. destruct H as (a & H1 & H).
  apply obind_ok in H. destruct H as (b & H2 & H).
  apply obind_ok in H. destruct H as (b' & H3 & H).
  apply obind_ok in H. destruct H as (a' & H4 & H).
  inversion H; subst st; clear H.
  pose proof (ep_step_inv0 b (EvListen (mkListenEp None (c_port cb))) b' Logic.I (ep_create_inv0 _ _ Hb Hnb H2) H3) as (Pb & _).
  pose proof (ep_step_inv0 a (EvConnect (c_addr cb) (c_port cb) (mkListenEp None (c_port ca))) a' Logic.I (ep_create_inv0 _ _ Ha Hna H1) H4) as (Pa & _).
  intros [|]; cbn [net_get n_a n_b]; assumption.
Qed.
