(* Lemmas about Model/WireIpv6.v (properties C06, C07). *)
From SV Require Import Lib.Base Gen.WireFields Model.WireBase Model.WireIpv6 Proofs.WireBaseProofs.

(* the 40 octets emit produces *)
Definition ipv6_bytes (r : ipv6_repr) : list Z :=
  [96; 0; 0; 0] ++ be_enc2 (ipv6_payload_len r) ++ [ipv6_nxt r; ipv6_hop_limit r] ++ ipv6_src r ++ ipv6_dst r.

Lemma ipv6_wf_inv r : ipv6_wf r = true ->
  length (ipv6_src r) = 16%nat /\ length (ipv6_dst r) = 16%nat /\
  bytes_ok (ipv6_src r) = true /\ bytes_ok (ipv6_dst r) = true /\
  0 <= ipv6_nxt r < 256 /\ 0 <= ipv6_hop_limit r < 256 /\ 0 <= ipv6_payload_len r < 65536.
Proof.
  unfold ipv6_wf. intros H. bsplit.
  repeat split; try lia; try assumption; apply blen_length; assumption.
Qed.

Lemma ipv6_bytes_len r : ipv6_wf r = true -> blen (ipv6_bytes r) = ipv6_buffer_len r.
Proof.
  intros Hwf. apply ipv6_wf_inv in Hwf. destruct Hwf as (H1 & H2 & _).
  unfold ipv6_bytes, blen. rewrite !app_length, H1, H2. reflexivity.
Qed.

Lemma ipv6_emit_tail r h t : ipv6_wf r = true -> blen h = ipv6_buffer_len r ->
  ipv6_emit r (h ++ t) = Ok (ipv6_bytes r ++ t).
Proof.
  intros Hwf Hb. apply ipv6_wf_inv in Hwf. destruct Hwf as (H1 & H2 & _ & _ & _ & _ & Hp).
  unfold ipv6_buffer_len in Hb. zfold_in Hb. apply (blen_length _ 40) in Hb.
  destruct r as [s d n pl hop]; cbn [ipv6_src ipv6_dst ipv6_hop_limit ipv6_nxt ipv6_payload_len] in *.
  cells Hb. cells H1. cells H2.
  unfold ipv6_bytes. cbn [ipv6_src ipv6_dst ipv6_hop_limit ipv6_nxt ipv6_payload_len].
  unfold ipv6_emit, ipv6_set_version, ipv6_set_traffic_class, ipv6_set_flow_label, ipv6_set_payload_len,
    ipv6_set_hop_limit, ipv6_set_next_header, ipv6_set_src_addr, ipv6_set_dst_addr, wb_put_u16, wb_set_field.
  cbn [ipv6_src ipv6_dst ipv6_hop_limit ipv6_nxt ipv6_payload_len].
  rewrite (Z.mod_small pl) by lia.
  hstep. rewrite !obind_assoc. hstep. hstep. rewrite !obind_assoc. hstep. bits_norm. unfold be_enc3. zfold.
  hstep. hstep. hstep. hstep. hstep. hstep. bits_norm. reflexivity.
Qed.

Lemma ipv6_emit_spec r b : ipv6_wf r = true -> blen b = ipv6_buffer_len r ->
  ipv6_emit r b = Ok (ipv6_bytes r).
Proof.
  intros Hwf Hb. rewrite <- (app_nil_r b). rewrite ipv6_emit_tail by assumption.
  rewrite app_nil_r. reflexivity.
Qed.

Lemma ipv6_emit_frame r h t : ipv6_wf r = true -> blen h = ipv6_buffer_len r ->
  ipv6_emit r (h ++ t) = omap (fun x => x ++ t) (ipv6_emit r h).
Proof. intros Hwf Hb. rewrite ipv6_emit_tail, ipv6_emit_spec by assumption. reflexivity. Qed.

Lemma ipv6_emit_no_panic r b : ipv6_wf r = true -> blen b = ipv6_buffer_len r -> ipv6_emit r b <> Panic.
Proof. intros; rewrite ipv6_emit_spec by assumption; discriminate. Qed.

Lemma ipv6_emit_ignores_old_bytes r b1 b2 : ipv6_wf r = true ->
  blen b1 = ipv6_buffer_len r -> blen b2 = ipv6_buffer_len r -> ipv6_emit r b1 = ipv6_emit r b2.
Proof. intros; rewrite !ipv6_emit_spec by assumption; reflexivity. Qed.

Lemma ipv6_parse_bytes r payload : ipv6_wf r = true -> blen payload = ipv6_payload_len r ->
  ipv6_parse (ipv6_bytes r ++ payload) = Ok r /\ ipv6_payload (ipv6_bytes r ++ payload) = Ok payload.
Proof.
  intros Hwf Hpl. apply ipv6_wf_inv in Hwf. destruct Hwf as (H1 & H2 & _ & _ & Hn & Hh & Hp).
  destruct r as [s d n pl hop]; cbn [ipv6_src ipv6_dst ipv6_hop_limit ipv6_nxt ipv6_payload_len] in *.
  revert Hpl. cells H1. cells H2. intros Hpl.
  unfold ipv6_bytes. cbn [ipv6_src ipv6_dst ipv6_hop_limit ipv6_nxt ipv6_payload_len].
  unfold be_enc2. cbn [app]. refold_tail payload. pose proof (blen_nonneg payload).
  split.
  - unfold ipv6_parse, ipv6_check_len, ipv6_total_len, ipv6_payload_len_, ipv6_header_len, ipv6_version,
      ipv6_src_addr, ipv6_dst_addr, ipv6_next_header, ipv6_hop_limit_, wb_get_u16, wb_field. zfold.
    autorewrite with blen. zfold. zbool.
    hstep. rewrite (be_dec_cells2 pl) by lia. zbool. hstep. zfold. cbn [wb_guard obind].
    hstep. hstep. hstep. hstep.
    unfold wb_arr. autorewrite with blen. zfold. cbn [obind]. reflexivity.
  - unfold ipv6_payload, ipv6_total_len, ipv6_payload_len_, ipv6_header_len, wb_get_u16. zfold.
    hstep. rewrite (be_dec_cells2 pl) by lia.
    apply wb_sub_tail; autorewrite with blen; zfold; lia.
Qed.

(* what the accessors read from an emitted header followed by arbitrary octets
   (used by the ICMPv6 model, which embeds an IPv6 header) *)
Lemma ipv6_bytes_accessors r rest : ipv6_wf r = true ->
  let bs := ipv6_bytes r ++ rest in
  ipv6_src_addr bs = Ok (ipv6_src r) /\ ipv6_dst_addr bs = Ok (ipv6_dst r) /\
  ipv6_next_header bs = Ok (ipv6_nxt r) /\ ipv6_payload_len_ bs = Ok (ipv6_payload_len r) /\
  ipv6_hop_limit_ bs = Ok (ipv6_hop_limit r).
Proof.
  intros Hwf. apply ipv6_wf_inv in Hwf. destruct Hwf as (H1 & H2 & _ & _ & Hn & Hh & Hp).
  destruct r as [s d n pl hop]; cbn [ipv6_src ipv6_dst ipv6_hop_limit ipv6_nxt ipv6_payload_len] in *.
  cells H1. cells H2.
  unfold ipv6_bytes. cbn [ipv6_src ipv6_dst ipv6_hop_limit ipv6_nxt ipv6_payload_len].
  unfold be_enc2. cbn [app]. refold_tail rest. cbv zeta.
  unfold ipv6_payload_len_, ipv6_src_addr, ipv6_dst_addr, ipv6_next_header, ipv6_hop_limit_, wb_get_u16, wb_field.
  zfold. hstep. rewrite (be_dec_cells2 pl) by lia. hstep. hstep. hstep. hstep.
  unfold wb_arr. autorewrite with blen. zfold. cbn [obind]. repeat split; reflexivity.
Qed.

Lemma ipv6_roundtrip r b : ipv6_wf r = true -> blen b = ipv6_buffer_len r ->
  exists bs, ipv6_emit r b = Ok bs /\ blen bs = ipv6_buffer_len r /\
    forall payload, blen payload = ipv6_payload_len r ->
      ipv6_parse (bs ++ payload) = Ok r /\ ipv6_payload (bs ++ payload) = Ok payload.
Proof.
  intros Hwf Hb. exists (ipv6_bytes r).
  split; [apply ipv6_emit_spec; assumption|]. split; [apply ipv6_bytes_len; assumption|].
  intros p Hp. apply ipv6_parse_bytes; assumption.
Qed.

(* ---------- C07 ---------- *)

Lemma ipv6_check_len_inv bs : bytes_ok bs = true -> ipv6_check_len bs = Ok tt ->
  exists l, ipv6_payload_len_ bs = Ok l /\ 0 <= l < 65536 /\ 40 + l <= blen bs.
Proof.
  intros Hb. unfold ipv6_check_len, ipv6_total_len, ipv6_header_len. zfold.
  destruct (blen bs <? 40) eqn:E; [discriminate|]. bsplit.
  destruct (wb_get_u16_word bs wipv6_f_LENGTH) as (l & Hl & Rl); try (zfold; lia); try assumption.
  unfold ipv6_payload_len_. rewrite Hl. cbn [obind].
  case_if; [discriminate|]. bsplit. intros _. exists l. repeat split; try reflexivity; lia.
Qed.

Lemma ipv6_accessors_safe bs : bytes_ok bs = true -> ipv6_check_len bs = Ok tt ->
  ipv6_version bs <> Panic /\ ipv6_traffic_class bs <> Panic /\ ipv6_flow_label bs <> Panic /\
  ipv6_payload_len_ bs <> Panic /\ ipv6_total_len bs <> Panic /\ ipv6_next_header bs <> Panic /\
  ipv6_hop_limit_ bs <> Panic /\ ipv6_src_addr bs <> Panic /\ ipv6_dst_addr bs <> Panic /\
  ipv6_payload bs <> Panic.
Proof.
  intros Hb H. destruct (ipv6_check_len_inv bs Hb H) as (l & Hl & R1 & R2).
  assert (G8 : forall i, 0 <= i < 40 -> exists v, wb_get_u8 bs i = Ok v).
  { intros i Hi. destruct (wb_get_u8_byte bs i) as (v & -> & _); [lia | assumption | eauto]. }
  assert (GB : forall lo hi n, 0 <= lo -> lo + n <= hi -> 0 <= n -> hi <= 40 -> wb_get_be bs lo hi n <> Panic).
  { intros. apply wb_get_be_nopanic; lia. }
  assert (GA : forall f, 0 <= fst f -> fst f + 16 = snd f -> snd f <= 40 ->
                         (do s <- wb_field bs f; wb_arr 16 s) <> Panic).
  { intros f ? ? ?. unfold wb_field. rewrite wb_sub_ok by lia. cbn [obind]. unfold wb_arr.
    rewrite blen_firstn by (rewrite blen_skipn; lia). zbool. discriminate. }
  unfold ipv6_version, ipv6_traffic_class, ipv6_flow_label, ipv6_total_len, ipv6_next_header,
    ipv6_hop_limit_, ipv6_src_addr, ipv6_dst_addr, ipv6_payload, ipv6_total_len, ipv6_header_len.
  rewrite Hl. cbn [obind].
  destruct (G8 (fst wipv6_f_VER_TC_FLOW)) as (? & ->); [zfold; lia|].
  destruct (G8 wipv6_f_NXT_HDR) as (? & ->); [zfold; lia|].
  destruct (G8 wipv6_f_HOP_LIMIT) as (? & ->); [zfold; lia|].
  cbn [obind].
  repeat split; try discriminate; try (apply GA; zfold; lia).
  - apply obind_nopanic; [apply GB; lia | intros; discriminate].
  - apply obind_nopanic; [apply GB; lia | intros; discriminate].
  - apply wb_sub_nopanic; zfold; lia.
Qed.

Lemma ipv6_parse_total bs : bytes_ok bs = true -> ipv6_parse bs <> Panic.
Proof.
  intros Hb. unfold ipv6_parse.
  destruct (ipv6_check_len bs) as [[]| |] eqn:E; cbn [obind]; try discriminate.
  - destruct (ipv6_accessors_safe bs Hb E) as (A1 & A2 & A3 & A4 & A5 & A6 & A7 & A8 & A9 & A10). nopanic.
  - exfalso. revert E. unfold ipv6_check_len, ipv6_total_len, ipv6_header_len. zfold.
    destruct (blen bs <? 40) eqn:L; [discriminate|]. bsplit.
    destruct (wb_get_u16_word bs wipv6_f_LENGTH) as (l & Hl & _); try (zfold; lia); try assumption.
    unfold ipv6_payload_len_. rewrite Hl. cbn [obind]. case_if; discriminate.
Qed.

Lemma ipv6_parse_wf bs r : bytes_ok bs = true -> ipv6_parse bs = Ok r -> ipv6_wf r = true.
Proof.
  intros Hb H. unfold ipv6_parse in H.
  destruct (ipv6_check_len bs) as [[]| |] eqn:E; cbn [obind] in H; try discriminate.
  destruct (ipv6_check_len_inv bs Hb E) as (l & Hl & R1 & R2).
  rewrite Hl in H. obind_inv H. injection H as <-.
  repeat match goal with X : Ok ?a = Ok ?b |- _ => assert (a = b) by congruence; clear X; subst end.
  unfold ipv6_wf; cbn [ipv6_src ipv6_dst ipv6_nxt ipv6_payload_len ipv6_hop_limit].
  assert (HA : forall f s, (do x <- wb_field bs f; wb_arr 16 x) = Ok s -> is_arr 16 s = true).
  { intros f s X. obind_inv X. unfold wb_arr in X.
    match type of X with (if blen ?x =? 16 then _ else _) = _ => destruct (blen x =? 16) eqn:L4; [|discriminate] end.
    injection X as <-. unfold is_arr. rewrite L4. cbn [andb]. eapply wb_sub_bytes; eassumption. }
  unfold ipv6_src_addr, ipv6_dst_addr in *.
  match goal with X : (do s <- wb_field bs wipv6_f_SRC_ADDR; wb_arr 16 s) = Ok _ |- _ => apply HA in X; rewrite X end.
  match goal with X : (do s <- wb_field bs wipv6_f_DST_ADDR; wb_arr 16 s) = Ok _ |- _ => apply HA in X; rewrite X end.
  unfold ipv6_next_header, ipv6_hop_limit_ in *.
  destruct (wb_get_u8_byte bs wipv6_f_NXT_HDR) as (p & Hp & Rp); try (zfold; lia); try assumption.
  destruct (wb_get_u8_byte bs wipv6_f_HOP_LIMIT) as (h & Hh & Rh); try (zfold; lia); try assumption.
  repeat match goal with
  | X : wb_get_u8 bs wipv6_f_NXT_HDR = Ok _ |- _ => rewrite Hp in X; injection X as <-
  | X : wb_get_u8 bs wipv6_f_HOP_LIMIT = Ok _ |- _ => rewrite Hh in X; injection X as <-
  end.
  unfold is_u8, is_u16. zbool. reflexivity.
Qed.

Lemma ipv6_reparse bs r : bytes_ok bs = true -> ipv6_parse bs = Ok r ->
  ipv6_wf r = true /\
  forall b, blen b = ipv6_buffer_len r ->
    exists bs', ipv6_emit r b = Ok bs' /\
      forall payload, blen payload = ipv6_payload_len r -> ipv6_parse (bs' ++ payload) = Ok r.
Proof.
  intros Hb H. pose proof (ipv6_parse_wf _ _ Hb H) as Hwf. split; [assumption|].
  intros b Hlen. destruct (ipv6_roundtrip r b Hwf Hlen) as (bs' & He & _ & Hp).
  exists bs'. split; [assumption|]. intros p Hpl. apply Hp; assumption.
Qed.
