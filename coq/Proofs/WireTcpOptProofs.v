(* TcpOption as a stand-alone wire type (src/wire/tcp.rs: TcpOption::{emit, parse, buffer_len}; property C06):
   every option value - EndOfList, NoOperation, MaxSegmentSize, WindowScale, SackPermitted, SackRange,
   TimeStamp and Unknown - emitted into a buffer of its declared length parses back to itself with
   nothing left over.  The options TCP Repr::emit writes are covered by Proofs/WireTcpEmitProofs.v /
   WireTcpParseProofs.v (tcp_option_emit_at, tcp_option_parse_bytes); this file adds EndOfList,
   NoOperation and Unknown, and the combined statement. *)
From SV Require Import Lib.Base Gen.WireFields Gen.Consts Model.WireBase Model.WireTcp.
From SV Require Import Proofs.WireBaseProofs Proofs.WireBaseProofs2 Proofs.WireTcpProofs Proofs.WireTcpEmitProofs
  Proofs.WireTcpParseProofs.

(* the proviso: values within their field widths; SackRange slots filled from the front (emit skips empty
   slots, so [None; Some _; _] comes back as [Some _; ..]); Unknown carries a kind that parse does not
   decode as a known option, and at most 253 data octets (the length octet counts kind and length too) *)
Definition tcp_opt_unknown_ok (k : Z) (d : list Z) : Prop :=
  0 <= k < 256 /\ bytes_ok d = true /\ blen d <= 253 /\
  k <> 0 /\ k <> 1 /\ k <> 2 /\ k <> 3 /\ k <> 4 /\ k <> 5 /\ (k = 8 -> blen d <> 8).

Definition tcp_opt_standalone_wf (o : tcp_option) : Prop :=
  match o with
  | OptEnd | OptNop => True
  | OptUnknown k d => tcp_opt_unknown_ok k d
  | _ => tcp_opt_emittable o /\ tcp_opt_vals_ok o
  end.

Lemma tcp_opt_nop_emit c : tcp_option_emit OptNop [c] 0 1 = Ok ([1], 1).
Proof. reflexivity. Qed.

Lemma tcp_opt_end_emit c : tcp_option_emit OptEnd [c] 0 1 = Ok ([0], 1).
Proof. reflexivity. Qed.

Lemma tcp_opt_unknown_emit k d b : tcp_opt_unknown_ok k d -> bytes_ok b = true -> blen b = 2 + blen d ->
  tcp_option_emit (OptUnknown k d) b 0 (blen b) = Ok ([k; 2 + blen d] ++ d, blen b).
Proof.
  intros (Hk & Hd & Hl & _) Hb Hlen. pose proof (blen_nonneg d) as Hd0.
  destruct (split_hdr b 2 ltac:(lia)) as (h & t & -> & Hh & Ht).
  change (Z.to_nat 2) with 2%nat in Hh. cells Hh. rewrite Hlen in *.
  unfold tcp_option_emit, tcp_set_in, wb_assert. cbn [tcp_option_buffer_len]. zfold. zbool.
  rewrite (Z.mod_small (2 + blen d)) by lia.
  remember (2 + blen d) as n eqn:En.
  repeat hstep. zbool. cbn [obind].
  rewrite wb_set_slice_tail; [ | reflexivity | autorewrite with blen in *; zfold; lia | autorewrite with blen in *; zfold; lia ].
  cbn [obind]. zbool. cbn [obind]. reflexivity.
Qed.
Lemma tcp_opt_unknown_parse k d : tcp_opt_unknown_ok k d ->
  tcp_option_parse ([k; 2 + blen d] ++ d) = Ok ([], OptUnknown k d).
Proof.
  intros (Hk & Hd & Hl & N0 & N1 & N2 & N3 & N4 & N5 & N8). pose proof (blen_nonneg d) as Hd0.
  unfold tcp_option_parse. cbn [app nth_error].
  unfold wtcp_OPT_END, wtcp_OPT_NOP, wtcp_OPT_MSS, wtcp_OPT_WS, wtcp_OPT_SACKPERM, wtcp_OPT_SACKRNG, wtcp_OPT_TSTAMP.
  zbool.
  rewrite wb_sub_opt_sub. refold_tail d.
  rewrite (wb_sub_tail [k; 2 + blen d] d) by (autorewrite with blen; zfold; lia).
  replace ((k =? 8) && (2 + blen d =? 10)) with false
    by (symmetry; destruct (k =? 8) eqn:E8; [bsplit; specialize (N8 E8); cbn [andb]; zbool; reflexivity | reflexivity]).
  cbn [obind].
  replace (wb_from ([k; 2 + blen d] ++ d) (2 + blen d)) with (Ok (@nil Z)).
  2:{ symmetry. unfold wb_from. autorewrite with blen. zfold. zbool.
      rewrite skipn_all2; [reflexivity|]. rewrite app_length. cbn [length]. unfold blen in *. lia. }
  reflexivity.
Qed.

(* the combined statement *)
Lemma tcp_option_standalone_roundtrip o b :
  tcp_opt_standalone_wf o -> bytes_ok b = true -> blen b = tcp_option_buffer_len o ->
  tcp_option_emit o b 0 (blen b) = Ok (tcp_option_bytes o, blen b) /\
  tcp_option_parse (tcp_option_bytes o) = Ok ([], o).
Proof.
  intros Hwf Hb Hlen.
  assert (Hem : tcp_opt_emittable o -> tcp_opt_vals_ok o ->
    tcp_option_emit o b 0 (blen b) = Ok (tcp_option_bytes o, blen b) /\
    tcp_option_parse (tcp_option_bytes o) = Ok ([], o)).
  { intros He Hv. split.
    - pose proof (tcp_option_emit_at o [] b [] (blen b) He ltac:(rewrite blen_nil; lia) ltac:(lia)) as E.
      rewrite blen_nil in E. cbn [app] in E. rewrite app_nil_r in E. rewrite E.
      rewrite skipn_all2 by (unfold blen in *; lia). rewrite !app_nil_r. rewrite Hlen. reflexivity.
    - pose proof (tcp_option_parse_bytes o [] He Hv) as P. rewrite app_nil_r in P. exact P. }
  destruct o as [| |v|v| |r0 r1 r2|a c|k d]; cbn [tcp_opt_standalone_wf] in Hwf;
    try (destruct Hwf as (He & Hv); exact (Hem He Hv)).
  - (* End *) cbn [tcp_option_buffer_len] in Hlen. apply (blen_length b 1%nat) in Hlen. cells Hlen.
    split; reflexivity.
  - (* Nop *) cbn [tcp_option_buffer_len] in Hlen. apply (blen_length b 1%nat) in Hlen. cells Hlen.
    split; reflexivity.
  - (* Unknown *) cbn [tcp_option_buffer_len tcp_option_bytes] in *. split.
    + apply tcp_opt_unknown_emit; assumption.
    + apply tcp_opt_unknown_parse; assumption.
Qed.

(* outside the proviso: a SackRange whose first slot is empty comes back shifted to the front *)
Lemma tcp_option_sack_hole_refuted :
  exists o b bs n, tcp_option_emit o b 0 (blen b) = Ok (bs, n) /\ blen b = tcp_option_buffer_len o /\
    exists o', tcp_option_parse bs = Ok ([], o') /\ o' <> o.
Proof.
  exists (OptSackRange None (Some (1, 2)) None), (repeat 0 10), [5; 10; 0; 0; 0; 1; 0; 0; 0; 2], 10.
  split; [vm_compute; reflexivity|]. split; [reflexivity|].
  exists (OptSackRange (Some (1, 2)) None None). split; [vm_compute; reflexivity | discriminate].
Qed.
