(* C02 (liveness half), close, layer 3: ONE SOCKET OF A CLOSING CONNECTION UNDER THE EVENTS OF A RUN.
   [gview cx s t st una nxt ws tm la M]: the socket is in state [st], SND.UNA = una, SND.NXT = nxt,
   RCV.NXT = ws, its timer is [tm], the last ACK it sent acknowledged [la], the highest sequence number
   it ever sent is [M]; nothing is queued in either direction, no delayed-ACK timer runs, no window
   update is due.
     step_quiet       recv, a refused send, a close() that changes nothing, a poll with nothing due: the view
                      is kept, nothing is emitted
     step_fin_rx      the peer's FIN arrives in order: CLOSE-WAIT / TIME-WAIT, RCV.NXT + 1, the ACK is owed
     step_ackfin_rx   the ACK of the FIN arrives: FIN-WAIT-2 / CLOSED
     step_disp_fin    the poll that sends (or retransmits) the FIN
     step_disp_ack    the poll that sends the owed ACK
     step_tw_expire   the poll that ends TIME-WAIT *)
From SV Require Import Lib.Base Gen.Consts.
From SV Require Import Model.Seq32 Model.Assembler Model.TcpBuf Model.TcpTypes Model.Tcp Model.TcpNet.
From SV Require Proofs.TcpRecvBase Proofs.TcpRecvInv Proofs.TcpRecvProcess Proofs.TcpRecvDispatch.
From SV Require Import Proofs.TcpSendBase Proofs.TcpLiveBase Proofs.TcpLiveProofs Proofs.TcpLiveMore
  Proofs.TcpLiveProgress.
From SV Require Import Proofs.TcpNetBase.
From SV Require Import Proofs.TcpProgressBase Proofs.TcpProgressFrame Proofs.TcpProgressCtl Proofs.TcpProgressRecv
  Proofs.TcpProgressSend Proofs.TcpProgressNet Proofs.TcpProgressData Proofs.TcpProgressAck
  Proofs.TcpProgressAll Proofs.TcpProgressSafe Proofs.TcpProgressHs Proofs.TcpProgressHsD
  Proofs.TcpProgressCl1 Proofs.TcpProgressCl2.

Module RB := TcpRecvBase.
Module RI := TcpRecvInv.
Module RD := TcpRecvDispatch.

(* ---------------------------------------------------------------------------------------- *)
(* the view                                                                                  *)
(* ---------------------------------------------------------------------------------------- *)
Record csock (cx : ctx) (s : socket) (t : tuple) (st : tcp_state) (una nxt ws : Z) : Prop := mkCsock {
  cs_k : ctl_sock cx s t;
  cs_state : s_state s = st;
  cs_una : s_local_seq_no s = una;
  cs_nxt : s_remote_last_seq s = nxt;
  cs_ws : tcp_window_start s = ws;
  cs_adt : s_ack_delay_timer s = ADIdle;
  cs_rx0 : rb_len (s_rx_buffer s) = 0;
  cs_wtu : tcp_window_to_update s = Ok false
}.

Definition gview (cx : ctx) (s : socket) (t : tuple) (st : tcp_state) (una nxt ws : Z) (tm : timer) (la : Z)
           (M : option Z) : Prop :=
  csock cx s t st una nxt ws /\ s_timer s = tm /\ s_remote_last_ack s = Some la /\
  rt_max_seq_sent (s_rtte s) = M.

(* [s'] is [s] as far as the view is concerned: the receive ring may have been re-based (a recv of nothing) *)
Definition veq (s' s : socket) : Prop :=
  s_state s' = s_state s /\ s_timer s' = s_timer s /\ s_tuple s' = s_tuple s /\ s_tx_buffer s' = s_tx_buffer s /\
  s_local_seq_no s' = s_local_seq_no s /\ s_remote_last_seq s' = s_remote_last_seq s /\
  s_remote_win_len s' = s_remote_win_len s /\ s_rtte s' = s_rtte s /\
  (RB.rb_wf (s_rx_buffer s) -> RB.rb_wf (s_rx_buffer s')) /\
  rb_cap (s_rx_buffer s') = rb_cap (s_rx_buffer s) /\ rb_len (s_rx_buffer s') = rb_len (s_rx_buffer s) /\
  tcp_window_start s' = tcp_window_start s /\
  s_remote_last_ack s' = s_remote_last_ack s /\ s_remote_last_win s' = s_remote_last_win s /\
  s_remote_win_shift s' = s_remote_win_shift s /\ auxf s' s /\
  s_pending_fast_retransmit s' = s_pending_fast_retransmit s /\
  s_syn_unacked_in_fin_wait s' = s_syn_unacked_in_fin_wait s.

Lemma veq_refl s : veq s s.
Proof. unfold veq. repeat (split; [first [reflexivity | exact (fun H => H) | apply auxf_refl]|]). reflexivity. Qed.

Lemma cveq_veq s' s : cveq s' s -> veq s' s.
Proof.
  intros (E1 & E2 & E3 & E4 & E5 & E6 & E7 & E8 & E9 & E10 & E11 & E12).
  pose proof (RI.rxv_eq_window_start _ _ E9) as Hws.
  destruct E9 as (R1 & R2 & R3 & R4 & R5 & R6 & R7).
  unfold veq. rewrite R2. repeat (split; [first [assumption | reflexivity | exact (fun H => H)]|]). assumption.
Qed.

Lemma veq_scaled_window s' s : veq s' s -> tcp_scaled_window s' = tcp_scaled_window s.
Proof.
  intros (_ & _ & _ & _ & _ & _ & _ & _ & _ & Ec & El & _ & _ & _ & Es & _).
  unfold tcp_scaled_window, rb_window. rewrite Ec, El, Es. reflexivity.
Qed.

Lemma veq_wtu s' s : veq s' s -> tcp_window_to_update s' = tcp_window_to_update s.
Proof.
  intros V. pose proof (veq_scaled_window _ _ V) as Hsw.
  destruct V as (E1 & _ & _ & _ & _ & _ & _ & _ & _ & Ec & El & Ews & Ela & Elw & Es & _ & _ & Esuf).
  unfold tcp_window_to_update, tcp_last_scaled_window. fold (tcp_window_start s') (tcp_window_start s).
  rewrite Esuf, E1, Hsw, Ela, Elw, Es, Ews. reflexivity.
Qed.

(* the receive side is unchanged and the state stays among those in which window updates are sent *)
Lemma rxv_eq_wtu s' s :
  RI.rxv_eq s' s -> s_syn_unacked_in_fin_wait s' = s_syn_unacked_in_fin_wait s ->
  (s_state s' = s_state s \/ (s_state s = FinWait1 /\ s_state s' = FinWait2)) ->
  tcp_window_to_update s' = tcp_window_to_update s.
Proof.
  intros R Esuf Hst. pose proof (RI.rxv_eq_scaled_window _ _ R) as Hsw.
  pose proof (RI.rxv_eq_window_start _ _ R) as Hws.
  destruct R as (_ & _ & _ & _ & Ela & Elw & Es).
  unfold tcp_window_to_update, tcp_last_scaled_window. fold (tcp_window_start s') (tcp_window_start s).
  rewrite Esuf, Hsw, Ela, Elw, Es, Hws. destruct Hst as [-> | (-> & ->)]; reflexivity.
Qed.

Lemma veq_gview cx s' s t st una nxt ws tm la M :
  veq s' s -> gview cx s t st una nxt ws tm la M -> gview cx s' t st una nxt ws tm la M.
Proof.
  intros V (C & Ht & Hla & Hm). pose proof (veq_wtu _ _ V) as Hsw.
  destruct V as (E1 & E2 & E3 & E4 & E5 & E6 & E7 & E8 & E9 & E10 & E11 & E12 & E13 & E14 & E15 & ((A1 & A2 & A3) & A4) & E17 & E18).
  destruct C as [K C1 C2 C3 C4 C5 C6 C7].
  split; [|rewrite E2, E13, E8; auto].
  constructor; try congruence.
  destruct K. constructor; rewrite ?E3, ?E4, ?E5, ?E7, ?E8, ?E15, ?A2, ?A3, ?E17, ?E18; auto.
Qed.

(* ---------------------------------------------------------------------------------------- *)
(* events that change nothing                                                                *)
(* ---------------------------------------------------------------------------------------- *)
Lemma step_recv cx s n s' out tags :
  0 <= n -> RB.rb_wf (s_rx_buffer s) -> rb_len (s_rx_buffer s) = 0 ->
  tcp_step cx s (EvRecv n) = Ok (s', out, tags) -> wire_out out = None /\ veq s' s.
Proof.
  intros Hn Hwf Hl H. cbn [tcp_step] in H.
  destruct (tcp_recv_slice s n) as [(s1, b)|e|] eqn:E; [| |discriminate]; inversion H; subst s' out tags; clear H.
  2:{ split; [reflexivity | apply veq_refl]. }
  split; [reflexivity|].
  pose proof (recv_slice_ws s n s1 b Hwf Hn E) as Hws.
  unfold tcp_recv_slice in E. obind_inv E.
  destruct (rb_dequeue_slice (s_rx_buffer s) n) as (rx, bytes) eqn:Ed. inversion E; subst s1 b; clear E.
  destruct (RB.rb_dequeue_slice_spec _ _ _ _ Hwf Hn Ed) as (Hk & Hwf' & Hc & Hl' & _).
  revert Hws. unfold veq, auxf, cfgf. sproj. intros Hws.
  repeat (split; [first [reflexivity | assumption | intros _; exact Hwf']|]).
  split; [lia|]. split; [exact Hws|]. repeat split; reflexivity.
Qed.

Lemma step_send_refused cx s d s' out tags :
  tcp_may_send s = false -> tcp_step cx s (EvSend d) = Ok (s', out, tags) -> wire_out out = None /\ s' = s.
Proof.
  intros Hm H. cbn [tcp_step] in H. unfold tcp_send_slice in H. rewrite Hm in H. cbn [negb] in H.
  inversion H; subst. split; reflexivity.
Qed.

Lemma step_close_noop cx s s' out tags :
  tcp_close s = s -> tcp_step cx s EvClose = Ok (s', out, tags) -> wire_out out = None /\ s' = s.
Proof. intros Hc H. cbn [tcp_step] in H. rewrite Hc in H. inversion H; subst. split; reflexivity. Qed.

(* ---------------------------------------------------------------------------------------- *)
(* segments of the close                                                                     *)
(* ---------------------------------------------------------------------------------------- *)
(* a segment without payload from the socket whose address tuple is [t] *)
Definition is_seg (t : tuple) (c : control) (seq ack : Z) (p : packet) : Prop :=
  sent_from t p /\ r_control (snd p) = c /\ r_payload (snd p) = [] /\
  r_seq_number (snd p) = seq /\ r_ack_number (snd p) = Some ack.

Lemma seq_norm_u32 a : 0 <= a < 4294967296 -> seq_norm a = a.
Proof. intros H. unfold seq_norm, seq_modulus. change (2 ^ 32) with 4294967296. apply Z.mod_small. exact H. Qed.

Lemma is_seg_parse t c seq ack p :
  is_seg t c seq ack p -> 0 <= seq < 4294967296 -> 0 <= ack < 4294967296 ->
  sent_to (mirror t) (fst p) (wire_parse (snd p)) /\ r_control (wire_parse (snd p)) = c /\
  r_payload (wire_parse (snd p)) = [] /\ r_seq_number (wire_parse (snd p)) = seq /\
  r_ack_number (wire_parse (snd p)) = Some ack.
Proof.
  intros (Hf & Hc & Hp & Hs & Ha) Hus Hua.
  split; [apply sent_to_parse, sent_from_to; exact Hf|].
  unfold wire_parse. cbn [r_control r_payload r_seq_number r_ack_number].
  rewrite Hc, Hp, Hs, Ha, (seq_norm_u32 _ Hus), (seq_norm_u32 _ Hua). repeat split; reflexivity.
Qed.

Lemma ingress_process cx s t ip r s' out tags :
  s_state s <> Closed -> s_state s <> Listen -> s_tuple s = Some t -> tuple_nz t -> sent_to t ip r ->
  tcp_step cx s (EvSegment ip r) = Ok (s', out, tags) ->
  exists rep, out = OReply rep /\ tcp_process cx s ip r = Ok (s', rep, tags).
Proof.
  intros N1 N2 Htu Hnz Hto H. cbn [tcp_step] in H.
  apply obind_ok in H. destruct H as (((s1 & rep) & tg) & Hi & H).
  inversion H; subst s1 out tg; clear H.
  destruct (accepts_of_sent_to_gen s t ip r N1 N2 Htu Hnz Hto) as (A1 & A2 & A3).
  unfold iface_tcp_ingress in Hi. rewrite A1, A2, A3 in Hi. exists rep. split; [reflexivity | exact Hi].
Qed.

Lemma u32_range a : u32 a -> 0 <= a < 4294967296.
Proof. unfold u32. change (2 ^ 32) with 4294967296. auto. Qed.

(* the peer's FIN arrives, in order *)
Lemma step_fin_rx cx s t st una ws la M ip r s' out tags :
  gview cx s t st una una ws (TIdle None) la M -> (st = Established \/ st = FinWait2) ->
  tuple_nz t -> sent_to t ip r ->
  r_control r = CFin -> r_payload r = [] -> r_seq_number r = ws -> r_ack_number r = Some una ->
  tcp_step cx s (EvSegment ip r) = Ok (s', out, tags) -> 0 <= s_remote_win_len s' ->
  wire_out out = None /\
  gview cx s' t (if tcp_state_eqb st Established then CloseWait else TimeWait) una una (seq_add ws 1)
        (if tcp_state_eqb st Established then TIdle None else TClose (cx_now cx + tcp_CLOSE_DELAY)) la M.
Proof.
  intros (C & Htm & Hla & Hm) Hst Hnz Hto Hc Hp Hs Ha H Hwin'.
  destruct C as [K C1 C2 C3 C4 C5 C6 C7].
  destruct (ingress_process cx s t ip r s' out tags) as (rep & -> & Hpr); try assumption.
  { rewrite C1. destruct Hst as [-> | ->]; discriminate. }
  { rewrite C1. destruct Hst as [-> | ->]; discriminate. }
  { exact (k_tuple _ _ _ K). }
  destruct (proc_fin cx s ip r s' rep tags) as (R1 & R2 & R3 & R4 & R5 & R6 & R7 & R8 & R9 & R10 & R11 & R12 & R13 & R14 & R15 & R16);
    try assumption.
  { rewrite C1. exact Hst. } { exact (k_suf _ _ _ K). } { exact (k_tx _ _ _ K). } { exact (k_ka _ _ _ K). }
  { exact (k_una _ _ _ K). } { congruence. } { congruence. } { congruence. }
  subst rep. split; [reflexivity|].
  rewrite C1 in R2, R3.
  assert (Hsw : tcp_scaled_window s' = tcp_scaled_window s) by (unfold tcp_scaled_window; rewrite R13, R12; reflexivity).
  destruct R14 as ((A1 & A2 & A3) & A4). destruct R15 as (X1 & X2 & X3).
  split; [|split; [exact R3|]; split; [congruence|congruence]].
  constructor; try congruence.
  - destruct K. constructor; rewrite ?R4, ?R5, ?R6, ?R12, ?R13, ?A2, ?A3, ?X1; auto.
  - unfold tcp_window_to_update. rewrite R2. destruct (s_syn_unacked_in_fin_wait s'); [reflexivity|].
    destruct Hst as [-> | ->]; reflexivity.
Qed.

(* the ACK of the FIN arrives *)
Lemma step_ackfin_rx cx s t st una nxt ws tm la M ip r s' out tags :
  gview cx s t st una nxt ws tm la M -> (st = FinWait1 \/ st = LastAck) ->
  (nxt = una \/ nxt = seq_add una 1) -> (tm = TIdle None \/ exists e, tm = TRetransmit e) ->
  tuple_nz t -> sent_to t ip r ->
  r_control r = CNone -> r_payload r = [] -> r_seq_number r = ws -> r_ack_number r = Some (seq_add una 1) ->
  tcp_step cx s (EvSegment ip r) = Ok (s', out, tags) -> 0 <= s_remote_win_len s' ->
  wire_out out = None /\
  (st = FinWait1 -> gview cx s' t FinWait2 (seq_add una 1) (seq_add una 1) ws (TIdle None) la M) /\
  (st = LastAck -> s_state s' = Closed /\ s_tuple s' = None).
Proof.
  intros (C & Htm & Hla & Hm) Hst Hnx Htmc Hnz Hto Hc Hp Hs Ha H Hwin'.
  destruct C as [K C1 C2 C3 C4 C5 C6 C7].
  destruct (ingress_process cx s t ip r s' out tags) as (rep & -> & Hpr); try assumption.
  { rewrite C1. destruct Hst as [-> | ->]; discriminate. }
  { rewrite C1. destruct Hst as [-> | ->]; discriminate. }
  { exact (k_tuple _ _ _ K). }
  destruct (proc_ack_of_fin cx s ip r s' rep tags) as (R1 & R2 & R3 & R4 & R5 & R6 & R7 & R8 & R9 & R10 & R11);
    try assumption.
  { rewrite C1. exact Hst. } { exact (k_suf _ _ _ K). } { exact (k_tx _ _ _ K). } { exact (k_ka _ _ _ K). }
  { exact (k_una _ _ _ K). } { rewrite C3, C2. exact Hnx. }
  { rewrite Htm. destruct Htmc as [-> | (e & ->)]; [left; reflexivity | right; eexists; reflexivity]. }
  { left. exact Hc. } { congruence. } { congruence. }
  subst rep. split; [reflexivity|].
  rewrite C1 in R2, R3. split.
  - intros ->. cbn [tcp_state_eqb] in R2, R3.
    pose proof (RI.rxv_eq_window_start _ _ R8) as Hws.
    destruct R10 as (X1 & X2 & X3).
    assert (Hwtu : tcp_window_to_update s' = Ok false).
    { rewrite (rxv_eq_wtu s' s R8); [exact C7 | rewrite (X3 (k_suf _ _ _ K)), (k_suf _ _ _ K); reflexivity|].
      right. split; [exact C1 | exact R2]. }
    destruct R8 as (Q1 & Q2 & Q3 & Q4 & Q5 & Q6 & Q7).
    destruct R9 as ((A1 & A2 & A3) & A4).
    split; [|split; [exact R4|]; split; [congruence|congruence]].
    constructor; try congruence.
    destruct K. constructor; rewrite ?R3, ?R5, ?R6, ?Q2, ?Q7, ?A2, ?A3, ?X1; auto.
    unfold seq_add, seq_modulus. change (2 ^ 32) with 4294967296. apply Z.mod_pos_bound. lia.
  - intros ->. cbn [tcp_state_eqb] in R2, R3. split; assumption.
Qed.

(* ---------------------------------------------------------------------------------------- *)
(* polls                                                                                     *)
(* ---------------------------------------------------------------------------------------- *)
(* nothing beyond the FIN (sequence number [U]) has ever been sent *)
Definition mlim (M : option Z) (U : Z) : Prop :=
  match M with Some m => m = seq_add U 1 \/ seq_gt (seq_add U 1) m = true | None => True end.

Lemma dispatch_step cx s ok s' out tags :
  tcp_step cx s (EvDispatch ok) = Ok (s', out, tags) ->
  exists res, out = ODispatch res /\ tcp_dispatch cx s ok = Ok (s', res, tags).
Proof.
  intros H. cbn [tcp_step] in H. apply obind_ok in H. destruct H as (((s1 & res) & tg) & Hd & H).
  inversion H; subst. exists res. split; [reflexivity | exact Hd].
Qed.

Lemma rxv_rest_scaled s' s : RD.rxv_rest s' s -> tcp_scaled_window s' = tcp_scaled_window s.
Proof. intros (_ & E2 & _ & _ & E5). unfold tcp_scaled_window. rewrite E2, E5. reflexivity. Qed.
Lemma rxv_rest_ws s' s : RD.rxv_rest s' s -> tcp_window_start s' = tcp_window_start s.
Proof. intros (_ & E2 & _ & E4 & _). unfold tcp_window_start. rewrite E2, E4. reflexivity. Qed.

(* the poll that sends the FIN, or sends it again *)
Lemma step_disp_fin cx s t st una nxt ws tm M s' out tags :
  gview cx s t st una nxt ws tm ws M -> (st = FinWait1 \/ st = LastAck) ->
  ((nxt = una /\ tm = TIdle None) \/ exists e, tm = TRetransmit e /\ e <= cx_now cx) ->
  mlim M una ->
  tcp_step cx s (EvDispatch true) = Ok (s', out, tags) ->
  exists p e', wire_out out = Some p /\ is_seg t CFin una ws p /\
    cx_now cx + tcp_RTTE_MIN_RTO * 1000 <= e' /\
    gview cx s' t st una (seq_add una 1) ws (TRetransmit e') ws (Some (seq_add una 1)).
Proof.
  intros (C & Htm & Hla & Hm) Hst Hcase Hlim H.
  destruct C as [K C1 C2 C3 C4 C5 C6 C7].
  destruct (dispatch_step _ _ _ _ _ _ H) as (res & -> & Hd).
  destruct (disp_fin cx s t s' res tags K) as (p & -> & F); try exact Hd.
  { rewrite C1. exact Hst. }
  { rewrite C3, C2, Htm. destruct Hcase as [(-> & ->) | (e & -> & He)]; [left; split; reflexivity | right; exists e; auto]. }
  destruct F as [fs_src0 fs_dst0 fs_sport0 fs_dport0 fs_ctl0 fs_pl0 fs_seq0 fs_ack0 fs_state0 fs_tuple0 fs_tx0 fs_una0 fs_nxt0 fs_timer0 fs_rx0 fs_la0 fs_lw0 fs_adt0 fs_cfg0 fs_pfr0 fs_suf0 fs_win0 fs_rto0 fs_msx0]. destruct fs_timer0 as (e' & Ht' & He').
  exists p, e'. split; [reflexivity|].
  split; [unfold is_seg, sent_from; rewrite fs_seq0, fs_ack0, C2, C4; auto 10|].
  split; [exact He'|].
  pose proof (rxv_rest_scaled _ _ fs_rx0) as Hsw. pose proof (rxv_rest_ws _ _ fs_rx0) as Hws.
  destruct fs_rx0 as (Q1 & Q2 & Q3 & Q4 & Q5). destruct fs_cfg0 as (A1 & A2 & A3).
  split; [|split; [exact Ht'|]; split; [congruence|]].
  - constructor; try congruence.
    + destruct K. constructor; rewrite ?fs_tuple0, ?fs_tx0, ?fs_una0, ?fs_win0, ?Q2, ?Q5, ?A2, ?A3, ?fs_pfr0, ?fs_suf0; auto.
    + apply fresh_wtu; [rewrite fs_la0, Hws; reflexivity | rewrite fs_lw0, Hsw; reflexivity
                        | rewrite Q5; exact (k_shift _ _ _ K) | rewrite Q2; exact (k_rxwf _ _ _ K)].
  - rewrite <- C2. apply fs_msx0. rewrite Hm, C2. exact Hlim.
Qed.

(* the poll that sends the owed ACK *)
Lemma step_disp_ack cx s t st una ws tm la M s' out tags :
  gview cx s t st una una ws tm la M -> (st = CloseWait \/ st = TimeWait) ->
  (tm = TIdle None \/ exists e, tm = TClose e) -> seq_lt la ws = true ->
  match M with Some m => seq_gt m una = false | None => True end ->
  tcp_step cx s (EvDispatch true) = Ok (s', out, tags) ->
  exists p, wire_out out = Some p /\ is_seg t CNone una ws p /\ gview cx s' t st una una ws tm ws M.
Proof.
  intros (C & Htm & Hla & Hm) Hst Htmc Howe HM H.
  destruct C as [K C1 C2 C3 C4 C5 C6 C7].
  destruct (dispatch_step _ _ _ _ _ _ H) as (res & -> & Hd).
  destruct (disp_ack cx s t s' res tags K) as (p & -> & F); try exact Hd.
  { rewrite C1. exact Hst. } { congruence. }
  { rewrite Htm. destruct Htmc as [-> | (e & ->)]; [left; reflexivity | right; eexists; reflexivity]. }
  { unfold tcp_ack_to_transmit. rewrite Hla, C4. exact Howe. }
  { unfold tcp_delayed_ack_expired. rewrite C5. reflexivity. }
  destruct F as [as_src0 as_dst0 as_sport0 as_dport0 as_ctl0 as_pl0 as_seq0 as_ack0 as_state0 as_tuple0 as_tx0 as_una0 as_nxt0 as_timer0 as_rx0 as_la0 as_lw0 as_adt0 as_cfg0 as_pfr0 as_suf0 as_win0 as_rtte0].
  assert (Hsn : tcp_send_next_seq s = una).
  { unfold tcp_send_next_seq. rewrite Hm, C3. destruct M as [m|]; [rewrite HM|]; reflexivity. }
  exists p. split; [reflexivity|].
  split; [unfold is_seg, sent_from; rewrite as_seq0, as_ack0, Hsn, C4; auto 10|].
  pose proof (rxv_rest_scaled _ _ as_rx0) as Hsw. pose proof (rxv_rest_ws _ _ as_rx0) as Hws.
  destruct as_rx0 as (Q1 & Q2 & Q3 & Q4 & Q5). destruct as_cfg0 as (A1 & A2 & A3).
  split; [|split; [congruence|]; split; [congruence|congruence]].
  constructor; try congruence.
  - destruct K. constructor; rewrite ?as_tuple0, ?as_tx0, ?as_una0, ?as_win0, ?as_rtte0, ?Q2, ?Q5, ?A2, ?A3, ?as_pfr0, ?as_suf0; auto.
  - apply fresh_wtu; [rewrite as_la0, Hws; reflexivity | rewrite as_lw0, Hsw; reflexivity
                      | rewrite Q5; exact (k_shift _ _ _ K) | rewrite Q2; exact (k_rxwf _ _ _ K)].
Qed.

(* a poll with nothing due; [tw] = the TIME-WAIT timer has expired *)
Lemma step_disp_quiet cx s t st una nxt ws tm M ok s' out tags :
  gview cx s t st una nxt ws tm ws M -> st_sync st ->
  (nxt = una \/ nxt = seq_add una 1) -> want_fin st && (nxt =? una) = false ->
  (tm = TIdle None \/ (exists e, tm = TRetransmit e /\ cx_now cx < e) \/ exists e, tm = TClose e) ->
  tcp_step cx s (EvDispatch ok) = Ok (s', out, tags) ->
  wire_out out = None /\
  ((timer_should_close tm (cx_now cx) = false /\ veq s' s) \/
   (timer_should_close tm (cx_now cx) = true /\ s_state s' = Closed /\ s_tuple s' = None)).
Proof.
  intros (C & Htm & Hla & Hm) Hsync Hnx Hnf Htmc H.
  destruct C as [K C1 C2 C3 C4 C5 C6 C7].
  destruct (dispatch_step _ _ _ _ _ _ H) as (res & -> & Hd).
  destruct (disp_quiet cx s t ok s' res tags K) as (-> & Hr); try exact Hd.
  { rewrite C1. exact Hsync. } { rewrite C3, C2. exact Hnx. } { rewrite C1, C3, C2. exact Hnf. }
  { rewrite Htm. destruct Htmc as [-> | [(e & -> & He) | (e & ->)]]; cbn [timer_should_retransmit]; try reflexivity.
    destruct (Z.geb_spec (cx_now cx) e); [lia | reflexivity]. }
  { rewrite Htm. destruct Htmc as [-> | [(e & -> & He) | (e & ->)]]; reflexivity. }
  { rewrite Htm. destruct Htmc as [-> | [(e & -> & He) | (e & ->)]]; reflexivity. }
  { unfold tcp_ack_to_transmit. rewrite Hla, C4. apply seq_lt_refl. }
  { exact C7. }
  split; [reflexivity|]. rewrite Htm in Hr.
  destruct Hr as [(Hc & ->) | (Hc & ->)]; [left | right]; (split; [exact Hc|]).
  - apply cveq_veq, dt_pre_cveq.
  - unfold tcp_set_state. sproj. split; reflexivity.
Qed.

(* ---------------------------------------------------------------------------------------- *)
(* summaries                                                                                 *)
(* ---------------------------------------------------------------------------------------- *)
Lemma app_veq cx s t stt una nxt ws tm la M ev0 s' out tags :
  gview cx s t stt una nxt ws tm la M ->
  match ev0 with
  | EvRecv n => 0 <= n
  | EvSend _ => tcp_may_send s = false
  | EvClose => tcp_close s = s
  | _ => False
  end ->
  tcp_step cx s ev0 = Ok (s', out, tags) -> wire_out out = None /\ veq s' s.
Proof.
  intros (C & _) Hev H. destruct C as [K C1 C2 C3 C4 C5 C6 C7].
  destruct ev0; try contradiction.
  - destruct (step_close_noop _ _ _ _ _ Hev H) as (A & ->). split; [exact A | apply veq_refl].
  - destruct (step_send_refused _ _ _ _ _ _ Hev H) as (A & ->). split; [exact A | apply veq_refl].
  - exact (step_recv _ _ _ _ _ _ Hev (k_rxwf _ _ _ K) C6 H).
Qed.

Lemma quiet_poll_veq cx s t stt una nxt ws tm M ok s' out tags :
  gview cx s t stt una nxt ws tm ws M -> st_sync stt -> (nxt = una \/ nxt = seq_add una 1) ->
  want_fin stt && (nxt =? una) = false ->
  (tm = TIdle None \/ (exists e, tm = TRetransmit e /\ cx_now cx < e) \/ exists e, tm = TClose e /\ cx_now cx < e) ->
  tcp_step cx s (EvDispatch ok) = Ok (s', out, tags) -> wire_out out = None /\ veq s' s.
Proof.
  intros G Hsync Hnx Hnf Htm H.
  destruct (step_disp_quiet cx s t stt una nxt ws tm M ok s' out tags G Hsync Hnx Hnf) as (A & [(_ & B) | (B & _)]);
    try exact H.
  - destruct Htm as [X | [(e & X & Y) | (e & X & Y)]]; [left; exact X | right; left; eauto | right; right; eauto].
  - split; assumption.
  - exfalso. destruct Htm as [-> | [(e & -> & Y) | (e & -> & Y)]]; cbn [timer_should_close] in B; try discriminate.
    destruct (Z.geb_spec (cx_now cx) e); [lia | discriminate].
Qed.

(* a CLOSED socket without address tuple stays so, and emits nothing, whatever the application or the
   interface does with it (segments apart: the interface answers those itself) *)
Lemma closed_keep cx s ev0 s' out tags :
  s_state s = Closed -> s_tuple s = None ->
  match ev0 with EvSend _ | EvRecv _ | EvClose | EvDispatch _ => True | _ => False end ->
  tcp_step cx s ev0 = Ok (s', out, tags) ->
  s_state s' = Closed /\ s_tuple s' = None /\ wire_out out = None.
Proof.
  intros Hst Htu Hev H. destruct ev0; try contradiction; cbn [tcp_step] in H.
  - unfold tcp_close in H. rewrite Hst in H. inversion H; subst. auto.
  - unfold tcp_send_slice, tcp_may_send in H. rewrite Hst in H. cbn [negb] in H. inversion H; subst. auto.
  - destruct (tcp_recv_slice s n) as [(s1, b)|e|] eqn:E; [| |discriminate]; inversion H; subst; auto.
    unfold tcp_recv_slice in E. obind_inv E.
    destruct (rb_dequeue_slice (s_rx_buffer s) n) as (rx, bytes). inversion E; subst. sproj. auto.
  - apply obind_ok in H. destruct H as (((s1 & res) & tg) & Hd & H). inversion H; subst.
    unfold tcp_dispatch in Hd. rewrite Htu in Hd. inversion Hd; subst. auto.
Qed.
