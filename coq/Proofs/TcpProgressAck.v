(* C02 (liveness half), layer 5: THE ACKNOWLEDGEMENT COMES BACK (step 3).
   Direction x -> y as in Proofs/TcpProgressData.v.  Starting point: y has accepted octets that x
   has not yet seen acknowledged (rcv_off y > una_off x = u0) - the ACK was lost, or is still owed.
   For every fair schedule, within RTTE_MAX_RTO + 2 Dt + Dack of virtual time SND.UNA of x advances:
     K1  x's retransmission timer (or fast retransmit / idle transmission) puts the octets from
         SND.UNA on the wire again                                      (<= RTTE_MAX_RTO)
     K2  the segment reaches y (<= Dt): it starts below RCV.NXT, so either its new part is accepted
         and an ACK is sent or owed, or it is not acceptable and an ACK of RCV.NXT goes out at once
     K3  an owed ACK is transmitted when its delay expires (<= Dack), or earlier with any other
         transmission of y (every transmission of an ESTABLISHED socket carries RCV.NXT)
     K4  the ACK reaches x (<= Dt) and is accepted: SND.UNA advances.
   Additional safety input [ack_safe] (C04: the last ACK sent is at most 2^30 behind RCV.NXT, receive
   buffer capacity <= 2^30; C05/C01: what y has in flight towards x sits at x's RCV.NXT; configured
   ACK delay within [0, Dack]). *)
From SV Require Import Lib.Base Gen.Consts.
From SV Require Import Model.Seq32 Model.Assembler Model.TcpBuf Model.TcpTypes Model.Tcp Model.TcpNet.
From SV Require Import Proofs.TcpSendBase Proofs.TcpLiveBase Proofs.TcpLiveProofs Proofs.TcpLiveMore
  Proofs.TcpLiveProgress.
From SV Require Import Proofs.TcpNetBase.
From SV Require Proofs.TcpRecvBase Proofs.TcpRecvWindow Proofs.TcpRecvInv Proofs.TcpRecvProcess Proofs.TcpRecvDispatch.
From SV Require Import Proofs.TcpProgressBase Proofs.TcpProgressFrame Proofs.TcpProgressRecv
  Proofs.TcpProgressSend Proofs.TcpProgressNet Proofs.TcpProgressData.

Section Ack.
Variable x : side.
Let y := side_other x.
Variables Dt Da Dack : Z.

(* a segment of the receiver (which has sent nothing but its SYN) in flight towards the sender *)
Definition seg_to_snd (sx : socket) (r : tcp_repr) : Prop :=
  r_control r = CSyn \/
  (r_control r = CNone /\ r_payload r = [] /\ r_seq_number r = tcp_window_start sx).

Record ack_safe (st : net) : Prop := mkAS {
  as_last : exists la j, s_remote_last_ack (net_sock st y) = Some la /\ 0 <= la < 4294967296 /\
                         tcp_window_start (net_sock st y) = sq (la + j) /\ 0 <= j <= 2 ^ 30;
  as_cap : rb_cap (s_rx_buffer (net_sock st y)) <= 2 ^ 30;
  as_delay : match s_ack_delay (net_sock st y) with Some d => 0 <= d <= Dack | None => True end;
  as_xadv : adv_ok (net_sock st x);
  as_xchan : forall q, In q (chan_to st x) -> seg_to_snd (net_sock st x) (wire_parse (snd q))
}.

Definition safe3 (st : net) : Prop := oneway_safe x st /\ ack_safe st.

(* ---------------------------------------------------------------------------------------- *)
(* one step, without a condition on RCV.NXT                                                  *)
(* ---------------------------------------------------------------------------------------- *)
Definition Gbase (u0 dk : Z) (fa : fair_aux) (st : net) : Prop :=
  NI st /\ opts_ok st /\ dl_sync fa st /\ net_now st y - net_now st x = dk /\
  una_off (net_get st x) = u0 /\ 0 < txl x st.

Lemma gbase_step u0 dk fa st ev st' :
  oneway_safe x st -> oneway_safe x st' -> Gbase u0 dk fa st -> fair_ev fa st ev -> net_step st ev = Ok st' ->
  u0 < una_off (net_get st' x) \/
  (Gbase u0 dk (fa_after Dt Da fa ev st') st' /\ x_rel x st st' /\
   rcv_off (net_get st y) <= rcv_off (net_get st' y) /\ txl x st <= txl x st').
Proof.
  intros HR HR' (HN & Ho & Hsy & Hdk & Hu & Hl) Hfe H.
  pose proof (NI_step _ _ _ HN H) as HN'. pose proof (opts_step _ _ _ Ho H) as Ho'.
  pose proof (fa_after_sync Dt Da _ _ _ _ Hsy Hfe H) as Hsy'.
  assert (Hdk' : net_now st' y - net_now st' x = dk).
  { rewrite (net_step_now _ _ _ x H), (net_step_now _ _ _ y H). lia. }
  assert (Hsame : ep_same_data (net_get st' x) (net_get st x) -> ep_same_data (net_get st' y) (net_get st y) ->
                  u0 < una_off (net_get st' x) \/
                  (Gbase u0 dk (fa_after Dt Da fa ev st') st' /\ x_rel x st st' /\
                   rcv_off (net_get st y) <= rcv_off (net_get st' y) /\ txl x st <= txl x st')).
  { intros (X1 & X2 & X3 & X4) (Y1 & Y2 & Y3 & Y4). right.
    unfold Gbase, x_rel, txl, net_sock, una_off, rcv_off, emitted_at_una. rewrite X1, X2, Y1, Y3.
    split; [|split; [split; [reflexivity | left; left; reflexivity] | split; apply Z.le_refl]].
    split; [exact HN'|]. split; [exact Ho'|]. split; [exact Hsy'|]. split; [exact Hdk'|].
    split; [exact Hu | exact Hl]. }
  destruct (net_step_kind _ _ _ H) as [w ev0 e' Hse He E | to i E1 _ E | d E1 E | w isn ts E1 E | to i Hd].
  - destruct (side_cases x w) as [Ew | Ew]; subst w st'.
    + destruct (x_event x _ _ _ _ _ HN Ho HR HR' Hfe Hl Hse He) as [Hp | (U1 & U2 & U3 & U4)].
      * left. rewrite net_get_set_same. rewrite <- Hu. exact Hp.
      * right. unfold txl, net_sock in Hl.
        assert (Ey : net_get (net_set st x e') y = net_get st y) by apply net_get_set_other.
        split; [|split; [|split]].
        -- unfold Gbase, txl, net_sock. rewrite net_get_set_same.
           split; [exact HN'|]. split; [exact Ho'|]. split; [exact Hsy'|]. split; [exact Hdk'|].
           split; [rewrite U1; exact Hu|]. eapply Z.lt_le_trans; [exact Hl | exact U3].
        -- unfold x_rel, net_sock. rewrite net_get_set_same. split; [exact U2 | exact U4].
        -- rewrite Ey. apply Z.le_refl.
        -- unfold txl, net_sock. rewrite net_get_set_same. exact U3.
    + change (side_other x) with y in He, Hse, HR', HN', Ho', Hsy', Hdk' |- *.
      pose proof (y_event_mono x _ _ _ _ HN HR Hse He) as Hm.
      assert (Ex : net_get (net_set st y e') x = net_get st x).
      { pose proof (net_get_set_other st y e') as X. unfold y in X at 2 3. rewrite side_other_inv in X. exact X. }
      right. split; [|split; [|split]].
      -- unfold Gbase, txl, net_sock. rewrite Ex.
         split; [exact HN'|]. split; [exact Ho'|]. split; [exact Hsy'|]. split; [exact Hdk'|].
         split; [exact Hu | exact Hl].
      -- unfold x_rel, net_sock. rewrite Ex. split; [reflexivity | left; left; reflexivity].
      -- rewrite net_get_set_same. exact Hm.
      -- unfold txl, net_sock. rewrite Ex. apply Z.le_refl.
  - subst st'. apply Hsame; repeat split.
  - subst st'. apply Hsame; apply tick_same.
  - subst st'. apply Hsame; apply rand_same.
  - exfalso. destruct Hd as [-> | ->]; exact Hfe.
Qed.

(* ---------------------------------------------------------------------------------------- *)
(* K1: the sender will (re)transmit from SND.UNA before its clock passes T1                   *)
(* ---------------------------------------------------------------------------------------- *)
Definition Qg (u0 : Z) (st : net) : Prop := u0 < una_off (net_get st x).

Definition K1 (u0 dk T1 : Z) (fa : fair_aux) (st : net) : Prop :=
  Gbase u0 dk fa st /\ u0 < rcv_off (net_get st y) /\ net_now st x <= T1 /\
  (forall e, s_timer (net_sock st x) = TRetransmit e -> e <= T1).

Definition K2 (u0 dk T2 : Z) (fa : fair_aux) (st : net) : Prop :=
  Gbase u0 dk fa st /\ u0 < rcv_off (net_get st y) /\
  exists i p t, nth_error (chan_to st y) i = Some p /\ nth_error (fa_dl fa y) i = Some (Some t) /\
                net_now st y <= t /\ t <= T2 /\
                r_seq_number (snd p) = s_local_seq_no (net_sock st x) /\
                0 < l_len (r_payload (snd p)) /\ r_ack_number (snd p) <> None.

Lemma K1_step u0 dk T1 fa st ev st' :
  0 <= Dt ->
  safe3 st -> safe3 st' -> K1 u0 dk T1 fa st -> fair_ev fa st ev -> net_step st ev = Ok st' ->
  (Qg u0 st' \/ K2 u0 dk (T1 + dk + Dt) (fa_after Dt Da fa ev st') st') \/
  K1 u0 dk T1 (fa_after Dt Da fa ev st') st'.
Proof.
  intros HDt (HR & _) (HR' & _) (HB & Hrc & Hclk & Htm) Hfe H.
  pose proof HB as (HN & Ho & Hsy & Hdk & Hu & Hl).
  destruct (gbase_step _ _ _ _ _ _ HR HR' HB Hfe H) as [HQ | (HB' & (Hseq & Hx) & Hmono & _)]; [left; left; exact HQ|].
  assert (Hrc' : u0 < rcv_off (net_get st' y)) by lia.
  assert (Hclk' : net_now st' x <= T1).
  { rewrite (net_step_now _ _ _ x H). destruct ev; try lia.
    destruct Hfe as (Hd0 & Hperm). destruct (Z.eq_dec d 0) as [-> | Hnz]; [lia|].
    destruct (Hperm ltac:(lia) x) as (Hpp & _). unfold poll_permits, net_poll_at in Hpp.
    pose proof (NI_live st x HN) as Ix.
    pose proof (poll_at_ready (ep_cx (net_get st x)) (net_sock st x) Ix
                  (need_established _ (ow_est x st HR x) Hl) (ow_nozwp x st HR)
                  ltac:(intros _; pose proof (ow_win x st HR); lia)) as Hpa.
    unfold net_sock in Hpa.
    destruct (tcp_poll_at (ep_cx (net_get st x)) (ep_sock (net_get st x))) as [[|t|]|err|]; try contradiction.
    destruct Hpa as (e & He & Hte). specialize (Htm e He). unfold net_now in *. lia. }
  destruct Hx as [Htc | (p & e1 & Hout & Hsq & Hsl & Hak & Ht1 & He1)].
  - right. split; [exact HB'|]. split; [exact Hrc'|]. split; [exact Hclk'|].
    intros e He. destruct Htc as [Htc | [Htc | Htc]].
    + apply Htm. rewrite <- Htc. exact He.
    + rewrite Htc in He. discriminate.
    + rewrite He in Htc. discriminate.
  - left. right. split; [exact HB'|]. split; [exact Hrc'|].
    set (i := length (chan_to st y)).
    assert (Hlen' : chan_to st' y = chan_to st y ++ [p]) by (rewrite !(chan_y_is_out x); exact Hout).
    exists i, p, (net_now st' y + Dt).
    split; [rewrite Hlen'; unfold i; rewrite nth_error_app2 by lia; rewrite Nat.sub_diag; reflexivity|].
    split; [apply (fa_after_dl_new Dt Da fa st ev st' y i Hsy); rewrite Hlen', app_length; cbn [length]; unfold i; lia|].
    split; [lia|].
    split.
    { rewrite (net_step_now _ _ _ y H).
      assert (Hz : match ev with NTick d => Z.max 0 d | _ => 0 end = 0).
      { destruct ev; try reflexivity. exfalso.
        pose proof (net_step_tick _ _ _ H) as Est. subst st'.
        assert (E : ep_out (net_get (tick_net st d) x) = ep_out (net_get st x)) by apply tick_same.
        rewrite E in Hout.
        apply (f_equal (@length packet)) in Hout. rewrite app_length in Hout. cbn [length] in Hout. lia. }
      rewrite Hz. lia. }
    assert (Hin : In p (chan_to st' y)) by (rewrite Hlen'; apply in_or_app; right; left; reflexivity).
    destruct (wire_parse_same (snd p)) as (Wc & Wp & _).
    destruct (ow_chan x st' HR' p Hin) as [(_ & Ha) | (Hc & _ & _)].
    + exfalso. unfold wire_parse in Ha. cbn [r_ack_number] in Ha. destruct (r_ack_number (snd p)); [discriminate | congruence].
    + rewrite Wc in Hc. split; [rewrite Hseq; exact Hsq|].
      split; [rewrite <- (seglen_data _ Hc); exact Hsl | exact Hak].
Qed.

End Ack.
