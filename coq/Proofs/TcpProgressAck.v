(* C02 (liveness half), layer 5: THE ACKNOWLEDGEMENT COMES BACK (step 3).
   Direction x -> y as in Proofs/TcpProgressData.v.  Starting point: y has accepted octets that x
   has not yet seen acknowledged (rcv_off y > una_off x = u0) - the ACK was lost, or is still owed.
   For every fair schedule, within RTTE_MAX_RTO + 2 Dt + Dack of virtual time SND.UNA of x advances:
     K1  x's retransmission timer (or fast retransmit / idle transmission) puts the octets from
         SND.UNA on the wire again                                      (<= RTTE_MAX_RTO)
     K2  the segment reaches y (<= Dt): it starts below RCV.NXT, so either its new part is accepted
         and an ACK is sent or owed, or it is not acceptable and an ACK of RCV.NXT goes out at once
     K3  an owed ACK is transmitted when its delay expires (<= Dack), or earlier with any other
         transmission of y (every transmission of an ESTABLISHED socket carries RCV.NXT)
     K4  the ACK reaches x (<= Dt) and is accepted: SND.UNA advances.
   Additional safety input [ack_safe] (C04: the last ACK sent is at most 2^30 behind RCV.NXT, receive
   buffer capacity <= 2^30; C05/C01: what y has in flight towards x sits at x's RCV.NXT; configured
   ACK delay within [0, Dack]). *)
From SV Require Import Lib.Base Gen.Consts.
From SV Require Import Model.Seq32 Model.Assembler Model.TcpBuf Model.TcpTypes Model.Tcp Model.TcpNet.
From SV Require Import Proofs.TcpSendBase Proofs.TcpLiveBase Proofs.TcpLiveProofs Proofs.TcpLiveMore
  Proofs.TcpLiveProgress.
From SV Require Import Proofs.TcpNetBase.
From SV Require Proofs.TcpRecvBase Proofs.TcpRecvWindow Proofs.TcpRecvInv Proofs.TcpRecvProcess Proofs.TcpRecvDispatch.
From SV Require Import Proofs.TcpProgressBase Proofs.TcpProgressFrame Proofs.TcpProgressRecv
  Proofs.TcpProgressSend Proofs.TcpProgressNet Proofs.TcpProgressData.

Section Ack.
Variable x : side.
Let y := side_other x.
Variables Dt Da Dack : Z.

(* a segment of the receiver (which has sent nothing but its SYN) in flight towards the sender *)
Definition seg_to_snd (sx : socket) (r : tcp_repr) : Prop :=
  r_control r = CSyn \/
  (r_control r = CNone /\ r_payload r = [] /\ r_seq_number r = tcp_window_start sx).

Record ack_safe (st : net) : Prop := mkAS {
  as_last : exists la j, s_remote_last_ack (net_sock st y) = Some la /\ 0 <= la < 4294967296 /\
                         tcp_window_start (net_sock st y) = sq (la + j) /\ 0 <= j <= 2 ^ 30;
  as_cap : rb_cap (s_rx_buffer (net_sock st y)) <= 2 ^ 30;
  as_delay : match s_ack_delay (net_sock st y) with Some d => 0 <= d <= Dack | None => True end;
  as_xadv : adv_ok (net_sock st x);
  as_xchan : forall q, In q (chan_to st x) -> seg_to_snd (net_sock st x) (wire_parse (snd q))
}.

Definition safe3 (st : net) : Prop := oneway_safe x st /\ ack_safe st.

(* ---------------------------------------------------------------------------------------- *)
(* one step, without a condition on RCV.NXT                                                  *)
(* ---------------------------------------------------------------------------------------- *)
Definition Gbase (u0 dk : Z) (fa : fair_aux) (st : net) : Prop :=
  NI st /\ opts_ok st /\ dl_sync Da fa st /\ net_now st y - net_now st x = dk /\
  una_off (net_get st x) = u0 /\ 0 < txl x st.

Lemma gbase_step u0 dk fa st ev st' :
  oneway_safe x st -> oneway_safe x st' -> Gbase u0 dk fa st -> fair_ev fa st ev -> net_step st ev = Ok st' ->
  u0 < una_off (net_get st' x) \/
  (Gbase u0 dk (fa_after Dt Da fa ev st') st' /\ x_rel x st st' /\
   rcv_off (net_get st y) <= rcv_off (net_get st' y) /\ txl x st <= txl x st').
Proof.
  intros HR HR' (HN & Ho & Hsy & Hdk & Hu & Hl) Hfe H.
  pose proof (NI_step _ _ _ HN H) as HN'. pose proof (opts_step _ _ _ Ho H) as Ho'.
  pose proof (fa_after_sync Dt Da _ _ _ _ Hsy Hfe H) as Hsy'.
  assert (Hdk' : net_now st' y - net_now st' x = dk).
  { rewrite (net_step_now _ _ _ x H), (net_step_now _ _ _ y H). lia. }
  assert (Hsame : ep_same_data (net_get st' x) (net_get st x) -> ep_same_data (net_get st' y) (net_get st y) ->
                  u0 < una_off (net_get st' x) \/
                  (Gbase u0 dk (fa_after Dt Da fa ev st') st' /\ x_rel x st st' /\
                   rcv_off (net_get st y) <= rcv_off (net_get st' y) /\ txl x st <= txl x st')).
  { intros (X1 & X2 & X3 & X4) (Y1 & Y2 & Y3 & Y4). right.
    unfold Gbase, x_rel, txl, net_sock, una_off, rcv_off, emitted_at_una. rewrite X1, X2, Y1, Y3.
    split; [|split; [split; [reflexivity | left; left; reflexivity] | split; apply Z.le_refl]].
    split; [exact HN'|]. split; [exact Ho'|]. split; [exact Hsy'|]. split; [exact Hdk'|].
    split; [exact Hu | exact Hl]. }
  destruct (net_step_kind _ _ _ H) as [w ev0 e' Hse He E | to i E1 _ E | d E1 E | w isn ts E1 E | to i Hd].
  - destruct (side_cases x w) as [Ew | Ew]; subst w st'.
    + destruct (x_event x _ _ _ _ _ HN Ho HR HR' Hfe Hl Hse He) as [Hp | (U1 & U2 & U3 & U4)].
      * left. rewrite net_get_set_same. rewrite <- Hu. exact Hp.
      * right. unfold txl, net_sock in Hl.
        assert (Ey : net_get (net_set st x e') y = net_get st y) by apply net_get_set_other.
        split; [|split; [|split]].
        -- unfold Gbase, txl, net_sock. rewrite net_get_set_same.
           split; [exact HN'|]. split; [exact Ho'|]. split; [exact Hsy'|]. split; [exact Hdk'|].
           split; [rewrite U1; exact Hu|]. eapply Z.lt_le_trans; [exact Hl | exact U3].
        -- unfold x_rel, net_sock. rewrite net_get_set_same. split; [exact U2 | exact U4].
        -- rewrite Ey. apply Z.le_refl.
        -- unfold txl, net_sock. rewrite net_get_set_same. exact U3.
    + change (side_other x) with y in He, Hse, HR', HN', Ho', Hsy', Hdk' |- *.
      pose proof (y_event_mono x _ _ _ _ HN HR Hse He) as Hm.
      assert (Ex : net_get (net_set st y e') x = net_get st x).
      { pose proof (net_get_set_other st y e') as X. unfold y in X at 2 3. rewrite side_other_inv in X. exact X. }
      right. split; [|split; [|split]].
      -- unfold Gbase, txl, net_sock. rewrite Ex.
         split; [exact HN'|]. split; [exact Ho'|]. split; [exact Hsy'|]. split; [exact Hdk'|].
         split; [exact Hu | exact Hl].
      -- unfold x_rel, net_sock. rewrite Ex. split; [reflexivity | left; left; reflexivity].
      -- rewrite net_get_set_same. exact Hm.
      -- unfold txl, net_sock. rewrite Ex. apply Z.le_refl.
  - subst st'. apply Hsame; repeat split.
  - subst st'. apply Hsame; apply tick_same.
  - subst st'. apply Hsame; apply rand_same.
  - exfalso. destruct Hd as [-> | ->]; exact Hfe.
Qed.

(* ---------------------------------------------------------------------------------------- *)
(* K1: the sender will (re)transmit from SND.UNA before its clock passes T1                   *)
(* ---------------------------------------------------------------------------------------- *)
Definition Qg (u0 : Z) (st : net) : Prop := u0 < una_off (net_get st x).

Definition K1 (u0 dk T1 : Z) (fa : fair_aux) (st : net) : Prop :=
  Gbase u0 dk fa st /\ net_now st x <= T1 /\
  (forall e, s_timer (net_sock st x) = TRetransmit e -> e <= T1).

Definition K2 (u0 dk T2 : Z) (fa : fair_aux) (st : net) : Prop :=
  Gbase u0 dk fa st /\
  exists i p t, nth_error (chan_to st y) i = Some p /\ nth_error (fa_dl fa y) i = Some (Some t) /\
                net_now st y <= t /\ t <= T2 /\
                r_seq_number (snd p) = s_local_seq_no (net_sock st x) /\
                0 < l_len (r_payload (snd p)) /\ r_ack_number (snd p) <> None.

Lemma K1_step u0 dk T1 fa st ev st' :
  0 <= Dt ->
  safe3 st -> safe3 st' -> K1 u0 dk T1 fa st -> fair_ev fa st ev -> net_step st ev = Ok st' ->
  (Qg u0 st' \/ K2 u0 dk (T1 + dk + Dt) (fa_after Dt Da fa ev st') st') \/
  K1 u0 dk T1 (fa_after Dt Da fa ev st') st'.
Proof.
  intros HDt (HR & _) (HR' & _) (HB & Hclk & Htm) Hfe H.
  pose proof HB as (HN & Ho & Hsy & Hdk & Hu & Hl).
  destruct (gbase_step _ _ _ _ _ _ HR HR' HB Hfe H) as [HQ | (HB' & (Hseq & Hx) & Hmono & _)]; [left; left; exact HQ|].
  assert (Hclk' : net_now st' x <= T1).
  { rewrite (net_step_now _ _ _ x H). destruct ev; try lia.
    destruct Hfe as (Hd0 & Hperm). destruct (Z.eq_dec d 0) as [-> | Hnz]; [lia|].
    destruct (Hperm ltac:(lia) x) as (Hpp & _). unfold poll_permits, net_poll_at in Hpp.
    pose proof (NI_live st x HN) as Ix.
    pose proof (poll_at_ready (ep_cx (net_get st x)) (net_sock st x) Ix
                  (need_established _ (ow_est x st HR x) Hl) (ow_nozwp x st HR)
                  ltac:(intros _; pose proof (ow_win x st HR); lia)) as Hpa.
    unfold net_sock in Hpa.
    destruct (tcp_poll_at (ep_cx (net_get st x)) (ep_sock (net_get st x))) as [[|t|]|err|]; try contradiction.
    destruct Hpa as (e & He & Hte). specialize (Htm e He). unfold net_now in *. lia. }
  destruct Hx as [Htc | (p & e1 & Hout & Hsq & Hsl & Hak & Ht1 & He1)].
  - right. split; [exact HB'|]. split; [exact Hclk'|].
    intros e He. destruct Htc as [Htc | [Htc | Htc]].
    + apply Htm. rewrite <- Htc. exact He.
    + rewrite Htc in He. discriminate.
    + rewrite He in Htc. discriminate.
  - left. right. split; [exact HB'|].
    set (i := length (chan_to st y)).
    assert (Hlen' : chan_to st' y = chan_to st y ++ [p]) by (rewrite !(chan_y_is_out x); exact Hout).
    exists i, p, (net_now st' y + Dt).
    split; [rewrite Hlen'; unfold i; rewrite nth_error_app2 by lia; rewrite Nat.sub_diag; reflexivity|].
    split; [apply (fa_after_dl_new Dt Da fa st ev st' y i Hsy); rewrite Hlen', app_length; cbn [length]; unfold i; lia|].
    split; [lia|].
    split.
    { rewrite (net_step_now _ _ _ y H).
      assert (Hz : match ev with NTick d => Z.max 0 d | _ => 0 end = 0).
      { destruct ev; try reflexivity. exfalso.
        pose proof (net_step_tick _ _ _ H) as Est. subst st'.
        assert (E : ep_out (net_get (tick_net st d) x) = ep_out (net_get st x)) by apply tick_same.
        rewrite E in Hout.
        apply (f_equal (@length packet)) in Hout. rewrite app_length in Hout. cbn [length] in Hout. lia. }
      rewrite Hz. lia. }
    assert (Hin : In p (chan_to st' y)) by (rewrite Hlen'; apply in_or_app; right; left; reflexivity).
    destruct (wire_parse_same (snd p)) as (Wc & Wp & _).
    destruct (ow_chan x st' HR' p Hin) as [(_ & Ha) | (Hc & _ & _)].
    + exfalso. unfold wire_parse in Ha. cbn [r_ack_number] in Ha. destruct (r_ack_number (snd p)); [discriminate | congruence].
    + rewrite Wc in Hc. split; [rewrite Hseq; exact Hsq|].
      split; [rewrite <- (seglen_data _ Hc); exact Hsl | exact Hak].
Qed.

(* ---------------------------------------------------------------------------------------- *)
(* RCV.NXT and the owed ACK, arithmetic                                                      *)
(* ---------------------------------------------------------------------------------------- *)
Lemma ws_grow s s' m :
  s_remote_seq_no s' = s_remote_seq_no s -> rb_len (s_rx_buffer s') = rb_len (s_rx_buffer s) + m ->
  tcp_window_start s' = sq (tcp_window_start s + m).
Proof.
  intros E1 E2. unfold tcp_window_start. rewrite E1, E2, !seq_add_raw, sq_sq_add. f_equal. lia.
Qed.

Lemma owed_iff s la j :
  s_remote_last_ack s = Some la -> 0 <= la < 4294967296 ->
  tcp_window_start s = sq (la + j) -> 0 <= j <= 2 ^ 30 ->
  tcp_ack_to_transmit s = (0 <? j).
Proof.
  intros Hl Hla Hws Hj. unfold tcp_ack_to_transmit. rewrite Hl, Hws.
  rewrite (u32_sq_self la) at 1 by (unfold u32; change (2 ^ 32) with 4294967296; lia).
  change (2 ^ 30) with 1073741824 in Hj.
  apply seq_lt_sq. change (2 ^ 31) with 2147483648. lia.
Qed.

Lemma owed_step s s' m :
  (exists la j, s_remote_last_ack s = Some la /\ 0 <= la < 4294967296 /\
                tcp_window_start s = sq (la + j) /\ 0 <= j <= 2 ^ 30) ->
  (exists la j, s_remote_last_ack s' = Some la /\ 0 <= la < 4294967296 /\
                tcp_window_start s' = sq (la + j) /\ 0 <= j <= 2 ^ 30) ->
  s_remote_last_ack s' = s_remote_last_ack s ->
  tcp_window_start s' = sq (tcp_window_start s + m) -> 0 <= m <= 2 ^ 30 ->
  (tcp_ack_to_transmit s = true \/ 0 < m) ->
  tcp_ack_to_transmit s' = true.
Proof.
  intros (la & j & Hl & Hla & Hws & Hj) (la' & j' & Hl' & Hla' & Hws' & Hj') Hsame Hgrow Hm Hpos.
  rewrite Hl, Hl' in Hsame. inversion Hsame; subst la'.
  rewrite (owed_iff s' la j' Hl' Hla Hws' Hj').
  rewrite (owed_iff s la j Hl Hla Hws Hj) in Hpos.
  rewrite Hws, sq_sq_add in Hgrow. rewrite Hws' in Hgrow.
  change (2 ^ 30) with 1073741824 in *.
  assert (Ej : j' = j + m).
  { replace (la + j + m) with (la + (j + m)) in Hgrow by lia.
    apply (sq_inj la j' (j + m)); [change (2 ^ 32) with 4294967296; lia | exact Hgrow]. }
  destruct Hpos as [Hp | Hp]; lia.
Qed.

(* ---------------------------------------------------------------------------------------- *)
(* a segment arrives at the receiver: an ACK of RCV.NXT goes out, or nothing goes out and the  *)
(* ACK bookkeeping stays                                                                     *)
(* ---------------------------------------------------------------------------------------- *)
Lemma y_deliver st p e' :
  NI st -> safe3 st -> In p (chan_to st y) ->
  ep_step (net_get st y) (EvSegment (fst p) (wire_parse (snd p))) = Ok e' ->
  s_remote_seq_no (ep_sock e') = s_remote_seq_no (net_sock st y) /\
  rb_len (s_rx_buffer (net_sock st y)) <= rb_len (s_rx_buffer (ep_sock e')) /\
  ((exists q, ep_out e' = ep_out (net_get st y) ++ [q] /\ pure_ack_of (ep_sock e') (Some q))
   \/ (ep_out e' = ep_out (net_get st y) /\
       s_remote_last_ack (ep_sock e') = s_remote_last_ack (net_sock st y))).
Proof.
  intros HN (HR & HA) Hin He.
  pose proof (NI_live st y HN) as Iy. unfold net_sock in *.
  destruct (ow_rcv x st HR) as (Hrw & Hadv & Hrxwf & Hsh). fold y in Hrw, Hadv, Hrxwf, Hsh. unfold net_sock in *.
  destruct (ep_step_spec _ _ _ He) as (s' & out & tags & Hs & Hk & _ & Hout & _).
  cbn [tcp_step] in Hs. apply obind_ok in Hs. destruct Hs as (((s1 & rp) & tg) & Hi & Hs).
  assert (E : s1 = s' /\ out = OReply rp) by (inversion Hs; auto). destruct E as (-> & ->).
  rewrite (ingress_is_process _ _ _ (ow_acc x st HR y p Hin)) in Hi. unfold net_sock in Hi.
  pose proof (ow_est x st HR y) as Hst. unfold net_sock in Hst.
  cbn [wire_out] in Hout. rewrite Hk.
  destruct (ow_chan x st HR p Hin) as [(Hc & Ha) | (Hc & Ha & Hl)]; unfold net_sock in *.
  - destruct (process_syn_ignored _ _ _ _ _ _ _ Hst Hc Ha Hi) as (-> & ->).
    split; [reflexivity|]. split; [lia|]. right. cbn [opt_list] in Hout. rewrite app_nil_r in Hout. auto.
  - pose proof (ow_ytx x st HR) as Hytx. unfold net_sock in Hytx. fold y in Hytx.
    assert (Hu : 0 <= s_local_seq_no (ep_sock (net_get st y)) < 4294967296) by apply (li_una _ Iy).
    assert (Hl30 : l_len (r_payload (wire_parse (snd p))) <= p30) by (unfold TcpRecvWindow.p30; lia).
    assert (Htx31 : 0 <= rb_len (s_tx_buffer (ep_sock (net_get st y))) < 2147483648) by lia.
    destruct (process_rcv_mono _ _ _ _ _ _ _ Hst Hrw (adv_open_ok _ Hadv)
                Hl30 (wire_parse_seq (snd p)) Hc Ha Hu Htx31 Hi)
      as (_ & Hm & _ & Hsq & _ & _ & Hp & Hn).
    split; [exact Hsq|]. split; [exact Hm|].
    destruct rp as [q|]; cbn [opt_list] in Hout.
    + left. exists q. split; [exact Hout | exact Hp].
    + right. rewrite app_nil_r in Hout. split; [exact Hout | apply Hn; reflexivity].
Qed.

Lemma rx_len_bounds st : safe3 st ->
  0 <= rb_len (s_rx_buffer (net_sock st y)) <= 2 ^ 30.
Proof.
  intros (HR & HA). destruct (ow_rcv x st HR) as (_ & _ & ((H1 & H2) & _) & _). fold y in H1, H2.
  pose proof (as_cap st HA). lia.
Qed.

(* ---------------------------------------------------------------------------------------- *)
(* K2: the retransmission, which starts below RCV.NXT, reaches the receiver                   *)
(* ---------------------------------------------------------------------------------------- *)
Lemma tracked_below u0 st i p st' :
  NI st -> safe3 st -> safe3 st' ->
  una_off (net_get st x) = u0 ->
  nth_error (chan_to st y) i = Some p ->
  r_seq_number (snd p) = s_local_seq_no (net_sock st x) ->
  0 < l_len (r_payload (snd p)) -> r_ack_number (snd p) <> None ->
  net_step st (NDeliver y i) = Ok st' ->
  u0 < rcv_off (net_get st' y) /\
  ((exists q, chan_to st' x = chan_to st x ++ [q] /\ pure_ack_of (net_sock st' y) (Some q))
   \/ (chan_to st' x = chan_to st x /\ tcp_ack_to_transmit (net_sock st' y) = true)).
Proof.
  intros HN HS HS' Hu Hn Hsq Hpl Hak H.
  pose proof HS as (HR & HA). pose proof HS' as (HR' & HA').
  unfold net_step in H. fold (chan_to st y) in H. rewrite Hn in H.
  apply obind_ok in H. destruct H as (e' & He & H). inversion H; subst st'; clear H.
  assert (Ecx : forall st0, chan_to st0 x = ep_out (net_get st0 y)) by (intros; reflexivity).
  rewrite !Ecx. unfold net_sock. rewrite !net_get_set_same.
  destruct (ep_step_spec _ _ _ He) as (s' & out & tags & Hs & Hk & _ & Hout & _).
  pose proof (ep_step_rcv_off _ (EvSegment (fst p) (wire_parse (snd p))) _ _ _ _ He Hs ltac:(discriminate)) as Hro.
  cbn [tcp_step] in Hs. apply obind_ok in Hs. destruct Hs as (((s1 & rp) & tg) & Hi & Hs).
  assert (E : s1 = s' /\ out = OReply rp) by (inversion Hs; auto). destruct E as (-> & ->).
  pose proof (nth_error_In _ _ Hn) as Hin.
  rewrite (ingress_is_process _ _ _ (ow_acc x st HR y p Hin)) in Hi. unfold net_sock in Hi.
  pose proof (NI_live st y HN) as Iy. pose proof (NI_live st x HN) as Ix. unfold net_sock in Iy, Ix.
  destruct (ow_rcv x st HR) as (Hrw & (W & HW & Hwe) & _ & _). fold y in Hrw, Hwe. unfold net_sock in Hrw, Hwe.
  destruct (wire_parse_same (snd p)) as (Wc & Wp & Wsq).
  destruct (ow_chan x st HR p Hin) as [(_ & Ha) | (Hc & Ha & Hl)]; unfold net_sock in *.
  { exfalso. unfold wire_parse in Ha. cbn [r_ack_number] in Ha. destruct (r_ack_number (snd p)); [discriminate | congruence]. }
  destruct (ow_cross x st HR) as (Hcr & Hk0 & Hk1). fold y in Hcr, Hk0, Hk1. unfold net_sock in Hcr, Hk1.
  set (k := rcv_off (net_get st y) - una_off (net_get st x)) in *.
  pose proof (ow_txb x st HR) as Htxb. unfold net_sock in Htxb. change (2 ^ 30) with 1073741824 in Htxb.
  assert (Hux : u32 (s_local_seq_no (ep_sock (net_get st x)))) by apply (li_una _ Ix).
  assert (Hseq : r_seq_number (wire_parse (snd p)) = seq_norm (tcp_window_start (ep_sock (net_get st y)) - k)).
  { rewrite Wsq, Hsq, Hcr. change (seq_norm (sq (s_local_seq_no (ep_sock (net_get st x)) + k) - k))
      with (seq_subn (sq (s_local_seq_no (ep_sock (net_get st x)) + k)) k).
    rewrite seq_subn_sq. replace (s_local_seq_no (ep_sock (net_get st x)) + k - k) with (s_local_seq_no (ep_sock (net_get st x))) by lia.
    reflexivity. }
  assert (Hpl' : 0 < l_len (r_payload (wire_parse (snd p))) <= p30) by (rewrite Wp in *; unfold TcpRecvWindow.p30; lia).
  assert (Huy : 0 <= s_local_seq_no (ep_sock (net_get st y)) < 4294967296) by apply (li_una _ Iy).
  pose proof (ow_ytx x st HR) as Hytx. fold y in Hytx. unfold net_sock in Hytx.
  assert (Htx31 : 0 <= rb_len (s_tx_buffer (ep_sock (net_get st y))) < 2147483648) by lia.
  pose proof (ow_est x st HR y) as Hst. unfold net_sock in Hst.
  assert (HW0 : 0 <= W <= p30) by lia.
  assert (Hk30 : 0 <= k <= p30) by (unfold TcpRecvWindow.p30; lia).
  destruct (process_data_below _ _ _ _ _ _ _ W k Hst Hrw Hwe HW0 Hseq Hk30 Hpl' Hc Ha Huy Htx31 Hi)
    as (Sq & _ & _ & [(q & -> & Hp & Hge & Hstrict) | (-> & Hla & m & Hm & L)]).
  - split.
    { rewrite Hro. destruct (Z.eq_dec k 0) as [Ek | Ek]; [specialize (Hstrict ltac:(lia) Ek) |]; unfold k in *; lia. }
    left. exists q. cbn [wire_out opt_list] in Hout. rewrite Hk. split; [exact Hout | exact Hp].
  - split; [rewrite Hro; unfold k in *; lia|].
    right. cbn [wire_out opt_list] in Hout. rewrite app_nil_r in Hout. split; [exact Hout|].
    rewrite Hk.
    pose proof (rx_len_bounds _ HS) as B0. pose proof (rx_len_bounds _ HS') as B1.
    unfold net_sock in B0, B1. rewrite net_get_set_same, Hk in B1.
    apply (owed_step (ep_sock (net_get st y)) s' m).
    + pose proof (as_last st HA) as X. unfold net_sock in X. exact X.
    + pose proof (as_last _ HA') as X. unfold net_sock in X. rewrite net_get_set_same, Hk in X. exact X.
    + exact Hla.
    + apply ws_grow; assumption.
    + lia.
    + right. lia.
Qed.

(* ---------------------------------------------------------------------------------------- *)
(* K3: the receiver owes an ACK.  Any of its events transmits a segment that carries RCV.NXT,  *)
(* or leaves the ACK owed and the delayed-ACK deadline where it was.                          *)
(* ---------------------------------------------------------------------------------------- *)
Lemma dispatch_true_not_failed cx s s' res tags :
  tcp_dispatch cx s true = Ok (s', res, tags) -> forall p, res <> DEmitFailed p.
Proof.
  unfold tcp_dispatch. intros H p E. subst res.
  destruct (s_tuple s) as [t|]; [|discriminate].
  destruct (negb (tu_local_addr t =? cx_addr cx)); [discriminate|].
  obind_inv H. destruct a as (s1, t1). obind_inv H. destruct a as ((s2, go), t2).
  destruct (negb go); [discriminate|].
  obind_inv H. destruct a as ((((s3, o), z), k), t3).
  destruct o as [repr|]; [|discriminate]. cbn [negb] in H.
  destruct (tcp_dispatch_finish cx s3 repr z k). discriminate.
Qed.

Lemma ack_to_transmit_same s' s :
  s_remote_last_ack s' = s_remote_last_ack s -> tcp_window_start s' = tcp_window_start s ->
  tcp_ack_to_transmit s' = tcp_ack_to_transmit s.
Proof. intros E1 E2. unfold tcp_ack_to_transmit. rewrite E1, E2. reflexivity. Qed.

Lemma recv_slice_ack s n s' b :
  tcp_recv_slice s n = Ok (s', b) ->
  TcpRecvBase.rb_wf (s_rx_buffer s) -> 0 <= n ->
  s_remote_last_ack s' = s_remote_last_ack s /\ tcp_window_start s' = tcp_window_start s.
Proof.
  intros H Hwf Hn. unfold tcp_recv_slice in H. obind_inv H.
  destruct (rb_dequeue_slice (s_rx_buffer s) n) as (rx, bytes) eqn:Ed.
  destruct (TcpRecvBase.rb_dequeue_slice_spec _ _ _ _ Hwf Hn Ed) as (_ & _ & _ & Hl & _). cbv zeta in Hl.
  inversion H; subst s' b; clear H. unfold tcp_window_start. sproj. split; [reflexivity|].
  rewrite Hl, !seq_add_raw, sq_sq_add. f_equal. lia.
Qed.

Lemma send_slice_ack s data s' n :
  tcp_send_slice s data = Ok (s', n) ->
  s_remote_last_ack s' = s_remote_last_ack s /\ tcp_window_start s' = tcp_window_start s.
Proof.
  intros H. unfold tcp_send_slice in H. destruct (negb (tcp_may_send s)); [discriminate|].
  destruct (rb_enqueue_slice (s_tx_buffer s) data) as (tx, size).
  destruct (size >? 0); [|inversion H; subst; unfold tcp_window_start; sproj; auto].
  inversion H; subst s' n; clear H. unfold tcp_window_start.
  destruct (rb_len (s_tx_buffer s) =? 0); sproj;
    match goal with |- context [if ?b then _ else _] => destruct b end; sproj; auto.
Qed.

Definition delack_rel (now : Z) (s' s : socket) : Prop :=
  s_ack_delay_timer s' = s_ack_delay_timer s \/ s_ack_delay_timer s' = ADImmediate \/
  (s_ack_delay_timer s = ADIdle /\ exists d, s_ack_delay s = Some d /\ s_ack_delay_timer s' = ADWaiting (now + d)).

Lemma y_event_ack fa st ev ev0 e' :
  NI st -> safe3 st -> safe3 (net_set st y e') -> fair_ev fa st ev ->
  sock_event st ev y ev0 -> ep_step (net_get st y) ev0 = Ok e' ->
  tcp_ack_to_transmit (net_sock st y) = true ->
  (exists q, ep_out e' = ep_out (net_get st y) ++ [q] /\ r_control (snd q) <> CSyn /\
             (r_ack_number (snd q) = Some (tcp_window_start (net_sock st y)) \/
              r_ack_number (snd q) = Some (tcp_window_start (ep_sock e'))))
  \/ (ep_out e' = ep_out (net_get st y) /\ tcp_ack_to_transmit (ep_sock e') = true /\
      delack_rel (net_now st y) (ep_sock e') (net_sock st y)).
Proof.
  intros HN HS HS' Hfe Hse He Howed.
  pose proof HS as (HR & HA). pose proof HS' as (HR' & HA').
  pose proof (NI_live st y HN) as Iy. unfold net_sock in *.
  destruct (ow_rcv x st HR) as (Hrw & Hadv & Hrxwf & Hsh). fold y in Hrw, Hadv, Hrxwf, Hsh. unfold net_sock in *.
  destruct (ep_step_spec _ _ _ He) as (s' & out & tags & Hs & Hk & _ & Hout & _).
  pose proof (ow_est x _ HR' y) as Hst'. unfold net_sock in Hst'. rewrite net_get_set_same, Hk in Hst'.
  destruct ev; cbn [sock_event] in Hse; try contradiction.
  - (* a segment arrives *)
    destruct Hse as (-> & p & Hn & ->).
    pose proof (nth_error_In _ _ Hn) as Hin.
    destruct (y_deliver st p e' HN HS Hin He) as (Sq & Hm & [(q & Ho & Hp) | (Ho & Hla)]); unfold net_sock in *.
    + left. exists q. split; [exact Ho|]. destruct Hp as (Ha & Hc & _). split; [rewrite Hc; discriminate|].
      right. exact Ha.
    + right. split; [exact Ho|]. rewrite Hk in *.
      pose proof (rx_len_bounds _ HS) as B0. pose proof (rx_len_bounds _ HS') as B1.
      unfold net_sock in B0, B1. rewrite net_get_set_same, Hk in B1.
      split.
      * apply (owed_step (ep_sock (net_get st y)) s' (rb_len (s_rx_buffer s') - rb_len (s_rx_buffer (ep_sock (net_get st y))))).
        -- pose proof (as_last st HA) as X. unfold net_sock in X. exact X.
        -- pose proof (as_last _ HA') as X. unfold net_sock in X. rewrite net_get_set_same, Hk in X. exact X.
        -- exact Hla.
        -- apply ws_grow; [exact Sq | lia].
        -- lia.
        -- left. exact Howed.
      * cbn [tcp_step] in Hs. apply obind_ok in Hs. destruct Hs as (((s1 & rp) & tg) & Hi & Hs).
        assert (E : s1 = s') by (inversion Hs; reflexivity). subst s1.
        destruct (ingress_aux _ _ _ _ _ _ _ Hi) as (_ & [D | (_ & [X | X])]);
          [|rewrite Hst' in X; discriminate | rewrite Hst' in X; discriminate].
        unfold delack_rel, delack_step, net_now in *. exact D.
  - (* poll *)
    destruct Hse as (-> & ->). cbn [fair_ev] in Hfe. subst emit_ok.
    cbn [tcp_step] in Hs. apply obind_ok in Hs. destruct Hs as (((s1 & rs) & tg) & Hd & Hs).
    assert (E : s1 = s' /\ out = ODispatch rs) by (inversion Hs; auto). destruct E as (-> & ->).
    destruct (ow_tuple x st HR y) as (t & Ht & Hta). unfold net_sock in Ht.
    pose proof (ow_est x st HR y) as Hst. unfold net_sock in Hst.
    destruct (dispatch_established _ _ _ _ _ _ _ Hst Ht Hta Hd) as (Hack & _).
    cbn [wire_out] in Hout.
    destruct rs as [|q|q].
    + right. cbn [opt_list] in Hout. rewrite app_nil_r in Hout. split; [exact Hout|]. rewrite Hk.
      destruct (TcpRecvDispatch.dispatch_spec _ _ _ _ _ _ Hrxwf Hsh Hd) as [(Hres & _) | (_ & (_ & Hrx & _ & Hsq & _) & _ & Hl & _)].
      * unfold TcpRecvDispatch.dispatch_resets in Hres. rewrite Ht, Hta, Z.eqb_refl in Hres. discriminate.
      * destruct Hl as [(Hl & _) | ((q & Hq) & _)]; [|discriminate].
        split; [|left; apply (dispatch_nothing_timer _ _ _ _ _ _ Ht Hta Hd)].
        rewrite (ack_to_transmit_same s' (ep_sock (net_get st y)) Hl); [exact Howed|].
        unfold tcp_window_start. rewrite Hrx, Hsq. reflexivity.
    + left. exists q. cbn [opt_list] in Hout. split; [exact Hout|].
      destruct (Hack q (or_introl eq_refl)) as (Ha & _ & Hc). split; [exact Hc | left; exact Ha].
    + exfalso. exact (dispatch_true_not_failed _ _ _ _ _ Hd q eq_refl).
  - (* send *)
    destruct Hse as (-> & ->). right.
    cbn [tcp_step] in Hs.
    destruct (tcp_send_slice (ep_sock (net_get st y)) data) as [(s2, n)|err|] eqn:E; [| |discriminate].
    + assert (E1 : s2 = s' /\ out = OSize n) by (inversion Hs; auto). destruct E1 as (-> & ->).
      cbn [wire_out opt_list] in Hout. rewrite app_nil_r in Hout. split; [exact Hout|]. rewrite Hk.
      destruct (send_slice_ack _ _ _ _ E) as (A1 & A2).
      split; [rewrite (ack_to_transmit_same _ _ A1 A2); exact Howed|].
      left. apply (send_slice_auxf _ _ _ _ E).
    + assert (E1 : s' = ep_sock (net_get st y) /\ out = OErr err) by (inversion Hs; auto). destruct E1 as (E1 & ->).
      cbn [wire_out opt_list] in Hout. rewrite app_nil_r in Hout. split; [exact Hout|]. rewrite Hk, E1.
      split; [exact Howed | left; reflexivity].
  - (* recv *)
    destruct Hse as (-> & ->). right.
    cbn [tcp_step] in Hs.
    destruct (tcp_recv_slice (ep_sock (net_get st y)) (Z.max 0 n)) as [(s2, b)|err|] eqn:E; [| |discriminate].
    + assert (E1 : s2 = s' /\ out = OBytes b) by (inversion Hs; auto). destruct E1 as (-> & ->).
      cbn [wire_out opt_list] in Hout. rewrite app_nil_r in Hout. split; [exact Hout|]. rewrite Hk.
      assert (Hn0 : 0 <= Z.max 0 n) by lia.
      destruct (recv_slice_ack _ _ _ _ E Hrxwf Hn0) as (A1 & A2).
      split; [rewrite (ack_to_transmit_same _ _ A1 A2); exact Howed|].
      left. apply (recv_slice_auxf _ _ _ _ E).
    + assert (E1 : s' = ep_sock (net_get st y) /\ out = OErr err) by (inversion Hs; auto). destruct E1 as (E1 & ->).
      cbn [wire_out opt_list] in Hout. rewrite app_nil_r in Hout. split; [exact Hout|]. rewrite Hk, E1.
      split; [exact Howed | left; reflexivity].
  - (* close: not in this regime *)
    destruct Hse as (-> & ->). exfalso.
    cbn [tcp_step] in Hs. assert (E1 : tcp_close (ep_sock (net_get st y)) = s') by (inversion Hs; reflexivity).
    pose proof (ow_est x st HR y) as Hst. unfold net_sock in Hst.
    rewrite <- E1 in Hst'. unfold tcp_close in Hst'. rewrite Hst in Hst'. sproj in Hst'. discriminate.
Qed.

(* ---------------------------------------------------------------------------------------- *)
(* K3 / K4                                                                                   *)
(* ---------------------------------------------------------------------------------------- *)
Definition K3 (u0 dk T3 : Z) (fa : fair_aux) (st : net) : Prop :=
  Gbase u0 dk fa st /\ u0 < rcv_off (net_get st y) /\
  tcp_ack_to_transmit (net_sock st y) = true /\ net_now st y <= T3 /\
  (forall t, s_ack_delay_timer (net_sock st y) = ADWaiting t -> t <= T3) /\
  (s_ack_delay_timer (net_sock st y) = ADIdle -> net_now st y + Dack <= T3).

Definition K4 (u0 dk T4 : Z) (fa : fair_aux) (st : net) : Prop :=
  Gbase u0 dk fa st /\
  exists j q t d, nth_error (chan_to st x) j = Some q /\ nth_error (fa_dl fa x) j = Some (Some t) /\
                  net_now st x <= t /\ t <= T4 /\
                  r_control (snd q) = CNone /\ r_payload (snd q) = [] /\
                  r_ack_number (snd q) = Some (sq (s_local_seq_no (net_sock st x) + d)) /\
                  0 < d <= txl x st.

Lemma chan_x_is_out st : chan_to st x = ep_out (net_get st y).
Proof. reflexivity. Qed.

(* an ACK of RCV.NXT has just been put on the wire by y: phase K4 begins *)
Lemma k4_enter u0 dk T4 fa st ev st' q :
  0 <= Dt ->
  safe3 st' -> Gbase u0 dk fa st -> Gbase u0 dk (fa_after Dt Da fa ev st') st' ->
  fair_ev fa st ev -> net_step st ev = Ok st' ->
  chan_to st' x = chan_to st x ++ [q] ->
  r_control (snd q) <> CSyn ->
  (exists k, r_ack_number (snd q) = Some (sq (s_local_seq_no (net_sock st' x) + k)) /\ 0 < k <= txl x st') ->
  net_now st' x + Dt <= T4 ->
  K4 u0 dk T4 (fa_after Dt Da fa ev st') st'.
Proof.
  intros HDt (HR' & HA') HB HB' Hfe H Hch Hns (k & Hak & Hk) HT.
  destruct HB as (_ & _ & Hsy & _).
  split; [exact HB'|].
  set (j := length (chan_to st x)).
  exists j, q, (net_now st' x + Dt), k.
  split; [rewrite Hch; unfold j; rewrite nth_error_app2 by lia; rewrite Nat.sub_diag; reflexivity|].
  split; [apply (fa_after_dl_new Dt Da fa st ev st' x j Hsy); rewrite Hch, app_length; cbn [length]; unfold j; lia|].
  split; [lia|]. split; [exact HT|].
  assert (Hin : In q (chan_to st' x)) by (rewrite Hch; apply in_or_app; right; left; reflexivity).
  destruct (wire_parse_same (snd q)) as (Wc & Wp & _).
  destruct (as_xchan st' HA' q Hin) as [Hc | (Hc & Hp & _)].
  - rewrite Wc in Hc. contradiction.
  - rewrite Wc in Hc. rewrite Wp in Hp. split; [exact Hc|]. split; [exact Hp|]. split; assumption.
Qed.

(* RCV.NXT of y, read through ow_cross, is an acknowledgement of k > 0 octets of x's queue *)
Lemma cross_ack u0 st :
  oneway_safe x st -> una_off (net_get st x) = u0 -> u0 < rcv_off (net_get st y) ->
  exists k, tcp_window_start (net_sock st y) = sq (s_local_seq_no (net_sock st x) + k) /\ 0 < k <= txl x st.
Proof.
  intros HR Hu Hr. destruct (ow_cross x st HR) as (Hc & H0 & H1). fold y in Hc, H0, H1.
  exists (rcv_off (net_get st y) - una_off (net_get st x)). split; [exact Hc|]. unfold txl. lia.
Qed.

Lemma K2_step u0 dk T2 fa st ev st' :
  0 <= Dt -> 0 <= Dack ->
  safe3 st -> safe3 st' -> K2 u0 dk T2 fa st -> fair_ev fa st ev -> net_step st ev = Ok st' ->
  (Qg u0 st' \/ K3 u0 dk (T2 + Dack) (fa_after Dt Da fa ev st') st' \/
   K4 u0 dk (T2 - dk + Dt) (fa_after Dt Da fa ev st') st') \/
  K2 u0 dk T2 (fa_after Dt Da fa ev st') st'.
Proof.
  intros HDt HDa HS HS' (HB & i & p & t & Hn & Hdl & Hnow & HtT & Hsq & Hpl & Hak) Hfe H.
  pose proof HS as (HR & HA). pose proof HS' as (HR' & HA').
  pose proof HB as (HN & Ho & Hsy & Hdk & Hu & Hl).
  destruct (gbase_step _ _ _ _ _ _ HR HR' HB Hfe H) as [HQ | (HB' & (Hseq & _) & Hmono & Htl)]; [left; left; exact HQ|].
  pose proof HB' as (HN' & _ & _ & Hdk' & Hu' & _).
  destruct (match ev with NDeliver to j => if side_eqb to y then Nat.eqb j i else false | _ => false end) eqn:Htr.
  { (* the retransmission is delivered *)
    destruct ev; try discriminate. destruct (side_eqb to y) eqn:Es; [|discriminate].
    apply side_eqb_true in Es. apply Nat.eqb_eq in Htr. subst to i0.
    assert (Hclk : net_now st' y = net_now st y) by (rewrite (net_step_now _ _ _ y H); lia).
    assert (Hclkx : net_now st' x = net_now st x) by (rewrite (net_step_now _ _ _ x H); lia).
    left. right.
    destruct (tracked_below u0 st i p st' HN HS HS' Hu Hn Hsq Hpl Hak H) as (Hrc' & [(q & Hch & Hp) | (Hch & Howed)]).
    - right. apply (k4_enter u0 dk _ fa st _ st' q HDt HS' HB HB' Hfe H Hch).
      + destruct Hp as (_ & Hc & _). rewrite Hc. discriminate.
      + destruct (cross_ack u0 st' HR' Hu' Hrc') as (k & Hk1 & Hk2). exists k. split; [|exact Hk2].
        destruct Hp as (Ha & _). rewrite Ha, Hk1. reflexivity.
      + lia.
    - left. split; [exact HB'|]. split; [exact Hrc'|]. split; [exact Howed|]. split; [lia|].
      destruct (HN' y) as (_ & _ & _ & Hdb). unfold delack_bounded in Hdb. unfold net_sock.
      pose proof (as_delay st' HA') as Hdel. unfold net_sock in Hdel.
      split.
      + intros t0 Et. rewrite Et in Hdb. destruct Hdb as (d & Hd & Hle). rewrite Hd in Hdel.
        unfold net_now in *. lia.
      + intros _. lia. }
  right. split; [exact HB'|].
  exists i, p, t.
  split; [apply (fair_step_nth fa st ev st' y i p Hfe H Hn)|].
  split.
  { apply fa_after_dl_keep; [exact Hdl|]. intros to E Eto. subst ev to.
    rewrite side_eqb_refl, Nat.eqb_refl in Htr. discriminate. }
  split.
  { rewrite (net_step_now _ _ _ y H). destruct ev; try lia.
    apply (tick_respects_dl fa st d y i t Hfe Hdl Hnow). }
  split; [exact HtT|]. split; [rewrite Hseq; exact Hsq|]. split; assumption.
Qed.

Lemma K3_step u0 dk T3 fa st ev st' :
  0 <= Dt ->
  safe3 st -> safe3 st' -> K3 u0 dk T3 fa st -> fair_ev fa st ev -> net_step st ev = Ok st' ->
  (Qg u0 st' \/ K4 u0 dk (T3 - dk + Dt) (fa_after Dt Da fa ev st') st') \/
  K3 u0 dk T3 (fa_after Dt Da fa ev st') st'.
Proof.
  intros HDt HS HS' (HB & Hrc & Howed & Hclk & Hwt & Hid) Hfe H.
  pose proof HS as (HR & HA). pose proof HS' as (HR' & HA').
  pose proof HB as (HN & Ho & Hsy & Hdk & Hu & Hl).
  destruct (gbase_step _ _ _ _ _ _ HR HR' HB Hfe H) as [HQ | (HB' & (Hseq & _) & Hmono & Htl)]; [left; left; exact HQ|].
  pose proof HB' as (HN' & _ & _ & Hdk' & Hu' & _).
  assert (Hrc' : u0 < rcv_off (net_get st' y)) by lia.
  (* y's socket untouched: the obligation stays, the clock cannot pass the delayed-ACK deadline *)
  assert (Hkeep : net_sock st' y = net_sock st y ->
                  K3 u0 dk T3 (fa_after Dt Da fa ev st') st').
  { intros Ey. split; [exact HB'|]. split; [exact Hrc'|]. rewrite Ey. split; [exact Howed|].
    assert (Hc' : net_now st' y <= T3 /\ (s_ack_delay_timer (net_sock st y) = ADIdle -> net_now st' y = net_now st y)).
    { rewrite (net_step_now _ _ _ y H). destruct ev; try (split; [lia | intros; lia]).
      destruct Hfe as (Hd0 & Hperm). destruct (Z.eq_dec d 0) as [-> | Hnz]; [split; [lia | intros; lia]|].
      destruct (Hperm ltac:(lia) y) as (Hpp & _). unfold poll_permits, net_poll_at in Hpp.
      destruct (ow_tuple x st HR y) as (tu & Htu & _).
      pose proof (poll_at_owed (ep_cx (net_get st y)) (net_sock st y) ltac:(rewrite Htu; discriminate) Howed) as Hpa.
      unfold net_sock in *.
      destruct (tcp_poll_at (ep_cx (net_get st y)) (ep_sock (net_get st y))) as [[|t|]|err|]; try contradiction.
      destruct Hpa as (t0 & Et0 & Hle). specialize (Hwt t0 Et0). unfold net_now in *.
      split; [lia|]. intros X. rewrite X in Et0. discriminate. }
    destruct Hc' as (Hc1 & Hc2).
    split; [exact Hc1|]. split; [exact Hwt|]. intros X. rewrite (Hc2 X). apply Hid. exact X. }
  destruct (net_step_kind _ _ _ H) as [w ev0 e' Hse He E | to i E1 _ E | d E1 E | w isn ts E1 E | to i Hd].
  - destruct (side_cases x w) as [Ew | Ew]; subst w st'.
    + right. apply Hkeep. unfold net_sock. rewrite net_get_set_other. reflexivity.
    + change (side_other x) with y in He, Hse, H, HS', HR', HA', HB', HN', Hu', Hdk', Hrc', Htl, Hmono, Hseq |- *.
      assert (Hclky : net_now (net_set st y e') y = net_now st y).
      { rewrite (net_step_now _ _ _ y H). destruct ev; try lia. destruct Hse. }
      assert (Hclkx : net_now (net_set st y e') x = net_now st x).
      { rewrite (net_step_now _ _ _ x H). destruct ev; try lia. destruct Hse. }
      assert (Ex : net_get (net_set st y e') x = net_get st x).
      { pose proof (net_get_set_other st y e') as X. unfold y in X at 2 3. rewrite side_other_inv in X. exact X. }
      destruct (y_event_ack fa st ev ev0 e' HN HS HS' Hfe Hse He Howed) as [(q & Hout & Hns & Hack) | (Hout & Howed' & Hrel)].
      * (* an ACK of RCV.NXT is on the wire *)
        left. right.
        apply (k4_enter u0 dk _ fa st ev _ q HDt HS' HB HB' Hfe H).
        -- rewrite !chan_x_is_out, net_get_set_same. exact Hout.
        -- exact Hns.
        -- destruct Hack as [Ha | Ha].
           ++ destruct (cross_ack u0 st HR Hu Hrc) as (k & Hk1 & Hk2). exists k.
              unfold net_sock in *. rewrite Ex. split; [rewrite Ha, Hk1; reflexivity|].
              unfold txl, net_sock in *. rewrite Ex. exact Hk2.
           ++ destruct (cross_ack u0 _ HR' Hu' Hrc') as (k & Hk1 & Hk2). exists k.
              unfold net_sock in Hk1 at 1. rewrite net_get_set_same in Hk1.
              split; [rewrite Ha, Hk1; reflexivity | exact Hk2].
        -- lia.
      * (* still owed *)
        right. split; [exact HB'|]. split; [exact Hrc'|]. unfold net_sock. rewrite net_get_set_same.
        split; [exact Howed'|]. split; [lia|].
        pose proof (as_delay st HA) as Hdel. unfold net_sock in *.
        destruct Hrel as [Hr | [Hr | (Hi0 & d & Hd & Hr)]].
        -- rewrite Hr. split; [exact Hwt|]. intros X. rewrite Hclky. apply Hid. exact X.
        -- rewrite Hr. split; [intros t0 X; discriminate | intros X; discriminate].
        -- rewrite Hr. rewrite Hd in Hdel. specialize (Hid Hi0).
           split; [intros t0 X; inversion X; subst; lia | intros X; discriminate].
  - subst st'. right. apply Hkeep. reflexivity.
  - subst st'. right. apply Hkeep. unfold net_sock. destruct (tick_same st d y) as (X & _). exact X.
  - subst st'. right. apply Hkeep. unfold net_sock. destruct (rand_same st w isn ts y) as (X & _). exact X.
  - exfalso. destruct Hd as [-> | ->]; exact Hfe.
Qed.

(* K4: the ACK reaches the sender and is accepted *)
Lemma tracked_ack u0 st j q d st' :
  NI st -> safe3 st -> una_off (net_get st x) = u0 ->
  nth_error (chan_to st x) j = Some q ->
  r_control (snd q) = CNone -> r_payload (snd q) = [] ->
  r_ack_number (snd q) = Some (sq (s_local_seq_no (net_sock st x) + d)) -> 0 < d <= txl x st ->
  net_step st (NDeliver x j) = Ok st' ->
  u0 < una_off (net_get st' x).
Proof.
  intros HN (HR & HA) Hu Hn Hc Hp Hak Hd H.
  unfold net_step in H. fold (chan_to st x) in H. rewrite Hn in H.
  apply obind_ok in H. destruct H as (e' & He & H). inversion H; subst st'; clear H.
  rewrite net_get_set_same.
  pose proof (NI_live st x HN) as Ix. destruct (HN x) as (Hcx & _). unfold net_sock in *.
  destruct (ep_step_spec _ _ _ He) as (s' & out & tags & Hs & Hk & _).
  rewrite (ep_step_una_off _ (EvSegment (fst q) (wire_parse (snd q))) _ _ _ _ I (li_tx _ Ix) He Hs ltac:(discriminate)).
  cbn [tcp_step] in Hs. apply obind_ok in Hs. destruct Hs as (((s1 & rp) & tg) & Hi & Hs).
  assert (E : s1 = s') by (inversion Hs; reflexivity). subst s1.
  pose proof (nth_error_In _ _ Hn) as Hin.
  rewrite (ingress_is_process _ _ _ (ow_acc x st HR x q Hin)) in Hi. unfold net_sock in Hi.
  destruct (wire_parse_same (snd q)) as (Wc & Wp & _).
  destruct (as_xchan st HA q Hin) as [Hsyn | (_ & _ & Hsq)]; [rewrite Wc, Hc in Hsyn; discriminate|].
  destruct (as_xadv st HA) as (W & HW & Hwe). unfold net_sock in *.
  pose proof (ow_txb x st HR) as Htxb. unfold net_sock in Htxb.
  pose proof (ow_est x st HR x) as Hst. unfold net_sock in Hst.
  assert (Hack : r_ack_number (wire_parse (snd q)) = Some (sq (s_local_seq_no (ep_sock (net_get st x)) + d))).
  { unfold wire_parse. cbn [r_ack_number]. rewrite Hak. f_equal. unfold seq_norm, sq, seq_modulus.
    apply Z.mod_mod. change (2 ^ 32) with 4294967296. lia. }
  unfold txl, net_sock in Hd.
  assert (HW' : 0 <= W <= 2 ^ 30) by (unfold TcpRecvWindow.p30 in HW; change (2 ^ 30) with 1073741824; lia).
  pose proof (process_ack_advances _ _ _ _ _ _ _ d W Hcx (seg_ok_parse (snd q)) Ix Hst
                ltac:(rewrite Wc; exact Hc) ltac:(rewrite Wp; exact Hp) Hsq Hwe HW' Hack Hd Htxb Hi) as Hshr.
  lia.
Qed.

Lemma K4_step u0 dk T4 fa st ev st' :
  safe3 st -> safe3 st' -> K4 u0 dk T4 fa st -> fair_ev fa st ev -> net_step st ev = Ok st' ->
  Qg u0 st' \/ K4 u0 dk T4 (fa_after Dt Da fa ev st') st'.
Proof.
  intros HS HS' (HB & j & q & t & d & Hn & Hdl & Hnow & HtT & Hc & Hp & Hak & Hd) Hfe H.
  pose proof HS as (HR & HA). pose proof HS' as (HR' & HA').
  pose proof HB as (HN & Ho & Hsy & Hdk & Hu & Hl).
  destruct (match ev with NDeliver to i => if side_eqb to x then Nat.eqb i j else false | _ => false end) eqn:Htr.
  { destruct ev; try discriminate. destruct (side_eqb to x) eqn:Es; [|discriminate].
    apply side_eqb_true in Es. apply Nat.eqb_eq in Htr. subst to i.
    left. apply (tracked_ack u0 st j q d st' HN HS Hu Hn Hc Hp Hak Hd H). }
  destruct (gbase_step _ _ _ _ _ _ HR HR' HB Hfe H) as [HQ | (HB' & (Hseq & _) & _ & Htl)]; [left; exact HQ|].
  right. split; [exact HB'|].
  exists j, q, t, d.
  split; [apply (fair_step_nth fa st ev st' x j q Hfe H Hn)|].
  split.
  { apply fa_after_dl_keep; [exact Hdl|]. intros to E Eto. subst ev to.
    rewrite side_eqb_refl, Nat.eqb_refl in Htr. discriminate. }
  split.
  { rewrite (net_step_now _ _ _ x H). destruct ev; try lia.
    apply (tick_respects_dl fa st d0 x j t Hfe Hdl Hnow). }
  split; [exact HtT|]. split; [exact Hc|]. split; [exact Hp|]. split; [rewrite Hseq; exact Hak | lia].
Qed.

Lemma K4_mono u0 dk T T' fa st : T <= T' -> K4 u0 dk T fa st -> K4 u0 dk T' fa st.
Proof.
  intros HT (HB & j & q & t & d & A1 & A2 & A3 & A4 & A5). split; [exact HB|].
  exists j, q, t, d. repeat split; try tauto. lia.
Qed.

(* ---------------------------------------------------------------------------------------- *)
(* STEP 3                                                                                    *)
(* ---------------------------------------------------------------------------------------- *)
Lemma tick_offsets st d st' z :
  net_step st (NTick d) = Ok st' ->
  una_off (net_get st' z) = una_off (net_get st z) /\ rcv_off (net_get st' z) = rcv_off (net_get st z).
Proof.
  intros H. rewrite (net_step_tick _ _ _ H). destruct (tick_same st d z) as (E1 & E2 & E3 & _).
  unfold una_off, rcv_off. rewrite E1, E2, E3. split; reflexivity.
Qed.

(* the goal "SND.UNA advanced" is reached from a state of one of the phases by an event that is not
   a tick: the progress state inherits the invariants and the clock of the state before *)
Lemma finish u0 dk fa0 st0 ev0 st1 B :
  Gbase u0 dk fa0 st0 -> net_now st0 x <= B -> fair_ev fa0 st0 ev0 -> net_step st0 ev0 = Ok st1 ->
  Qg u0 st1 ->
  NI st1 /\ opts_ok st1 /\ dl_sync Da (fa_after Dt Da fa0 ev0 st1) st1 /\ net_now st1 x <= B.
Proof.
  intros (HN & Ho & Hsy & _ & Hu & _) HB Hfe H HQ.
  split; [exact (NI_step _ _ _ HN H)|]. split; [exact (opts_step _ _ _ Ho H)|].
  split; [exact (fa_after_sync Dt Da _ _ _ _ Hsy Hfe H)|].
  rewrite (net_step_now _ _ _ x H). destruct ev0; try lia.
  exfalso. destruct (tick_offsets _ _ _ x H) as (E & _). unfold Qg in HQ. lia.
Qed.

(* x has unacknowledged octets - whether y has already accepted some of them (the ACK was lost, or
   is still owed) or none.  On every fair run on which the safety facts hold, before x's clock has
   advanced by more than W3 = RTTE_MAX_RTO + 2 Dt + Dack the run passes through a state st1 in which
   SND.UNA of x has advanced: retransmission from SND.UNA, delivery, acceptance of the new part or an
   immediate ACK of RCV.NXT, the (possibly delayed) ACK, its delivery and acceptance.  st1 occurs no
   later than W3 after the start, and the rest of the run is again a fair run from st1. *)
Theorem ack_round : forall evs fa st st' u0,
  0 <= Dt -> 0 <= Dack ->
  NI st -> opts_ok st -> dl_sync Da fa st ->
  run_all safe3 st evs -> fair_run Dt Da fa st evs -> net_run st evs = Ok st' ->
  0 < txl x st -> una_off (net_get st x) = u0 ->
  net_now st x + max_rto_us + 2 * Dt + Dack < net_now st' x ->
  exists pre post fa1 st1,
    evs = pre ++ post /\ net_run st pre = Ok st1 /\ net_run st1 post = Ok st' /\
    run_all safe3 st1 post /\ fair_run Dt Da fa1 st1 post /\
    NI st1 /\ opts_ok st1 /\ dl_sync Da fa1 st1 /\
    Qg u0 st1 /\ net_now st1 x <= net_now st x + max_rto_us + 2 * Dt + Dack.
Proof.
  intros evs fa st st' u0 HDt HDk HN Ho Hsy HRun Hfair Hrun Hl Hu Hlate.
  set (dk := net_now st y - net_now st x).
  set (T1 := net_now st x + max_rto_us).
  set (T4 := T1 + 2 * Dt + Dack).
  assert (Hdk' : net_now st' y - net_now st' x = dk) by (unfold dk; apply (net_run_skew2 _ _ _ y x Hrun)).
  assert (HK1 : K1 u0 dk T1 fa st).
  { split; [split; [exact HN|]; split; [exact Ho|]; split; [exact Hsy|]; split; [reflexivity|]; split; [exact Hu | exact Hl]|].
    split; [unfold T1; pose proof max_rto_us_pos; lia|].
    intros e He. destruct (HN x) as (_ & _ & (_ & Hb) & _). unfold net_sock in He. rewrite He in Hb. exact Hb. }
  (* packaging of a progress state reached from a state st0 with Gbase and x-clock <= T4 *)
  assert (Hpack : forall pre1 post1 fa0 st0 ev0 st1,
            evs = pre1 ++ post1 -> net_run st pre1 = Ok st1 -> net_run st1 post1 = Ok st' ->
            run_all safe3 st1 post1 -> fair_run Dt Da (fa_after Dt Da fa0 ev0 st1) st1 post1 ->
            Gbase u0 dk fa0 st0 -> net_now st0 x <= T4 -> fair_ev fa0 st0 ev0 -> net_step st0 ev0 = Ok st1 ->
            Qg u0 st1 ->
            exists pre post fa1 st1,
              evs = pre ++ post /\ net_run st pre = Ok st1 /\ net_run st1 post = Ok st' /\
              run_all safe3 st1 post /\ fair_run Dt Da fa1 st1 post /\
              NI st1 /\ opts_ok st1 /\ dl_sync Da fa1 st1 /\
              Qg u0 st1 /\ net_now st1 x <= T4).
  { intros pre1 post1 fa0 st0 ev0 st1 E1 E2 E3 E4 E5 HG HB Hfe Hs HQ.
    destruct (finish u0 dk fa0 st0 ev0 st1 T4 HG HB Hfe Hs HQ) as (F1 & F2 & F3 & F4).
    exists pre1, post1, (fa_after Dt Da fa0 ev0 st1), st1. auto 12. }
  (* the last phase, from any K4 with a deadline not after T4 *)
  assert (Hfin : forall pre0 post1 fa1 st1 T, evs = pre0 ++ post1 -> net_run st pre0 = Ok st1 ->
            T <= T4 -> K4 u0 dk T fa1 st1 -> run_all safe3 st1 post1 ->
            fair_run Dt Da fa1 st1 post1 -> net_run st1 post1 = Ok st' ->
            exists pre post fa1 st1,
              evs = pre ++ post /\ net_run st pre = Ok st1 /\ net_run st1 post = Ok st' /\
              run_all safe3 st1 post /\ fair_run Dt Da fa1 st1 post /\
              NI st1 /\ opts_ok st1 /\ dl_sync Da fa1 st1 /\
              Qg u0 st1 /\ net_now st1 x <= T4).
  { intros pre0 post1 fa1 st1 T E0 R0 HT HK4 HR1 Hf1 Hr1.
    destruct (fair_leads_under_last Dt Da safe3 (K4 u0 dk T4) (fun _ st => Qg u0 st) x T4
                ltac:(intros fa0 st0 (_ & j0 & q0 & t0 & d0 & _ & _ & A & B & _); lia)
                ltac:(intros fa0 st0 ev0 st0' R1 R1' J0 F0 S0; exact (K4_step _ _ _ _ _ _ _ R1 R1' J0 F0 S0))
                post1 fa1 st1 st' (K4_mono _ _ _ _ _ _ HT HK4) HR1 Hf1 Hr1 ltac:(unfold T4, T1 in *; lia))
      as (pre2 & post2 & fa2 & st2 & -> & Hq1 & Hq2 & HR2 & Hf2 & HQ & fa0 & st0 & ev0 & HJ0 & _ & Hfe0 & Hs0 & ->).
    destruct HJ0 as (HG0 & j0 & q0 & t0 & d0 & _ & _ & A & B & _).
    apply (Hpack (pre0 ++ pre2) post2 fa0 st0 ev0 st2); auto.
    - rewrite E0, app_assoc. reflexivity.
    - eapply net_run_app; eassumption.
    - lia. }
  (* phase 1 *)
  destruct (fair_leads_under_last Dt Da safe3 (K1 u0 dk T1)
              (fun fa st => Qg u0 st \/ K2 u0 dk (T1 + dk + Dt) fa st) x T1
              ltac:(intros fa0 st0 (_ & H0 & _); exact H0)
              ltac:(intros fa0 st0 ev0 st0' R0 R0' J0 F0 S0; exact (K1_step _ _ _ _ _ _ _ HDt R0 R0' J0 F0 S0))
              evs fa st st' HK1 HRun Hfair Hrun ltac:(unfold T1 in *; lia))
    as (pre & post & fa1 & st1 & E & Hp1 & Hp2 & HR1 & Hf1 & [HQ | HK2] & fa0 & st0 & ev0 & HJ0 & _ & Hfe0 & Hs0 & Efa).
  { subst fa1. destruct HJ0 as (HG0 & A & _).
    apply (Hpack pre post fa0 st0 ev0 st1); auto. unfold T4. lia. }
  clear fa0 st0 ev0 HJ0 Hfe0 Hs0 Efa.
  (* phase 2 *)
  set (T2 := T1 + dk + Dt) in *.
  destruct (fair_leads_under_last Dt Da safe3 (K2 u0 dk T2)
              (fun fa st => Qg u0 st \/ K3 u0 dk (T2 + Dack) fa st \/ K4 u0 dk (T2 - dk + Dt) fa st) y T2
              ltac:(intros fa0 st0 (_ & i0 & p0 & t0 & _ & _ & A & B & _); lia)
              ltac:(intros fa0 st0 ev0 st0' R0 R0' J0 F0 S0; exact (K2_step _ _ _ _ _ _ _ HDt HDk R0 R0' J0 F0 S0))
              post fa1 st1 st' HK2 HR1 Hf1 Hp2 ltac:(unfold T2, T1 in *; lia))
    as (pre2 & post2 & fa2 & st2 & E2 & Hq1 & Hq2 & HR2 & Hf2 & [HQ | [HK3 | HK4]] & fa0 & st0 & ev0 & HJ0 & _ & Hfe0 & Hs0 & Efa).
  { subst fa2. destruct HJ0 as (HG0 & i0 & p0 & t0 & _ & _ & A & B & _).
    apply (Hpack (pre ++ pre2) post2 fa0 st0 ev0 st2); auto.
    - rewrite E, E2, app_assoc. reflexivity.
    - eapply net_run_app; eassumption.
    - destruct HG0 as (_ & _ & _ & Hsk & _). unfold T4, T2 in *. lia. }
  2:{ apply (Hfin (pre ++ pre2) post2 fa2 st2 (T2 - dk + Dt)); auto.
      - rewrite E, E2, app_assoc. reflexivity.
      - eapply net_run_app; eassumption.
      - unfold T4, T2. lia. }
  clear fa0 st0 ev0 HJ0 Hfe0 Hs0 Efa.
  (* phase 3 *)
  set (T3 := T2 + Dack) in *.
  destruct (fair_leads_under_last Dt Da safe3 (K3 u0 dk T3)
              (fun fa st => Qg u0 st \/ K4 u0 dk (T3 - dk + Dt) fa st) y T3
              ltac:(intros fa0 st0 (_ & _ & _ & A & _); exact A)
              ltac:(intros fa0 st0 ev0 st0' R0 R0' J0 F0 S0; exact (K3_step _ _ _ _ _ _ _ HDt R0 R0' J0 F0 S0))
              post2 fa2 st2 st' HK3 HR2 Hf2 Hq2 ltac:(unfold T3, T2, T1 in *; lia))
    as (pre3 & post3 & fa3 & st3 & E3 & Hs1 & Hs2 & HR3 & Hf3 & [HQ | HK4] & fa0 & st0 & ev0 & HJ0 & _ & Hfe0 & Hs0 & Efa).
  { subst fa3. destruct HJ0 as (HG0 & _ & _ & A & _).
    apply (Hpack (pre ++ pre2 ++ pre3) post3 fa0 st0 ev0 st3); auto.
    - rewrite E, E2, E3, !app_assoc. reflexivity.
    - eapply net_run_app; [exact Hp1|]. eapply net_run_app; eassumption.
    - destruct HG0 as (_ & _ & _ & Hsk & _). unfold T4, T3, T2 in *. lia. }
  apply (Hfin (pre ++ pre2 ++ pre3) post3 fa3 st3 (T3 - dk + Dt)); auto.
  - rewrite E, E2, E3, !app_assoc. reflexivity.
  - eapply net_run_app; [exact Hp1|]. eapply net_run_app; eassumption.
  - unfold T4, T3, T2. lia.
Qed.

(* the statement of step 3 proper *)
Theorem ack_eventually_advances_snd_una : forall evs fa st st' u0,
  0 <= Dt -> 0 <= Dack ->
  NI st -> opts_ok st -> dl_sync Da fa st ->
  run_all safe3 st evs -> fair_run Dt Da fa st evs -> net_run st evs = Ok st' ->
  0 < txl x st -> una_off (net_get st x) = u0 ->
  net_now st x + max_rto_us + 2 * Dt + Dack < net_now st' x ->
  exists pre post st1, evs = pre ++ post /\ net_run st pre = Ok st1 /\ net_run st1 post = Ok st' /\
                       Qg u0 st1.
Proof.
  intros evs fa st st' u0 HDt HDk HN Ho Hsy HRun Hfair Hrun Hl Hu Hlate.
  destruct (ack_round evs fa st st' u0 HDt HDk HN Ho Hsy HRun Hfair Hrun Hl Hu Hlate)
    as (pre & post & fa1 & st1 & E & A & B & _ & _ & _ & _ & _ & HQ & _).
  exists pre, post, st1. auto.
Qed.

End Ack.
