(* Lemmas about Model/Ingress.v and Model/Addr.v (properties C11, C10). *)
From SV Require Import Lib.Base Gen.Consts Gen.WireFields Model.Addr Model.Ingress.

(* ================================================================== specification vocabulary
   Written without reference to the model's decision functions, so that the theorems
   compare the model with an independent description of "addressed to us", "matches the
   bound endpoint", "non-unicast". *)

(* ---- the interface's well-formedness: what update_ip_addrs / join_multicast_group enforce
   (addresses unicast — the unspecified address, which update_ip_addrs tolerates, excluded —
   and groups multicast) *)
Definition wf_iface (ifc : iface) : Prop :=
  Forall (fun c => ip_is_unicast (c_addr c) = true) (if_addrs ifc) /\
  Forall (fun g => ip_is_multicast g = true) (if_groups ifc).

(* routers configured in the routing table are unicast addresses *)
Definition wf_routes (ifc : iface) : Prop :=
  Forall (fun r => ip_is_unicast (snd r) = true) (if_routes ifc).

(* x is one of the configured addresses *)
Definition own (ifc : iface) (x : ipaddr) : Prop := exists c, In c (if_addrs ifc) /\ c_addr c = x.

(* limited broadcast, or the directed broadcast of a configured IPv4 subnet (prefix < 31) *)
Definition is_bcast (ifc : iface) (x : ipaddr) : Prop :=
  match x with
  | V4 a => a = v4_BROADCAST \/
            exists b pl, In (mkCidr (V4 b) pl) (if_addrs ifc) /\ pl <> 31 /\ pl <> 32 /\
                         a = (b / 2 ^ (32 - pl)) * 2 ^ (32 - pl) + 2 ^ (32 - pl) - 1
  | V6 _ => False
  end.

(* groups the interface listens to: joined ones, all-systems / all-nodes, and the
   solicited-node address of every configured IPv6 address *)
Definition joined (ifc : iface) (x : ipaddr) : Prop :=
  In x (if_groups ifc) \/ x = V4 v4_MULTICAST_ALL_SYSTEMS \/ x = V6 v6_LINK_LOCAL_ALL_NODES \/
  exists b pl, In (mkCidr (V6 b) pl) (if_addrs ifc) /\ b <> v6_LOCALHOST /\ x = V6 (v6_solicited_node b).

(* the frame is for this station / this PAN *)
Definition link_for_us (ifc : iface) (p : packet) : Prop :=
  match if_medium ifc with
  | MIp => True
  | MEth => exists d, p_ll_dst p = HwEth d /\
                      (d = eth_BROADCAST \/ (d / 2 ^ 40) mod 2 = 1 \/ if_hw ifc = HwEth d)
  | M154 => if_pan ifc = None \/ (exists n, p_ll_pan p = Some n /\ (if_pan ifc = Some n \/ n = pan_BROADCAST))
  end.

(* "addressed to the interface" (any_ip: the interface acts for every address) *)
Definition addressed_to_us (ifc : iface) (p : packet) : Prop :=
  link_for_us ifc p /\
  (if_any_ip ifc = true \/ own ifc (p_dst p) \/ is_bcast ifc (p_dst p) \/ joined ifc (p_dst p)).

(* the frame was sent to a link-layer broadcast / multicast address *)
Definition link_nonunicast (ifc : iface) (p : packet) : Prop :=
  match if_medium ifc, p_ll_dst p with
  | MEth, HwEth d => d = eth_BROADCAST \/ (d / 2 ^ 40) mod 2 = 1
  | M154, HwShort a => a = 65535
  | _, _ => False
  end.

(* source addresses that do not identify a single host *)
Definition src_nonunicast (ifc : iface) (x : ipaddr) : Prop :=
  ip_is_multicast x = true \/ ip_is_unspecified x = true \/ is_bcast ifc x.

Definition is_raw (s : sock) : bool := match s with SRaw _ _ => true | _ => false end.
Definition is_tcp_sock (s : sock) : bool :=
  match s with STcpListen _ _ | STcpConn _ _ _ _ | STcpClosed => true | _ => false end.

(* the packet matches the endpoint the socket is bound to.  UDP follows smoltcp's documented
   rule: a socket bound to an address also receives broadcasts / multicasts for its port. *)
Definition sock_matches (ifc : iface) (s : sock) (p : packet) : Prop :=
  match s, p_upper p with
  | STcpListen a port, UTcp _ dp ctl ack _ =>
      (a = None \/ a = Some (p_dst p)) /\ dp = port /\ dp <> 0 /\ ack = false /\ ctl <> CtlRst
  | STcpConn la lp ra rp, UTcp sp dp _ _ _ =>
      p_dst p = la /\ dp = lp /\ p_src p = ra /\ sp = rp
  | SUdp a port, UUdp _ dp _ =>
      dp = port /\ (a = None \/ a = Some (p_dst p) \/ is_bcast ifc (p_dst p) \/ ip_is_multicast (p_dst p) = true)
  | SIcmp (IbIdent id), UIcmp (IEchoReq ident _) => ident = id
  | SIcmp (IbIdent id), UIcmp (IEchoRep ident _) => ident = id
  | SIcmp (IbUdp a port), UIcmp (IErr _ (QUdp sp) _) => (a = None \/ a = Some (p_dst p)) /\ sp = port
  | SIcmp (IbTcp a port), UIcmp (IErr _ (QTcp sp) _) => (a = None \/ a = Some (p_dst p)) /\ sp = port
  | SRaw v pr, u =>
      (v = None \/ v = Some (if ip_is_v4 (p_dst p) then 4 else 6)) /\
      (pr = None \/ pr = Some (match p_hbh p with Some _ => if ip_is_v4 (p_dst p) then upper_proto true u else 0
                                                | None => upper_proto (ip_is_v4 (p_dst p)) u end))
  | SDns servers, UUdp sp _ _ => (sp = dns_DNS_PORT /\ In (p_src p) servers) \/ sp = dns_MDNS_DNS_PORT
  | _, _ => False
  end.

(* the packet is itself an error: an ICMP error message or a TCP reset *)
Definition packet_is_error (p : packet) : Prop :=
  match p_upper p with
  | UIcmp (IErr _ _ _) => True
  | UTcp _ _ CtlRst _ _ => True
  | _ => False
  end.

(* destinations a TCP segment must never be accepted for *)
Definition tcp_dst_nonunicast (ifc : iface) (x : ipaddr) : Prop :=
  is_bcast ifc x \/ ip_is_multicast x = true \/ (ip_is_loopback x = true /\ ~ own ifc x).

(* known finding icmpv6-param-problem-to-multicast-dst *)
Definition known_param_problem_to_multicast (p : packet) (r : reply) : Prop :=
  (r_kind r = KParamNxt \/ r_kind r = KParamOpt) /\ ip_is_multicast (p_dst p) = true.

(* known finding ipv6-loopback-source-fallback: the selection returned ::1 although it is not
   an interface address *)
Definition known_loopback_fallback (ifc : iface) (r : reply) : Prop :=
  r_src r = V6 v6_LOCALHOST /\ ~ own ifc (V6 v6_LOCALHOST) /\
  (v6_cidrs (if_addrs ifc) = [] \/ r_dst r = V6 v6_LOCALHOST).

(* ================================================================== small tools *)

Ltac inv H := inversion H; subst; clear H.

Lemma ip_eqb_eq x y : ip_eqb x y = true <-> x = y.
Proof.
  destruct x, y; cbn; split; intros H; try discriminate.
  - apply Z.eqb_eq in H; congruence.
  - inv H. apply Z.eqb_refl.
  - apply Z.eqb_eq in H; congruence.
  - inv H. apply Z.eqb_refl.
Qed.

Lemma ip_eqb_refl x : ip_eqb x x = true.
Proof. apply ip_eqb_eq; reflexivity. Qed.

Lemma ctl_eqb_eq a b : ctl_eqb a b = true <-> a = b.
Proof. destruct a, b; cbn; split; intros H; try discriminate; reflexivity. Qed.

Lemma find_idx_from_spec {A} (f : A -> bool) l d : forall i j,
  find_idx_from f l i = Some j -> (i <= j)%nat /\ (j - i < length l)%nat /\ f (nth (j - i) l d) = true.
Proof.
  induction l as [|x t IH]; intros i j H; cbn in H; [discriminate|].
  destruct (f x) eqn:Hf.
  - inv H. rewrite Nat.sub_diag. cbn. repeat split; [lia | lia | exact Hf].
  - apply IH in H. destruct H as (H1 & H2 & H3).
    replace (j - i)%nat with (S (j - S i)) by lia. cbn. repeat split; [lia | lia | exact H3].
Qed.

Lemma find_idx_spec {A} (f : A -> bool) l d j :
  find_idx f l = Some j -> (j < length l)%nat /\ f (nth j l d) = true.
Proof.
  intros H. apply (find_idx_from_spec f l d) in H. rewrite Nat.sub_0_r in H. tauto.
Qed.

Lemma filter_idx_from_spec {A} (f : A -> bool) l d : forall i j,
  In j (filter_idx_from f l i) -> (i <= j)%nat /\ (j - i < length l)%nat /\ f (nth (j - i) l d) = true.
Proof.
  induction l as [|x t IH]; intros i j H; cbn in H; [contradiction|].
  destruct (f x) eqn:Hf.
  - destruct H as [H | H].
    + subst. rewrite Nat.sub_diag. cbn. repeat split; [lia | lia | exact Hf].
    + apply IH in H. destruct H as (H1 & H2 & H3).
      replace (j - i)%nat with (S (j - S i)) by lia. cbn. repeat split; [lia | lia | exact H3].
  - apply IH in H. destruct H as (H1 & H2 & H3).
    replace (j - i)%nat with (S (j - S i)) by lia. cbn. repeat split; [lia | lia | exact H3].
Qed.

Lemma filter_idx_spec {A} (f : A -> bool) l d j :
  In j (filter_idx f l) -> (j < length l)%nat /\ f (nth j l d) = true.
Proof.
  intros H. apply (filter_idx_from_spec f l d) in H. rewrite Nat.sub_0_r in H. tauto.
Qed.

Lemma existsb_In {A} (f : A -> bool) l : existsb f l = true <-> exists x, In x l /\ f x = true.
Proof. apply existsb_exists. Qed.

(* ================================================================== interface predicates vs. the vocabulary *)

Lemma own_addr_own ifc x : ing_own_addr ifc x = true <-> own ifc x.
Proof.
  unfold ing_own_addr, own. rewrite existsb_In. split.
  - intros (c & Hin & He). exists c. split; [exact Hin | apply ip_eqb_eq; exact He].
  - intros (c & Hin & He). exists c. split; [exact Hin | apply ip_eqb_eq; exact He].
Qed.

Lemma has_ip_addr_own ifc x : if_any_ip ifc = false -> (ing_has_ip_addr ifc x = true <-> own ifc x).
Proof. intros H. unfold ing_has_ip_addr. rewrite H. apply own_addr_own. Qed.

Lemma c4_broadcast_some b pl bc : c4_broadcast b pl = Some bc <->
  pl <> 31 /\ pl <> 32 /\ bc = (b / 2 ^ (32 - pl)) * 2 ^ (32 - pl) + 2 ^ (32 - pl) - 1.
Proof.
  unfold c4_broadcast, c4_network, c4_hostsize.
  destruct (Z.eqb_spec pl 31) as [E1|E1]; destruct (Z.eqb_spec pl 32) as [E2|E2]; cbn; split; intros H;
    try discriminate; try (destruct H as (H1 & H2 & _); congruence).
  - inv H. repeat split; assumption.
  - destruct H as (_ & _ & H). subst. reflexivity.
Qed.

Lemma is_broadcast_v4_bcast ifc a : ing_is_broadcast_v4 ifc a = true <-> is_bcast ifc (V4 a).
Proof.
  unfold ing_is_broadcast_v4, is_bcast, v4_is_broadcast.
  destruct (a =? v4_BROADCAST) eqn:E.
  - apply Z.eqb_eq in E. split; [intros _; left; exact E | reflexivity].
  - apply Z.eqb_neq in E. rewrite existsb_In. split.
    + intros (c & Hin & Hc). right. destruct c as [ca pl]. cbn in Hc. destruct ca as [b|b]; [|discriminate].
      destruct (c4_broadcast b pl) as [bc|] eqn:Hb; [|discriminate].
      apply Z.eqb_eq in Hc. apply c4_broadcast_some in Hb. destruct Hb as (H1 & H2 & H3).
      exists b, pl. subst. repeat split; assumption.
    + intros [H | (b & pl & Hin & H1 & H2 & H3)]; [contradiction|].
      exists (mkCidr (V4 b) pl). split; [exact Hin|]. cbn.
      destruct (c4_broadcast b pl) as [bc|] eqn:Hb.
      * apply c4_broadcast_some in Hb. destruct Hb as (_ & _ & Hb). subst. apply Z.eqb_refl.
      * assert (Hs : c4_broadcast b pl = Some a) by (apply c4_broadcast_some; repeat split; assumption).
        congruence.
Qed.

Lemma is_broadcast_bcast ifc x : ing_is_broadcast ifc x = true <-> is_bcast ifc x.
Proof.
  destruct x; cbn [ing_is_broadcast].
  - apply is_broadcast_v4_bcast.
  - cbn. split; [discriminate | contradiction].
Qed.

(* the solicited-node test of the (fixed) source = equality with solicited_node(own address) *)
Lemma solicited_node_arith a b :
  (a / 16777216 =? v6_SOLICITED_NODE_BASE / 16777216) && (a mod 16777216 =? b mod 16777216) = true <->
  a = v6_solicited_node b.
Proof.
  unfold v6_solicited_node, v6_SOLICITED_NODE_BASE.
  rewrite andb_true_iff, !Z.eqb_eq.
  split; intros H; [destruct H | split]; lia.
Qed.

Lemma has_solicited_node_spec ifc a : ing_has_solicited_node ifc a = true <->
  exists b pl, In (mkCidr (V6 b) pl) (if_addrs ifc) /\ b <> v6_LOCALHOST /\ a = v6_solicited_node b.
Proof.
  unfold ing_has_solicited_node. rewrite existsb_In. split.
  - intros (c & Hin & Hc). destruct c as [ca pl]. cbn in Hc. destruct ca as [b|b]; [discriminate|].
    rewrite <- andb_assoc in Hc. apply andb_true_iff in Hc. destruct Hc as (H1 & H2).
    unfold v6_is_solicited_node_multicast in H2. apply solicited_node_arith in H2.
    exists b, pl. repeat split; [exact Hin | | exact H2].
    apply negb_true_iff, Z.eqb_neq in H1. exact H1.
  - intros (b & pl & Hin & H1 & H2). exists (mkCidr (V6 b) pl). split; [exact Hin|]. cbn.
    rewrite <- andb_assoc. apply andb_true_iff. split.
    + apply negb_true_iff, Z.eqb_neq. exact H1.
    + unfold v6_is_solicited_node_multicast. apply solicited_node_arith. exact H2.
Qed.

Lemma has_multicast_group_joined ifc x : ing_has_multicast_group ifc x = true <-> joined ifc x.
Proof.
  unfold ing_has_multicast_group, joined.
  destruct (existsb (ip_eqb x) (if_groups ifc)) eqn:E.
  - apply existsb_In in E. destruct E as (g & Hin & Hg). apply ip_eqb_eq in Hg. subst g.
    split; [intros _; left; exact Hin | reflexivity].
  - assert (Hn : ~ In x (if_groups ifc)).
    { intros Hin. assert (existsb (ip_eqb x) (if_groups ifc) = true)
        by (apply existsb_In; exists x; split; [exact Hin | apply ip_eqb_refl]). congruence. }
    destruct x as [a|a].
    + rewrite Z.eqb_eq. split.
      * intros H. right; left. congruence.
      * intros [H | [H | [H | (b & pl & _ & _ & H)]]]; [contradiction | congruence | discriminate | discriminate].
    + rewrite orb_true_iff, Z.eqb_eq, has_solicited_node_spec. split.
      * intros [H | (b & pl & H1 & H2 & H3)].
        -- right; right; left. congruence.
        -- right; right; right. exists b, pl. repeat split; [exact H1 | exact H2 | congruence].
      * intros [H | [H | [H | (b & pl & H1 & H2 & H3)]]]; [contradiction | discriminate | left; congruence |].
        right. exists b, pl. repeat split; [exact H1 | exact H2 | congruence].
Qed.

(* every group the interface listens to is a multicast address *)
Lemma solicited_node_is_multicast b : v6_is_multicast (v6_solicited_node b) = true.
Proof.
  unfold v6_is_multicast, v6_solicited_node, v6_SOLICITED_NODE_BASE. apply Z.eqb_eq.
  assert (0 <= b mod 16777216 < 16777216) by (apply Z.mod_pos_bound; lia).
  change (2 ^ 120) with 1329227995784915872903807060280344576. lia.
Qed.

Lemma joined_is_multicast ifc x : wf_iface ifc -> joined ifc x -> ip_is_multicast x = true.
Proof.
  intros (_ & Hg) [H | [H | [H | (b & pl & _ & _ & H)]]].
  - rewrite Forall_forall in Hg. apply Hg. exact H.
  - subst. vm_compute. reflexivity.
  - subst. vm_compute. reflexivity.
  - subst. cbn. apply solicited_node_is_multicast.
Qed.

Lemma own_is_unicast ifc x : wf_iface ifc -> own ifc x -> ip_is_unicast x = true.
Proof.
  intros (Ha & _) (c & Hin & He). rewrite Forall_forall in Ha. subst. apply Ha. exact Hin.
Qed.

Lemma unicast_not_multicast x : ip_is_unicast x = true -> ip_is_multicast x = false.
Proof.
  destruct x; cbn; unfold v4_x_is_unicast, v6_x_is_unicast; intros H;
    apply negb_true_iff in H; repeat (apply orb_false_iff in H; destruct H as [H ?]); auto.
Qed.

Lemma unicast_not_unspecified x : ip_is_unicast x = true -> ip_is_unspecified x = false.
Proof.
  destruct x; cbn; unfold v4_x_is_unicast, v6_x_is_unicast; intros H;
    apply negb_true_iff in H; repeat (apply orb_false_iff in H; destruct H as [H ?]); auto.
Qed.

(* ================================================================== unicast / broadcast facts *)

Lemma is_unicast_v4_facts ifc a : ing_is_unicast_v4 ifc a = true ->
  v4_x_is_unicast a = true /\ ing_is_broadcast_v4 ifc a = false /\ v4_is_multicast a = false /\
  v4_is_unspecified a = false.
Proof.
  unfold ing_is_unicast_v4, v4_x_is_unicast. intros H. apply andb_true_iff in H. destruct H as (H1 & H2).
  apply negb_true_iff in H2. pose proof H1 as H1'. apply negb_true_iff in H1.
  apply orb_false_iff in H1. destruct H1 as (H1 & H3). apply orb_false_iff in H1. destruct H1 as (H1 & H4).
  repeat split; assumption.
Qed.

Lemma unicast_v4_not_src_nonunicast ifc a : ing_is_unicast_v4 ifc a = true -> ~ src_nonunicast ifc (V4 a).
Proof.
  intros H. apply is_unicast_v4_facts in H. destruct H as (_ & Hb & Hm & Hu).
  intros [Hx | [Hx | Hx]]; cbn in Hx.
  - congruence.
  - congruence.
  - apply (is_broadcast_v4_bcast ifc a) in Hx. congruence.
Qed.

Lemma unicast_v6_not_src_nonunicast ifc a : v6_x_is_unicast a = true -> ~ src_nonunicast ifc (V6 a).
Proof.
  unfold v6_x_is_unicast. intros H. apply negb_true_iff, orb_false_iff in H. destruct H as (Hm & Hu).
  intros [Hx | [Hx | Hx]]; cbn in Hx; [congruence | congruence | contradiction].
Qed.

(* ================================================================== source address selection *)

Lemma first_v4_own l a : first_v4 l = Some a -> exists c, In c l /\ c_addr c = V4 a.
Proof.
  induction l as [|c t IH]; cbn; [discriminate|]. destruct (c_addr c) as [b|b] eqn:E; intros H.
  - inv H. exists c. split; [left; reflexivity | exact E].
  - apply IH in H. destruct H as (c' & Hin & Hc). exists c'. split; [right; exact Hin | exact Hc].
Qed.

Lemma ipv4_addr_own ifc a : ing_ipv4_addr ifc = Some a -> own ifc (V4 a).
Proof. apply first_v4_own. Qed.

Lemma gsa4_loop_own l dst first a :
  gsa4_loop l dst first = Some a ->
  (exists c, In c l /\ c_addr c = V4 a) \/ first = Some a.
Proof.
  revert first. induction l as [|c t IH]; intros first H; cbn in H; [right; exact H|].
  destruct (c_addr c) as [b|b] eqn:E.
  - destruct (c4_contains b (c_plen c) dst).
    + inv H. left. exists c. split; [left; reflexivity | exact E].
    + apply IH in H. destruct H as [(c' & Hin & Hc) | H].
      * left. exists c'. split; [right; exact Hin | exact Hc].
      * destruct first as [f|].
        -- right. exact H.
        -- inv H. left. exists c. split; [left; reflexivity | exact E].
  - apply IH in H. destruct H as [(c' & Hin & Hc) | H].
    + left. exists c'. split; [right; exact Hin | exact Hc].
    + right. exact H.
Qed.

Lemma gsa4_own ifc dst a : ing_get_source_address_ipv4 ifc dst = Some a -> own ifc (V4 a).
Proof.
  intros H. apply gsa4_loop_own in H. destruct H as [H | H]; [exact H | discriminate].
Qed.

Lemma v6_cidrs_in l a pl : In (a, pl) (v6_cidrs l) -> exists c, In c l /\ c_addr c = V6 a.
Proof.
  induction l as [|c t IH]; cbn; [contradiction|]. destruct (c_addr c) as [b|b] eqn:E; intros H.
  - apply IH in H. destruct H as (c' & Hin & Hc). exists c'. split; [right; exact Hin | exact Hc].
  - destruct H as [H | H].
    + inv H. exists c. split; [left; reflexivity | exact E].
    + apply IH in H. destruct H as (c' & Hin & Hc). exists c'. split; [right; exact Hin | exact Hc].
Qed.

Lemma gsa6_step_in dst cand addr : gsa6_step dst cand addr = cand \/ gsa6_step dst cand addr = addr.
Proof.
  unfold gsa6_step.
  repeat match goal with |- context [if ?b then _ else _] => destruct b end; auto.
Qed.

Lemma gsa6_fold_in dst l : forall c0, In (fold_left (gsa6_step dst) l c0) (c0 :: l).
Proof.
  induction l as [|x t IH]; intros c0; cbn [fold_left]; [left; reflexivity|].
  specialize (IH (gsa6_step dst c0 x)). destruct (gsa6_step_in dst c0 x) as [E | E]; rewrite E in *.
  - destruct IH as [H | H]; [left; exact H | right; right; exact H].
  - destruct IH as [H | H]; [right; left; exact H | right; right; exact H].
Qed.

(* the selected IPv6 source is a configured address, or the ::1 fallback *)
Lemma gsa6_result ifc dst s : ing_get_source_address_ipv6 ifc dst = Ok s ->
  own ifc (V6 s) \/ (s = v6_LOCALHOST /\ (v6_cidrs (if_addrs ifc) = [] \/ dst = v6_LOCALHOST)).
Proof.
  unfold ing_get_source_address_ipv6. destruct (v6_is_unspecified dst); [discriminate|].
  destruct (v6_cidrs (if_addrs ifc)) as [|c0 t] eqn:E.
  - intros H. inv H. right. split; [reflexivity | left; reflexivity].
  - destruct (v6_is_loopback dst) eqn:El.
    + intros H. inv H. right. split; [reflexivity | right]. unfold v6_is_loopback in El.
      apply Z.eqb_eq in El. exact El.
    + pose proof (gsa6_fold_in dst (c0 :: t) c0) as Hin.
      remember (fold_left (gsa6_step dst) (c0 :: t) c0) as res eqn:Hres. clear Hres.
      intros H. injection H as <-. left.
      assert (Hin' : In res (c0 :: t)).
      { destruct Hin as [Hh | Hh]; [rewrite <- Hh; left; reflexivity | exact Hh]. }
      rewrite <- E in Hin'. destruct res as [a pl]. cbn [fst].
      apply v6_cidrs_in in Hin'. exact Hin'.
Qed.

Lemma gsa6_no_panic ifc dst : v6_is_unspecified dst = false -> exists s, ing_get_source_address_ipv6 ifc dst = Ok s.
Proof.
  intros H. unfold ing_get_source_address_ipv6. rewrite H.
  destruct (v6_cidrs (if_addrs ifc)); [eexists; reflexivity|].
  destruct (v6_is_loopback dst); eexists; reflexivity.
Qed.

(* ================================================================== reply constructors *)

Lemma icmpv4_reply_spec ifc src dst k len r : ing_icmpv4_reply ifc src dst k len = Some r ->
  r_kind r = k /\ r_dst r = V4 src /\ r_iplen r = wipv4_HEADER_LEN + len /\
  ing_is_unicast_v4 ifc src = true /\
  ((ing_is_unicast_v4 ifc dst = true /\ r_src r = V4 dst) \/
   (ing_is_unicast_v4 ifc dst = false /\ ing_is_broadcast_v4 ifc dst = true /\ k = KEchoReply /\
    exists a, ing_ipv4_addr ifc = Some a /\ r_src r = V4 a)).
Proof.
  unfold ing_icmpv4_reply. destruct (ing_is_unicast_v4 ifc src) eqn:Es; cbn [negb]; [|discriminate].
  destruct (ing_is_unicast_v4 ifc dst) eqn:Ed.
  - intros H. inv H. cbn. repeat split. left. split; reflexivity.
  - destruct (ing_is_broadcast_v4 ifc dst) eqn:Eb; [|discriminate].
    destruct k; try discriminate. destruct (ing_ipv4_addr ifc) as [a|] eqn:Ea; [|discriminate].
    intros H. inv H. cbn. repeat split. right. repeat split. exists a. split; reflexivity.
Qed.

Definition src_selected6 (ifc : iface) (psrc pdst : Z) (r : reply) : Prop :=
  (v6_x_is_unicast pdst = true /\ r_src r = V6 pdst) \/
  (v6_x_is_unicast pdst = false /\ exists s, ing_get_source_address_ipv6 ifc psrc = Ok s /\ r_src r = V6 s).

Lemma icmpv6_reply_spec ifc src dst k len r : ing_icmpv6_reply ifc src dst k len = Ok (Some r) ->
  r_kind r = k /\ r_dst r = V6 src /\ r_iplen r = wipv6_HEADER_LEN + len /\
  (v6_is_multicast dst = true -> k = KEchoReply \/ k = KParamNxt \/ k = KParamOpt) /\
  src_selected6 ifc src dst r.
Proof.
  unfold ing_icmpv6_reply, src_selected6.
  destruct (v6_is_multicast dst) eqn:Em; cbn [andb].
  - destruct k; cbn [negb]; try discriminate;
      (destruct (v6_x_is_unicast dst) eqn:Eu; cbn [obind];
       [ intros H; inv H; cbn; repeat split; auto
       | destruct (ing_get_source_address_ipv6 ifc src) as [s| |] eqn:Eg; cbn [obind]; try discriminate;
         intros H; inv H; cbn; repeat split; auto; right; split; [reflexivity | exists s; split; reflexivity] ]).
  - destruct (v6_x_is_unicast dst) eqn:Eu; cbn [obind].
    + intros H. inv H. cbn. repeat split; auto. discriminate.
    + destruct (ing_get_source_address_ipv6 ifc src) as [s| |] eqn:Eg; cbn [obind]; try discriminate.
      intros H. inv H. cbn. repeat split; auto; [discriminate|]. right. split; [reflexivity|]. exists s. split; reflexivity.
Qed.

Lemma icmpv6_reply_total ifc src dst k len : v6_is_unspecified src = false ->
  exists o, ing_icmpv6_reply ifc src dst k len = Ok o.
Proof.
  intros Hs. unfold ing_icmpv6_reply.
  destruct (v6_is_multicast dst && negb match k with KEchoReply | KParamNxt | KParamOpt => true | _ => false end);
    [eexists; reflexivity|].
  destruct (v6_x_is_unicast dst); cbn [obind]; [eexists; reflexivity|].
  destruct (gsa6_no_panic ifc src Hs) as (s & E). rewrite E. cbn [obind]. eexists; reflexivity.
Qed.

(* ================================================================== socket filters vs. sock_matches *)

Lemma opt_addr_ok_spec a dst : opt_addr_ok a dst = true <-> a = None \/ a = Some dst.
Proof.
  destruct a as [x|]; cbn.
  - rewrite ip_eqb_eq. split; [intros ->; right; reflexivity | intros [H | H]; [discriminate | congruence]].
  - split; [left; reflexivity | reflexivity].
Qed.

Lemma opt_z_ok_spec a x : opt_z_ok a x = true <-> a = None \/ a = Some x.
Proof.
  destruct a as [y|]; cbn.
  - rewrite Z.eqb_eq. split; [intros ->; right; reflexivity | intros [H | H]; [discriminate | congruence]].
  - split; [left; reflexivity | reflexivity].
Qed.

Lemma tcp_accepts_matches ifc s p sp dp ctl ack len :
  p_upper p = UTcp sp dp ctl ack len ->
  ing_tcp_accepts s (p_src p) (p_dst p) sp dp ctl ack = true ->
  sock_matches ifc s p /\ is_tcp_sock s = true.
Proof.
  intros Hu H. unfold sock_matches. rewrite Hu. destruct s; cbn in H; try discriminate.
  - destruct (ack || ctl_eqb ctl CtlRst) eqn:E; [discriminate|].
    apply orb_false_iff in E. destruct E as (E1 & E2).
    apply andb_true_iff in H. destruct H as (H & H3). apply andb_true_iff in H. destruct H as (H1 & H2).
    apply opt_addr_ok_spec in H1. apply negb_true_iff, Z.eqb_neq in H2. apply Z.eqb_eq in H3.
    split; [|reflexivity]. repeat split; auto.
    intros Hc. subst ctl. cbn in E2. discriminate.
  - apply andb_true_iff in H. destruct H as (H & H4). apply andb_true_iff in H. destruct H as (H & H3).
    apply andb_true_iff in H. destruct H as (H1 & H2).
    apply ip_eqb_eq in H1. apply Z.eqb_eq in H2. apply ip_eqb_eq in H3. apply Z.eqb_eq in H4.
    split; [|reflexivity]. repeat split; auto.
Qed.

Lemma udp_accepts_matches ifc s p sp dp len :
  p_upper p = UUdp sp dp len ->
  ing_udp_accepts ifc s (p_dst p) dp = true -> sock_matches ifc s p /\ is_raw s = false /\ is_tcp_sock s = false.
Proof.
  intros Hu H. unfold sock_matches. rewrite Hu. destruct s; cbn in H; try discriminate.
  destruct (Z.eqb_spec port dp) as [E|E]; cbn in H; [|discriminate].
  split; [|split; reflexivity]. split; [congruence|].
  destruct a as [x|]; [|left; reflexivity].
  destruct (ip_eqb x (p_dst p)) eqn:E1; cbn in H.
  - apply ip_eqb_eq in E1. right; left. congruence.
  - destruct (ing_is_broadcast ifc (p_dst p)) eqn:E2; cbn in H.
    + right; right; left. apply is_broadcast_bcast. exact E2.
    + destruct (ip_is_multicast (p_dst p)) eqn:E3; cbn in H; [|discriminate].
      right; right; right. reflexivity.
Qed.

Lemma dns_accepts_matches ifc s p sp dp len :
  p_upper p = UUdp sp dp len ->
  ing_dns_accepts s (p_src p) sp = true -> sock_matches ifc s p /\ is_raw s = false /\ is_tcp_sock s = false.
Proof.
  intros Hu H. unfold sock_matches. rewrite Hu. destruct s; cbn in H; try discriminate.
  split; [|split; reflexivity].
  apply orb_true_iff in H. destruct H as [H | H].
  - apply andb_true_iff in H. destruct H as (H1 & H2). left. split; [apply Z.eqb_eq; exact H1|].
    apply existsb_In in H2. destruct H2 as (x & Hin & Hx). apply ip_eqb_eq in Hx. subst x. exact Hin.
  - right. apply Z.eqb_eq. exact H.
Qed.

Lemma icmp_accepts_matches ifc s p v4 m :
  p_upper p = UIcmp m ->
  ing_icmp_accepts s v4 (p_dst p) m = true -> sock_matches ifc s p /\ is_raw s = false /\ is_tcp_sock s = false.
Proof.
  intros Hu H. unfold sock_matches. rewrite Hu. destruct s; cbn in H; try discriminate.
  split; [|split; reflexivity].
  destruct b; destruct m as [ident len|ident len|ty q len|tg ll hl|tg ll hl]; try discriminate; try (apply Z.eqb_eq in H; exact H).
  - destruct q; try discriminate. apply andb_true_iff in H. destruct H as (H & H3).
    apply andb_true_iff in H. destruct H as (_ & H2). apply opt_addr_ok_spec in H2. apply Z.eqb_eq in H3.
    split; [exact H2 | congruence].
  - destruct q; try discriminate. apply andb_true_iff in H. destruct H as (H & H3).
    apply andb_true_iff in H. destruct H as (_ & H2). apply opt_addr_ok_spec in H2. apply Z.eqb_eq in H3.
    split; [exact H2 | congruence].
Qed.

Lemma raw_filter_matches ifc socks p ver proto i :
  ver = (if ip_is_v4 (p_dst p) then 4 else 6) ->
  proto = (match p_hbh p with
           | Some _ => if ip_is_v4 (p_dst p) then upper_proto true (p_upper p) else 0
           | None => upper_proto (ip_is_v4 (p_dst p)) (p_upper p) end) ->
  In i (ing_raw_socket_filter socks ver proto) ->
  (i < length socks)%nat /\ sock_matches ifc (nth i socks STcpClosed) p /\ is_raw (nth i socks STcpClosed) = true.
Proof.
  intros Hv Hp H. apply (filter_idx_spec _ socks STcpClosed) in H. destruct H as (Hl & H).
  split; [exact Hl|]. destruct (nth i socks STcpClosed) as [| | | | |v pr|]; cbn in H; try discriminate.
  split; [|reflexivity]. unfold sock_matches.
  apply andb_true_iff in H. destruct H as (H1 & H2). apply opt_z_ok_spec in H1. apply opt_z_ok_spec in H2.
  destruct (p_upper p); (split; [rewrite <- Hv; exact H1 | rewrite <- Hp; exact H2]).
Qed.

(* ================================================================== transport demultiplexing *)

Lemma tcp_process_rst_not_for_rst s ctl ack : snd (ing_tcp_process s ctl ack) = true -> ctl <> CtlRst.
Proof. destruct s, ctl, ack; cbn; intros H; try discriminate; intros E; discriminate. Qed.

Ltac none_case :=
  cbn; split; [intros ? [] | split; [intros [Hx | Hx]; exfalso; apply Hx; reflexivity | intros ? Hx; discriminate Hx]].

Lemma process_tcp_spec ifc socks h src dst sp dp ctl ack :
  let res := ing_process_tcp ifc socks h src dst sp dp ctl ack in
  (forall i, In i (res_deliv res) ->
     (i < length socks)%nat /\ ing_tcp_accepts (nth i socks STcpClosed) src dst sp dp ctl ack = true) /\
  ((res_deliv res <> [] \/ res_reply res <> None) ->
     ip_is_unspecified src = false /\ ip_is_unspecified dst = false /\ ing_is_broadcast ifc dst = false /\
     ip_is_multicast dst = false /\ (ip_is_loopback dst = true -> ing_own_addr ifc dst = true)) /\
  (forall r, res_reply res = Some r -> r = ing_rst_reply src dst /\ ctl <> CtlRst /\ h = false \/
                                       r = ing_rst_reply src dst /\ ctl <> CtlRst /\ res_deliv res <> []).
Proof.
  unfold ing_process_tcp.
  destruct (ip_is_unspecified src) eqn:E1; cbn [orb].
  { none_case. }
  destruct (ip_is_unspecified dst) eqn:E2; cbn [orb].
  { none_case. }
  destruct (ing_is_broadcast ifc dst) eqn:E3; cbn [orb].
  { none_case. }
  destruct (ip_is_multicast dst) eqn:E4; cbn [orb].
  { none_case. }
  destruct (ip_is_loopback dst && negb (ing_own_addr ifc dst)) eqn:E5.
  { none_case. }
  assert (Hloop : ip_is_loopback dst = true -> ing_own_addr ifc dst = true).
  { intros Hl. rewrite Hl in E5. cbn in E5. apply negb_false_iff in E5. exact E5. }
  destruct (find_idx (fun s => ing_tcp_accepts s src dst sp dp ctl ack) socks) as [i|] eqn:Ef.
  - apply (find_idx_spec _ socks STcpClosed) in Ef. destruct Ef as (Hl & Ha).
    cbn. split; [|split].
    + intros j [Hj | []]. subst j. split; assumption.
    + intros _. repeat split; assumption.
    + intros r Hr. destruct (snd (ing_tcp_process (nth i socks STcpClosed) ctl ack)) eqn:Et; [|discriminate].
      inv Hr. right. repeat split; [eapply tcp_process_rst_not_for_rst; exact Et | discriminate].
  - destruct (ctl_eqb ctl CtlRst) eqn:Ec; cbn [orb].
    { none_case. }
    destruct h; cbn [orb].
    { none_case. }
    cbn. split; [|split].
    + intros j [].
    + intros _. repeat split; assumption.
    + intros r Hr. inv Hr. left. repeat split. intros E. subst ctl. cbn in Ec. discriminate.
Qed.

Lemma process_udp_spec ifc socks h src dst sp dp plen res :
  ing_process_udp ifc socks h src dst sp dp plen = Ok res ->
  (forall i, In i (res_deliv res) ->
     (i < length socks)%nat /\
     (ing_udp_accepts ifc (nth i socks STcpClosed) dst dp = true \/
      ing_dns_accepts (nth i socks STcpClosed) src sp = true)) /\
  (forall r, res_reply res = Some r ->
     res_deliv res = [] /\ h = false /\
     match src, dst with
     | V4 s, V4 d => ing_icmpv4_reply ifc s d KPortUnreach
                       (8 + wipv4_HEADER_LEN + icmp_reply_payload_len plen wipv4_MIN_MTU wipv4_HEADER_LEN) = Some r
     | V6 s, V6 d => ing_icmpv6_reply ifc s d KPortUnreach
                       (8 + wipv6_HEADER_LEN + icmp_reply_payload_len plen wipv6_MIN_MTU wipv6_HEADER_LEN) = Ok (Some r)
     | _, _ => False
     end).
Proof.
  unfold ing_process_udp.
  destruct (find_idx (fun s => ing_udp_accepts ifc s dst dp) socks) as [i|] eqn:Ef.
  { intros H. inv H. apply (find_idx_spec _ socks STcpClosed) in Ef. destruct Ef as (Hl & Ha). cbn. split.
    - intros j [Hj | []]. subst. split; [exact Hl | left; exact Ha].
    - intros r Hr. discriminate. }
  destruct (find_idx (fun s => ing_dns_accepts s src sp) socks) as [i|] eqn:Eg.
  { intros H. inv H. apply (find_idx_spec _ socks STcpClosed) in Eg. destruct Eg as (Hl & Ha). cbn. split.
    - intros j [Hj | []]. subst. split; [exact Hl | right; exact Ha].
    - intros r Hr. discriminate. }
  destruct h.
  { intros H. inv H. cbn. split; [intros ? [] | intros ? Hr; discriminate]. }
  destruct src as [s|s], dst as [d|d].
  - intros H. inv H. cbn. split; [intros ? [] | intros r Hr; repeat split; exact Hr].
  - intros H. inv H. cbn. split; [intros ? [] | intros ? Hr; discriminate].
  - intros H. inv H. cbn. split; [intros ? [] | intros ? Hr; discriminate].
  - destruct (ing_icmpv6_reply ifc s d KPortUnreach _) as [o| |] eqn:Er; cbn [obind]; try discriminate.
    intros H. inv H. cbn. split; [intros ? [] | intros r Hr; subst o; repeat split; reflexivity].
Qed.

(* ================================================================== reply facts *)

Definition tcp_dst_ok (ifc : iface) (dst : ipaddr) : Prop :=
  ip_is_unspecified dst = false /\ ing_is_broadcast ifc dst = false /\ ip_is_multicast dst = false /\
  (ip_is_loopback dst = true -> ing_own_addr ifc dst = true).

Definition ip_passed (ifc : iface) (dst : ipaddr) : Prop :=
  ing_has_ip_addr ifc dst = true \/ ing_has_multicast_group ifc dst = true \/ ing_is_broadcast ifc dst = true.

Definition reply_facts4 (ifc : iface) (src dst : Z) (u : upper) (r : reply) : Prop :=
  r_dst r = V4 src /\ ing_is_unicast_v4 ifc src = true /\
  match r_kind r with
  | KRst => (exists sp dp ctl ack len, u = UTcp sp dp ctl ack len /\ ctl <> CtlRst) /\
            r_src r = V4 dst /\ tcp_dst_ok ifc (V4 dst) /\ r_iplen r = wipv4_HEADER_LEN + wtcp_HEADER_LEN
  | KEchoReply => (exists id len, u = UIcmp (IEchoReq id len)) /\
                  ((ing_is_unicast_v4 ifc dst = true /\ r_src r = V4 dst) \/
                   (ing_is_unicast_v4 ifc dst = false /\ ing_is_broadcast_v4 ifc dst = true /\
                    exists a, ing_ipv4_addr ifc = Some a /\ r_src r = V4 a))
  | KPortUnreach => (exists sp dp len, u = UUdp sp dp len) /\ ing_is_unicast_v4 ifc dst = true /\
                    r_src r = V4 dst /\ r_iplen r <= wipv4_MIN_MTU
  | KProtoUnreach => (exists n len, u = UOther n len) /\ ing_is_unicast_v4 ifc dst = true /\
                     r_src r = V4 dst /\ r_iplen r <= wipv4_MIN_MTU
  | _ => False
  end.

Definition reply_facts6 (ifc : iface) (src dst : Z) (h : option hbh) (u : upper) (r : reply) : Prop :=
  r_dst r = V6 src /\ v6_x_is_unicast src = true /\
  match r_kind r with
  | KRst => (exists sp dp ctl ack len, u = UTcp sp dp ctl ack len /\ ctl <> CtlRst) /\
            r_src r = V6 dst /\ tcp_dst_ok ifc (V6 dst) /\ r_iplen r = wipv6_HEADER_LEN + wtcp_HEADER_LEN
  | KEchoReply => (exists id len, u = UIcmp (IEchoReq id len)) /\ src_selected6 ifc src dst r
  | KPortUnreach => (exists sp dp len, u = UUdp sp dp len) /\ v6_is_multicast dst = false /\
                    src_selected6 ifc src dst r /\ r_iplen r <= wipv6_MIN_MTU
  | KParamNxt => (u = UIgmp \/ exists n len, u = UOther n len) /\ src_selected6 ifc src dst r /\
                 r_iplen r <= wipv6_MIN_MTU
  | KParamOpt => h <> None /\ upper_is_error u = false /\ src_selected6 ifc src dst r /\
                 r_iplen r <= wipv6_MIN_MTU
  | KNeighAdv => exists target ll, u = UIcmp (INeighSol target ll 255) /\ if_medium ifc <> MIp /\
                 r_src r = V6 target /\ v6_x_is_unicast target = true /\
                 ing_has_ip_addr ifc (V6 target) = true /\
                 (ing_has_solicited_node ifc dst = true \/ ing_has_ip_addr ifc (V6 dst) = true)
  | _ => False
  end.

Lemma icmp_len_bound4 plen : wipv4_HEADER_LEN + (8 + wipv4_HEADER_LEN + icmp_reply_payload_len plen wipv4_MIN_MTU wipv4_HEADER_LEN) <= wipv4_MIN_MTU.
Proof. unfold icmp_reply_payload_len, wipv4_HEADER_LEN, wipv4_MIN_MTU. lia. Qed.

Lemma icmp_len_bound6 plen : wipv6_HEADER_LEN + (8 + wipv6_HEADER_LEN + icmp_reply_payload_len plen wipv6_MIN_MTU wipv6_HEADER_LEN) <= wipv6_MIN_MTU.
Proof. unfold icmp_reply_payload_len, wipv6_HEADER_LEN, wipv6_MIN_MTU. lia. Qed.

(* ================================================================== IPv4 *)

Section V4.
Variables (ifc : iface) (socks : list sock) (p : packet) (src dst : Z).
Hypothesis Hsrc : p_src p = V4 src.
Hypothesis Hdst : p_dst p = V4 dst.

Definition deliv_ok (i : nat) : Prop :=
  (i < length socks)%nat /\ sock_matches ifc (nth i socks STcpClosed) p /\
  (is_raw (nth i socks STcpClosed) = false -> ip_passed ifc (p_dst p)) /\
  (is_tcp_sock (nth i socks STcpClosed) = true -> tcp_dst_ok ifc (p_dst p)).

Lemma raws4_ok i : In i (ing_raw_socket_filter socks 4 (upper_proto true (p_upper p))) -> deliv_ok i.
Proof.
  intros H. apply (raw_filter_matches ifc socks p) in H.
  - destruct H as (H1 & H2 & H3). split; [exact H1|]. split; [exact H2|]. split.
    + intros Hr. congruence.
    + intros Ht. destruct (nth i socks STcpClosed); cbn in *; discriminate.
  - rewrite Hdst. reflexivity.
  - rewrite Hdst. cbn. destruct (p_hbh p); reflexivity.
Qed.

Lemma process_ipv4_spec res :
  ing_process_ipv4 ifc socks src dst (p_upper p) = Ok res ->
  (forall i, In i (res_deliv res) -> deliv_ok i) /\
  (forall r, res_reply res = Some r -> ip_passed ifc (V4 dst) /\ reply_facts4 ifc src dst (p_upper p) r).
Proof.
  unfold ing_process_ipv4.
  destruct (negb (ing_is_unicast_v4 ifc src) && negb (v4_is_unspecified src)) eqn:Es.
  { intros H. inv H. cbn. split; [intros ? [] | intros ? Hr; discriminate]. }
  assert (Hsrc' : ing_is_unicast_v4 ifc src = true \/ v4_is_unspecified src = true).
  { destruct (ing_is_unicast_v4 ifc src); [left; reflexivity|]. destruct (v4_is_unspecified src); [right; reflexivity|].
    cbn in Es. discriminate. }
  set (raws := ing_raw_socket_filter socks 4 (upper_proto true (p_upper p))).
  destruct (negb (ing_has_ip_addr ifc (V4 dst)) && negb (ing_has_multicast_group ifc (V4 dst)) &&
            negb (ing_is_broadcast_v4 ifc dst)) eqn:Ed.
  { intros H. inv H. cbn. split; [intros i Hi; apply raws4_ok; exact Hi | intros ? Hr; discriminate]. }
  assert (Hpass : ip_passed ifc (V4 dst)).
  { unfold ip_passed. cbn [ing_is_broadcast].
    destruct (ing_has_ip_addr ifc (V4 dst)); [left; reflexivity|].
    destruct (ing_has_multicast_group ifc (V4 dst)); [right; left; reflexivity|].
    destruct (ing_is_broadcast_v4 ifc dst); [right; right; reflexivity|]. cbn in Ed. discriminate. }
  destruct (p_upper p) as [sp dp ctl ack len | sp dp len | m | | n len] eqn:Eu.
  - (* TCP *)
    intros H. inv H.
    pose proof (process_tcp_spec ifc socks (negb (is_nil raws)) (V4 src) (V4 dst) sp dp ctl ack) as Ht.
    cbn zeta in Ht. destruct Ht as (Ht1 & Ht2 & Ht3).
    set (tr := ing_process_tcp ifc socks (negb (is_nil raws)) (V4 src) (V4 dst) sp dp ctl ack) in *.
    cbn [res_add_deliv res_deliv res_reply]. split.
    + intros i Hi. apply in_app_or in Hi. destruct Hi as [Hi | Hi].
      * apply raws4_ok. rewrite Eu. exact Hi.
      * destruct (Ht1 i Hi) as (Hl & Ha).
        assert (Hne : res_deliv tr <> []) by (intros E; rewrite E in Hi; contradiction).
        destruct (Ht2 (or_introl Hne)) as (U1 & U2 & U3 & U4 & U5).
        rewrite <- Hsrc, <- Hdst in Ha.
        destruct (tcp_accepts_matches ifc (nth i socks STcpClosed) p sp dp ctl ack len Eu Ha) as (M1 & M2).
        split; [exact Hl|]. split; [exact M1|]. split.
        -- intros _. rewrite Hdst. exact Hpass.
        -- intros _. rewrite Hdst. repeat split; assumption.
    + intros r Hr. split; [exact Hpass|].
      assert (Hne : res_deliv tr <> [] \/ res_reply tr <> None) by (right; congruence).
      destruct (Ht2 Hne) as (U1 & U2 & U3 & U4 & U5).
      assert (Hr' : r = ing_rst_reply (V4 src) (V4 dst) /\ ctl <> CtlRst).
      { destruct (Ht3 r Hr) as [(A & B & _) | (A & B & _)]; split; assumption. }
      destruct Hr' as (-> & Hc). unfold reply_facts4. cbn.
      split; [reflexivity|]. split.
      * destruct Hsrc' as [Hx | Hx]; [exact Hx|]. cbn in U1. congruence.
      * split; [exists sp, dp, ctl, ack, len; split; [reflexivity | exact Hc]|].
        split; [reflexivity|]. split; [|reflexivity]. repeat split; assumption.
  - (* UDP *)
    destruct (ing_process_udp ifc socks (negb (is_nil raws)) (V4 src) (V4 dst) sp dp (upper_len (UUdp sp dp len)))
      as [ur| |] eqn:Eur; cbn [obind]; try discriminate.
    intros H. inv H. apply process_udp_spec in Eur. destruct Eur as (Hu1 & Hu2).
    cbn [res_add_deliv res_deliv res_reply]. split.
    + intros i Hi. apply in_app_or in Hi. destruct Hi as [Hi | Hi].
      * apply raws4_ok. rewrite Eu. exact Hi.
      * destruct (Hu1 i Hi) as (Hl & [Ha | Ha]).
        -- rewrite <- Hdst in Ha. destruct (udp_accepts_matches ifc _ p sp dp len Eu Ha) as (M1 & M2 & M3).
           split; [exact Hl|]. split; [exact M1|]. split; [intros _; rewrite Hdst; exact Hpass | intros Ht; congruence].
        -- rewrite <- Hsrc in Ha. destruct (dns_accepts_matches ifc _ p sp dp len Eu Ha) as (M1 & M2 & M3).
           split; [exact Hl|]. split; [exact M1|]. split; [intros _; rewrite Hdst; exact Hpass | intros Ht; congruence].
    + intros r Hr. split; [exact Hpass|]. destruct (Hu2 r Hr) as (_ & _ & Hrep).
      apply icmpv4_reply_spec in Hrep. destruct Hrep as (R1 & R2 & R3 & R4 & R5).
      unfold reply_facts4. rewrite R1. split; [exact R2|]. split; [exact R4|].
      split; [exists sp, dp, len; reflexivity|].
      destruct R5 as [(R5 & R6) | (_ & _ & R5 & _)]; [|discriminate].
      split; [exact R5|]. split; [exact R6|]. rewrite R3. apply icmp_len_bound4.
  - (* ICMP *)
    intros H. inv H. unfold ing_process_icmpv4. cbn [res_add_deliv res_deliv res_reply].
    assert (Hd : forall i, In i (raws ++ filter_idx (fun s => ing_icmp_accepts s true (V4 dst) m) socks) -> deliv_ok i).
    { intros i Hi. apply in_app_or in Hi. destruct Hi as [Hi | Hi].
      - apply raws4_ok. rewrite Eu. exact Hi.
      - apply (filter_idx_spec _ socks STcpClosed) in Hi. destruct Hi as (Hl & Ha).
        rewrite <- Hdst in Ha. destruct (icmp_accepts_matches ifc _ p true m Eu Ha) as (M1 & M2 & M3).
        split; [exact Hl|]. split; [exact M1|]. split; [intros _; rewrite Hdst; exact Hpass | intros Ht; congruence]. }
    destruct m as [id len | id len | ty q len | tg ll hl | tg ll hl]; cbn [res_deliv res_reply]; split; try exact Hd;
      try (intros ? Hr; discriminate).
    intros r Hr. split; [exact Hpass|]. apply icmpv4_reply_spec in Hr. destruct Hr as (R1 & R2 & R3 & R4 & R5).
    unfold reply_facts4. rewrite R1. split; [exact R2|]. split; [exact R4|].
    split; [exists id, len; reflexivity|].
    destruct R5 as [(R5 & R6) | (R5 & R6 & _ & R7)]; [left; split; assumption | right; repeat split; assumption].
  - (* IGMP *)
    intros H. inv H. cbn. split; [intros i Hi; apply raws4_ok; rewrite Eu; exact Hi | intros ? Hr; discriminate].
  - (* other protocol *)
    destruct (negb (is_nil raws)).
    { intros H. inv H. cbn. split; [intros i Hi; apply raws4_ok; rewrite Eu; exact Hi | intros ? Hr; discriminate]. }
    intros H. inv H. cbn [res_deliv res_reply]. split; [intros i Hi; apply raws4_ok; rewrite Eu; exact Hi|].
    intros r Hr. split; [exact Hpass|]. apply icmpv4_reply_spec in Hr. destruct Hr as (R1 & R2 & R3 & R4 & R5).
    unfold reply_facts4. rewrite R1. split; [exact R2|]. split; [exact R4|].
    split; [exists n, len; reflexivity|].
    destruct R5 as [(R5 & R6) | (_ & _ & R5 & _)]; [|discriminate].
    split; [exact R5|]. split; [exact R6|]. rewrite R3. apply icmp_len_bound4.
Qed.

End V4.

(* ================================================================== IPv6 *)

Lemma hbh_loop_spec ifc src dst about plen opts resp :
  hbh_loop ifc src dst about plen opts = Ok resp ->
  match resp with
  | HbhContinue => True
  | HbhDiscard None => True
  | HbhDiscard (Some r) =>
      about = false /\ opts <> [] /\
      ing_icmpv6_reply ifc src dst KParamOpt
        (8 + wipv6_HEADER_LEN + icmp_reply_payload_len plen wipv6_MIN_MTU wipv6_HEADER_LEN) = Ok (Some r)
  end.
Proof.
  induction opts as [|t rest IH]; cbn [hbh_loop].
  - intros H. inv H. exact I.
  - destruct (hbh_opt_recognised t).
    { intros H. apply IH in H. destruct resp as [|[r|]]; auto. destruct H as (A & B & C). repeat split; auto. discriminate. }
    destruct ((t / 64) mod 4 =? 0).
    { intros H. apply IH in H. destruct resp as [|[r|]]; auto. destruct H as (A & B & C). repeat split; auto. discriminate. }
    destruct ((t / 64) mod 4 =? 1).
    { intros H. inv H. exact I. }
    assert (Hpp : forall resp',
      (do r <- (if about then Ok None
                else ing_icmpv6_reply ifc src dst KParamOpt
                       (8 + wipv6_HEADER_LEN + icmp_reply_payload_len plen wipv6_MIN_MTU wipv6_HEADER_LEN));
       Ok (HbhDiscard r)) = Ok resp' ->
      match resp' with
      | HbhContinue => True
      | HbhDiscard None => True
      | HbhDiscard (Some r) =>
          about = false /\ t :: rest <> [] /\
          ing_icmpv6_reply ifc src dst KParamOpt
            (8 + wipv6_HEADER_LEN + icmp_reply_payload_len plen wipv6_MIN_MTU wipv6_HEADER_LEN) = Ok (Some r)
      end).
    { intros resp'. destruct about; cbn [obind].
      - intros H. inv H. exact I.
      - destruct (ing_icmpv6_reply ifc src dst KParamOpt _) as [o| |] eqn:Er; cbn [obind]; try discriminate.
        intros H. inv H. destruct o as [r|]; [|exact I]. split; [reflexivity|]. split; [discriminate | reflexivity]. }
    destruct ((t / 64) mod 4 =? 2).
    { apply Hpp. }
    destruct (negb (v6_is_multicast dst)).
    { apply Hpp. }
    intros H. inv H. exact I.
Qed.

Lemma hbh_loop_total ifc src dst about plen opts : v6_is_unspecified src = false ->
  exists resp, hbh_loop ifc src dst about plen opts = Ok resp.
Proof.
  intros Hs. induction opts as [|t rest IH]; cbn [hbh_loop]; [eexists; reflexivity|].
  destruct (hbh_opt_recognised t); [exact IH|].
  destruct ((t / 64) mod 4 =? 0); [exact IH|].
  destruct ((t / 64) mod 4 =? 1); [eexists; reflexivity|].
  assert (Hpp : exists resp,
      (do r <- (if about then Ok None
                else ing_icmpv6_reply ifc src dst KParamOpt
                       (8 + wipv6_HEADER_LEN + icmp_reply_payload_len plen wipv6_MIN_MTU wipv6_HEADER_LEN));
       Ok (HbhDiscard r)) = Ok resp).
  { destruct about; cbn [obind]; [eexists; reflexivity|].
    destruct (icmpv6_reply_total ifc src dst KParamOpt
                (8 + wipv6_HEADER_LEN + icmp_reply_payload_len plen wipv6_MIN_MTU wipv6_HEADER_LEN) Hs) as (o & E).
    rewrite E. cbn [obind]. eexists; reflexivity. }
  destruct ((t / 64) mod 4 =? 2); [exact Hpp|].
  destruct (negb (v6_is_multicast dst)); [exact Hpp | eexists; reflexivity].
Qed.

Section V6.
Variables (ifc : iface) (socks : list sock) (p : packet) (src dst : Z).
Hypothesis Hsrc : p_src p = V6 src.
Hypothesis Hdst : p_dst p = V6 dst.

Definition raw_proto6 : Z := match p_hbh p with Some _ => 0 | None => upper_proto false (p_upper p) end.

Lemma raws6_ok i : In i (ing_raw_socket_filter socks 6 raw_proto6) -> ip_passed ifc (V6 dst) -> deliv_ok ifc socks p i.
Proof.
  intros H Hp. apply (raw_filter_matches ifc socks p) in H.
  - destruct H as (H1 & H2 & H3). split; [exact H1|]. split; [exact H2|]. split.
    + intros _. rewrite Hdst. exact Hp.
    + intros Ht. destruct (nth i socks STcpClosed); cbn in *; discriminate.
  - rewrite Hdst. reflexivity.
  - rewrite Hdst. cbn. reflexivity.
Qed.

Lemma process_nxt_hdr_spec h res :
  v6_x_is_unicast src = true -> ip_passed ifc (V6 dst) ->
  ing_process_nxt_hdr ifc socks h src dst (p_upper p) = Ok res ->
  (forall i, In i (res_deliv res) -> deliv_ok ifc socks p i) /\
  (forall r, res_reply res = Some r ->
     r_kind r <> KParamOpt /\ reply_facts6 ifc src dst (p_hbh p) (p_upper p) r).
Proof.
  intros Hus Hpass. unfold ing_process_nxt_hdr.
  destruct (p_upper p) as [sp dp ctl ack len | sp dp len | m | | n len] eqn:Eu.
  - (* TCP *)
    intros H. inv H.
    pose proof (process_tcp_spec ifc socks h (V6 src) (V6 dst) sp dp ctl ack) as Ht.
    cbn zeta in Ht. destruct Ht as (Ht1 & Ht2 & Ht3).
    set (tr := ing_process_tcp ifc socks h (V6 src) (V6 dst) sp dp ctl ack) in *. split.
    + intros i Hi. destruct (Ht1 i Hi) as (Hl & Ha).
      assert (Hne : res_deliv tr <> []) by (intros E; rewrite E in Hi; contradiction).
      destruct (Ht2 (or_introl Hne)) as (U1 & U2 & U3 & U4 & U5).
      rewrite <- Hsrc, <- Hdst in Ha.
      destruct (tcp_accepts_matches ifc (nth i socks STcpClosed) p sp dp ctl ack len Eu Ha) as (M1 & M2).
      split; [exact Hl|]. split; [exact M1|]. split.
      * intros _. rewrite Hdst. exact Hpass.
      * intros _. rewrite Hdst. repeat split; assumption.
    + intros r Hr.
      assert (Hne : res_deliv tr <> [] \/ res_reply tr <> None) by (right; congruence).
      destruct (Ht2 Hne) as (U1 & U2 & U3 & U4 & U5).
      assert (Hr' : r = ing_rst_reply (V6 src) (V6 dst) /\ ctl <> CtlRst).
      { destruct (Ht3 r Hr) as [(A & B & _) | (A & B & _)]; split; assumption. }
      destruct Hr' as (-> & Hc). split; [cbn; discriminate|]. unfold reply_facts6. cbn.
      split; [reflexivity|]. split; [exact Hus|].
      split; [exists sp, dp, ctl, ack, len; split; [reflexivity | exact Hc]|].
      split; [reflexivity|]. split; [|reflexivity]. repeat split; assumption.
  - (* UDP *)
    intros H. apply process_udp_spec in H. destruct H as (Hu1 & Hu2). split.
    + intros i Hi. destruct (Hu1 i Hi) as (Hl & [Ha | Ha]).
      * rewrite <- Hdst in Ha. destruct (udp_accepts_matches ifc _ p sp dp len Eu Ha) as (M1 & M2 & M3).
        split; [exact Hl|]. split; [exact M1|]. split; [intros _; rewrite Hdst; exact Hpass | intros Ht; congruence].
      * rewrite <- Hsrc in Ha. destruct (dns_accepts_matches ifc _ p sp dp len Eu Ha) as (M1 & M2 & M3).
        split; [exact Hl|]. split; [exact M1|]. split; [intros _; rewrite Hdst; exact Hpass | intros Ht; congruence].
    + intros r Hr. destruct (Hu2 r Hr) as (_ & _ & Hrep).
      apply icmpv6_reply_spec in Hrep. destruct Hrep as (R1 & R2 & R3 & R4 & R5).
      split; [rewrite R1; discriminate|]. unfold reply_facts6. rewrite R1. split; [exact R2|]. split; [exact Hus|].
      split; [exists sp, dp, len; reflexivity|]. split.
      * destruct (v6_is_multicast dst) eqn:Em; [|reflexivity].
        destruct (R4 eq_refl) as [E | [E | E]]; discriminate.
      * split; [exact R5|]. rewrite R3. apply icmp_len_bound6.
  - (* ICMPv6 *)
    unfold ing_process_icmpv6.
    assert (Hd : forall i, In i (filter_idx (fun s => ing_icmp_accepts s false (V6 dst) m) socks) -> deliv_ok ifc socks p i).
    { intros i Hi. apply (filter_idx_spec _ socks STcpClosed) in Hi. destruct Hi as (Hl & Ha).
      rewrite <- Hdst in Ha. destruct (icmp_accepts_matches ifc _ p false m Eu Ha) as (M1 & M2 & M3).
      split; [exact Hl|]. split; [exact M1|]. split; [intros _; rewrite Hdst; exact Hpass | intros Ht; congruence]. }
    destruct m as [id len | id len | ty q len | tg ll hl | tg ll hl].
    + destruct (ing_icmpv6_reply ifc src dst KEchoReply (8 + len)) as [o| |] eqn:Er; cbn [obind]; try discriminate.
      intros H. inv H. cbn [res_deliv res_reply]. split; [exact Hd|].
      intros r Hr. subst o. apply icmpv6_reply_spec in Er. destruct Er as (R1 & R2 & R3 & R4 & R5).
      split; [rewrite R1; discriminate|]. unfold reply_facts6. rewrite R1. split; [exact R2|]. split; [exact Hus|].
      split; [exists id, len; reflexivity | exact R5].
    + intros H. inv H. cbn [res_deliv res_reply]. split; [exact Hd | intros ? Hr; discriminate].
    + intros H. inv H. cbn [res_deliv res_reply]. split; [exact Hd | intros ? Hr; discriminate].
    + (* neighbor solicitation *)
      destruct (Z.eqb_spec hl 255) as [Ehl|Ehl];
        [|intros H; inv H; cbn [res_deliv res_reply]; split; [exact Hd | intros ? Hr; discriminate]].
      subst hl. destruct (if_medium ifc) eqn:Em;
        try (intros H; inv H; cbn [res_deliv res_reply]; split; [exact Hd | intros ? Hr; discriminate]).
      all: intros H; inv H; cbn [res_deliv res_reply]; split; [exact Hd|].
      all: intros r Hr; unfold ing_process_ndisc_ns in Hr.
      all: destruct (v6_x_is_unicast tg) eqn:Et; cbn [negb] in Hr; [|discriminate].
      all: destruct (match ll with Some l => negb (hw_is_unicast l) | None => false end); [discriminate|].
      all: destruct ((ing_has_solicited_node ifc dst || ing_has_ip_addr ifc (V6 dst)) && ing_has_ip_addr ifc (V6 tg)) eqn:Ec; [|discriminate].
      all: inv Hr; apply andb_true_iff in Ec; destruct Ec as (Ec1 & Ec2); apply orb_true_iff in Ec1.
      all: split; [cbn; discriminate|]; unfold reply_facts6; cbn [r_kind r_dst r_src].
      all: split; [reflexivity|]; split; [exact Hus|]; exists tg, ll.
      all: split; [reflexivity|]; split; [rewrite Em; discriminate|]; split; [reflexivity|].
      all: split; [exact Et|]; split; [exact Ec2 | exact Ec1].
    + intros H. inv H. cbn [res_deliv res_reply]. split; [exact Hd | intros ? Hr; discriminate].
  - (* IGMP number in an IPv6 packet: an unknown next header *)
    destruct h.
    { intros H. inv H. cbn. split; [intros ? [] | intros ? Hr; discriminate]. }
    destruct (ing_icmpv6_reply ifc src dst KParamNxt _) as [o| |] eqn:Er; cbn [obind]; try discriminate.
    intros H. inv H. cbn [res_deliv res_reply]. split; [intros ? []|].
    intros r Hr. subst o. apply icmpv6_reply_spec in Er. destruct Er as (R1 & R2 & R3 & R4 & R5).
    split; [rewrite R1; discriminate|]. unfold reply_facts6. rewrite R1. split; [exact R2|]. split; [exact Hus|].
    split; [left; reflexivity|]. split; [exact R5|]. rewrite R3. apply icmp_len_bound6.
  - destruct h.
    { intros H. inv H. cbn. split; [intros ? [] | intros ? Hr; discriminate]. }
    destruct (ing_icmpv6_reply ifc src dst KParamNxt _) as [o| |] eqn:Er; cbn [obind]; try discriminate.
    intros H. inv H. cbn [res_deliv res_reply]. split; [intros ? []|].
    intros r Hr. subst o. apply icmpv6_reply_spec in Er. destruct Er as (R1 & R2 & R3 & R4 & R5).
    split; [rewrite R1; discriminate|]. unfold reply_facts6. rewrite R1. split; [exact R2|]. split; [exact Hus|].
    split; [right; exists n, len; reflexivity|]. split; [exact R5|]. rewrite R3. apply icmp_len_bound6.
Qed.

Lemma process_ipv6_spec res :
  ing_process_ipv6 ifc socks src dst (p_hbh p) (p_upper p) = Ok res ->
  (forall i, In i (res_deliv res) -> deliv_ok ifc socks p i) /\
  (forall r, res_reply res = Some r -> ip_passed ifc (V6 dst) /\ reply_facts6 ifc src dst (p_hbh p) (p_upper p) r).
Proof.
  unfold ing_process_ipv6.
  destruct (v6_x_is_unicast src) eqn:Hus; cbn [negb].
  2:{ intros H. inv H. cbn. split; [intros ? [] | intros ? Hr; discriminate]. }
  destruct (negb (ing_has_ip_addr ifc (V6 dst)) && negb (ing_has_multicast_group ifc (V6 dst))) eqn:Ed.
  { intros H. inv H. cbn. split; [intros ? [] | intros ? Hr; discriminate]. }
  assert (Hpass : ip_passed ifc (V6 dst)).
  { unfold ip_passed. destruct (ing_has_ip_addr ifc (V6 dst)); [left; reflexivity|].
    destruct (ing_has_multicast_group ifc (V6 dst)); [right; left; reflexivity|]. cbn in Ed. discriminate. }
  destruct (match p_hbh p with
            | Some hh => ing_process_hopbyhop ifc src dst hh (p_upper p)
            | None => Ok HbhContinue
            end) as [resp| |] eqn:Eh; cbn [obind]; try discriminate.
  destruct resp as [|ro].
  - (* continue *)
    fold raw_proto6.
    destruct (ing_process_nxt_hdr ifc socks (negb (is_nil (ing_raw_socket_filter socks 6 raw_proto6))) src dst (p_upper p))
      as [nr| |] eqn:En; cbn [obind]; try discriminate.
    intros H. inv H. apply (process_nxt_hdr_spec _ _ Hus Hpass) in En. destruct En as (N1 & N2).
    cbn [res_add_deliv res_deliv res_reply]. split.
    + intros i Hi. apply in_app_or in Hi. destruct Hi as [Hi | Hi]; [apply raws6_ok; assumption | apply N1; exact Hi].
    + intros r Hr. split; [exact Hpass | apply N2; exact Hr].
  - (* discarded by a hop-by-hop option *)
    intros H. inv H. cbn [res_deliv res_reply]. split; [intros ? []|].
    intros r Hr. subst ro. split; [exact Hpass|].
    destruct (p_hbh p) as [hh|] eqn:Ehh; [|discriminate].
    unfold ing_process_hopbyhop in Eh. apply hbh_loop_spec in Eh. destruct Eh as (A & _ & C).
    apply icmpv6_reply_spec in C. destruct C as (R1 & R2 & R3 & R4 & R5).
    unfold reply_facts6. rewrite R1. split; [exact R2|]. split; [exact Hus|].
    split; [discriminate|]. split; [exact A|]. split; [exact R5|]. rewrite R3. apply icmp_len_bound6.
Qed.

End V6.

(* ================================================================== link layer and the whole ingress path *)

Definition reply_facts (ifc : iface) (p : packet) (r : reply) : Prop :=
  match p_src p, p_dst p with
  | V4 s, V4 d => reply_facts4 ifc s d (p_upper p) r
  | V6 s, V6 d => reply_facts6 ifc s d (p_hbh p) (p_upper p) r
  | _, _ => False
  end.

(* passed the hardware filter, and a frame sent to a link-layer broadcast/multicast address
   carries an IP broadcast/multicast destination *)
Definition link_pass (ifc : iface) (p : packet) : Prop :=
  link_for_us ifc p /\
  (link_nonunicast ifc p -> ip_is_multicast (p_dst p) = true \/ is_bcast ifc (p_dst p)).

Lemma eth_is_broadcast_spec d : eth_is_broadcast d = true <-> d = eth_BROADCAST.
Proof. apply Z.eqb_eq. Qed.
Lemma eth_is_multicast_spec d : eth_is_multicast d = true <-> (d / 2 ^ 40) mod 2 = 1.
Proof. apply Z.eqb_eq. Qed.

Lemma hw_eqb_eq x y : hw_eqb x y = true <-> x = y.
Proof.
  destruct x, y; cbn; split; intros H; try discriminate; try reflexivity;
    try (apply Z.eqb_eq in H; congruence); try (inv H; apply Z.eqb_refl).
Qed.

Lemma process_ip_any_spec ifc socks p res :
  ing_process_ip_any ifc socks p = Ok res ->
  (forall i, In i (res_deliv res) -> deliv_ok ifc socks p i) /\
  (forall r, res_reply res = Some r -> ip_passed ifc (p_dst p) /\ reply_facts ifc p r).
Proof.
  unfold ing_process_ip_any, reply_facts.
  destruct (p_src p) as [s|s] eqn:Es; destruct (p_dst p) as [d|d] eqn:Ed.
  - intros H. exact (process_ipv4_spec ifc socks p s d Es Ed res H).
  - intros H. inv H. cbn. split; [intros ? [] | intros ? Hr; discriminate].
  - intros H. inv H. cbn. split; [intros ? [] | intros ? Hr; discriminate].
  - intros H. exact (process_ipv6_spec ifc socks p s d Es Ed res H).
Qed.

Lemma process_spec ifc socks p res :
  ing_process ifc socks p = Ok res ->
  (forall i, In i (res_deliv res) -> link_pass ifc p /\ deliv_ok ifc socks p i) /\
  (forall r, res_reply res = Some r -> link_pass ifc p /\ ip_passed ifc (p_dst p) /\ reply_facts ifc p r).
Proof.
  assert (Hnone : res_none = res ->
    (forall i, In i (res_deliv res) -> link_pass ifc p /\ deliv_ok ifc socks p i) /\
    (forall r, res_reply res = Some r -> link_pass ifc p /\ ip_passed ifc (p_dst p) /\ reply_facts ifc p r)).
  { intros <-. cbn. split; [intros ? [] | intros ? Hr; discriminate]. }
  assert (Hany : link_pass ifc p -> ing_process_ip_any ifc socks p = Ok res ->
    (forall i, In i (res_deliv res) -> link_pass ifc p /\ deliv_ok ifc socks p i) /\
    (forall r, res_reply res = Some r -> link_pass ifc p /\ ip_passed ifc (p_dst p) /\ reply_facts ifc p r)).
  { intros Hl H. apply process_ip_any_spec in H. destruct H as (H1 & H2). split.
    - intros i Hi. split; [exact Hl | apply H1; exact Hi].
    - intros r Hr. destruct (H2 r Hr). split; [exact Hl | split; assumption]. }
  unfold ing_process. destruct (if_medium ifc) eqn:Em.
  - (* Medium::Ip *)
    apply Hany. unfold link_pass, link_for_us, link_nonunicast. rewrite Em. split; [exact I | intros []].
  - (* Ethernet *)
    unfold ing_process_ethernet. destruct (p_ll_dst p) as [|d| | |] eqn:El; try (intros H; inv H; apply Hnone; reflexivity).
    destruct (negb (eth_is_broadcast d) && negb (eth_is_multicast d) && negb (hw_eqb (HwEth d) (if_hw ifc))) eqn:Ef.
    { intros H. inv H. apply Hnone. reflexivity. }
    assert (Hfor : link_for_us ifc p).
    { unfold link_for_us. rewrite Em. exists d. split; [exact El|].
      destruct (eth_is_broadcast d) eqn:E1; [left; apply eth_is_broadcast_spec; exact E1|].
      destruct (eth_is_multicast d) eqn:E2; [right; left; apply eth_is_multicast_spec; exact E2|].
      destruct (hw_eqb (HwEth d) (if_hw ifc)) eqn:E3; [|cbn in Ef; discriminate].
      right; right. apply hw_eqb_eq in E3. congruence. }
    assert (Hnu : link_nonunicast ifc p -> eth_is_unicast d = false).
    { unfold link_nonunicast. rewrite Em, El. unfold eth_is_unicast. intros [H | H].
      - apply eth_is_broadcast_spec in H. rewrite H. reflexivity.
      - apply eth_is_multicast_spec in H. rewrite H. rewrite orb_true_r. reflexivity. }
    destruct (p_dst p) as [a|a] eqn:Ed.
    + destruct (negb (eth_is_unicast d) && negb (v4_is_multicast a) && negb (ing_is_broadcast_v4 ifc a)) eqn:Eu.
      { intros H. inv H. apply Hnone. reflexivity. }
      apply Hany. split; [exact Hfor|]. intros Hn. apply Hnu in Hn. rewrite Hn in Eu. cbn in Eu. rewrite Ed. cbn.
      destruct (v4_is_multicast a); [left; reflexivity|]. cbn in Eu.
      apply negb_false_iff in Eu. right. apply (is_broadcast_v4_bcast ifc a). exact Eu.
    + destruct (negb (eth_is_unicast d) && negb (v6_is_multicast a)) eqn:Eu.
      { intros H. inv H. apply Hnone. reflexivity. }
      apply Hany. split; [exact Hfor|]. intros Hn. apply Hnu in Hn. rewrite Hn in Eu. cbn in Eu. rewrite Ed. cbn.
      apply negb_false_iff in Eu. left. exact Eu.
  - (* IEEE 802.15.4 *)
    unfold ing_process_ieee802154.
    destruct ((match if_pan ifc with Some _ => true | None => false end) && negb (opt_z_eqb (p_ll_pan p) (if_pan ifc))
              && negb (opt_z_eqb (p_ll_pan p) (Some pan_BROADCAST))) eqn:Ep.
    { intros H. inv H. apply Hnone. reflexivity. }
    assert (Hfor : link_for_us ifc p).
    { unfold link_for_us. rewrite Em. destruct (if_pan ifc) as [n|] eqn:En; [|left; reflexivity]. right.
      cbn in Ep. destruct (p_ll_pan p) as [m|] eqn:Epp; cbn in Ep; [|discriminate].
      exists m. split; [reflexivity|].
      destruct (Z.eqb_spec m n) as [E1|E1]; [left; congruence|]. cbn in Ep.
      destruct (Z.eqb_spec m pan_BROADCAST) as [E2|E2]; [right; exact E2 | discriminate]. }
    destruct (p_dst p) as [a|a] eqn:Ed; [intros H; inv H; apply Hnone; reflexivity|].
    destruct (negb match p_upper p with UTcp _ _ _ _ _ | UUdp _ _ _ | UIcmp _ => true | _ => false end).
    { intros H. inv H. apply Hnone. reflexivity. }
    destruct (hw154_is_broadcast (p_ll_dst p) && negb (v6_is_multicast a)) eqn:Eb.
    { intros H. inv H. apply Hnone. reflexivity. }
    apply Hany. split; [exact Hfor|]. unfold link_nonunicast. rewrite Em.
    destruct (p_ll_dst p) as [| | |s|] eqn:El; try (intros Hf; contradiction).
    intros Hs. subst s. cbn in Eb. rewrite Ed. cbn. apply negb_false_iff in Eb. left. exact Eb.
Qed.

(* ================================================================== totality: no panic, no error *)

Lemma process_udp_total ifc socks h src dst sp dp plen :
  (match src with V6 s => v6_is_unspecified s = false | V4 _ => True end) ->
  exists res, ing_process_udp ifc socks h src dst sp dp plen = Ok res.
Proof.
  intros Hs. unfold ing_process_udp.
  destruct (find_idx _ socks); [eexists; reflexivity|].
  destruct (find_idx _ socks); [eexists; reflexivity|].
  destruct h; [eexists; reflexivity|].
  destruct src as [s|s], dst as [d|d]; try (eexists; reflexivity).
  destruct (icmpv6_reply_total ifc s d KPortUnreach
              (8 + wipv6_HEADER_LEN + icmp_reply_payload_len plen wipv6_MIN_MTU wipv6_HEADER_LEN) Hs) as (o & E).
  rewrite E. cbn [obind]. eexists; reflexivity.
Qed.

Lemma x_unicast_not_unspec6 s : v6_x_is_unicast s = true -> v6_is_unspecified s = false.
Proof. unfold v6_x_is_unicast. intros H. apply negb_true_iff, orb_false_iff in H. tauto. Qed.

Lemma process_ipv6_total ifc socks src dst h u : exists res, ing_process_ipv6 ifc socks src dst h u = Ok res.
Proof.
  unfold ing_process_ipv6. destruct (v6_x_is_unicast src) eqn:Hus; cbn [negb]; [|eexists; reflexivity].
  pose proof (x_unicast_not_unspec6 src Hus) as Hs.
  destruct (negb (ing_has_ip_addr ifc (V6 dst)) && negb (ing_has_multicast_group ifc (V6 dst))); [eexists; reflexivity|].
  assert (Hh : exists resp, match h with Some hh => ing_process_hopbyhop ifc src dst hh u | None => Ok HbhContinue end = Ok resp).
  { destruct h as [hh|]; [|eexists; reflexivity]. unfold ing_process_hopbyhop. apply hbh_loop_total. exact Hs. }
  destruct Hh as (resp & ->). cbn [obind]. destruct resp as [|ro]; [|eexists; reflexivity].
  assert (Hn : forall hr, exists nr, ing_process_nxt_hdr ifc socks hr src dst u = Ok nr).
  { intros hr. unfold ing_process_nxt_hdr. destruct u as [sp dp ctl ack len | sp dp len | m | | n len].
    - eexists; reflexivity.
    - apply process_udp_total. exact Hs.
    - unfold ing_process_icmpv6. destruct m as [id len|id len|ty q len|tg ll hl|tg ll hl]; try (eexists; reflexivity);
        try (destruct (hl =? 255); [destruct (if_medium ifc)|]; eexists; reflexivity).
      destruct (icmpv6_reply_total ifc src dst KEchoReply (8 + len) Hs) as (o & E). rewrite E. cbn [obind]. eexists; reflexivity.
    - destruct hr; [eexists; reflexivity|].
      destruct (icmpv6_reply_total ifc src dst KParamNxt
                  (8 + wipv6_HEADER_LEN + icmp_reply_payload_len (upper_len UIgmp) wipv6_MIN_MTU wipv6_HEADER_LEN) Hs) as (o & E).
      rewrite E. cbn [obind]. eexists; reflexivity.
    - destruct hr; [eexists; reflexivity|].
      destruct (icmpv6_reply_total ifc src dst KParamNxt
                  (8 + wipv6_HEADER_LEN + icmp_reply_payload_len (upper_len (UOther n len)) wipv6_MIN_MTU wipv6_HEADER_LEN) Hs) as (o & E).
      rewrite E. cbn [obind]. eexists; reflexivity. }
  match goal with |- context [ing_process_nxt_hdr ifc socks ?hr src dst u] => destruct (Hn hr) as (nr & ->) end.
  cbn [obind]. eexists; reflexivity.
Qed.

Lemma process_ipv4_total ifc socks src dst u : exists res, ing_process_ipv4 ifc socks src dst u = Ok res.
Proof.
  unfold ing_process_ipv4. destruct (negb (ing_is_unicast_v4 ifc src) && negb (v4_is_unspecified src)); [eexists; reflexivity|].
  destruct (negb (ing_has_ip_addr ifc (V4 dst)) && negb (ing_has_multicast_group ifc (V4 dst)) && negb (ing_is_broadcast_v4 ifc dst));
    [eexists; reflexivity|].
  destruct u as [sp dp ctl ack len | sp dp len | m | | n len]; try (eexists; reflexivity).
  - match goal with |- context [ing_process_udp ?a ?b ?c ?d ?e ?f ?g ?h] =>
      destruct (process_udp_total a b c d e f g h I) as (ur & ->) end.
    cbn [obind]. eexists; reflexivity.
  - destruct (negb (is_nil _)); eexists; reflexivity.
Qed.

Lemma process_total ifc socks p : exists res, ing_process ifc socks p = Ok res.
Proof.
  assert (Hany : exists res, ing_process_ip_any ifc socks p = Ok res).
  { unfold ing_process_ip_any. destruct (p_src p), (p_dst p); try (eexists; reflexivity).
    - apply process_ipv4_total.
    - apply process_ipv6_total. }
  unfold ing_process. destruct (if_medium ifc).
  - exact Hany.
  - unfold ing_process_ethernet. destruct (p_ll_dst p); try (eexists; reflexivity).
    destruct (_ && _ && _); [eexists; reflexivity|].
    destruct (p_dst p); destruct (_ && _); try (eexists; reflexivity); exact Hany.
  - unfold ing_process_ieee802154. destruct (_ && _ && _); [eexists; reflexivity|].
    destruct (p_dst p); [eexists; reflexivity|].
    destruct (negb _); [eexists; reflexivity|]. destruct (_ && _); [eexists; reflexivity | exact Hany].
Qed.

(* ================================================================== C11 *)

Lemma ip_passed_addressed ifc x : ip_passed ifc x ->
  if_any_ip ifc = true \/ own ifc x \/ is_bcast ifc x \/ joined ifc x.
Proof.
  intros [H | [H | H]].
  - unfold ing_has_ip_addr in H. destruct (if_any_ip ifc); [left; reflexivity|].
    right; left. apply own_addr_own. exact H.
  - right; right; right. apply has_multicast_group_joined. exact H.
  - right; right; left. apply is_broadcast_bcast. exact H.
Qed.

(* clause 1: traffic not addressed to the interface is neither delivered (raw sockets, which
   see every IPv4 packet by design and are not among the socket kinds of the property, excepted)
   nor answered *)
Theorem c11_foreign_not_delivered_not_answered ifc socks p :
  ~ addressed_to_us ifc p ->
  exists res, ing_process ifc socks p = Ok res /\
    res_reply res = None /\
    (forall i, In i (res_deliv res) -> is_raw (nth i socks STcpClosed) = true).
Proof.
  intros Hf. destruct (process_total ifc socks p) as (res & Hr). exists res. split; [exact Hr|].
  destruct (process_spec ifc socks p res Hr) as (Hd & Hrep). split.
  - destruct (res_reply res) as [r|] eqn:E; [|reflexivity]. exfalso.
    destruct (Hrep r eq_refl) as ((Hl & _) & Hp & _). apply Hf. split; [exact Hl | apply ip_passed_addressed; exact Hp].
  - intros i Hi. destruct (Hd i Hi) as ((Hl & _) & _ & _ & Hraw & _).
    destruct (is_raw (nth i socks STcpClosed)) eqn:E; [reflexivity|]. exfalso.
    apply Hf. split; [exact Hl | apply ip_passed_addressed; apply Hraw; reflexivity].
Qed.

(* clause 2: a socket only receives what matches its bound endpoint *)
Theorem c11_socket_gets_only_matching ifc socks p res i :
  ing_process ifc socks p = Ok res -> In i (res_deliv res) ->
  (i < length socks)%nat /\ sock_matches ifc (nth i socks STcpClosed) p /\
  (is_raw (nth i socks STcpClosed) = false -> addressed_to_us ifc p).
Proof.
  intros Hr Hi. destruct (process_spec ifc socks p res Hr) as (Hd & _).
  destruct (Hd i Hi) as ((Hl & _) & Hlen & Hm & Hraw & _). split; [exact Hlen|]. split; [exact Hm|].
  intros E. split; [exact Hl | apply ip_passed_addressed; apply Hraw; exact E].
Qed.

Lemma tcp_dst_ok_facts ifc x : tcp_dst_ok ifc x ->
  ~ is_bcast ifc x /\ ip_is_multicast x = false /\ ip_is_unspecified x = false /\
  (ip_is_loopback x = true -> own ifc x).
Proof.
  intros (U1 & U2 & U3 & U4). repeat split; auto.
  - intros Hb. apply is_broadcast_bcast in Hb. congruence.
  - intros Hl. apply own_addr_own. apply U4. exact Hl.
Qed.

Lemma is_unicast_v4_dst_facts ifc d : ing_is_unicast_v4 ifc d = true ->
  ~ is_bcast ifc (V4 d) /\ ip_is_multicast (V4 d) = false /\ ip_is_unicast (V4 d) = true.
Proof.
  intros H. apply is_unicast_v4_facts in H. destruct H as (H1 & H2 & H3 & H4). repeat split; auto.
  intros Hb. apply (is_broadcast_v4_bcast ifc d) in Hb. congruence.
Qed.

(* clause 3: no TCP reset and no ICMP error in answer to a packet sent to a broadcast or
   multicast destination (IP or link layer) or coming from a non-unicast source — except the
   known finding (Parameter Problem about a packet for a joined multicast group) *)
Theorem c11_no_rst_or_icmp_error_to_bcast_mcast_dst_or_nonunicast_src ifc socks p res r :
  ing_process ifc socks p = Ok res -> res_reply res = Some r -> rkind_is_error (r_kind r) = true ->
  ~ known_param_problem_to_multicast p r ->
  ~ is_bcast ifc (p_dst p) /\ ip_is_multicast (p_dst p) = false /\ ~ link_nonunicast ifc p /\
  ~ src_nonunicast ifc (p_src p) /\ r_dst r = p_src p.
Proof.
  intros Hr Hrep Hk Hnk. destruct (process_spec ifc socks p res Hr) as (_ & Hs).
  destruct (Hs r Hrep) as ((_ & Hlink) & _ & Hf). unfold reply_facts in Hf.
  assert (Hgoal : ~ is_bcast ifc (p_dst p) /\ ip_is_multicast (p_dst p) = false /\
                  ~ src_nonunicast ifc (p_src p) /\ r_dst r = p_src p).
  { destruct (p_src p) as [s|s] eqn:Es; destruct (p_dst p) as [d|d] eqn:Ed; try contradiction.
    - destruct Hf as (F1 & F2 & F3). pose proof (unicast_v4_not_src_nonunicast ifc s F2) as Hsrc.
      destruct (r_kind r) eqn:Ek; try contradiction; try discriminate.
      + destruct F3 as (_ & _ & Hok & _). apply tcp_dst_ok_facts in Hok. destruct Hok as (A & B & _). repeat split; assumption.
      + destruct F3 as (_ & Hu & _). apply is_unicast_v4_dst_facts in Hu. destruct Hu as (A & B & _). repeat split; assumption.
      + destruct F3 as (_ & Hu & _). apply is_unicast_v4_dst_facts in Hu. destruct Hu as (A & B & _). repeat split; assumption.
    - destruct Hf as (F1 & F2 & F3). pose proof (unicast_v6_not_src_nonunicast ifc s F2) as Hsrc.
      assert (Hnb : ~ is_bcast ifc (V6 d)) by (cbn; tauto).
      destruct (r_kind r) eqn:Ek; try contradiction; try discriminate.
      + destruct F3 as (_ & _ & Hok & _). apply tcp_dst_ok_facts in Hok. destruct Hok as (_ & B & _). repeat split; assumption.
      + destruct F3 as (_ & Hm & _). repeat split; assumption.
      + destruct (v6_is_multicast d) eqn:Em; [|repeat split; assumption]. exfalso. apply Hnk.
        split; [left; exact Ek | rewrite Ed; exact Em].
      + destruct (v6_is_multicast d) eqn:Em; [|repeat split; assumption]. exfalso. apply Hnk.
        split; [right; exact Ek | rewrite Ed; exact Em]. }
  destruct Hgoal as (G1 & G2 & G3 & G4). repeat split; try assumption.
  intros Hn. destruct (Hlink Hn) as [H | H]; [congruence | contradiction].
Qed.

Lemma packet_is_error_upper p : packet_is_error p -> upper_is_error (p_upper p) = true.
Proof.
  unfold packet_is_error. destruct (p_upper p) as [sp dp ctl ack len| | m| |]; try contradiction.
  - destruct ctl; try contradiction. reflexivity.
  - destruct m; try contradiction. reflexivity.
Qed.

(* clause 4: an ICMP error or a TCP reset is never answered with another error / reset *)
Theorem c11_no_error_about_error ifc socks p res r :
  ing_process ifc socks p = Ok res -> res_reply res = Some r -> packet_is_error p ->
  rkind_is_error (r_kind r) = false.
Proof.
  intros Hr Hrep Hpe. destruct (process_spec ifc socks p res Hr) as (_ & Hs).
  destruct (Hs r Hrep) as (_ & _ & Hf). unfold reply_facts in Hf.
  pose proof (packet_is_error_upper p Hpe) as Hue. unfold packet_is_error in Hpe.
  destruct (p_src p) as [s|s]; destruct (p_dst p) as [d|d]; try contradiction.
  - destruct Hf as (_ & _ & F3). destruct (r_kind r) eqn:Ek; try contradiction; try reflexivity; exfalso.
    + destruct F3 as ((sp & dp & ctl & ack & len & Hu & Hc) & _). rewrite Hu in Hpe. destruct ctl; try contradiction; try congruence.
    + destruct F3 as ((sp & dp & len & Hu) & _). rewrite Hu in Hpe. exact Hpe.
    + destruct F3 as ((n & len & Hu) & _). rewrite Hu in Hpe. exact Hpe.
  - destruct Hf as (_ & _ & F3). destruct (r_kind r) eqn:Ek; try contradiction; try reflexivity; exfalso.
    + destruct F3 as ((sp & dp & ctl & ack & len & Hu & Hc) & _). rewrite Hu in Hpe. destruct ctl; try contradiction; try congruence.
    + destruct F3 as ((sp & dp & len & Hu) & _). rewrite Hu in Hpe. exact Hpe.
    + destruct F3 as ([Hu | (n & len & Hu)] & _); rewrite Hu in Hpe; exact Hpe.
    + destruct F3 as (_ & Hne & _). congruence.
Qed.

(* clause 5: a TCP segment for a broadcast, multicast or non-local loopback destination reaches
   no TCP socket (no state can change) and is not answered with a reset *)
Theorem c11_tcp_to_nonunicast_never_changes_state ifc socks p res :
  tcp_dst_nonunicast ifc (p_dst p) ->
  ing_process ifc socks p = Ok res ->
  (forall i, In i (res_deliv res) -> is_tcp_sock (nth i socks STcpClosed) = false) /\
  (forall i, In i (ing_changed socks p (res_deliv res)) -> is_tcp_sock (nth i socks STcpClosed) = false) /\
  (forall r, res_reply res = Some r -> r_kind r <> KRst).
Proof.
  intros Hn Hr. destruct (process_spec ifc socks p res Hr) as (Hd & Hs).
  assert (Hno : ~ tcp_dst_ok ifc (p_dst p)).
  { intros Hok. apply tcp_dst_ok_facts in Hok. destruct Hok as (A & B & _ & D).
    destruct Hn as [H | [H | (H1 & H2)]]; [apply A; exact H | congruence | apply H2, D; exact H1]. }
  assert (H1 : forall i, In i (res_deliv res) -> is_tcp_sock (nth i socks STcpClosed) = false).
  { intros i Hi. destruct (Hd i Hi) as (_ & _ & _ & _ & Ht).
    destruct (is_tcp_sock (nth i socks STcpClosed)); [|reflexivity]. exfalso. apply Hno, Ht. reflexivity. }
  split; [exact H1|]. split.
  - intros i Hi. apply H1. unfold ing_changed in Hi. apply filter_In in Hi. tauto.
  - intros r Hrep Hk. destruct (Hs r Hrep) as (_ & _ & Hf). unfold reply_facts in Hf.
    destruct (p_src p) as [s|s]; destruct (p_dst p) as [d|d]; try contradiction;
      destruct Hf as (_ & _ & F3); rewrite Hk in F3; destruct F3 as (_ & _ & Hok & _); exact (Hno Hok).
Qed.

(* the known finding is real: a packet for ff02::1 with an unknown next header is answered
   with a Parameter Problem (pinned by the crate's unit test unknown_proto_with_multicast_dst_address) *)
Definition ex_ifc6 : iface :=
  mkIface MIp HwIp None
    [mkCidr (V6 338288524927261089654018896841347694593) 64]   (* fe80::1 *)
    [] false [] [] false 1500 1500 false.
Definition ex_pkt_unknown_nh_to_all_nodes : packet :=
  mkPacket HwIp None (V6 338288524927261089654018896841347694594) (V6 v6_LINK_LOCAL_ALL_NODES) None (UOther 253 8).

Lemma c11_known_param_problem_refuted :
  exists ifc socks p res r,
    ing_process ifc socks p = Ok res /\ res_reply res = Some r /\ rkind_is_error (r_kind r) = true /\
    known_param_problem_to_multicast p r /\ ip_is_multicast (p_dst p) = true.
Proof.
  exists ex_ifc6, [], ex_pkt_unknown_nh_to_all_nodes.
  eexists. eexists. split; [vm_compute; reflexivity|]. split; [reflexivity|]. split; [reflexivity|].
  split; [split; [left; reflexivity | reflexivity] | reflexivity].
Qed.

(* ================================================================== C10: sources, sizes, panics *)

Lemma v6_unicast_ip a : v6_x_is_unicast a = true -> ip_is_unicast (V6 a) = true.
Proof. intros H; exact H. Qed.

(* a unicast destination that passed the IP filter is one of our addresses (or any_ip is on) *)
Lemma passed_unicast_is_own ifc x : wf_iface ifc -> ip_passed ifc x ->
  ip_is_multicast x = false -> ~ is_bcast ifc x -> if_any_ip ifc = true \/ own ifc x.
Proof.
  intros Hwf Hp Hm Hb. apply ip_passed_addressed in Hp.
  destruct Hp as [H | [H | [H | H]]]; [left; exact H | right; exact H | contradiction|].
  apply (joined_is_multicast ifc x Hwf) in H. congruence.
Qed.

(* own unicast address; with any_ip (the interface acts for every address) the unicast address
   the packet was sent to or, for a neighbor advertisement, the unicast target asked for *)
Definition legal_reply_source (ifc : iface) (p : packet) (r : reply) : Prop :=
  (own ifc (r_src r) /\ ip_is_unicast (r_src r) = true) \/
  (if_any_ip ifc = true /\ r_src r = p_dst p /\ ip_is_unicast (p_dst p) = true /\ ~ is_bcast ifc (p_dst p)) \/
  (if_any_ip ifc = true /\ r_kind r = KNeighAdv /\ ip_is_unicast (r_src r) = true).

Lemma selected6_legal ifc p s d r : wf_iface ifc -> p_src p = V6 s -> p_dst p = V6 d ->
  r_dst r = V6 s -> ip_passed ifc (V6 d) -> src_selected6 ifc s d r ->
  ~ known_loopback_fallback ifc r -> legal_reply_source ifc p r.
Proof.
  intros Hwf Es Ed Hrd Hp [(Hu & Hsrc) | (Hu & s' & Hg & Hsrc)] Hnk.
  - assert (Hm : ip_is_multicast (V6 d) = false) by (apply unicast_not_multicast; exact Hu).
    destruct (passed_unicast_is_own ifc (V6 d) Hwf Hp Hm) as [Ha | Ho]; [cbn; tauto | |].
    + right; left. rewrite Ed. repeat split; [exact Ha | exact Hsrc | exact Hu | cbn; tauto].
    + left. rewrite Hsrc. split; [exact Ho | exact Hu].
  - apply gsa6_result in Hg. destruct Hg as [Ho | (Hl & Hc)].
    + left. rewrite Hsrc. split; [exact Ho | apply (own_is_unicast ifc _ Hwf Ho)].
    + subst s'. destruct (ing_own_addr ifc (V6 v6_LOCALHOST)) eqn:Eo.
      * apply own_addr_own in Eo. left. rewrite Hsrc. split; [exact Eo | apply (own_is_unicast ifc _ Hwf Eo)].
      * exfalso. apply Hnk. split; [exact Hsrc|]. split.
        -- intros Ho. apply own_addr_own in Ho. congruence.
        -- destruct Hc as [Hc | Hc]; [left; exact Hc | right; congruence].
Qed.

(* every reply's IP source is one of the interface's own unicast addresses (with any_ip: the
   unicast address the packet was sent to) — except the known ::1 fallback *)
Theorem c10_reply_src_is_own_unicast ifc socks p res r :
  wf_iface ifc ->
  ing_process ifc socks p = Ok res -> res_reply res = Some r ->
  ~ known_loopback_fallback ifc r ->
  legal_reply_source ifc p r /\ r_dst r = p_src p /\ ip_is_unicast (r_dst r) = true.
Proof.
  intros Hwf Hr Hrep Hnk. destruct (process_spec ifc socks p res Hr) as (_ & Hs).
  destruct (Hs r Hrep) as (_ & Hp & Hf). unfold reply_facts in Hf.
  destruct (p_src p) as [s|s] eqn:Es; destruct (p_dst p) as [d|d] eqn:Ed; try contradiction.
  - destruct Hf as (F1 & F2 & F3).
    assert (Hd : ip_is_unicast (r_dst r) = true).
    { rewrite F1. apply is_unicast_v4_facts in F2. cbn. tauto. }
    split; [|split; [exact F1 | exact Hd]].
    assert (Huni : ing_is_unicast_v4 ifc d = true -> r_src r = V4 d -> legal_reply_source ifc p r).
    { intros Hu Hsrc. apply is_unicast_v4_dst_facts in Hu. destruct Hu as (A & B & C).
      destruct (passed_unicast_is_own ifc (V4 d) Hwf Hp B A) as [Ha | Ho].
      - right; left. rewrite Ed. repeat split; assumption.
      - left. rewrite Hsrc. split; assumption. }
    destruct (r_kind r) eqn:Ek; try contradiction.
    + destruct F3 as (_ & Hsrc & Hok & _). apply tcp_dst_ok_facts in Hok. destruct Hok as (A & B & C & _).
      assert (Hu : ip_is_unicast (V4 d) = true).
      { cbn in *. unfold v4_x_is_unicast. rewrite B, C.
        destruct (v4_is_broadcast d) eqn:Eb; [|reflexivity]. exfalso. apply A. left. apply Z.eqb_eq. exact Eb. }
      destruct (passed_unicast_is_own ifc (V4 d) Hwf Hp B A) as [Ha | Ho].
      * right; left. rewrite Ed. repeat split; assumption.
      * left. rewrite Hsrc. split; assumption.
    + destruct F3 as (_ & [(Hu & Hsrc) | (_ & _ & a & Ha & Hsrc)]).
      * apply Huni; assumption.
      * apply ipv4_addr_own in Ha. left. rewrite Hsrc. split; [exact Ha | apply (own_is_unicast ifc _ Hwf Ha)].
    + destruct F3 as (_ & Hu & Hsrc & _). apply Huni; assumption.
    + destruct F3 as (_ & Hu & Hsrc & _). apply Huni; assumption.
  - destruct Hf as (F1 & F2 & F3).
    split; [|split; [exact F1 | rewrite F1; exact F2]].
    destruct (r_kind r) eqn:Ek; try contradiction.
    + destruct F3 as (_ & Hsrc & Hok & _). apply tcp_dst_ok_facts in Hok. destruct Hok as (A & B & C & _).
      assert (Hu : v6_x_is_unicast d = true).
      { cbn in B, C. unfold v6_x_is_unicast. rewrite B, C. reflexivity. }
      apply (selected6_legal ifc p s d r Hwf Es Ed F1 Hp); [left; split; assumption | exact Hnk].
    + destruct F3 as (_ & Hsel). apply (selected6_legal ifc p s d r Hwf Es Ed F1 Hp Hsel Hnk).
    + destruct F3 as (_ & _ & Hsel & _). apply (selected6_legal ifc p s d r Hwf Es Ed F1 Hp Hsel Hnk).
    + destruct F3 as (_ & Hsel & _). apply (selected6_legal ifc p s d r Hwf Es Ed F1 Hp Hsel Hnk).
    + destruct F3 as (_ & _ & Hsel & _). apply (selected6_legal ifc p s d r Hwf Es Ed F1 Hp Hsel Hnk).
    + destruct F3 as (tg & ll & _ & _ & Hsrc & Hu & Hhas & _). unfold legal_reply_source. rewrite Hsrc.
      unfold ing_has_ip_addr in Hhas. destruct (if_any_ip ifc) eqn:Ea.
      * right; right. repeat split; [exact Ek | exact Hu].
      * left. apply own_addr_own in Hhas. split; [exact Hhas | exact Hu].
Qed.

(* a neighbor advertisement is sent only in answer to a neighbor solicitation with hop limit 255
   that is addressed to the interface (an own address or the solicited-node group of one), on a
   medium with neighbor discovery, and whose target is a unicast address of the interface (any
   unicast address with any_ip); its source is that target, its destination the solicitation's
   source *)
Theorem c10_ndisc_reply_source_own ifc socks p res r :
  ing_process ifc socks p = Ok res -> res_reply res = Some r -> r_kind r = KNeighAdv ->
  exists target ll,
    p_upper p = UIcmp (INeighSol target ll 255) /\ if_medium ifc <> MIp /\
    r_src r = V6 target /\ r_dst r = p_src p /\ ip_is_unicast (r_src r) = true /\
    (if_any_ip ifc = true \/ own ifc (V6 target)) /\ addressed_to_us ifc p.
Proof.
  intros Hr Hrep Hk. destruct (process_spec ifc socks p res Hr) as (_ & Hs).
  destruct (Hs r Hrep) as ((Hl & _) & Hp & Hf). unfold reply_facts in Hf.
  destruct (p_src p) as [s|s] eqn:Es; destruct (p_dst p) as [d|d] eqn:Ed; try contradiction.
  - destruct Hf as (_ & _ & F3). rewrite Hk in F3. contradiction.
  - destruct Hf as (F1 & _ & F3). rewrite Hk in F3. destruct F3 as (tg & ll & Hu & Hm & Hsrc & Hun & Hhas & _).
    exists tg, ll. split; [exact Hu|]. split; [exact Hm|]. split; [exact Hsrc|]. split; [exact F1|].
    split; [rewrite Hsrc; exact Hun|]. split.
    + unfold ing_has_ip_addr in Hhas. destruct (if_any_ip ifc); [left; reflexivity | right; apply own_addr_own; exact Hhas].
    + split; [exact Hl | rewrite Ed; apply ip_passed_addressed; exact Hp].
Qed.

(* replies that are errors or resets never exceed the minimum MTU of their family *)
Theorem c10_error_reply_within_min_mtu ifc socks p res r :
  ing_process ifc socks p = Ok res -> res_reply res = Some r -> rkind_is_error (r_kind r) = true ->
  r_iplen r <= (if ip_is_v4 (r_dst r) then wipv4_MIN_MTU else wipv6_MIN_MTU).
Proof.
  intros Hr Hrep Hk. destruct (process_spec ifc socks p res Hr) as (_ & Hs).
  destruct (Hs r Hrep) as (_ & _ & Hf). unfold reply_facts in Hf.
  destruct (p_src p) as [s|s]; destruct (p_dst p) as [d|d]; try contradiction;
    destruct Hf as (F1 & _ & F3); rewrite F1; cbn [ip_is_v4];
    destruct (r_kind r); try contradiction; try discriminate.
  - destruct F3 as (_ & _ & _ & ->). vm_compute. discriminate.
  - tauto.
  - tauto.
  - destruct F3 as (_ & _ & _ & ->). vm_compute. discriminate.
  - tauto.
  - tauto.
  - tauto.
Qed.

(* socket egress: the source of a datagram sent by a UDP socket that is unbound or bound to an
   interface address, and of the SYN of a connecting TCP socket *)
Definition udp_bound_ok (ifc : iface) (s : sock) : Prop :=
  match s with
  | SUdp (Some a) _ => own ifc a
  | _ => True
  end.

Theorem c10_egress_src_is_own_unicast_or_required_unspec ifc s dst len r :
  wf_iface ifc -> udp_bound_ok ifc s ->
  ing_udp_send_packet ifc s dst len = Ok (Some r) ->
  ~ known_loopback_fallback ifc r ->
  own ifc (r_src r) /\ ip_is_unicast (r_src r) = true /\ r_dst r = dst /\ r_kind r = KUdp.
Proof.
  intros Hwf Hb H Hnk. unfold ing_udp_send_packet in H. destruct s as [| | |a port| | |]; try discriminate.
  assert (Hfin : forall sa, own ifc sa -> r = mkReply KUdp sa dst
            ((if ip_is_v4 dst then wipv4_HEADER_LEN else wipv6_HEADER_LEN) + wudp_HEADER_LEN + len) ->
            own ifc (r_src r) /\ ip_is_unicast (r_src r) = true /\ r_dst r = dst /\ r_kind r = KUdp).
  { intros sa Ho ->. cbn. repeat split; [exact Ho | apply (own_is_unicast ifc _ Hwf Ho)]. }
  destruct a as [x|].
  - cbn [obind] in H. inv H. apply (Hfin x); [exact Hb | reflexivity].
  - unfold ing_get_source_address in H. destruct dst as [d|d].
    + cbn [obind] in H. destruct (ing_get_source_address_ipv4 ifc d) as [sa|] eqn:Eg; [|discriminate].
      inv H. apply (Hfin (V4 sa)); [apply (gsa4_own ifc d); exact Eg | reflexivity].
    + destruct (ing_get_source_address_ipv6 ifc d) as [sa| |] eqn:Eg; cbn [obind] in H; try discriminate.
      inv H. apply gsa6_result in Eg. destruct Eg as [Ho | (Hl & Hc)].
      * apply (Hfin (V6 sa)); [exact Ho | reflexivity].
      * subst sa. destruct (ing_own_addr ifc (V6 v6_LOCALHOST)) eqn:Eo.
        -- apply own_addr_own in Eo. apply (Hfin (V6 v6_LOCALHOST)); [exact Eo | reflexivity].
        -- exfalso. apply Hnk. cbn. split; [reflexivity|]. split.
           ++ intros Ho. apply own_addr_own in Ho. congruence.
           ++ destruct Hc as [Hc | Hc]; [left; exact Hc | right; subst d; reflexivity].
Qed.

Theorem c10_tcp_connect_src_is_own ifc dst r :
  wf_iface ifc -> if_any_ip ifc = false ->
  ing_tcp_connect_packet ifc dst = Ok (Some r) ->
  own ifc (r_src r) /\ ip_is_unicast (r_src r) = true /\ r_dst r = dst.
Proof.
  intros Hwf Ha H. unfold ing_tcp_connect_packet in H.
  destruct (ing_get_source_address ifc dst) as [[sa|]| |]; cbn [obind] in H; try discriminate.
  destruct (ing_has_ip_addr ifc sa) eqn:Eh; [|discriminate]. inv H. cbn.
  apply (has_ip_addr_own ifc sa Ha) in Eh. repeat split; [exact Eh | apply (own_is_unicast ifc _ Hwf Eh)].
Qed.

(* the size decision of dispatch_ip (Ethernet / Ip media): what is handed to the device fits the
   IP MTU; a packet is fragmented only if it is IPv4, larger than the MTU, fits the fragmentation
   buffer and the fragmenter is idle, and the first fragment then carries a positive multiple
   of 8 payload octets; it is dropped only if it is larger than the MTU *)
Theorem c10_dispatch_fits_mtu_or_fragments_or_drops ifc r lldst :
  wipv4_MIN_MTU <= if_ip_mtu ifc ->
  (forall e, In e (ing_dispatch_size ifc r lldst) ->
     exists iplen frag, e = EmIp (r_kind r) (r_src r) (r_dst r) lldst iplen frag /\
       iplen <= if_ip_mtu ifc /\
       (frag = false -> iplen = r_iplen r) /\
       (frag = true -> ip_is_v4 (r_dst r) = true /\ r_iplen r > if_ip_mtu ifc /\
                       r_iplen r <= if_frag_buf ifc /\ if_frag_busy ifc = false /\
                       (iplen - wipv4_HEADER_LEN) mod phy_IPV4_FRAGMENT_PAYLOAD_ALIGNMENT = 0 /\
                       wipv4_HEADER_LEN < iplen)) /\
  (ing_dispatch_size ifc r lldst = [] -> r_iplen r > if_ip_mtu ifc) /\
  (r_iplen r <= if_ip_mtu ifc ->
     ing_dispatch_size ifc r lldst = [EmIp (r_kind r) (r_src r) (r_dst r) lldst (r_iplen r) false]).
Proof.
  intros Hmtu. unfold ing_dispatch_size, wipv4_MIN_MTU, wipv4_HEADER_LEN, phy_IPV4_FRAGMENT_PAYLOAD_ALIGNMENT in *.
  destruct (ip_is_v4 (r_dst r)) eqn:Ev.
  - destruct (Z.gtb_spec (r_iplen r) (if_ip_mtu ifc)) as [Hg|Hg].
    + destruct (Z.ltb_spec (if_frag_buf ifc) (r_iplen r)) as [Hb|Hb].
      { split; [intros e []|]. split; [intros _; lia | intros; lia]. }
      destruct (if_frag_busy ifc) eqn:Ebusy.
      { split; [intros e []|]. split; [intros _; lia | intros; lia]. }
      split; [|split; [discriminate | intros; lia]].
      intros e [He | []]. subst e. eexists. exists true. split; [reflexivity|].
      split; [lia|]. split; [discriminate|]. intros _. repeat split; try reflexivity; try lia.
    + split; [|split; [discriminate | intros; reflexivity]].
      intros e [He | []]. subst e. eexists. exists false. split; [reflexivity|].
      split; [lia|]. split; [reflexivity | discriminate].
  - destruct (Z.gtb_spec (r_iplen r) (if_ip_mtu ifc)) as [Hg|Hg].
    + split; [intros e []|]. split; [intros _; lia | intros; lia].
    + split; [|split; [discriminate | intros; reflexivity]].
      intros e [He | []]. subst e. eexists. exists false. split; [reflexivity|].
      split; [lia|]. split; [reflexivity | discriminate].
Qed.

(* what dispatch_ip emits carries the packet's own source, or — for the neighbor solicitation /
   ARP request it sends instead — a selected source *)
Lemma dispatch_size_src ifc r ll e : In e (ing_dispatch_size ifc r ll) ->
  exists iplen frag, e = EmIp (r_kind r) (r_src r) (r_dst r) ll iplen frag.
Proof.
  unfold ing_dispatch_size.
  repeat match goal with |- context [if ?b then _ else _] => destruct b end; cbn; intros H;
    try contradiction; destruct H as [H | []]; subst e; eexists; eexists; reflexivity.
Qed.

Lemma emit_src ifc r ll e : In e (ing_emit ifc r ll) ->
  exists iplen frag, e = EmIp (r_kind r) (r_src r) (r_dst r) ll iplen frag.
Proof.
  unfold ing_emit. destruct (if_medium ifc); try apply dispatch_size_src.
  cbn. intros [H | []]. subst e. eexists; eexists; reflexivity.
Qed.

Theorem c10_dispatch_emits_given_or_selected_src ifc r l e :
  ing_dispatch_ip ifc r = Ok l -> In e l ->
  match e with
  | EmIp k src dst _ _ _ =>
      (k = r_kind r /\ src = r_src r /\ dst = r_dst r) \/
      (k = KNeighSol /\ ip_is_multicast dst = true /\ (own ifc src \/ src = V6 v6_LOCALHOST))
  | EmArpReq s _ => own ifc (V4 s)
  end.
Proof.
  intros H Hin. unfold ing_dispatch_ip in H.
  assert (Hgiven : forall ll, In e (ing_emit ifc r ll) ->
     match e with
     | EmIp k src dst _ _ _ =>
         (k = r_kind r /\ src = r_src r /\ dst = r_dst r) \/
         (k = KNeighSol /\ ip_is_multicast dst = true /\ (own ifc src \/ src = V6 v6_LOCALHOST))
     | EmArpReq s _ => own ifc (V4 s)
     end).
  { intros ll Hi. apply emit_src in Hi. destruct Hi as (il & fr & ->). left. repeat split. }
  assert (Hns : forall t l', (do s <- ing_get_source_address_ipv6 ifc t;
                     do h <- ll_multicast ifc (V6 (v6_solicited_node t));
                     Ok (ing_emit ifc (mkReply KNeighSol (V6 s) (V6 (v6_solicited_node t)) (ns_iplen ifc)) h)) = Ok l' ->
            In e l' ->
     match e with
     | EmIp k src dst _ _ _ =>
         (k = r_kind r /\ src = r_src r /\ dst = r_dst r) \/
         (k = KNeighSol /\ ip_is_multicast dst = true /\ (own ifc src \/ src = V6 v6_LOCALHOST))
     | EmArpReq s _ => own ifc (V4 s)
     end).
  { intros t l' H' Hi.
    destruct (ing_get_source_address_ipv6 ifc t) as [s| |] eqn:Eg; cbn [obind] in H'; try discriminate.
    destruct (ll_multicast ifc (V6 (v6_solicited_node t))) as [h| |]; cbn [obind] in H'; try discriminate.
    inv H'. apply emit_src in Hi. destruct Hi as (il & fr & ->). cbn. right.
    split; [reflexivity|]. split; [apply solicited_node_is_multicast|].
    apply gsa6_result in Eg. destruct Eg as [Ho | (-> & _)]; [left; exact Ho | right; reflexivity]. }
  destruct (ip_is_unspecified (r_dst r)); [discriminate|].
  destruct (if_medium ifc) eqn:Em.
  - inv H. apply dispatch_size_src in Hin. destruct Hin as (il & fr & ->). left. repeat split.
  - destruct (ing_is_broadcast ifc (r_dst r)); [inv H; apply (Hgiven _ Hin)|].
    destruct (ip_is_multicast (r_dst r)).
    { destruct (ll_multicast ifc (r_dst r)) as [h| |]; cbn [obind] in H; try discriminate. inv H. apply (Hgiven _ Hin). }
    destruct (ing_route ifc (r_dst r)) as [[via|]| |]; cbn [obind] in H; try discriminate; [|inv H; contradiction].
    destruct (negb (ip_is_unicast via)); [discriminate|].
    destruct (neigh_find (if_neigh ifc) via) as [h|]; [inv H; apply (Hgiven _ Hin)|].
    destruct (if_neigh_silent ifc); [inv H; contradiction|].
    destruct via as [t|t].
    + destruct (ing_get_source_address_ipv4 ifc t) as [s|] eqn:Eg; inv H; [|contradiction].
      destruct Hin as [<- | []]. apply (gsa4_own ifc t). exact Eg.
    + apply (Hns t l H Hin).
  - destruct (ing_is_broadcast ifc (r_dst r)); [inv H; apply (Hgiven _ Hin)|].
    destruct (ip_is_multicast (r_dst r)).
    { destruct (ll_multicast ifc (r_dst r)) as [h| |]; cbn [obind] in H; try discriminate. inv H. apply (Hgiven _ Hin). }
    destruct (ing_route ifc (r_dst r)) as [[via|]| |]; cbn [obind] in H; try discriminate; [|inv H; contradiction].
    destruct (negb (ip_is_unicast via)); [discriminate|].
    destruct (neigh_find (if_neigh ifc) via) as [h|]; [inv H; apply (Hgiven _ Hin)|].
    destruct (if_neigh_silent ifc); [inv H; contradiction|].
    destruct via as [t|t]; [inv H; contradiction|].
    apply (Hns t l H Hin).
Qed.

(* ---- dispatch of replies never panics *)

Lemma routes_best_in l x : forall best pl via,
  routes_best l x best = Some (pl, via) ->
  best = Some (pl, via) \/ exists c, In (c, via) l.
Proof.
  induction l as [|[c v] t IH]; intros best pl via H; cbn in H; [left; exact H|].
  destruct (cidr_contains c x).
  - apply IH in H. destruct H as [H | (c' & Hin)]; [|right; exists c'; right; exact Hin].
    destruct best as [[bpl bv]|].
    + destruct (c_plen c >=? bpl); [inv H; right; exists c; left; reflexivity | left; exact H].
    + inv H. right. exists c. left. reflexivity.
  - apply IH in H. destruct H as [H | (c' & Hin)]; [left; exact H | right; exists c'; right; exact Hin].
Qed.

Theorem c10_dispatch_never_panics ifc r :
  wf_routes ifc -> ip_is_unicast (r_dst r) = true -> exists l, ing_dispatch_ip ifc r = Ok l.
Proof.
  intros Hwr Hu. unfold ing_dispatch_ip. rewrite (unicast_not_unspecified _ Hu).
  destruct (if_medium ifc) eqn:Em; [eexists; reflexivity | |].
  all: destruct (ing_is_broadcast ifc (r_dst r)); [eexists; reflexivity|].
  all: rewrite (unicast_not_multicast _ Hu).
  all: assert (Hroute : exists ro, ing_route ifc (r_dst r) = Ok ro /\
                        match ro with Some via => ip_is_unicast via = true | None => True end).
  1,3: unfold ing_route; destruct (ing_in_same_network ifc (r_dst r) || ip_is_broadcast (r_dst r));
       [eexists; split; [reflexivity | exact Hu]|];
       unfold ing_routes_lookup; rewrite Hu; cbn [negb];
       destruct (routes_best (if_routes ifc) (r_dst r) None) as [[pl via]|] eqn:Eb;
       [|eexists; split; [reflexivity | exact I]];
       eexists; split; [reflexivity|];
       apply routes_best_in in Eb; destruct Eb as [Eb | (c & Hin)]; [discriminate|];
       unfold wf_routes in Hwr; rewrite Forall_forall in Hwr; apply (Hwr (c, via)); exact Hin.
  all: destruct Hroute as (ro & -> & Hvia); cbn [obind]; destruct ro as [via|]; [|eexists; reflexivity].
  all: rewrite Hvia; cbn [negb].
  all: destruct (neigh_find (if_neigh ifc) via); [eexists; reflexivity|].
  all: destruct (if_neigh_silent ifc); [eexists; reflexivity|].
  all: destruct via as [t|t].
  - destruct (ing_get_source_address_ipv4 ifc t); eexists; reflexivity.
  - destruct (gsa6_no_panic ifc t (x_unicast_not_unspec6 t Hvia)) as (s & ->). cbn [obind].
    unfold ll_multicast. rewrite Em. cbn [obind]. eexists; reflexivity.
  - eexists; reflexivity.
  - destruct (gsa6_no_panic ifc t (x_unicast_not_unspec6 t Hvia)) as (s & ->). cbn [obind].
    unfold ll_multicast. rewrite Em. cbn [obind]. eexists; reflexivity.
Qed.

(* the whole ingress step — filtering, demultiplexing, reply construction, dispatch of the
   reply — is total: none of the assert!/unreachable! sites of the modelled code is reached *)
Theorem c10_ingress_and_reply_dispatch_never_panic ifc socks p :
  wf_routes ifc ->
  exists res l, ing_process ifc socks p = Ok res /\ ing_ingress_emits_p ifc p res = Ok l.
Proof.
  intros Hwr. destruct (process_total ifc socks p) as (res & Hr). exists res.
  unfold ing_ingress_emits_p. destruct (res_reply res) as [r|] eqn:Erep; [|exists []; split; [exact Hr | reflexivity]].
  destruct (process_spec ifc socks p res Hr) as (_ & Hs). destruct (Hs r Erep) as (_ & _ & Hf).
  assert (Hu : ip_is_unicast (r_dst r) = true).
  { unfold reply_facts in Hf. destruct (p_src p) as [s|s]; destruct (p_dst p) as [d|d]; try contradiction;
      destruct Hf as (F1 & F2 & _); rewrite F1.
    - apply is_unicast_v4_facts in F2. cbn. tauto.
    - exact F2. }
  assert (Hwr' : wf_routes (ifc_learn ifc (ing_neigh_learned p r))).
  { unfold ifc_learn. destruct (ing_neigh_learned p r); exact Hwr. }
  destruct (c10_dispatch_never_panics _ r Hwr' Hu) as (l & Hl). exists l. split; assumption.
Qed.

(* ---- sources of multicast reports *)

Lemma first_link_local_own l a : first_link_local l = Some a ->
  (exists c, In c l /\ c_addr c = V6 a) /\ v6_is_link_local a = true.
Proof.
  induction l as [|c t IH]; cbn; [discriminate|]. destruct (c_addr c) as [b|b] eqn:E.
  - intros H. destruct (IH H) as ((c' & Hin & Hc) & Hl). split; [exists c'; split; [right; exact Hin | exact Hc] | exact Hl].
  - destruct (v6_is_link_local b) eqn:El.
    + intros H. inv H. split; [exists c; split; [left; reflexivity | exact E] | exact El].
    + intros H. destruct (IH H) as ((c' & Hin & Hc) & Hl). split; [exists c'; split; [right; exact Hin | exact Hc] | exact Hl].
Qed.

(* MLD reports: an own link-local address, the unspecified address only when there is none
   (RFC 3810 5.2.13); IGMP reports always carry an own address *)
Theorem c10_multicast_report_src ifc :
  (let s := ing_mld_report_src ifc in
   (own ifc (V6 s) /\ v6_is_link_local s = true) \/ (s = 0 /\ first_link_local (if_addrs ifc) = None)) /\
  (forall a, ing_igmp_report_src ifc = Some a -> own ifc (V4 a)).
Proof.
  split.
  - unfold ing_mld_report_src. destruct (first_link_local (if_addrs ifc)) as [a|] eqn:E.
    + left. apply first_link_local_own in E. exact E.
    + right. split; reflexivity.
  - intros a H. apply ipv4_addr_own. exact H.
Qed.

(* the known finding is real: with no IPv6 address configured an echo request to ff02::1 is
   answered from ::1 *)
Definition ex_ifc_v4only : iface :=
  mkIface MIp HwIp None [mkCidr (V4 167772161) 24] [] false [] [] false 1500 1500 false.   (* 10.0.0.1/24 *)
Definition ex_pkt_ping_all_nodes : packet :=
  mkPacket HwIp None (V6 338288524927261089654018896841347694594) (V6 v6_LINK_LOCAL_ALL_NODES) None
           (UIcmp (IEchoReq 1 8)).

Lemma c10_known_loopback_fallback_refuted :
  exists ifc socks p res r,
    wf_iface ifc /\ ing_process ifc socks p = Ok res /\ res_reply res = Some r /\
    known_loopback_fallback ifc r /\ ~ own ifc (r_src r).
Proof.
  exists ex_ifc_v4only, [], ex_pkt_ping_all_nodes. eexists. eexists.
  split.
  { split; cbn; repeat constructor. }
  split; [vm_compute; reflexivity|]. split; [reflexivity|].
  assert (Hno : ~ own ex_ifc_v4only (V6 v6_LOCALHOST)).
  { intros (c & [<- | []] & Hc). discriminate. }
  split; [|exact Hno]. split; [reflexivity|]. split; [exact Hno | left; reflexivity].
Qed.

(* ================================================================== non-vacuity witnesses *)

(* 10.0.0.1/24 and fe80::1/64 on Ethernet, a TCP listener on :80, a UDP socket on :5000 *)
Definition ex_ifc : iface :=
  mkIface MEth (HwEth 2199023255553) None
    [mkCidr (V4 167772161) 24; mkCidr (V6 338288524927261089654018896841347694593) 64]
    [V4 3758162435] false
    [(mkCidr (V4 0) 0, V4 167772414)]
    [(V4 167772162, HwEth 2199023255554); (V4 167772414, HwEth 2199023255806);
     (V6 338288524927261089654018896841347694594, HwEth 2199023255554)]
    false 1500 1500 false.
Definition ex_socks : list sock := [STcpListen None 80; SUdp None 5000; SIcmp (IbIdent 7)].
Definition ex_pkt (ll : Z) (src dst : ipaddr) (u : upper) : packet := mkPacket (HwEth ll) None src dst None u.
Definition ex_peer4 := V4 167772162.        (* 10.0.0.2 *)
Definition ex_own4 := V4 167772161.         (* 10.0.0.1 *)
Definition ex_bcast4 := V4 167772415.       (* 10.0.0.255 *)
Definition ex_peer6 := V6 338288524927261089654018896841347694594. (* fe80::2 *)
Definition ex_mac := 2199023255553.         (* 02:00:00:00:00:01 *)

Lemma ex_ifc_wf : wf_iface ex_ifc /\ wf_routes ex_ifc.
Proof. split; [split|]; cbn; repeat constructor. Qed.

Lemma c11_examples :
  (* D5: SYN to the subnet broadcast address with a listener on the port: dropped, no RST *)
  ing_process ex_ifc ex_socks (ex_pkt eth_BROADCAST ex_peer4 ex_bcast4 (UTcp 40000 80 CtlSyn false 0)) = Ok res_none /\
  tcp_dst_nonunicast ex_ifc ex_bcast4 /\
  (* the same SYN to our unicast address reaches the listener *)
  ing_process ex_ifc ex_socks (ex_pkt ex_mac ex_peer4 ex_own4 (UTcp 40000 80 CtlSyn false 0)) = Ok (mkRes [0%nat] None) /\
  (* to a closed port: RST from our address *)
  ing_process ex_ifc ex_socks (ex_pkt ex_mac ex_peer4 ex_own4 (UTcp 40000 81 CtlSyn false 0))
    = Ok (mkRes [] (Some (mkReply KRst ex_own4 ex_peer4 40))) /\
  (* a RST to a closed port is not answered *)
  ing_process ex_ifc ex_socks (ex_pkt ex_mac ex_peer4 ex_own4 (UTcp 40000 81 CtlRst false 0)) = Ok res_none /\
  (* UDP: bound port delivered, closed port answered with port unreachable, broadcast not answered *)
  ing_process ex_ifc ex_socks (ex_pkt ex_mac ex_peer4 ex_own4 (UUdp 40000 5000 10)) = Ok (mkRes [1%nat] None) /\
  ing_process ex_ifc ex_socks (ex_pkt ex_mac ex_peer4 ex_own4 (UUdp 40000 9 10))
    = Ok (mkRes [] (Some (mkReply KPortUnreach ex_own4 ex_peer4 66))) /\
  ing_process ex_ifc ex_socks (ex_pkt eth_BROADCAST ex_peer4 ex_bcast4 (UUdp 40000 9 10)) = Ok res_none /\
  (* D12: UDP to ff02::1 with nobody listening is not answered; an echo request is *)
  ing_process ex_ifc ex_socks (ex_pkt 56294136348673 ex_peer6 (V6 v6_LINK_LOCAL_ALL_NODES) (UUdp 40000 9 10)) = Ok res_none /\
  ing_process ex_ifc ex_socks (ex_pkt 56294136348673 ex_peer6 (V6 v6_LINK_LOCAL_ALL_NODES) (UIcmp (IEchoReq 7 8)))
    = Ok (mkRes [2%nat] (Some (mkReply KEchoReply (V6 338288524927261089654018896841347694593) ex_peer6 56))) /\
  (* a frame for another station, a packet for a foreign address: nothing *)
  ing_process ex_ifc ex_socks (ex_pkt 2199023255705 ex_peer4 ex_own4 (UUdp 40000 5000 10)) = Ok res_none /\
  ~ addressed_to_us ex_ifc (ex_pkt 2199023255705 ex_peer4 ex_own4 (UUdp 40000 5000 10)) /\
  ing_process ex_ifc ex_socks (ex_pkt ex_mac ex_peer4 (V4 167772238) (UUdp 40000 5000 10)) = Ok res_none /\
  (* an ICMP error about a closed port is not answered *)
  ing_process ex_ifc ex_socks (ex_pkt ex_mac ex_peer4 ex_own4 (UIcmp (IErr 3 (QUdp 9) 48))) = Ok res_none /\
  packet_is_error (ex_pkt ex_mac ex_peer4 ex_own4 (UIcmp (IErr 3 (QUdp 9) 48))).
Proof.
  split; [vm_compute; reflexivity|].
  split.
  { left. right. exists 167772161, 24. split; [left; reflexivity|].
    split; [discriminate|]. split; [discriminate | vm_compute; reflexivity]. }
  do 9 (split; [vm_compute; reflexivity|]).
  split.
  { intros ((d & Hd & Hc) & _). unfold ex_pkt in Hd. cbn [p_ll_dst] in Hd. injection Hd as <-.
    destruct Hc as [Hc | [Hc | Hc]]; [discriminate | vm_compute in Hc; discriminate | discriminate]. }
  split; [vm_compute; reflexivity|].
  split; [vm_compute; reflexivity|].
  exact I.
Qed.

Definition ex_ifc576 : iface :=
  mkIface MIp HwIp None [mkCidr (V4 167772161) 24] [] false [] [] false 576 1500 false.

Lemma c10_examples :
  (* the port-unreachable reply above goes out to the neighbor's address, unfragmented *)
  ing_dispatch_ip ex_ifc (mkReply KPortUnreach ex_own4 ex_peer4 66)
    = Ok [EmIp KPortUnreach ex_own4 ex_peer4 (HwEth 2199023255554) 66 false] /\
  (* a neighbor that is not in the cache: ARP request from our address *)
  ing_dispatch_ip ex_ifc (mkReply KUdp ex_own4 (V4 167772238) 100) = Ok [EmArpReq 167772161 167772238] /\
  (* IP MTU 576: an IPv4 datagram of 1200 octets starts with a fragment of 572 (552 = 69 * 8 payload
     octets); one of 1600 octets exceeds the fragmentation buffer and is dropped; IPv6 is never fragmented *)
  ing_dispatch_size ex_ifc576 (mkReply KUdp ex_own4 ex_peer4 1200) HwIp = [EmIp KUdp ex_own4 ex_peer4 HwIp 572 true] /\
  ing_dispatch_size ex_ifc576 (mkReply KUdp ex_own4 ex_peer4 1600) HwIp = [] /\
  ing_dispatch_size ex_ifc576 (mkReply KUdp ex_own4 ex_peer4 576) HwIp = [EmIp KUdp ex_own4 ex_peer4 HwIp 576 false] /\
  ing_dispatch_size ex_ifc (mkReply KUdp (V6 1) ex_peer6 1600) HwIp = [] /\
  (* source selection: the wildcard UDP socket sends from 10.0.0.1 / fe80::1 *)
  ing_udp_send_packet ex_ifc (SUdp None 5000) ex_peer4 10 = Ok (Some (mkReply KUdp ex_own4 ex_peer4 38)) /\
  ing_udp_send_packet ex_ifc (SUdp None 5000) ex_peer6 10
    = Ok (Some (mkReply KUdp (V6 338288524927261089654018896841347694593) ex_peer6 58)) /\
  ing_mld_report_src ex_ifc = 338288524927261089654018896841347694593.
Proof. do 8 (split; [vm_compute; reflexivity|]). vm_compute; reflexivity. Qed.
