(* C04, layer 5b: unsynchronised sockets (CLOSED / LISTEN / SYN-SENT before the peer's SYN):
   segments leave the receive side empty; the peer's SYN establishes the receiver invariant for any
   stream; `process_tcp` (iface_tcp_ingress) around `process`; reset, listen, connect, close, abort,
   send and the setters. *)
From SV Require Import Lib.Base Gen.Consts.
From SV Require Import Model.Seq32 Model.Assembler Model.TcpBuf Model.TcpTypes Model.Tcp.
From SV Require Import Proofs.AssemblerProofs Proofs.TcpRecvBase Proofs.TcpRecvWindow
  Proofs.TcpRecvPayload Proofs.TcpRecvInv Proofs.TcpRecvProcess Proofs.TcpRecvStep.

(* ---------------------------------------------------------------------------------------- *)
(* reset and the calls built on it                                                           *)
(* ---------------------------------------------------------------------------------------- *)

Lemma rb_wf_of_synced S F have irs c s :
  rx_synced S F have irs c s -> rb_wf (s_rx_buffer s) /\ rb_cap (s_rx_buffer s) <= p30.
Proof. intros ((Hwf & Hcap & _) & _). split; assumption. Qed.

Lemma rb_wf_of_unsynced s :
  rx_unsynced s -> rb_wf (s_rx_buffer s) /\ rb_cap (s_rx_buffer s) <= p30.
Proof. intros (Hwf & Hcap & _). split; assumption. Qed.

Lemma tcp_state_eqb_true a b : tcp_state_eqb a b = true -> a = b.
Proof. destruct a, b; cbn; intros H; try discriminate; reflexivity. Qed.

Lemma listen_unsynced s ep s' :
  rb_wf (s_rx_buffer s) -> rb_cap (s_rx_buffer s) <= p30 ->
  tcp_listen s ep = Ok s' -> (s' = s /\ s_state s = Listen) \/ rx_unsynced s'.
Proof.
  intros Hwf Hcap H. unfold tcp_listen in H. des_all H; inversion H; subst s'; clear H.
  { left. split; [reflexivity|].
    match goal with E : (_ && _)%bool = true |- _ => apply andb_prop in E; destruct E as (E & _) end.
    apply tcp_state_eqb_true. assumption. }
  right. pose proof (reset_unsynced s Hwf Hcap) as Hr. revert Hr. generalize (tcp_reset s). intros s0 Hr.
  apply (unsynced_state_change s0); [| |exact Hr].
  - unfold rxv_eq. rproj. repeat split; reflexivity.
  - rproj. exact I.
Qed.

Lemma connect_unsynced cx s ra rp ep s' :
  rb_wf (s_rx_buffer s) -> rb_cap (s_rx_buffer s) <= p30 ->
  tcp_connect cx s ra rp ep = Ok s' -> rx_unsynced s'.
Proof.
  intros Hwf Hcap H. unfold tcp_connect in H. des_all H.
  all: cbn [obind] in H; inversion H; subst s'; clear H.
  all: pose proof (reset_unsynced s Hwf Hcap) as Hr; revert Hr; generalize (tcp_reset s); intros s0 Hr.
  all: (apply (unsynced_state_change s0); [| |exact Hr];
        [unfold rxv_eq; rproj; repeat split; reflexivity | rproj; exact I]).
Qed.

Lemma close_view s : rxv_eq (tcp_close s) s.
Proof. unfold tcp_close. destruct (s_state s); unfold rxv_eq; rproj; repeat split; reflexivity. Qed.

Lemma abort_view s : rxv_eq (tcp_abort s) s /\ s_state (tcp_abort s) = Closed.
Proof. unfold tcp_abort. split; [unfold rxv_eq; rproj; repeat split; reflexivity | reflexivity]. Qed.

Lemma send_slice_frame s data s' n : tcp_send_slice s data = Ok (s', n) -> frame s' s.
Proof.
  unfold tcp_send_slice. intros H. des_all H; inversion H; subst; frame_solve.
Qed.

Lemma set_keep_alive_frame s d : frame (tcp_set_keep_alive s d) s.
Proof. unfold tcp_set_keep_alive. destruct (is_some d); frame_solve. Qed.

Lemma set_hop_limit_frame s h s' : tcp_set_hop_limit s h = Ok s' -> frame s' s.
Proof. unfold tcp_set_hop_limit. intros H. des_all H; inversion H; subst; frame_solve. Qed.

(* ---------------------------------------------------------------------------------------- *)
(* segments on an unsynchronised socket                                                      *)
(* ---------------------------------------------------------------------------------------- *)

Lemma accepts_not_closed s ip r : tcp_accepts s ip r = true -> s_state s <> Closed.
Proof.
  unfold tcp_accepts. destruct (s_state s); cbn [tcp_state_eqb]; try discriminate; congruence.
Qed.

Lemma ack_check_unsynced cx s ip r t s1 rep :
  s_state s = Listen \/ s_state s = SynSent ->
  tcp_process_ack_check cx s ip r = Ok (Ret t s1 rep) ->
  s1 = s /\ match rep with Some p => r_control (snd p) = CRst | None => True end.
Proof.
  intros Hst H. unfold tcp_process_ack_check in H.
  destruct Hst as [E|E]; rewrite E in H; des_all H.
  all: try (apply obind_ok_inv in H; destruct H as (p & Hp & H); apply rst_reply_control in Hp).
  all: inversion H; subst; split; [reflexivity | first [exact I | assumption]].
Qed.

Lemma window_unsynced cx s ip r :
  s_state s = Listen \/ s_state s = SynSent ->
  tcp_process_window cx s ip r = Ok (Cont 128 (s, [], 0)).
Proof. intros [E|E]; unfold tcp_process_window; rewrite E; reflexivity. Qed.

Lemma quash_syn s r : tcp_process_quash s r = CSyn -> r_control r = CSyn.
Proof.
  unfold tcp_process_quash. destruct (r_control r); cbn [quash_psh control_eqb andb]; try discriminate;
    try reflexivity.
  destruct (_ || _); discriminate.
Qed.

(* what the SYN arms of the table do to the receive view *)
Definition rxv_syn (s3 s : socket) (r : tcp_repr) : Prop :=
  s_assembler s3 = s_assembler s /\ s_rx_buffer s3 = s_rx_buffer s /\
  s_rx_fin_received s3 = s_rx_fin_received s /\
  s_remote_seq_no s3 = seq_add (r_seq_number r) 1 /\
  (s_remote_win_shift s3 = s_remote_win_shift s \/ s_remote_win_shift s3 = 0) /\
  ((s_remote_last_ack s3 = None /\ s_remote_last_win s3 = 0) \/
   (s_remote_last_ack s3 = Some (r_seq_number r) /\ s_remote_last_win s3 = s_remote_last_win s)) /\
  (s_state s3 = SynReceived \/ s_state s3 = Established).

Lemma transition_unsynced cx s ip r ctl al aof res :
  s_state s = Listen \/ s_state s = SynSent ->
  tcp_process_transition cx s ip r ctl al aof = Ok res ->
  match res with
  | Cont t s3 => ctl = CSyn /\ rxv_syn s3 s r
  | Ret t s3 rep => rep = None /\ rxv_eq s3 s /\ (s_state s3 = s_state s \/ s_state s3 = Closed)
  end.
Proof.
  intros Hst H. unfold tcp_process_transition in H.
  destruct Hst as [E|E]; rewrite E in H; destruct ctl; cbv beta iota in H; des_all H;
    inversion H; subst; clear H.
  all: try (split; [reflexivity|]; split; [unfold rxv_eq; rproj; repeat split; reflexivity|];
            rproj; first [left; reflexivity | right; reflexivity]).
  all: split; [reflexivity|].
  all: pose proof (apply_mss_frame s r) as ((M1 & M2 & M3 & M4 & M5 & M6 & M7) & M8).
  all: unfold rxv_syn; rproj.
  all: repeat match goal with
       | |- context [if ?c then _ else _] => destruct c
       end; rproj.
  all: rewrite ?M1, ?M2, ?M3, ?M6, ?M7.
  all: repeat split; try reflexivity.
  all: try (left; reflexivity); try (right; reflexivity).
  all: try (left; split; reflexivity); try (right; split; reflexivity).
Qed.

Section Sync.
  Variable S : Z -> Z.
  Variable F : option Z.
  Hypothesis F_nonneg : forall f, F = Some f -> 0 <= f.

  Definition no_ack_reply (rep : option packet) : Prop :=
    match rep with Some p => r_control (snd p) = CRst | None => True end.

  Theorem process_unsynced s cx ip r s' rep tags :
    rx_unsynced s -> 0 <= r_seq_number r < 4294967296 ->
    tcp_process cx s ip r = Ok (s', rep, tags) ->
    no_ack_reply rep /\ s_rx_buffer s' = s_rx_buffer s /\ s_rx_fin_received s' = false /\
    ((rx_unsynced s' /\ match s_state s' with SynReceived | Established => False | _ => True end) \/
     (r_control r = CSyn /\ (s_state s' = SynReceived \/ s_state s' = Established) /\
      rx_synced S F (fun _ => False) (r_seq_number r) 0 s')).
  Proof.
    intros Hun Hsq H. pose proof Hun as (Hwf & Hcap & Hlen & Hasm & Hfin & (Hm1 & Hm2 & Hm3) & Hst).
    unfold tcp_process in H. destruct (tcp_accepts s ip r) eqn:Hacc; cbn [negb] in H; [|discriminate].
    pose proof (accepts_not_closed _ _ _ Hacc) as Hnc.
    assert (Hls : s_state s = Listen \/ s_state s = SynSent).
    { destruct (s_state s); try contradiction; try congruence; [left | right]; reflexivity. }
    apply obind_ok_inv in H. destruct H as (p1 & Hp1 & H).
    destruct p1 as [t1 []|t1 s1 rep1].
    2:{ inversion H; subst. destruct (ack_check_unsynced _ _ _ _ _ _ _ Hls Hp1) as (-> & Hrep).
        split; [exact Hrep|]. split; [reflexivity|]. split; [exact Hfin|]. left. split; [exact Hun|].
        destruct Hls as [-> | ->]; exact I. }
    rewrite (window_unsynced cx s ip r Hls) in H. cbn [obind] in H.
    apply obind_ok_inv in H. destruct H as (((al & aof) & aall) & _ & H).
    set (ctl := tcp_process_quash s r) in *.
    apply obind_ok_inv in H. destruct H as (p3 & Hp3 & H).
    pose proof (transition_unsynced cx s ip r ctl al aof p3 Hls Hp3) as Htr.
    destruct p3 as [t3 s3|t3 s3 rep3].
    2:{ inversion H; subst. destruct Htr as (-> & He & Hst3).
        split; [exact I|]. split; [destruct He as (_ & -> & _); reflexivity|].
        split; [destruct He as (_ & _ & -> & _); exact Hfin|]. left. split.
        - eapply unsynced_state_change; [exact He| |exact Hun].
          destruct Hst3 as [-> | ->]; [destruct Hls as [-> | ->]; exact I | exact I].
        - destruct Hst3 as [-> | ->]; [destruct Hls as [-> | ->]; exact I | exact I]. }
    destruct Htr as (Hctl & (Y1 & Y2 & Y3 & Y4 & Y5 & Y6 & Y7)).
    pose proof (quash_syn s r Hctl) as Hrc.
    apply obind_ok_inv in H. destruct H as ((s4 & iwu) & Hp4 & H).
    apply obind_ok_inv in H. destruct H as ((s5 & t5) & Hp5 & H).
    pose proof (update_remote_frame _ _ _ _ _ _ Hp4) as Hf4.
    pose proof (dup_ack_frame _ _ _ _ _ _ _ Hp5) as Hf5.
    set (s5' := match r_timestamp r with Some (tsval, _) => upd_last_remote_tsval s5 tsval | None => s5 end) in *.
    pose proof (tsval_frame s5 r) as Hf5'. fold s5' in Hf5'.
    pose proof (timers_frame cx s5' al aall) as Hf6.
    destruct (tcp_process_timers cx s5' al aall) as (s6, t6). cbn [fst] in Hf6.
    pose proof (zwp_frame cx s6 al) as Hf7.
    destruct (tcp_process_zwp cx s6 al) as (s7, t7). cbn [fst] in Hf7.
    assert (Hf73 : frame s7 s3).
    { eapply frame_trans; [exact Hf7|]. eapply frame_trans; [exact Hf6|].
      eapply frame_trans; [exact Hf5'|]. eapply frame_trans; [exact Hf5 | exact Hf4]. }
    rewrite payload_nil in H. cbn [obind] in H. inversion H; subst s' rep tags; clear H.
    destruct Hf73 as ((V1 & V2 & V3 & V4 & V5 & V6 & V7) & Vst).
    split; [exact I|]. split; [congruence|]. split; [congruence|]. right. split; [exact Hrc|].
    split; [rewrite Vst; exact Y7|].
    (* the invariant holds for any stream: nothing has been received yet *)
    unfold rx_synced.
    assert (Hsh : 0 <= s_remote_win_shift s7) by (rewrite V7; destruct Y5 as [-> | ->]; lia).
    assert (Hlw : 0 <= s_remote_last_win s7) by (rewrite V6; destruct Y6 as [(_ & ->) | (_ & ->)]; lia).
    assert (Hlwb : lwb s7 <= rb_cap (s_rx_buffer s7)).
    { unfold lwb in *. rewrite V6, V7, V2, Y2.
      destruct Y6 as [(_ & ->) | (_ & ->)]; [unfold shl; pose proof Hwf as (? & _); lia|].
      destruct Y5 as [-> | ->]; [exact Hm3|]. rewrite shl_0.
      eapply Z.le_trans; [apply (shl_ge _ _ Hm1 Hm2) | exact Hm3]. }
    split.
    { rewrite V2, V1, Y2, Y1, Hasm. apply buf_inv_empty; assumption. }
    split.
    { unfold seq_ok, finz. rewrite V3, V4, V2, Y3, Y4, Y2, Hfin. cbn [b2z].
      split; [rewrite seq_add_as_norm; f_equal; lia | discriminate]. }
    split; [split; [exact Hlw|]; split; [exact Hsh | exact Hlwb]|].
    split.
    - unfold win_ok, wsq, finz. rewrite V5, V3, V2, Y3, Y2, Hfin, Hlen. cbn [b2z].
      destruct Y6 as [(-> & _) | (-> & _)]; [exact I|].
      exists (-1). split; [rewrite seq_norm_small by lia; f_equal; lia|].
      pose proof (shl_nonneg _ _ Hlw Hsh) as H0. fold (lwb s7) in H0.
      rewrite V2, Y2 in Hlwb. lia.
    - unfold st_ok. rewrite Vst, V2, V1, V3, Y2, Y1, Y3.
      destruct Y7 as [-> | ->]; [|exact I]. repeat split; assumption.
  Qed.

  (* --- process_tcp around process --- *)
  Lemma ingress_cases cx s ip r s' rep tags :
    iface_tcp_ingress cx s ip r = Ok (s', rep, tags) ->
    (s' = s /\ no_ack_reply rep) \/ tcp_process cx s ip r = Ok (s', rep, tags).
  Proof.
    unfold iface_tcp_ingress. intros H. des_all H.
    all: try (inversion H; subst; left; split; [reflexivity | exact I]).
    - right. exact H.
    - apply obind_ok_inv in H. destruct H as (p & Hp & H). apply rst_reply_control in Hp.
      inversion H; subst. left. split; [reflexivity | exact Hp].
  Qed.
End Sync.
