(* C02 (liveness half), close: NON-VACUITY of orderly_close_completes (Proofs/TcpProgressCl7.v).
   [close_startb] decides [close_start] on a concrete state (sound: [close_startb_sound]); the Example is a run
   from net_init - handshake, 5 octets, close() of A, the FIN is LOST (NDrop), every frame on the channels
   is dropped - followed by a reliable schedule on which the FIN's retransmission timer fires, the close
   completes as the theorem says and both sockets end CLOSED with their tuples released.
   vm_compute is used only in the concrete Example. *)
From SV Require Import Lib.Base Gen.Consts.
From SV Require Import Model.Seq32 Model.Assembler Model.TcpBuf Model.TcpTypes Model.Tcp Model.TcpNet.
From SV Require Proofs.TcpRecvBase Proofs.TcpRecvInv Proofs.TcpRecvProcess Proofs.TcpRecvDispatch.
From SV Require Import Proofs.TcpSendBase Proofs.TcpLiveBase Proofs.TcpLiveProofs Proofs.TcpLiveMore
  Proofs.TcpLiveProgress.
From SV Require Import Proofs.TcpNetBase.
From SV Require Import Proofs.TcpProgressBase Proofs.TcpProgressFrame Proofs.TcpProgressCtl Proofs.TcpProgressRecv
  Proofs.TcpProgressSend Proofs.TcpProgressNet Proofs.TcpProgressData Proofs.TcpProgressAck
  Proofs.TcpProgressAll Proofs.TcpProgressSafe Proofs.TcpProgressHs Proofs.TcpProgressHsD
  Proofs.TcpProgressExample Proofs.TcpProgressWitness Proofs.TcpProgressSafeWitness Proofs.TcpProgressZwDup
  Proofs.TcpProgressZw1 Proofs.TcpProgressZw2 Proofs.TcpProgressZwWitness
  Proofs.TcpProgressCl1 Proofs.TcpProgressCl2 Proofs.TcpProgressCl3 Proofs.TcpProgressCl4 Proofs.TcpProgressCl5
  Proofs.TcpProgressCl6 Proofs.TcpProgressCl7.

Module RB := TcpRecvBase.
Notation sz st z := (net_sock st z).

(* ---------------------------------------------------------------------------------------- *)
(* deciding the view                                                                         *)
(* ---------------------------------------------------------------------------------------- *)
Definition tuple_eqb (a b : tuple) : bool :=
  (tu_local_addr a =? tu_local_addr b) && (tu_local_port a =? tu_local_port b) &&
  (tu_remote_addr a =? tu_remote_addr b) && (tu_remote_port a =? tu_remote_port b).

Lemma tuple_eqb_eq a b : tuple_eqb a b = true -> a = b.
Proof.
  unfold tuple_eqb. intros H. apply andb_true_iff in H. destruct H as (H & H4).
  apply andb_true_iff in H. destruct H as (H & H3). apply andb_true_iff in H. destruct H as (H1 & H2).
  apply Z.eqb_eq in H1, H2, H3, H4. destruct a, b; cbn in *; congruence.
Qed.

Definition timer_eqb (a b : timer) : bool :=
  match a, b with
  | TIdle x, TIdle y => opt_eqb x y
  | TRetransmit x, TRetransmit y => x =? y
  | TFastRetransmit, TFastRetransmit => true
  | TZeroWindowProbe x d, TZeroWindowProbe y e => (x =? y) && (d =? e)
  | TClose x, TClose y => x =? y
  | _, _ => false
  end.

Lemma opt_eqb_eq a b : opt_eqb a b = true -> a = b.
Proof. destruct a, b; cbn; try discriminate; try reflexivity. intros H. apply Z.eqb_eq in H. congruence. Qed.

Lemma timer_eqb_eq a b : timer_eqb a b = true -> a = b.
Proof.
  destruct a, b; cbn; try discriminate; try reflexivity; intros H.
  - apply opt_eqb_eq in H. congruence.
  - apply Z.eqb_eq in H. congruence.
  - apply andb_true_iff in H. destruct H as (H1 & H2). apply Z.eqb_eq in H1, H2. congruence.
  - apply Z.eqb_eq in H. congruence.
Qed.

Definition sb_wfb (r : ring) : bool :=
  (0 <=? rb_len r) && (rb_len r <=? rb_cap r) && (l_len (rb_store r) =? rb_cap r) &&
  (0 <=? rb_read_at r) && ((rb_cap r =? 0) || (rb_read_at r <? rb_cap r)).

Lemma sb_wfb_sound r : sb_wfb r = true -> TcpSendBase.rb_wf r.
Proof.
  unfold sb_wfb, TcpSendBase.rb_wf. intros H.
  repeat (apply andb_true_iff in H; let X := fresh "B" in destruct H as (H & X)).
  apply orb_true_iff in B. repeat split; lia.
Qed.

Lemma rb_wfb_sound' r : rb_wfb r = true -> RB.rb_wf r.
Proof.
  unfold rb_wfb, RB.rb_wf. intros H.
  repeat (apply andb_true_iff in H; let X := fresh "B" in destruct H as (H & X)).
  apply orb_true_iff in B. repeat split; try lia.
  all: destruct B as [B | B]; [left; lia | right; apply andb_true_iff in B; lia].
Qed.

Definition is_none {A} (o : option A) : bool := match o with None => true | Some _ => false end.

Definition ctl_sockb (cx : ctx) (s : socket) (t : tuple) : bool :=
  match s_tuple s with Some t' => tuple_eqb t' t | None => false end &&
  (tu_local_addr t =? cx_addr cx) && is_none (s_timeout s) && is_none (s_keep_alive s) &&
  negb (s_pending_fast_retransmit s) && negb (s_syn_unacked_in_fin_wait s) &&
  (rb_len (s_tx_buffer s) =? 0) && sb_wfb (s_tx_buffer s) && (0 <=? s_remote_win_len s) &&
  (52 <? cx_ip_mtu cx) && (0 <=? s_local_seq_no s) && (s_local_seq_no s <? 4294967296) &&
  (0 <=? s_remote_win_shift s) && (s_remote_win_shift s <=? 14) && rb_wfb (s_rx_buffer s) &&
  (tcp_RTTE_MIN_RTO <=? rt_rto (s_rtte s)).

Lemma ctl_sockb_sound cx s t : ctl_sockb cx s t = true -> ctl_sock cx s t.
Proof.
  unfold ctl_sockb. intros H.
  repeat (apply andb_true_iff in H; let X := fresh "B" in destruct H as (H & X)).
  destruct (s_tuple s) as [t'|] eqn:Et; [|discriminate]. apply tuple_eqb_eq in H. subst t'.
  constructor; try lia.
  - exact Et.
  - destruct (s_timeout s); [discriminate | reflexivity].
  - destruct (s_keep_alive s); [discriminate | reflexivity].
  - destruct (s_pending_fast_retransmit s); [discriminate | reflexivity].
  - destruct (s_syn_unacked_in_fin_wait s); [discriminate | reflexivity].
  - apply sb_wfb_sound. assumption.
  - apply rb_wfb_sound'. assumption.
Qed.

Definition gviewb (cx : ctx) (s : socket) (t : tuple) (stt : tcp_state) (una nxt ws : Z) (tm : timer) (la : Z)
           (M : option Z) : bool :=
  ctl_sockb cx s t && tcp_state_eqb (s_state s) stt && (s_local_seq_no s =? una) && (s_remote_last_seq s =? nxt) &&
  (tcp_window_start s =? ws) && (match s_ack_delay_timer s with ADIdle => true | _ => false end) &&
  (rb_len (s_rx_buffer s) =? 0) && (match tcp_window_to_update s with Ok false => true | _ => false end) &&
  timer_eqb (s_timer s) tm && opt_eqb (s_remote_last_ack s) (Some la) && opt_eqb (rt_max_seq_sent (s_rtte s)) M.

Lemma gviewb_sound cx s t stt una nxt ws tm la M :
  gviewb cx s t stt una nxt ws tm la M = true -> gview cx s t stt una nxt ws tm la M.
Proof.
  unfold gviewb. remember (ctl_sockb cx s t) as c0 eqn:Ec. intros H.
  repeat (apply andb_true_iff in H; let X := fresh "B" in destruct H as (H & X)).
  subst c0.
  split; [|split; [apply timer_eqb_eq; assumption|]; split; apply opt_eqb_eq; assumption].
  constructor; try (apply Z.eqb_eq; assumption).
  - apply ctl_sockb_sound. exact H.
  - apply tcp_state_eqb_eq. assumption.
  - destruct (s_ack_delay_timer s); try discriminate. reflexivity.
  - destruct (tcp_window_to_update s) as [[|]|?|]; try discriminate. reflexivity.
Qed.

Definition mlimb (M : option Z) (U : Z) : bool :=
  match M with Some m => (m =? seq_add U 1) || seq_gt (seq_add U 1) m | None => true end.

Lemma mlimb_sound M U : mlimb M U = true -> mlim M U.
Proof.
  unfold mlimb, mlim. destruct M as [m|]; [|auto]. intros H. apply orb_true_iff in H.
  destruct H as [H | H]; [left; apply Z.eqb_eq; exact H | right; exact H].
Qed.

Definition ntrkb (fa : fair_aux) (z : side) : bool :=
  forallb (fun o => match o with Some _ => false | None => true end) (fa_dl fa z).

Lemma ntrkb_sound fa z : ntrkb fa z = true -> ntrk fa z.
Proof.
  unfold ntrkb, ntrk. intros H j t Hj. rewrite forallb_forall in H.
  specialize (H _ (nth_error_In _ _ Hj)). discriminate.
Qed.

Definition tuple_nzb (t : tuple) : bool :=
  negb (tu_local_addr t =? 0) && negb (tu_remote_addr t =? 0) && negb (tu_local_port t =? 0) && negb (tu_remote_port t =? 0).

Lemma tuple_nzb_sound t : tuple_nzb t = true -> tuple_nz t.
Proof.
  unfold tuple_nzb, tuple_nz. intros H.
  repeat (apply andb_true_iff in H; let X := fresh "B" in destruct H as (H & X)).
  repeat split; apply Z.eqb_neq; apply negb_true_iff; assumption.
Qed.

(* ---------------------------------------------------------------------------------------- *)
(* deciding close_start; the parameters are read off the state                               *)
(* ---------------------------------------------------------------------------------------- *)
Definition cl_X (st : net) : Z := s_local_seq_no (sz st SA).
Definition cl_Y (st : net) : Z := s_local_seq_no (sz st SB).
Definition cl_MA (st : net) : option Z := rt_max_seq_sent (s_rtte (sz st SA)).
Definition cl_MB (st : net) : option Z := rt_max_seq_sent (s_rtte (sz st SB)).
Definition cl_dk (st : net) : Z := net_now st SB - net_now st SA.

Definition close_startb (tA : tuple) (T0 : Z) (fa : fair_aux) (st : net) : bool :=
  let X := cl_X st in let Y := cl_Y st in
  opts_okb st && ntrkb fa SA && ntrkb fa SB && (net_now st SA <=? T0) &&
  gviewb (cxz st SB) (sz st SB) (mirror tA) Established Y Y X (TIdle None) X (cl_MB st) &&
  mlimb (cl_MA st) X &&
  (gviewb (cxz st SA) (sz st SA) tA FinWait1 X X Y (TIdle None) Y (cl_MA st) ||
   match s_timer (sz st SA) with
   | TRetransmit e => gviewb (cxz st SA) (sz st SA) tA FinWait1 X (seq_add X 1) Y (TRetransmit e) Y (cl_MA st) && (e <=? T0)
   | _ => false
   end) &&
  tuple_nzb tA && (0 <=? X) && (X <? 4294967296) && (0 <=? Y) && (Y <? 4294967296) &&
  match cl_MB st with Some m => negb (seq_gt m Y) | None => true end && mlimb (cl_MB st) Y.

Lemma close_startb_sound tA T0 Da fa st :
  NI st -> dl_sync Da fa st -> close_startb tA T0 fa st = true ->
  close_start tA (cl_X st) (cl_Y st) (cl_MA st) (cl_MB st) Da (cl_dk st) T0 fa st /\
  tuple_nz tA /\ 0 <= cl_X st < 4294967296 /\ 0 <= cl_Y st < 4294967296 /\
  match cl_MB st with Some m => seq_gt m (cl_Y st) = false | None => True end /\ mlim (cl_MB st) (cl_Y st).
Proof.
  intros HN Hsy H. unfold close_startb in H. cbv zeta in H.
  repeat (apply andb_true_iff in H; let X := fresh "B" in destruct H as (H & X)).
  split.
  - split; [split; [exact HN|]; split; [apply opts_okb_sound; exact H|]; split; [exact Hsy | reflexivity]|].
    split; [apply ntrkb_sound; assumption|]. split; [apply ntrkb_sound; assumption|]. split; [lia|].
    split; [apply gviewb_sound; assumption|]. split; [apply mlimb_sound; assumption|].
    apply orb_true_iff in B6. destruct B6 as [G | G]; [left; apply gviewb_sound; exact G|].
    destruct (s_timer (sz st SA)) as [k|e| |e d|e]; try discriminate.
    apply andb_true_iff in G. destruct G as (G & He). right. exists e. split; [apply gviewb_sound; exact G | lia].
  - split; [apply tuple_nzb_sound; assumption|]. split; [lia|]. split; [lia|].
    split; [|apply mlimb_sound; assumption].
    destruct (cl_MB st) as [m|]; [|exact I]. apply negb_true_iff. assumption.
Qed.

Definition cl_evb (ev : net_event) : bool :=
  match ev with NSend SB _ | NClose SB => false | _ => true end.

Lemma cl_evb_sound evs : forallb cl_evb evs = true -> Forall (cl_ev SA false) evs.
Proof.
  induction evs as [|ev r IH]; cbn [forallb]; intros H; [constructor|].
  apply andb_true_iff in H. destruct H as (H1 & H2). constructor; [|exact (IH H2)].
  destruct ev as [| | | | |  | z d | | z]; cbn [cl_ev cl_evb side_other] in *; try exact I; destruct z; try discriminate; intros X; discriminate.
Qed.

(* the bookkeeping stays in step with the channels along a fair run *)
Lemma dl_sync_run Dt Da : forall evs fa st st',
  dl_sync Da fa st -> fair_run Dt Da fa st evs -> net_run st evs = Ok st' -> dl_sync Da (fa_run Dt Da fa st evs) st'.
Proof.
  induction evs as [|ev r IH]; intros fa st st' Hsy Hf Hr; cbn [net_run] in Hr.
  - inversion Hr; subst. exact Hsy.
  - apply obind_ok in Hr. destruct Hr as (st1 & Hs & Hr). cbn [fair_run fa_run] in *. rewrite Hs in *.
    destruct Hf as (Hev & Hf). exact (IH _ _ _ (fa_after_sync Dt Da _ _ _ _ Hsy Hev Hs) Hf Hr).
Qed.

(* ---------------------------------------------------------------------------------------- *)
(* the check and its packaging                                                               *)
(* ---------------------------------------------------------------------------------------- *)
Definition sock_closedb (s : socket) : bool := tcp_state_eqb (s_state s) Closed && is_none (s_tuple s).

Definition close_check (ca cb : ep_config) (pre0 evsA evs1 evs2 : list net_event) (Dt Da T0 : Z) : bool :=
  match net_init ca cb with
  | Ok st0 =>
      match net_run st0 pre0 with
      | Ok st_r =>
          let all := evsA ++ evs1 ++ NClose SB :: evs2 in
          opts_okb st_r && fair_runb Dt Da (fa_init Dt Da st_r) st_r all &&
          once_runb Dt Da (fa_init Dt Da st_r) st_r all && forallb cl_evb evs1 &&
          (0 <=? Dt) && (0 <=? Da) && (2 * Dt <? tcp_RTTE_MIN_RTO * 1000) &&
          match net_run st_r evsA with
          | Ok st_s =>
              match s_tuple (sz st_s SA) with
              | Some tA =>
                  close_startb tA T0 (fa_run Dt Da (fa_init Dt Da st_r) st_r evsA) st_s &&
                  match net_run st_s evs1 with
                  | Ok st_m =>
                      (T0 + 2 * Dt <? net_now st_m SA) &&
                      match net_run st_m (NClose SB :: evs2) with
                      | Ok st' => net_now st_m SA + 3 * Dt + tcp_CLOSE_DELAY <? net_now st' SA
                      | _ => false
                      end
                  | _ => false
                  end
              | None => false
              end
          | _ => false
          end
      | _ => false
      end
  | _ => false
  end.

Lemma close_package ca cb pre0 evsA evs1 evs2 Dt Da T0 :
  cfg_good ca -> cfg_good cb ->
  close_check ca cb pre0 evsA evs1 evs2 Dt Da T0 = true ->
  exists st0 st_r st_s st_m st' tA X Y MA MB dk,
    net_init ca cb = Ok st0 /\ net_run st0 pre0 = Ok st_r /\
    reliable_schedule Dt Da st_r (evsA ++ evs1 ++ NClose SB :: evs2) /\
    net_run st_r evsA = Ok st_s /\
    close_start tA X Y MA MB Da dk T0 (fa_run Dt Da (fa_init Dt Da st_r) st_r evsA) st_s /\
    net_run st_s evs1 = Ok st_m /\ net_run st_m (NClose SB :: evs2) = Ok st' /\
    exists pre post st_c,
      evs2 = pre ++ post /\ net_run st_m (NClose SB :: pre) = Ok st_c /\ net_run st_c post = Ok st' /\
      both_closed st_c.
Proof.
  intros Ga Gb H. unfold close_check in H.
  destruct (net_init ca cb) as [st0|e|] eqn:Ei; try discriminate.
  destruct (net_run st0 pre0) as [st_r|e|] eqn:Ep; try discriminate.
  cbv zeta in H.
  apply andb_true_iff in H. destruct H as (H & Hrest).
  repeat (apply andb_true_iff in H; let X := fresh "B" in destruct H as (H & X)).
  destruct (net_run st_r evsA) as [st_s|e|] eqn:Ea; try discriminate.
  destruct (s_tuple (sz st_s SA)) as [tA|] eqn:Et; try discriminate.
  apply andb_true_iff in Hrest. destruct Hrest as (Hcs & Hrest).
  destruct (net_run st_s evs1) as [st_m|e|] eqn:E1; try discriminate.
  apply andb_true_iff in Hrest. destruct Hrest as (Hc1 & Hrest).
  destruct (net_run st_m (NClose SB :: evs2)) as [st'|e|] eqn:E2; try discriminate.
  apply Z.leb_le in B0, B1. apply Z.ltb_lt in B, Hc1, Hrest.
  assert (Hfair : fair_run Dt Da (fa_init Dt Da st_r) st_r (evsA ++ evs1 ++ NClose SB :: evs2)) by (apply fair_runb_sound; assumption).
  assert (Honce : once_run Dt Da (fa_init Dt Da st_r) st_r (evsA ++ evs1 ++ NClose SB :: evs2)) by (apply once_runb_iff; assumption).
  assert (Hrel : reliable_schedule Dt Da st_r (evsA ++ evs1 ++ NClose SB :: evs2)).
  { split; [|exact Honce]. split; [lia|]. split; [lia|]. split; [apply opts_okb_sound; exact H | exact Hfair]. }
  destruct (fair_run_app Dt Da evsA _ _ st_r st_s Ea Hfair) as (HfA & Hf1).
  destruct (once_run_app Dt Da evsA _ _ st_r st_s Ea Honce) as (_ & Ho1).
  set (fas := fa_run Dt Da (fa_init Dt Da st_r) st_r evsA) in *.
  assert (HN : NI st_s).
  { apply reach_NI. exists ca, cb, st0, (pre0 ++ evsA). split; [exact Ga|]. split; [exact Gb|]. split; [exact Ei|].
    exact (net_run_app pre0 evsA st0 st_r st_s Ep Ea). }
  assert (Hsy : dl_sync Da fas st_s) by exact (dl_sync_run Dt Da evsA _ st_r st_s (fa_init_sync Dt Da st_r) HfA Ea).
  destruct (close_startb_sound tA T0 Da fas st_s HN Hsy Hcs) as (Hstart & Hnz & HX & HY & HMB & HMB2).
  exists st0, st_r, st_s, st_m, st', tA, (cl_X st_s), (cl_Y st_s), (cl_MA st_s), (cl_MB st_s), (cl_dk st_s).
  split; [first [reflexivity | exact Ei]|]. split; [exact Ep|]. split; [exact Hrel|]. split; [exact Ea|]. split; [exact Hstart|].
  split; [exact E1|]. split; [exact E2|].
  exact (orderly_close_completes tA (cl_X st_s) (cl_Y st_s) (cl_MA st_s) (cl_MB st_s) Dt Da (cl_dk st_s)
           B1 B Hnz HX HY HMB HMB2 T0 evs1 evs2 fas st_s st_m st' Hstart (cl_evb_sound _ B2) Hf1 Ho1 E1 Hc1 E2 Hrest).
Qed.

(* ---------------------------------------------------------------------------------------- *)
(* the Example: the FIN is lost, its retransmission completes the close                      *)
(* ---------------------------------------------------------------------------------------- *)
(* handshake, 5 octets, ACK; A closes and sends its FIN; every frame still on a channel - the FIN too - is lost *)
Definition clw_prefix : list net_event :=
  [NPoll SA true; NDeliver SB 0; NPoll SB true; NDeliver SA 0; NPoll SA true; NDeliver SB 1;
   NSend SA [1;2;3;4;5]; NPoll SA true; NDeliver SB 2; NRecv SB 8; NPoll SB true; NDeliver SA 1;
   NClose SA; NPoll SA true;
   NDrop SB 0; NDrop SB 0; NDrop SB 0; NDrop SB 0; NDrop SA 0; NDrop SA 0].

(* the RTO of the FIN fires at 1 s: FIN, ACK; the clock runs on *)
Definition clw_evs1 : list net_event :=
  [NTick 1000000; NPoll SA true; NDeliver SB 0; NPoll SB true; NDeliver SA 0; NTick 20000].

(* B closes: FIN, ACK; TIME-WAIT runs out after 10 s; the clock runs on *)
Definition clw_evs2 : list net_event :=
  [NPoll SB true; NDeliver SA 1; NPoll SA true; NDeliver SB 1; NTick 10000000; NPoll SA true; NTick 100000].

Lemma clw_check_ok : close_check zcfg_a zcfg_b clw_prefix [] clw_evs1 clw_evs2 5000 5000 1000000 = true.
Proof. vm_compute. reflexivity. Qed.

Theorem orderly_close_applies :
  exists st0 st_r st_s st_m st' tA X Y MA MB dk,
    net_init zcfg_a zcfg_b = Ok st0 /\ net_run st0 clw_prefix = Ok st_r /\
    reliable_schedule 5000 5000 st_r ([] ++ clw_evs1 ++ NClose SB :: clw_evs2) /\
    net_run st_r [] = Ok st_s /\
    close_start tA X Y MA MB 5000 dk 1000000 (fa_run 5000 5000 (fa_init 5000 5000 st_r) st_r []) st_s /\
    net_run st_s clw_evs1 = Ok st_m /\ net_run st_m (NClose SB :: clw_evs2) = Ok st' /\
    exists pre post st_c,
      clw_evs2 = pre ++ post /\ net_run st_m (NClose SB :: pre) = Ok st_c /\ net_run st_c post = Ok st' /\
      both_closed st_c.
Proof.
  destruct zcfg_good as (Ga & Gb).
  exact (close_package zcfg_a zcfg_b clw_prefix [] clw_evs1 clw_evs2 5000 5000 1000000 Ga Gb clw_check_ok).
Qed.
