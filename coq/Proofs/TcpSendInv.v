(* C05, layer 1: ghost state, the sender invariant (DESIGN.md Appendix A, J1-J3 + timer clauses),
   field-projection tactics for the socket record and the pure arithmetic of segment sizing. *)
From SV Require Import Lib.Base Gen.Consts.
From SV Require Import Model.Seq32 Model.Assembler Model.TcpBuf Model.TcpTypes Model.Tcp.
From SV Require Import Proofs.TcpSendBase.

(* ------------------------------------------------------------------------------------------ *)
(* record projections: [fld] reduces  s_f (upd_g s v)  and nothing else                         *)
(* ------------------------------------------------------------------------------------------ *)
Ltac fld :=
  cbn [s_state s_timer s_rtte s_assembler s_rx_buffer s_rx_fin_received s_tx_buffer s_timeout
       s_keep_alive s_hop_limit s_listen_endpoint s_tuple s_local_seq_no s_remote_seq_no
       s_remote_last_seq s_remote_last_ack s_remote_last_win s_remote_win_shift s_remote_win_len
       s_remote_win_scale s_remote_has_sack s_remote_mss s_remote_last_ts s_local_rx_last_seq
       s_local_rx_last_ack s_local_rx_dup_acks s_pending_fast_retransmit s_syn_unacked_in_fin_wait
       s_ack_delay s_ack_delay_timer s_challenge_ack_timer s_nagle s_congestion_controller
       s_tsval_generator s_last_remote_tsval upd_state upd_timer upd_rtte upd_assembler
       upd_rx_buffer upd_rx_fin_received upd_tx_buffer upd_timeout upd_keep_alive upd_hop_limit
       upd_listen_endpoint upd_tuple upd_local_seq_no upd_remote_seq_no upd_remote_last_seq
       upd_remote_last_ack upd_remote_last_win upd_remote_win_shift upd_remote_win_len
       upd_remote_win_scale upd_remote_has_sack upd_remote_mss upd_remote_last_ts
       upd_local_rx_last_seq upd_local_rx_last_ack upd_local_rx_dup_acks
       upd_pending_fast_retransmit upd_syn_unacked_in_fin_wait upd_ack_delay upd_ack_delay_timer
       upd_challenge_ack_timer upd_nagle upd_congestion_controller upd_tsval_generator
       upd_last_remote_tsval tcp_set_state fst snd].
Ltac fld_in H :=
  cbn [s_state s_timer s_rtte s_assembler s_rx_buffer s_rx_fin_received s_tx_buffer s_timeout
       s_keep_alive s_hop_limit s_listen_endpoint s_tuple s_local_seq_no s_remote_seq_no
       s_remote_last_seq s_remote_last_ack s_remote_last_win s_remote_win_shift s_remote_win_len
       s_remote_win_scale s_remote_has_sack s_remote_mss s_remote_last_ts s_local_rx_last_seq
       s_local_rx_last_ack s_local_rx_dup_acks s_pending_fast_retransmit s_syn_unacked_in_fin_wait
       s_ack_delay s_ack_delay_timer s_challenge_ack_timer s_nagle s_congestion_controller
       s_tsval_generator s_last_remote_tsval upd_state upd_timer upd_rtte upd_assembler
       upd_rx_buffer upd_rx_fin_received upd_tx_buffer upd_timeout upd_keep_alive upd_hop_limit
       upd_listen_endpoint upd_tuple upd_local_seq_no upd_remote_seq_no upd_remote_last_seq
       upd_remote_last_ack upd_remote_last_win upd_remote_win_shift upd_remote_win_len
       upd_remote_win_scale upd_remote_has_sack upd_remote_mss upd_remote_last_ts
       upd_local_rx_last_seq upd_local_rx_last_ack upd_local_rx_dup_acks
       upd_pending_fast_retransmit upd_syn_unacked_in_fin_wait upd_ack_delay upd_ack_delay_timer
       upd_challenge_ack_timer upd_nagle upd_congestion_controller upd_tsval_generator
       upd_last_remote_tsval tcp_set_state fst snd] in H.

(* For functions with long `let s := upd_... s in` chains: destruct the record first (kernel-friendly:
   no nested projections survive), then compute projections and updaters. *)
Ltac fldv :=
  cbv beta iota zeta delta [s_state s_timer s_rtte s_assembler s_rx_buffer s_rx_fin_received s_tx_buffer s_timeout
       s_keep_alive s_hop_limit s_listen_endpoint s_tuple s_local_seq_no s_remote_seq_no
       s_remote_last_seq s_remote_last_ack s_remote_last_win s_remote_win_shift s_remote_win_len
       s_remote_win_scale s_remote_has_sack s_remote_mss s_remote_last_ts s_local_rx_last_seq
       s_local_rx_last_ack s_local_rx_dup_acks s_pending_fast_retransmit s_syn_unacked_in_fin_wait
       s_ack_delay s_ack_delay_timer s_challenge_ack_timer s_nagle s_congestion_controller
       s_tsval_generator s_last_remote_tsval upd_state upd_timer upd_rtte upd_assembler
       upd_rx_buffer upd_rx_fin_received upd_tx_buffer upd_timeout upd_keep_alive upd_hop_limit
       upd_listen_endpoint upd_tuple upd_local_seq_no upd_remote_seq_no upd_remote_last_seq
       upd_remote_last_ack upd_remote_last_win upd_remote_win_shift upd_remote_win_len
       upd_remote_win_scale upd_remote_has_sack upd_remote_mss upd_remote_last_ts
       upd_local_rx_last_seq upd_local_rx_last_ack upd_local_rx_dup_acks
       upd_pending_fast_retransmit upd_syn_unacked_in_fin_wait upd_ack_delay upd_ack_delay_timer
       upd_challenge_ack_timer upd_nagle upd_congestion_controller upd_tsval_generator
       upd_last_remote_tsval tcp_set_state fst snd].
Ltac fldv_in H :=
  cbv beta iota zeta delta [s_state s_timer s_rtte s_assembler s_rx_buffer s_rx_fin_received s_tx_buffer s_timeout
       s_keep_alive s_hop_limit s_listen_endpoint s_tuple s_local_seq_no s_remote_seq_no
       s_remote_last_seq s_remote_last_ack s_remote_last_win s_remote_win_shift s_remote_win_len
       s_remote_win_scale s_remote_has_sack s_remote_mss s_remote_last_ts s_local_rx_last_seq
       s_local_rx_last_ack s_local_rx_dup_acks s_pending_fast_retransmit s_syn_unacked_in_fin_wait
       s_ack_delay s_ack_delay_timer s_challenge_ack_timer s_nagle s_congestion_controller
       s_tsval_generator s_last_remote_tsval upd_state upd_timer upd_rtte upd_assembler
       upd_rx_buffer upd_rx_fin_received upd_tx_buffer upd_timeout upd_keep_alive upd_hop_limit
       upd_listen_endpoint upd_tuple upd_local_seq_no upd_remote_seq_no upd_remote_last_seq
       upd_remote_last_ack upd_remote_last_win upd_remote_win_shift upd_remote_win_len
       upd_remote_win_scale upd_remote_has_sack upd_remote_mss upd_remote_last_ts
       upd_local_rx_last_seq upd_local_rx_last_ack upd_local_rx_dup_acks
       upd_pending_fast_retransmit upd_syn_unacked_in_fin_wait upd_ack_delay upd_ack_delay_timer
       upd_challenge_ack_timer upd_nagle upd_congestion_controller upd_tsval_generator
       upd_last_remote_tsval tcp_set_state fst snd] in H.
Ltac destruct_sock s :=
  destruct s as [f0 f1 f2 f3 f4 f5 f6 f7 f8 f9 f10 f11 f12 f13 f14 f15 f16 f17 f18 f19 f20 f21 f22 f23 f24 f25 f26 f27 f28 f29 f30 f31 f32 f33 f34].

(* the fields the sender invariant reads *)
Definition txv (s : socket) :=
  (s_state s, s_tx_buffer s, s_local_seq_no s, s_remote_last_seq s, s_remote_win_len s,
   s_remote_win_scale s, s_timer s, s_remote_mss s, s_remote_win_shift s,
   s_syn_unacked_in_fin_wait s, rt_max_seq_sent (s_rtte s)).

(* ------------------------------------------------------------------------------------------ *)
(* ghost state                                                                                  *)
(* ------------------------------------------------------------------------------------------ *)
(* PSyn: the SYN (if any) is not acknowledged; PData: SYN acknowledged, FIN not; PFinAcked *)
Inductive phase_t := PSyn | PData | PFinAcked.

(* g_iss     initial send sequence number of the current connection (epoch)
   g_stream  every byte [send] has accepted in this epoch, in order (W; offset 0 follows the SYN)
   g_acked   number of stream bytes acknowledged by the peer
   g_flight  SND.NXT - SND.UNA in sequence space (0 after a retransmission rewind)
   g_fin     the application has closed the sending side (a FIN occupies the sequence number after
             the last stream byte)
   g_hw      highest sequence offset (relative to g_iss) any emitted segment has reached *)
Record ghost := mkGhost {
  g_iss : Z; g_stream : list Z; g_acked : Z; g_phase : phase_t; g_flight : Z; g_fin : bool;
  g_hw : Z
}.

(* SND.UNA as an unbounded offset from g_iss *)
Definition g_una (g : ghost) : Z :=
  match g_phase g with PSyn => 0 | PData => 1 + g_acked g | PFinAcked => 2 + g_acked g end.

(* W: the application's stream as a function of the stream offset *)
Definition g_W (g : ghost) (k : Z) : Z := znth (g_stream g) k.

(* sequence space that may be in flight: the SYN, or the queued bytes plus the FIN *)
Definition g_budget (g : ghost) (len : Z) : Z :=
  match g_phase g with PSyn => 1 | PData => len + b2z (g_fin g) | PFinAcked => 0 end.

Definition max_window : Z := 65535 * 2 ^ 14.

Definition phase_ok (g : ghost) (st : tcp_state) (len : Z) (syn_fw : bool) : Prop :=
  match g_phase g with
  | PSyn => g_acked g = 0 /\ len = 0 /\
            match st with
            | Closed => True
            | Listen | SynSent | SynReceived => g_fin g = false
            | FinWait1 => g_fin g = true /\ syn_fw = true    (* close() in SYN-RECEIVED *)
            | _ => False
            end
  | PData => match st with
             | Established => g_fin g = false /\ syn_fw = false
             | CloseWait => g_fin g = false
             | FinWait1 => g_fin g = true /\ syn_fw = false
             | Closing | LastAck => g_fin g = true
             | Closed => True
             | _ => False
             end
  | PFinAcked => len = 0 /\ g_flight g = 0 /\ g_fin g = true /\
                 match st with FinWait2 | TimeWait | Closed => True | _ => False end
  end.

(* J1-J3 over the field values *)
Definition tx_inv_f (g : ghost) (st : tcp_state) (tx : ring) (lsn rls win : Z) (wsc : option Z)
           (syn_fw : bool) : Prop :=
  (* storage *)
  rb_wf tx /\ rb_cap tx <= 2 ^ 30 /\
  (* J1 *)
  0 <= g_acked g /\ g_acked g + rb_len tx = l_len (g_stream g) /\
  (forall i, 0 <= i < rb_len tx -> rb_at tx i = g_W g (g_acked g + i)) /\
  (* J2 *)
  lsn = sq (g_iss g + g_una g) /\
  (* J3 *)
  rls = sq (g_iss g + g_una g + g_flight g) /\ 0 <= g_flight g <= g_budget g (rb_len tx) /\
  g_una g + g_flight g <= g_hw g /\
  phase_ok g st (rb_len tx) syn_fw /\
  (* what was learned from the peer *)
  0 <= win <= max_window /\
  match wsc with Some v => 0 <= v <= 14 | None => True end.

Definition tx_inv (g : ghost) (s : socket) : Prop :=
  tx_inv_f g (s_state s) (s_tx_buffer s) (s_local_seq_no s) (s_remote_last_seq s)
           (s_remote_win_len s) (s_remote_win_scale s) (s_syn_unacked_in_fin_wait s).

(* timer clauses: the zero-window-probe timer runs only against a closed window; an idle timer
   means nothing is in flight (or only control flags are) *)
Definition tm_inv_f (g : ghost) (tm : timer) (win len : Z) : Prop :=
  (timer_is_zero_window_probe tm = true -> win = 0) /\
  (timer_is_idle tm = true -> g_flight g = 0 \/ len = 0).

Definition tm_inv (g : ghost) (s : socket) : Prop :=
  tm_inv_f g (s_timer s) (s_remote_win_len s) (rb_len (s_tx_buffer s)).

(* keep-alive clauses: nothing was ever sent beyond the stream and its FIN; the RTT estimator's
   "highest sequence number sent" belongs to the current epoch and lies at or below the highest
   offset reached; the MSS in use respects the clamp; a listening socket has a pristine estimator *)
Definition kinv (g : ghost) (s : socket) : Prop :=
  g_hw g <= 1 + l_len (g_stream g) + b2z (g_fin g) /\
  match rt_max_seq_sent (s_rtte s) with
  | Some m => exists x, m = sq (g_iss g + x) /\ 1 <= x <= g_hw g
  | None => True
  end /\
  tcp_MIN_REMOTE_MSS <= s_remote_mss s /\
  (s_state s = Listen -> rt_max_seq_sent (s_rtte s) = None).

Definition inv (g : ghost) (s : socket) : Prop := tx_inv g s /\ tm_inv g s /\ kinv g s.

Lemma inv_txv : forall g s s', txv s' = txv s -> inv g s -> inv g s'.
Proof.
  intros g s s' E H. unfold txv in E. injection E as E1 E2 E3 E4 E5 E6 E7 E8 E9 E10 E11.
  unfold inv, tx_inv, tm_inv, kinv in *. rewrite E1, E2, E3, E4, E5, E6, E7, E8, E10, E11. exact H.
Qed.

Lemma txv_proj : forall a b, txv a = txv b ->
  s_state a = s_state b /\ s_tx_buffer a = s_tx_buffer b /\ s_local_seq_no a = s_local_seq_no b /\
  s_remote_last_seq a = s_remote_last_seq b /\ s_remote_win_len a = s_remote_win_len b /\
  s_remote_win_scale a = s_remote_win_scale b /\ s_timer a = s_timer b /\
  s_remote_mss a = s_remote_mss b /\ s_remote_win_shift a = s_remote_win_shift b /\
  s_syn_unacked_in_fin_wait a = s_syn_unacked_in_fin_wait b.
Proof.
  intros a b H. unfold txv in H. injection H. intros. repeat split; assumption.
Qed.

Lemma txv_msx : forall a b, txv a = txv b ->
  rt_max_seq_sent (s_rtte a) = rt_max_seq_sent (s_rtte b).
Proof. intros a b H. unfold txv in H. injection H. intros. assumption. Qed.

Lemma tx_inv_txv : forall g s s', txv s' = txv s -> tx_inv g s -> tx_inv g s'.
Proof.
  intros g s s' E H. unfold txv in E. injection E as E1 E2 E3 E4 E5 E6 E7 E8 E9 E10 E11.
  unfold tx_inv in *. rewrite E1, E2, E3, E4, E5, E6, E10. exact H.
Qed.

(* SND.NXT never lies beyond the FIN *)
Lemma una_flight_bound : forall g st tx lsn rls win wsc fw,
  tx_inv_f g st tx lsn rls win wsc fw ->
  g_una g + g_flight g <= 1 + l_len (g_stream g) + b2z (g_fin g).
Proof.
  intros g st tx lsn rls win wsc fw (Hwf & _ & Ha & Hlen & _ & _ & _ & Hf & _ & Hph & _).
  pose proof Hwf as (Hl0 & _). pose proof (l_len_nonneg (g_stream g)).
  unfold g_una, g_budget, phase_ok in *. destruct (g_phase g).
  - destruct (g_fin g); cbn [b2z]; lia.
  - lia.
  - destruct Hph as (L0 & F0 & G0 & _). rewrite G0. cbn [b2z]. lia.
Qed.

(* one step of the keep-alive clauses: same epoch, the stream only extended, closing monotone, the
   high-water mark raised at most to the new SND.NXT *)
Lemma kinv_step : forall g s g' s' more,
  kinv g s -> tx_inv g' s' ->
  g_iss g' = g_iss g -> g_stream g' = g_stream g ++ more -> (g_fin g = true -> g_fin g' = true) ->
  g_hw g <= g_hw g' -> g_hw g' <= Z.max (g_hw g) (g_una g' + g_flight g') ->
  rt_max_seq_sent (s_rtte s') = rt_max_seq_sent (s_rtte s) ->
  tcp_MIN_REMOTE_MSS <= s_remote_mss s' ->
  (s_state s' = Listen -> rt_max_seq_sent (s_rtte s') = None) ->
  kinv g' s'.
Proof.
  intros g s g' s' more (K1 & K2 & K3 & K4) Htx Ei Es Ef Hh1 Hh2 Em Hm Hl.
  pose proof (una_flight_bound _ _ _ _ _ _ _ _ Htx) as Hb.
  unfold kinv. rewrite Em, Ei.
  split.
  - rewrite Es in *. rewrite l_len_app in *. pose proof (l_len_nonneg more).
    assert (b2z (g_fin g) <= b2z (g_fin g')).
    { destruct (g_fin g); [rewrite (Ef eq_refl); lia|destruct (g_fin g'); cbn [b2z]; lia]. }
    lia.
  - split; [|split; [exact Hm|rewrite <- Em; exact Hl]].
    destruct (rt_max_seq_sent (s_rtte s)) as [m|]; [|exact I].
    destruct K2 as (x & Ex & Hx). exists x. split; [exact Ex|lia].
Qed.

Lemma kinv_fields : forall g s s',
  kinv g s -> rt_max_seq_sent (s_rtte s') = rt_max_seq_sent (s_rtte s) ->
  s_remote_mss s' = s_remote_mss s -> (s_state s' = Listen -> s_state s = Listen) ->
  kinv g s'.
Proof.
  intros g s s' (K1 & K2 & K3 & K4) Em Es Hl. unfold kinv. rewrite Em, Es.
  split; [exact K1|]. split; [exact K2|]. split; [exact K3|]. intros X. apply K4. auto.
Qed.

Lemma kinv_fields2 : forall g s g' s',
  kinv g s -> g_iss g' = g_iss g -> g_stream g' = g_stream g -> g_fin g' = g_fin g ->
  g_hw g' = g_hw g ->
  rt_max_seq_sent (s_rtte s') = rt_max_seq_sent (s_rtte s) ->
  s_remote_mss s' = s_remote_mss s -> (s_state s' = Listen -> s_state s = Listen) ->
  kinv g' s'.
Proof.
  intros g s g' s' (K1 & K2 & K3 & K4) E1 E2 E3 E4 Em Es Hl. unfold kinv.
  rewrite Em, Es, E1, E2, E3, E4.
  split; [exact K1|]. split; [exact K2|]. split; [exact K3|]. intros X. apply K4. auto.
Qed.

Lemma rtte_on_rto_msx : forall r, rt_max_seq_sent (rtte_on_rto r) = rt_max_seq_sent r.
Proof. intros. unfold rtte_on_rto. destruct (_ >=? 3); reflexivity. Qed.

(* the congestion controller is not constrained: every lemma below holds for NoControl, Reno in any
   state and any other controller state (an arbitrary reported window) *)
Lemma inv_any_controller : forall g s c, inv g s -> inv g (upd_congestion_controller s c).
Proof. intros. eapply inv_txv; [|eassumption]. reflexivity. Qed.

Definition tcp_may_send_st (st : tcp_state) : bool :=
  match st with Established | CloseWait => true | _ => false end.

(* the ghost of a socket that has just been reset *)
Definition ghost0 : ghost := mkGhost 0 [] 0 PSyn 0 false 0.

(* what the context must satisfy: the ISN is a u32 and the MTU leaves room for the headers
   (`cx.ip_mtu() - ip_header_len - TCP_HEADER_LEN` is a usize subtraction in the source) *)
Definition ctx_ok (cx : ctx) : Prop :=
  0 <= cx_isn cx < 2 ^ 32 /\ wipv4_HEADER_LEN + wtcp_HEADER_LEN <= cx_ip_mtu cx.

(* what TcpRepr::parse guarantees about a received segment *)
Definition repr_ok (r : tcp_repr) : Prop :=
  0 <= r_seq_number r < 2 ^ 32 /\
  match r_ack_number r with Some a => 0 <= a < 2 ^ 32 | None => True end /\
  0 <= r_window_len r <= 65535 /\
  match r_window_scale r with Some v => 0 <= v <= 14 | None => True end.

(* ------------------------------------------------------------------------------------------ *)
(* layer 1: pure arithmetic of segment sizing (dispatch, l.2645-2697)                           *)
(* ------------------------------------------------------------------------------------------ *)
Definition eff_mss (mtu mss options_len : Z) : Z :=
  sat_sub (Z.min (mtu - wipv4_HEADER_LEN - wtcp_HEADER_LEN) mss) options_len.

Lemma eff_mss_bounds : forall mtu mss opt, 0 <= opt ->
  0 <= eff_mss mtu mss opt /\
  eff_mss mtu mss opt <= Z.max 0 mss /\
  (0 < eff_mss mtu mss opt ->
   wipv4_HEADER_LEN + wtcp_HEADER_LEN + opt + eff_mss mtu mss opt <= mtu).
Proof. intros. unfold eff_mss, sat_sub. lia. Qed.

(* the normal path: for ANY congestion window cwnd (also negative or huge values) *)
Lemma size_normal_bounds : forall win_limit eff cwnd flight size,
  0 <= win_limit -> 0 <= eff ->
  size = Z.min (Z.min win_limit eff) (sat_sub cwnd flight) ->
  0 <= size /\ size <= win_limit /\ size <= eff.
Proof. intros. unfold sat_sub in *. lia. Qed.

Lemma size_probe_bounds : forall eff size, 0 <= eff -> size = Z.min 1 eff ->
  0 <= size <= 1 /\ size <= eff.
Proof. intros. lia. Qed.

Lemma size_fast_bounds : forall eff len win size, 0 <= eff -> 0 <= len -> 0 <= win ->
  size = Z.min (Z.min eff len) win ->
  0 <= size /\ size <= eff /\ size <= len /\ size <= win.
Proof. intros. lia. Qed.

Lemma tcp_local_mss_ok : forall cx, ctx_ok cx ->
  tcp_local_mss cx = Ok (cx_ip_mtu cx - wipv4_HEADER_LEN - wtcp_HEADER_LEN).
Proof.
  intros cx (_ & H). unfold tcp_local_mss, usub.
  assert (0 <= wtcp_HEADER_LEN /\ 0 <= wipv4_HEADER_LEN) as (? & ?) by (unfold wtcp_HEADER_LEN, wipv4_HEADER_LEN; lia).
  destruct (Z.ltb_spec (cx_ip_mtu cx - wipv4_HEADER_LEN) 0); [lia|]. cbn [obind].
  destruct (Z.ltb_spec (cx_ip_mtu cx - wipv4_HEADER_LEN - wtcp_HEADER_LEN) 0); [lia|]. reflexivity.
Qed.

(* ------------------------------------------------------------------------------------------ *)
(* sequence arithmetic under the invariant                                                      *)
(* ------------------------------------------------------------------------------------------ *)
Lemma max_window_val : max_window < 2 ^ 30.
Proof. unfold max_window. lia. Qed.

Lemma budget_bound : forall g len, 0 <= len <= 2 ^ 30 -> 0 <= g_budget g len <= 2 ^ 30 + 1.
Proof.
  intros. unfold g_budget. destruct (g_phase g); [lia| |lia]. destruct (g_fin g); cbn [b2z]; lia.
Qed.

(* ------------------------------------------------------------------------------------------ *)
(* layer 2: the ring content is the stream                                                      *)
(* ------------------------------------------------------------------------------------------ *)

(* J4: what dispatch reads at an offset of the transmit ring is the stream slice *)
Lemma get_allocated_stream : forall g st tx lsn rls win wsc fw off size,
  tx_inv_f g st tx lsn rls win wsc fw -> 0 <= off <= rb_len tx ->
  let l := rb_get_allocated tx off size in
  l = l_slice (g_acked g + off) (l_len l) (g_stream g) /\
  0 <= l_len l /\ l_len l <= Z.max 0 size /\ off + l_len l <= rb_len tx.
Proof.
  intros g st tx lsn rls win wsc fw off size (Hwf & Hcap & Ha & Hlen & Hc & _) Ho. cbv zeta.
  pose proof (rb_get_allocated_spec tx off size Hwf Ho) as (L0 & L1 & L2 & L3).
  split; [|lia].
  apply znth_ext.
  - rewrite l_len_slice; lia.
  - intros i Hi. rewrite L3 by lia. rewrite Hc by lia. unfold g_W.
    rewrite znth_slice by lia. f_equal. lia.
Qed.

(* ghost after an acknowledgement that advances SND.UNA by d sequence numbers, al of them stream
   bytes; aof = it also acknowledges the FIN *)
Definition g_ack (g : ghost) (d al : Z) (aof : bool) : ghost :=
  let ph := if aof then PFinAcked
            else match g_phase g with PSyn => if d =? 0 then PSyn else PData | p => p end in
  let f := Z.max (g_flight g - d) 0 in
  mkGhost (g_iss g) (g_stream g) (g_acked g + al) ph f (g_fin g)
          (Z.max (g_hw g) (g_una g + d + f)).

Lemma ack_step_inv : forall g st tx lsn rls win wsc fw d al (aof : bool) st' tx' win' wsc' fw',
  tx_inv_f g st tx lsn rls win wsc fw ->
  0 <= d ->
  (g_phase g <> PSyn -> al = (if aof then d - 1 else d)) ->
  (g_phase g = PSyn -> al = 0 /\ aof = false /\ d <= 1) ->
  (aof = true -> g_phase g = PData /\ g_fin g = true /\ d = rb_len tx + 1) ->
  (aof = false -> match g_phase g with
                  | PSyn => True | PData => d <= rb_len tx | PFinAcked => d = 0 end) ->
  (al > 0 -> rb_dequeue_allocated tx al = Ok tx') -> (al <= 0 -> tx' = tx) ->
  phase_ok (g_ack g d al aof) st' (rb_len tx') fw' ->
  0 <= win' <= max_window ->
  match wsc' with Some v => 0 <= v <= 14 | None => True end ->
  tx_inv_f (g_ack g d al aof) st' tx' (sq (g_iss g + g_una g + d))
           (sq (g_iss g + g_una g + Z.max (g_flight g) d)) win' wsc' fw'.
Proof.
  intros g st tx lsn rls win wsc fw d al aof st' tx' win' wsc' fw'
         (Hwf & Hcap & Ha & Hlen & Hc & Hl & Hr & Hf & Hhw & Hph & Hw & Hs)
         Hd Hal Hsyn Haof Hnaof Hdeq Hsame Hph' Hw' Hs'.
  pose proof Hwf as (Hl0 & _).
  assert (Hal0 : 0 <= al <= rb_len tx).
  { destruct (g_phase g) eqn:P.
    - destruct (Hsyn eq_refl) as (-> & _). lia.
    - specialize (Hal ltac:(discriminate)). destruct aof; cbv iota in Hal.
      + destruct (Haof eq_refl) as (_ & _ & E). lia.
      + specialize (Hnaof eq_refl). cbv iota in Hnaof. lia.
    - specialize (Hal ltac:(discriminate)). destruct aof; cbv iota in Hal.
      + destruct (Haof eq_refl) as (E & _). discriminate.
      + specialize (Hnaof eq_refl). cbv iota in Hnaof. lia. }
  assert (Htx : rb_wf tx' /\ rb_cap tx' = rb_cap tx /\ rb_len tx' = rb_len tx - al /\
                (forall i, 0 <= i < rb_len tx - al -> rb_at tx' i = rb_at tx (al + i))).
  { destruct (Z.gtb_spec al 0).
    - destruct (rb_dequeue_allocated_spec tx al tx' Hwf ltac:(lia) (Hdeq ltac:(lia)))
        as (_ & W & C & L & A). auto.
    - rewrite (Hsame ltac:(lia)). assert (E0 : al = 0) by lia. rewrite E0.
      split; [exact Hwf|]. split; [reflexivity|]. split; [lia|]. intros. f_equal. }
  destruct Htx as (Hwf' & Hcap' & Hlen' & Hat').
  assert (Huna : g_una (g_ack g d al aof) = g_una g + d).
  { unfold g_una, g_ack. cbn [g_phase g_acked]. destruct (g_phase g) eqn:P.
    - destruct (Hsyn eq_refl) as (-> & -> & D1). unfold phase_ok in Hph. rewrite P in Hph.
      destruct Hph as (A0 & _). destruct (Z.eqb_spec d 0); lia.
    - specialize (Hal ltac:(discriminate)). destruct aof; cbv iota in Hal; lia.
    - specialize (Hal ltac:(discriminate)). destruct aof; cbv iota in Hal.
      + destruct (Haof eq_refl) as (E & _). discriminate.
      + specialize (Hnaof eq_refl). cbv iota in Hnaof. lia. }
  unfold tx_inv_f. rewrite Huna.
  split; [exact Hwf'|]. split; [lia|].
  split; [cbn [g_ack g_acked]; lia|].
  split; [cbn [g_ack g_acked g_stream]; lia|].
  split.
  { intros i Hi. rewrite Hat' by lia. rewrite Hc by lia. unfold g_W. cbn [g_ack g_stream g_acked].
    f_equal. lia. }
  split; [cbn [g_ack g_iss]; f_equal; lia|].
  split; [cbn [g_ack g_flight g_iss]; f_equal; lia|].
  split.
  { cbn [g_ack g_flight]. split; [lia|]. unfold g_budget in *. cbn [g_ack g_phase g_fin].
    destruct (g_phase g) eqn:P.
    - destruct (Hsyn eq_refl) as (-> & -> & D1).
      destruct (Z.eqb_spec d 0); destruct (g_fin g); cbn [b2z]; lia.
    - specialize (Hal ltac:(discriminate)). destruct aof; cbv iota in Hal.
      + destruct (Haof eq_refl) as (_ & F & E). rewrite F in Hf. cbn [b2z] in Hf. lia.
      + specialize (Hnaof eq_refl). cbv iota in Hnaof. destruct (g_fin g); cbn [b2z] in *; lia.
    - destruct aof.
      + destruct (Haof eq_refl) as (E & _). discriminate.
      + lia. }
  split; [cbn [g_ack g_flight g_hw]; lia|].
  split; [exact Hph'|]. split; [exact Hw'|exact Hs'].
Qed.

(* ghost after [send] accepted the bytes [more] *)
Definition g_send (g : ghost) (more : list Z) : ghost :=
  mkGhost (g_iss g) (g_stream g ++ more) (g_acked g) (g_phase g) (g_flight g) (g_fin g) (g_hw g).

Lemma send_step_inv : forall g st tx lsn rls win wsc fw data tx' n,
  tx_inv_f g st tx lsn rls win wsc fw ->
  tcp_may_send_st st = true ->
  rb_enqueue_slice tx data = (tx', n) ->
  tx_inv_f (g_send g (l_take n data)) st tx' lsn rls win wsc fw /\ 0 <= n <= l_len data /\
  rb_len tx' = rb_len tx + n.
Proof.
  intros g st tx lsn rls win wsc fw data tx' n
         (Hwf & Hcap & Ha & Hlen & Hc & Hl & Hr & Hf & Hhw & Hph & Hw & Hs) Hms E.
  destruct (rb_enqueue_slice_spec tx data tx' n Hwf E) as (Hwf' & Hcap' & Hlen' & Hn & Hold & Hnew).
  split; [|split; [lia|lia]].
  assert (Htk : l_len (l_take n data) = n) by (apply l_len_take; lia).
  unfold tx_inv_f. cbn [g_send g_acked g_stream g_iss g_flight g_hw].
  replace (g_una (g_send g (l_take n data))) with (g_una g) by reflexivity.
  split; [exact Hwf'|]. split; [lia|]. split; [lia|].
  split; [rewrite l_len_app; lia|].
  split.
  { intros i Hi. unfold g_W. cbn [g_send g_stream g_acked]. rewrite znth_app by lia.
    destruct (Z.ltb_spec i (rb_len tx)).
    - rewrite Hold by lia. rewrite Hc by lia. unfold g_W.
      destruct (Z.ltb_spec (g_acked g + i) (l_len (g_stream g))); [reflexivity|lia].
    - replace i with (rb_len tx + (i - rb_len tx)) at 1 by lia. rewrite Hnew by lia.
      destruct (Z.ltb_spec (g_acked g + i) (l_len (g_stream g))); [lia|].
      rewrite znth_take by lia. f_equal. lia. }
  split; [exact Hl|]. split; [exact Hr|].
  split.
  { unfold g_budget in *. cbn [g_send g_phase g_fin]. destruct (g_phase g); lia. }
  split; [exact Hhw|].
  split.
  { unfold phase_ok in *. cbn [g_send g_phase g_acked g_fin g_flight].
    destruct (g_phase g); destruct st; cbn in Hms; try discriminate; tauto. }
  split; [exact Hw|exact Hs].
Qed.
