(* C02 (liveness half), layer 2b: how a SENDING socket behaves between two acknowledgements - the
   sender's half of the two-socket progress argument.  Built on tcp-c02's invariant [tcp_live_inv]
   and its phase-by-phase descriptions of `process` / `dispatch` (Proofs/TcpLiveProofs.v,
   Proofs/TcpLiveProgress.v).
     dispatch_una_tx          dispatch never moves SND.UNA nor the transmit queue
     dispatch_not_due         a retransmission timer that is not yet due survives a dispatch
     fast_retransmits         FastRetransmit + open window: the dispatch sends from SND.UNA
     idle_transmits           nothing in flight, octets queued, window open: the dispatch sends from SND.UNA
     poll_at_ready            while octets are unacknowledged (window believed open, no probe timer)
                              poll_at is Now or an instant not later than the retransmission deadline
     process_no_progress      a segment that does not advance SND.UNA leaves the transmit queue alone
                              and the retransmission deadline where it was (or makes it immediate)
   ESTABLISHED / window-open statements only: zero-window probing is Proofs/TcpProgressZwp. *)
From SV Require Import Lib.Base Gen.Consts.
From SV Require Import Model.Seq32 Model.Assembler Model.TcpBuf Model.TcpTypes Model.Tcp.
From SV Require Import Proofs.TcpSendBase Proofs.TcpLiveBase Proofs.TcpLiveProofs Proofs.TcpLiveMore
  Proofs.TcpLiveProgress.
From SV Require Proofs.TcpRecvBase.

(* ---------------------------------------------------------------------------------------- *)
(* dispatch: SND.UNA, the queue, the state                                                   *)
(* ---------------------------------------------------------------------------------------- *)
Lemma finish_core : forall cx s repr z k,
  let s' := fst (tcp_dispatch_finish cx s repr z k) in
  s_local_seq_no s' = s_local_seq_no s /\ s_tx_buffer s' = s_tx_buffer s /\
  s_state s' = s_state s /\ s_remote_win_len s' = s_remote_win_len s.
Proof.
  intros. unfold s', tcp_dispatch_finish.
  destruct z; [cbn [fst]; sproj; auto|]. destruct k; [cbn [fst]; sproj; auto|].
  repeat match goal with
  | |- context [if ?c then _ else _] => destruct c
  end; cbn [fst]; sproj; auto.
Qed.

Lemma not_timed_out : forall s now, s_timeout s = None -> tcp_timed_out s now = false.
Proof. intros s now H. unfold tcp_timed_out. rewrite H. destruct (s_remote_last_ts s); reflexivity. Qed.

Lemma dt_pre_timeout : forall cx s, s_timeout (dt_pre cx s) = s_timeout s.
Proof. intros. apply dt_pre_misc. Qed.

(* a dispatch of an ESTABLISHED socket without user timeout whose interface still has the address *)
Theorem dispatch_una_tx : forall cx s t ok s' res tags,
  tcp_live_inv s -> s_state s = Established -> s_timeout s = None ->
  s_tuple s = Some t -> tu_local_addr t = cx_addr cx ->
  tcp_dispatch cx s ok = Ok (s', res, tags) ->
  s_local_seq_no s' = s_local_seq_no s /\ s_tx_buffer s' = s_tx_buffer s /\
  s_state s' = Established /\ s_remote_win_len s' = s_remote_win_len s.
Proof.
  intros cx s t ok s' res tags I Hst Hto Htu Haddr H. unfold tcp_dispatch in H.
  rewrite Htu, Haddr, Z.eqb_refl in H. cbn [negb] in H.
  obind_inv H. destruct a as (s1, t1). rename E into Edt.
  pose proof (dt_pre_core cx s) as (Q1 & Q2 & Q3 & Q4 & Q5 & Q6 & Q7 & _).
  pose proof (not_timed_out (dt_pre cx s) (cx_now cx) ltac:(rewrite dt_pre_timeout; exact Hto)) as Hnto.
  assert (D : s_local_seq_no s1 = s_local_seq_no s /\ s_tx_buffer s1 = s_tx_buffer s /\
              s_state s1 = Established /\ s_remote_win_len s1 = s_remote_win_len s).
  { destruct (dt_spec _ _ _ _ Edt) as [(X & _) | [(_ & _ & ->) | (_ & _ & D1 & _ & D3 & D4 & D5 & _)]].
    - rewrite Hnto in X. discriminate.
    - rewrite Q1, Q4, Q5, Q7. auto.
    - rewrite D1, D3, D4, D5, Q1, Q4, Q5, Q7. auto. }
  destruct D as (D1 & D2 & D3 & D4).
  pose proof (dispatch_timers_inv _ _ _ _ I Edt) as I1.
  obind_inv H. destruct a as ((s2, go), t2). rename E into Edd.
  assert (E2 : s2 = s1).
  { unfold tcp_dispatch_decide in Edd.
    destruct (tcp_seq_to_transmit cx s1) as [[|]|e|]; cbn [obind] in Edd; try discriminate; [inversion Edd; reflexivity|].
    destruct (tcp_ack_to_transmit s1 && tcp_delayed_ack_expired s1 (cx_now cx)); [inversion Edd; reflexivity|].
    destruct (tcp_window_to_update s1) as [[|]|e|]; cbn [obind] in Edd; try discriminate; [inversion Edd; reflexivity|].
    destruct (tcp_state_eqb (s_state s1) Closed); [inversion Edd; reflexivity|].
    destruct (timer_should_keep_alive (s_timer s1) (cx_now cx)); [inversion Edd; reflexivity|].
    destruct (timer_should_zero_window_probe (s_timer s1) (cx_now cx)); [inversion Edd; reflexivity|].
    destruct (timer_should_close (s_timer s1) (cx_now cx)) eqn:Hcl; [|inversion Edd; reflexivity].
    exfalso.
    assert (Hc : timer_is_close (s_timer s1) = true) by (destruct (s_timer s1); try discriminate; reflexivity).
    destruct (li_close s1 I1 Hc) as [X1 | X1]; rewrite D3 in X1; discriminate. }
  subst s2.
  destruct (negb go); [inversion H; subst; auto|].
  obind_inv H. destruct a as ((((s3, o), z), k), t3). rename E into Ebd.
  destruct (build_core _ _ _ _ _ _ _ _ Ebd) as ((C1 & C2 & C3 & C4 & C5 & C6 & C7 & _) & _).
  destruct o as [repr|]; [|inversion H; subst; rewrite C1, C4, C5, C7; auto].
  destruct (negb ok); [inversion H; subst; rewrite C1, C4, C5, C7; auto|].
  pose proof (finish_core cx s3 repr z k) as (F1 & F2 & F3 & F4).
  destruct (tcp_dispatch_finish cx s3 repr z k) as (s4, t4). cbn [fst] in *.
  inversion H; subst. rewrite F1, F2, F3, F4, C1, C4, C5, C7. auto.
Qed.

Lemma finish_timer_retransmit : forall cx s repr e,
  s_timer s = TRetransmit e ->
  s_timer (fst (tcp_dispatch_finish cx s repr false false)) = TRetransmit e.
Proof.
  intros cx s repr e Ht. unfold tcp_dispatch_finish. sproj. rewrite Ht.
  cbn [timer_rewind_keep_alive]. 
  destruct (repr_segment_len repr >? 0); cbn [andb]; sproj; cbn [timer_is_retransmit negb andb]; sproj;
    destruct (tcp_state_eqb (s_state s) Closed); cbn [fst]; sproj; reflexivity.
Qed.

(* a retransmission timer that is not due survives the dispatch *)
Theorem dispatch_not_due : forall cx s t ok s' res tags e,
  tcp_live_inv s -> s_state s = Established -> s_timeout s = None ->
  s_tuple s = Some t -> tu_local_addr t = cx_addr cx ->
  s_timer s = TRetransmit e -> cx_now cx < e ->
  tcp_dispatch cx s ok = Ok (s', res, tags) -> s_timer s' = TRetransmit e.
Proof.
  intros cx s t ok s' res tags e I Hst Hto Htu Haddr Ht He H. unfold tcp_dispatch in H.
  rewrite Htu, Haddr, Z.eqb_refl in H. cbn [negb] in H.
  obind_inv H. destruct a as (s1, t1). rename E into Edt.
  pose proof (dt_pre_core cx s) as (Q1 & Q2 & _).
  pose proof (not_timed_out (dt_pre cx s) (cx_now cx) ltac:(rewrite dt_pre_timeout; exact Hto)) as Hnto.
  assert (T1 : s_timer s1 = TRetransmit e).
  { destruct (dt_spec _ _ _ _ Edt) as [(X & _) | [(_ & _ & ->) | (_ & X & _)]].
    - rewrite Hnto in X. discriminate.
    - rewrite Q2. exact Ht.
    - rewrite Q2, Ht in X. cbn in X. lia. }
  obind_inv H. destruct a as ((s2, go), t2). rename E into Edd.
  assert (T2 : s_timer s2 = TRetransmit e).
  { unfold tcp_dispatch_decide in Edd.
    destruct (tcp_seq_to_transmit cx s1) as [[|]|e0|]; cbn [obind] in Edd; try discriminate; [inversion Edd; subst; exact T1|].
    destruct (tcp_ack_to_transmit s1 && tcp_delayed_ack_expired s1 (cx_now cx)); [inversion Edd; subst; exact T1|].
    destruct (tcp_window_to_update s1) as [[|]|e0|]; cbn [obind] in Edd; try discriminate; [inversion Edd; subst; exact T1|].
    destruct (tcp_state_eqb (s_state s1) Closed); [inversion Edd; subst; exact T1|].
    destruct (timer_should_keep_alive (s_timer s1) (cx_now cx)); [inversion Edd; subst; exact T1|].
    destruct (timer_should_zero_window_probe (s_timer s1) (cx_now cx)); [inversion Edd; subst; exact T1|].
    destruct (timer_should_close (s_timer s1) (cx_now cx)) eqn:Hcl; [|inversion Edd; subst; exact T1].
    rewrite T1 in Hcl. discriminate. }
  destruct (negb go); [inversion H; subst; exact T2|].
  obind_inv H. destruct a as ((((s3, o), z), k), t3). rename E into Ebd.
  destruct (build_core _ _ _ _ _ _ _ _ Ebd) as ((_ & C2 & _) & Hz & Hk).
  rewrite T2 in C2.
  destruct o as [repr|]; [|inversion H; subst; exact C2].
  destruct (negb ok); [inversion H; subst; exact C2|].
  assert (Ez : z = false) by (destruct z; [specialize (Hz eq_refl); rewrite C2 in Hz; discriminate | reflexivity]).
  assert (Ek : k = false) by (destruct k; [specialize (Hk eq_refl); rewrite C2 in Hk; discriminate | reflexivity]).
  subst z k. pose proof (finish_timer_retransmit cx s3 repr e C2) as F.
  destruct (tcp_dispatch_finish cx s3 repr false false) as (s4, t4). cbn [fst] in F.
  inversion H; subst. exact F.
Qed.

(* ---------------------------------------------------------------------------------------- *)
(* emissions that start at SND.UNA                                                           *)
(* ---------------------------------------------------------------------------------------- *)
Lemma idle_not_due : forall t now, timer_is_idle t = true ->
  timer_should_retransmit t now = false /\ timer_should_zero_window_probe t now = false.
Proof. intros [k|e| |e d|e] now H; try discriminate. split; reflexivity. Qed.

(* nothing in flight (idle timer), something unacknowledged, window not closed: the dispatch sends a
   segment that starts at SND.UNA and occupies sequence space, and arms the retransmission timer *)
Theorem idle_transmits : forall cx s s' res tags,
  tcp_live_inv s -> tcp_need s ->
  timer_is_idle (s_timer s) = true -> s_remote_last_seq s = s_local_seq_no s ->
  s_timeout s = None ->
  (forall t, s_tuple s = Some t -> tu_local_addr t = cx_addr cx) ->
  (0 < rb_len (s_tx_buffer s) -> s_remote_win_len s <> 0) ->
  mss_ok cx s ->
  tcp_dispatch cx s true = Ok (s', res, tags) ->
  exists ip repr,
    res = DSent (ip, repr) /\
    r_seq_number repr = s_local_seq_no s /\ 0 < repr_segment_len repr /\
    (exists e', s_timer s' = TRetransmit e' /\ cx_now cx < e' <= cx_now cx + max_rto_us) /\
    s_local_seq_no s' = s_local_seq_no s /\ s_state s' = s_state s.
Proof.
  intros cx s s' res tags I N Hidle Hfl Hto Haddr Hw Hmss H. unfold tcp_dispatch in H.
  pose proof (need_live s I N) as L.
  pose proof (li_tuple s I (live_conn _ L)) as Htu.
  destruct (s_tuple s) as [t|] eqn:Etu; [|congruence].
  rewrite (Haddr t eq_refl), Z.eqb_refl in H. cbn [negb] in H.
  obind_inv H. destruct a as (s1, t1). rename E into Edt.
  pose proof (dispatch_timers_inv _ _ _ _ I Edt) as I1.
  pose proof (dt_pre_core cx s) as C. pose proof C as (Q1 & Q2 & Q3 & Q4 & Q5 & Q6 & Q7 & Q8 & Q9 & Q10 & Q11).
  pose proof (not_timed_out (dt_pre cx s) (cx_now cx) ltac:(rewrite dt_pre_timeout; exact Hto)) as Hnto.
  destruct (idle_not_due _ (cx_now cx) Hidle) as (Hnr & Hnz).
  assert (E1 : s1 = dt_pre cx s).
  { destruct (dt_spec _ _ _ _ Edt) as [(X & _) | [(_ & _ & ->) | (_ & X & _)]]; [|reflexivity|].
    - rewrite Hnto in X. discriminate.
    - rewrite Q2, Hnr in X. discriminate. }
  subst s1.
  assert (N1 : tcp_need (dt_pre cx s)) by (unfold tcp_need in *; rewrite Q1, Q4; exact N).
  assert (Hfl1 : s_remote_last_seq (dt_pre cx s) = s_local_seq_no (dt_pre cx s)) by congruence.
  assert (Hw1 : 0 < rb_len (s_tx_buffer (dt_pre cx s)) -> s_remote_win_len (dt_pre cx s) <> 0)
    by (rewrite Q4, Q7; exact Hw).
  assert (Hmss1 : mss_ok cx (dt_pre cx s)) by (unfold mss_ok in *; rewrite Q11; exact Hmss).
  assert (Hzp1 : timer_should_zero_window_probe (s_timer (dt_pre cx s)) (cx_now cx) = false)
    by (rewrite Q2; exact Hnz).
  revert Edt I1 H Q1 Q2 Q5 N1 Hfl1 Hw1 Hmss1 Hzp1. generalize (dt_pre cx s).
  intros s1 Edt I1 H Q1 Q2 Q5 N1 Hfl1 Hw1 Hmss1 Hzp1.
  obind_inv H. destruct a as ((s2, go), t2). rename E into Edd.
  assert (Hgo : s2 = s1 /\ go = true).
  { unfold tcp_dispatch_decide in Edd.
    destruct (tcp_seq_to_transmit cx s1) as [[|]|e0|] eqn:Estt; cbn [obind] in Edd; try discriminate.
    - inversion Edd; auto.
    - exfalso. exact (stt_when_idle cx s1 I1 N1 Hfl1 Hw1 Estt). }
  destruct Hgo as (-> & ->). cbn [negb] in H.
  obind_inv H. destruct a as ((((s3, o), z), k), t3). rename E into Ebd.
  destruct (build_core _ _ _ _ _ _ _ _ Ebd) as (C3 & _).
  destruct (build_sends _ _ _ _ _ _ _ _ I1 N1 Hmss1 Hfl1 Hw1 Hzp1 Ebd) as (repr & -> & -> & -> & Hseq & Hlen).
  cbn [negb] in H.
  pose proof (inv_core_eq _ _ C3 I1) as I3.
  destruct C3 as (C31 & C32 & _ & _ & C35 & _).
  assert (L3 : st_live (s_state s3) = true) by (rewrite C31, Q1; exact L).
  assert (T3 : timer_is_idle (s_timer s3) = true \/
               exists e1, s_timer s3 = TRetransmit e1 /\ cx_now cx < e1 <= cx_now cx + max_rto_us)
    by (left; rewrite C32, Q2; exact Hidle).
  pose proof (finish_rearms cx s3 repr I3 L3 Hlen T3) as (F1 & F2 & F3).
  destruct (tcp_dispatch_finish cx s3 repr false false) as (s4, t4). cbn [fst] in *.
  inversion H; subst s' res tags; clear H.
  eexists. exists repr. split; [reflexivity|].
  split; [congruence|]. split; [exact Hlen|]. split; [exact F1|]. split; congruence.
Qed.

(* the fast-retransmit timer fires: the pending flag is set and the retransmission timer re-armed *)
Lemma dt_fast : forall cx s s1 tg,
  tcp_live_inv s -> s_timeout s = None -> s_timer s = TFastRetransmit ->
  tcp_dispatch_timers cx s = Ok (s1, tg) ->
  s_state s1 = s_state s /\ s_tx_buffer s1 = s_tx_buffer s /\
  s_local_seq_no s1 = s_local_seq_no s /\ s_remote_win_len s1 = s_remote_win_len s /\
  s_remote_mss s1 = s_remote_mss s /\ s_tuple s1 = s_tuple s /\
  s_tsval_generator s1 = s_tsval_generator s /\
  s_pending_fast_retransmit s1 = true /\
  exists e1, s_timer s1 = TRetransmit e1 /\ cx_now cx < e1 <= cx_now cx + max_rto_us.
Proof.
  intros cx s s1 tg I Hto Ht H. unfold tcp_dispatch_timers in H. fold (dt_pre cx s) in H.
  pose proof (dt_pre_core cx s) as (C1 & C2 & C3 & C4 & C5 & C6 & C7 & C8 & C9 & C10 & C11).
  pose proof (dt_pre_misc cx s) as (M1 & _ & _).
  assert (Cg : s_tsval_generator (dt_pre cx s) = s_tsval_generator s)
    by (unfold dt_pre; destruct (is_some (s_remote_last_ts s)); sproj; reflexivity).
  pose proof (rto_le_max _ (li_rtte s I)) as Hr. rewrite <- C10 in Hr.
  revert H C1 C2 C3 C4 C5 C6 C7 C8 C9 C10 C11 M1 Cg Hr. generalize (dt_pre cx s).
  intros q H C1 C2 C3 C4 C5 C6 C7 C8 C9 C10 C11 M1 Cg Hr.
  assert (Hnto : tcp_timed_out q (cx_now cx) = false).
  { unfold tcp_timed_out. rewrite M1, Hto. destruct (s_remote_last_ts q); reflexivity. }
  rewrite Hnto, C2, Ht in H. cbn [timer_should_retransmit] in H.
  obind_inv H. sproj in H. inversion H; subst s1 tg; clear H. sproj.
  rewrite C1, C3, C4, C5, C7, C11, Cg.
  repeat (split; [reflexivity|]). eexists. split; [reflexivity|].
  unfold rtte_retransmission_timeout in *. cbn [rt_rto rtte_on_retransmit] in *. lia.
Qed.

(* dispatch's data builder on the fast-retransmit path: from SND.UNA *)
Lemma build_data_fast : forall cx s t s3 o z tg,
  rb_wf (s_tx_buffer s) -> mss_ok cx s ->
  s_pending_fast_retransmit s = true -> 0 < s_remote_win_len s -> 0 < rb_len (s_tx_buffer s) ->
  tcp_dispatch_build_data cx s (base_repr cx s t) = Ok (s3, o, z, tg) ->
  exists r', o = Some r' /\ z = false /\ r_seq_number r' = s_local_seq_no s /\
             0 < repr_segment_len r' /\ r_control r' <> CSyn /\
             s3 = upd_pending_fast_retransmit s false.
Proof.
  intros cx s t s3 o z tg Hwf Hmss Hp Hwin Hlen H. unfold tcp_dispatch_build_data in H.
  rewrite base_repr_options, (local_mss_ok cx s Hmss) in H. cbn [obind] in H.
  set (emss := sat_sub (Z.min (cx_ip_mtu cx - wipv4_HEADER_LEN - wtcp_HEADER_LEN) (s_remote_mss s))
                       (if s_tsval_generator s then 12 else 0)) in *.
  assert (Hem : 0 < emss).
  { unfold emss, sat_sub. destruct Hmss as (_ & Hm). destruct (s_tsval_generator s); lia. }
  rewrite Hp in H. assert (Hg : (s_remote_win_len s >? 0) = true) by lia. rewrite Hg in H.
  cbn [andb obind] in H.
  set (sz := Z.min (Z.min emss (rb_len (s_tx_buffer s))) (s_remote_win_len s)) in *.
  assert (Hpp : 0 < l_len (rb_get_allocated (s_tx_buffer s) 0 sz))
    by (apply ga_nonempty; [exact Hwf | lia | unfold sz; lia]).
  cbv zeta beta iota in H. sproj in H.
  cbn [r_payload repr_set_payload repr_set_seq base_repr] in H.
  match type of H with context [if ?b then _ else _] => destruct b end.
  - destruct (s_state s);
      try (destruct (rb_get_allocated (s_tx_buffer s) 0 sz) eqn:Ega; [cbn in Hpp; lia|]);
      inversion H; subst; eexists; (split; [reflexivity|]); (split; [reflexivity|]);
      (split; [reflexivity|]);
      (split; [eapply Z.lt_le_trans; [exact Hpp | rewrite ?Ega; apply (seglen_payload (mkRepr _ _ _ _ _ _ _ _ _ _ _ _))]|]);
      (split; [cbn; discriminate | reflexivity]).
  - inversion H; subst; eexists; (split; [reflexivity|]); (split; [reflexivity|]);
      (split; [reflexivity|]);
      (split; [eapply Z.lt_le_trans; [exact Hpp | apply (seglen_payload (mkRepr _ _ _ _ _ _ _ _ _ _ _ _))]|]);
      (split; [cbn; discriminate | reflexivity]).
Qed.

(* FastRetransmit (third duplicate ACK) with the window believed open: the dispatch sends the oldest
   unacknowledged octets again (from SND.UNA), and the retransmission timer keeps running *)
Theorem fast_retransmits : forall cx s s' res tags,
  tcp_live_inv s -> s_state s = Established ->
  s_timer s = TFastRetransmit ->
  0 < rb_len (s_tx_buffer s) -> 0 < s_remote_win_len s ->
  s_timeout s = None ->
  (forall t, s_tuple s = Some t -> tu_local_addr t = cx_addr cx) ->
  mss_ok cx s ->
  tcp_dispatch cx s true = Ok (s', res, tags) ->
  exists ip repr,
    res = DSent (ip, repr) /\
    r_seq_number repr = s_local_seq_no s /\ 0 < repr_segment_len repr /\
    (exists e', s_timer s' = TRetransmit e' /\ cx_now cx < e' <= cx_now cx + max_rto_us) /\
    s_local_seq_no s' = s_local_seq_no s /\ s_state s' = s_state s.
Proof.
  intros cx s s' res tags I Hst Ht Hlen Hwin Hto Haddr Hmss H. unfold tcp_dispatch in H.
  assert (L : st_live (s_state s) = true) by (rewrite Hst; reflexivity).
  pose proof (li_tuple s I (live_conn _ L)) as Htu.
  destruct (s_tuple s) as [t|] eqn:Etu; [|congruence].
  rewrite (Haddr t eq_refl), Z.eqb_refl in H. cbn [negb] in H.
  obind_inv H. destruct a as (s1, t1). rename E into Edt.
  pose proof (dispatch_timers_inv _ _ _ _ I Edt) as I1.
  destruct (dt_fast _ _ _ _ I Hto Ht Edt) as (D1 & D2 & D3 & D4 & D5 & D6 & D7 & D8 & e1 & D9 & D10).
  obind_inv H. destruct a as ((s2, go), t2). rename E into Edd.
  assert (Hgo : s2 = s1 /\ go = true).
  { unfold tcp_dispatch_decide, tcp_seq_to_transmit in Edd.
    rewrite D8, D2, D4 in Edd. rewrite (rb_is_empty_false _ Hlen) in Edd.
    assert (Hg : (s_remote_win_len s >? 0) = true) by lia. rewrite Hg in Edd.
    cbn [negb andb obind] in Edd. inversion Edd; auto. }
  destruct Hgo as (-> & ->). cbn [negb] in H.
  obind_inv H. destruct a as ((((s3, o), z), k), t3). rename E into Ebd.
  destruct (build_core _ _ _ _ _ _ _ _ Ebd) as (C3 & _).
  assert (Hb : exists repr, o = Some repr /\ z = false /\ k = false /\
                            r_seq_number repr = s_local_seq_no s /\ 0 < repr_segment_len repr).
  { unfold tcp_dispatch_build in Ebd.
    change (mkRepr (tu_local_port t) (tu_remote_port t) CNone (s_remote_last_seq s1)
              (Some (tcp_window_start s1)) (tcp_scaled_window s1) None None false no_sack
              (if s_tsval_generator s1 then Some (cx_tsval cx, s_last_remote_tsval s1) else None) [])
      with (base_repr cx s1 t) in Ebd.
    obind_inv Ebd. destruct a as (((sb, ob), zb), tb). rewrite D1, Hst in E.
    assert (Hmss1 : mss_ok cx s1) by (unfold mss_ok in *; rewrite D5; exact Hmss).
    destruct (build_data_fast cx s1 t sb ob zb tb (li_tx s1 I1) Hmss1 D8 ltac:(rewrite D4; exact Hwin)
                ltac:(rewrite D2; exact Hlen) E) as (r0 & -> & -> & Hseq & Hl & _ & ->).
    cbv zeta in Ebd. rewrite (seglen_nonempty _ Hl) in Ebd. cbn [andb] in Ebd.
    rewrite ?(seglen_nonempty _ Hl), ?andb_false_r in Ebd.
    rewrite (local_mss_ok cx s1 Hmss1) in Ebd. cbn [obind] in Ebd.
    destruct (control_eqb (r_control r0) CSyn); inversion Ebd; subst; eexists;
      (split; [reflexivity|]); (split; [reflexivity|]); (split; [reflexivity|]);
      (split; [cbn [r_seq_number]; rewrite Hseq; exact D3 | exact Hl]). }
  destruct Hb as (repr & -> & -> & -> & Hseq & Hl).
  cbn [negb] in H.
  pose proof (inv_core_eq _ _ C3 I1) as I3.
  destruct C3 as (C31 & C32 & _ & _ & C35 & _).
  assert (L3 : st_live (s_state s3) = true) by (rewrite C31, D1; exact L).
  assert (T3 : timer_is_idle (s_timer s3) = true \/
               exists e1, s_timer s3 = TRetransmit e1 /\ cx_now cx < e1 <= cx_now cx + max_rto_us)
    by (right; exists e1; rewrite C32; auto).
  pose proof (finish_rearms cx s3 repr I3 L3 Hl T3) as (F1 & F2 & F3).
  destruct (tcp_dispatch_finish cx s3 repr false false) as (s4, t4). cbn [fst] in *.
  inversion H; subst s' res tags; clear H.
  eexists. exists repr. split; [reflexivity|].
  split; [exact Hseq|]. split; [exact Hl|]. split; [exact F1|]. split; congruence.
Qed.

(* ---------------------------------------------------------------------------------------- *)
(* poll_at while octets are unacknowledged                                                   *)
(* ---------------------------------------------------------------------------------------- *)
Definition pa_le (p : poll_at) (e : Z) : Prop :=
  match p with PNow => True | PTime t => t <= e | PIngress => False end.

Lemma pa_le_min_l : forall a b e, pa_le a e -> pa_le (poll_at_min a b) e.
Proof.
  intros [|x|] [|y|] e H; cbn in *; try tauto. destruct (Z.leb_spec x y); cbn; lia.
Qed.

(* SND.UNA has unacknowledged successors, the window is believed open (or nothing is queued) and
   no probe timer runs: poll_at is Now, or an instant no later than the retransmission deadline *)
Theorem poll_at_ready : forall cx s,
  tcp_live_inv s -> tcp_need s ->
  timer_is_zero_window_probe (s_timer s) = false ->
  (0 < rb_len (s_tx_buffer s) -> s_remote_win_len s <> 0) ->
  match tcp_poll_at cx s with
  | Ok PNow => True
  | Ok (PTime t) => exists e, s_timer s = TRetransmit e /\ t <= e
  | Ok PIngress => False
  | _ => True
  end.
Proof.
  intros cx s I N Hnz Hw. unfold tcp_poll_at.
  pose proof (need_live s I N) as L.
  rewrite (is_some_true _ _ (li_tuple s I (live_conn _ L))). cbn [negb].
  destruct (is_some (s_remote_last_ts s)); cbn [negb]; [|exact Logic.I].
  destruct (tcp_state_eqb (s_state s) Closed); [exact Logic.I|].
  destruct (tcp_seq_to_transmit cx s) as [[|]|e|] eqn:Hstt; cbn [obind]; try exact Logic.I.
  destruct (li_K s I L) as [Ha | (Hfl & Hw')].
  2:{ exfalso. exact (stt_when_idle cx s I N Hfl Hw' Hstt). }
  destruct (tcp_window_to_update s) as [[|]|e|]; cbn [obind]; try exact Logic.I.
  destruct (s_timer s) as [k|e| |e d|e] eqn:Ht; try discriminate.
  - (* retransmit *)
    match goal with |- match ?p with _ => _ end =>
      assert (Hle : pa_le p e) by (apply pa_le_min_l, pa_le_min_l; cbn; lia); destruct p end;
      cbn in Hle; try tauto. exists e. split; [reflexivity | exact Hle].
  - (* fast retransmit *)
    cbn [timer_poll_at poll_at_min]. exact Logic.I.
Qed.

(* ---------------------------------------------------------------------------------------- *)
(* process: either SND.UNA advances (the queue shrinks) or the retransmission deadline stays  *)
(* ---------------------------------------------------------------------------------------- *)
Lemma ack_check_ret_core : forall cx s ip r tg s1 reply,
  tcp_process_ack_check cx s ip r = Ok (Ret tg s1 reply) -> core_eq s s1.
Proof.
  intros cx s ip r tg s1 reply H. unfold tcp_process_ack_check in H.
  pose proof (challenge_ack_core cx s ip r) as C.
  destruct (s_state s); destruct (r_control r); destruct (r_ack_number r);
    repeat match type of H with
           | context [if ?b then _ else _] => destruct b
           | (do _ <- ?m; _) = _ => destruct m; cbn [obind] in H
           | (let '(_, _) := ?m in _) = _ => destruct m
           end; try discriminate; inversion H; subst; try apply core_eq_refl; exact C.
Qed.

Lemma window_ret_core : forall cx s ip r tg s' reply,
  s_state s <> TimeWait ->
  tcp_process_window cx s ip r = Ok (Ret tg s' reply) -> core_eq s s'.
Proof.
  intros cx s ip r tg s' reply Hntw H. unfold tcp_process_window in H.
  destruct (s_state s) eqn:Hst; try discriminate; try congruence.
  all: cbv zeta in H; destruct (tcp_segment_in_window _ _ _ _) as (inw, t0); destruct inw;
    [destruct (negb (seq_le _ _)); [discriminate|];
     repeat (match type of H with (do _ <- ?m; _) = _ => destruct m; cbn [obind] in H end);
     discriminate|].
  all: destruct (control_eqb (r_control r) CRst); [inversion H; subst; apply core_eq_refl|].
  all: cbn [tcp_state_eqb] in H.
  all: pose proof (ack_reply_core cx s ip r) as Ca; pose proof (challenge_ack_core cx s ip r) as Cc;
       destruct (tcp_ack_reply cx s ip r) as (sa, pa);
       destruct (tcp_challenge_ack_reply cx s ip r) as (sc, pc); cbn [fst] in *.
  all: match type of H with (if ?b then _ else _) = _ => destruct b end;
       inversion H; subst; assumption.
Qed.

Lemma update_remote_tx_same : forall cx s r al s4 wu,
  tcp_process_update_remote cx s r al = Ok (s4, wu) -> al <= 0 -> s_tx_buffer s4 = s_tx_buffer s.
Proof.
  intros cx s r al s4 wu H Hal. unfold tcp_process_update_remote in H. sproj in H.
  destruct (Z.gtb_spec al 0); [lia|]. inversion H; subst. sproj. reflexivity.
Qed.

Lemma timer_class_no_progress : forall t t5 now ka ka' rto rto' aall w len fl,
  timer_is_zero_window_probe t = false -> (t5 = t \/ t5 = TFastRetransmit) ->
  let t7 := zwp_fn (timers_fn t5 now ka rto 0 aall) now ka' rto' 0 w len fl in
  t7 = t \/ t7 = TFastRetransmit \/ timer_is_idle t7 = true \/ timer_is_zero_window_probe t7 = true.
Proof.
  intros t t5 now ka ka' rto rto' aall w len fl Hnz Ht5 t7. unfold t7, zwp_fn, timers_fn.
  destruct Ht5 as [-> | ->];
    destruct t as [k|e| |e d|e]; try discriminate; destruct aall;
    destruct (w =? 0); destruct (len =? 0); destruct fl; cbn; auto 6.
Qed.

(* ESTABLISHED: an acknowledgement that passes the ACK check lies in [SND.UNA, SND.UNA + queue] *)
Lemma u32_sq_self : forall a, u32 a -> a = sq (a + 0).
Proof. intros a H. rewrite Z.add_0_r. symmetry. apply sq_small. exact H. Qed.

Lemma ack_check_established : forall cx s ip r tg,
  s_state s = Established -> r_control r <> CRst ->
  u32 (s_local_seq_no s) -> 0 <= rb_len (s_tx_buffer s) < 2 ^ 31 ->
  (match r_ack_number r with Some a => u32 a | None => True end) ->
  tcp_process_ack_check cx s ip r = Ok (Cont tg tt) ->
  exists d, r_ack_number r = Some (sq (s_local_seq_no s + d)) /\ 0 <= d <= rb_len (s_tx_buffer s).
Proof.
  intros cx s ip r tg Hst Hnr Hu Hlen Ha H. unfold tcp_process_ack_check in H. rewrite Hst in H.
  unfold tcp_sent_syn, tcp_sent_fin in H. rewrite Hst in H. cbn [b2z] in H.
  destruct (r_control r) eqn:Hc; try congruence;
    destruct (r_ack_number r) as [a|] eqn:Hack; try discriminate.
  all: rewrite (seq_add_zero _ Hu) in H; change (0 + 0) with 0 in H; rewrite Z.add_0_r in H.
  all: destruct (seq_lt a (s_local_seq_no s)) eqn:Hlt; [discriminate|].
  all: destruct (seq_gt a (seq_add (s_local_seq_no s) (rb_len (s_tx_buffer s)))) eqn:Hgt;
       [destruct (tcp_challenge_ack_reply cx s ip r); discriminate|].
  all: set (d := seq_sdiff a (s_local_seq_no s)).
  all: assert (Hd : 0 <= d < 2 ^ 31)
         by (unfold d; unfold seq_lt in Hlt; pose proof (TcpRecvBase.seq_sdiff_range a (s_local_seq_no s));
             change (2 ^ 31) with 2147483648; lia).
  all: assert (Ea : a = sq (s_local_seq_no s + d))
         by (unfold d; rewrite (TcpRecvBase.seq_norm_of_sdiff a (s_local_seq_no s)) at 1; [reflexivity|];
             unfold u32 in Ha; change (2 ^ 32) with 4294967296 in Ha; lia).
  all: exists d; split; [rewrite Ea; reflexivity|].
  all: rewrite Ea, seq_add_raw in Hgt;
       rewrite seq_gt_sq in Hgt by (change (2 ^ 31) with 2147483648 in *; lia); lia.
Qed.

Lemma ack_len_established : forall s r al aof aall d,
  s_state s = Established -> u32 (s_local_seq_no s) -> 0 <= d < 2 ^ 31 ->
  r_ack_number r = Some (sq (s_local_seq_no s + d)) -> r_control r <> CRst ->
  tcp_process_ack_len s r = Ok (al, aof, aall) ->
  aof = false /\ al = d.
Proof.
  intros s r al aof aall d Hst Hu Hd Hack Hnr H. unfold tcp_process_ack_len in H.
  unfold tcp_sent_syn, tcp_sent_fin in H. rewrite Hst, Hack in H.
  assert (Hc : control_eqb (r_control r) CRst = false) by (destruct (r_control r); try reflexivity; congruence).
  rewrite Hc in H. cbn [b2z andb] in H. rewrite (seq_add_zero _ Hu) in H.
  set (u := s_local_seq_no s) in *.
  assert (Hge : seq_ge (sq (u + d)) u = true).
  { rewrite (u32_sq_self u Hu) at 2. rewrite seq_ge_sq by (change (2 ^ 31) with 2147483648 in *; lia). lia. }
  assert (Hsub : seq_sub (sq (u + d)) u = Ok d).
  { rewrite (u32_sq_self u Hu) at 2. rewrite seq_sub_sq by (change (2 ^ 31) with 2147483648 in *; lia).
    destruct (Z.ltb_spec d 0); [lia|]. f_equal. lia. }
  rewrite Hge, Hsub in H. cbn [obind] in H.
  inversion H; subst. split; reflexivity.
Qed.

(* SENDER, ANY SEGMENT.  An ESTABLISHED socket (no probe timer running) processes any parsed segment
   and stays ESTABLISHED: either the transmit queue shrinks (SND.UNA advanced: progress), or SND.UNA,
   the queue and - up to "fast retransmit now" / "idle, nothing in flight" / "probe armed because
   the window closed" - the retransmission timer are exactly as before. *)
Theorem process_sender_step : forall cx s ip r s' reply tags,
  ctx_ok cx -> seg_ok r -> tcp_live_inv s ->
  s_state s = Established -> s_state s' = Established ->
  timer_is_zero_window_probe (s_timer s) = false ->
  rb_len (s_tx_buffer s) < 2 ^ 31 ->
  tcp_process cx s ip r = Ok (s', reply, tags) ->
  rb_len (s_tx_buffer s') < rb_len (s_tx_buffer s) \/
  (s_local_seq_no s' = s_local_seq_no s /\ s_tx_buffer s' = s_tx_buffer s /\
   (s_timer s' = s_timer s \/ s_timer s' = TFastRetransmit \/ timer_is_idle (s_timer s') = true \/
    timer_is_zero_window_probe (s_timer s') = true)).
Proof.
  intros cx s ip r s' reply tags Hcx Hseg I Hst Hst' Hnz Htxb H. unfold tcp_process in H.
  destruct (negb (tcp_accepts s ip r)); [discriminate|].
  assert (Hcore : forall q, core_eq s q ->
            s_local_seq_no q = s_local_seq_no s /\ s_tx_buffer q = s_tx_buffer s /\
            (s_timer q = s_timer s \/ s_timer q = TFastRetransmit \/ timer_is_idle (s_timer q) = true \/
             timer_is_zero_window_probe (s_timer q) = true)).
  { intros q (_ & C2 & _ & C4 & C5 & _). auto. }
  obind_inv H. rename a into p1. rename E into H1.
  destruct p1 as [t1 []|t1 s1 rep1].
  2:{ inversion H; subst s'. right. apply Hcore. exact (ack_check_ret_core _ _ _ _ _ _ _ H1). }
  obind_inv H. rename a into p2. rename E into H2.
  pose proof (process_window_spec _ _ _ _ _ H2 I) as P2.
  destruct p2 as [t2 ((s2, payload), off)|t2 s2r rep2].
  2:{ inversion H; subst s'. right. apply Hcore. apply (window_ret_core _ _ _ _ _ _ _ ltac:(rewrite Hst; discriminate) H2). }
  pose proof (inv_core_eq _ _ P2 I) as I2.
  pose proof P2 as (C1 & C2 & C3 & C4 & C5 & C6 & C7 & C8 & C9 & C10 & C11).
  obind_inv H. destruct a as ((al, aof), aall). rename E into Hal.
  obind_inv H. rename a into p3. rename E into H3.
  destruct (quash_spec s2 r) as (Qr & Qs & Qp).
  assert (Hst2 : s_state s2 = Established) by congruence.
  unfold tcp_process_transition in H3. rewrite Hst2 in H3.
  destruct (tcp_process_quash s2 r) eqn:Hq; try (exfalso; apply Qp; reflexivity).
  - (* CNone: the normal path *)
    inversion H3; subst p3; clear H3.
    assert (Hnr : r_control r <> CRst) by (intros X; apply Qr in X; congruence).
    pose proof (inv_weak _ I2) as W3.
    obind_inv H. destruct a as (s4, wu). rename E into H4.
    destruct (update_remote_spec _ _ _ _ _ _ H4 W3 Hseg) as (W4 & S4 & T4 & U4 & N4 & _ & L4).
    obind_inv H. destruct a as (s5, t5). rename E into H5.
    destruct (dup_ack_spec _ _ _ _ _ _ _ H5 W4 Hseg) as (W5 & S5 & B5 & _ & _ & T5 & Seq5).
    pose proof (li_tx s I) as ((Htx0 & _) & _).
    destruct (ack_check_established _ _ _ _ _ Hst Hnr (li_una s I)
                ltac:(split; [lia | change (2 ^ 31) with 2147483648; lia]) ltac:(apply Hseg) H1)
      as (d & Hack & Hd).
    rewrite Hack in Seq5. destruct Seq5 as (U5 & N5).
    destruct (ack_len_established s2 r al aof aall d Hst2 ltac:(rewrite C5; apply (li_una s I))
                ltac:(change (2 ^ 31) with 2147483648; lia) ltac:(rewrite C5; exact Hack) Hnr Hal) as (-> & Ed).
    subst d.
    set (q5 := match r_timestamp r with
               | Some (tsval, _) => upd_last_remote_tsval s5 tsval
               | None => s5
               end) in *.
    assert (D5 : s_local_seq_no q5 = s_local_seq_no s5 /\ s_tx_buffer q5 = s_tx_buffer s5 /\
                 s_timer q5 = s_timer s5 /\ s_state q5 = s_state s5).
    { unfold q5. destruct (r_timestamp r) as [(tv, te)|]; sproj; auto. }
    destruct D5 as (D51 & D52 & D53 & D54). clearbody q5.
    pose proof (timers_spec cx q5 al aall) as P6.
    destruct (tcp_process_timers cx q5 al aall) as (s6, t6). cbn [fst] in P6.
    destruct P6 as ((F1 & _ & F3 & F4 & F5 & F6 & _) & Ft6).
    pose proof (zwp_spec cx s6 al) as P7.
    destruct (tcp_process_zwp cx s6 al) as (s7, t7). cbn [fst] in P7.
    destruct P7 as ((G1 & _ & G3 & G4 & _) & Ft7).
    obind_inv H. destruct a as ((s8, rep8), t8). rename E into H8.
    destruct (payload_core _ _ _ _ _ _ _ _ _ H8) as (P1 & P2' & _ & P4 & P5 & _).
    inversion H; subst s' reply tags; clear H.
    destruct (Z.eq_dec al 0) as [Eal | Nal].
    + (* nothing newly acknowledged *)
      right. subst al. assert (Ea : sq (s_local_seq_no s + 0) = s_local_seq_no s)
        by (symmetry; apply u32_sq_self; apply (li_una s I)).
      split; [rewrite P5, G4, F4, D51, U5; exact Ea|].
      split; [rewrite P4, G3, F3, D52, B5, (update_remote_tx_same _ _ _ _ _ _ H4 ltac:(lia)); exact C4|].
      rewrite P2', Ft7, Ft6, D53.
      apply timer_class_no_progress; [exact Hnz|].
      destruct T5 as [-> | ->]; [left; rewrite T4; exact C2 | right; reflexivity].
    + (* progress: the queue shrank *)
      left. rewrite P4, G3, F3, D52, B5, L4, C4.
      destruct (Z.gtb_spec al 0); lia.
  - (* SYN on a synchronised connection: ignored *)
    inversion H3; subst p3; clear H3. inversion H; subst s'. right. apply Hcore. exact P2.
  - (* FIN: CLOSE-WAIT, not ESTABLISHED any more *)
    exfalso. inversion H3; subst p3; clear H3.
    pose proof (inv_weak _ I2) as W2.
    set (s3 := tcp_set_state (tcp_fin_received s2) CloseWait) in *.
    assert (S3 : s_state s3 = CloseWait) by (unfold s3, tcp_fin_received; sproj; reflexivity).
    assert (W3 : tcp_weak_inv s3).
    { unfold s3, tcp_fin_received. weak_destruct W2. constructor; sproj; auto; try (intros; discriminate).
      - rewrite Hst2 in *. auto.
      - intros X. destruct (Wc X) as [Y|Y]; rewrite Hst2 in Y; discriminate. }
    clearbody s3.
    obind_inv H. destruct a as (s4, wu). rename E into H4.
    destruct (update_remote_spec _ _ _ _ _ _ H4 W3 Hseg) as (W4 & S4 & _).
    obind_inv H. destruct a as (s5, t5). rename E into H5.
    destruct (dup_ack_spec _ _ _ _ _ _ _ H5 W4 Hseg) as (W5 & S5 & _).
    set (q5 := match r_timestamp r with
               | Some (tsval, _) => upd_last_remote_tsval s5 tsval
               | None => s5
               end) in *.
    assert (D54 : s_state q5 = s_state s5) by (unfold q5; destruct (r_timestamp r) as [(tv, te)|]; sproj; auto).
    clearbody q5.
    pose proof (timers_spec cx q5 al aall) as P6.
    destruct (tcp_process_timers cx q5 al aall) as (s6, t6). cbn [fst] in P6.
    destruct P6 as ((F1 & _) & _).
    pose proof (zwp_spec cx s6 al) as P7.
    destruct (tcp_process_zwp cx s6 al) as (s7, t7). cbn [fst] in P7.
    destruct P7 as ((G1 & _) & _).
    obind_inv H. destruct a as ((s8, rep8), t8). rename E into H8.
    destruct (payload_core _ _ _ _ _ _ _ _ _ H8) as (P1 & _).
    inversion H; subst s'. rewrite P1, G1, F1, D54, S5, S4, S3 in Hst'. discriminate.
  - (* RST: CLOSED *)
    exfalso. inversion H3; subst p3; clear H3. inversion H; subst s'. sproj in Hst'. discriminate.
Qed.

(* ---------------------------------------------------------------------------------------- *)
(* an acknowledgement of new data IS accepted                                                *)
(* ---------------------------------------------------------------------------------------- *)
Lemma in_window_empty_sq : forall b W,
  0 <= W <= 2 ^ 30 ->
  fst (tcp_segment_in_window (sq (b + 0)) (sq (b + W)) (sq (b + 0)) (sq (b + 0))) = true.
Proof.
  intros b W HW. change (2 ^ 30) with 1073741824 in HW. unfold tcp_segment_in_window.
  rewrite seq_subn_sq. replace (b + 0 - 1) with (b + (0 - 1)) by lia.
  rewrite Z.eqb_refl.
  rewrite (sq_eqb b 0 (0 - 1)) by (change (2 ^ 32) with 4294967296; lia).
  rewrite (sq_eqb b 0 W) by (change (2 ^ 32) with 4294967296; lia).
  change (0 =? 0 - 1) with false. cbn [andb].
  destruct (Z.eqb_spec 0 W) as [E | E]; cbn [andb fst]; [reflexivity|].
  rewrite (seq_le_sq b 0 0), (seq_lt_sq b 0 W) by (change (2 ^ 31) with 2147483648; lia).
  destruct (Z.leb_spec 0 0); [|lia]. destruct (Z.ltb_spec 0 W); [|lia]. reflexivity.
Qed.

Lemma ack_check_in_range : forall cx s ip r d,
  s_state s = Established -> r_control r = CNone ->
  u32 (s_local_seq_no s) -> 0 <= d <= rb_len (s_tx_buffer s) -> rb_len (s_tx_buffer s) < 2 ^ 30 ->
  r_ack_number r = Some (sq (s_local_seq_no s + d)) ->
  tcp_process_ack_check cx s ip r = Ok (Cont 116 tt).
Proof.
  intros cx s ip r d Hst Hc Hu Hd Hl Ha. unfold tcp_process_ack_check. rewrite Hst, Hc, Ha.
  unfold tcp_sent_syn, tcp_sent_fin. rewrite Hst. cbn [b2z Z.add].
  rewrite (seq_add_zero _ Hu). change (0 + 0) with 0. rewrite Z.add_0_r.
  change (2 ^ 30) with 1073741824 in Hl.
  set (u := s_local_seq_no s) in *.
  assert (E1 : seq_lt (sq (u + d)) u = false).
  { rewrite (u32_sq_self u Hu) at 2. rewrite seq_lt_sq by (change (2 ^ 31) with 2147483648; lia). lia. }
  assert (E2 : seq_gt (sq (u + d)) (seq_add u (rb_len (s_tx_buffer s))) = false).
  { rewrite seq_add_raw. rewrite seq_gt_sq by (change (2 ^ 31) with 2147483648; lia). lia. }
  rewrite E1, E2. reflexivity.
Qed.

(* SENDER PROGRESS STEP.  An ESTABLISHED socket processes an empty segment that sits exactly at
   its RCV.NXT and acknowledges d > 0 octets of its queue: it is accepted, SND.UNA advances, the
   acknowledged octets leave the queue. *)
Theorem process_ack_advances : forall cx s ip r s' reply tags d W,
  ctx_ok cx -> seg_ok r -> tcp_live_inv s -> s_state s = Established ->
  r_control r = CNone -> r_payload r = [] ->
  r_seq_number r = tcp_window_start s ->
  tcp_window_end s = seq_norm (tcp_window_start s + W) -> 0 <= W <= 2 ^ 30 ->
  r_ack_number r = Some (sq (s_local_seq_no s + d)) ->
  0 < d <= rb_len (s_tx_buffer s) -> rb_len (s_tx_buffer s) < 2 ^ 30 ->
  tcp_process cx s ip r = Ok (s', reply, tags) ->
  rb_len (s_tx_buffer s') = rb_len (s_tx_buffer s) - d.
Proof.
  intros cx s ip r s' reply tags d W Hcx Hseg I Hst Hc Hp Hsq Hwe HW Hack Hd Hl H.
  unfold tcp_process in H.
  destruct (negb (tcp_accepts s ip r)); [discriminate|].
  rewrite (ack_check_in_range cx s ip r d Hst Hc (li_una s I) ltac:(lia) Hl Hack) in H. cbn [obind] in H.
  obind_inv H. rename a into p2. rename E into H2.
  pose proof (process_window_spec _ _ _ _ _ H2 I) as P2.
  destruct p2 as [t2 ((s2, payload), off)|t2 s2r rep2].
  2:{ (* the segment is in the window *)
      exfalso. unfold tcp_process_window in H2. rewrite Hst in H2. rewrite Hsq, Hwe, Hp in H2.
      change (l_len []) with 0 in H2.
      assert (Hws : tcp_window_start s = sq (tcp_window_start s + 0)).
      { rewrite Z.add_0_r. unfold tcp_window_start. rewrite seq_add_raw. unfold sq.
        rewrite Z.mod_mod by (change (2 ^ 32) with 4294967296; lia). reflexivity. }
      pose proof (in_window_empty_sq (tcp_window_start s) W HW) as Hin.
      rewrite <- Hws in Hin.
      assert (Hz : seq_add (tcp_window_start s) 0 = tcp_window_start s).
      { rewrite seq_add_raw. symmetry. exact Hws. }
      rewrite Hz in H2. change (seq_norm (tcp_window_start s + W)) with (sq (tcp_window_start s + W)) in H2.
      destruct (tcp_segment_in_window _ _ _ _) as (inw, tg). cbn [fst] in Hin. subst inw.
      destruct (negb (seq_le _ _)); [discriminate|].
      repeat match type of H2 with
             | (do _ <- ?m; _) = _ => destruct m; cbn [obind] in H2; try discriminate
             end. }
  pose proof (inv_core_eq _ _ P2 I) as I2.
  pose proof P2 as (C1 & C2 & C3 & C4 & C5 & C6 & C7 & C8 & C9 & C10 & C11).
  obind_inv H. destruct a as ((al, aof), aall). rename E into Hal.
  assert (Hnr : r_control r <> CRst) by (rewrite Hc; discriminate).
  assert (Hst2 : s_state s2 = Established) by congruence.
  destruct (ack_len_established s2 r al aof aall d Hst2 ltac:(rewrite C5; apply (li_una s I))
              ltac:(change (2 ^ 31) with 2147483648; change (2 ^ 30) with 1073741824 in Hl; lia)
              ltac:(rewrite C5; exact Hack) Hnr Hal) as (-> & Ed).
  subst al.
  assert (Hq : tcp_process_quash s2 r = CNone) by (unfold tcp_process_quash; rewrite Hc; reflexivity).
  rewrite Hq in H. unfold tcp_process_transition in H. rewrite Hst2 in H. cbn [obind] in H.
  pose proof (inv_weak _ I2) as W3.
  obind_inv H. destruct a as (s4, wu). rename E into H4.
  destruct (update_remote_spec _ _ _ _ _ _ H4 W3 Hseg) as (W4 & S4 & T4 & U4 & N4 & _ & L4).
  obind_inv H. destruct a as (s5, t5). rename E into H5.
  destruct (dup_ack_spec _ _ _ _ _ _ _ H5 W4 Hseg) as (W5 & S5 & B5 & _).
  set (q5 := match r_timestamp r with
             | Some (tsval, _) => upd_last_remote_tsval s5 tsval
             | None => s5
             end) in *.
  assert (D52 : s_tx_buffer q5 = s_tx_buffer s5)
    by (unfold q5; destruct (r_timestamp r) as [(tv, te)|]; sproj; auto).
  clearbody q5.
  pose proof (timers_spec cx q5 d aall) as P6.
  destruct (tcp_process_timers cx q5 d aall) as (s6, t6). cbn [fst] in P6.
  destruct P6 as ((_ & _ & F3 & _) & _).
  pose proof (zwp_spec cx s6 d) as P7.
  destruct (tcp_process_zwp cx s6 d) as (s7, t7). cbn [fst] in P7.
  destruct P7 as ((_ & _ & G3 & _) & _).
  obind_inv H. destruct a as ((s8, rep8), t8). rename E into H8.
  destruct (payload_core _ _ _ _ _ _ _ _ _ H8) as (_ & _ & _ & P4 & _).
  inversion H; subst s' reply tags; clear H.
  rewrite P4, G3, F3, D52, B5, L4, C4. destruct (Z.gtb_spec d 0); lia.
Qed.
