(* Lemmas about Model/WirePretty.v (property C07, pretty-printer clause).

   Shape of the development.  Every printer has a NORMAL FORM lemma ([pp_*_single], [pp_*_with_nf]):
   on a list of octets it either yields exactly one trace entry for the slice it was given, or
   that entry followed by whatever the printer it descends into yields on a payload slice [p] with
   [wb_sub bs lo (lo + blen p) = Ok p] (a genuine sub-slice of its own input, at least 8 octets in)
   - independently of what the printers it calls do.  From the normal forms:
     pp_*_total                no printer ever panics (for EVERY octet string);
     pp_*_fuel_suffices        the fuel of the IPv4-in-ICMPv4 recursion is never exhausted and its
                               amount is irrelevant (termination: every level recurses on a slice
                               at least 20 resp. 8 octets shorter, [pp_ipv4_with_ext] / [pp_icmpv4_with_ext]);
     pp_*_within               every slice a printer ran on lies inside the input, nested in its
                               parent's slice ([pp_chain]); hence at most len/8 + 1 lines;
     pp_*_compositional        every entry of the trace is what that entry's printer yields on the
                               octets input[off .. off+len]: the recorded offsets are the real ones. *)
From SV Require Import Lib.Base Gen.WireFields Model.WireBase Proofs.WireBaseProofs Proofs.WireBaseProofs2.
From SV Require Import Model.WireEth Proofs.WireEthProofs Model.WireArp Proofs.WireArpProofs.
From SV Require Import Model.WireUdp Proofs.WireUdpProofs Model.WireIpv4 Proofs.WireIpv4Proofs.
From SV Require Import Model.WireIpv6 Proofs.WireIpv6Proofs Model.WireIcmpv4 Proofs.WireIcmpv4Proofs.
From SV Require Import Model.WireTcp Proofs.WireTcpProofs Model.WireIgmp Proofs.WireIgmpProofs.
From SV Require Import Model.WireNdiscOpt Proofs.WireNdiscOptProofs.
From SV Require Import Model.WirePretty.

(* ---------- accessors are built from checked reads: they panic or succeed, never Err ---------- *)

Definition noerr {A} (x : outcome A) : Prop := forall e, x <> Err e.

Lemma ok_of {A} (x : outcome A) : x <> Panic -> noerr x -> exists v, x = Ok v.
Proof. destruct x as [a|e|]; intros H1 H2; [eauto | destruct (H2 e eq_refl) | congruence]. Qed.

Lemma noerr_ok {A} (a : A) : noerr (Ok a).
Proof. intros e; discriminate. Qed.
Lemma noerr_panic {A} : noerr (@Panic A).
Proof. intros e; discriminate. Qed.
Lemma noerr_bind {A B} (x : outcome A) (f : A -> outcome B) :
  noerr x -> (forall a, noerr (f a)) -> noerr (obind x f).
Proof. intros H1 H2 e. destruct x as [a|e'|]; cbn; [apply H2 | destruct (H1 e' eq_refl) | discriminate]. Qed.
Lemma noerr_if {A} (c : bool) (x y : outcome A) : noerr x -> noerr y -> noerr (if c then x else y).
Proof. destruct c; auto. Qed.
Lemma noerr_sub l lo hi : noerr (wb_sub l lo hi).
Proof. unfold wb_sub. apply noerr_if; [apply noerr_ok | apply noerr_panic]. Qed.
Lemma noerr_from l lo : noerr (wb_from l lo).
Proof. unfold wb_from. apply noerr_if; [apply noerr_ok | apply noerr_panic]. Qed.
Lemma noerr_upto l hi : noerr (wb_upto l hi).
Proof. unfold wb_upto. apply noerr_if; [apply noerr_ok | apply noerr_panic]. Qed.
Lemma noerr_u8 l i : noerr (wb_get_u8 l i).
Proof. unfold wb_get_u8. apply noerr_if; [apply noerr_ok | apply noerr_panic]. Qed.
Lemma noerr_be l lo hi n : noerr (wb_get_be l lo hi n).
Proof.
  unfold wb_get_be. apply noerr_bind; [apply noerr_sub|]. intros s.
  apply noerr_if; [apply noerr_ok | apply noerr_panic].
Qed.
Lemma noerr_arr n s : noerr (wb_arr n s).
Proof. unfold wb_arr. apply noerr_if; [apply noerr_ok | apply noerr_panic]. Qed.

Ltac noerr_step :=
  first [ apply noerr_ok | apply noerr_panic | apply noerr_sub | apply noerr_from | apply noerr_upto
        | apply noerr_u8 | apply noerr_be | apply noerr_arr
        | apply noerr_bind; [ | intros ? ] | apply noerr_if ].

(* the accessors the printers call *)
Ltac noerr :=
  unfold eth_src_addr, eth_dst_addr, eth_ethertype, eth_payload,
    arp_hardware_type, arp_protocol_type, arp_hardware_len, arp_protocol_len, arp_operation,
    arp_source_hardware_addr, arp_source_protocol_addr, arp_target_hardware_addr,
    arp_target_protocol_addr, arp_var_field,
    udp_src_port, udp_dst_port, udp_payload, udp_verify_checksum, udp_checksum, udp_len,
    tcp_src_port, tcp_dst_port, tcp_syn, tcp_fin, tcp_rst, tcp_psh, tcp_ece, tcp_cwr, tcp_ns, tcp_ack_,
    tcp_urg, tcp_flag, tcp_flags, tcp_seq_number, tcp_ack_number, tcp_window_len, tcp_urgent_at,
    tcp_checksum, tcp_payload_, tcp_options, tcp_header_len_,
    ipv4_more_frags, ipv4_frag_offset, ipv4_verify_checksum, ipv4_payload, ipv4_header_len, ipv4_total_len,
    icmpv4_msg_type, icmpv4_msg_code, icmpv4_data, icmpv4_header_len,
    ipv6_payload, ipv6_total_len, ipv6_payload_len_,
    wb_field, wb_get_u16, wb_get_u32;
  repeat noerr_step.

(* ---------- slices ---------- *)

Lemma wb_sub_resize l lo hi s : wb_sub l lo hi = Ok s -> wb_sub l lo (lo + blen s) = Ok s.
Proof.
  intros H. pose proof (wb_sub_inv _ _ _ _ H) as (_ & _ & _ & L).
  replace (lo + blen s) with hi by lia. exact H.
Qed.

Lemma wb_from_as_sub l lo s : wb_from l lo = Ok s -> wb_sub l lo (lo + blen s) = Ok s.
Proof.
  intros H. apply wb_from_inv in H. destruct H as (R & -> & L).
  rewrite L. replace (lo + (blen l - lo)) with (blen l) by lia.
  rewrite wb_sub_ok by lia. f_equal. apply firstn_all2. rewrite skipn_length. unfold blen in *. lia.
Qed.

Lemma pp_skipn_skipn {A} (a b : nat) (l : list A) : skipn a (skipn b l) = skipn (b + a) l.
Proof.
  revert l. induction b as [|b IH]; intros l; [reflexivity|].
  destruct l as [|x l]; [rewrite !skipn_nil; reflexivity|]. cbn [skipn Nat.add]. apply IH.
Qed.

(* a slice of a slice is a slice *)
Lemma wb_sub_sub W off s lo p :
  wb_sub W off (off + blen s) = Ok s -> wb_sub s lo (lo + blen p) = Ok p ->
  wb_sub W (off + lo) (off + lo + blen p) = Ok p.
Proof.
  intros H1 H2.
  pose proof (wb_sub_inv _ _ _ _ H1) as (R1 & R2 & E1 & _).
  pose proof (wb_sub_inv _ _ _ _ H2) as (R3 & R4 & E2 & _).
  pose proof (blen_nonneg p). pose proof (blen_nonneg s).
  rewrite wb_sub_ok by lia. f_equal. rewrite E2 at 2. rewrite E1.
  replace (off + blen s - off) with (blen s) by lia.
  replace (off + lo + blen p - (off + lo)) with (blen p) by lia.
  replace (lo + blen p - lo) with (blen p) by lia.
  rewrite skipn_firstn_comm. rewrite firstn_firstn. rewrite pp_skipn_skipn.
  replace (Z.to_nat off + Z.to_nat lo)%nat with (Z.to_nat (off + lo)) by lia.
  f_equal. unfold blen in *. lia.
Qed.

(* ---------- the shape of results ---------- *)

(* nested intervals: every entry lies in [lo, hi); what follows it lies inside its own slice, at
   least 8 octets (the shortest header any printer strips) further in *)
Fixpoint pp_chain (lo hi : Z) (tr : pp_trace) : Prop :=
  match tr with
  | [] => True
  | e :: t => lo <= pp_off e /\ 0 <= pp_len e /\ pp_off e + pp_len e <= hi /\
              pp_chain (pp_off e + 8) (pp_off e + pp_len e) t
  end.

Lemma pp_chain_mono lo hi lo' hi' tr : lo' <= lo -> hi <= hi' -> pp_chain lo hi tr -> pp_chain lo' hi' tr.
Proof. destruct tr as [|e t]; cbn; [tauto|]. intros ? ? (A & B & C & D). repeat split; try lia. exact D. Qed.

Lemma pp_chain_length lo hi tr : pp_chain lo hi tr -> tr <> [] -> Z.of_nat (length tr) * 8 <= hi - lo + 8.
Proof.
  revert lo hi. induction tr as [|e t IH]; intros lo hi H Hne; [congruence|].
  cbn in H. destruct H as (A & B & C & D).
  destruct t as [|e' t'].
  - cbn [length]. lia.
  - specialize (IH _ _ D ltac:(discriminate)). cbn [length] in *. lia.
Qed.

Lemma pp_chain_forall lo hi tr : pp_chain lo hi tr ->
  Forall (fun e => lo <= pp_off e /\ 0 <= pp_len e /\ pp_off e + pp_len e <= hi) tr.
Proof.
  revert lo hi. induction tr as [|e t IH]; intros lo hi H; constructor.
  - cbn in H. tauto.
  - cbn in H. destruct H as (A & B & C & D). specialize (IH _ _ D).
    eapply Forall_impl; [|exact IH]. cbn. intros a (? & ? & ?). lia.
Qed.

(* the result of a printer that ran on [n] octets at offset [off] *)
Definition pp_good (off n : Z) (r : outcome pp_trace) : Prop :=
  exists tr, r = Ok tr /\ pp_chain off (off + n) tr.

Definition pp_single (fmt off n : Z) (r : outcome pp_trace) : Prop :=
  exists st info, r = Ok [mkPP fmt off n st info].

Lemma pp_single_intro fmt off n st info : pp_single fmt off n (Ok [mkPP fmt off n st info]).
Proof. exists st, info. reflexivity. Qed.

Lemma pp_single_good fmt off n r : 0 <= n -> pp_single fmt off n r -> pp_good off n r.
Proof. intros Hn (st & info & ->). eexists; split; [reflexivity|]. cbn. repeat split; lia. Qed.

Lemma pp_good_nil off n : pp_good off n (Ok []).
Proof. eexists; split; [reflexivity|exact I]. Qed.

Lemma pp_descend_good e off n lo m child :
  pp_off e = off -> pp_len e = n -> 8 <= lo -> 0 <= m -> lo + m <= n ->
  pp_good (off + lo) m child -> pp_good off n (pp_descend e child).
Proof.
  intros Ho Hl Hlo Hm Hn (t & -> & Hc). unfold pp_descend. cbn [obind].
  eexists; split; [reflexivity|]. cbn. rewrite Ho, Hl. repeat split; try lia.
  eapply pp_chain_mono; [| |exact Hc]; lia.
Qed.

Lemma pp_good_nopanic off n r : pp_good off n r -> r <> Panic.
Proof. intros (t & -> & _). discriminate. Qed.

(* evaluate the head of a monadic chain whose head is known not to panic *)
Ltac bind_ok H :=
  match goal with
  | |- context [obind ?x _] =>
      let v := fresh "v" in let E := fresh "E" in
      destruct (ok_of x H ltac:(noerr)) as (v & E); rewrite E; cbn [obind]
  end.

Section Checksum.
Variable sum_ok : list Z -> bool.
Variable psum_ok : list Z -> bool.

Let zf : list Z -> Z := fun _ => 0.

(* ---------- check_len never panics (Repr::parse starts with it) ---------- *)

Lemma pp_first_bind {A B} (x : outcome A) (f : A -> outcome B) : obind x f <> Panic -> x <> Panic.
Proof. destruct x; cbn; congruence. Qed.

Lemma eth_check_len_total bs : eth_check_len bs <> Panic.
Proof. exact (pp_first_bind _ _ (eth_parse_total bs)). Qed.
Lemma arp_check_len_total bs : bytes_ok bs = true -> arp_check_len bs <> Panic.
Proof. intros Hb. exact (pp_first_bind _ _ (arp_parse_total bs Hb)). Qed.
Lemma udp_check_len_total bs : bytes_ok bs = true -> udp_check_len bs <> Panic.
Proof. intros Hb. exact (pp_first_bind _ _ (udp_parse_total psum_ok zf true false bs Hb)). Qed.
Lemma tcp_check_len_total bs : bytes_ok bs = true -> tcp_check_len bs <> Panic.
Proof. intros Hb. exact (pp_first_bind _ _ (tcp_parse_total psum_ok zf false bs Hb)). Qed.
Lemma ipv4_check_len_total bs : bytes_ok bs = true -> ipv4_check_len bs <> Panic.
Proof. intros Hb. exact (pp_first_bind _ _ (ipv4_parse_total sum_ok zf false bs Hb)). Qed.
Lemma ipv6_check_len_total bs : bytes_ok bs = true -> ipv6_check_len bs <> Panic.
Proof. intros Hb. exact (pp_first_bind _ _ (ipv6_parse_total bs Hb)). Qed.
Lemma icmpv4_check_len_total bs : bytes_ok bs = true -> icmpv4_check_len bs <> Panic.
Proof. intros Hb. exact (pp_first_bind _ _ (icmpv4_parse_total sum_ok zf true bs Hb)). Qed.
Lemma igmp_check_len_total bs : igmp_check_len bs <> Panic.
Proof. exact (pp_first_bind _ _ (igmp_parse_total bs)). Qed.

(* ---------- leaf printers: exactly one entry ---------- *)

Lemma pp_arp_at_single off bs : bytes_ok bs = true -> pp_single pp_ARP off (blen bs) (pp_arp_at off bs).
Proof.
  intros Hb. unfold pp_arp_at.
  destruct (arp_check_len bs) as [[]| |] eqn:E.
  - destruct (arp_accessors_safe bs Hb E) as (A1 & A2 & A3 & A4 & A5 & A6 & A7 & A8 & A9).
    unfold pp_arp_display.
    destruct (arp_parse bs) eqn:P; cbn [obind].
    + apply pp_single_intro.
    + bind_ok A1. bind_ok A2. bind_ok A3. bind_ok A4. bind_ok A5. bind_ok A6. bind_ok A7. bind_ok A8.
      bind_ok A9. apply pp_single_intro.
    + destruct (arp_parse_total bs Hb P).
  - apply pp_single_intro.
  - destruct (arp_check_len_total bs Hb E).
Qed.

Lemma pp_udp_display_ok bs : bytes_ok bs = true -> udp_check_len bs = Ok tt ->
  exists n, pp_udp_display bs = Ok n.
Proof.
  intros Hb E. destruct (udp_accessors_safe psum_ok zf true bs Hb E) as (A1 & A2 & A3 & A4 & A5 & A6).
  unfold pp_udp_display. bind_ok A1. bind_ok A2. bind_ok A5. eauto.
Qed.

Lemma pp_udp_at_single off bs : bytes_ok bs = true -> pp_single pp_UDP off (blen bs) (pp_udp_at off bs).
Proof.
  intros Hb. unfold pp_udp_at.
  destruct (udp_check_len bs) as [[]| |] eqn:E.
  - destruct (pp_udp_display_ok bs Hb E) as (n & ->). cbn [obind]. apply pp_single_intro.
  - apply pp_single_intro.
  - destruct (udp_check_len_total bs Hb E).
Qed.

Lemma pp_udp_in_ip_single is_v4 off bs : bytes_ok bs = true ->
  pp_single pp_UDP_IN_IP off (blen bs) (pp_udp_in_ip psum_ok is_v4 off bs).
Proof.
  intros Hb. unfold pp_udp_in_ip.
  destruct (udp_check_len bs) as [[]| |] eqn:E.
  - destruct (udp_accessors_safe psum_ok zf is_v4 bs Hb E) as (A1 & A2 & A3 & A4 & A5 & A6).
    destruct (udp_parse psum_ok is_v4 false bs) eqn:P.
    + bind_ok A5. bind_ok A6. bind_ok A3. bind_ok A4. apply pp_single_intro.
    + destruct (pp_udp_display_ok bs Hb E) as (n & ->). cbn [obind]. apply pp_single_intro.
    + destruct (udp_parse_total psum_ok zf is_v4 false bs Hb P).
  - apply pp_single_intro.
  - destruct (udp_check_len_total bs Hb E).
Qed.

Lemma pp_tcp_display_ok bs : bytes_ok bs = true -> tcp_check_len bs = Ok tt ->
  exists sn, pp_tcp_display bs = Ok sn.
Proof.
  intros Hb E.
  destruct (tcp_accessors_safe psum_ok zf bs Hb E) as
    (A1 & A2 & A3 & A4 & A5 & A6 & A7 & A8 & A9 & A10 & A11 & A12 & A13 & A14 & A15 & A16 & A17 & A18 & A19 & _).
  unfold pp_tcp_display.
  bind_ok A1. bind_ok A2. bind_ok A6. bind_ok A5. bind_ok A7. bind_ok A8. bind_ok A11. bind_ok A12. bind_ok A13.
  bind_ok A3. bind_ok A9.
  match goal with |- context [obind (if ?b then ?x else Ok 0) _] =>
    let w := fresh "w" in
    destruct (ok_of (if b then x else Ok 0)) as (w & ->);
      [destruct b; [assumption | discriminate] | destruct b; noerr | cbn [obind]] end.
  bind_ok A15. bind_ok A10.
  match goal with |- context [obind (if ?b then ?x else Ok 0) _] =>
    let w := fresh "w" in
    destruct (ok_of (if b then x else Ok 0)) as (w & ->);
      [destruct b; [assumption | discriminate] | destruct b; noerr | cbn [obind]] end.
  bind_ok A19. bind_ok A18.
  match goal with H : tcp_options bs = Ok ?o |- _ =>
    assert (Hbo : bytes_ok o = true);
      [revert H; unfold tcp_options; intros H; obind_inv H; eapply wb_sub_bytes; eassumption|] end.
  match goal with |- context [tcp_walk ?st ?fu ?o ?a] =>
    pose proof (tcp_walk_nopanic st fu o a Hbo (le_n _)) as W; destruct (tcp_walk st fu o a) end;
    [eauto | eauto | congruence].
Qed.

Lemma pp_tcp_at_single off bs : bytes_ok bs = true -> pp_single pp_TCP off (blen bs) (pp_tcp_at off bs).
Proof.
  intros Hb. unfold pp_tcp_at.
  destruct (tcp_check_len bs) as [[]| |] eqn:E.
  - destruct (pp_tcp_display_ok bs Hb E) as (sn & ->). cbn [obind]. apply pp_single_intro.
  - apply pp_single_intro.
  - destruct (tcp_check_len_total bs Hb E).
Qed.

Lemma pp_tcp_in_ip_single off bs : bytes_ok bs = true ->
  pp_single pp_TCP_IN_IP off (blen bs) (pp_tcp_in_ip psum_ok off bs).
Proof.
  intros Hb. unfold pp_tcp_in_ip.
  destruct (tcp_check_len bs) as [[]| |] eqn:E.
  - destruct (tcp_parse psum_ok false bs) eqn:P.
    + destruct (tcp_accessors_safe psum_ok zf bs Hb E) as
        (_ & _ & _ & _ & _ & _ & _ & _ & _ & _ & _ & _ & _ & _ & _ & A16 & _).
      bind_ok A16. apply pp_single_intro.
    + destruct (pp_tcp_display_ok bs Hb E) as (sn & ->). cbn [obind]. apply pp_single_intro.
    + destruct (tcp_parse_total psum_ok zf false bs Hb P).
  - apply pp_single_intro.
  - destruct (tcp_check_len_total bs Hb E).
Qed.

Lemma pp_igmp_at_single off bs : pp_single pp_IGMP off (blen bs) (pp_igmp_at off bs).
Proof.
  unfold pp_igmp_at.
  destruct (igmp_check_len bs) as [[]| |] eqn:E.
  - destruct (igmp_parse bs) as [[]| |] eqn:P; try apply pp_single_intro.
    destruct (igmp_parse_total bs P).
  - apply pp_single_intro.
  - destruct (igmp_check_len_total bs E).
Qed.

Lemma ndopt_new_checked_total bs : bytes_ok bs = true -> ndopt_new_checked bs <> Panic.
Proof.
  intros Hb. unfold ndopt_new_checked.
  destruct (ndopt_check_len bs) as [[]| |] eqn:E; cbn [obind]; try discriminate.
  - destruct (ndopt_check_len_inv bs Hb E) as (t & l & _ & Hl & _).
    unfold ndopt_data_len. change wndiscopt_f_LENGTH with 1. rewrite Hl. cbn [obind]. case_if; discriminate.
  - destruct (ndopt_check_len_total bs E).
Qed.

Lemma pp_ndopt_at_single off bs : bytes_ok bs = true -> pp_single pp_NDOPT off (blen bs) (pp_ndopt_at off bs).
Proof.
  intros Hb. unfold pp_ndopt_at.
  destruct (ndopt_new_checked bs) as [[]| |] eqn:E.
  - destruct (ndopt_parse bs) eqn:P; try apply pp_single_intro.
    destruct (ndopt_parse_total bs Hb P).
  - apply pp_single_intro.
  - destruct (ndopt_new_checked_total bs Hb E).
Qed.

(* ---------- printers that descend: normal forms, independent of the printers they call ---------- *)

Lemma pp_ethernet_with_nf off bs : bytes_ok bs = true ->
  (exists st info, forall arp ipv4 ipv6,
     pp_ethernet_with arp ipv4 ipv6 off bs = Ok [mkPP pp_ETH off (blen bs) st info]) \/
  (exists ty p, wb_sub bs eth_HEADER_LEN (eth_HEADER_LEN + blen p) = Ok p /\ bytes_ok p = true /\
     forall arp ipv4 ipv6,
       pp_ethernet_with arp ipv4 ipv6 off bs =
       pp_descend (mkPP pp_ETH off (blen bs) pp_ST_OK ty)
         (if ty =? pp_ETHERTYPE_ARP then arp (off + eth_HEADER_LEN) p
          else if ty =? pp_ETHERTYPE_IPV4 then ipv4 (off + eth_HEADER_LEN) p
          else ipv6 (off + eth_HEADER_LEN) p)).
Proof.
  intros Hb. unfold pp_ethernet_with.
  destruct (eth_check_len bs) as [[]| |] eqn:E.
  - destruct (eth_accessors_safe bs E) as (A1 & A2 & A3 & A4).
    destruct (ok_of _ A2 ltac:(noerr)) as (v1 & E1).
    destruct (ok_of _ A1 ltac:(noerr)) as (v2 & E2).
    destruct (ok_of _ A3 ltac:(noerr)) as (ty & E3).
    destruct (ok_of _ A4 ltac:(noerr)) as (p & E4).
    rewrite E1, E2, E3, E4. cbn [obind].
    assert (Hp : wb_sub bs eth_HEADER_LEN (eth_HEADER_LEN + blen p) = Ok p).
    { apply wb_from_as_sub. exact E4. }
    assert (Hbp : bytes_ok p = true) by (eapply wb_from_bytes; eassumption).
    destruct (ty =? pp_ETHERTYPE_ARP) eqn:T1; [right; exists ty, p; rewrite T1; auto|].
    destruct (ty =? pp_ETHERTYPE_IPV4) eqn:T2; [right; exists ty, p; rewrite T1, T2; auto|].
    destruct (ty =? pp_ETHERTYPE_IPV6) eqn:T3; [right; exists ty, p; rewrite T1, T2; auto|].
    left. eauto.
  - left. eauto.
  - destruct (eth_check_len_total bs E).
Qed.

Lemma pp_ipv4_with_nf off bs : bytes_ok bs = true ->
  (exists st info, forall icmpv4,
     pp_ipv4_with sum_ok psum_ok icmpv4 off bs = Ok [mkPP pp_IPV4 off (blen bs) st info]) \/
  (exists proto hl p, 20 <= hl /\ wb_sub bs hl (hl + blen p) = Ok p /\ bytes_ok p = true /\
     forall icmpv4,
       pp_ipv4_with sum_ok psum_ok icmpv4 off bs =
       pp_descend (mkPP pp_IPV4 off (blen bs) pp_ST_OK proto)
                  (pp_ip_payload_with psum_ok icmpv4 true proto (off + hl) p)).
Proof.
  intros Hb. unfold pp_ipv4_with.
  destruct (ipv4_check_len bs) as [[]| |] eqn:E.
  - destruct (ipv4_parse sum_ok false bs) as [r| |] eqn:P.
    + destruct (ipv4_accessors_safe sum_ok zf bs Hb E) as
        (_ & A2 & _ & _ & _ & _ & _ & A8 & A9 & _ & _ & _ & _ & _ & A15 & A16).
      destruct (ipv4_check_len_inv sum_ok zf bs Hb E) as (hl & tl & Hhl & Htl & R1 & R2 & R3 & R4 & R5).
      destruct (ok_of _ A8 ltac:(noerr)) as (mf & E1).
      destruct (ok_of _ A9 ltac:(noerr)) as (fo & E2).
      rewrite E1, E2. cbn [obind].
      destruct (mf || negb (fo =? 0)).
      * cbn [obind]. left. eauto.
      * destruct (ok_of _ A16 ltac:(noerr)) as (ck & E3).
        destruct (ok_of _ A15 ltac:(noerr)) as (p & E4).
        rewrite E3, E4, Hhl. cbn [obind].
        right. exists (ipv4_proto r), hl, p. split; [lia|].
        assert (Hs : wb_sub bs hl tl = Ok p).
        { revert E4. unfold ipv4_payload. rewrite Hhl, Htl. cbn [obind]. auto. }
        split; [eapply wb_sub_resize; exact Hs|]. split; [eapply wb_sub_bytes; eassumption|]. reflexivity.
    + left. eauto.
    + destruct (ipv4_parse_total sum_ok zf false bs Hb P).
  - left. eauto.
  - destruct (ipv4_check_len_total bs Hb E).
Qed.

Lemma pp_icmpv4_display_ok bs : bytes_ok bs = true -> icmpv4_check_len bs = Ok tt ->
  exists sn, pp_icmpv4_display sum_ok bs = Ok sn.
Proof.
  intros Hb E. unfold pp_icmpv4_display.
  destruct (icmpv4_accessors_safe sum_ok zf bs E) as (A1 & A2 & _).
  destruct (icmpv4_parse sum_ok true bs) as [[]| |] eqn:P; eauto.
  - bind_ok A1. bind_ok A2. eauto.
  - destruct (icmpv4_parse_total sum_ok zf true bs Hb P).
Qed.

Lemma pp_icmpv4_with_nf off bs : bytes_ok bs = true ->
  (exists st info, forall ipv4,
     pp_icmpv4_with sum_ok ipv4 off bs = Ok [mkPP pp_ICMPV4 off (blen bs) st info]) \/
  (exists st info d, wb_sub bs 8 (8 + blen d) = Ok d /\ bytes_ok d = true /\
     forall ipv4,
       pp_icmpv4_with sum_ok ipv4 off bs =
       pp_descend (mkPP pp_ICMPV4 off (blen bs) st info) (ipv4 (off + 8) d)).
Proof.
  intros Hb. unfold pp_icmpv4_with.
  destruct (icmpv4_check_len bs) as [[]| |] eqn:E.
  - destruct (pp_icmpv4_display_ok bs Hb E) as (sn & ->). cbn [obind].
    destruct (icmpv4_accessors_safe sum_ok zf bs E) as (A1 & _ & _ & _ & _ & A6 & A7).
    pose proof (icmpv4_check_len_inv sum_ok zf bs E) as L.
    destruct (ok_of _ A1 ltac:(noerr)) as (ty & E1). rewrite E1. cbn [obind].
    destruct ((ty =? icmpv4_DST_UNREACHABLE) || (ty =? icmpv4_TIME_EXCEEDED)).
    + destruct (ok_of _ A7 ltac:(noerr)) as (d & E2). rewrite E2. cbn [obind].
      rewrite (icmpv4_header_len_8 sum_ok zf bs) by lia. cbn [obind].
      right. exists (fst sn), (snd sn), d.
      assert (Hd : wb_from bs 8 = Ok d).
      { revert E2. unfold icmpv4_data. rewrite (icmpv4_header_len_8 sum_ok zf bs) by lia. cbn [obind]. auto. }
      split; [apply wb_from_as_sub; exact Hd|]. split; [eapply wb_from_bytes; eassumption|]. reflexivity.
    + left. eauto.
  - left. eauto.
  - destruct (icmpv4_check_len_total bs Hb E).
Qed.

Lemma pp_ipv6_with_nf off bs : bytes_ok bs = true ->
  (exists st info, forall icmpv4,
     pp_ipv6_with psum_ok icmpv4 off bs = Ok [mkPP pp_IPV6 off (blen bs) st info]) \/
  (exists nxt p, wb_sub bs 40 (40 + blen p) = Ok p /\ bytes_ok p = true /\
     forall icmpv4,
       pp_ipv6_with psum_ok icmpv4 off bs =
       pp_descend (mkPP pp_IPV6 off (blen bs) pp_ST_OK nxt)
                  (pp_ip_payload_with psum_ok icmpv4 false nxt (off + 40) p)).
Proof.
  intros Hb. unfold pp_ipv6_with.
  destruct (ipv6_check_len bs) as [[]| |] eqn:E.
  - destruct (ipv6_parse bs) as [r| |] eqn:P.
    + destruct (ipv6_accessors_safe bs Hb E) as (_ & _ & _ & _ & _ & _ & _ & _ & _ & A10).
      destruct (ok_of _ A10 ltac:(noerr)) as (p & E1). rewrite E1. cbn [obind].
      right. exists (ipv6_nxt r), p.
      assert (Hs : exists tl, wb_sub bs 40 tl = Ok p).
      { revert E1. unfold ipv6_payload. intros H. obind_inv H. eexists. exact H. }
      destruct Hs as (tl & Hs).
      split; [eapply wb_sub_resize; exact Hs|]. split; [eapply wb_sub_bytes; eassumption|]. reflexivity.
    + left. eauto.
    + destruct (ipv6_parse_total bs Hb P).
  - left. eauto.
  - destruct (ipv6_check_len_total bs Hb E).
Qed.

(* pretty_print_ip_payload: the ICMPv4 printer on the same slice, or a leaf, or nothing *)
Lemma pp_ip_payload_with_nf is_v4 proto off p : bytes_ok p = true ->
  (forall icmpv4, pp_ip_payload_with psum_ok icmpv4 is_v4 proto off p = icmpv4 off p) \/
  (exists r, pp_good off (blen p) r /\
             forall icmpv4, pp_ip_payload_with psum_ok icmpv4 is_v4 proto off p = r).
Proof.
  intros Hb. unfold pp_ip_payload_with.
  destruct (proto =? pp_PROTO_ICMP); [left; reflexivity|]. right.
  pose proof (blen_nonneg p).
  destruct (proto =? pp_PROTO_UDP).
  { eexists; split; [|reflexivity]. eapply pp_single_good; [lia | apply pp_udp_in_ip_single; assumption]. }
  destruct (proto =? pp_PROTO_TCP).
  { eexists; split; [|reflexivity]. eapply pp_single_good; [lia | apply pp_tcp_in_ip_single; assumption]. }
  eexists; split; [apply pp_good_nil | reflexivity].
Qed.

(* ---------- termination: the callee only matters on strictly shorter slices ---------- *)

Lemma sub_shorter bs lo p : wb_sub bs lo (lo + blen p) = Ok p -> (length p + Z.to_nat lo <= length bs)%nat.
Proof. intros H. apply wb_sub_inv in H. unfold blen in *. lia. Qed.

Lemma pp_ipv4_with_ext f g off bs : bytes_ok bs = true ->
  (forall o s, bytes_ok s = true -> (length s + 20 <= length bs)%nat -> f o s = g o s) ->
  pp_ipv4_with sum_ok psum_ok f off bs = pp_ipv4_with sum_ok psum_ok g off bs.
Proof.
  intros Hb H. destruct (pp_ipv4_with_nf off bs Hb) as [(st & info & N) | (proto & hl & p & Hhl & Hs & Hbp & N)].
  - rewrite !N. reflexivity.
  - rewrite !N. f_equal.
    destruct (pp_ip_payload_with_nf true proto (off + hl) p Hbp) as [M | (r & _ & M)]; rewrite !M; [|reflexivity].
    apply H; [assumption|]. apply sub_shorter in Hs. lia.
Qed.

Lemma pp_icmpv4_with_ext f g off bs : bytes_ok bs = true ->
  (forall o s, bytes_ok s = true -> (length s + 8 <= length bs)%nat -> f o s = g o s) ->
  pp_icmpv4_with sum_ok f off bs = pp_icmpv4_with sum_ok g off bs.
Proof.
  intros Hb H. destruct (pp_icmpv4_with_nf off bs Hb) as [(st & info & N) | (st & info & d & Hs & Hbd & N)].
  - rewrite !N. reflexivity.
  - rewrite !N. f_equal. apply H; [assumption|]. apply sub_shorter in Hs. lia.
Qed.

Lemma pp_ipv6_with_ext f g off bs : bytes_ok bs = true ->
  (forall o s, bytes_ok s = true -> (length s + 40 <= length bs)%nat -> f o s = g o s) ->
  pp_ipv6_with psum_ok f off bs = pp_ipv6_with psum_ok g off bs.
Proof.
  intros Hb H. destruct (pp_ipv6_with_nf off bs Hb) as [(st & info & N) | (nxt & p & Hs & Hbp & N)].
  - rewrite !N. reflexivity.
  - rewrite !N. f_equal.
    destruct (pp_ip_payload_with_nf false nxt (off + 40) p Hbp) as [M | (r & _ & M)]; rewrite !M; [|reflexivity].
    apply H; [assumption|]. apply sub_shorter in Hs. lia.
Qed.

Lemma pp_ethernet_with_ext a1 a2 f1 f2 g1 g2 off bs : bytes_ok bs = true ->
  (forall o s, bytes_ok s = true -> (length s + 14 <= length bs)%nat ->
     a1 o s = a2 o s /\ f1 o s = f2 o s /\ g1 o s = g2 o s) ->
  pp_ethernet_with a1 f1 g1 off bs = pp_ethernet_with a2 f2 g2 off bs.
Proof.
  intros Hb H. destruct (pp_ethernet_with_nf off bs Hb) as [(st & info & N) | (ty & p & Hs & Hbp & N)].
  - rewrite !N. reflexivity.
  - rewrite !N. f_equal. apply sub_shorter in Hs.
    destruct (H (off + eth_HEADER_LEN) p Hbp) as (X & Y & Z0); [change (Z.to_nat eth_HEADER_LEN) with 14%nat in Hs; lia|].
    repeat case_if; assumption.
Qed.

(* the fuel of the IPv4-in-ICMPv4 recursion: any amount above the number of octets gives the same result *)
Lemma pp_ipv4_fuel_suffices f1 : forall f2 off bs, bytes_ok bs = true ->
  (length bs < f1)%nat -> (length bs < f2)%nat ->
  pp_ipv4_fuel sum_ok psum_ok f1 off bs = pp_ipv4_fuel sum_ok psum_ok f2 off bs.
Proof.
  induction f1 as [|f1 IH]; intros f2 off bs Hb H1 H2; [lia|].
  destruct f2 as [|f2]; [lia|]. cbn [pp_ipv4_fuel].
  apply pp_ipv4_with_ext; [assumption|]. intros o s Hs Ls.
  apply pp_icmpv4_with_ext; [assumption|]. intros o' s' Hs' Ls'.
  apply IH; [assumption | lia | lia].
Qed.

Lemma pp_icmpv4_fuel_suffices f1 f2 off bs : bytes_ok bs = true ->
  (length bs <= f1)%nat -> (length bs <= f2)%nat ->
  pp_icmpv4_fuel sum_ok psum_ok f1 off bs = pp_icmpv4_fuel sum_ok psum_ok f2 off bs.
Proof.
  intros Hb H1 H2. unfold pp_icmpv4_fuel. apply pp_icmpv4_with_ext; [assumption|].
  intros o s Hs Ls. apply pp_ipv4_fuel_suffices; [assumption | lia | lia].
Qed.

Lemma pp_ipv6_fuel_suffices f1 f2 off bs : bytes_ok bs = true ->
  (length bs <= f1)%nat -> (length bs <= f2)%nat ->
  pp_ipv6_fuel sum_ok psum_ok f1 off bs = pp_ipv6_fuel sum_ok psum_ok f2 off bs.
Proof.
  intros Hb H1 H2. unfold pp_ipv6_fuel. apply pp_ipv6_with_ext; [assumption|].
  intros o s Hs Ls. apply pp_icmpv4_fuel_suffices; [assumption | lia | lia].
Qed.

Lemma pp_ethernet_fuel_suffices f1 f2 off bs : bytes_ok bs = true ->
  (length bs <= f1)%nat -> (length bs <= f2)%nat ->
  pp_ethernet_fuel sum_ok psum_ok f1 off bs = pp_ethernet_fuel sum_ok psum_ok f2 off bs.
Proof.
  intros Hb H1 H2. unfold pp_ethernet_fuel. apply pp_ethernet_with_ext; [assumption|].
  intros o s Hs Ls. split; [reflexivity|]. split.
  - apply pp_ipv4_fuel_suffices; [assumption | lia | lia].
  - apply pp_ipv6_fuel_suffices; [assumption | lia | lia].
Qed.

(* ---------- no panic + every slice inside the input ---------- *)

Lemma pp_ip_payload_good icmpv4 is_v4 proto off p : bytes_ok p = true ->
  pp_good off (blen p) (icmpv4 off p) ->
  pp_good off (blen p) (pp_ip_payload_with psum_ok icmpv4 is_v4 proto off p).
Proof.
  intros Hb H. destruct (pp_ip_payload_with_nf is_v4 proto off p Hb) as [M | (r & G & M)]; rewrite M; assumption.
Qed.

Lemma pp_ipv4_with_good icmpv4 off bs : bytes_ok bs = true ->
  (forall o s, bytes_ok s = true -> (length s + 20 <= length bs)%nat -> pp_good o (blen s) (icmpv4 o s)) ->
  pp_good off (blen bs) (pp_ipv4_with sum_ok psum_ok icmpv4 off bs).
Proof.
  intros Hb H. pose proof (blen_nonneg bs).
  destruct (pp_ipv4_with_nf off bs Hb) as [(st & info & N) | (proto & hl & p & Hhl & Hs & Hbp & N)]; rewrite N.
  - eapply pp_single_good; [lia | apply pp_single_intro].
  - pose proof (wb_sub_inv _ _ _ _ Hs) as (R1 & R2 & _). pose proof (blen_nonneg p).
    eapply (pp_descend_good _ off (blen bs) hl (blen p)); try reflexivity; try lia.
    apply pp_ip_payload_good; [assumption|]. apply H; [assumption|]. apply sub_shorter in Hs. lia.
Qed.

Lemma pp_icmpv4_with_good ipv4 off bs : bytes_ok bs = true ->
  (forall o s, bytes_ok s = true -> (length s + 8 <= length bs)%nat -> pp_good o (blen s) (ipv4 o s)) ->
  pp_good off (blen bs) (pp_icmpv4_with sum_ok ipv4 off bs).
Proof.
  intros Hb H. pose proof (blen_nonneg bs).
  destruct (pp_icmpv4_with_nf off bs Hb) as [(st & info & N) | (st & info & d & Hs & Hbd & N)]; rewrite N.
  - eapply pp_single_good; [lia | apply pp_single_intro].
  - pose proof (wb_sub_inv _ _ _ _ Hs) as (R1 & R2 & _). pose proof (blen_nonneg d).
    eapply (pp_descend_good _ off (blen bs) 8 (blen d)); try reflexivity; try lia.
    apply H; [assumption|]. apply sub_shorter in Hs. lia.
Qed.

Lemma pp_ipv6_with_good icmpv4 off bs : bytes_ok bs = true ->
  (forall o s, bytes_ok s = true -> pp_good o (blen s) (icmpv4 o s)) ->
  pp_good off (blen bs) (pp_ipv6_with psum_ok icmpv4 off bs).
Proof.
  intros Hb H. pose proof (blen_nonneg bs).
  destruct (pp_ipv6_with_nf off bs Hb) as [(st & info & N) | (nxt & p & Hs & Hbp & N)]; rewrite N.
  - eapply pp_single_good; [lia | apply pp_single_intro].
  - pose proof (wb_sub_inv _ _ _ _ Hs) as (R1 & R2 & _). pose proof (blen_nonneg p).
    eapply (pp_descend_good _ off (blen bs) 40 (blen p)); try reflexivity; try lia.
    apply pp_ip_payload_good; [assumption|]. apply H; assumption.
Qed.

Lemma pp_ethernet_with_good arp ipv4 ipv6 off bs : bytes_ok bs = true ->
  (forall o s, bytes_ok s = true ->
     pp_good o (blen s) (arp o s) /\ pp_good o (blen s) (ipv4 o s) /\ pp_good o (blen s) (ipv6 o s)) ->
  pp_good off (blen bs) (pp_ethernet_with arp ipv4 ipv6 off bs).
Proof.
  intros Hb H. pose proof (blen_nonneg bs).
  destruct (pp_ethernet_with_nf off bs Hb) as [(st & info & N) | (ty & p & Hs & Hbp & N)]; rewrite N.
  - eapply pp_single_good; [lia | apply pp_single_intro].
  - pose proof (wb_sub_inv _ _ _ _ Hs) as (R1 & R2 & _). pose proof (blen_nonneg p).
    change eth_HEADER_LEN with 14 in *.
    eapply (pp_descend_good _ off (blen bs) 14 (blen p)); try reflexivity; try lia.
    destruct (H (off + 14) p Hbp) as (X & Y & Z0). repeat case_if; assumption.
Qed.

Lemma pp_ipv4_fuel_good fuel : forall off bs, bytes_ok bs = true -> (length bs < fuel)%nat ->
  pp_good off (blen bs) (pp_ipv4_fuel sum_ok psum_ok fuel off bs).
Proof.
  induction fuel as [|fuel IH]; intros off bs Hb L; [lia|]. cbn [pp_ipv4_fuel].
  apply pp_ipv4_with_good; [assumption|]. intros o s Hs Ls.
  apply pp_icmpv4_with_good; [assumption|]. intros o' s' Hs' Ls'.
  apply IH; [assumption | lia].
Qed.

Lemma pp_icmpv4_fuel_good fuel off bs : bytes_ok bs = true -> (length bs <= fuel)%nat ->
  pp_good off (blen bs) (pp_icmpv4_fuel sum_ok psum_ok fuel off bs).
Proof.
  intros Hb L. apply pp_icmpv4_with_good; [assumption|]. intros o s Hs Ls.
  apply pp_ipv4_fuel_good; [assumption | lia].
Qed.

Lemma pp_arp_at_good off bs : bytes_ok bs = true -> pp_good off (blen bs) (pp_arp_at off bs).
Proof. intros Hb. eapply pp_single_good; [apply blen_nonneg | apply pp_arp_at_single; assumption]. Qed.

Lemma pp_ipv6_fuel_good fuel off bs : bytes_ok bs = true -> (length bs <= fuel)%nat ->
  pp_good off (blen bs) (pp_ipv6_fuel sum_ok psum_ok fuel off bs).
Proof.
  intros Hb L. destruct (pp_ipv6_with_nf off bs Hb) as [(st & info & N) | (nxt & p & Hs & Hbp & N)];
    unfold pp_ipv6_fuel; rewrite N; pose proof (blen_nonneg bs).
  - eapply pp_single_good; [lia | apply pp_single_intro].
  - pose proof (wb_sub_inv _ _ _ _ Hs) as (R1 & R2 & _). pose proof (blen_nonneg p).
    eapply (pp_descend_good _ off (blen bs) 40 (blen p)); try reflexivity; try lia.
    apply pp_ip_payload_good; [assumption|]. apply pp_icmpv4_fuel_good; [assumption|].
    apply sub_shorter in Hs. lia.
Qed.

Lemma pp_ethernet_fuel_good fuel off bs : bytes_ok bs = true -> (length bs <= fuel)%nat ->
  pp_good off (blen bs) (pp_ethernet_fuel sum_ok psum_ok fuel off bs).
Proof.
  intros Hb L. destruct (pp_ethernet_with_nf off bs Hb) as [(st & info & N) | (ty & p & Hs & Hbp & N)];
    unfold pp_ethernet_fuel; rewrite N; pose proof (blen_nonneg bs).
  - eapply pp_single_good; [lia | apply pp_single_intro].
  - pose proof (wb_sub_inv _ _ _ _ Hs) as (R1 & R2 & _). pose proof (blen_nonneg p).
    change eth_HEADER_LEN with 14 in *. apply sub_shorter in Hs.
    eapply (pp_descend_good _ off (blen bs) 14 (blen p)); try reflexivity; try lia.
    repeat case_if.
    + apply pp_arp_at_good; assumption.
    + apply pp_ipv4_fuel_good; [assumption | lia].
    + apply pp_ipv6_fuel_good; [assumption | lia].
Qed.

(* ---------- the top-level printers ---------- *)

Definition pp_result_ok (bs : list Z) (r : outcome pp_trace) : Prop :=
  exists tr, r = Ok tr /\ pp_chain 0 (blen bs) tr.

Lemma pp_good_result bs r : pp_good 0 (blen bs) r -> pp_result_ok bs r.
Proof. intros (t & -> & H). exists t. split; [reflexivity|]. exact H. Qed.

Lemma pp_ethernet_result bs : bytes_ok bs = true -> pp_result_ok bs (pp_ethernet sum_ok psum_ok bs).
Proof. intros Hb. apply pp_good_result, pp_ethernet_fuel_good; [assumption | unfold pp_fuel; lia]. Qed.
Lemma pp_ipv4_result bs : bytes_ok bs = true -> pp_result_ok bs (pp_ipv4 sum_ok psum_ok bs).
Proof. intros Hb. apply pp_good_result, pp_ipv4_fuel_good; [assumption | unfold pp_fuel; lia]. Qed.
Lemma pp_ipv6_result bs : bytes_ok bs = true -> pp_result_ok bs (pp_ipv6 sum_ok psum_ok bs).
Proof. intros Hb. apply pp_good_result, pp_ipv6_fuel_good; [assumption | unfold pp_fuel; lia]. Qed.
Lemma pp_icmpv4_result bs : bytes_ok bs = true -> pp_result_ok bs (pp_icmpv4 sum_ok psum_ok bs).
Proof. intros Hb. apply pp_good_result, pp_icmpv4_fuel_good; [assumption | unfold pp_fuel; lia]. Qed.
Lemma pp_arp_result bs : bytes_ok bs = true -> pp_result_ok bs (pp_arp bs).
Proof. intros Hb. apply pp_good_result, pp_arp_at_good; assumption. Qed.
Lemma pp_udp_result bs : bytes_ok bs = true -> pp_result_ok bs (pp_udp bs).
Proof.
  intros Hb. apply pp_good_result. eapply pp_single_good; [apply blen_nonneg | apply pp_udp_at_single; assumption].
Qed.
Lemma pp_tcp_result bs : bytes_ok bs = true -> pp_result_ok bs (pp_tcp bs).
Proof.
  intros Hb. apply pp_good_result. eapply pp_single_good; [apply blen_nonneg | apply pp_tcp_at_single; assumption].
Qed.
Lemma pp_igmp_result bs : pp_result_ok bs (pp_igmp bs).
Proof. apply pp_good_result. eapply pp_single_good; [apply blen_nonneg | apply pp_igmp_at_single]. Qed.
Lemma pp_ndopt_result bs : bytes_ok bs = true -> pp_result_ok bs (pp_ndopt bs).
Proof.
  intros Hb. apply pp_good_result. eapply pp_single_good; [apply blen_nonneg | apply pp_ndopt_at_single; assumption].
Qed.

Lemma pp_result_total bs r : pp_result_ok bs r -> r <> Panic.
Proof. intros (t & -> & _). discriminate. Qed.

(* pp_F_total : for every printer and every octet string, no panic (and no exhausted fuel) *)
Lemma pp_ethernet_total bs : bytes_ok bs = true -> pp_ethernet sum_ok psum_ok bs <> Panic.
Proof. intros Hb. eapply pp_result_total, pp_ethernet_result, Hb. Qed.
Lemma pp_arp_total bs : bytes_ok bs = true -> pp_arp bs <> Panic.
Proof. intros Hb. eapply pp_result_total, pp_arp_result, Hb. Qed.
Lemma pp_ipv4_total bs : bytes_ok bs = true -> pp_ipv4 sum_ok psum_ok bs <> Panic.
Proof. intros Hb. eapply pp_result_total, pp_ipv4_result, Hb. Qed.
Lemma pp_ipv6_total bs : bytes_ok bs = true -> pp_ipv6 sum_ok psum_ok bs <> Panic.
Proof. intros Hb. eapply pp_result_total, pp_ipv6_result, Hb. Qed.
Lemma pp_icmpv4_total bs : bytes_ok bs = true -> pp_icmpv4 sum_ok psum_ok bs <> Panic.
Proof. intros Hb. eapply pp_result_total, pp_icmpv4_result, Hb. Qed.
Lemma pp_udp_total bs : bytes_ok bs = true -> pp_udp bs <> Panic.
Proof. intros Hb. eapply pp_result_total, pp_udp_result, Hb. Qed.
Lemma pp_tcp_total bs : bytes_ok bs = true -> pp_tcp bs <> Panic.
Proof. intros Hb. eapply pp_result_total, pp_tcp_result, Hb. Qed.
Lemma pp_igmp_total bs : pp_igmp bs <> Panic.
Proof. eapply pp_result_total, pp_igmp_result. Qed.
Lemma pp_ndopt_total bs : bytes_ok bs = true -> pp_ndopt bs <> Panic.
Proof. intros Hb. eapply pp_result_total, pp_ndopt_result, Hb. Qed.

(* the two arms of pretty_print_ip_payload that print themselves *)
Lemma pp_udp_in_ip_total is_v4 off bs : bytes_ok bs = true -> pp_udp_in_ip psum_ok is_v4 off bs <> Panic.
Proof. intros Hb. destruct (pp_udp_in_ip_single is_v4 off bs Hb) as (? & ? & ->). discriminate. Qed.
Lemma pp_tcp_in_ip_total off bs : bytes_ok bs = true -> pp_tcp_in_ip psum_ok off bs <> Panic.
Proof. intros Hb. destruct (pp_tcp_in_ip_single off bs Hb) as (? & ? & ->). discriminate. Qed.

(* pp_reads_within_buffer: every slice a printer ran on lies within the input, and the number of
   printers that ran (= lines printed) is bounded by the length *)
Lemma pp_result_within bs r tr : pp_result_ok bs r -> r = Ok tr ->
  Forall (fun e => 0 <= pp_off e /\ 0 <= pp_len e /\ pp_off e + pp_len e <= blen bs) tr /\
  Z.of_nat (length tr) <= blen bs / 8 + 1.
Proof.
  intros (t & -> & H) E. injection E as <-. split; [apply pp_chain_forall; exact H|].
  destruct t as [|e t']; [cbn [length]; pose proof (blen_nonneg bs); lia|].
  pose proof (pp_chain_length _ _ _ H ltac:(discriminate)). lia.
Qed.


(* ---------- the trace is compositional: every entry is what its printer yields on input[off .. off+len] ---------- *)

(* the printer a trace entry names, started on a slice of its own (fresh fuel) *)
Definition pp_at (fmt : Z) (is_v4 : bool) (off : Z) (s : list Z) : outcome pp_trace :=
  if fmt =? pp_ETH then pp_ethernet_fuel sum_ok psum_ok (pp_fuel s) off s
  else if fmt =? pp_ARP then pp_arp_at off s
  else if fmt =? pp_IPV4 then pp_ipv4_fuel sum_ok psum_ok (pp_fuel s) off s
  else if fmt =? pp_IPV6 then pp_ipv6_fuel sum_ok psum_ok (pp_fuel s) off s
  else if fmt =? pp_ICMPV4 then pp_icmpv4_fuel sum_ok psum_ok (pp_fuel s) off s
  else if fmt =? pp_UDP then pp_udp_at off s
  else if fmt =? pp_TCP then pp_tcp_at off s
  else if fmt =? pp_IGMP then pp_igmp_at off s
  else if fmt =? pp_NDOPT then pp_ndopt_at off s
  else if fmt =? pp_UDP_IN_IP then pp_udp_in_ip psum_ok is_v4 off s
  else if fmt =? pp_TCP_IN_IP then pp_tcp_in_ip psum_ok off s
  else Panic.

Lemma pp_at_eth v off s : pp_at pp_ETH v off s = pp_ethernet_fuel sum_ok psum_ok (pp_fuel s) off s.
Proof. reflexivity. Qed.
Lemma pp_at_ipv4 v off s : pp_at pp_IPV4 v off s = pp_ipv4_fuel sum_ok psum_ok (pp_fuel s) off s.
Proof. reflexivity. Qed.
Lemma pp_at_ipv6 v off s : pp_at pp_IPV6 v off s = pp_ipv6_fuel sum_ok psum_ok (pp_fuel s) off s.
Proof. reflexivity. Qed.
Lemma pp_at_icmpv4 v off s : pp_at pp_ICMPV4 v off s = pp_icmpv4_fuel sum_ok psum_ok (pp_fuel s) off s.
Proof. reflexivity. Qed.

(* [s] is the slice W[off .. off + |s|] *)
Definition pp_sliced (W : list Z) (off : Z) (s : list Z) : Prop := wb_sub W off (off + blen s) = Ok s.

Fixpoint pp_sound (W : list Z) (tr : pp_trace) : Prop :=
  match tr with
  | [] => True
  | e :: t =>
      (exists s is_v4, pp_sliced W (pp_off e) s /\ blen s = pp_len e /\
                       pp_at (pp_fmt e) is_v4 (pp_off e) s = Ok (e :: t)) /\
      pp_sound W t
  end.

Definition pp_sound_res (W : list Z) (r : outcome pp_trace) : Prop := exists tr, r = Ok tr /\ pp_sound W tr.

Lemma pp_sound_nil W : pp_sound_res W (Ok []).
Proof. eexists; split; [reflexivity | exact I]. Qed.

(* a printer that yields one entry *)
Lemma pp_sound_single W fmt is_v4 off s r :
  pp_sliced W off s -> pp_single fmt off (blen s) r -> pp_at fmt is_v4 off s = r -> pp_sound_res W r.
Proof.
  intros Hs (st & info & ->) Ha. eexists; split; [reflexivity|]. cbn. split; [|exact I].
  exists s, is_v4. auto.
Qed.

(* a printer that yields its entry and then what a sound callee yields *)
Lemma pp_sound_descend W is_v4 off s e child :
  pp_sliced W off s -> pp_off e = off -> pp_len e = blen s ->
  pp_at (pp_fmt e) is_v4 off s = pp_descend e child ->
  pp_sound_res W child -> pp_sound_res W (pp_descend e child).
Proof.
  intros Hs Ho Hl Ha (t & -> & Ht). unfold pp_descend in *. cbn [obind] in *.
  eexists; split; [reflexivity|]. cbn. split; [|exact Ht].
  exists s, is_v4. rewrite Ho, Hl. auto.
Qed.

Lemma pp_sliced_sub W off s lo p : pp_sliced W off s -> wb_sub s lo (lo + blen p) = Ok p -> pp_sliced W (off + lo) p.
Proof. unfold pp_sliced. apply wb_sub_sub. Qed.

Lemma pp_ip_payload_sound W icmpv4 is_v4 proto off p : bytes_ok p = true -> pp_sliced W off p ->
  pp_sound_res W (icmpv4 off p) ->
  pp_sound_res W (pp_ip_payload_with psum_ok icmpv4 is_v4 proto off p).
Proof.
  intros Hb Hs H. unfold pp_ip_payload_with.
  destruct (proto =? pp_PROTO_ICMP); [assumption|].
  destruct (proto =? pp_PROTO_UDP).
  { eapply (pp_sound_single W pp_UDP_IN_IP is_v4); [eassumption | apply pp_udp_in_ip_single; assumption | reflexivity]. }
  destruct (proto =? pp_PROTO_TCP).
  { eapply (pp_sound_single W pp_TCP_IN_IP true); [eassumption | apply pp_tcp_in_ip_single; assumption | reflexivity]. }
  apply pp_sound_nil.
Qed.

Lemma pp_icmpv4_with_sound W ipv4 off s : bytes_ok s = true -> pp_sliced W off s ->
  pp_icmpv4_fuel sum_ok psum_ok (pp_fuel s) off s = pp_icmpv4_with sum_ok ipv4 off s ->
  (forall o d, bytes_ok d = true -> (length d + 8 <= length s)%nat -> pp_sliced W o d -> pp_sound_res W (ipv4 o d)) ->
  pp_sound_res W (pp_icmpv4_with sum_ok ipv4 off s).
Proof.
  intros Hb Hs Hc H.
  destruct (pp_icmpv4_with_nf off s Hb) as [(st & info & N) | (st & info & d & Hd & Hbd & N)].
  - eapply (pp_sound_single W pp_ICMPV4 true); [eassumption | rewrite N; apply pp_single_intro | rewrite pp_at_icmpv4; exact Hc].
  - rewrite N. eapply (pp_sound_descend W true off s); try reflexivity; try assumption.
    + cbn [pp_fmt]. rewrite pp_at_icmpv4, Hc. apply N.
    + apply H; [assumption | apply sub_shorter in Hd; lia | eapply pp_sliced_sub; eassumption].
Qed.

Lemma pp_ipv4_with_sound W icmpv4 off s : bytes_ok s = true -> pp_sliced W off s ->
  pp_ipv4_fuel sum_ok psum_ok (pp_fuel s) off s = pp_ipv4_with sum_ok psum_ok icmpv4 off s ->
  (forall o d, bytes_ok d = true -> (length d + 20 <= length s)%nat -> pp_sliced W o d -> pp_sound_res W (icmpv4 o d)) ->
  pp_sound_res W (pp_ipv4_with sum_ok psum_ok icmpv4 off s).
Proof.
  intros Hb Hs Hc H.
  destruct (pp_ipv4_with_nf off s Hb) as [(st & info & N) | (proto & hl & p & Hhl & Hp & Hbp & N)].
  - eapply (pp_sound_single W pp_IPV4 true); [eassumption | rewrite N; apply pp_single_intro | rewrite pp_at_ipv4; exact Hc].
  - rewrite N. eapply (pp_sound_descend W true off s); try reflexivity; try assumption.
    + cbn [pp_fmt]. rewrite pp_at_ipv4, Hc. apply N.
    + assert (Hsl : pp_sliced W (off + hl) p) by (eapply pp_sliced_sub; eassumption).
      apply pp_ip_payload_sound; [assumption | assumption|].
      apply H; [assumption | apply sub_shorter in Hp; lia | assumption].
Qed.

Lemma pp_ipv6_with_sound W icmpv4 off s : bytes_ok s = true -> pp_sliced W off s ->
  pp_ipv6_fuel sum_ok psum_ok (pp_fuel s) off s = pp_ipv6_with psum_ok icmpv4 off s ->
  (forall o d, bytes_ok d = true -> (length d + 40 <= length s)%nat -> pp_sliced W o d -> pp_sound_res W (icmpv4 o d)) ->
  pp_sound_res W (pp_ipv6_with psum_ok icmpv4 off s).
Proof.
  intros Hb Hs Hc H.
  destruct (pp_ipv6_with_nf off s Hb) as [(st & info & N) | (nxt & p & Hp & Hbp & N)].
  - eapply (pp_sound_single W pp_IPV6 true); [eassumption | rewrite N; apply pp_single_intro | rewrite pp_at_ipv6; exact Hc].
  - rewrite N. eapply (pp_sound_descend W true off s); try reflexivity; try assumption.
    + cbn [pp_fmt]. rewrite pp_at_ipv6, Hc. apply N.
    + assert (Hsl : pp_sliced W (off + 40) p) by (eapply pp_sliced_sub; eassumption).
      apply pp_ip_payload_sound; [assumption | assumption|].
      apply H; [assumption | apply sub_shorter in Hp; lia | assumption].
Qed.

Lemma pp_ipv4_fuel_sound W fuel : forall off s, bytes_ok s = true -> (length s < fuel)%nat ->
  pp_sliced W off s -> pp_sound_res W (pp_ipv4_fuel sum_ok psum_ok fuel off s).
Proof.
  induction fuel as [|fuel IH]; intros off s Hb L Hs; [lia|]. cbn [pp_ipv4_fuel].
  apply pp_ipv4_with_sound; [assumption | assumption | |].
  { change (pp_ipv4_with sum_ok psum_ok (pp_icmpv4_with sum_ok (pp_ipv4_fuel sum_ok psum_ok fuel)) off s)
      with (pp_ipv4_fuel sum_ok psum_ok (S fuel) off s).
    apply pp_ipv4_fuel_suffices; [assumption | unfold pp_fuel; lia | lia]. }
  intros o d Hbd Ld Hd.
  apply pp_icmpv4_with_sound; [assumption | assumption | |].
  { apply pp_icmpv4_fuel_suffices; [assumption | unfold pp_fuel; lia | lia]. }
  intros o' d' Hbd' Ld' Hd'. apply IH; [assumption | lia | assumption].
Qed.

Lemma pp_icmpv4_fuel_sound W fuel off s : bytes_ok s = true -> (length s <= fuel)%nat ->
  pp_sliced W off s -> pp_sound_res W (pp_icmpv4_fuel sum_ok psum_ok fuel off s).
Proof.
  intros Hb L Hs. apply pp_icmpv4_with_sound; [assumption | assumption | |].
  { apply pp_icmpv4_fuel_suffices; [assumption | unfold pp_fuel; lia | lia]. }
  intros o d Hbd Ld Hd. apply pp_ipv4_fuel_sound; [assumption | lia | assumption].
Qed.

Lemma pp_ipv6_fuel_sound W fuel off s : bytes_ok s = true -> (length s <= fuel)%nat ->
  pp_sliced W off s -> pp_sound_res W (pp_ipv6_fuel sum_ok psum_ok fuel off s).
Proof.
  intros Hb L Hs. apply pp_ipv6_with_sound; [assumption | assumption | |].
  { apply pp_ipv6_fuel_suffices; [assumption | unfold pp_fuel; lia | lia]. }
  intros o d Hbd Ld Hd. apply pp_icmpv4_fuel_sound; [assumption | lia | assumption].
Qed.

Lemma pp_ethernet_fuel_sound W fuel off s : bytes_ok s = true -> (length s <= fuel)%nat ->
  pp_sliced W off s -> pp_sound_res W (pp_ethernet_fuel sum_ok psum_ok fuel off s).
Proof.
  intros Hb L Hs.
  assert (Hc : pp_ethernet_fuel sum_ok psum_ok (pp_fuel s) off s = pp_ethernet_fuel sum_ok psum_ok fuel off s).
  { apply pp_ethernet_fuel_suffices; [assumption | unfold pp_fuel; lia | lia]. }
  unfold pp_ethernet_fuel in *.
  destruct (pp_ethernet_with_nf off s Hb) as [(st & info & N) | (ty & p & Hp & Hbp & N)].
  - eapply (pp_sound_single W pp_ETH true); [eassumption | rewrite N; apply pp_single_intro | rewrite pp_at_eth; exact Hc].
  - rewrite N. eapply (pp_sound_descend W true off s); try reflexivity; try assumption.
    + cbn [pp_fmt]. rewrite pp_at_eth. unfold pp_ethernet_fuel. rewrite Hc. apply N.
    + assert (Hsl : pp_sliced W (off + eth_HEADER_LEN) p) by (eapply pp_sliced_sub; eassumption).
      apply sub_shorter in Hp. change (Z.to_nat eth_HEADER_LEN) with 14%nat in Hp.
      repeat case_if.
      * eapply (pp_sound_single W pp_ARP true); [eassumption | apply pp_arp_at_single; assumption | reflexivity].
      * apply pp_ipv4_fuel_sound; [assumption | lia | assumption].
      * apply pp_ipv6_fuel_sound; [assumption | lia | assumption].
Qed.

Lemma pp_sliced_whole W : pp_sliced W 0 W.
Proof. unfold pp_sliced. rewrite wb_sub_ok by (pose proof (blen_nonneg W); lia). f_equal.
  replace (0 + blen W - 0) with (blen W) by lia. change (Z.to_nat 0) with 0%nat. cbn [skipn].
  apply firstn_all2. unfold blen. lia. Qed.

Lemma pp_ethernet_sound W : bytes_ok W = true -> pp_sound_res W (pp_ethernet sum_ok psum_ok W).
Proof. intros Hb. apply pp_ethernet_fuel_sound; [assumption | unfold pp_fuel; lia | apply pp_sliced_whole]. Qed.
Lemma pp_ipv4_sound W : bytes_ok W = true -> pp_sound_res W (pp_ipv4 sum_ok psum_ok W).
Proof. intros Hb. apply pp_ipv4_fuel_sound; [assumption | unfold pp_fuel; lia | apply pp_sliced_whole]. Qed.
Lemma pp_ipv6_sound W : bytes_ok W = true -> pp_sound_res W (pp_ipv6 sum_ok psum_ok W).
Proof. intros Hb. apply pp_ipv6_fuel_sound; [assumption | unfold pp_fuel; lia | apply pp_sliced_whole]. Qed.
Lemma pp_icmpv4_sound W : bytes_ok W = true -> pp_sound_res W (pp_icmpv4 sum_ok psum_ok W).
Proof. intros Hb. apply pp_icmpv4_fuel_sound; [assumption | unfold pp_fuel; lia | apply pp_sliced_whole]. Qed.

End Checksum.

(* ---------- non-vacuity: concrete runs (checksum parameter = RFC 1071 of WireBase) ---------- *)

(* the frame of the doc comment of src/wire/pretty_print.rs: Ethernet / IPv4 / ICMPv4 echo request *)
Definition pp_example_doc_frame : list Z :=
  [1; 2; 3; 4; 5; 6; 17; 18; 19; 20; 21; 22; 8; 0;
   69; 0; 0; 32; 0; 0; 64; 0; 64; 1; 210; 121; 17; 18; 19; 20; 33; 34; 35; 36;
   8; 0; 142; 254; 18; 52; 171; 205; 170; 0; 0; 255].

Example pp_example_doc :
  pp_ethernet wb_plain_ok (fun _ => true) pp_example_doc_frame =
  Ok [mkPP pp_ETH 0 46 pp_ST_OK 2048; mkPP pp_IPV4 14 32 pp_ST_OK 1; mkPP pp_ICMPV4 34 12 1 4].
Proof. vm_compute. reflexivity. Qed.

(* Ethernet / IPv4 / ICMPv4 destination unreachable quoting IPv4 / UDP: one turn of the recursion *)
Definition pp_example_nested_frame : list Z :=
  [2; 0; 0; 0; 0; 1; 2; 0; 0; 0; 0; 2; 8; 0;
   69; 0; 0; 60; 0; 0; 64; 0; 64; 1; 38; 191; 10; 0; 0; 2; 10; 0; 0; 1;
   3; 1; 230; 131; 0; 0; 0; 0;
   69; 0; 0; 32; 0; 0; 64; 0; 64; 17; 38; 203; 10; 0; 0; 1; 10; 0; 0; 2;
   18; 52; 0; 53; 0; 12; 0; 0; 1; 2; 3; 4].

Example pp_example_nested :
  pp_ethernet wb_plain_ok (fun _ => true) pp_example_nested_frame =
  Ok [mkPP pp_ETH 0 74 pp_ST_OK 2048; mkPP pp_IPV4 14 60 pp_ST_OK 1; mkPP pp_ICMPV4 34 40 3 0;
      mkPP pp_IPV4 42 32 pp_ST_OK 17; mkPP pp_UDP_IN_IP 62 12 pp_ST_OK 4].
Proof. vm_compute. reflexivity. Qed.

(* the same frame cut inside the quoted UDP header: the innermost printer reports the error, nothing panics *)
Example pp_example_truncated :
  pp_ethernet wb_plain_ok (fun _ => true) (firstn 66 pp_example_nested_frame) =
  Ok [mkPP pp_ETH 0 66 pp_ST_OK 2048; mkPP pp_IPV4 14 52 pp_ST_ERR 0].
Proof. vm_compute. reflexivity. Qed.

(* ---------- statements as exported by Props/C07pp.v ----------
   (Section lemmas whose proofs went through a lemma about the checksum-parameterised models carry
   an unused parameter; it is instantiated here) *)

Definition pp_any : list Z -> bool := fun _ => true.

Lemma pp_udp_total' bs : bytes_ok bs = true -> pp_udp bs <> Panic.
Proof. exact (pp_udp_total pp_any bs). Qed.
Lemma pp_tcp_total' bs : bytes_ok bs = true -> pp_tcp bs <> Panic.
Proof. exact (pp_tcp_total pp_any bs). Qed.

Lemma pp_icmpv4_with_ext' sum_ok f g off bs : bytes_ok bs = true ->
  (forall o s, bytes_ok s = true -> (length s + 8 <= length bs)%nat -> f o s = g o s) ->
  pp_icmpv4_with sum_ok f off bs = pp_icmpv4_with sum_ok g off bs.
Proof. exact (pp_icmpv4_with_ext sum_ok pp_any f g off bs). Qed.

Lemma pp_ipv6_with_ext' psum_ok f g off bs : bytes_ok bs = true ->
  (forall o s, bytes_ok s = true -> (length s + 40 <= length bs)%nat -> f o s = g o s) ->
  pp_ipv6_with psum_ok f off bs = pp_ipv6_with psum_ok g off bs.
Proof. exact (pp_ipv6_with_ext pp_any psum_ok f g off bs). Qed.

Lemma pp_ethernet_with_ext' a1 a2 f1 f2 g1 g2 off bs : bytes_ok bs = true ->
  (forall o s, bytes_ok s = true -> (length s + 14 <= length bs)%nat ->
     a1 o s = a2 o s /\ f1 o s = f2 o s /\ g1 o s = g2 o s) ->
  pp_ethernet_with a1 f1 g1 off bs = pp_ethernet_with a2 f2 g2 off bs.
Proof. exact (pp_ethernet_with_ext pp_any pp_any a1 a2 f1 f2 g1 g2 off bs). Qed.

Lemma pp_ethernet_within sum_ok psum_ok bs tr :
  bytes_ok bs = true -> pp_ethernet sum_ok psum_ok bs = Ok tr ->
  Forall (fun e => 0 <= pp_off e /\ 0 <= pp_len e /\ pp_off e + pp_len e <= blen bs) tr /\
  Z.of_nat (length tr) <= blen bs / 8 + 1.
Proof. intros Hb. exact (pp_result_within pp_any pp_any bs _ tr (pp_ethernet_result sum_ok psum_ok bs Hb)). Qed.

Lemma pp_ipv4_within sum_ok psum_ok bs tr :
  bytes_ok bs = true -> pp_ipv4 sum_ok psum_ok bs = Ok tr ->
  Forall (fun e => 0 <= pp_off e /\ 0 <= pp_len e /\ pp_off e + pp_len e <= blen bs) tr /\
  Z.of_nat (length tr) <= blen bs / 8 + 1.
Proof. intros Hb. exact (pp_result_within pp_any pp_any bs _ tr (pp_ipv4_result sum_ok psum_ok bs Hb)). Qed.

Lemma pp_ipv6_within sum_ok psum_ok bs tr :
  bytes_ok bs = true -> pp_ipv6 sum_ok psum_ok bs = Ok tr ->
  Forall (fun e => 0 <= pp_off e /\ 0 <= pp_len e /\ pp_off e + pp_len e <= blen bs) tr /\
  Z.of_nat (length tr) <= blen bs / 8 + 1.
Proof. intros Hb. exact (pp_result_within pp_any pp_any bs _ tr (pp_ipv6_result sum_ok psum_ok bs Hb)). Qed.

Lemma pp_icmpv4_within sum_ok psum_ok bs tr :
  bytes_ok bs = true -> pp_icmpv4 sum_ok psum_ok bs = Ok tr ->
  Forall (fun e => 0 <= pp_off e /\ 0 <= pp_len e /\ pp_off e + pp_len e <= blen bs) tr /\
  Z.of_nat (length tr) <= blen bs / 8 + 1.
Proof. intros Hb. exact (pp_result_within pp_any pp_any bs _ tr (pp_icmpv4_result sum_ok psum_ok bs Hb)). Qed.

Lemma pp_leaf_printers_single bs : bytes_ok bs = true ->
  (exists st info, pp_arp bs = Ok [mkPP pp_ARP 0 (blen bs) st info]) /\
  (exists st info, pp_udp bs = Ok [mkPP pp_UDP 0 (blen bs) st info]) /\
  (exists st info, pp_tcp bs = Ok [mkPP pp_TCP 0 (blen bs) st info]) /\
  (exists st info, pp_igmp bs = Ok [mkPP pp_IGMP 0 (blen bs) st info]) /\
  (exists st info, pp_ndopt bs = Ok [mkPP pp_NDOPT 0 (blen bs) st info]).
Proof.
  intros Hb. repeat split.
  - apply pp_arp_at_single, Hb.
  - apply (pp_udp_at_single pp_any), Hb.
  - apply (pp_tcp_at_single pp_any), Hb.
  - apply pp_igmp_at_single.
  - apply pp_ndopt_at_single, Hb.
Qed.
