(* Lemmas and tactics about Model/WireBase.v shared by all Proofs/Wire*Proofs.v files. *)
From SV Require Import Lib.Base Model.WireBase.

(* ---------- lengths ---------- *)

Lemma blen_nonneg l : 0 <= blen l.
Proof. unfold blen; lia. Qed.

Lemma blen_nil : blen [] = 0.
Proof. reflexivity. Qed.

Lemma blen_cons x l : blen (x :: l) = 1 + blen l.
Proof. unfold blen; cbn [length]; lia. Qed.

Lemma blen_app a b : blen (a ++ b) = blen a + blen b.
Proof. unfold blen; rewrite app_length; lia. Qed.

Lemma blen_firstn n l : 0 <= n <= blen l -> blen (firstn (Z.to_nat n) l) = n.
Proof. unfold blen; intros H; rewrite firstn_length; lia. Qed.

Lemma blen_skipn n l : 0 <= n <= blen l -> blen (skipn (Z.to_nat n) l) = blen l - n.
Proof. unfold blen; intros H; rewrite skipn_length; lia. Qed.

Lemma blen_0_nil l : blen l = 0 -> l = [].
Proof. unfold blen; destruct l; cbn; [reflexivity | lia]. Qed.

Lemma blen_map {A} (f : A -> Z) l : blen (map f l) = Z.of_nat (length l).
Proof. unfold blen; rewrite map_length; reflexivity. Qed.

Lemma blen_repeat x n : blen (repeat x n) = Z.of_nat n.
Proof. unfold blen; rewrite repeat_length; reflexivity. Qed.

#[export] Hint Rewrite blen_nil blen_cons blen_app blen_repeat : blen.

(* a list of known length n+1 is a cons *)
Lemma len_cells {A} (l : list A) n : length l = S n -> exists x t, l = x :: t /\ length t = n.
Proof. destruct l; cbn; [discriminate|]. intros H; injection H; eauto. Qed.

Lemma blen_length l (n : nat) : blen l = Z.of_nat n -> length l = n.
Proof. unfold blen; lia. Qed.

(* [cells H]: H : length l = <numeral>  ==>  l is replaced by explicit cells *)
Ltac cells H :=
  repeat (let x := fresh "c" in let t := fresh "t" in let E := fresh in
          apply len_cells in H; destruct H as (x & t & E & H); subst);
  apply length_zero_iff_nil in H; subst.

(* [cells_tl H]: H : length l = (<numeral> + n)%nat with n a variable:
   destruct the first <numeral> cells, keep the tail *)
Ltac cells_tl H :=
  repeat (let x := fresh "c" in let t := fresh "t" in let E := fresh in
          apply len_cells in H; destruct H as (x & t & E & H); subst).

(* ---------- deciding comparisons with lia ---------- *)

Ltac zbool_step :=
  match goal with
  | |- context [?a <? ?b] =>
      first [ replace (a <? b) with true by (symmetry; apply Z.ltb_lt; lia)
            | replace (a <? b) with false by (symmetry; apply Z.ltb_ge; lia) ]
  | |- context [?a <=? ?b] =>
      first [ replace (a <=? b) with true by (symmetry; apply Z.leb_le; lia)
            | replace (a <=? b) with false by (symmetry; apply Z.leb_gt; lia) ]
  | |- context [?a >=? ?b] =>
      first [ replace (a >=? b) with true by (symmetry; rewrite Z.geb_leb; apply Z.leb_le; lia)
            | replace (a >=? b) with false by (symmetry; rewrite Z.geb_leb; apply Z.leb_gt; lia) ]
  | |- context [?a >? ?b] =>
      first [ replace (a >? b) with true by (symmetry; rewrite Z.gtb_ltb; apply Z.ltb_lt; lia)
            | replace (a >? b) with false by (symmetry; rewrite Z.gtb_ltb; apply Z.ltb_ge; lia) ]
  | |- context [?a =? ?b] =>
      first [ replace (a =? b) with true by (symmetry; apply Z.eqb_eq; lia)
            | replace (a =? b) with false by (symmetry; apply Z.eqb_neq; lia) ]
  end.
Ltac zbool := repeat zbool_step; cbn [andb orb negb].

(* same inside a hypothesis *)
Ltac zbool_in H :=
  repeat match type of H with
  | context [?a <? ?b] =>
      first [ replace (a <? b) with true in H by (symmetry; apply Z.ltb_lt; lia)
            | replace (a <? b) with false in H by (symmetry; apply Z.ltb_ge; lia) ]
  | context [?a <=? ?b] =>
      first [ replace (a <=? b) with true in H by (symmetry; apply Z.leb_le; lia)
            | replace (a <=? b) with false in H by (symmetry; apply Z.leb_gt; lia) ]
  | context [?a =? ?b] =>
      first [ replace (a =? b) with true in H by (symmetry; apply Z.eqb_eq; lia)
            | replace (a =? b) with false in H by (symmetry; apply Z.eqb_neq; lia) ]
  end; cbn [andb orb negb] in H.

(* split boolean conjunctions / comparisons in hypotheses into lia-friendly facts *)
Ltac bsplit :=
  repeat match goal with
  | H : _ && _ = true |- _ => apply andb_prop in H; destruct H
  | H : _ || _ = false |- _ => apply orb_false_elim in H; destruct H
  | H : is_u8 _ = true |- _ => unfold is_u8 in H
  | H : is_u16 _ = true |- _ => unfold is_u16 in H
  | H : is_u32 _ = true |- _ => unfold is_u32 in H
  | H : is_arr _ _ = true |- _ => unfold is_arr in H
  | H : (_ <=? _) = true |- _ => apply Z.leb_le in H
  | H : (_ <? _) = true |- _ => apply Z.ltb_lt in H
  | H : (_ =? _) = true |- _ => apply Z.eqb_eq in H
  | H : (_ >=? _) = true |- _ => rewrite Z.geb_leb in H
  | H : (_ >? _) = true |- _ => rewrite Z.gtb_ltb in H
  | H : (_ <=? _) = false |- _ => apply Z.leb_gt in H
  | H : (_ <? _) = false |- _ => apply Z.ltb_ge in H
  | H : (_ =? _) = false |- _ => apply Z.eqb_neq in H
  | H : negb _ = true |- _ => apply negb_true_iff in H
  | H : negb _ = false |- _ => apply negb_false_iff in H
  end.

(* ---------- big-endian fields ---------- *)

Lemma be_dec_enc2 v : 0 <= v < 65536 -> be_dec (be_enc2 v) = v.
Proof. intros H; unfold be_dec, be_enc2; cbn [fold_left]; lia. Qed.

Lemma be_dec_enc3 v : 0 <= v < 16777216 -> be_dec (be_enc3 v) = v.
Proof. intros H; unfold be_dec, be_enc3; cbn [fold_left]; lia. Qed.

Lemma be_dec_enc4 v : 0 <= v < 4294967296 -> be_dec (be_enc4 v) = v.
Proof. intros H; unfold be_dec, be_enc4; cbn [fold_left]; lia. Qed.

Lemma be_dec_cells2 v : 0 <= v < 65536 -> be_dec [(v / 256) mod 256; v mod 256] = v.
Proof. exact (be_dec_enc2 v). Qed.

Lemma be_dec_cells4 v : 0 <= v < 4294967296 ->
  be_dec [(v / 16777216) mod 256; (v / 65536) mod 256; (v / 256) mod 256; v mod 256] = v.
Proof. exact (be_dec_enc4 v). Qed.

Lemma be_dec2 a b : be_dec [a; b] = a * 256 + b.
Proof. unfold be_dec; cbn [fold_left]; lia. Qed.

Lemma be_dec4 a b c d : be_dec [a; b; c; d] = ((a * 256 + b) * 256 + c) * 256 + d.
Proof. unfold be_dec; cbn [fold_left]; lia. Qed.

Lemma be_enc2_dec a b : 0 <= a < 256 -> 0 <= b < 256 -> be_enc2 (be_dec [a; b]) = [a; b].
Proof. intros; rewrite be_dec2; unfold be_enc2; f_equal; [|f_equal]; lia. Qed.

Lemma be_enc4_dec a b c d :
  0 <= a < 256 -> 0 <= b < 256 -> 0 <= c < 256 -> 0 <= d < 256 ->
  be_enc4 (be_dec [a; b; c; d]) = [a; b; c; d].
Proof. intros; rewrite be_dec4; unfold be_enc4; repeat f_equal; lia. Qed.

Lemma be_dec2_range a b : 0 <= a < 256 -> 0 <= b < 256 -> 0 <= be_dec [a; b] < 65536.
Proof. intros; rewrite be_dec2; lia. Qed.

Lemma be_dec4_range a b c d :
  0 <= a < 256 -> 0 <= b < 256 -> 0 <= c < 256 -> 0 <= d < 256 ->
  0 <= be_dec [a; b; c; d] < 4294967296.
Proof. intros; rewrite be_dec4; lia. Qed.

Lemma be_enc2_bytes v : bytes_ok (be_enc2 v) = true.
Proof.
  unfold be_enc2, bytes_ok, is_u8; cbn [forallb].
  assert (0 <= (v / 256) mod 256 < 256) by lia. assert (0 <= v mod 256 < 256) by lia. zbool. reflexivity.
Qed.

Lemma be_enc4_bytes v : bytes_ok (be_enc4 v) = true.
Proof.
  unfold be_enc4, bytes_ok, is_u8; cbn [forallb].
  assert (0 <= (v / 16777216) mod 256 < 256) by lia. assert (0 <= (v / 65536) mod 256 < 256) by lia.
  assert (0 <= (v / 256) mod 256 < 256) by lia. assert (0 <= v mod 256 < 256) by lia. zbool. reflexivity.
Qed.

(* ---------- bytes_ok ---------- *)

Lemma bytes_ok_app a b : bytes_ok (a ++ b) = bytes_ok a && bytes_ok b.
Proof. unfold bytes_ok; apply forallb_app. Qed.

Lemma bytes_ok_cons x l : bytes_ok (x :: l) = is_u8 x && bytes_ok l.
Proof. reflexivity. Qed.

Lemma In_firstn' {A} (x : A) n l : In x (firstn n l) -> In x l.
Proof.
  revert l; induction n; intros l H; cbn in H; [tauto|]. destruct l; cbn in *; [tauto|].
  destruct H; [left; assumption | right; apply IHn; assumption].
Qed.

Lemma In_skipn' {A} (x : A) n l : In x (skipn n l) -> In x l.
Proof.
  revert l; induction n; intros l H; cbn in H; [assumption|]. destruct l; cbn in *; [tauto|].
  right; apply IHn; assumption.
Qed.

Lemma bytes_ok_firstn n l : bytes_ok l = true -> bytes_ok (firstn n l) = true.
Proof.
  unfold bytes_ok; rewrite !forallb_forall; intros H x Hx. apply H. eapply In_firstn'; eauto.
Qed.

Lemma bytes_ok_skipn n l : bytes_ok l = true -> bytes_ok (skipn n l) = true.
Proof.
  unfold bytes_ok; rewrite !forallb_forall; intros H x Hx. apply H. eapply In_skipn'; eauto.
Qed.

Lemma bytes_ok_nth l i : bytes_ok l = true -> (i < length l)%nat -> 0 <= nth i l 0 < 256.
Proof.
  unfold bytes_ok; rewrite forallb_forall; intros H Hi.
  specialize (H _ (nth_In l 0 Hi)). unfold is_u8 in H. bsplit. lia.
Qed.

(* ---------- reads ---------- *)

Lemma wb_sub_ok l lo hi : 0 <= lo <= hi -> hi <= blen l ->
  wb_sub l lo hi = Ok (firstn (Z.to_nat (hi - lo)) (skipn (Z.to_nat lo) l)).
Proof. intros; unfold wb_sub; zbool; reflexivity. Qed.

Lemma wb_sub_inv l lo hi s : wb_sub l lo hi = Ok s ->
  0 <= lo <= hi /\ hi <= blen l /\ s = firstn (Z.to_nat (hi - lo)) (skipn (Z.to_nat lo) l) /\
  blen s = hi - lo.
Proof.
  unfold wb_sub. destruct ((0 <=? lo) && (lo <=? hi) && (hi <=? blen l)) eqn:E; [|discriminate].
  intros H; injection H as <-. bsplit. repeat split; try lia.
  rewrite blen_firstn; [lia|]. rewrite blen_skipn; lia.
Qed.

Lemma wb_sub_nopanic l lo hi : 0 <= lo <= hi -> hi <= blen l -> wb_sub l lo hi <> Panic.
Proof. intros; rewrite wb_sub_ok by lia; discriminate. Qed.

Lemma wb_sub_app_l h t lo hi : hi <= blen h -> wb_sub (h ++ t) lo hi = wb_sub h lo hi.
Proof.
  intros Hh. unfold wb_sub. rewrite blen_app. pose proof (blen_nonneg t).
  destruct ((0 <=? lo) && (lo <=? hi) && (hi <=? blen h)) eqn:E.
  - bsplit. zbool. f_equal.
    rewrite skipn_app. rewrite firstn_app.
    replace (Z.to_nat (hi - lo) - length (skipn (Z.to_nat lo) h))%nat with 0%nat
      by (rewrite skipn_length; unfold blen in *; lia).
    cbn [firstn]. rewrite app_nil_r. reflexivity.
  - destruct ((0 <=? lo) && (lo <=? hi) && (hi <=? blen h + blen t)) eqn:E2; [|reflexivity].
    exfalso. bsplit.
    assert ((0 <=? lo) && (lo <=? hi) && (hi <=? blen h) = true) by (zbool; reflexivity). congruence.
Qed.

Lemma wb_sub_app_r h t lo hi : blen h <= lo ->
  wb_sub (h ++ t) lo hi = wb_sub t (lo - blen h) (hi - blen h).
Proof.
  intros Hh. unfold wb_sub. rewrite blen_app. pose proof (blen_nonneg h).
  destruct ((0 <=? lo) && (lo <=? hi) && (hi <=? blen h + blen t)) eqn:E.
  - bsplit. zbool. f_equal. rewrite skipn_app.
    rewrite (skipn_all2 h) by (unfold blen in *; lia). cbn [app].
    replace (hi - blen h - (lo - blen h)) with (hi - lo) by lia.
    replace (Z.to_nat lo - length h)%nat with (Z.to_nat (lo - blen h)) by (unfold blen in *; lia).
    reflexivity.
  - destruct ((0 <=? lo - blen h) && (lo - blen h <=? hi - blen h) && (hi - blen h <=? blen t)) eqn:E2;
      [|reflexivity].
    exfalso. bsplit.
    assert ((0 <=? lo) && (lo <=? hi) && (hi <=? blen h + blen t) = true) by (zbool; reflexivity).
    congruence.
Qed.

Lemma wb_sub_bytes l lo hi s : bytes_ok l = true -> wb_sub l lo hi = Ok s -> bytes_ok s = true.
Proof.
  intros Hl H. apply wb_sub_inv in H. destruct H as (_ & _ & -> & _).
  apply bytes_ok_firstn, bytes_ok_skipn, Hl.
Qed.

Lemma wb_from_ok l lo : 0 <= lo <= blen l -> wb_from l lo = Ok (skipn (Z.to_nat lo) l).
Proof. intros; unfold wb_from; zbool; reflexivity. Qed.

Lemma wb_from_app_r h t : wb_from (h ++ t) (blen h) = Ok t.
Proof.
  pose proof (blen_nonneg h). pose proof (blen_nonneg t).
  rewrite wb_from_ok by (rewrite blen_app; lia).
  rewrite skipn_app. rewrite skipn_all2 by (unfold blen; lia).
  replace (Z.to_nat (blen h) - length h)%nat with 0%nat by (unfold blen; lia). reflexivity.
Qed.

Lemma wb_get_u8_ok l i : 0 <= i < blen l -> wb_get_u8 l i = Ok (nth (Z.to_nat i) l 0).
Proof. intros; unfold wb_get_u8; zbool; reflexivity. Qed.

Lemma wb_get_u8_app_l h t i : i < blen h -> wb_get_u8 (h ++ t) i = wb_get_u8 h i.
Proof.
  intros Hi. unfold wb_get_u8. rewrite blen_app. pose proof (blen_nonneg t).
  destruct (0 <=? i) eqn:E; cbn [andb]; [|reflexivity]. bsplit. zbool.
  rewrite app_nth1 by (unfold blen in *; lia). reflexivity.
Qed.

Lemma wb_get_be_app_l h t lo hi n : hi <= blen h ->
  wb_get_be (h ++ t) lo hi n = wb_get_be h lo hi n.
Proof. intros; unfold wb_get_be; rewrite wb_sub_app_l by assumption; reflexivity. Qed.

Lemma wb_get_be_nopanic l lo hi n : 0 <= lo -> lo + n <= hi -> 0 <= n -> hi <= blen l ->
  wb_get_be l lo hi n <> Panic.
Proof.
  intros. unfold wb_get_be. rewrite wb_sub_ok by lia. cbn [obind].
  rewrite blen_firstn by (rewrite blen_skipn; lia). zbool. discriminate.
Qed.

Lemma wb_get_u8_nopanic l i : 0 <= i < blen l -> wb_get_u8 l i <> Panic.
Proof. intros; rewrite wb_get_u8_ok by lia; discriminate. Qed.

Lemma wb_from_nopanic l lo : 0 <= lo <= blen l -> wb_from l lo <> Panic.
Proof. intros; rewrite wb_from_ok by lia; discriminate. Qed.

(* ---------- outcome ---------- *)

Lemma obind_nopanic {A B} (x : outcome A) (f : A -> outcome B) :
  x <> Panic -> (forall a, x = Ok a -> f a <> Panic) -> obind x f <> Panic.
Proof. destruct x; cbn; intros; auto; discriminate. Qed.

Lemma obind_ok {A B} (x : outcome A) (f : A -> outcome B) b :
  obind x f = Ok b -> exists a, x = Ok a /\ f a = Ok b.
Proof. destruct x; cbn; intros; [eauto | discriminate | discriminate]. Qed.

(* decompose  H : (do x <- m; k) = Ok r  *)
Ltac obind_inv H :=
  repeat (let a := fresh "v" in let E := fresh "E" in
          apply obind_ok in H; destruct H as (a & E & H)).

(* ---------- closed-term folding (the Z operations are [simpl never] in Lib.Base) ---------- *)

Ltac is_closed t := tryif (match t with context [?x] => is_var x end) then fail else idtac.

Ltac zfold_step :=
  match goal with
  | |- context [Z.to_nat ?t] =>
      is_closed t; let v := eval vm_compute in (Z.to_nat t) in progress change (Z.to_nat t) with v
  | |- context [Z.of_nat ?t] =>
      is_closed t; let v := eval vm_compute in (Z.of_nat t) in progress change (Z.of_nat t) with v
  | |- context [blen ?t] =>
      is_closed t; let v := eval vm_compute in (blen t) in progress change (blen t) with v
  | |- context [?a + ?b] =>
      is_closed a; is_closed b; let v := eval vm_compute in (a + b) in progress change (a + b) with v
  | |- context [?a - ?b] =>
      is_closed a; is_closed b; let v := eval vm_compute in (a - b) in progress change (a - b) with v
  | |- context [?a * ?b] =>
      is_closed a; is_closed b; let v := eval vm_compute in (a * b) in progress change (a * b) with v
  | |- context [?a <=? ?b] =>
      is_closed a; is_closed b; let v := eval vm_compute in (a <=? b) in change (a <=? b) with v
  | |- context [?a <? ?b] =>
      is_closed a; is_closed b; let v := eval vm_compute in (a <? b) in change (a <? b) with v
  | |- context [?a =? ?b] =>
      is_closed a; is_closed b; let v := eval vm_compute in (a =? b) in change (a =? b) with v
  | |- context [?a >=? ?b] =>
      is_closed a; is_closed b; let v := eval vm_compute in (a >=? b) in change (a >=? b) with v
  | |- context [?a >? ?b] =>
      is_closed a; is_closed b; let v := eval vm_compute in (a >? b) in change (a >? b) with v
  | |- context [?a / ?b] =>
      is_closed a; is_closed b; let v := eval vm_compute in (a / b) in progress change (a / b) with v
  | |- context [?a mod ?b] =>
      is_closed a; is_closed b; let v := eval vm_compute in (a mod b) in progress change (a mod b) with v
  | |- context [Z.land ?a ?b] =>
      is_closed a; is_closed b; let v := eval vm_compute in (Z.land a b) in progress change (Z.land a b) with v
  | |- context [Z.lor ?a ?b] =>
      is_closed a; is_closed b; let v := eval vm_compute in (Z.lor a b) in progress change (Z.lor a b) with v
  | |- context [Z.shiftl ?a ?b] =>
      is_closed a; is_closed b; let v := eval vm_compute in (Z.shiftl a b) in progress change (Z.shiftl a b) with v
  | |- context [Z.shiftr ?a ?b] =>
      is_closed a; is_closed b; let v := eval vm_compute in (Z.shiftr a b) in progress change (Z.shiftr a b) with v
  | |- context [fst ?p] =>
      is_closed p; let v := eval vm_compute in (fst p) in progress change (fst p) with v
  | |- context [snd ?p] =>
      is_closed p; let v := eval vm_compute in (snd p) in progress change (snd p) with v
  | |- context [?c] =>
      is_const c; let T := type of c in unify T Z;
      let v := eval vm_compute in c in progress change c with v
  end.
Ltac zfold := repeat zfold_step.
(* the same in a hypothesis *)
Ltac zfold_in H := revert H; zfold; intros H.

(* ---------- writes: length, framing (a write inside a prefix does not touch the rest) ---------- *)

Lemma wb_set_slice_len l lo hi v l' : wb_set_slice l lo hi v = Ok l' -> blen l' = blen l.
Proof.
  unfold wb_set_slice.
  destruct ((0 <=? lo) && (lo <=? hi) && (hi <=? blen l) && (blen v =? hi - lo)) eqn:E; [|discriminate].
  intros H; injection H as <-. bsplit. rewrite !blen_app, blen_firstn, blen_skipn by lia. lia.
Qed.

Lemma wb_put_be_len l lo hi enc l' : wb_put_be l lo hi enc = Ok l' -> blen l' = blen l.
Proof.
  unfold wb_put_be. pose proof (blen_nonneg enc).
  destruct ((0 <=? lo) && (lo <=? hi) && (hi <=? blen l) && (blen enc <=? hi - lo)) eqn:E; [|discriminate].
  intros H'; injection H' as <-. bsplit. rewrite !blen_app, blen_firstn, blen_skipn by lia. lia.
Qed.

Lemma wb_set_u8_len l i v l' : wb_set_u8 l i v = Ok l' -> blen l' = blen l.
Proof.
  unfold wb_set_u8. destruct ((0 <=? i) && (i <? blen l)) eqn:E; [|discriminate].
  intros H'; injection H' as <-. bsplit. rewrite blen_app, blen_cons, blen_firstn, blen_skipn by lia. lia.
Qed.

Lemma wb_upd_u8_len l i f l' : wb_upd_u8 l i f = Ok l' -> blen l' = blen l.
Proof. unfold wb_upd_u8. intros H. obind_inv H. eapply wb_set_u8_len; eassumption. Qed.

Lemma wb_upd_u16_len l f g l' : wb_upd_u16 l f g = Ok l' -> blen l' = blen l.
Proof. unfold wb_upd_u16, wb_put_u16. intros H. obind_inv H. eapply wb_put_be_len; eassumption. Qed.

Lemma firstn_app_l {A} n (h t : list A) : (n <= length h)%nat -> firstn n (h ++ t) = firstn n h.
Proof.
  intros. rewrite firstn_app. replace (n - length h)%nat with 0%nat by lia.
  cbn [firstn]. apply app_nil_r.
Qed.

Lemma skipn_app_l {A} n (h t : list A) : (n <= length h)%nat -> skipn n (h ++ t) = skipn n h ++ t.
Proof.
  intros. rewrite skipn_app. replace (n - length h)%nat with 0%nat by lia. reflexivity.
Qed.

Lemma wb_set_slice_app_l h t lo hi v : hi <= blen h ->
  wb_set_slice (h ++ t) lo hi v = omap (fun x => x ++ t) (wb_set_slice h lo hi v).
Proof.
  intros Hh. unfold wb_set_slice. rewrite blen_app. pose proof (blen_nonneg t).
  destruct ((0 <=? lo) && (lo <=? hi) && (hi <=? blen h) && (blen v =? hi - lo)) eqn:E.
  - bsplit. zbool. cbn [omap]. f_equal.
    rewrite firstn_app_l, skipn_app_l by (unfold blen in *; lia). rewrite <- !app_assoc. reflexivity.
  - destruct ((0 <=? lo) && (lo <=? hi) && (hi <=? blen h + blen t) && (blen v =? hi - lo)) eqn:E2;
      [|reflexivity].
    exfalso. bsplit.
    assert ((0 <=? lo) && (lo <=? hi) && (hi <=? blen h) && (blen v =? hi - lo) = true) by (zbool; reflexivity).
    congruence.
Qed.

Lemma wb_put_be_app_l h t lo hi enc : hi <= blen h ->
  wb_put_be (h ++ t) lo hi enc = omap (fun x => x ++ t) (wb_put_be h lo hi enc).
Proof.
  intros Hh. unfold wb_put_be. rewrite blen_app. pose proof (blen_nonneg t). pose proof (blen_nonneg enc).
  destruct ((0 <=? lo) && (lo <=? hi) && (hi <=? blen h) && (blen enc <=? hi - lo)) eqn:E.
  - bsplit. zbool. cbn [omap]. f_equal.
    rewrite firstn_app_l, skipn_app_l by (unfold blen in *; lia). rewrite <- !app_assoc. reflexivity.
  - destruct ((0 <=? lo) && (lo <=? hi) && (hi <=? blen h + blen t) && (blen enc <=? hi - lo)) eqn:E2;
      [|reflexivity].
    exfalso. bsplit.
    assert ((0 <=? lo) && (lo <=? hi) && (hi <=? blen h) && (blen enc <=? hi - lo) = true) by (zbool; reflexivity).
    congruence.
Qed.

Lemma wb_set_u8_app_l h t i v : i < blen h ->
  wb_set_u8 (h ++ t) i v = omap (fun x => x ++ t) (wb_set_u8 h i v).
Proof.
  intros Hh. unfold wb_set_u8. rewrite blen_app. pose proof (blen_nonneg t).
  destruct (0 <=? i) eqn:E; cbn [andb]; [|reflexivity]. bsplit. zbool. cbn [omap]. f_equal.
  rewrite firstn_app_l, skipn_app_l by (unfold blen in *; lia). rewrite <- app_assoc. reflexivity.
Qed.

Lemma wb_upd_u8_app_l h t i f : i < blen h ->
  wb_upd_u8 (h ++ t) i f = omap (fun x => x ++ t) (wb_upd_u8 h i f).
Proof.
  intros Hh. unfold wb_upd_u8. rewrite wb_get_u8_app_l by assumption.
  destruct (wb_get_u8 h i); cbn [obind omap]; try reflexivity. apply wb_set_u8_app_l; assumption.
Qed.

Lemma wb_upd_u16_app_l h t f g : snd f <= blen h ->
  wb_upd_u16 (h ++ t) f g = omap (fun x => x ++ t) (wb_upd_u16 h f g).
Proof.
  intros Hh. unfold wb_upd_u16, wb_get_u16, wb_put_u16. rewrite wb_get_be_app_l by assumption.
  destruct (wb_get_be h (fst f) (snd f) 2); cbn [obind omap]; try reflexivity.
  apply wb_put_be_app_l; assumption.
Qed.

(* chaining:  do b <- omap (++t) x; k b   when k commutes with the tail *)
Lemma obind_omap_tail {A} (x : outcome (list Z)) (t : list Z) (k k' : list Z -> outcome A) (g : A -> A) :
  (forall h, x = Ok h -> k (h ++ t) = omap g (k' h)) ->
  obind (omap (fun y => y ++ t) x) k = omap g (obind x k').
Proof. destruct x; cbn; intros H; [apply H; reflexivity | reflexivity | reflexivity]. Qed.

(* ---------- whole-tail operations ---------- *)

Lemma wb_upto_all l : wb_upto l (blen l) = Ok l.
Proof.
  unfold wb_upto. pose proof (blen_nonneg l). zbool. f_equal. unfold blen.
  rewrite Nat2Z.id. apply firstn_all.
Qed.

Lemma wb_upto_app_all h t n : n = blen h + blen t -> wb_upto (h ++ t) n = Ok (h ++ t).
Proof. intros ->. rewrite <- blen_app. apply wb_upto_all. Qed.

Lemma wb_sub_tail h t lo hi : lo = blen h -> hi = blen h + blen t -> wb_sub (h ++ t) lo hi = Ok t.
Proof.
  intros -> ->. pose proof (blen_nonneg h). pose proof (blen_nonneg t).
  rewrite wb_sub_app_r by lia. rewrite wb_sub_ok by lia.
  replace (blen h - blen h) with 0 by lia. cbn [Z.to_nat skipn].
  replace (blen h + blen t - blen h - 0) with (blen t) by lia.
  unfold blen. rewrite Nat2Z.id. rewrite firstn_all. reflexivity.
Qed.

Lemma wb_set_slice_tail h t lo hi v : lo = blen h -> hi = blen h + blen t -> blen v = blen t ->
  wb_set_slice (h ++ t) lo hi v = Ok (h ++ v).
Proof.
  intros -> -> Hv. pose proof (blen_nonneg h). pose proof (blen_nonneg t).
  unfold wb_set_slice. rewrite blen_app. zbool. f_equal.
  rewrite firstn_app. unfold blen at 1. rewrite Nat2Z.id, firstn_all.
  replace (Z.to_nat (blen h) - length h)%nat with 0%nat by (unfold blen; lia). cbn [firstn].
  rewrite app_nil_r. rewrite skipn_all2 by (rewrite app_length; unfold blen in *; lia).
  rewrite app_nil_r. reflexivity.
Qed.

Lemma wb_from_tail h t lo : lo = blen h -> wb_from (h ++ t) lo = Ok t.
Proof. intros ->. apply wb_from_app_r. Qed.

Lemma wb_upto_app_l h t n : n <= blen h -> wb_upto (h ++ t) n = wb_upto h n.
Proof.
  intros Hn. unfold wb_upto. rewrite blen_app. pose proof (blen_nonneg t).
  destruct (0 <=? n) eqn:E; cbn [andb]; [|reflexivity]. bsplit. zbool.
  rewrite firstn_app_l by (unfold blen in *; lia). reflexivity.
Qed.

(* ---------- evaluating operations on an explicit header followed by a symbolic tail ----------
   [hstep]: for the first primitive applied to  (h ++ t)  with h an explicit cell list and
   closed positions inside h: push it into h (framing lemma), evaluate it there by [cbv]
   (symbolic div/mod/bit operations are protected by the blacklist), continue. *)

Ltac side_blen := autorewrite with blen; zfold; lia.

Ltac heval t :=
  let v := eval cbv - [Z.div Z.modulo Z.land Z.lor Z.shiftl Z.shiftr Z.lxor Z.lnot be_dec] in t in
  change t with v.

Ltac hstep :=
  match goal with
  | |- context [wb_put_be ((?a :: ?h) ++ ?t) ?lo ?hi ?e] =>
      rewrite (wb_put_be_app_l (a :: h) t lo hi e) by side_blen; heval (wb_put_be (a :: h) lo hi e)
  | |- context [wb_set_slice ((?a :: ?h) ++ ?t) ?lo ?hi ?e] =>
      rewrite (wb_set_slice_app_l (a :: h) t lo hi e) by side_blen; heval (wb_set_slice (a :: h) lo hi e)
  | |- context [wb_set_u8 ((?a :: ?h) ++ ?t) ?i ?e] =>
      rewrite (wb_set_u8_app_l (a :: h) t i e) by side_blen; heval (wb_set_u8 (a :: h) i e)
  | |- context [wb_upd_u8 ((?a :: ?h) ++ ?t) ?i ?f] =>
      rewrite (wb_upd_u8_app_l (a :: h) t i f) by side_blen; heval (wb_upd_u8 (a :: h) i f)
  | |- context [wb_upd_u16 ((?a :: ?h) ++ ?t) ?fl ?g] =>
      rewrite (wb_upd_u16_app_l (a :: h) t fl g) by side_blen; heval (wb_upd_u16 (a :: h) fl g)
  | |- context [wb_get_be ((?a :: ?h) ++ ?t) ?lo ?hi ?n] =>
      rewrite (wb_get_be_app_l (a :: h) t lo hi n) by side_blen; heval (wb_get_be (a :: h) lo hi n)
  | |- context [wb_get_u8 ((?a :: ?h) ++ ?t) ?i] =>
      rewrite (wb_get_u8_app_l (a :: h) t i) by side_blen; heval (wb_get_u8 (a :: h) i)
  | |- context [wb_sub ((?a :: ?h) ++ ?t) ?lo ?hi] =>
      rewrite (wb_sub_app_l (a :: h) t lo hi) by side_blen; heval (wb_sub (a :: h) lo hi)
  | |- context [wb_upto ((?a :: ?h) ++ ?t) ?n] =>
      rewrite (wb_upto_app_l (a :: h) t n) by side_blen; heval (wb_upto (a :: h) n)
  end; cbn [omap obind].

(* split a buffer into an n-octet header and the rest *)
Lemma split_hdr (l : list Z) (n : Z) : 0 <= n <= blen l ->
  exists h t, l = h ++ t /\ length h = Z.to_nat n /\ blen t = blen l - n.
Proof.
  intros H. exists (firstn (Z.to_nat n) l), (skipn (Z.to_nat n) l).
  split; [symmetry; apply firstn_skipn|].
  split; [rewrite firstn_length; unfold blen in *; lia | apply blen_skipn; assumption].
Qed.

(* goals  <monadic expression> <> Panic  given no-panic facts for the leaves in the context *)
Ltac nopanic :=
  repeat first
    [ assumption
    | discriminate
    | apply obind_nopanic; [ | intros ? ? ]
    | match goal with |- (if ?c then _ else _) <> Panic => destruct c end
    | match goal with |- wb_guard ?c <> Panic => destruct c; cbn [wb_guard] end
    | match goal with |- (match ?x with _ => _ end) <> Panic => destruct x end ].

(* ---------- bit-field algebra: masks are constants, the old contents are arbitrary ----------
   (x & m1 | v) & m2  =  x & (m1 & m2) | (v & m2), constants folded, x & 0 = 0. *)
Ltac bits_norm :=
  repeat rewrite Z.land_lor_distr_l; repeat rewrite <- Z.land_assoc; zfold;
  repeat (rewrite ?Z.land_0_r, ?Z.lor_0_l, ?Z.lor_0_r; zfold).

(* evaluate the head operation of a monadic chain on an explicit cell list *)
Ltac mstep := match goal with |- obind ?x ?k = _ => heval x; cbn [obind] end.

(* reading back a u16 that was just written, for arbitrary (not range-checked) values *)
Lemma be_dec_cells2_land v : be_dec [(v / 256) mod 256; v mod 256] = Z.land v 65535.
Proof.
  change 65535 with (Z.ones 16). rewrite Z.land_ones by lia.
  unfold be_dec; cbn [fold_left]. change (2 ^ 16) with 65536. lia.
Qed.

Lemma land_65535_small v : 0 <= v < 65536 -> Z.land v 65535 = v.
Proof. intros. change 65535 with (Z.ones 16). rewrite Z.land_ones by lia. apply Z.mod_small. lia. Qed.

Lemma land_255_small v : 0 <= v < 256 -> Z.land v 255 = v.
Proof. intros. change 255 with (Z.ones 8). rewrite Z.land_ones by lia. apply Z.mod_small. lia. Qed.

Lemma land_ones_range x n : 0 <= n -> 0 <= Z.land x (Z.ones n) < 2 ^ n.
Proof. intros. rewrite Z.land_ones by assumption. apply Z.mod_pos_bound. apply Z.pow_pos_nonneg; lia. Qed.

Lemma land_15_range x : 0 <= Z.land x 15 < 16.
Proof. exact (land_ones_range x 4 ltac:(lia)). Qed.
Lemma land_3_range x : 0 <= Z.land x 3 < 4.
Proof. exact (land_ones_range x 2 ltac:(lia)). Qed.

Lemma shiftr_range x n m : 0 <= x < m -> 0 <= n -> 0 <= Z.shiftr x n < m.
Proof.
  intros Hx Hn. rewrite Z.shiftr_div_pow2 by assumption.
  assert (0 < 2 ^ n) by (apply Z.pow_pos_nonneg; lia).
  split; [apply Z.div_pos; lia|]. apply Z.le_lt_trans with x; [|lia].
  apply Z.div_le_upper_bound; [lia|]. nia.
Qed.

(* ---------- framing of a whole emit: tactic support ----------
   [frame_op]: the head of the chain is a primitive applied to (h ++ t) inside the prefix *)
Lemma obind_same_tail {A B} (x : outcome A) (k k' : A -> outcome B) (g : B -> B) :
  (forall a, x = Ok a -> k a = omap g (k' a)) -> obind x k = omap g (obind x k').
Proof. destruct x; cbn; intros H; [apply H; reflexivity | reflexivity | reflexivity]. Qed.


(* [refold_tail t]: rewrite every  c0 :: ... :: cn :: t  in the goal as  [c0; ...; cn] ++ t *)
Ltac refold_tail t :=
  repeat match goal with
  | |- context [?x :: t] => change (x :: t) with ([x] ++ t)
  end;
  repeat match goal with
  | |- context [?x :: (?l ++ t)] => change (x :: (l ++ t)) with ((x :: l) ++ t)
  end.

(* ---------- framing of a whole emit function ----------
   Goal shape:  chain (h ++ t) = omap (fun x => x ++ t) (chain h)  where the chain consists of
   primitives acting inside the prefix h (|h| known numerically in the context).
   [frame_step] peels one operation; [frame] repeats. *)
Lemma obind_assoc {A B C} (x : outcome A) (f : A -> outcome B) (k : B -> outcome C) :
  obind (obind x f) k = obind x (fun a => obind (f a) k).
Proof. destruct x; reflexivity. Qed.

Ltac frame_side := unfold wb_set_field, wb_put_u16, wb_put_u32 in *; zfold; lia.

Ltac frame_len E :=
  first [ apply wb_upd_u8_len in E | apply wb_upd_u16_len in E | apply wb_set_u8_len in E
        | apply wb_put_be_len in E | apply wb_set_slice_len in E ].

Ltac frame_step :=
  lazymatch goal with
  | |- obind (wb_upd_u8 (?h ++ ?t) ?i ?f) _ = _ =>
      rewrite (wb_upd_u8_app_l h t i f) by frame_side;
      apply obind_omap_tail; let h' := fresh "h" in let E := fresh "E" in intros h' E; frame_len E
  | |- obind (wb_upd_u16 (?h ++ ?t) ?fl ?g) _ = _ =>
      rewrite (wb_upd_u16_app_l h t fl g) by frame_side;
      apply obind_omap_tail; let h' := fresh "h" in let E := fresh "E" in intros h' E; frame_len E
  | |- obind (wb_set_u8 (?h ++ ?t) ?i ?v) _ = _ =>
      rewrite (wb_set_u8_app_l h t i v) by frame_side;
      apply obind_omap_tail; let h' := fresh "h" in let E := fresh "E" in intros h' E; frame_len E
  | |- obind (wb_put_be (?h ++ ?t) ?lo ?hi ?e) _ = _ =>
      rewrite (wb_put_be_app_l h t lo hi e) by frame_side;
      apply obind_omap_tail; let h' := fresh "h" in let E := fresh "E" in intros h' E; frame_len E
  | |- obind (wb_set_slice (?h ++ ?t) ?lo ?hi ?v) _ = _ =>
      rewrite (wb_set_slice_app_l h t lo hi v) by frame_side;
      apply obind_omap_tail; let h' := fresh "h" in let E := fresh "E" in intros h' E; frame_len E
  | |- obind (wb_get_u8 (?h ++ ?t) ?i) _ = _ =>
      rewrite (wb_get_u8_app_l h t i) by frame_side; apply obind_same_tail; intros ? _
  | |- obind (wb_get_be (?h ++ ?t) ?lo ?hi ?n) _ = _ =>
      rewrite (wb_get_be_app_l h t lo hi n) by frame_side; apply obind_same_tail; intros ? _
  | |- obind (wb_upto (?h ++ ?t) ?n) _ = _ =>
      rewrite (wb_upto_app_l h t n) by frame_side; apply obind_same_tail; intros ? _
  | |- obind (wb_assert _) _ = _ => apply obind_same_tail; intros ? _
  | |- obind (obind _ _) _ = _ => rewrite !obind_assoc
  | |- obind (Ok _) _ = _ => cbn [obind]
  | |- wb_upd_u8 (?h ++ ?t) ?i ?f = _ => apply wb_upd_u8_app_l; frame_side
  | |- wb_upd_u16 (?h ++ ?t) ?fl ?g = _ => apply wb_upd_u16_app_l; frame_side
  | |- wb_set_u8 (?h ++ ?t) ?i ?v = _ => apply wb_set_u8_app_l; frame_side
  | |- wb_put_be (?h ++ ?t) ?lo ?hi ?e = _ => apply wb_put_be_app_l; frame_side
  | |- wb_set_slice (?h ++ ?t) ?lo ?hi ?v = _ => apply wb_set_slice_app_l; frame_side
  | |- (if ?c then _ else _) = _ => destruct c
  end.
Ltac frame := repeat frame_step.

(* ---------- sub-slice operations ---------- *)

Lemma wb_on_from_tail h t lo f : lo = blen h ->
  wb_on_from (h ++ t) lo f = do s' <- f t; Ok (h ++ s').
Proof.
  intros ->. unfold wb_on_from. rewrite wb_from_app_r. cbn [obind].
  rewrite firstn_app. unfold blen. rewrite Nat2Z.id, firstn_all.
  replace (length h - length h)%nat with 0%nat by lia. cbn [firstn]. rewrite app_nil_r. reflexivity.
Qed.

Lemma wb_from_inv l lo s : wb_from l lo = Ok s ->
  0 <= lo <= blen l /\ s = skipn (Z.to_nat lo) l /\ blen s = blen l - lo.
Proof.
  unfold wb_from. destruct ((0 <=? lo) && (lo <=? blen l)) eqn:E; [|discriminate].
  intros H; injection H as <-. bsplit. repeat split; try lia. apply blen_skipn; lia.
Qed.

Lemma wb_from_bytes l lo s : bytes_ok l = true -> wb_from l lo = Ok s -> bytes_ok s = true.
Proof. intros Hl H. apply wb_from_inv in H. destruct H as (_ & -> & _). apply bytes_ok_skipn, Hl. Qed.

Lemma wb_upto_all' l n : n = blen l -> wb_upto l n = Ok l.
Proof. intros ->. apply wb_upto_all. Qed.

(* ---------- reads of octets / 16-bit words from byte strings ---------- *)

Lemma wb_get_u8_byte bs i : 0 <= i < blen bs -> bytes_ok bs = true ->
  exists v, wb_get_u8 bs i = Ok v /\ 0 <= v < 256.
Proof.
  intros Hi Hb. rewrite wb_get_u8_ok by lia. eexists; split; [reflexivity|].
  apply bytes_ok_nth; [assumption | unfold blen in *; lia].
Qed.

Lemma wb_get_u16_word bs f : 0 <= fst f -> fst f + 2 <= snd f -> snd f <= blen bs ->
  bytes_ok bs = true -> exists v, wb_get_u16 bs f = Ok v /\ 0 <= v < 65536.
Proof.
  intros H1 H2 H3 Hb. unfold wb_get_u16, wb_get_be. rewrite wb_sub_ok by lia. cbn [obind].
  set (s := firstn _ _).
  assert (Hs : blen s = snd f - fst f) by (unfold s; rewrite blen_firstn; [lia | rewrite blen_skipn; lia]).
  assert (Hbs : bytes_ok s = true) by (apply bytes_ok_firstn, bytes_ok_skipn, Hb).
  rewrite Hs. zbool. eexists; split; [reflexivity|]. zfold.
  destruct s as [|a [|b' s']]; [unfold blen in Hs; cbn in Hs; lia | unfold blen in Hs; cbn in Hs; lia |].
  cbn [firstn]. cbn [bytes_ok forallb] in Hbs. bsplit. rewrite be_dec2. lia.
Qed.

