(* 6LoWPAN NHC-UDP checksum (src/wire/sixlowpan/nhc.rs: UdpNhcRepr::parse / emit; property C08):
   what the verifying parser demands of an in-line checksum.  The emit side (the checksum emit computes is
   accepted by the verifying parser) is nhc_udp_roundtrip_verified of Proofs/LowpanWireProofs.v. *)
From SV Require Import Lib.Base Gen.Consts Gen.WireFields Model.WireBase Model.WireSixFrag Model.WireNhc
  Proofs.WireBaseProofs Proofs.LowpanWireProofs.

Lemma nhc_udp_verify_inv src dst sp dp payload c : nhc_udp_verify src dst sp dp payload c = Ok tt ->
  c <> 0 /\ wb_cksum_combine (nhc_udp_sum_words src dst sp dp payload ++ [c]) = 65535.
Proof.
  unfold nhc_udp_verify. destruct (nhc_udp_len_overflow payload); [discriminate|].
  destruct (c =? 0) eqn:E0; cbn [orb]; [discriminate|].
  destruct (wb_cksum_combine (nhc_udp_sum_words src dst sp dp payload ++ [c]) =? 65535) eqn:E1; cbn [negb]; [|discriminate].
  intros _. apply Z.eqb_neq in E0. apply Z.eqb_eq in E1. split; assumption.
Qed.

Lemma nhc_udp_parse_enforces b src dst r c :
  nhc_udp_parse b src dst true = Ok r -> nhc_udp_checksum b = Ok (Some c) ->
  exists payload,
    nhc_udp_payload b = Ok payload /\ c <> 0 /\
    wb_cksum_combine (nhc_udp_sum_words src dst (np_src r) (np_dst r) payload ++ [c]) = 65535.
Proof.
  intros H Hc. unfold nhc_udp_parse in H.
  apply obind_ok in H. destruct H as (u & _ & H).
  apply obind_ok in H. destruct H as (d & _ & H).
  destruct (negb (d =? wsix_DISPATCH_UDP_HEADER)); [discriminate H|].
  apply obind_ok in H. destruct H as (u2 & Hv & H).
  rewrite Hc in Hv.
  apply obind_ok in Hv. destruct Hv as (c' & Ec & Hv). injection Ec as <-.
  apply obind_ok in Hv. destruct Hv as (payload & Ep & Hv).
  apply obind_ok in Hv. destruct Hv as (sp & Es & Hv).
  apply obind_ok in Hv. destruct Hv as (dp & Ed & Hv).
  apply obind_ok in H. destruct H as (sp' & Es' & H).
  apply obind_ok in H. destruct H as (dp' & Ed' & H).
  injection H as <-. cbn [np_src np_dst].
  rewrite Es in Es'. injection Es' as <-. rewrite Ed in Ed'. injection Ed' as <-.
  destruct u2. exists payload. split; [exact Ep|]. exact (nhc_udp_verify_inv _ _ _ _ _ _ Hv).
Qed.

(* with the checksum elided (C = 1) nothing is verified: the RFC 6282 4.3.2 permission the stack accepts on receive *)
Lemma nhc_udp_parse_elided_unverified :
  exists b src dst r, nhc_udp_checksum b = Ok None /\ nhc_udp_parse b src dst true = Ok r.
Proof.
  exists [247; 18; 1; 2; 3], (repeat 0 16), (repeat 0 16), (mkPorts 61617 61618).
  split; vm_compute; reflexivity.
Qed.
