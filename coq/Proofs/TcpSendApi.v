(* C05, layer 3 (continued): the API calls and the interface ingress wrapper preserve the sender
   invariant; [send] appends exactly the accepted bytes to the ghost stream. *)
From SV Require Import Lib.Base Gen.Consts.
From SV Require Import Model.Seq32 Model.Assembler Model.TcpBuf Model.TcpTypes Model.Tcp.
From SV Require Import Proofs.TcpSendBase Proofs.TcpSendInv Proofs.TcpSendAck Proofs.TcpSendProc.

Lemma sq_0 : sq 0 = 0.
Proof. reflexivity. Qed.

(* reset(): a fresh epoch *)
Lemma reset_inv : forall g s, inv g s -> inv ghost0 (tcp_reset s).
Proof.
  intros g s ((Hwf & Hcap & _) & _). change ghost0 with (g_fresh 0).
  destruct (reset_fields s) as (R1 & R2 & R3 & R4 & R5 & R6 & R7).
  destruct (reset_fields2 s) as (R8 & Rm).
  revert R1 R2 R3 R4 R5 R6 R7 R8 Rm. generalize (tcp_reset s). intros s0 R1 R2 R3 R4 R5 R6 R7 R8 Rm.
  apply fresh_inv; rewrite ?R1, ?R2, ?R3, ?R4, ?R5, ?R6, ?R7;
    [apply rb_clear_wf; exact Hwf | exact Hcap | reflexivity | split; [apply Z.le_refl|reflexivity]
    | reflexivity | reflexivity | unfold max_window; split; [apply Z.le_refl|discriminate]
    | exact I | exact I | discriminate | exact R8 | exact Rm].
Qed.

Lemma reset_txv_fields : forall s,
  s_remote_win_len (tcp_reset s) = 0 /\ s_remote_mss (tcp_reset s) = tcp_DEFAULT_MSS /\
  s_state (tcp_reset s) = Closed.
Proof. intros. unfold tcp_reset. fld. auto. Qed.

(* changing only the state, within what [phase_ok] allows *)
Lemma inv_set_state : forall g g' s st',
  inv g s ->
  g_iss g' = g_iss g -> g_stream g' = g_stream g -> g_acked g' = g_acked g ->
  g_phase g' = g_phase g -> g_flight g' = g_flight g -> g_hw g' = g_hw g ->
  (g_fin g = true -> g_fin g' = true) ->
  phase_ok g' st' (rb_len (s_tx_buffer s)) (s_syn_unacked_in_fin_wait s) ->
  st' <> Listen ->
  inv g' (upd_state s st').
Proof.
  intros g g' s st' ((H1 & H2 & H3 & H4 & H5 & H6 & H7 & H8 & H9 & H10 & H11) & (T1 & T2) &
                     (K1 & K2 & K3 & K4))
         E1 E2 E3 E4 E5 E6 E7 Hph Hnl.
  assert (Eu : g_una g' = g_una g) by (unfold g_una; rewrite E3, E4; reflexivity).
  split; [|split].
  - unfold tx_inv. fld. unfold tx_inv_f. rewrite Eu, E1, E2, E3, E5, E6.
    split; [exact H1|]. split; [exact H2|]. split; [exact H3|]. split; [exact H4|].
    split; [intros i Hi; rewrite H5 by exact Hi; unfold g_W; rewrite E2; reflexivity|].
    split; [exact H6|]. split; [exact H7|].
    split.
    { unfold g_budget in *. rewrite E4. destruct (g_phase g); try lia.
      destruct (g_fin g) eqn:F; [rewrite (E7 eq_refl); exact H8|].
      destruct (g_fin g'); cbn [b2z] in *; lia. }
    split; [exact H9|]. split; [exact Hph|]. exact H11.
  - unfold tm_inv, tm_inv_f in *. fld. rewrite E5. auto.
  - unfold kinv. fld. rewrite E1, E2, E6.
    split.
    { destruct (g_fin g) eqn:F; [rewrite (E7 eq_refl); exact K1|].
      destruct (g_fin g'); cbn [b2z] in *; lia. }
    split; [exact K2|]. split; [exact K3|]. intros X. congruence.
Qed.

Definition g_set_fin (g : ghost) : ghost :=
  mkGhost (g_iss g) (g_stream g) (g_acked g) (g_phase g) (g_flight g) true (g_hw g).

Lemma same_epoch_set_fin : forall g, same_epoch g (g_set_fin g).
Proof.
  intros. unfold same_epoch, g_set_fin. cbn [g_iss g_stream g_acked g_hw g_fin].
  split; [reflexivity|]. split; [exists []; symmetry; apply app_nil_r|].
  split; [lia|]. split; [lia|]. auto.
Qed.

(* close() *)
Lemma close_inv : forall g s, inv g s ->
  exists g', inv g' (tcp_close s) /\ same_epoch g g' /\
             (g' = g \/ g' = g_set_fin g).
Proof.
  intros g s Hinv. pose proof Hinv as ((_ & _ & _ & _ & _ & _ & _ & _ & _ & Hph & _) & _).
  unfold tcp_close.
  destruct (s_state s) eqn:Est; unfold phase_ok in Hph.
  - exists g. split; [|split; [apply same_epoch_refl|auto]].
    exact Hinv.
  - exists g. split; [|split; [apply same_epoch_refl|auto]].
    unfold tcp_set_state. eapply (inv_set_state g g); try reflexivity; try exact Hinv; auto; try discriminate.
    apply (phase_ok_closed g Listen _ (s_syn_unacked_in_fin_wait s)). unfold phase_ok. exact Hph.
  - exists g. split; [|split; [apply same_epoch_refl|auto]].
    unfold tcp_set_state. eapply (inv_set_state g g); try reflexivity; try exact Hinv; auto; try discriminate.
    apply (phase_ok_closed g SynSent _ (s_syn_unacked_in_fin_wait s)). unfold phase_ok. exact Hph.
  - (* SYN-RECEIVED: FIN-WAIT-1 with the SYN|ACK still unacknowledged *)
    exists (g_set_fin g). split; [|split; [apply same_epoch_set_fin|auto]].
    unfold tcp_set_state.
    assert (Hinv' : inv g (upd_syn_unacked_in_fin_wait s true)).
    { destruct (g_phase g) eqn:P; try tauto.
      destruct Hinv as ((H1 & H2 & H3 & H4 & H5 & H6 & H7 & H8 & H9 & H10 & H11) & Htm).
      split; [|exact Htm]. unfold tx_inv. fld. unfold tx_inv_f.
      repeat (split; [assumption|]). split; [|exact H11].
      unfold phase_ok. rewrite P, Est. exact Hph. }
    eapply (inv_set_state g (g_set_fin g)); try reflexivity; try exact Hinv'; auto; try discriminate.
    fld. unfold phase_ok, g_set_fin. cbn [g_phase g_acked g_fin g_flight].
    destruct (g_phase g); intuition auto.
  - (* ESTABLISHED *)
    exists (g_set_fin g). split; [|split; [apply same_epoch_set_fin|auto]].
    unfold tcp_set_state. eapply (inv_set_state g (g_set_fin g)); try reflexivity; try exact Hinv; auto; try discriminate.
    unfold phase_ok, g_set_fin. cbn [g_phase g_acked g_fin g_flight].
    destruct (g_phase g); intuition auto.
  - exists g. split; [|split; [apply same_epoch_refl|auto]].
    exact Hinv.
  - exists g. split; [|split; [apply same_epoch_refl|auto]].
    exact Hinv.
  - (* CLOSE-WAIT *)
    exists (g_set_fin g). split; [|split; [apply same_epoch_set_fin|auto]].
    unfold tcp_set_state. eapply (inv_set_state g (g_set_fin g)); try reflexivity; try exact Hinv; auto; try discriminate.
    unfold phase_ok, g_set_fin. cbn [g_phase g_acked g_fin g_flight].
    destruct (g_phase g); intuition auto.
  - exists g. split; [|split; [apply same_epoch_refl|auto]].
    exact Hinv.
  - exists g. split; [|split; [apply same_epoch_refl|auto]].
    exact Hinv.
  - exists g. split; [|split; [apply same_epoch_refl|auto]].
    exact Hinv.
Qed.

Lemma abort_inv : forall g s, inv g s -> inv g (tcp_abort s).
Proof.
  intros g s Hinv. pose proof Hinv as ((_ & _ & _ & _ & _ & _ & _ & _ & _ & Hph & _) & _).
  unfold tcp_abort, tcp_set_state. eapply (inv_set_state g g); try reflexivity; try exact Hinv; auto; try discriminate.
  eapply phase_ok_closed. exact Hph.
Qed.

Lemma listen_inv : forall g s ep s', inv g s -> tcp_listen s ep = Ok s' ->
  exists g', inv g' s' /\ ghost_rel g g'.
Proof.
  intros g s ep s' Hinv H. unfold tcp_listen in H.
  destruct (le_port ep =? 0); [discriminate|].
  destruct (tcp_is_open s).
  - destruct (_ && _); [|discriminate]. injection H as <-. exists g.
    split; [exact Hinv|left; apply same_epoch_refl].
  - injection H as <-. exists (g_fresh 0). split; [|apply new_epoch_fresh].
    destruct Hinv as ((Hwf & Hcap & _) & _).
    destruct (reset_fields s) as (R1 & R2 & R3 & R4 & R5 & R6 & R7).
    destruct (reset_fields2 s) as (R8 & Rm).
    revert R1 R2 R3 R4 R5 R6 R7 R8 Rm. generalize (tcp_reset s). intros s0 R1 R2 R3 R4 R5 R6 R7 R8 Rm.
    apply fresh_inv; unfold tcp_set_state; fld; rewrite ?R1, ?R2, ?R3, ?R4, ?R5, ?R6;
      [apply rb_clear_wf; exact Hwf | exact Hcap | reflexivity | split; [apply Z.le_refl|reflexivity]
      | reflexivity | reflexivity | unfold max_window; split; [apply Z.le_refl|discriminate]
      | exact I | exact I | discriminate | exact R8 | exact Rm].
Qed.

Lemma connect_inv : forall cx g s ra rp lep s', inv g s -> ctx_ok cx ->
  tcp_connect cx s ra rp lep = Ok s' ->
  inv (g_fresh (cx_isn cx)) s' /\ s_state s' = SynSent.
Proof.
  intros cx g s ra rp lep s' Hinv (Hisn & _) H. unfold tcp_connect in H.
  destruct (tcp_is_open s); [discriminate|].
  destruct (_ || _); [discriminate|]. destruct (le_port lep =? 0); [discriminate|].
  match type of H with context [obind ?x _] => destruct x as [la| |]; cbn [obind] in H; try discriminate end.
  injection H as <-.
  destruct Hinv as ((Hwf & Hcap & _) & _).
  destruct (reset_fields s) as (R1 & R2 & R3 & R4 & R5 & R6 & R7).
  destruct (reset_fields2 s) as (R8 & Rm).
  revert R1 R2 R3 R4 R5 R6 R7 R8 Rm. generalize (tcp_reset s). intros s0 R1 R2 R3 R4 R5 R6 R7 R8 Rm.
  split; [|unfold tcp_set_state; fld; reflexivity].
  apply fresh_inv; unfold tcp_set_state; fld; rewrite ?R1, ?R2, ?R3, ?R4, ?R5, ?R6;
    [apply rb_clear_wf; exact Hwf | exact Hcap | reflexivity | exact Hisn
    | reflexivity | reflexivity | unfold max_window; split; [apply Z.le_refl|discriminate]
    | exact I | exact I | discriminate | exact R8 | exact Rm].
Qed.

Lemma send_kinv : forall g s more s0,
  kinv g s -> tx_inv (g_send g more) s0 ->
  rt_max_seq_sent (s_rtte s0) = rt_max_seq_sent (s_rtte s) -> s_remote_mss s0 = s_remote_mss s ->
  s_state s0 = s_state s -> s_state s <> Listen ->
  kinv (g_send g more) s0.
Proof.
  intros g s more s0 Hk Htx Em Es Est Hnl.
  eapply (kinv_step g s _ s0 more); [exact Hk|exact Htx|reflexivity|reflexivity|auto| | |exact Em| |].
  - cbn [g_send g_hw]. lia.
  - cbn [g_send g_hw]. lia.
  - rewrite Es. destruct Hk as (_ & _ & K3 & _). exact K3.
  - intros X. congruence.
Qed.

(* send_slice appends exactly the accepted prefix to the stream *)
Lemma send_inv : forall g s data s' n, inv g s -> tcp_send_slice s data = Ok (s', n) ->
  inv (g_send g (l_take n data)) s' /\ 0 <= n <= l_len data /\
  rb_len (s_tx_buffer s') = rb_len (s_tx_buffer s) + n /\ tcp_may_send s = true.
Proof.
  intros g s data s' n (Htx & Htm & Hk) H. unfold tcp_send_slice in H.
  destruct (tcp_may_send s) eqn:Hms; cbn [negb] in H; [|discriminate].
  destruct (rb_enqueue_slice (s_tx_buffer s) data) as [tx' sz] eqn:E.
  assert (Hst : tcp_may_send_st (s_state s) = true) by exact Hms.
  assert (Hnl : s_state s <> Listen) by (intro X; rewrite X in Hst; discriminate).
  destruct (send_step_inv _ _ _ _ _ _ _ _ _ _ _ Htx Hst E) as (Hinv' & Hn & Hlen).
  pose proof Htx as (Hwf & _ & _ & _ & _ & _ & _ & Hf & _ & Hph & _).
  pose proof Hwf as (Hl0 & _).
  assert (Hf0 : timer_is_idle (s_timer s) = true -> g_flight g = 0).
  { intros Hi. destruct Htm as (_ & T2). destruct (T2 Hi) as [X|X]; [exact X|].
    unfold phase_ok in Hph. unfold g_budget in Hf. rewrite X in Hf.
    destruct (g_phase g); [| |tauto].
    - destruct (s_state s); cbn in Hst; try discriminate; tauto.
    - destruct (s_state s); cbn in Hst; try discriminate.
      + destruct Hph as (G & _). rewrite G in Hf. cbn [b2z] in Hf. lia.
      + rewrite Hph in Hf. cbn [b2z] in Hf. lia. }
  assert (Hbase : forall s0 tm, txv s0 = txv (upd_timer (upd_tx_buffer s tx') tm) -> n = sz ->
                  (tm = s_timer s \/ (s_remote_win_len s = 0 /\ timer_is_zero_window_probe tm = true /\
                                      timer_is_idle tm = false)) ->
                  inv (g_send g (l_take n data)) s0).
  { intros s0 tm E0 -> Htmc.
    destruct (txv_proj _ _ E0) as (B1 & B2 & B3 & B4 & B5 & B6 & B7 & B8 & _ & B10).
    pose proof (txv_msx _ _ E0) as B11.
    fld_in B1. fld_in B2. fld_in B3. fld_in B4. fld_in B5. fld_in B6. fld_in B7. fld_in B8. fld_in B10.
    fld_in B11.
    assert (Ht0 : tx_inv (g_send g (l_take sz data)) s0).
    { unfold tx_inv. rewrite B1, B2, B3, B4, B5, B6, B10. exact Hinv'. }
    split; [exact Ht0|]. split.
    - unfold tm_inv, tm_inv_f. rewrite B2, B5, B7. cbn [g_send g_flight].
      destruct Htm as (T1 & T2). destruct Htmc as [->|(W0 & Z1 & Z2)].
      + split; [exact T1|]. intros Hi. left. auto.
      + split; [intros _; exact W0|rewrite Z2; discriminate].
    - eapply send_kinv; eassumption. }
  fld_in H. destruct (Z.gtb_spec sz 0).
  2: { injection H as <- <-. split; [|split; [exact Hn|split; [fld; exact Hlen|reflexivity]]].
       apply (Hbase _ (s_timer s)); [reflexivity|reflexivity|left; reflexivity]. }
  destruct (rb_len (s_tx_buffer s) =? 0); fld_in H;
  (destruct ((s_remote_win_len s =? 0) && timer_is_idle (s_timer s)) eqn:Ez; injection H as <- <-;
   (split; [|split; [exact Hn|split; [fld; exact Hlen|reflexivity]]]);
   [ apply andb_prop in Ez; destruct Ez as (Ew & Ei); apply Z.eqb_eq in Ew;
     eapply Hbase; [reflexivity|reflexivity|right; split; [exact Ew|split; reflexivity]]
   | apply (Hbase _ (s_timer s)); [reflexivity|reflexivity|left; reflexivity] ]).
Qed.

(* set_keep_alive: an idle timer stays idle *)
Lemma set_keep_alive_inv : forall g s d, inv g s -> inv g (tcp_set_keep_alive s d).
Proof.
  intros g s d Hinv. unfold tcp_set_keep_alive.
  destruct (is_some d); [|eapply inv_txv; [|exact Hinv]; reflexivity].
  destruct Hinv as (Htx & Htm & Hk). split; [unfold tx_inv; fld; exact Htx|]. split.
  - unfold tm_inv, tm_inv_f in *. fld. destruct (s_timer s) as [[k|]| | | |]; exact Htm.
  - eapply kinv_fields; [exact Hk|reflexivity|reflexivity|auto].
Qed.
