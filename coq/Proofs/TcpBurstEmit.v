(* C03, "fail to return" clause for the TCP socket, layer 2: one emitting dispatch, after the
   timer-driven part, strictly decreases the measure [nu] and leaves the timers quiet. *)
From SV Require Import Lib.Base Gen.Consts.
From SV Require Import Model.Seq32 Model.Assembler Model.TcpBuf Model.TcpTypes Model.Tcp.
From SV Require Import Proofs.TcpSendBase Proofs.TcpSendInv Proofs.TcpSendDisp Proofs.TcpSendDisp2.
From SV Require Import Proofs.TcpLiveBase Proofs.TcpLiveProofs.
From SV Require Import Proofs.TcpBurstBase Proofs.TcpBurstStep.

Lemma emss_pos : forall cx s, mtu_ok cx -> rmss_ok s -> 0 < emss cx s.
Proof.
  intros cx s Hm Hr. unfold emss, eff_mss, sat_sub, ts_opt, mtu_ok, rmss_ok in *.
  assert (tcp_MIN_REMOTE_MSS = 48) by reflexivity.
  destruct (s_tsval_generator s); lia.
Qed.

Lemma state_classes : forall s,
  s_state s = Closed \/ s_state s = Listen \/ tcp_sent_syn s = true \/
  ((s_state s = FinWait2 \/ s_state s = TimeWait) /\ tcp_sent_syn s = false) \/
  (data_state (s_state s) = true /\ tcp_sent_syn s = false).
Proof.
  intros s. unfold tcp_sent_syn. destruct (s_state s); cbn; auto 8.
  destruct (s_syn_unacked_in_fin_wait s); auto 8.
Qed.

(* what the rest of the file needs from one emitting dispatch *)
Definition emit_ok_post (cx : ctx) (s s' : socket) (t : tuple) : Prop :=
  s_tuple s' = None \/
  (s_tuple s' = Some t /\ tquiet (cx_now cx) (s_timer s') /\
   s_remote_last_ts s' = s_remote_last_ts s /\ s_timeout s' = s_timeout s /\
   s_keep_alive s' = s_keep_alive s /\ s_remote_mss s' = s_remote_mss s /\
   s_syn_unacked_in_fin_wait s' = s_syn_unacked_in_fin_wait s /\ s_state s' = s_state s /\
   zwp_ok s' /\ rx_ok s' /\ nu cx s' < nu cx s).

Section Emit.
  Variables (cx : ctx) (g : ghost) (s : socket) (t : tuple).
  Hypothesis Hcx : TcpSendInv.ctx_ok cx.
  Hypothesis Hmtu : mtu_ok cx.
  Hypothesis Hlive : tcp_live_inv s.
  Hypothesis Hinv : inv g s.
  Hypothesis Hsinv : sinv s.
  Hypothesis Hrx : rx_ok s.
  Hypothesis Hka : ka_pos s.
  Hypothesis Htup : s_tuple s = Some t.
  Hypothesis Hnr : timer_should_retransmit (s_timer s) (cx_now cx) = false.

  Let now := cx_now cx.
  Let f := g_flight g.

  Lemma e_emss : 0 < emss cx s.
  Proof. destruct Hsinv as (_ & Hr & _). apply emss_pos; assumption. Qed.

  Lemma e_fl : fl s = f.
  Proof. destruct Hinv as (Htx & _). apply fl_inv. exact Htx. Qed.

  Lemma e_rto : 0 < rtte_retransmission_timeout (s_rtte s).
  Proof. apply rtte_timeout_bounds. apply (li_rtte s Hlive). Qed.

  Lemma e_f0 : 0 <= f.
  Proof. destruct Hinv as (Htx & _). destruct (inv_nf g s Htx) as (_ & _ & X & _). apply X. Qed.

  (* a probe or a keep-alive went out *)
  Lemma emit_zk : forall s3 r zwp ka s' tg,
    (s3 = s \/ s3 = upd_pending_fast_retransmit s false) ->
    (zwp = true /\ timer_should_zero_window_probe (s_timer s) now = true \/
     zwp = false /\ ka = true /\ timer_should_keep_alive (s_timer s) now = true) ->
    tcp_dispatch_finish cx s3 r zwp ka = (s', tg) ->
    emit_ok_post cx s s' t.
  Proof.
    intros s3 r zwp ka s' tg Hs3 Hk H. right.
    assert (Hzk : zwp = true \/ ka = true) by (destruct Hk as [(-> & _)|(_ & -> & _)]; auto).
    pose proof (finish_zk_fields cx s3 r zwp ka s' tg Hzk H) as X. cbv zeta in X.
    destruct X as (Hfr & Et & Ers & Eack & Ewin & Ertte & Etm).
    destruct (unpend_frame s) as (U1 & U2 & U3 & U4 & U5 & U6 & U7 & U8 & U9). cbv zeta in *.
    assert (V : s_tx_buffer s3 = s_tx_buffer s /\ s_timer s3 = s_timer s /\ s_state s3 = s_state s /\
                fl s3 = fl s /\ m_B s3 = m_B s /\ m_P s3 <= m_P s /\ s_tuple s3 = s_tuple s /\
                (forall f0, phi_of cx s3 f0 = phi_of cx s f0) /\ rx_ok s3 /\
                s_keep_alive s3 = s_keep_alive s /\ s_remote_last_ts s3 = s_remote_last_ts s /\
                s_timeout s3 = s_timeout s /\ s_remote_mss s3 = s_remote_mss s /\
                s_syn_unacked_in_fin_wait s3 = s_syn_unacked_in_fin_wait s).
    { destruct Hs3 as [->| ->].
      - do 5 (split; [reflexivity|]). split; [apply Z.le_refl|]. split; [reflexivity|].
        split; [reflexivity|]. split; [exact Hrx|]. repeat split; reflexivity.
      - pose proof (P_01 s). do 5 (split; [reflexivity|]). split; [rewrite U6; lia|].
        split; [reflexivity|]. split; [reflexivity|]. split; [exact Hrx|]. repeat split; reflexivity. }
    destruct V as (V1 & V2 & V3 & V4 & V5 & V6 & V7 & V8 & V9 & V10 & V11 & V12 & V13 & V14).
    pose proof Hfr as (F1 & F2 & F3 & F4 & F5 & F6 & F7 & F8 & F9 & F10 & F11 & F12 & F13 & F14 & F15 & F16).
    rewrite V2, V10 in Etm.
    destruct Hsinv as (Hz & Hrm & Hfw).
    (* the timer after the emit *)
    assert (Hq : tquiet now (s_timer s') /\ zwp_ok s').
    { destruct Hk as [(-> & Hdue)|(-> & -> & Hdue)].
      - unfold zwp_ok in Hz |- *. destruct (s_timer s) as [k|e| |e d|e] eqn:Etimer; try discriminate.
        cbn [timer_rewind_keep_alive] in Etm.
        destruct Hz as (Hd & Hl).
        destruct (rewind_zwp_quiet e d now Hd) as (Q & e' & d' & Eq & Hd').
        rewrite Etm. split; [exact Q|]. unfold now in Eq. rewrite Eq, F1, V1. auto.
      - unfold zwp_ok. rewrite Etm.
        destruct (s_timer s) as [k|e| |e d|e] eqn:Etimer; try discriminate.
        split.
        + apply rewind_ka_quiet; [exact Hka|reflexivity|reflexivity].
        + cbn [timer_rewind_keep_alive]. exact I. }
    destruct Hq as (Hq & Hz').
    split; [rewrite Et, V7; exact Htup|]. split; [exact Hq|].
    split; [congruence|]. split; [congruence|]. split; [congruence|]. split; [congruence|].
    split; [congruence|]. split; [congruence|]. split; [exact Hz'|].
    split; [apply (rx_ok_frame s3); assumption|].
    unfold nu. rewrite (quiet_D cx s' Hq).
    rewrite (B_frame s3 s' Hfr Eack Ewin), (P_frame s3 s' Hfr), V5.
    rewrite !m_Phi_of, (phi_of_frame cx s3 s' _ Hfr), V8.
    rewrite (fl_same s3 s' F2 Ers), V4.
    assert (m_D cx s = 1).
    { unfold m_D. fold now. destruct Hk as [(_ & ->)|(_ & _ & ->)]; [rewrite orb_true_r|]; reflexivity. }
    lia.
  Qed.

  (* an ordinary segment went out *)
  Lemma emit_n : forall s3 r s' tg off,
    (s3 = s \/ s3 = upd_pending_fast_retransmit s false) ->
    s_state s <> Closed ->
    let sl := repr_segment_len r in
    (0 < sl -> r_seq_number r = sq (g_iss g + g_una g + off) /\ 0 <= off /\ off + sl <= 2 ^ 30 + 5) ->
    (r_ack_number r = None \/
     (r_ack_number r = Some (tcp_window_start s) /\
      ((control_eqb (r_control r) CSyn = false /\ r_window_len r = tcp_scaled_window s) \/
       s_state s = SynReceived \/ s_syn_unacked_in_fin_wait s = true))) ->
    (0 < sl \/ timer_should_zero_window_probe (s_timer s) now = false) ->
    tcp_dispatch_finish cx s3 r false false = (s', tg) ->
    m_P s3 + phi_of cx s (if sl >? 0 then Z.max f (off + sl) else f)
      < m_D cx s + m_B s + m_P s + phi_of cx s f ->
    emit_ok_post cx s s' t.
  Proof.
    intros s3 r s' tg off Hs3 Hnc sl Hseq Hack Htz H Hlt. right.
    pose proof (finish_n_fields cx s3 r s' tg H) as X. cbv zeta in X. fold sl in X.
    destruct X as (Hfr & Et & Ers & Eack & Ewin & Erto & Etm).
    assert (V : s_tx_buffer s3 = s_tx_buffer s /\ s_timer s3 = s_timer s /\ s_state s3 = s_state s /\
                s_tuple s3 = s_tuple s /\
                (forall f0, phi_of cx s3 f0 = phi_of cx s f0) /\ rx_ok s3 /\
                s_keep_alive s3 = s_keep_alive s /\ s_remote_last_ts s3 = s_remote_last_ts s /\
                s_timeout s3 = s_timeout s /\ s_remote_mss s3 = s_remote_mss s /\
                s_syn_unacked_in_fin_wait s3 = s_syn_unacked_in_fin_wait s /\
                s_rtte s3 = s_rtte s /\ inv g s3 /\ s_remote_win_shift s3 = s_remote_win_shift s /\
                tcp_window_start s3 = tcp_window_start s /\ tcp_scaled_window s3 = tcp_scaled_window s).
    { destruct Hs3 as [->| ->].
      - do 5 (split; [reflexivity|]). split; [exact Hrx|]. do 6 (split; [reflexivity|]).
        split; [exact Hinv|]. repeat split; reflexivity.
      - do 5 (split; [reflexivity|]). split; [exact Hrx|]. do 6 (split; [reflexivity|]).
        split; [eapply inv_txv; [|exact Hinv]; reflexivity|]. repeat split; reflexivity. }
    destruct V as (V1 & V2 & V3 & V4 & V5 & V6 & V7 & V8 & V9 & V10 & V11 & V12 & V13 & V14 & V15 & V16).
    pose proof Hfr as (F1 & F2 & F3 & F4 & F5 & F6 & F7 & F8 & F9 & F10 & F11 & F12 & F13 & F14 & F15 & F16).
    rewrite V2, V7, V12 in Etm.
    destruct Hsinv as (Hz & Hrm & Hfw).
    pose proof e_rto as Hrto.
    (* the timer after the emit *)
    assert (Hq : tquiet now (s_timer s') /\ zwp_ok s').
    { set (tk := timer_rewind_keep_alive (s_timer s) (cx_now cx) (s_keep_alive s)) in *.
      destruct ((sl >? 0) && negb (timer_is_retransmit tk)) eqn:Ec.
      - rewrite Etm. split; [apply set_for_retransmit_quiet; exact Hrto|].
        unfold zwp_ok. rewrite Etm. destruct tk; exact I.
      - assert (Hzf : timer_should_zero_window_probe (s_timer s) now = false).
        { destruct Htz as [Hp|Hp]; [|exact Hp].
          destruct (Z.gtb_spec sl 0); [|lia]. cbn [andb] in Ec.
          unfold tk in Ec. destruct (s_timer s); cbn in Ec |- *; try reflexivity; discriminate. }
        split.
        + rewrite Etm. apply rewind_ka_quiet; [exact Hka|exact Hnr|exact Hzf].
        + unfold zwp_ok in Hz |- *. rewrite Etm, F1, V1. unfold tk.
          destruct (s_timer s); try exact I. exact Hz. }
    destruct Hq as (Hq & Hz').
    assert (Htup' : s_tuple s' = Some t).
    { rewrite Et, V3. destruct (tcp_state_eqb (s_state s) Closed) eqn:Ecl.
      - exfalso. apply Hnc. destruct (s_state s); try discriminate. reflexivity.
      - rewrite V4. exact Htup. }
    split; [exact Htup'|]. split; [exact Hq|].
    split; [congruence|]. split; [congruence|]. split; [congruence|]. split; [congruence|].
    split; [congruence|]. split; [congruence|]. split; [exact Hz'|].
    assert (Hrx' : rx_ok s') by (apply (rx_ok_frame s3); assumption).
    split; [exact Hrx'|].
    (* nothing is owed to the peer any more *)
    assert (Ews : tcp_window_start s' = tcp_window_start s /\ tcp_scaled_window s' = tcp_scaled_window s).
    { unfold tcp_window_start, tcp_scaled_window in *. rewrite F5, F7, F9. auto. }
    destruct Ews as (Ews & Esw).
    assert (HB : m_B s' = 0).
    { destruct Hack as [Hn|(Ha & Hw)].
      - apply B_noack. rewrite Eack. exact Hn.
      - apply B_acked; [exact Hrx'|rewrite Eack, Ews; exact Ha|].
        destruct Hw as [(Hc & Hw)|[Hw|Hw]].
        + left. rewrite Ewin, Hc, Esw. exact Hw.
        + right; left. congruence.
        + right; right. congruence. }
    (* octets in flight *)
    assert (Hfl : fl s' = (if sl >? 0 then Z.max f (off + sl) else f)).
    { destruct V13 as (Htx3 & _).
      apply (fl_after_n g s3 s' (r_seq_number r) sl off Htx3 F2 Ers). exact Hseq. }
    unfold nu. rewrite (quiet_D cx s' Hq), HB, (P_frame s3 s' Hfr).
    rewrite !m_Phi_of, (phi_of_frame cx s3 s' _ Hfr), V5, Hfl, e_fl. lia.
  Qed.

  Lemma e_nf : s_local_seq_no s = sq (g_iss g + g_una g + 0) /\
               s_remote_last_seq s = sq (g_iss g + g_una g + f) /\
               rb_len (s_tx_buffer s) <= 2 ^ 30.
  Proof.
    destruct Hinv as (Htx & _). destruct (inv_nf g s Htx) as (A & B & _ & _ & _ & C & _).
    split; [exact A|]. split; [exact B|]. apply C.
  Qed.

  (* a due probe timer means a closed window (C05 timer clause) *)
  Lemma e_zwp_win : timer_should_zero_window_probe (s_timer s) now = true -> s_remote_win_len s = 0.
  Proof.
    intros H. destruct Hinv as (_ & (Hz & _)). apply Hz.
    apply (should_zwp_is_zwp _ _ H).
  Qed.

  Lemma e_zwp_len : timer_should_zero_window_probe (s_timer s) now = true ->
    0 < rb_len (s_tx_buffer s).
  Proof.
    intros H. destruct Hsinv as (Hz & _). unfold zwp_ok in Hz.
    destruct (s_timer s); try discriminate. apply Hz.
  Qed.

  Theorem emit_core : forall s2 tg2 s3 r zwp ka tg3 s' tg4,
    tcp_dispatch_decide cx s = Ok (s2, true, tg2) ->
    tcp_dispatch_build cx s2 t = Ok (s3, Some r, zwp, ka, tg3) ->
    tcp_dispatch_finish cx s3 r zwp ka = (s', tg4) ->
    emit_ok_post cx s s' t.
  Proof.
    intros s2 tg2 s3 r zwp ka tg3 s' tg4 Hd Hb Hfin.
    assert (Ht : s_tuple s <> None) by (rewrite Htup; discriminate).
    destruct (reason_cases cx g s s2 tg2 Hinv Hcx Ht Hd) as (-> & R).
    pose proof e_emss as Hm. pose proof e_f0 as Hf0. pose proof e_nf as (Hl & Hr & Hlen).
    pose proof (D_01 cx s) as HD. pose proof (B_01 s) as HB. pose proof (P_01 s) as HP.
    destruct Hsinv as (Hz & Hrm & Hfw).
    destruct (state_classes s) as [Hst|[Hst|[Hsyn|[(Hst & Hsyn)|(Hds & Hsyn)]]]].
    - (* CLOSED: the RST goes out and the socket forgets its tuple *)
      destruct (build_closed _ _ _ _ _ _ _ _ Hcx Hst Hb) as (-> & -> & ->).
      pose proof (finish_n_fields cx s r s' tg4 Hfin) as X. cbv zeta in X.
      destruct X as (_ & Et & _). rewrite Hst in Et. left. exact Et.
    - (* LISTEN has no tuple *)
      rewrite (li_listen s Hlive Hst) in Htup. discriminate.
    - (* SYN states *)
      destruct (build_syn _ _ _ _ _ _ _ _ Hcx Hsyn Hb) as (-> & -> & -> & Hc & Hsl & Hseq & Hack).
      assert (Hncl : s_state s <> Closed).
      { intros X. unfold tcp_sent_syn in Hsyn. rewrite X in Hsyn. discriminate. }
      apply (emit_n s r s' tg4 0); auto.
      + rewrite Hsl. intros _. split; [rewrite Hseq; exact Hl|]. lia.
      + unfold tcp_sent_syn in Hsyn.
        destruct (s_state s) eqn:Est; try discriminate; cbn [tcp_state_eqb] in Hack; auto.
      + rewrite Hsl. left. lia.
      + rewrite Hsl. change (1 >? 0) with true. cbv iota.
        unfold phi_of. rewrite Hsyn.
        destruct (Z.eqb_spec (Z.max f (0 + 1)) 0); [lia|].
        destruct R as [R|[R|R]]; [| |contradiction].
        * pose proof (b2z_01 (f =? 0)). cbn [b2z]. lia.
        * pose proof (stt_syn cx g s Hinv Hsyn R) as E0. fold f in E0. rewrite E0. change (b2z (0 =? 0)) with 1. cbn [b2z]. lia.
    - (* FIN-WAIT-2 / TIME-WAIT: an ACK or a keep-alive *)
      assert (Hl0 : rb_len (s_tx_buffer s) = 0).
      { apply (li_nodata s Hlive). destruct Hst as [X|X]; rewrite X; reflexivity. }
      assert (Hncl : s_state s <> Closed) by (destruct Hst as [X|X]; rewrite X; discriminate).
      destruct (build_ackonly _ _ _ _ _ _ _ _ Hst Hb) as (-> & -> & [(-> & Hk)|(-> & Hk & Hsl & Hc & Hack & Hw)]).
      + apply (emit_zk s r false true s' tg4); auto.
      + apply (emit_n s r s' tg4 0); auto.
        * rewrite Hsl. lia.
        * right. split; [exact Hack|]. left. rewrite Hc. auto.
        * right. destruct (timer_should_zero_window_probe (s_timer s) now) eqn:E; [|reflexivity].
          pose proof (e_zwp_len E). lia.
        * rewrite Hsl. change (0 >? 0) with false. cbv iota.
          destruct R as [R|[R|R]]; [lia| |contradiction].
          rewrite (stt_ackonly cx g s Hinv Hfw Hst) in R. discriminate.
    - (* the data states *)
      assert (Hncl : s_state s <> Closed) by (intros X; rewrite X in Hds; discriminate).
      destruct (build_data_class _ _ _ _ _ _ _ _ _ Hinv Hcx Hds Hsyn Hb) as (r1 & Hbd & Hpost).
      destruct (s_pending_fast_retransmit s && (s_remote_win_len s >? 0)) eqn:Ep.
      + (* fast retransmission *)
        destruct Hbd as (-> & -> & ->).
        assert (HP1 : m_P s = 1) by (unfold m_P; rewrite Ep; reflexivity).
        assert (HP0 : m_P (upd_pending_fast_retransmit s false) = 0) by reflexivity.
        assert (Hwin : 0 < s_remote_win_len s).
        { apply andb_prop in Ep. destruct Ep as (_ & X). lia. }
        assert (Hnz : timer_should_zero_window_probe (s_timer s) now = false).
        { destruct (timer_should_zero_window_probe (s_timer s) now) eqn:E; [|reflexivity].
          pose proof (e_zwp_win E). lia. }
        destruct (bd_fast_len cx g s t Hinv) as (Esl & Eseq & Eack & Ewin & Hcs & Hcr & Hn).
        cbv zeta in *.
        destruct (repr_is_empty (bd_fast cx s (repr0 cx s t))) eqn:Ee.
        * destruct Hpost as [(-> & Hk)|(-> & Hk & ->)].
          -- apply (emit_zk (upd_pending_fast_retransmit s false) r false true s' tg4); auto.
          -- pose proof (repr_empty_len _ Ee) as Hs0.
             match type of Hfin with tcp_dispatch_finish _ _ ?rr _ _ = _ => apply (emit_n (upd_pending_fast_retransmit s false) rr s' tg4 0) end; auto.
             ++ unfold repr_segment_len in *. cbn [repr_set_seq r_payload r_control]. lia.
             ++ right. cbn [repr_set_seq r_ack_number r_control r_window_len].
                split; [exact Eack|]. left. split; [|exact Ewin].
                destruct (r_control (bd_fast cx s (repr0 cx s t))); try reflexivity; contradiction.
             ++ replace (repr_segment_len (repr_set_seq (bd_fast cx s (repr0 cx s t)) (tcp_send_next_seq s)))
                  with 0 by (unfold repr_segment_len in *; cbn [repr_set_seq r_payload r_control]; lia).
                change (0 >? 0) with false. cbv iota. rewrite HP0. lia.
        * destruct Hpost as (-> & ->).
          pose proof (repr_nonempty_len _ Ee Hcr) as Hsl.
          pose proof (b2z_01 (fin_flag s 0 (l_len (r_payload (bd_fast cx s (repr0 cx s t)))))) as Hb01.
          match type of Hfin with tcp_dispatch_finish _ _ ?rr _ _ = _ => apply (emit_n (upd_pending_fast_retransmit s false) rr s' tg4 0) end; auto.
          -- intros _. split; [rewrite Eseq; exact Hl|]. lia.
          -- right. split; [exact Eack|]. left. split; [|exact Ewin].
             destruct (r_control (bd_fast cx s (repr0 cx s t))); try reflexivity; contradiction.
          -- rewrite HP0.
             destruct (Z.gtb_spec (repr_segment_len (bd_fast cx s (repr0 cx s t))) 0); [|lia].
             pose proof (phi_of_mono cx s f (Z.max f (0 + repr_segment_len (bd_fast cx s (repr0 cx s t))))
                           Hm ltac:(lia) Hf0). lia.
      + (* the normal path *)
        destruct Hbd as (-> & -> & ->). fold f in Hpost, Hfin, Hb |- *.
        destruct (bd_zwp cx s f) eqn:Ez.
        * (* a zero-window probe *)
          apply (emit_zk s r true ka s' tg4); [left; reflexivity| |exact Hfin].
          left. split; [reflexivity|].
          unfold bd_zwp in Ez. apply andb_prop in Ez. apply Ez.
        * assert (Hnz : timer_should_zero_window_probe (s_timer s) now = false).
          { destruct (timer_should_zero_window_probe (s_timer s) now) eqn:E; [|reflexivity].
            pose proof (e_zwp_win E) as W. unfold bd_zwp in Ez. fold now in Ez. rewrite E, W in Ez.
            destruct (Z.eqb_spec (Z.max 0 (0 - f)) 0); [discriminate|lia]. }
          destruct (bd_normal_len cx g s t Hinv Ez) as (Esl & Eseq & Eack & Ewin & Hcs & Hcr & Hn0 & _).
          cbv zeta in *. fold f in Esl, Eseq, Eack, Ewin, Hcs, Hcr, Hn0.
          destruct (repr_is_empty (bd_normal cx s (repr0 cx s t) f)) eqn:Ee.
          -- destruct Hpost as [(-> & Hk)|(-> & Hk & ->)].
             ++ apply (emit_zk s r false true s' tg4); auto.
             ++ pose proof (repr_empty_len _ Ee) as Hs0.
                match type of Hfin with tcp_dispatch_finish _ _ ?rr _ _ = _ => apply (emit_n s rr s' tg4 0) end; auto.
                ** unfold repr_segment_len in *. cbn [repr_set_seq r_payload r_control]. lia.
                ** right. cbn [repr_set_seq r_ack_number r_control r_window_len].
                   split; [exact Eack|]. left. split; [|exact Ewin].
                   destruct (r_control (bd_normal cx s (repr0 cx s t) f)); try reflexivity; contradiction.
                ** replace (repr_segment_len (repr_set_seq (bd_normal cx s (repr0 cx s t) f) (tcp_send_next_seq s)))
                     with 0 by (unfold repr_segment_len in *; cbn [repr_set_seq r_payload r_control]; lia).
                   change (0 >? 0) with false. cbv iota.
                   destruct R as [R|[R|R]]; [lia| |contradiction].
                   rewrite (stt_data_empty cx g s t Hinv Hfw Hm Hds Hsyn Ep Ez Hs0) in R. discriminate.
          -- destruct Hpost as (-> & ->).
             pose proof (repr_nonempty_len _ Ee Hcr) as Hsl.
             destruct (normal_progress cx g s t Hinv Hm Hds Hsyn Ez Hsl) as (Hbound & Hlt).
             fold f in Hbound, Hlt.
             match type of Hfin with tcp_dispatch_finish _ _ ?rr _ _ = _ => apply (emit_n s rr s' tg4 f) end; auto.
             ++ intros _. split; [rewrite Eseq; exact Hr|]. lia.
             ++ right. split; [exact Eack|]. left. split; [|exact Ewin].
                destruct (r_control (bd_normal cx s (repr0 cx s t) f)); try reflexivity; contradiction.
             ++ destruct (Z.gtb_spec (repr_segment_len (bd_normal cx s (repr0 cx s t) f)) 0); [|lia].
                rewrite Z.max_r by lia. lia.
  Qed.
End Emit.
