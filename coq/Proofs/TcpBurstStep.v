(* C03, "fail to return" clause for the TCP socket, layer 1: exact evaluation of the decision to
   send and of the data path of [tcp_dispatch] under the C05 sender invariant. *)
From SV Require Import Lib.Base Gen.Consts.
From SV Require Import Model.Seq32 Model.Assembler Model.TcpBuf Model.TcpTypes Model.Tcp.
From SV Require Import Proofs.TcpSendBase Proofs.TcpSendInv Proofs.TcpSendDisp Proofs.TcpSendDisp2.
From SV Require Import Proofs.TcpLiveBase Proofs.TcpBurstBase.

(* ------------------------------------------------------------------------------------------ *)
(* the sender invariant in the form the sequence-number lemmas want                             *)
(* ------------------------------------------------------------------------------------------ *)
Lemma inv_nf : forall g s, tx_inv g s ->
  let B := g_iss g + g_una g in
  s_local_seq_no s = sq (B + 0) /\ s_remote_last_seq s = sq (B + g_flight g) /\
  0 <= g_flight g <= g_budget g (rb_len (s_tx_buffer s)) /\
  g_budget g (rb_len (s_tx_buffer s)) <= 2 ^ 30 + 1 /\
  0 <= s_remote_win_len s < 2 ^ 30 /\ 0 <= rb_len (s_tx_buffer s) <= 2 ^ 30 /\
  rb_wf (s_tx_buffer s).
Proof.
  intros g s (Hwf & Hcap & Ha & Hlen & Hc & Hl & Hr & Hf & Hhw & Hpo & Hw & Hs). cbv zeta.
  pose proof Hwf as (Hl0 & _).
  pose proof (budget_bound g (rb_len (s_tx_buffer s)) ltac:(lia)) as Hb.
  pose proof max_window_val as Hmw.
  split; [rewrite Hl; f_equal; lia|]. split; [exact Hr|]. repeat split; try lia; apply Hwf.
Qed.

Lemma fl_inv : forall g s, tx_inv g s -> fl s = g_flight g.
Proof. intros g s H. unfold fl. rewrite (flight_size_ok _ _ H). reflexivity. Qed.

(* ------------------------------------------------------------------------------------------ *)
(* seq_to_transmit, evaluated                                                                   *)
(* ------------------------------------------------------------------------------------------ *)
Definition stt_fn (cx : ctx) (s : socket) (f : Z) : bool :=
  if s_pending_fast_retransmit s && negb (rb_is_empty (s_tx_buffer s)) && (s_remote_win_len s >? 0)
  then true else
  let in_flight := negb (f =? 0) in
  if ((match s_state s with SynSent | SynReceived => true | _ => false end)
      || s_syn_unacked_in_fin_wait s) && negb in_flight
  then true else
  let m := Z.min (s_remote_win_len s) (rb_len (s_tx_buffer s)) in
  let capped := if m >=? f then m - f else 0 in
  let max_send := Z.min capped (sat_sub (cwnd s) f) in
  let can_send := negb (max_send =? 0) in
  let full := max_send >=? emss cx s in
  let want_fin := match s_state s with FinWait1 | Closing | LastAck => true | _ => false end in
  let can_send := if s_nagle s && in_flight && negb full && negb want_fin then false else can_send in
  let can_fin := want_fin && (f =? rb_len (s_tx_buffer s)) in
  can_send || can_fin.

Lemma stt_exact : forall cx g s, inv g s -> ctx_ok cx -> s_tuple s <> None ->
  tcp_seq_to_transmit cx s = Ok (stt_fn cx s (g_flight g)).
Proof.
  intros cx g s (Htx & Htm) Hcx Ht. unfold tcp_seq_to_transmit, stt_fn.
  destruct (_ && _ && _); [reflexivity|].
  destruct (s_tuple s); [|congruence].
  rewrite (tcp_local_mss_ok _ Hcx). cbn [obind].
  destruct (inv_nf g s Htx) as (Hl & Hr & Hf & Hb & Hw & Hlen & Hwf). cbv zeta in Hl, Hr.
  set (B := g_iss g + g_una g) in *.
  assert (Efl : (s_remote_last_seq s =? s_local_seq_no s) = (g_flight g =? 0)).
  { rewrite Hr, Hl. apply sq_eqb. lia. }
  rewrite Efl.
  destruct (_ && negb (negb (g_flight g =? 0))); [reflexivity|].
  unfold tcp_cwnd_remaining. rewrite (flight_size_ok _ _ Htx). cbn [obind].
  rewrite Hl, Hr, seq_add_sq.
  replace (B + 0 + Z.min (s_remote_win_len s) (rb_len (s_tx_buffer s)))
    with (B + Z.min (s_remote_win_len s) (rb_len (s_tx_buffer s))) by lia.
  rewrite seq_ge_sq, seq_sub_sq by lia.
  assert (Efin : (sq (B + g_flight g) =? seq_add (sq (B + 0)) (rb_len (s_tx_buffer s)))
                 = (g_flight g =? rb_len (s_tx_buffer s))).
  { rewrite seq_add_sq. replace (B + 0 + rb_len (s_tx_buffer s)) with (B + rb_len (s_tx_buffer s)) by lia.
    apply sq_eqb. lia. }
  rewrite Efin.
  unfold emss, eff_mss, ts_opt, cwnd.
  destruct (Z.geb_spec (Z.min (s_remote_win_len s) (rb_len (s_tx_buffer s))) (g_flight g)).
  - destruct (Z.ltb_spec (Z.min (s_remote_win_len s) (rb_len (s_tx_buffer s))) (g_flight g)); [lia|].
    cbn [obind]. reflexivity.
  - cbn [obind]. reflexivity.
Qed.

(* ------------------------------------------------------------------------------------------ *)
(* the data path of dispatch, evaluated                                                         *)
(* ------------------------------------------------------------------------------------------ *)
(* PSH / FIN on the segment that exhausts the transmit queue *)
Definition fin_ctl (s : socket) (off : Z) (repr : tcp_repr) : tcp_repr :=
  if off + l_len (r_payload repr) =? rb_len (s_tx_buffer s) then
    match s_state s with
    | FinWait1 | LastAck | Closing => repr_set_control repr CFin
    | Established | CloseWait =>
        if match r_payload repr with [] => false | _ => true end
        then repr_set_control repr CPsh else repr
    | _ => repr
    end
  else repr.

Definition bd_fast (cx : ctx) (s : socket) (repr : tcp_repr) : tcp_repr :=
  let eff := eff_mss (cx_ip_mtu cx) (s_remote_mss s) (opt_len repr) in
  fin_ctl s 0 (repr_set_payload (repr_set_seq repr (s_local_seq_no s))
                 (rb_get_allocated (s_tx_buffer s) 0
                    (Z.min (Z.min eff (rb_len (s_tx_buffer s))) (s_remote_win_len s)))).

Definition bd_zwp (cx : ctx) (s : socket) (f : Z) : bool :=
  (Z.max 0 (s_remote_win_len s - f) =? 0)
  && timer_should_zero_window_probe (s_timer s) (cx_now cx).

Definition bd_size (cx : ctx) (s : socket) (repr : tcp_repr) (f : Z) : Z :=
  let eff := eff_mss (cx_ip_mtu cx) (s_remote_mss s) (opt_len repr) in
  if bd_zwp cx s f then Z.min 1 eff
  else Z.min (Z.min (Z.max 0 (s_remote_win_len s - f)) eff) (sat_sub (cwnd s) f).

Definition bd_normal (cx : ctx) (s : socket) (repr : tcp_repr) (f : Z) : tcp_repr :=
  fin_ctl s f (repr_set_payload repr (rb_get_allocated (s_tx_buffer s) f (bd_size cx s repr f))).

Lemma build_data_exact : forall cx g s repr s2 o zwp tg,
  inv g s -> ctx_ok cx -> base_repr repr ->
  tcp_dispatch_build_data cx s repr = Ok (s2, o, zwp, tg) ->
  if s_pending_fast_retransmit s && (s_remote_win_len s >? 0)
  then s2 = upd_pending_fast_retransmit s false /\ zwp = false /\ o = Some (bd_fast cx s repr)
  else s2 = s /\ zwp = bd_zwp cx s (g_flight g) /\ o = Some (bd_normal cx s repr (g_flight g)).
Proof.
  intros cx g s repr s2 o zwp tg (Htx & Htm) Hcx Hbase H.
  destruct (inv_nf g s Htx) as (Hl & Hr & Hf & Hb & Hw & Hlen & Hwf). cbv zeta in Hl, Hr.
  set (B := g_iss g + g_una g) in *.
  unfold tcp_dispatch_build_data in H.
  rewrite (base_header_len _ Hbase) in H. unfold usub in H.
  assert (Hopt : 0 <= opt_len repr) by (unfold opt_len; destruct (is_some _); lia).
  replace (wtcp_HEADER_LEN + opt_len repr - wtcp_HEADER_LEN) with (opt_len repr) in H by lia.
  destruct (Z.ltb_spec (opt_len repr) 0); [lia|]. cbn [obind] in H.
  rewrite (tcp_local_mss_ok _ Hcx) in H. cbn [obind] in H.
  fold (eff_mss (cx_ip_mtu cx) (s_remote_mss s) (opt_len repr)) in H.
  destruct (s_pending_fast_retransmit s && (s_remote_win_len s >? 0)); cbn [obind] in H.
  - injection H as <- <- <- <-. split; [reflexivity|]. split; [reflexivity|].
    unfold bd_fast, fin_ctl. sproj. reflexivity.
  - assert (Hfs : tcp_flight_size s = Ok (g_flight g)) by (apply (flight_size_ok g); exact Htx).
    unfold tcp_cwnd_remaining in H. rewrite Hfs in H.
    rewrite Hl, Hr, seq_add_sq in H.
    replace (B + 0 + s_remote_win_len s) with (B + s_remote_win_len s) in H by lia.
    rewrite seq_ge_sq, seq_sub_sq in H by lia.
    assert (Ewl : (if s_remote_win_len s >=? g_flight g
                   then if s_remote_win_len s <? g_flight g then Panic
                        else Ok (s_remote_win_len s - g_flight g)
                   else Ok 0) = Ok (Z.max 0 (s_remote_win_len s - g_flight g))).
    { destruct (Z.geb_spec (s_remote_win_len s) (g_flight g)).
      - destruct (Z.ltb_spec (s_remote_win_len s) (g_flight g)); [lia|]. f_equal. lia.
      - f_equal. lia. }
    rewrite Ewl in H. cbn [obind] in H.
    fold (bd_zwp cx s (g_flight g)) in H.
    destruct (bd_zwp cx s (g_flight g)) eqn:Ez; cbn [obind] in H.
    + injection H as <- <- <- <-. split; [reflexivity|]. split; [reflexivity|].
      unfold bd_normal, bd_size, fin_ctl. rewrite Ez. reflexivity.
    + injection H as <- <- <- <-. split; [reflexivity|]. split; [reflexivity|].
      unfold bd_normal, bd_size, fin_ctl, cwnd. rewrite Ez. reflexivity.
Qed.

(* ------------------------------------------------------------------------------------------ *)
(* the state update after the emit, field by field                                              *)
(* ------------------------------------------------------------------------------------------ *)
(* fields no emit changes *)
Definition fin_frame (s2 s' : socket) : Prop :=
  s_tx_buffer s' = s_tx_buffer s2 /\ s_local_seq_no s' = s_local_seq_no s2 /\
  s_remote_win_len s' = s_remote_win_len s2 /\ s_remote_mss s' = s_remote_mss s2 /\
  s_remote_win_shift s' = s_remote_win_shift s2 /\
  s_syn_unacked_in_fin_wait s' = s_syn_unacked_in_fin_wait s2 /\
  s_rx_buffer s' = s_rx_buffer s2 /\ s_tsval_generator s' = s_tsval_generator s2 /\
  s_remote_seq_no s' = s_remote_seq_no s2 /\ s_state s' = s_state s2 /\
  s_congestion_controller s' = s_congestion_controller s2 /\
  s_pending_fast_retransmit s' = s_pending_fast_retransmit s2 /\
  s_keep_alive s' = s_keep_alive s2 /\ s_timeout s' = s_timeout s2 /\
  s_remote_last_ts s' = s_remote_last_ts s2 /\ s_nagle s' = s_nagle s2.

(* a probe or a keep-alive: only the timer moves *)
Lemma finish_zk_fields : forall cx s2 r zwp ka s' tg,
  (zwp = true \/ ka = true) ->
  tcp_dispatch_finish cx s2 r zwp ka = (s', tg) ->
  let tk := timer_rewind_keep_alive (s_timer s2) (cx_now cx) (s_keep_alive s2) in
  fin_frame s2 s' /\ s_tuple s' = s_tuple s2 /\
  s_remote_last_seq s' = s_remote_last_seq s2 /\
  s_remote_last_ack s' = s_remote_last_ack s2 /\ s_remote_last_win s' = s_remote_last_win s2 /\
  s_rtte s' = s_rtte s2 /\
  s_timer s' = (if zwp then timer_rewind_zero_window_probe tk (cx_now cx) else tk).
Proof.
  intros cx s2 r zwp ka s' tg Hz H. cbv zeta. destruct_sock s2. unfold tcp_dispatch_finish in H.
  unfold fin_frame. fldv_in H. fldv.
  destruct zwp; [|destruct ka; [|destruct Hz; discriminate]]; injection H as E1 E2; subst s' tg;
  repeat split; reflexivity.
Qed.

(* an ordinary segment *)
Lemma finish_n_fields : forall cx s2 r s' tg,
  tcp_dispatch_finish cx s2 r false false = (s', tg) ->
  let tk := timer_rewind_keep_alive (s_timer s2) (cx_now cx) (s_keep_alive s2) in
  let sl := repr_segment_len r in
  fin_frame s2 s' /\
  s_tuple s' = (if tcp_state_eqb (s_state s2) Closed then None else s_tuple s2) /\
  s_remote_last_seq s' = (if sl >? 0 then seq_max (s_remote_last_seq s2) (seq_add (r_seq_number r) sl)
                          else s_remote_last_seq s2) /\
  s_remote_last_ack s' = r_ack_number r /\
  s_remote_last_win s' = (if control_eqb (r_control r) CSyn
                          then shr (r_window_len r) (s_remote_win_shift s2) else r_window_len r) /\
  rt_rto (s_rtte s') = rt_rto (s_rtte s2) /\
  s_timer s' = (if (sl >? 0) && negb (timer_is_retransmit tk)
                then timer_set_for_retransmit tk (cx_now cx) (rtte_retransmission_timeout (s_rtte s2))
                else tk).
Proof.
  intros cx s2 r s' tg H. cbv zeta. destruct_sock s2. unfold tcp_dispatch_finish in H.
  unfold fin_frame. fldv_in H. fldv.
  destruct (repr_segment_len r >? 0); cbn [andb] in H |- *;
  try match type of H with context [negb (timer_is_retransmit ?t)] =>
        destruct (negb (timer_is_retransmit t)) end;
  match type of H with context [tcp_state_eqb ?a Closed] => destruct (tcp_state_eqb a Closed) end.
  all: injection H as E1 E2.
  all: subst s' tg.
  all: unfold rtte_retransmission_timeout; rewrite ?rtte_on_send_rto.
  all: repeat split; reflexivity.
Qed.

(* ------------------------------------------------------------------------------------------ *)
(* timers at a fixed instant                                                                    *)
(* ------------------------------------------------------------------------------------------ *)
(* no timer-driven reason to transmit *)
Definition tquiet (now : Z) (t : timer) : Prop :=
  timer_should_retransmit t now = false /\ timer_should_keep_alive t now = false /\
  timer_should_zero_window_probe t now = false.

Definition ka_pos_v (ka : option Z) : Prop := match ka with Some k => 0 < k | None => True end.

Lemma max_rto_us_pos : 0 < tcp_RTTE_MAX_RTO * 1000.
Proof. reflexivity. Qed.

Lemma rewind_ka_quiet : forall t now ka, ka_pos_v ka ->
  timer_should_retransmit t now = false -> timer_should_zero_window_probe t now = false ->
  tquiet now (timer_rewind_keep_alive t now ka).
Proof.
  intros [k|e| |e d|e] now [ka|] Hk H1 H2; cbn in *; unfold tquiet; cbn; repeat split; auto; lia.
Qed.

Lemma set_for_retransmit_quiet : forall t now rto, 0 < rto ->
  tquiet now (timer_set_for_retransmit t now rto).
Proof.
  intros [k|e| |e d|e] now rto H; unfold tquiet; cbn; repeat split; auto; lia.
Qed.

Lemma rewind_zwp_quiet : forall e d now, 0 < d ->
  tquiet now (timer_rewind_zero_window_probe (TZeroWindowProbe e d) now) /\
  exists e' d', timer_rewind_zero_window_probe (TZeroWindowProbe e d) now = TZeroWindowProbe e' d' /\ 0 < d'.
Proof.
  intros e d now Hd. pose proof max_rto_us_pos as M. cbn [timer_rewind_zero_window_probe].
  split.
  - unfold tquiet. cbn. repeat split; auto. lia.
  - eexists _, _. split; [reflexivity|]. lia.
Qed.

Lemma quiet_D : forall cx s, tquiet (cx_now cx) (s_timer s) -> m_D cx s = 0.
Proof. intros cx s (_ & H1 & H2). unfold m_D. rewrite H1, H2. reflexivity. Qed.

(* ------------------------------------------------------------------------------------------ *)
(* after an acknowledgement went out nothing is owed to the peer                                 *)
(* ------------------------------------------------------------------------------------------ *)
Lemma seq_lt_add_small : forall a k, 0 <= k < 2 ^ 31 -> seq_lt (seq_add a k) a = false.
Proof.
  intros a k H. pose proof (seq_ge_add_small a k H) as G. unfold seq_lt, seq_ge in *. lia.
Qed.

Lemma scaled_window_bounds : forall s, rx_ok s ->
  0 <= tcp_scaled_window s <= 65535 /\
  0 <= shl (tcp_scaled_window s) (s_remote_win_shift s) < 2 ^ 31 /\
  shr (shl (tcp_scaled_window s) (s_remote_win_shift s)) (s_remote_win_shift s) = tcp_scaled_window s.
Proof.
  intros s (Hsh & Hw). unfold tcp_scaled_window, shl, shr.
  set (w := rb_window (s_rx_buffer s)) in *. set (n := s_remote_win_shift s) in *.
  assert (Hp : 0 < 2 ^ n) by (apply Z.pow_pos_nonneg; lia).
  assert (Hq : 0 <= w / 2 ^ n) by (apply Z.div_pos; lia).
  assert (Hm : w / 2 ^ n * 2 ^ n <= w) by (rewrite Z.mul_comm; apply Z.mul_div_le; lia).
  assert (Hu : 0 <= u16_try (w / 2 ^ n) <= w / 2 ^ n /\ u16_try (w / 2 ^ n) <= 65535).
  { unfold u16_try, u16_max. destruct (Z.leb_spec (w / 2 ^ n) 65535); lia. }
  split; [lia|]. split; [nia|]. apply Z.div_mul. lia.
Qed.

Lemma wtu_quiet : forall s, rx_ok s ->
  s_remote_last_ack s = Some (tcp_window_start s) ->
  s_remote_last_win s = tcp_scaled_window s ->
  tcp_window_to_update s = Ok false.
Proof.
  intros s Hrx Ha Hwn.
  destruct (scaled_window_bounds s Hrx) as (Hb1 & Hb2 & Hb3).
  unfold tcp_window_to_update, tcp_last_scaled_window. rewrite Ha, Hwn.
  unfold tcp_window_start at 1 2.
  fold (tcp_window_start s).
  rewrite seq_lt_add_small by lia. rewrite seq_sub_add_small by lia. cbn [obind].
  rewrite Hb3.
  assert (Hu : u16_try (tcp_scaled_window s) = tcp_scaled_window s).
  { unfold u16_try, u16_max. destruct (Z.leb_spec (tcp_scaled_window s) 65535); lia. }
  rewrite Hu.
  assert (Hf : (tcp_scaled_window s >? 0) && (tcp_scaled_window s / 2 >=? tcp_scaled_window s) = false).
  { destruct (Z.gtb_spec (tcp_scaled_window s) 0); [|reflexivity].
    destruct (Z.geb_spec (tcp_scaled_window s / 2) (tcp_scaled_window s)); [|reflexivity]. lia. }
  destruct (s_syn_unacked_in_fin_wait s); [reflexivity|].
  destruct (s_state s); cbn [obind]; rewrite ?Hf; reflexivity.
Qed.

Lemma att_quiet : forall s, s_remote_last_ack s = Some (tcp_window_start s) ->
  tcp_ack_to_transmit s = false.
Proof. intros s H. unfold tcp_ack_to_transmit. rewrite H. apply seq_lt_irrefl. Qed.

Lemma B_acked : forall s, rx_ok s ->
  s_remote_last_ack s = Some (tcp_window_start s) ->
  (s_remote_last_win s = tcp_scaled_window s \/ s_state s = SynReceived \/
   s_syn_unacked_in_fin_wait s = true) ->
  m_B s = 0.
Proof.
  intros s Hrx Ha Hw. unfold m_B, wtu_on. rewrite (att_quiet s Ha). cbn [orb].
  destruct Hw as [Hw|[Hw|Hw]].
  - rewrite (wtu_quiet s Hrx Ha Hw). reflexivity.
  - unfold tcp_window_to_update. rewrite Hw. destruct (s_syn_unacked_in_fin_wait s); reflexivity.
  - unfold tcp_window_to_update. rewrite Hw. reflexivity.
Qed.

Lemma B_noack : forall s, s_remote_last_ack s = None -> m_B s = 0.
Proof.
  intros s H. unfold m_B, wtu_on, tcp_ack_to_transmit, tcp_window_to_update, tcp_last_scaled_window.
  rewrite H. cbn [orb obind].
  destruct (s_syn_unacked_in_fin_wait s); [reflexivity|]. destruct (s_state s); reflexivity.
Qed.

Lemma B_01 : forall s, 0 <= m_B s <= 1.
Proof. intros. unfold m_B. apply b2z_01. Qed.
Lemma D_01 : forall cx s, 0 <= m_D cx s <= 1.
Proof. intros. unfold m_D. apply b2z_01. Qed.
Lemma P_01 : forall s, 0 <= m_P s <= 1.
Proof. intros. unfold m_P. apply b2z_01. Qed.

(* ------------------------------------------------------------------------------------------ *)
(* SND.NXT - SND.UNA after an ordinary segment                                                   *)
(* ------------------------------------------------------------------------------------------ *)
Lemma fl_after_n : forall g s2 s' seqno sl off,
  tx_inv g s2 ->
  s_local_seq_no s' = s_local_seq_no s2 ->
  s_remote_last_seq s' = (if sl >? 0 then seq_max (s_remote_last_seq s2) (seq_add seqno sl)
                          else s_remote_last_seq s2) ->
  (0 < sl -> seqno = sq (g_iss g + g_una g + off) /\ 0 <= off /\ off + sl <= 2 ^ 30 + 5) ->
  fl s' = (if sl >? 0 then Z.max (g_flight g) (off + sl) else g_flight g).
Proof.
  intros g s2 s' seqno sl off Htx El Er Hs.
  destruct (inv_nf g s2 Htx) as (Hl & Hr & Hf & Hb & Hw & Hlen & Hwf). cbv zeta in Hl, Hr.
  set (B := g_iss g + g_una g) in *.
  unfold fl, tcp_flight_size. rewrite El, Er, Hl, Hr.
  destruct (Z.gtb_spec sl 0) as [Hp|Hp].
  - destruct (Hs Hp) as (-> & Ho & Hos). fold B. rewrite seq_add_sq.
    replace (B + off + sl) with (B + (off + sl)) by lia.
    rewrite seq_max_sq by lia. rewrite seq_sub_sq by lia.
    destruct (Z.ltb_spec (Z.max (g_flight g) (off + sl)) 0); [lia|]. cbv beta iota. lia.
  - rewrite seq_sub_sq by lia. destruct (Z.ltb_spec (g_flight g) 0); [lia|]. cbv beta iota. lia.
Qed.

Lemma fl_same : forall s2 s', s_local_seq_no s' = s_local_seq_no s2 ->
  s_remote_last_seq s' = s_remote_last_seq s2 -> fl s' = fl s2.
Proof. intros s2 s' E1 E2. unfold fl, tcp_flight_size. rewrite E1, E2. reflexivity. Qed.

(* the data measure as a function of the octets in flight *)
Definition phi_of (cx : ctx) (s : socket) (f : Z) : Z :=
  if tcp_sent_syn s then b2z (f =? 0)
  else if data_state (s_state s) then
    phi_data (s_remote_win_len s) (rb_len (s_tx_buffer s)) (cwnd s) (emss cx s)
             (rb_read_at (s_tx_buffer s)) (rb_cap (s_tx_buffer s)) (fin_state (s_state s)) f
  else 0.

Lemma m_Phi_of : forall cx s, m_Phi cx s = phi_of cx s (fl s).
Proof. reflexivity. Qed.

Lemma phi_of_frame : forall cx s2 s' f, fin_frame s2 s' -> phi_of cx s' f = phi_of cx s2 f.
Proof.
  intros cx s2 s' f (E1 & E2 & E3 & E4 & E5 & E6 & E7 & E8 & E9 & E10 & E11 & E12 & _).
  unfold phi_of, tcp_sent_syn, emss, cwnd, ts_opt. rewrite E1, E3, E4, E6, E8, E10, E11. reflexivity.
Qed.

Lemma phi_of_mono : forall cx s f f', 0 < emss cx s -> f <= f' -> 0 <= f ->
  phi_of cx s f' <= phi_of cx s f.
Proof.
  intros cx s f f' Hm Hf H0. unfold phi_of. destruct (tcp_sent_syn s).
  - destruct (Z.eqb_spec f' 0); destruct (Z.eqb_spec f 0); cbn; lia.
  - destruct (data_state (s_state s)); [|lia]. apply phi_data_mono; assumption.
Qed.

Lemma phi_of_nonneg : forall cx s f, 0 < emss cx s -> 0 <= phi_of cx s f.
Proof.
  intros cx s f Hm. unfold phi_of. destruct (tcp_sent_syn s); [apply b2z_01|].
  destruct (data_state (s_state s)); [apply phi_data_nonneg; assumption|lia].
Qed.

Lemma P_frame : forall s2 s', fin_frame s2 s' -> m_P s' = m_P s2.
Proof.
  intros s2 s' (E1 & E2 & E3 & E4 & E5 & E6 & E7 & E8 & E9 & E10 & E11 & E12 & _).
  unfold m_P. rewrite E3, E12. reflexivity.
Qed.

Lemma B_frame : forall s2 s', fin_frame s2 s' ->
  s_remote_last_ack s' = s_remote_last_ack s2 -> s_remote_last_win s' = s_remote_last_win s2 ->
  m_B s' = m_B s2.
Proof.
  intros s2 s' (E1 & E2 & E3 & E4 & E5 & E6 & E7 & E8 & E9 & E10 & E11 & E12 & _) Ea Ew.
  unfold m_B, wtu_on, tcp_ack_to_transmit, tcp_window_to_update, tcp_last_scaled_window,
         tcp_scaled_window, tcp_window_start.
  rewrite Ea, Ew, E5, E6, E7, E9, E10. reflexivity.
Qed.

Lemma rx_ok_frame : forall s2 s', fin_frame s2 s' -> rx_ok s2 -> rx_ok s'.
Proof.
  intros s2 s' (E1 & E2 & E3 & E4 & E5 & E6 & E7 & _) H. unfold rx_ok in *.
  rewrite E5, E7. exact H.
Qed.

(* clearing the pending fast retransmission changes nothing else *)
Lemma unpend_frame : forall s, 
  let s2 := upd_pending_fast_retransmit s false in
  s_tx_buffer s2 = s_tx_buffer s /\ s_timer s2 = s_timer s /\ s_state s2 = s_state s /\
  fl s2 = fl s /\ m_B s2 = m_B s /\ m_P s2 = 0 /\ (forall cx, m_D cx s2 = m_D cx s) /\
  (forall cx f, phi_of cx s2 f = phi_of cx s f) /\ (rx_ok s -> rx_ok s2).
Proof.
  intros s. cbv zeta.
  split; [reflexivity|]. split; [reflexivity|]. split; [reflexivity|]. split; [reflexivity|].
  split; [reflexivity|]. split; [reflexivity|]. split; [reflexivity|]. split; [reflexivity|].
  intros H. exact H.
Qed.

(* ------------------------------------------------------------------------------------------ *)
(* what dispatch builds, by class of state                                                      *)
(* ------------------------------------------------------------------------------------------ *)
(* the template segment *)
Definition repr0 (cx : ctx) (s : socket) (t : tuple) : tcp_repr :=
  mkRepr (tu_local_port t) (tu_remote_port t) CNone (s_remote_last_seq s)
         (Some (tcp_window_start s)) (tcp_scaled_window s) None None false no_sack
         (if s_tsval_generator s then Some (cx_tsval cx, s_last_remote_tsval s) else None) [].

Lemma repr0_base : forall cx s t, base_repr (repr0 cx s t).
Proof. intros. apply base_repr_mk. Qed.

Lemma repr0_opt : forall cx s t, opt_len (repr0 cx s t) = ts_opt s.
Proof. intros. unfold opt_len, ts_opt, repr0. cbn [r_timestamp]. destruct (s_tsval_generator s); reflexivity. Qed.

Lemma build_closed : forall cx s t s2 r zwp ka tg,
  ctx_ok cx -> s_state s = Closed ->
  tcp_dispatch_build cx s t = Ok (s2, Some r, zwp, ka, tg) ->
  s2 = s /\ zwp = false /\ ka = false.
Proof.
  intros cx s t s2 r zwp ka tg Hcx Hst H. rewrite build_unfold in H. cbv zeta in H.
  rewrite Hst in H. cbn [obind] in H.
  match type of H with post_build _ _ ?r1 _ _ = _ =>
    destruct (post_nonempty cx s r1 _ _ _ _ _ _ _ Hcx eq_refl H) as (-> & -> & -> & _) end.
  auto.
Qed.

Lemma build_syn : forall cx s t s2 r zwp ka tg,
  ctx_ok cx -> tcp_sent_syn s = true ->
  tcp_dispatch_build cx s t = Ok (s2, Some r, zwp, ka, tg) ->
  s2 = s /\ zwp = false /\ ka = false /\ r_control r = CSyn /\ repr_segment_len r = 1 /\
  r_seq_number r = s_local_seq_no s /\
  r_ack_number r = (if tcp_state_eqb (s_state s) SynSent then None else Some (tcp_window_start s)).
Proof.
  intros cx s t s2 r zwp ka tg Hcx Hsyn H. rewrite build_unfold in H. cbv zeta in H.
  unfold tcp_sent_syn in Hsyn.
  destruct (s_state s) eqn:Hst; try discriminate; cbn [obind] in H.
  3: rewrite Hsyn in H; cbn [obind] in H.
  all: match type of H with post_build _ _ ?r1 _ _ = _ =>
         destruct (post_nonempty cx s r1 _ _ _ _ _ _ _ Hcx eq_refl H) as (-> & -> & -> & Er) end.
  all: cbn [tcp_syn_repr r_control control_eqb] in Er; subst r.
  all: cbn [with_mss tcp_syn_repr r_control r_seq_number r_ack_number r_payload repr_segment_len
            control_len tcp_state_eqb].
  all: unfold repr_segment_len, with_mss, tcp_syn_repr; cbn [r_payload r_control control_len].
  all: rewrite l_len_nil; auto 8.
Qed.

Lemma build_ackonly : forall cx s t s2 r zwp ka tg,
  (s_state s = FinWait2 \/ s_state s = TimeWait) ->
  tcp_dispatch_build cx s t = Ok (s2, Some r, zwp, ka, tg) ->
  s2 = s /\ zwp = false /\
  ((ka = true /\ timer_should_keep_alive (s_timer s) (cx_now cx) = true) \/
   (ka = false /\ timer_should_keep_alive (s_timer s) (cx_now cx) = false /\
    repr_segment_len r = 0 /\ r_control r = CNone /\
    r_ack_number r = Some (tcp_window_start s) /\ r_window_len r = tcp_scaled_window s)).
Proof.
  intros cx s t s2 r zwp ka tg Hst H. rewrite build_unfold in H. cbv zeta in H.
  assert (Hp : post_build cx s (repr0 cx s t) false 227 = Ok (s2, Some r, zwp, ka, tg)).
  { destruct Hst as [Hst|Hst]; rewrite Hst in H; cbn [obind] in H; exact H. }
  clear H. unfold post_build in Hp.
  cbn [repr0 repr_is_empty r_payload r_control control_eqb andb repr_set_seq] in Hp.
  destruct (timer_should_keep_alive (s_timer s) (cx_now cx));
    cbn [andb repr_set_payload repr_set_seq r_control control_eqb obind r_seq_number] in Hp;
    injection Hp as <- <- <- <- <-.
  - auto.
  - split; [reflexivity|]. split; [reflexivity|]. right.
    unfold repr_segment_len, repr_set_seq, repr0.
    cbn [r_payload r_control control_len r_ack_number r_window_len].
    rewrite l_len_nil. auto 8.
Qed.

Lemma fin_ctl_proj : forall s off r,
  r_payload (fin_ctl s off r) = r_payload r /\ r_seq_number (fin_ctl s off r) = r_seq_number r /\
  r_ack_number (fin_ctl s off r) = r_ack_number r /\ r_window_len (fin_ctl s off r) = r_window_len r.
Proof.
  intros. unfold fin_ctl. destruct (_ =? _); [|repeat split].
  destruct (s_state s); try (repeat split; fail);
    destruct (match r_payload r with [] => false | _ => true end); repeat split.
Qed.

(* the control flag chosen by the data path *)
Definition fin_flag (s : socket) (off n : Z) : bool :=
  (off + n =? rb_len (s_tx_buffer s)) && fin_state (s_state s).

Lemma fin_ctl_control : forall s off r, r_control r = CNone ->
  (r_control (fin_ctl s off r) = CFin /\ fin_flag s off (l_len (r_payload r)) = true) \/
  (fin_flag s off (l_len (r_payload r)) = false /\
   (r_control (fin_ctl s off r) = CNone \/
    (r_control (fin_ctl s off r) = CPsh /\ r_payload r <> []))).
Proof.
  intros s off r Hc. unfold fin_ctl, fin_flag.
  destruct (_ =? _); cbn [andb]; [|right; auto].
  destruct (s_state s); cbn [fin_state]; auto;
  destruct (r_payload r); cbn [repr_set_control r_control]; auto; right; split; auto; right; split; auto; discriminate.
Qed.

Lemma repr_segment_len_fin_ctl : forall s off r, r_control r = CNone ->
  repr_segment_len (fin_ctl s off r)
  = l_len (r_payload r) + b2z (fin_flag s off (l_len (r_payload r))).
Proof.
  intros s off r Hc. unfold repr_segment_len.
  destruct (fin_ctl_proj s off r) as (-> & _).
  destruct (fin_ctl_control s off r Hc) as [(-> & ->)|(-> & [->|(-> & _)])]; reflexivity.
Qed.

Lemma post_empty_ka : forall cx s repr zwp tg s2 r zwp2 ka tg2,
  repr_is_empty repr = true -> r_control repr = CNone ->
  post_build cx s repr zwp tg = Ok (s2, Some r, zwp2, ka, tg2) ->
  ka = timer_should_keep_alive (s_timer s) (cx_now cx).
Proof.
  intros cx s repr zwp tg s2 r zwp2 ka tg2 He Hc H. unfold post_build in H.
  rewrite He, Hc in H. cbn [control_eqb andb] in H.
  assert (He' : repr_is_empty (repr_set_seq repr (tcp_send_next_seq s)) = true).
  { unfold repr_is_empty in *. cbn [repr_set_seq r_payload r_control]. exact He. }
  rewrite He' in H. rewrite andb_true_r in H.
  destruct (timer_should_keep_alive (s_timer s) (cx_now cx)) eqn:Eka;
  cbn [repr_set_payload repr_set_seq r_control r_seq_number] in H; rewrite Hc in H;
  cbn [control_eqb obind] in H; injection H as <- <- <- <- <-; reflexivity.
Qed.

Lemma build_data_class : forall cx g s t s2 r zwp ka tg,
  inv g s -> ctx_ok cx -> data_state (s_state s) = true -> tcp_sent_syn s = false ->
  tcp_dispatch_build cx s t = Ok (s2, Some r, zwp, ka, tg) ->
  exists r1,
    (if s_pending_fast_retransmit s && (s_remote_win_len s >? 0)
     then s2 = upd_pending_fast_retransmit s false /\ zwp = false /\
          r1 = bd_fast cx s (repr0 cx s t)
     else s2 = s /\ zwp = bd_zwp cx s (g_flight g) /\
          r1 = bd_normal cx s (repr0 cx s t) (g_flight g)) /\
    (if repr_is_empty r1
     then (ka = true /\ timer_should_keep_alive (s_timer s) (cx_now cx) = true) \/
          (ka = false /\ timer_should_keep_alive (s_timer s) (cx_now cx) = false /\
           r = repr_set_seq r1 (tcp_send_next_seq s))
     else ka = false /\ r = r1).
Proof.
  intros cx g s t s2 r zwp ka tg Hinv Hcx Hds Hsyn H. rewrite build_unfold in H. cbv zeta in H.
  fold (repr0 cx s t) in H.
  assert (Hb : exists s2' r1 zwp1 tg1,
             tcp_dispatch_build_data cx s (repr0 cx s t) = Ok (s2', Some r1, zwp1, tg1) /\
             post_build cx s2' r1 zwp1 tg1 = Ok (s2, Some r, zwp, ka, tg)).
  { unfold tcp_sent_syn in Hsyn.
    destruct (s_state s) eqn:Hst; try discriminate Hds; cbn [obind] in H.
    2: rewrite Hsyn in H.
    all: destruct (tcp_dispatch_build_data cx s (repr0 cx s t)) as [[[[s2' [r1|]] zwp1] tg1]| |] eqn:Eb;
         cbn [obind] in H; try discriminate.
    all: eexists _, _, _, _; split; [reflexivity|exact H]. }
  destruct Hb as (s2' & r1 & zwp1 & tg1 & Eb & Hp). clear H.
  pose proof (build_data_exact cx g s _ _ _ _ _ Hinv Hcx (repr0_base cx s t) Eb) as X.
  exists r1.
  assert (Hs2 : s_timer s2' = s_timer s /\ tcp_send_next_seq s2' = tcp_send_next_seq s /\
                r_control r1 <> CSyn /\ (repr_is_empty r1 = true -> r_control r1 = CNone)).
  { assert (Hc : forall off r0, r_control r0 = CNone ->
                 r_control (fin_ctl s off r0) <> CSyn /\
                 (repr_is_empty (fin_ctl s off r0) = true -> r_control (fin_ctl s off r0) = CNone)).
    { intros off r0 Hr0. unfold repr_is_empty. destruct (fin_ctl_proj s off r0) as (-> & _).
      destruct (fin_ctl_control s off r0 Hr0) as [(-> & _)|(_ & [->|(-> & Hne)])].
      - split; [discriminate|]. destruct (r_payload r0); discriminate.
      - split; [discriminate|reflexivity].
      - split; [discriminate|]. destruct (r_payload r0); [contradiction|discriminate]. }
    destruct (s_pending_fast_retransmit s && (s_remote_win_len s >? 0)).
    - destruct X as (-> & _ & X). injection X as ->. split; [reflexivity|]. split; [reflexivity|].
      apply Hc. reflexivity.
    - destruct X as (-> & _ & X). injection X as ->. split; [reflexivity|]. split; [reflexivity|].
      apply Hc. reflexivity. }
  destruct Hs2 as (Ht & Hn & Hns & Hemp).
  split.
  - destruct (s_pending_fast_retransmit s && (s_remote_win_len s >? 0)).
    + destruct X as (-> & -> & X). injection X as ->.
      destruct (repr_is_empty (bd_fast cx s (repr0 cx s t))) eqn:Ee.
      * destruct (post_empty _ _ _ _ _ _ _ _ _ _ Ee (Hemp eq_refl) Hp) as (-> & -> & _). auto.
      * destruct (post_nonempty _ _ _ _ _ _ _ _ _ _ Hcx Ee Hp) as (-> & -> & _). auto.
    + destruct X as (-> & -> & X). injection X as ->.
      destruct (repr_is_empty (bd_normal cx s (repr0 cx s t) (g_flight g))) eqn:Ee.
      * destruct (post_empty _ _ _ _ _ _ _ _ _ _ Ee (Hemp eq_refl) Hp) as (-> & -> & _). auto.
      * destruct (post_nonempty _ _ _ _ _ _ _ _ _ _ Hcx Ee Hp) as (-> & -> & _). auto.
  - destruct (repr_is_empty r1) eqn:Ee.
    + destruct (post_empty _ _ _ _ _ _ _ _ _ _ Ee (Hemp eq_refl) Hp) as (_ & _ & [(-> & Er)|(-> & Hka & Er)]).
      * right. split; [reflexivity|]. rewrite <- Hn. split; [|exact Er].
        pose proof (post_empty_ka _ _ _ _ _ _ _ _ _ _ Ee (Hemp eq_refl) Hp) as Hk.
        rewrite <- Ht. symmetry. exact Hk.
      * left. rewrite <- Ht. auto.
    + destruct (post_nonempty _ _ _ _ _ _ _ _ _ _ Hcx Ee Hp) as (_ & _ & -> & Er).
      split; [reflexivity|]. rewrite Er.
      destruct (r_control r1); try reflexivity. contradiction.
Qed.

(* ------------------------------------------------------------------------------------------ *)
(* how many octets the data path takes                                                          *)
(* ------------------------------------------------------------------------------------------ *)
Lemma rb_ga_len : forall r off size, rb_wf r -> 0 <= off <= rb_len r ->
  l_len (rb_get_allocated r off size)
  = Z.max 0 (Z.min (Z.min size (rb_len r - off))
                   (rb_cap r - (if rb_read_at r + off <? rb_cap r then rb_read_at r + off
                                else rb_read_at r + off - rb_cap r))).
Proof.
  intros r off size Hwf Ho. pose proof Hwf as (Hl & Hs & Hr & Hcap).
  unfold rb_get_allocated. destruct (Z.gtb_spec off (rb_len r)); [lia|].
  destruct (Z.eq_dec (rb_cap r) 0) as [C0|C0].
  { rewrite (rb_get_idx_cap0 r off C0). rewrite l_slice_nonpos by lia. rewrite l_len_nil.
    destruct (Z.ltb_spec (rb_read_at r + off) (rb_cap r)); lia. }
  assert (Hcp : 0 < rb_cap r) by lia.
  destruct (rb_get_idx_cases r off Hwf ltac:(lia) Hcp) as [(A1 & A2)|(A1 & A2)]; rewrite A2.
  - destruct (Z.ltb_spec (rb_read_at r + off) (rb_cap r)); [|lia].
    set (n := Z.min (Z.min size (rb_len r - off)) (rb_cap r - (rb_read_at r + off))).
    destruct (Z.leb_spec n 0).
    + rewrite l_slice_nonpos by assumption. rewrite l_len_nil. lia.
    + rewrite l_len_slice by lia. lia.
  - destruct (Z.ltb_spec (rb_read_at r + off) (rb_cap r)); [lia|].
    set (n := Z.min (Z.min size (rb_len r - off)) (rb_cap r - (rb_read_at r + off - rb_cap r))).
    destruct (Z.leb_spec n 0).
    + rewrite l_slice_nonpos by assumption. rewrite l_len_nil. lia.
    + rewrite l_len_slice by lia. lia.
Qed.

Lemma rb_ga_len_le : forall r off size, rb_wf r -> 0 <= off ->
  0 <= l_len (rb_get_allocated r off size) /\
  (off <= rb_len r -> l_len (rb_get_allocated r off size) <= rb_len r - off) /\
  (rb_len r < off -> l_len (rb_get_allocated r off size) = 0).
Proof.
  intros r off size Hwf Ho. split; [apply l_len_nonneg|]. split.
  - intros H. pose proof (rb_get_allocated_spec r off size Hwf ltac:(lia)) as (_ & _ & X & _). exact X.
  - intros H. rewrite rb_get_allocated_beyond by assumption. apply l_len_nil.
Qed.

(* the segment of the normal path (no probe): payload length and sequence space *)
Lemma bd_normal_len : forall cx g s t,
  inv g s -> bd_zwp cx s (g_flight g) = false ->
  let f := g_flight g in
  let r1 := bd_normal cx s (repr0 cx s t) f in
  let n := l_len (r_payload r1) in
  repr_segment_len r1 = n + b2z (fin_flag s f n) /\
  r_seq_number r1 = s_remote_last_seq s /\ r_ack_number r1 = Some (tcp_window_start s) /\
  r_window_len r1 = tcp_scaled_window s /\ r_control r1 <> CSyn /\ r_control r1 <> CRst /\
  0 <= n /\ (f <= rb_len (s_tx_buffer s) -> f + n <= rb_len (s_tx_buffer s)) /\
  (rb_len (s_tx_buffer s) < f -> n = 0) /\
  (f <= rb_len (s_tx_buffer s) ->
   n = Z.max 0 (Z.min (Z.min (Z.min (Z.min (Z.max 0 (s_remote_win_len s - f)) (emss cx s))
                                    (Z.max 0 (cwnd s - f)))
                             (rb_len (s_tx_buffer s) - f))
                      (rb_cap (s_tx_buffer s)
                       - (if rb_read_at (s_tx_buffer s) + f <? rb_cap (s_tx_buffer s)
                          then rb_read_at (s_tx_buffer s) + f
                          else rb_read_at (s_tx_buffer s) + f - rb_cap (s_tx_buffer s))))).
Proof.
  intros cx g s t (Htx & Htm) Hz. cbv zeta.
  destruct (inv_nf g s Htx) as (Hl & Hr & Hf & Hb & Hw & Hlen & Hwf).
  unfold bd_normal.
  set (P := rb_get_allocated (s_tx_buffer s) (g_flight g) (bd_size cx s (repr0 cx s t) (g_flight g))).
  set (r0 := repr_set_payload (repr0 cx s t) P).
  assert (Hc0 : r_control r0 = CNone) by reflexivity.
  destruct (fin_ctl_proj s (g_flight g) r0) as (E1 & E2 & E3 & E4).
  rewrite (repr_segment_len_fin_ctl s (g_flight g) r0 Hc0), E1, E2, E3, E4.
  change (r_payload r0) with P.
  destruct (rb_ga_len_le (s_tx_buffer s) (g_flight g) (bd_size cx s (repr0 cx s t) (g_flight g)) Hwf ltac:(lia))
    as (L1 & L2 & L3). fold P in L1, L2, L3.
  split; [reflexivity|]. split; [reflexivity|]. split; [reflexivity|]. split; [reflexivity|].
  split.
  { destruct (fin_ctl_control s (g_flight g) r0 Hc0) as [(-> & _)|(_ & [->|(-> & _)])]; discriminate. }
  split.
  { destruct (fin_ctl_control s (g_flight g) r0 Hc0) as [(-> & _)|(_ & [->|(-> & _)])]; discriminate. }
  split; [exact L1|]. split; [intros X; specialize (L2 X); lia|]. split; [exact L3|].
  intros Hfl. unfold P. rewrite rb_ga_len by (try assumption; lia).
  unfold bd_size. rewrite Hz, repr0_opt. unfold sat_sub. fold (emss cx s). reflexivity.
Qed.

Lemma normal_progress : forall cx g s t,
  inv g s -> 0 < emss cx s -> data_state (s_state s) = true -> tcp_sent_syn s = false ->
  bd_zwp cx s (g_flight g) = false ->
  let r1 := bd_normal cx s (repr0 cx s t) (g_flight g) in
  0 < repr_segment_len r1 ->
  g_flight g + repr_segment_len r1 <= rb_len (s_tx_buffer s) + 1 /\
  phi_of cx s (g_flight g + repr_segment_len r1) < phi_of cx s (g_flight g).
Proof.
  intros cx g s t Hinv Hm Hds Hsyn Hz. cbv zeta. intros Hsl.
  destruct (bd_normal_len cx g s t Hinv Hz) as (Esl & _ & _ & _ & _ & _ & Hn0 & Hn1 & Hn2 & Hn3).
  cbv zeta in *.
  destruct Hinv as (Htx & Htm).
  destruct (inv_nf g s Htx) as (Hl & Hr & Hf & Hb & Hw & Hlen & Hwf).
  set (f := g_flight g) in *. set (r1 := bd_normal cx s (repr0 cx s t) f) in *.
  set (n := l_len (r_payload r1)) in *. set (len := rb_len (s_tx_buffer s)) in *.
  assert (Hc : 0 <= b2z (fin_flag s f n) <= 1) by apply b2z_01.
  destruct (Z.le_gt_cases f len) as [Hfl|Hfl].
  2:{ exfalso. rewrite (Hn2 Hfl) in *. unfold fin_flag in Esl. fold len in Esl.
      destruct (Z.eqb_spec (f + 0) len); [lia|]. cbn in Esl. lia. }
  specialize (Hn1 Hfl). specialize (Hn3 Hfl).
  split; [lia|].
  unfold phi_of. rewrite Hsyn, Hds. rewrite Esl.
  replace (f + (n + b2z (fin_flag s f n))) with (f + n + b2z (fin_flag s f n)) by lia.
  pose proof Hwf as (Hw1 & Hw2 & Hw3 & Hw4).
  apply (phi_data_step (s_remote_win_len s) len (cwnd s) (emss cx s) (rb_read_at (s_tx_buffer s))
           (rb_cap (s_tx_buffer s)) (fin_state (s_state s)) f
           (if rb_read_at (s_tx_buffer s) + f <? rb_cap (s_tx_buffer s)
            then rb_read_at (s_tx_buffer s) + f
            else rb_read_at (s_tx_buffer s) + f - rb_cap (s_tx_buffer s))
           (Z.min (Z.min (Z.max 0 (s_remote_win_len s - f)) (emss cx s)) (Z.max 0 (cwnd s - f)))
           n (b2z (fin_flag s f n))); try assumption; try reflexivity; try lia.
  unfold fin_flag. fold len. rewrite andb_comm. reflexivity.
Qed.

(* the segment of a fast retransmission *)
Lemma bd_fast_len : forall cx g s t,
  inv g s ->
  let r1 := bd_fast cx s (repr0 cx s t) in
  let n := l_len (r_payload r1) in
  repr_segment_len r1 = n + b2z (fin_flag s 0 n) /\
  r_seq_number r1 = s_local_seq_no s /\ r_ack_number r1 = Some (tcp_window_start s) /\
  r_window_len r1 = tcp_scaled_window s /\ r_control r1 <> CSyn /\ r_control r1 <> CRst /\
  0 <= n <= rb_len (s_tx_buffer s).
Proof.
  intros cx g s t (Htx & Htm). cbv zeta.
  destruct (inv_nf g s Htx) as (Hl & Hr & Hf & Hb & Hw & Hlen & Hwf).
  unfold bd_fast.
  match goal with |- context [rb_get_allocated ?a ?b ?c] => set (P := rb_get_allocated a b c) end.
  set (r0 := repr_set_payload (repr_set_seq (repr0 cx s t) (s_local_seq_no s)) P).
  assert (Hc0 : r_control r0 = CNone) by reflexivity.
  destruct (fin_ctl_proj s 0 r0) as (E1 & E2 & E3 & E4).
  rewrite (repr_segment_len_fin_ctl s 0 r0 Hc0), E1, E2, E3, E4.
  change (r_payload r0) with P.
  split; [reflexivity|]. split; [reflexivity|]. split; [reflexivity|]. split; [reflexivity|].
  split.
  { destruct (fin_ctl_control s 0 r0 Hc0) as [(-> & _)|(_ & [->|(-> & _)])]; discriminate. }
  split.
  { destruct (fin_ctl_control s 0 r0 Hc0) as [(-> & _)|(_ & [->|(-> & _)])]; discriminate. }
  unfold P.
  match goal with |- context [rb_get_allocated ?a ?b ?c] =>
    destruct (rb_ga_len_le a b c Hwf ltac:(lia)) as (L1 & L2 & _) end.
  specialize (L2 ltac:(lia)). lia.
Qed.

(* ------------------------------------------------------------------------------------------ *)
(* why dispatch decided to send                                                                 *)
(* ------------------------------------------------------------------------------------------ *)
Lemma decide_go : forall cx s s2 tg,
  tcp_dispatch_decide cx s = Ok (s2, true, tg) ->
  s2 = s /\
  (tcp_seq_to_transmit cx s = Ok true \/ tcp_ack_to_transmit s = true \/
   tcp_window_to_update s = Ok true \/ s_state s = Closed \/
   timer_should_keep_alive (s_timer s) (cx_now cx) = true \/
   timer_should_zero_window_probe (s_timer s) (cx_now cx) = true).
Proof.
  intros cx s s2 tg H. unfold tcp_dispatch_decide in H.
  destruct (tcp_seq_to_transmit cx s) as [[|]|e|]; cbn [obind] in H; try discriminate;
    [injection H as <- _; auto|].
  destruct (tcp_ack_to_transmit s) eqn:Ea.
  { destruct (tcp_delayed_ack_expired s (cx_now cx)); cbn [andb] in H; [injection H as <- _; auto|].
    destruct (tcp_window_to_update s) as [[|]|e|]; cbn [obind] in H; try discriminate;
      [injection H as <- _; auto|].
    destruct (tcp_state_eqb (s_state s) Closed); [injection H as <- _; auto|].
    destruct (timer_should_keep_alive (s_timer s) (cx_now cx)); [injection H as <- _; auto|].
    destruct (timer_should_zero_window_probe (s_timer s) (cx_now cx)); [injection H as <- _; auto|].
    destruct (timer_should_close (s_timer s) (cx_now cx)); discriminate. }
  cbn [andb] in H.
  destruct (tcp_window_to_update s) as [[|]|e|]; cbn [obind] in H; try discriminate;
    [injection H as <- _; auto|].
  destruct (tcp_state_eqb (s_state s) Closed) eqn:Ec.
  { injection H as <- _. split; [reflexivity|]. right; right; right; left.
    destruct (s_state s); try discriminate; reflexivity. }
  destruct (timer_should_keep_alive (s_timer s) (cx_now cx)); [injection H as <- _; auto 7|].
  destruct (timer_should_zero_window_probe (s_timer s) (cx_now cx)); [injection H as <- _; auto 7|].
  destruct (timer_should_close (s_timer s) (cx_now cx)); discriminate.
Qed.

(* without a due timer and with nothing owed to the peer, the only reason is seq_to_transmit *)
Lemma reason_cases : forall cx g s s2 tg,
  inv g s -> ctx_ok cx -> s_tuple s <> None ->
  tcp_dispatch_decide cx s = Ok (s2, true, tg) ->
  s2 = s /\ (1 <= m_D cx s + m_B s \/ stt_fn cx s (g_flight g) = true \/ s_state s = Closed).
Proof.
  intros cx g s s2 tg Hinv Hcx Ht H. destruct (decide_go _ _ _ _ H) as (-> & R).
  split; [reflexivity|]. pose proof (D_01 cx s). pose proof (B_01 s).
  destruct R as [R|[R|[R|[R|[R|R]]]]].
  - rewrite (stt_exact cx g s Hinv Hcx Ht) in R. injection R as R. auto.
  - left. unfold m_B. rewrite R. cbn. lia.
  - left. unfold m_B, wtu_on. rewrite R, orb_true_r. cbn. lia.
  - auto.
  - left. unfold m_D. rewrite R. cbn. lia.
  - left. unfold m_D. rewrite R, orb_true_r. cbn. lia.
Qed.

Lemma sat_sub_nonneg : forall a b, 0 <= sat_sub a b.
Proof. intros. unfold sat_sub. lia. Qed.

(* SYN states: the SYN goes out only while nothing is in flight *)
Lemma stt_syn : forall cx g s, inv g s -> tcp_sent_syn s = true ->
  stt_fn cx s (g_flight g) = true -> g_flight g = 0.
Proof.
  intros cx g s ((Hwf & Hcap & Ha & Hlen & Hc & Hl & Hr & Hf & Hhw & Hpo & Hw & Hs) & Htm) Hsyn H.
  assert (Hp : g_phase g = PSyn).
  { unfold phase_ok in Hpo. unfold tcp_sent_syn in Hsyn.
    destruct (g_phase g); [reflexivity| |];
    destruct (s_state s); try discriminate; try tauto.
    destruct Hpo as (_ & X). congruence. }
  unfold phase_ok in Hpo. rewrite Hp in Hpo. destruct Hpo as (_ & Hl0 & _).
  unfold g_budget in Hf. rewrite Hp in Hf.
  destruct (Z.eq_dec (g_flight g) 0) as [|Hne]; [assumption|exfalso].
  unfold stt_fn, rb_is_empty in H. rewrite Hl0 in H. cbn [Z.eqb negb andb] in H.
  rewrite andb_false_r in H. cbn [andb] in H.
  destruct (Z.eqb_spec (g_flight g) 0); [contradiction|]. cbn [negb] in H.
  rewrite andb_false_r in H.
  pose proof (sat_sub_nonneg (cwnd s) (g_flight g)).
  assert (Hm : Z.min (s_remote_win_len s) 0 = 0) by lia. rewrite Hm in H.
  destruct (Z.geb_spec 0 (g_flight g)); [lia|].
  assert (Hm2 : Z.min 0 (sat_sub (cwnd s) (g_flight g)) = 0) by lia. rewrite Hm2 in H.
  cbn [Z.eqb negb] in H.
  destruct (Z.eqb_spec (g_flight g) 0); [contradiction|].
  rewrite andb_false_r in H.
  destruct (s_nagle s && true && negb (0 >=? emss cx s) && _); discriminate.
Qed.

(* FIN-WAIT-2 / TIME-WAIT: nothing of ours is left to transmit *)
Lemma stt_ackonly : forall cx g s, inv g s -> synfw_ok s ->
  (s_state s = FinWait2 \/ s_state s = TimeWait) ->
  stt_fn cx s (g_flight g) = false.
Proof.
  intros cx g s ((Hwf & Hcap & Ha & Hlen & Hc & Hl & Hr & Hf & Hhw & Hpo & Hw & Hs) & Htm) Hfw Hst.
  assert (Hflag : s_syn_unacked_in_fin_wait s = false).
  { destruct (s_syn_unacked_in_fin_wait s) eqn:E; [|reflexivity].
    destruct (Hfw E) as [X|X]; destruct Hst as [Y|Y]; congruence. }
  assert (Hp : g_phase g = PFinAcked).
  { unfold phase_ok in Hpo. destruct (g_phase g); [| |reflexivity];
    destruct Hst as [Y|Y]; rewrite Y in Hpo; tauto. }
  unfold phase_ok in Hpo. rewrite Hp in Hpo. destruct Hpo as (Hl0 & Hf0 & _).
  unfold stt_fn, rb_is_empty. rewrite Hl0, Hf0, Hflag. cbn [Z.eqb negb andb].
  rewrite andb_false_r. cbn [andb].
  pose proof (sat_sub_nonneg (cwnd s) 0).
  assert (Hm : Z.min (s_remote_win_len s) 0 = 0) by lia. rewrite Hm.
  change (0 >=? 0) with true. change (0 - 0) with 0. cbv iota.
  assert (Hm2 : Z.min 0 (sat_sub (cwnd s) 0) = 0) by lia. rewrite Hm2. cbn [Z.eqb negb].
  destruct Hst as [Y|Y]; rewrite Y; cbn [orb andb];
    match goal with |- (if ?c then _ else _) || _ = _ => destruct c; reflexivity end.
Qed.

Lemma repr_empty_len : forall r, repr_is_empty r = true -> repr_segment_len r = 0.
Proof.
  intros r H. unfold repr_is_empty, repr_segment_len in *.
  destruct (r_payload r); [|discriminate]. rewrite l_len_nil.
  destruct (r_control r); try discriminate; reflexivity.
Qed.

Lemma repr_nonempty_len : forall r, repr_is_empty r = false -> r_control r <> CRst ->
  0 < repr_segment_len r.
Proof.
  intros r H Hc. unfold repr_is_empty, repr_segment_len in *.
  destruct (r_payload r) eqn:E.
  - rewrite l_len_nil. destruct (r_control r); try discriminate; try congruence; cbn; lia.
  - pose proof (l_len_cons_pos z l). destruct (r_control r); unfold control_len; lia.
Qed.

(* data states, normal path, an empty segment came out: seq_to_transmit was not the reason *)
Lemma stt_data_empty : forall cx g s t,
  inv g s -> synfw_ok s -> 0 < emss cx s ->
  data_state (s_state s) = true -> tcp_sent_syn s = false ->
  s_pending_fast_retransmit s && (s_remote_win_len s >? 0) = false ->
  bd_zwp cx s (g_flight g) = false ->
  repr_segment_len (bd_normal cx s (repr0 cx s t) (g_flight g)) = 0 ->
  stt_fn cx s (g_flight g) = false.
Proof.
  intros cx g s t Hinv Hfw Hm Hds Hsyn Hp Hz Hsl.
  destruct (bd_normal_len cx g s t Hinv Hz) as (Esl & _ & _ & _ & _ & _ & Hn0 & Hn1 & Hn2 & Hn3).
  cbv zeta in *.
  destruct Hinv as (Htx & Htm).
  destruct (inv_nf g s Htx) as (Hl & Hr & Hf & Hb & Hw & Hlen & Hwf).
  set (f := g_flight g) in *.
  set (n := l_len (r_payload (bd_normal cx s (repr0 cx s t) f))) in *.
  set (len := rb_len (s_tx_buffer s)) in *.
  pose proof (b2z_01 (fin_flag s f n)) as Hc.
  assert (En : n = 0) by lia. assert (Efl : fin_flag s f n = false).
  { destruct (fin_flag s f n); [cbn in *; lia|reflexivity]. }
  rewrite En in *. clear Hsl Esl Hc.
  assert (Hflag : s_syn_unacked_in_fin_wait s = false).
  { destruct (s_syn_unacked_in_fin_wait s) eqn:E; [|reflexivity].
    unfold tcp_sent_syn in Hsyn. destruct (Hfw E) as [X|X]; rewrite X in *; try discriminate.
    congruence. }
  unfold stt_fn.
  assert (Hp1 : s_pending_fast_retransmit s && negb (rb_is_empty (s_tx_buffer s))
                && (s_remote_win_len s >? 0) = false).
  { destruct (s_pending_fast_retransmit s); [|reflexivity]. cbn [andb] in *. rewrite Hp.
    apply andb_false_r. }
  rewrite Hp1, Hflag.
  assert (Hnsyn : match s_state s with SynSent | SynReceived => true | _ => false end = false)
    by (destruct (s_state s); try discriminate; reflexivity).
  rewrite Hnsyn. cbn [orb andb].
  fold len.
  assert (Hcs : Z.min (if Z.min (s_remote_win_len s) len >=? f
                       then Z.min (s_remote_win_len s) len - f else 0)
                      (sat_sub (cwnd s) f) = 0).
  { destruct (Z.geb_spec (Z.min (s_remote_win_len s) len) f) as [Hge|Hlt];
      [|pose proof (sat_sub_nonneg (cwnd s) f); lia].
    destruct (Z.le_gt_cases (sat_sub (cwnd s) f) 0) as [|Hcw];
      [pose proof (sat_sub_nonneg (cwnd s) f); lia|].
    destruct (Z.eq_dec (Z.min (s_remote_win_len s) len) f) as [|Hne]; [lia|exfalso].
    (* f < min win len: at least one octet would have been taken *)
    assert (Hfl : f < len) by lia. specialize (Hn3 ltac:(lia)).
    unfold sat_sub in Hcw. destruct Hwf as (W1 & W2 & W3 & W4). fold len in W1.
    destruct (Z.ltb_spec (rb_read_at (s_tx_buffer s) + f) (rb_cap (s_tx_buffer s))); lia. }
  rewrite Hcs. cbn [Z.eqb negb].
  assert (Hfin : (match s_state s with FinWait1 | Closing | LastAck => true | _ => false end)
                 && (f =? len) = false).
  { unfold fin_flag in Efl. fold len in Efl. replace (f + 0) with f in Efl by lia.
    rewrite andb_comm. destruct (s_state s); try exact Efl; apply andb_false_r. }
  rewrite Hfin, orb_false_r.
  match goal with |- (if ?c then _ else _) = _ => destruct c; reflexivity end.
Qed.
