(* C02 (liveness half), layer 8: THE HANDSHAKE IS SAFE, for every run from net_init (losses,
   duplicates, reordering included) of the one-way workload (A connects and is the only writer, B
   listens, nobody closes):  the regime invariant [reg SA] of Proofs/TcpProgressSafe.v holds as soon
   as both sockets are ESTABLISHED.  Hence the start-state premise of oneway_delivery_from_established
   is discharged: "reached from net_init, both ESTABLISHED" suffices.

   The invariant [pre_hs] of the phases before that (SYN-SENT/LISTEN, SYN-SENT/SYN-RECEIVED,
   ESTABLISHED/SYN-RECEIVED) says what is in flight: towards B only A's SYNs (no ACK) and - once A is
   ESTABLISHED - segments without SYN/FIN/RST acknowledging exactly B's ISS + 1; towards A only B's
   SYN|ACKs (numbered ISS(B), acknowledging ISS(A) + 1) and empty ACKs numbered ISS(B) + 1.  So no
   arm of `process` that answers with a RST or gives up is ever reached.  Cross-socket facts come
   from C01's network invariant (closed): A's ISS is the number net_init drew, B's RCV.NXT in
   SYN-RECEIVED is that number + 1, B's SND.NXT is ISS(B) + 1 once it has transmitted. *)
From SV Require Import Lib.Base Gen.Consts.
From SV Require Import Model.Seq32 Model.Assembler Model.TcpBuf Model.TcpTypes Model.Tcp Model.TcpNet.
From SV Require Import Proofs.TcpSendBase Proofs.TcpLiveBase Proofs.TcpLiveProofs Proofs.TcpLiveMore
  Proofs.TcpLiveProgress.
From SV Require Import Proofs.TcpNetBase.
From SV Require Proofs.TcpRecvBase Proofs.TcpRecvWindow Proofs.TcpRecvPayload Proofs.TcpRecvInv
  Proofs.TcpRecvProcess Proofs.TcpRecvDispatch Proofs.TcpRecvTrace Proofs.TcpRecvTheorems.
From SV Require Proofs.TcpSendInv Proofs.TcpNetContract Proofs.TcpNetCompose Proofs.TcpNetInv Proofs.TcpNetProofs.
From SV Require Import Proofs.TcpProgressBase Proofs.TcpProgressFrame Proofs.TcpProgressCtl Proofs.TcpProgressRecv
  Proofs.TcpProgressSend Proofs.TcpProgressNet Proofs.TcpProgressData Proofs.TcpProgressAck
  Proofs.TcpProgressAll Proofs.TcpProgressSafe Proofs.TcpProgressHs Proofs.TcpProgressHsD.

Module C := TcpNetCompose.
Module SI := TcpSendInv.
Module RT := TcpRecvTrace.
Module RI := TcpRecvInv.

(* ---------------------------------------------------------------------------------------- *)
(* what C01's invariant says in the handshake states                                         *)
(* ---------------------------------------------------------------------------------------- *)
Record hs_view (isn : Z) (st : net) : Prop := mkHV {
  hv_isn : 0 <= isn < 4294967296;
  hv_asyn : s_state (net_sock st SA) = SynSent ->
            s_local_seq_no (net_sock st SA) = isn /\ rb_len (s_rx_buffer (net_sock st SA)) = 0;
  hv_bsyn : s_state (net_sock st SB) = SynReceived ->
            tcp_window_start (net_sock st SB) = seq_add isn 1 /\
            (rt_max_seq_sent (s_rtte (net_sock st SB)) <> None ->
             tcp_send_next_seq (net_sock st SB) = seq_add (s_local_seq_no (net_sock st SB)) 1);
  hv_synseq : forall p, In p (ep_sent (n_a st)) -> r_control (snd p) = CSyn -> r_seq_number (snd p) = isn;
  hv_sub : chan_sub st;
  hv_rx : forall z, TcpRecvBase.rb_wf (s_rx_buffer (net_sock st z)) /\ 0 <= s_remote_win_shift (net_sock st z);
  hv_mtu : forall z, 52 < cx_ip_mtu (ep_cx (net_get st z));
  hv_wf : forall p, In p (ep_sent (n_a st)) -> 0 <= l_len (r_payload (snd p)) <= 65535;
  hv_tx : forall z, rb_len (s_tx_buffer (net_sock st z)) <= 2 ^ 30;
  hv_asyn2 : s_state (net_sock st SA) = SynSent ->
             ep_written (n_a st) = [] /\
             match rt_max_seq_sent (s_rtte (net_sock st SA)) with
             | Some m => m = seq_add isn 1
             | None => True
             end
}.

Lemma hs_view_of_INV Sa Sb isn ga gb st :
  C.INV Sa None Sb None isn ga gb st -> ep_written (n_b st) = [] -> hs_view isn st.
Proof.
  intros (Ea & Eb & Dab & Dba & Hroles & Hsub) Hbw.
  destruct Hroles as (Hisn & _ & _ & Hgiss & Hsyn & _ & HKb & _).
  constructor.
  - exact Hisn.
  - intros Hst. unfold net_sock in *. cbn [net_get] in *.
    destruct Ea as (Hinv & _ & Hg & _).
    destruct Hinv as ((_ & _ & _ & _ & _ & Hlsn & _ & _ & _ & Hph & _) & _).
    unfold SI.phase_ok in Hph. rewrite Hst in Hph.
    split.
    + rewrite Hlsn. unfold SI.g_una. destruct (SI.g_phase (C.eg_tx ga)); try contradiction.
      * destruct Hgiss as [E | (Hd & _)]; [|rewrite Hst in Hd; discriminate].
        rewrite Z.add_0_r. exact E.
      * destruct Hph as (_ & _ & _ & []).
    + unfold RT.ginv in Hg. destruct (RT.g_irs (C.eg_rx ga)).
      * destruct Hg as ((_ & _ & _ & _ & Hsto) & _). unfold RI.st_ok in Hsto. rewrite Hst in Hsto. contradiction.
      * destruct Hg as ((_ & _ & Hl & _) & _). exact Hl.
  - intros Hst. unfold net_sock in *. cbn [net_get] in *.
    destruct Eb as (Hinv & _ & Hg & Htxl & _ & _ & Hkl).
    unfold RT.ginv in Hg. unfold C.kl in Hkl. destruct Hkl as (_ & _ & Hkl).
    destruct (RT.g_irs (C.eg_rx gb)) as [irs|].
    2:{ exfalso. destruct Hg as ((_ & _ & _ & _ & _ & _ & Hs3) & _). rewrite Hst in Hs3. exact Hs3. }
    destruct Hg as ((_ & (Hseq & _) & _ & _ & Hsto) & _). destruct Hkl as (HK & _).
    unfold RI.st_ok in Hsto. rewrite Hst in Hsto. destruct Hsto as (Hl0 & _ & Hfin & Hc0).
    pose proof (HKb irs HK) as Eirs. subst irs.
    split.
    + unfold tcp_window_start. rewrite Hseq, Hl0, Hc0. unfold RI.finz. rewrite Hfin. cbn [b2z].
      rewrite TcpRecvBase.seq_add_norm. rewrite TcpRecvBase.seq_add_as_norm. f_equal. lia.
    + intros Hm.
      destruct Hinv as ((Hwf & _ & _ & Hal & _ & Hlsn & Hrls & Hfl & _ & Hph & _) & _ & (Hhw & Hmsx & _)).
      unfold SI.phase_ok in Hph. rewrite Hst in Hph.
      destruct (SI.g_phase (C.eg_tx gb)) eqn:Ep; try contradiction.
      2:{ destruct Hph as (_ & _ & _ & []). }
      destruct Hph as (_ & _ & Hgf).
      destruct Htxl as [(Hs & _) | (Hd & _)]; [|rewrite Hst in Hd; discriminate].
      rewrite Hs, Hbw, Hgf in Hhw. cbn in Hhw.
      unfold SI.g_una in Hlsn, Hrls. rewrite Ep in Hlsn, Hrls.
      unfold SI.g_budget in Hfl. rewrite Ep in Hfl.
      unfold tcp_send_next_seq. destruct (rt_max_seq_sent (s_rtte (ep_sock (n_b st)))) as [m|]; [|contradiction].
      destruct Hmsx as (k & Hm1 & Hk). assert (k = 1) by lia. subst k.
      rewrite Hlsn, Hrls, Hm1. rewrite seq_add_sq.
      replace (SI.g_iss (C.eg_tx gb) + 0 + SI.g_flight (C.eg_tx gb)) with (SI.g_iss (C.eg_tx gb) + SI.g_flight (C.eg_tx gb)) by lia.
      rewrite seq_gt_sq by (change (2 ^ 31) with 2147483648; lia).
      destruct (Z.gtb_spec 1 (SI.g_flight (C.eg_tx gb))); f_equal; lia.
  - exact Hsyn.
  - exact Hsub.
  - intros z. destruct z; unfold net_sock; cbn [net_get].
    + destruct Ea as (_ & _ & Hg & _). destruct (RT.ginv_wf _ _ _ _ Hg) as (W & _ & Sh). split; assumption.
    + destruct Eb as (_ & _ & Hg & _). destruct (RT.ginv_wf _ _ _ _ Hg) as (W & _ & Sh). split; assumption.
  - intros z. destruct z; cbn [net_get].
    + destruct Ea as (_ & (_ & (Hm & _)) & _). apply Hm.
    + destruct Eb as (_ & (_ & (Hm & _)) & _). apply Hm.
  - intros p Hp. destruct Dab as (Hgood & _). exact (proj1 (Hgood p Hp)).
  - intros z. destruct z; unfold net_sock; cbn [net_get].
    + destruct Ea as (((Hwf & Hcap & _) & _) & _). destruct Hwf as ((_ & Hl) & _). lia.
    + destruct Eb as (((Hwf & Hcap & _) & _) & _). destruct Hwf as ((_ & Hl) & _). lia.
  - intros Hst. unfold net_sock in *. cbn [net_get] in *.
    destruct Ea as (Hinv & _ & _ & Htxl & _).
    destruct Hinv as ((Hwf & _ & Ha0 & Hal & _ & _ & _ & _ & _ & Hph & _) & _ & (Hhw & Hmsx & _)).
    unfold SI.phase_ok in Hph. rewrite Hst in Hph.
    destruct (SI.g_phase (C.eg_tx ga)) eqn:Ep; try contradiction.
    2:{ destruct Hph as (_ & _ & _ & []). }
    destruct Hph as (Hac & Hl0 & Hgf).
    destruct Htxl as [(Hs & _) | (Hd & _)]; [|rewrite Hst in Hd; discriminate].
    assert (Hw0 : l_len (ep_written (n_a st)) = 0) by (rewrite <- Hs; lia).
    split; [apply TcpSendBase.l_len_zero_nil; exact Hw0|].
    destruct (rt_max_seq_sent (s_rtte (ep_sock (n_a st)))) as [m|]; [|exact I].
    destruct Hmsx as (k & Hm & Hk). rewrite Hs, Hw0, Hgf in Hhw. cbn in Hhw. assert (k = 1) by lia. subst k.
    destruct Hgiss as [E | (Hd & _)]; [|rewrite Hst in Hd; discriminate].
    rewrite Hm, <- E, seq_add_sq. reflexivity.
Qed.

Definition INVo (isn : Z) (st : net) : Prop := exists Sa Sb ga gb, C.INV Sa None Sb None isn ga gb st.

Lemma INVo_view isn st : INVo isn st -> ep_written (n_b st) = [] -> hs_view isn st.
Proof. intros (Sa & Sb & ga & gb & H) Hb. exact (hs_view_of_INV _ _ _ _ _ _ H Hb). Qed.

Lemma INVo_inv_at isn st : INVo isn st -> inv_at SA st.
Proof.
  intros (Sa & Sb & ga & gb & (Ea & Eb & Dab & Dba & _ & Hsub)).
  exists Sa, Sb, ga, gb. cbn [side_other net_get]. auto.
Qed.

(* ---------------------------------------------------------------------------------------- *)
(* the invariant of the phases before both sockets are ESTABLISHED                           *)
(* ---------------------------------------------------------------------------------------- *)
(* the socket has transmitted: the last ACK is recorded, the estimator knows SND.NXT *)
Definition emitted (s : socket) : Prop :=
  s_remote_last_ack s <> None /\ rt_max_seq_sent (s_rtte s) <> None.

Section Hs.
Variable isn : Z.
Variable Dack : Z.

Notation sa st := (net_sock st SA).
Notation sb st := (net_sock st SB).

Record pre_hs (st : net) : Prop := mkPH {
  ph_phase : (s_state (sa st) = SynSent /\ (s_state (sb st) = Listen \/ s_state (sb st) = SynReceived)) \/
             (s_state (sa st) = Established /\ s_state (sb st) = SynReceived);
  ph_closed : forall z, ep_closed (net_get st z) = false;
  ph_bwr : ep_written (net_get st SB) = [];
  ph_tup : exists tA,
      s_tuple (sa st) = Some tA /\ tu_local_addr tA = cx_addr (ep_cx (net_get st SA)) /\
      tu_remote_addr tA = cx_addr (ep_cx (net_get st SB)) /\ tuple_nz tA /\
      (s_state (sb st) = Listen ->
       s_tuple (sb st) = None /\ le_addr (s_listen_endpoint (sb st)) = None /\
       le_port (s_listen_endpoint (sb st)) = tu_remote_port tA) /\
      (s_state (sb st) = SynReceived -> s_tuple (sb st) = Some (mirror tA)) /\
      (forall p, In p (chan_to st SB) -> sent_to (mirror tA) (fst p) (snd p)) /\
      (forall q, In q (chan_to st SA) -> sent_to tA (fst q) (snd q));
  ph_toB : forall p, In p (chan_to st SB) ->
      (r_control (snd p) = CSyn /\ r_ack_number (snd p) = None) \/
      ((r_control (snd p) = CNone \/ r_control (snd p) = CPsh) /\ s_state (sa st) = Established /\
       r_ack_number (snd p) = Some (tcp_window_start (sa st)));
  ph_toA : forall q, In q (chan_to st SA) ->
      s_state (sb st) = SynReceived /\ emitted (sb st) /\ r_payload (snd q) = [] /\
      ((r_control (snd q) = CSyn /\ r_ack_number (snd q) = Some (seq_add isn 1) /\
        r_seq_number (snd q) = s_local_seq_no (sb st)) \/
       (r_control (snd q) = CNone /\ r_seq_number (snd q) = seq_add (s_local_seq_no (sb st)) 1 /\
        s_state (sa st) = Established));
  ph_ws : s_state (sa st) = Established ->
          tcp_window_start (sa st) = seq_add (s_local_seq_no (sb st)) 1 /\ emitted (sb st);
  ph_noka : forall z, noka (s_timer (net_sock st z));
  ph_delay : match s_ack_delay (sb st) with Some d => 0 <= d <= Dack | None => True end
}.

Lemma pre_ext st st' : (forall z, same_ctl (net_get st' z) (net_get st z)) -> pre_hs st -> pre_hs st'.
Proof.
  intros Hs HP.
  assert (Es : forall z, net_sock st' z = net_sock st z) by (intros z; apply (Hs z)).
  assert (Ec : forall z p, In p (chan_to st' z) -> In p (chan_to st z)).
  { intros z p. unfold chan_to. destruct (Hs (side_other z)) as (_ & Hi & _). apply Hi. }
  constructor.
  - rewrite !Es. apply (ph_phase st HP).
  - intros z. destruct (Hs z) as (_ & _ & _ & -> & _). apply (ph_closed st HP).
  - destruct (Hs SB) as (_ & _ & -> & _). apply (ph_bwr st HP).
  - destruct (ph_tup st HP) as (tA & T1 & T2 & T3 & T4 & T5 & T6 & T7 & T8). exists tA.
    rewrite !Es. destruct (Hs SA) as (_ & _ & _ & _ & ->). destruct (Hs SB) as (_ & _ & _ & _ & ->).
    repeat (split; [assumption|]). split; [intros p Hin; apply T7, Ec, Hin | intros q Hin; apply T8, Ec, Hin].
  - intros p Hin. rewrite !Es. apply (ph_toB st HP), Ec, Hin.
  - intros q Hin. rewrite !Es. apply (ph_toA st HP), Ec, Hin.
  - rewrite !Es. apply (ph_ws st HP).
  - intros z. rewrite Es. apply (ph_noka st HP).
  - rewrite Es. apply (ph_delay st HP).
Qed.

(* an event of endpoint w that puts nothing on the wire and leaves the control plane alone *)
Lemma pre_quiet st w e' :
  pre_hs st ->
  qf (ep_sock e') (ep_sock (net_get st w)) -> noka (s_timer (ep_sock e')) ->
  (s_state (ep_sock (net_get st w)) = Established ->
   tcp_window_start (ep_sock e') = tcp_window_start (ep_sock (net_get st w))) ->
  ep_out e' = ep_out (net_get st w) -> ep_closed e' = ep_closed (net_get st w) ->
  (w = SB -> ep_written e' = ep_written (net_get st w)) ->
  ep_cx e' = ep_cx (net_get st w) ->
  pre_hs (net_set st w e').
Proof.
  intros HP (Q1 & Q2 & Q3 & Q4 & Q5 & Q6 & Q7 & _ & _) Hnk Hws Hout Hcl Hwr Hcx.
  assert (Gw : net_get (net_set st w e') w = e') by apply net_get_set_same.
  assert (Go : net_get (net_set st w e') (side_other w) = net_get st (side_other w)) by apply net_get_set_other.
  assert (Ec : forall z, chan_to (net_set st w e') z = chan_to st z).
  { intros z. unfold chan_to. destruct (side_cases w (side_other z)) as [E | E]; rewrite E.
    - rewrite Gw, Hout. reflexivity.
    - rewrite Go. reflexivity. }
  assert (Est : forall z, s_state (net_sock (net_set st w e') z) = s_state (net_sock st z) /\
                          s_tuple (net_sock (net_set st w e') z) = s_tuple (net_sock st z) /\
                          s_listen_endpoint (net_sock (net_set st w e') z) = s_listen_endpoint (net_sock st z) /\
                          s_local_seq_no (net_sock (net_set st w e') z) = s_local_seq_no (net_sock st z) /\
                          s_remote_last_ack (net_sock (net_set st w e') z) = s_remote_last_ack (net_sock st z) /\
                          s_rtte (net_sock (net_set st w e') z) = s_rtte (net_sock st z) /\
                          s_ack_delay (net_sock (net_set st w e') z) = s_ack_delay (net_sock st z) /\
                          cx_addr (ep_cx (net_get (net_set st w e') z)) = cx_addr (ep_cx (net_get st z))).
  { intros z. unfold net_sock. destruct (side_cases w z) as [-> | ->].
    - rewrite Gw, Hcx. repeat split; assumption.
    - rewrite Go. repeat split; reflexivity. }
  assert (Eem : emitted (net_sock (net_set st w e') SB) <-> emitted (net_sock st SB)).
  { unfold emitted. destruct (Est SB) as (_ & _ & _ & _ & -> & -> & _). tauto. }
  assert (Ews : s_state (net_sock st SA) = Established ->
                tcp_window_start (net_sock (net_set st w e') SA) = tcp_window_start (net_sock st SA)).
  { intros Hst. unfold net_sock. destruct (side_cases w SA) as [E | E].
    - subst w. rewrite Gw. apply Hws. exact Hst.
    - rewrite E, Go. reflexivity. }
  constructor.
  - destruct (Est SA) as (-> & _). destruct (Est SB) as (-> & _). apply (ph_phase st HP).
  - intros z. destruct (side_cases w z) as [-> | ->]; [rewrite Gw, Hcl | rewrite Go]; apply (ph_closed st HP).
  - destruct (side_cases w SB) as [E | E].
    + subst w. rewrite Gw, (Hwr eq_refl). apply (ph_bwr st HP).
    + rewrite E, Go. rewrite <- E. apply (ph_bwr st HP).
  - destruct (ph_tup st HP) as (tA & T1 & T2 & T3 & T4 & T5 & T6 & T7 & T8). exists tA.
    destruct (Est SA) as (_ & -> & _ & _ & _ & _ & _ & ->). destruct (Est SB) as (-> & -> & -> & _ & _ & _ & _ & ->).
    repeat (split; [assumption|]). split; intros p; rewrite Ec; auto.
  - intros p. rewrite Ec. intros Hin. destruct (Est SA) as (-> & _).
    destruct (ph_toB st HP p Hin) as [A | (A & B & C0)]; [left; exact A | right].
    split; [exact A|]. split; [exact B|]. rewrite (Ews B). exact C0.
  - intros q. rewrite Ec. intros Hin. destruct (Est SA) as (-> & _). destruct (Est SB) as (-> & _ & _ & -> & _).
    destruct (ph_toA st HP q Hin) as (A & B & C0 & D). split; [exact A|]. split; [apply Eem; exact B|]. split; [exact C0 | exact D].
  - destruct (Est SA) as (-> & _). destruct (Est SB) as (_ & _ & _ & -> & _). intros Hst.
    rewrite (Ews Hst). destruct (ph_ws st HP Hst) as (A & B). split; [exact A | apply Eem; exact B].
  - intros z. unfold net_sock. destruct (side_cases w z) as [-> | ->]; [rewrite Gw; exact Hnk | rewrite Go; apply (ph_noka st HP)].
  - destruct (Est SB) as (_ & _ & _ & _ & _ & _ & -> & _). apply (ph_delay st HP).
Qed.

Lemma mirror_nz t : tuple_nz t -> tuple_nz (mirror t).
Proof. intros (A & B & C0 & D). unfold tuple_nz, mirror. cbn. auto. Qed.

(* ---- A in SYN-SENT transmits (its SYN) ---- *)
Lemma hs_A_synsent_dispatch st ok e' :
  NI st -> opts_ok st -> pre_hs st -> s_state (sa st) = SynSent ->
  ep_step (n_a st) (EvDispatch ok) = Ok e' -> pre_hs (net_set st SA e').
Proof.
  intros HN Ho HP Hst He.
  destruct (ep_step_spec _ _ _ He) as (s' & out & tags & Hs & Hk & Hcx & Hout & _ & Hwr & _ & _ & Hcl).
  cbn [tcp_step] in Hs. apply obind_ok in Hs. destruct Hs as (((s1 & res) & tg) & Hd & Hs).
  inversion Hs; subst s1 out tags; clear Hs.
  destruct (ph_tup st HP) as (tA & T1 & T2 & T3 & T4 & T5 & T6 & T7 & T8).
  destruct (Ho SA) as (Hto & Hka). pose proof (NI_live st SA HN) as Il.
  unfold net_sock in *. cbn [net_get] in *.
  assert (Hhs : hs_state (s_state (ep_sock (n_a st)))) by (left; exact Hst).
  destruct (dispatch_keeps _ _ _ _ _ _ _ Il Hhs Hto T1 T2 Hd) as (K1 & K2 & K3 & _).
  destruct (dispatch_syn _ _ _ _ _ _ _ Il (or_introl Hst) Hto T1 T2 Hd) as (_ & _ & Hsh).
  destruct (step_noka _ _ (EvDispatch ok) _ (ODispatch res) (tg) I ltac:(cbn [tcp_step]; rewrite Hd; reflexivity) Hka (ph_noka st HP SA)) as (_ & Hnk').
  constructor; unfold net_sock, chan_to; cbn [net_set net_get side_other n_a n_b].
  - rewrite Hk, K1. apply (ph_phase st HP).
  - intros z. destruct z; cbn [net_get n_a n_b];
      [rewrite Hcl; cbn [log_closed]; exact (ph_closed st HP SA) | exact (ph_closed st HP SB)].
  - exact (ph_bwr st HP).
  - exists tA. rewrite Hk, K2, Hcx.
    split; [reflexivity|]. split; [exact T2|]. split; [exact T3|]. split; [exact T4|].
    split; [exact T5|]. split; [exact T6|]. split; [|exact T8].
    intros p Hin. rewrite Hout in Hin. apply in_app_or in Hin. destruct Hin as [Hin | Hin]; [exact (T7 p Hin)|].
    cbn [wire_out] in Hin. destruct res as [| p0 | p0]; try contradiction. destruct Hin as [<- | []].
    destruct (Hsh p0 eq_refl) as (A1 & A2 & A3 & A4 & _). apply sent_from_to. unfold sent_from. auto.
  - intros p Hin. rewrite Hout in Hin. rewrite Hk, K1.
    apply in_app_or in Hin. destruct Hin as [Hin | Hin].
    + destruct (ph_toB st HP p Hin) as [A | (_ & B & _)]; [left; exact A|].
      unfold net_sock in B. cbn [net_get] in B. rewrite Hst in B. discriminate.
    + cbn [wire_out] in Hin. destruct res as [| p0 | p0]; try contradiction. destruct Hin as [<- | []].
      destruct (Hsh p0 eq_refl) as (_ & _ & _ & _ & A5 & _ & A7 & _). left. rewrite Hst in A7. cbn in A7. auto.
  - intros q Hin. rewrite Hk, K1. apply (ph_toA st HP q Hin).
  - rewrite Hk, K1, Hst. discriminate.
  - intros z. destruct z; cbn [net_get n_a n_b]; [rewrite Hk; exact Hnk' | apply (ph_noka st HP SB)].
  - apply (ph_delay st HP).
Qed.

Lemma seq_norm_seq_add a n : seq_norm (seq_add a n) = seq_add a n.
Proof. rewrite TcpRecvBase.seq_add_as_norm. apply TcpRecvBase.seq_norm_idem. Qed.

(* ---- A in SYN-SENT receives B's SYN|ACK ---- *)
Lemma hs_A_synsent_segment st q e' :
  NI st -> opts_ok st -> hs_view isn st -> pre_hs st -> s_state (sa st) = SynSent ->
  In q (chan_to st SA) ->
  ep_step (n_a st) (EvSegment (fst q) (wire_parse (snd q))) = Ok e' ->
  pre_hs (net_set st SA e') /\ s_state (ep_sock e') = Established.
Proof.
  intros HN Ho HV HP Hst Hin He.
  destruct (ep_step_spec _ _ _ He) as (s' & out & tags & Hs & Hk & Hcx & Hout & _ & Hwr & _ & _ & Hcl).
  destruct (ph_tup st HP) as (tA & T1 & T2 & T3 & T4 & T5 & T6 & T7 & T8).
  destruct (Ho SA) as (Hto & Hka). pose proof (NI_live st SA HN) as Il. pose proof (NI_live st SB HN) as Ib.
  destruct (ph_toA st HP q Hin) as (Hsb & Hem & Hpl & [(Hc & Ha & Hsq) | (_ & _ & X)]).
  2:{ rewrite Hst in X. discriminate. }
  destruct (hv_asyn _ _ HV Hst) as (Hlsn & Hrx0).
  pose proof (step_noka _ _ (EvSegment (fst q) (wire_parse (snd q))) _ _ _ I Hs Hka (ph_noka st HP SA)) as (_ & Hnk').
  unfold net_sock in *. cbn [net_get] in *.
  cbn [tcp_step] in Hs. apply obind_ok in Hs. destruct Hs as (((s1 & rep) & tg) & Hi & Hs).
  inversion Hs; subst s1 out tags; clear Hs.
  destruct (accepts_of_sent_to_gen _ tA (fst q) (wire_parse (snd q)) ltac:(rewrite Hst; discriminate)
              ltac:(rewrite Hst; discriminate) T1 T4 (sent_to_parse _ _ (T8 q Hin))) as (A1 & A2 & A3).
  unfold iface_tcp_ingress in Hi. rewrite A1, A2, A3 in Hi.
  assert (Hack : r_ack_number (wire_parse (snd q)) = Some (seq_add (s_local_seq_no (ep_sock (n_a st))) 1)).
  { unfold wire_parse. cbn [r_ack_number]. rewrite Ha, Hlsn, seq_norm_seq_add. reflexivity. }
  assert (Hc' : r_control (wire_parse (snd q)) = CSyn) by (unfold wire_parse; cbn [r_control]; exact Hc).
  destruct (process_synsent_synack _ _ (fst q) (wire_parse (snd q)) _ _ _ Hst Hc' Hack Hi)
    as (P1 & P2 & P3 & P4 & P5 & P6 & P7 & -> & P9).
  assert (Hws' : tcp_window_start s' = seq_add (s_local_seq_no (ep_sock (n_b st))) 1).
  { unfold tcp_window_start. rewrite P5, P6, Hrx0. unfold wire_parse. cbn [r_seq_number]. rewrite Hsq.
    pose proof (li_una _ Ib) as Hu. unfold u32 in Hu. change (2 ^ 32) with 4294967296 in Hu.
    rewrite (TcpRecvBase.seq_norm_small _ Hu).
    rewrite (TcpRecvBase.seq_add_as_norm (s_local_seq_no (ep_sock (n_b st))) 1), TcpRecvBase.seq_add_norm.
    f_equal. lia. }
  cbn [wire_out opt_list] in Hout. rewrite app_nil_r in Hout.
  split; [|rewrite Hk; exact P1].
  constructor; unfold net_sock, chan_to; cbn [net_set net_get side_other n_a n_b].
  - right. rewrite Hk. split; [exact P1 | exact Hsb].
  - intros z. destruct z; cbn [net_get n_a n_b];
      [rewrite Hcl; cbn [log_closed]; exact (ph_closed st HP SA) | exact (ph_closed st HP SB)].
  - exact (ph_bwr st HP).
  - exists tA. rewrite Hk, P2, Hcx, Hout.
    split; [exact T1|]. split; [exact T2|]. split; [exact T3|]. split; [exact T4|].
    split; [exact T5|]. split; [exact T6|]. split; [exact T7 | exact T8].
  - intros p Hp. rewrite Hout in Hp.
    destruct (ph_toB st HP p Hp) as [A | (_ & B & _)]; [left; exact A|].
    unfold net_sock in B. cbn [net_get] in B. rewrite Hst in B. discriminate.
  - intros q' Hq'. rewrite Hk.
    destruct (ph_toA st HP q' Hq') as (B1 & B2 & B3 & [B4 | (_ & _ & X)]).
    + split; [exact B1|]. split; [exact B2|]. split; [exact B3|]. left. exact B4.
    + unfold net_sock in X. cbn [net_get] in X. rewrite Hst in X. discriminate.
  - rewrite Hk. intros _. split; [exact Hws' | exact Hem].
  - intros z. destruct z; cbn [net_get n_a n_b]; [rewrite Hk; exact Hnk' | exact (ph_noka st HP SB)].
  - exact (ph_delay st HP).
Qed.

(* an ESTABLISHED socket that receives no payload keeps RCV.NXT, whatever the event *)
Lemma est_event_ws cx s ev s' out tags t :
  run_ev ev -> ev <> EvClose -> tcp_step cx s ev = Ok (s', out, tags) ->
  s_state s = Established -> s_tuple s = Some t -> tu_local_addr t = cx_addr cx -> tuple_nz t ->
  TcpRecvBase.rb_wf (s_rx_buffer s) -> 0 <= s_remote_win_shift s ->
  match ev with
  | EvSegment ip r => sent_to t ip r /\ r_control r <> CFin /\ r_control r <> CRst /\ r_payload r = []
  | EvRecv n => 0 <= n
  | _ => True
  end ->
  tcp_window_start s' = tcp_window_start s.
Proof.
  intros Hev Hnc H Hst Htu Haddr Hnz W1 W2 Hseg.
  destruct ev; try contradiction; cbn [tcp_step] in H.
  - destruct (tcp_send_slice s data) as [(s1, k)|e|] eqn:E; [| |discriminate]; inversion H; subst.
    + exact (send_slice_ws _ _ _ _ E).
    + reflexivity.
  - destruct (tcp_recv_slice s n) as [(s1, b)|e|] eqn:E; [| |discriminate]; inversion H; subst.
    + exact (recv_slice_ws _ _ _ _ W1 Hseg E).
    + reflexivity.
  - destruct Hseg as (Hto' & Hf & Hr & Hp).
    apply obind_ok in H. destruct H as (((s1 & rep) & tg) & Hi & H). inversion H; subst s1 out tags; clear H.
    destruct (accepts_of_sent_to _ _ _ _ Hst Htu Hnz Hto') as (A1 & A2 & A3).
    unfold iface_tcp_ingress in Hi. rewrite A1, A2, A3 in Hi.
    exact (process_empty_ws _ _ _ _ _ _ _ Hst Hf Hr Hp Hi).
  - apply obind_ok in H. destruct H as (((s1 & res) & tg) & Hd & H). inversion H; subst s1 out tags; clear H.
    destruct (TcpRecvDispatch.dispatch_spec _ _ _ _ _ _ W1 W2 Hd) as [(Hres & _) | (_ & (_ & X2 & _ & X4 & _) & _)].
    + unfold TcpRecvDispatch.dispatch_resets in Hres. rewrite Htu, Haddr, Z.eqb_refl in Hres. discriminate.
    + unfold tcp_window_start. rewrite X2, X4. reflexivity.
Qed.

(* ---- A is ESTABLISHED, B still in SYN-RECEIVED: any event of A ---- *)
Lemma hs_A_est st ev ev0 e' :
  NI st -> opts_ok st -> hs_view isn st -> pre_hs st -> s_state (sa st) = Established ->
  script_ev SA ev -> sock_event st ev SA ev0 ->
  ep_step (n_a st) ev0 = Ok e' -> pre_hs (net_set st SA e') /\ s_state (ep_sock e') = Established.
Proof.
  intros HN Ho HV HP Hst Hsc Hse He.
  destruct (ep_step_spec _ _ _ He) as (s' & out & tags & Hs & Hk & Hcx & Hout & _ & Hwr & _ & _ & Hcl).
  destruct (ph_tup st HP) as (tA & T1 & T2 & T3 & T4 & T5 & T6 & T7 & T8).
  destruct (Ho SA) as (Hto & Hka). pose proof (NI_live st SA HN) as Il.
  destruct (hv_rx _ _ HV SA) as (W1 & W2).
  destruct (ph_ws st HP Hst) as (Hws & Hem).
  destruct (ph_phase st HP) as [(X & _) | (_ & Hsb)]; [rewrite Hst in X; discriminate|].
  pose proof (sock_event_run_ev _ _ _ _ Hse) as Hrun.
  assert (Hnc : ev0 <> EvClose).
  { destruct ev; cbn [sock_event script_ev] in *; try contradiction.
    - destruct Hse as (_ & p & _ & ->). discriminate.
    - destruct Hse as (_ & ->). discriminate.
    - destruct Hse as (_ & ->). discriminate.
    - destruct Hse as (_ & ->). discriminate. }
  assert (Hseg : match ev0 with
                 | EvSegment ip r => sent_to tA ip r /\ r_control r <> CFin /\ r_control r <> CRst /\ r_payload r = []
                 | EvRecv n => 0 <= n
                 | _ => True
                 end).
  { destruct ev; cbn [sock_event] in Hse; try contradiction.
    - destruct Hse as (_ & q & Hn & ->). pose proof (nth_error_In _ _ Hn) as Hin.
      destruct (ph_toA st HP q Hin) as (_ & _ & Hpl & Hk2).
      split; [apply sent_to_parse; exact (T8 q Hin)|]. unfold wire_parse. cbn [r_control r_payload].
      destruct Hk2 as [(Hc & _) | (Hc & _)]; rewrite Hc; repeat split; try discriminate; exact Hpl.
    - destruct Hse as (_ & ->). exact I.
    - destruct Hse as (_ & ->). exact I.
    - destruct Hse as (_ & ->). lia. }
  unfold net_sock in *. cbn [net_get] in *.
  assert (Hseg2 : match ev0 with
                  | EvSegment ip r => sent_to tA ip r /\ r_control r <> CFin /\ r_control r <> CRst
                  | _ => True
                  end) by (destruct ev0; try exact I; tauto).
  destruct (est_event _ _ _ _ _ _ tA Hrun Hnc Hs Hst Il Hto Hka (ph_noka st HP SA) T1 T2 T4 W1 W2 Hseg2)
    as ((S1 & S2 & _) & Hemit).
  pose proof (est_event_ws _ _ _ _ _ _ tA Hrun Hnc Hs Hst T1 T2 T4 W1 W2 Hseg) as Hws'.
  destruct (step_noka _ _ _ _ _ _ Hrun Hs Hka (ph_noka st HP SA)) as (_ & Hnk').
  split; [|rewrite Hk, S1; exact Hst].
  constructor; unfold net_sock, chan_to; cbn [net_set net_get side_other n_a n_b].
  - right. rewrite Hk, S1. split; [exact Hst | exact Hsb].
  - intros z. destruct z; cbn [net_get n_a n_b]; [|exact (ph_closed st HP SB)].
    rewrite Hcl. pose proof (ph_closed st HP SA) as C0. cbn [net_get] in C0.
    destruct ev0; cbn [log_closed]; try exact C0. exfalso. apply Hnc. reflexivity.
  - exact (ph_bwr st HP).
  - exists tA. rewrite Hk, S2, Hcx.
    split; [exact T1|]. split; [exact T2|]. split; [exact T3|]. split; [exact T4|].
    split; [exact T5|]. split; [exact T6|]. split; [|exact T8].
    intros p Hin. rewrite Hout in Hin. apply in_app_or in Hin. destruct Hin as [Hin | Hin]; [exact (T7 p Hin)|].
    destruct (wire_out out) as [p0|] eqn:Eo; [|contradiction]. destruct Hin as [<- | []].
    destruct (Hemit p0 eq_refl) as (F1 & _). apply sent_from_to. exact F1.
  - intros p Hin. rewrite Hout in Hin. rewrite Hk, S1, Hws'.
    apply in_app_or in Hin. destruct Hin as [Hin | Hin]; [exact (ph_toB st HP p Hin)|].
    destruct (wire_out out) as [p0|] eqn:Eo; [|contradiction]. destruct Hin as [<- | []].
    destruct (Hemit p0 eq_refl) as (_ & F2 & F3 & _). right.
    split; [exact F2|]. split; [exact Hst|]. rewrite F3, Hws'. reflexivity.
  - intros q Hin. rewrite Hk, S1. exact (ph_toA st HP q Hin).
  - rewrite Hk, S1, Hws'. intros _. split; [exact Hws | exact Hem].
  - intros z. destruct z; cbn [net_get n_a n_b]; [rewrite Hk; exact Hnk' | exact (ph_noka st HP SB)].
  - exact (ph_delay st HP).
Qed.

(* ---- send / recv at a socket that is not ESTABLISHED ---- *)
Lemma hs_quiet st w ev0 e' :
  opts_ok st -> pre_hs st ->
  ((exists d, ev0 = EvSend d /\ w = SA) \/ (exists n, ev0 = EvRecv n)) ->
  s_state (net_sock st w) <> Established ->
  ep_step (net_get st w) ev0 = Ok e' -> pre_hs (net_set st w e').
Proof.
  intros Ho HP Hev Hns He.
  destruct (ep_step_spec _ _ _ He) as (s' & out & tags & Hs & Hk & Hcx & Hout & _ & Hwr & _ & _ & Hcl).
  destruct (Ho w) as (_ & Hka). unfold net_sock in Hka, Hns.
  assert (Hrun : run_ev ev0) by (destruct Hev as [(d & -> & _) | (n & ->)]; exact I).
  assert (Hq : (exists d, ev0 = EvSend d) \/ (exists n, ev0 = EvRecv n))
    by (destruct Hev as [(d & -> & _) | (n & ->)]; [left | right]; eexists; reflexivity).
  destruct (quiet_event _ _ _ _ _ _ Hq Hs) as (Hwo & Hqf).
  destruct (step_noka _ _ _ _ _ _ Hrun Hs Hka (ph_noka st HP w)) as (_ & Hnk').
  rewrite Hwo in Hout. cbn [opt_list] in Hout. rewrite app_nil_r in Hout.
  apply pre_quiet; try assumption.
  - rewrite Hk. exact Hqf.
  - rewrite Hk. exact Hnk'.
  - intros X. contradiction.
  - rewrite Hcl. destruct Hev as [(d & -> & _) | (n & ->)]; reflexivity.
  - intros ->. rewrite Hwr. destruct Hev as [(d & _ & X) | (n & ->)]; [discriminate|]. destruct out; reflexivity.
Qed.

(* ---- an event that leaves the socket as it is and transmits nothing ---- *)
Lemma hs_nothing st w ev0 e' :
  pre_hs st -> (forall d, ev0 <> EvSend d) -> ev0 <> EvClose ->
  ep_step (net_get st w) ev0 = Ok e' ->
  (forall s' out tags, tcp_step (ep_cx (net_get st w)) (ep_sock (net_get st w)) ev0 = Ok (s', out, tags) ->
     s' = ep_sock (net_get st w) /\ wire_out out = None) ->
  pre_hs (net_set st w e').
Proof.
  intros HP Hnsend Hncl He Hsame.
  destruct (ep_step_spec _ _ _ He) as (s' & out & tags & Hs & Hk & Hcx & Hout & _ & Hwr & _ & _ & Hcl).
  destruct (Hsame _ _ _ Hs) as (-> & Hwo).
  rewrite Hwo in Hout. cbn [opt_list] in Hout. rewrite app_nil_r in Hout.
  apply pre_quiet; try assumption.
  - rewrite Hk. apply qf_refl.
  - rewrite Hk. apply (ph_noka st HP w).
  - intros _. rewrite Hk. reflexivity.
  - rewrite Hcl. destruct ev0; try reflexivity. exfalso. apply Hncl. reflexivity.
  - intros _. rewrite Hwr. destruct ev0; try reflexivity. exfalso. apply (Hnsend data). reflexivity.
Qed.

(* ---- B in LISTEN receives A's SYN ---- *)
Lemma hs_B_listen_segment st p e' :
  NI st -> opts_ok st -> pre_hs st -> s_state (sb st) = Listen ->
  In p (chan_to st SB) ->
  ep_step (n_b st) (EvSegment (fst p) (wire_parse (snd p))) = Ok e' ->
  pre_hs (net_set st SB e') /\ s_state (ep_sock e') = SynReceived /\
  s_remote_last_seq (ep_sock e') = s_local_seq_no (ep_sock e').
Proof.
  intros HN Ho HP Hst Hin He.
  destruct (ep_step_spec _ _ _ He) as (s' & out & tags & Hs & Hk & Hcx & Hout & _ & Hwr & _ & _ & Hcl).
  destruct (ph_tup st HP) as (tA & T1 & T2 & T3 & T4 & T5 & T6 & T7 & T8).
  destruct (T5 Hst) as (L1 & L2 & L3).
  destruct (Ho SB) as (Hto & Hka).
  destruct (ph_phase st HP) as [(Hsa & _) | (_ & X)]; [|rewrite Hst in X; discriminate].
  destruct (ph_toB st HP p Hin) as [(Hc & Ha) | (_ & X & _)]; [|rewrite Hsa in X; discriminate].
  pose proof (step_noka _ _ (EvSegment (fst p) (wire_parse (snd p))) _ _ _ I Hs Hka (ph_noka st HP SB)) as (_ & Hnk').
  destruct (step_aux _ _ (EvSegment (fst p) (wire_parse (snd p))) _ _ _ I Hs) as ((Hdl & _) & _).
  destruct (T7 p Hin) as (D1 & D2 & D3 & D4). destruct T4 as (N1 & N2 & N3 & N4).
  unfold mirror in D1, D2, D3, D4. cbn [tu_local_addr tu_remote_addr tu_local_port tu_remote_port] in D1, D2, D3, D4.
  unfold net_sock in *. cbn [net_get] in *.
  cbn [tcp_step] in Hs. apply obind_ok in Hs. destruct Hs as (((s1 & rep) & tg) & Hi & Hs).
  inversion Hs; subst s1 out tags; clear Hs.
  assert (Hc' : r_control (wire_parse (snd p)) = CSyn) by (unfold wire_parse; cbn [r_control]; exact Hc).
  assert (Ha' : r_ack_number (wire_parse (snd p)) = None) by (unfold wire_parse; cbn [r_ack_number]; rewrite Ha; reflexivity).
  assert (Hacc : ((ip_src (fst p) =? 0) || (ip_dst (fst p) =? 0)) = false /\
                 ((r_src_port (wire_parse (snd p)) =? 0) || (r_dst_port (wire_parse (snd p)) =? 0)) = false /\
                 tcp_accepts (ep_sock (n_b st)) (fst p) (wire_parse (snd p)) = true).
  { unfold wire_parse at 1 2. cbn [r_src_port r_dst_port]. rewrite D1, D2, D3, D4.
    split; [apply orb_false_iff; split; apply Z.eqb_neq; assumption|].
    split; [apply orb_false_iff; split; apply Z.eqb_neq; assumption|].
    unfold tcp_accepts. rewrite Hst, L1, L2, Ha', Hc'. cbn [tcp_state_eqb is_some control_eqb orb andb].
    unfold wire_parse. cbn [r_dst_port]. rewrite D3, L3, Z.eqb_refl.
    apply Z.eqb_neq in N4. rewrite N4. reflexivity. }
  destruct Hacc as (A1 & A2 & A3).
  unfold iface_tcp_ingress in Hi. rewrite A1, A2, A3 in Hi.
  destruct (process_listen_syn _ _ (fst p) (wire_parse (snd p)) _ _ _ Hst Hc' Ha' Hi)
    as (P1 & P2 & P3 & P4 & P5 & P6 & P7 & P8 & -> & P10).
  assert (Htup : s_tuple s' = Some (mirror tA)).
  { rewrite P2. unfold wire_parse. cbn [r_src_port r_dst_port]. rewrite D1, D2, D3, D4. reflexivity. }
  cbn [wire_out opt_list] in Hout. rewrite app_nil_r in Hout.
  split; [|rewrite Hk; split; [exact P1 | rewrite P3, P4; reflexivity]].
  constructor; unfold net_sock, chan_to; cbn [net_set net_get side_other n_a n_b].
  - left. rewrite Hk. split; [exact Hsa | right; exact P1].
  - intros z. destruct z; cbn [net_get n_a n_b];
      [exact (ph_closed st HP SA) | rewrite Hcl; cbn [log_closed]; exact (ph_closed st HP SB)].
  - rewrite Hwr. cbn [log_written]. exact (ph_bwr st HP).
  - exists tA. rewrite Hk, Hcx, Hout.
    split; [exact T1|]. split; [exact T2|]. split; [exact T3|]. split; [repeat split; assumption|].
    split; [intros X; rewrite P1 in X; discriminate|]. split; [intros _; exact Htup|].
    split; [exact T7 | exact T8].
  - intros p0 Hp0. exact (ph_toB st HP p0 Hp0).
  - intros q Hq. rewrite Hout in Hq. destruct (ph_toA st HP q Hq) as (X & _).
    unfold net_sock in X. cbn [net_get] in X. rewrite Hst in X. discriminate.
  - rewrite Hsa. discriminate.
  - intros z. destruct z; cbn [net_get n_a n_b]; [exact (ph_noka st HP SA) | rewrite Hk; exact Hnk'].
  - rewrite Hk, Hdl. exact (ph_delay st HP).
Qed.

(* ---- B in LISTEN is polled: nothing ---- *)
Lemma hs_B_listen_dispatch st ok e' :
  pre_hs st -> s_state (sb st) = Listen ->
  ep_step (n_b st) (EvDispatch ok) = Ok e' -> pre_hs (net_set st SB e').
Proof.
  intros HP Hst He.
  apply (hs_nothing st SB (EvDispatch ok)); try assumption; try discriminate.
  intros s' out tags Hs. cbn [net_get] in Hs.
  destruct (ph_tup st HP) as (tA & _ & _ & _ & _ & T5 & _). destruct (T5 Hst) as (L1 & _).
  unfold net_sock in L1. cbn [net_get] in L1.
  cbn [tcp_step] in Hs. unfold tcp_dispatch in Hs. rewrite L1 in Hs. cbn [obind] in Hs.
  inversion Hs; subst. cbn [net_get]. split; reflexivity.
Qed.

(* ---- B in SYN-RECEIVED transmits (its SYN|ACK) ---- *)
Lemma hs_B_synrecv_dispatch st ok e' :
  NI st -> opts_ok st -> hs_view isn st -> pre_hs st -> s_state (sb st) = SynReceived ->
  ep_step (n_b st) (EvDispatch ok) = Ok e' -> pre_hs (net_set st SB e').
Proof.
  intros HN Ho HV HP Hst He.
  destruct (ep_step_spec _ _ _ He) as (s' & out & tags & Hs & Hk & Hcx & Hout & _ & Hwr & _ & _ & Hcl).
  destruct (ph_tup st HP) as (tA & T1 & T2 & T3 & T4 & T5 & T6 & T7 & T8).
  pose proof (T6 Hst) as Htb.
  destruct (Ho SB) as (Hto & Hka). pose proof (NI_live st SB HN) as Il.
  destruct (hv_bsyn _ _ HV Hst) as (Hwsb & _).
  pose proof (step_noka _ _ (EvDispatch ok) _ _ _ I Hs Hka (ph_noka st HP SB)) as (_ & Hnk').
  destruct (step_aux _ _ (EvDispatch ok) _ _ _ I Hs) as ((Hdl & _) & _).
  unfold net_sock in *. cbn [net_get] in *.
  cbn [tcp_step] in Hs. apply obind_ok in Hs. destruct Hs as (((s1 & res) & tg) & Hd & Hs).
  inversion Hs; subst s1 out tags; clear Hs.
  assert (Hhs : hs_state (s_state (ep_sock (n_b st)))) by (right; left; exact Hst).
  assert (Hla : tu_local_addr (mirror tA) = cx_addr (ep_cx (n_b st))) by (unfold mirror; cbn; exact T3).
  destruct (dispatch_keeps _ _ _ _ _ _ _ Il Hhs Hto Htb Hla Hd) as (K1 & K2 & K3 & _).
  destruct (dispatch_syn _ _ _ _ _ _ _ Il (or_intror Hst) Hto Htb Hla Hd) as (M1 & M2 & Hsh).
  assert (Hem' : emitted (ep_sock (n_b st)) -> emitted s').
  { intros (E1 & E2). split; [exact (M2 Hst E1) | exact (M1 E2)]. }
  constructor; unfold net_sock, chan_to; cbn [net_set net_get side_other n_a n_b].
  - rewrite Hk, K1. exact (ph_phase st HP).
  - intros z. destruct z; cbn [net_get n_a n_b];
      [exact (ph_closed st HP SA) | rewrite Hcl; cbn [log_closed]; exact (ph_closed st HP SB)].
  - rewrite Hwr. cbn [log_written]. exact (ph_bwr st HP).
  - exists tA. rewrite Hk, K1, K2, Hcx.
    split; [exact T1|]. split; [exact T2|]. split; [exact T3|]. split; [exact T4|].
    split; [intros X; rewrite Hst in X; discriminate|]. split; [reflexivity|]. split; [exact T7|].
    intros q Hin. rewrite Hout in Hin. apply in_app_or in Hin. destruct Hin as [Hin | Hin]; [exact (T8 q Hin)|].
    cbn [wire_out] in Hin. destruct res as [| q0 | q0]; try contradiction. destruct Hin as [<- | []].
    destruct (Hsh q0 eq_refl) as (A1 & A2 & A3 & A4 & _).
    pose proof (sent_from_to (mirror tA) q0 (conj A1 (conj A2 (conj A3 A4)))) as X. rewrite mirror_mirror in X. exact X.
  - intros p Hp. exact (ph_toB st HP p Hp).
  - intros q Hin. rewrite Hk, K1, K3. rewrite Hout in Hin.
    apply in_app_or in Hin. destruct Hin as [Hin | Hin].
    + destruct (ph_toA st HP q Hin) as (B1 & B2 & B3 & B4).
      split; [exact B1|]. split; [apply Hem'; exact B2|]. split; [exact B3 | exact B4].
    + cbn [wire_out] in Hin. destruct res as [| q0 | q0]; try contradiction. destruct Hin as [<- | []].
      destruct (Hsh q0 eq_refl) as (_ & _ & _ & _ & A5 & A6 & A7 & A8 & A9 & A10).
      split; [exact Hst|]. split; [split; [exact (A9 Hst) | exact A8]|]. split; [exact A10|]. left.
      split; [exact A5|]. rewrite Hst in A7. cbn [tcp_state_eqb] in A7. rewrite A7, Hwsb. auto.
  - rewrite Hk, K3. intros Hsa. destruct (ph_ws st HP Hsa) as (W1 & W2). split; [exact W1 | apply Hem'; exact W2].
  - intros z. destruct z; cbn [net_get n_a n_b]; [exact (ph_noka st HP SA) | rewrite Hk; exact Hnk'].
  - rewrite Hk, Hdl. exact (ph_delay st HP).
Qed.

(* ---- B in SYN-RECEIVED receives a segment of A ---- *)
Lemma hs_B_synrecv_segment st p e' :
  NI st -> opts_ok st -> hs_view isn st -> pre_hs st -> s_state (sb st) = SynReceived ->
  In p (chan_to st SB) ->
  ep_step (n_b st) (EvSegment (fst p) (wire_parse (snd p))) = Ok e' ->
  hs_view isn (net_set st SB e') -> inv_at SA (net_set st SB e') ->
  pre_hs (net_set st SB e') \/ reg SA Dack (net_set st SB e').
Proof.
  intros HN Ho HV HP Hst Hin He HV' HI'.
  destruct (ph_tup st HP) as (tA & T1 & T2 & T3 & T4 & T5 & T6 & T7 & T8).
  pose proof (T6 Hst) as Htb.
  pose proof (mirror_nz _ T4) as Hnzm.
  assert (Hacc : ((ip_src (fst p) =? 0) || (ip_dst (fst p) =? 0)) = false /\
                 ((r_src_port (wire_parse (snd p)) =? 0) || (r_dst_port (wire_parse (snd p)) =? 0)) = false /\
                 tcp_accepts (sb st) (fst p) (wire_parse (snd p)) = true).
  { apply (accepts_of_sent_to_gen _ (mirror tA)); try assumption.
    - rewrite Hst; discriminate. - rewrite Hst; discriminate. - apply sent_to_parse. exact (T7 p Hin). }
  destruct Hacc as (A1 & A2 & A3).
  destruct (ph_toB st HP p Hin) as [(Hc & Ha) | (Hc & Hsa & Ha)].
  { (* an old SYN: dropped *)
    left. apply (hs_nothing st SB (EvSegment (fst p) (wire_parse (snd p)))); try assumption; try discriminate.
    intros s' out tags Hs. cbn [net_get] in Hs |- *. unfold net_sock in *. cbn [net_get] in *.
    cbn [tcp_step] in Hs. apply obind_ok in Hs. destruct Hs as (((s1 & rep) & tg) & Hi & Hs).
    inversion Hs; subst s1 out tags; clear Hs.
    unfold iface_tcp_ingress in Hi. rewrite A1, A2, A3 in Hi.
    assert (N1 : s_state (ep_sock (n_b st)) <> Listen) by (rewrite Hst; discriminate).
    assert (N2 : s_state (ep_sock (n_b st)) <> SynSent) by (rewrite Hst; discriminate).
    assert (Hc' : r_control (wire_parse (snd p)) = CSyn) by (unfold wire_parse; cbn [r_control]; exact Hc).
    assert (Ha' : r_ack_number (wire_parse (snd p)) = None)
      by (unfold wire_parse; cbn [r_ack_number]; rewrite Ha; reflexivity).
    destruct (process_syn_dropped _ _ (fst p) (wire_parse (snd p)) _ _ _ N1 N2 Hc' Ha' Hi) as (-> & ->).
    split; reflexivity. }
  (* a segment of the ESTABLISHED A *)
  destruct (ep_step_spec _ _ _ He) as (s' & out & tags & Hs & Hk & Hcx & Hout & _ & Hwr & _ & _ & Hcl).
  destruct (Ho SB) as (Hto & Hka).
  destruct (ph_ws st HP Hsa) as (Hws & Hem).
  pose proof (step_noka _ _ (EvSegment (fst p) (wire_parse (snd p))) _ _ _ I Hs Hka (ph_noka st HP SB)) as (_ & Hnk').
  destruct (step_aux _ _ (EvSegment (fst p) (wire_parse (snd p))) _ _ _ I Hs) as ((Hdl & _) & _).
  unfold net_sock in *. cbn [net_get] in *.
  cbn [tcp_step] in Hs. apply obind_ok in Hs. destruct Hs as (((s1 & rep) & tg) & Hi & Hs).
  inversion Hs; subst s1 out tags; clear Hs.
  unfold iface_tcp_ingress in Hi. rewrite A1, A2, A3 in Hi.
  assert (Hc' : r_control (wire_parse (snd p)) = CNone \/ r_control (wire_parse (snd p)) = CPsh)
    by (unfold wire_parse; cbn [r_control]; exact Hc).
  assert (Hack : r_ack_number (wire_parse (snd p)) = Some (seq_add (s_local_seq_no (ep_sock (n_b st))) 1)).
  { unfold wire_parse. cbn [r_ack_number]. rewrite Ha, Hws, seq_norm_seq_add. reflexivity. }
  destruct (process_synrecv_ack _ _ (fst p) (wire_parse (snd p)) _ _ _ Hst Hc' Hack Hi)
    as (B1 & B2 & B3 & B4 & B5 & B6).
  assert (Hem' : emitted s').
  { destruct Hem as (E1 & E2). split; [exact (B3 E1) | rewrite B4; exact E2]. }
  (* the reply, if any, goes to A *)
  assert (Hrep : forall q0, In q0 (opt_list (wire_out (OReply rep))) ->
            sent_to tA (fst q0) (snd q0) /\ r_control (snd q0) = CNone /\ r_payload (snd q0) = [] /\
            r_seq_number (snd q0) = tcp_send_next_seq s').
  { intros q0 Hq0. cbn [wire_out] in Hq0. destruct rep as [q1|]; [|contradiction]. destruct Hq0 as [<- | []].
    destruct B6 as ((R1 & R2 & R3 & R4) & (S1 & S2 & S3 & _)).
    destruct (T7 p Hin) as (D1 & D2 & D3 & D4).
    unfold mirror in D1, D2, D3, D4. cbn [tu_local_addr tu_remote_addr tu_local_port tu_remote_port] in D1, D2, D3, D4.
    unfold wire_parse in R3, R4. cbn [r_src_port r_dst_port] in R3, R4.
    split; [unfold sent_to; rewrite R1, R2, R3, R4; auto|]. auto. }
  destruct B5 as [(Est' & Hlsn' & _) | (Est' & Hlsn')].
  - (* B stays in SYN-RECEIVED *)
    left.
    assert (Hnx : tcp_send_next_seq s' = seq_add (s_local_seq_no s') 1).
    { pose proof (hv_bsyn _ _ HV') as X. unfold net_sock in X. cbn [net_set net_get n_a n_b] in X. rewrite Hk in X.
      destruct (X Est') as (_ & X2). apply X2. apply Hem'. }
    constructor; unfold net_sock, chan_to; cbn [net_set net_get side_other n_a n_b].
    + right. rewrite Hk. split; [exact Hsa | exact Est'].
    + intros z. destruct z; cbn [net_get n_a n_b];
        [exact (ph_closed st HP SA) | rewrite Hcl; cbn [log_closed]; exact (ph_closed st HP SB)].
    + rewrite Hwr. cbn [log_written]. exact (ph_bwr st HP).
    + exists tA. rewrite Hk, Est', B1, Hcx.
      split; [exact T1|]. split; [exact T2|]. split; [exact T3|]. split; [exact T4|].
      split; [intros X; discriminate|]. split; [intros _; exact Htb|]. split; [exact T7|].
      intros q Hq. rewrite Hout in Hq. apply in_app_or in Hq. destruct Hq as [Hq | Hq]; [exact (T8 q Hq)|].
      exact (proj1 (Hrep q Hq)).
    + intros p0 Hp0. exact (ph_toB st HP p0 Hp0).
    + intros q Hq. rewrite Hk, Est', Hlsn'. rewrite Hout in Hq. apply in_app_or in Hq. destruct Hq as [Hq | Hq].
      * destruct (ph_toA st HP q Hq) as (_ & _ & C3 & C4). split; [reflexivity|]. split; [exact Hem'|]. split; [exact C3 | exact C4].
      * destruct (Hrep q Hq) as (_ & R2 & R3 & R4). split; [reflexivity|]. split; [exact Hem'|]. split; [exact R3|].
        right. split; [exact R2|]. split; [rewrite R4, Hnx, Hlsn'; reflexivity | exact Hsa].
    + rewrite Hk, Hlsn'. intros _. split; [exact Hws | exact Hem'].
    + intros z. destruct z; cbn [net_get n_a n_b]; [exact (ph_noka st HP SA) | rewrite Hk; exact Hnk'].
    + rewrite Hk, Hdl. exact (ph_delay st HP).
  - (* B becomes ESTABLISHED: the regime invariant *)
    right.
    set (st' := net_set st SB e') in *.
    assert (Gsa : net_sock st' SA = ep_sock (n_a st)) by reflexivity.
    assert (Gsb : net_sock st' SB = s') by (unfold st', net_sock; cbn [net_set net_get n_b]; exact Hk).
    assert (Hcl' : forall z, ep_closed (net_get st' z) = false).
    { intros z. destruct z; unfold st'; cbn [net_set net_get n_a n_b];
        [exact (ph_closed st HP SA) | rewrite Hcl; cbn [log_closed]; exact (ph_closed st HP SB)]. }
    assert (Hbw' : ep_written (net_get st' SB) = []).
    { unfold st'. cbn [net_set net_get n_b]. rewrite Hwr. cbn [log_written]. exact (ph_bwr st HP). }
    assert (Hest' : forall z, s_state (net_sock st' z) = Established).
    { intros z. destruct z; [rewrite Gsa; exact Hsa | rewrite Gsb; exact Est']. }
    assert (PF : exists gx gy, pair_facts (net_get st' SA) (net_get st' SB) gx gy).
    { destruct HI' as (Sx & Sy & gx & gy & HEx & HEy & Dxy & Dyx & _).
      exists gx, gy.
      apply (pair_all Sx Sy); [exact HEx | exact HEy | exact Dxy | exact Dyx | exact (Hest' SA) | exact (Hest' SB)
                              | exact (Hcl' SA) | exact (Hcl' SB) | exact Hbw']. }
    destruct PF as (gx & gy & PF).
    destruct (pf_yseq _ _ _ _ PF) as (Y1 & _ & Y3).
    change (ep_sock (net_get st' SB)) with (net_sock st' SB) in Y1, Y3. rewrite Gsb in Y1, Y3.
    change (ep_sock (net_get st' SA)) with (net_sock st' SA) in Y1. rewrite Gsa in Y1.
    assert (Echa : chan_to st' SA = chan_to st SA ++ opt_list (wire_out (OReply rep)))
      by (unfold st', chan_to; cbn [net_set net_get side_other n_b]; exact Hout).
    assert (Echb : chan_to st' SB = chan_to st SB) by reflexivity.
    constructor.
    + exact Hest'.
    + exact Hcl'.
    + exact Hbw'.
    + intros z. destruct z.
      * exists tA. unfold tup_ok. cbn [side_other]. rewrite Gsa, Gsb, B1.
        split; [exact T1|]. split; [exact Htb|]. split; [exact T2 | exact T4].
      * exists (mirror tA). unfold tup_ok. cbn [side_other]. rewrite Gsa, Gsb, B1, mirror_mirror.
        split; [exact Htb|]. split; [exact T1|]. split; [|exact Hnzm].
        unfold st'. cbn [net_set net_get n_b]. rewrite Hcx. unfold mirror. cbn. exact T3.
    + intros z p0 t Hp0 Ht. destruct z.
      * rewrite Gsa, T1 in Ht. inversion Ht; subst t. rewrite Echa in Hp0.
        apply in_app_or in Hp0. destruct Hp0 as [Hp0 | Hp0].
        -- split; [exact (T8 p0 Hp0)|]. destruct (ph_toA st HP p0 Hp0) as (_ & _ & _ & [(X & _) | (X & _)]); rewrite X; discriminate.
        -- destruct (Hrep p0 Hp0) as (R1 & R2 & _). split; [exact R1 | rewrite R2; discriminate].
      * rewrite Gsb, B1, Htb in Ht. inversion Ht; subst t. rewrite Echb in Hp0.
        split; [exact (T7 p0 Hp0)|].
        destruct (ph_toB st HP p0 Hp0) as [(X & _) | ([X | X] & _)]; rewrite X; discriminate.
    + intros p0 Hp0. cbn [side_other] in Hp0. rewrite Echb in Hp0.
      destruct (ph_toB st HP p0 Hp0) as [X | ([X | X] & _ & Y)]; [left; exact X | right | right];
        (split; [rewrite X; discriminate | rewrite Y; discriminate]).
    + intros q Hq. rewrite Gsa. rewrite Echa in Hq. apply in_app_or in Hq. destruct Hq as [Hq | Hq].
      * destruct (ph_toA st HP q Hq) as (_ & _ & C3 & [(X & _) | (X & Y & _)]); [left; exact X | right].
        split; [exact X|]. split; [exact C3|]. rewrite Y, Hws. reflexivity.
      * destruct (Hrep q Hq) as (_ & R2 & R3 & R4). right. split; [exact R2|]. split; [exact R3|].
        rewrite R4, Y3, <- Y1. reflexivity.
    + cbn [side_other]. rewrite Gsb. apply Hem'.
    + intros z. destruct z; [rewrite Gsa; exact (ph_noka st HP SA) | rewrite Gsb; exact Hnk'].
    + cbn [side_other]. rewrite Gsb, Hdl. exact (ph_delay st HP).
Qed.

(* ---------------------------------------------------------------------------------------- *)
(* one step of the system before both sockets are ESTABLISHED                                 *)
(* ---------------------------------------------------------------------------------------- *)
Theorem hs_step st ev st' :
  NI st -> opts_ok st -> hs_view isn st -> pre_hs st ->
  script_ev SA ev -> net_step st ev = Ok st' ->
  hs_view isn st' -> inv_at SA st' ->
  pre_hs st' \/ reg SA Dack st'.
Proof.
  intros HN Ho HV HP Hsc H HV' HI'.
  destruct (net_step_kind _ _ _ H) as [w ev0 e' Hse He -> | to i -> _ -> | d -> -> | w isn0 ts -> -> | to i Hd].
  2:{ left. exact HP. }
  2:{ left. apply (pre_ext st); [|exact HP]. intros z. destruct z; cbn; repeat split; try reflexivity; apply incl_refl. }
  2:{ left. apply (pre_ext st); [|exact HP]. intros z.
      destruct (side_cases w z) as [-> | ->]; [rewrite net_get_set_same | rewrite net_get_set_other];
        cbn; repeat split; try reflexivity; apply incl_refl. }
  2:{ left. apply (pre_ext st); [|exact HP]. apply (drop_same st to i). destruct Hd as [-> | ->]; [left | right]; exact H. }
  destruct w.
  - (* an event of A *)
    destruct (ph_phase st HP) as [(Hsa & _) | (Hsa & _)].
    + (* SYN-SENT *)
      left. destruct ev as [to i | to i | to i | d | z i1 t1 | z ok | z data | z n | z]; cbn [sock_event script_ev] in *; try contradiction.
      * destruct Hse as (_ & q & Hn & ->). exact (proj1 (hs_A_synsent_segment st q e' HN Ho HV HP Hsa (nth_error_In _ _ Hn) He)).
      * destruct Hse as (_ & ->). exact (hs_A_synsent_dispatch st ok e' HN Ho HP Hsa He).
      * destruct Hse as (_ & ->). apply (hs_quiet st SA (EvSend data)); try assumption.
        -- left. exists data. auto.
        -- rewrite Hsa. discriminate.
      * destruct Hse as (_ & ->). apply (hs_quiet st SA (EvRecv (Z.max 0 n))); try assumption.
        -- right. eexists. reflexivity.
        -- rewrite Hsa. discriminate.
    + (* ESTABLISHED *)
      left. exact (proj1 (hs_A_est st ev ev0 e' HN Ho HV HP Hsa Hsc Hse He)).
  - (* an event of B *)
    assert (Hsb : s_state (sb st) = Listen \/ s_state (sb st) = SynReceived).
    { destruct (ph_phase st HP) as [(_ & X) | (_ & X)]; [exact X | right; exact X]. }
    destruct ev as [to i | to i | to i | d | z i1 t1 | z ok | z data | z n | z]; cbn [sock_event script_ev] in *; try contradiction.
    + destruct Hse as (_ & p & Hn & ->). pose proof (nth_error_In _ _ Hn) as Hin.
      destruct Hsb as [Hsb | Hsb].
      * left. exact (proj1 (hs_B_listen_segment st p e' HN Ho HP Hsb Hin He)).
      * exact (hs_B_synrecv_segment st p e' HN Ho HV HP Hsb Hin He HV' HI').
    + destruct Hse as (_ & ->). left. destruct Hsb as [Hsb | Hsb].
      * exact (hs_B_listen_dispatch st ok e' HP Hsb He).
      * exact (hs_B_synrecv_dispatch st ok e' HN Ho HV HP Hsb He).
    + destruct Hse as (E & _). subst z. discriminate.
    + destruct Hse as (_ & ->). left. apply (hs_quiet st SB (EvRecv (Z.max 0 n))); try assumption.
      * right. eexists. reflexivity.
      * destruct Hsb as [X | X]; rewrite X; discriminate.
Qed.

End Hs.
