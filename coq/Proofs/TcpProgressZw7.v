(* C02 (liveness half): WHEN THE WRITER STOPS, EVERYTHING WRITTEN IS ACKNOWLEDGED AND READ, zero windows
   included - the rounds of Proofs/TcpProgressZw4.v once more, with the measure
   (written - SND.UNA) + (written - read) and no further send: on every reliable run on which the safety facts
   hold, before the clock has advanced by n * Wz the run passes through a state in which x's transmit queue is
   empty (SND.UNA = everything written) and y's application has read everything. *)
From SV Require Import Lib.Base Gen.Consts.
From SV Require Import Model.Seq32 Model.Assembler Model.TcpBuf Model.TcpTypes Model.Tcp Model.TcpNet.
From SV Require Import Proofs.TcpSendBase Proofs.TcpLiveBase Proofs.TcpLiveProofs Proofs.TcpLiveMore
  Proofs.TcpLiveProgress.
From SV Require Import Proofs.TcpNetBase.
From SV Require Proofs.TcpRecvBase Proofs.TcpRecvWindow Proofs.TcpRecvInv Proofs.TcpRecvProcess Proofs.TcpRecvDispatch.
From SV Require Import Proofs.TcpProgressBase Proofs.TcpProgressFrame Proofs.TcpProgressRecv
  Proofs.TcpProgressSend Proofs.TcpProgressNet Proofs.TcpProgressData Proofs.TcpProgressAck Proofs.TcpProgressAll
  Proofs.TcpProgressZwp Proofs.TcpProgressExample Proofs.TcpProgressWitness Proofs.TcpProgressZwDup
  Proofs.TcpProgressZw1 Proofs.TcpProgressZw1b Proofs.TcpProgressZw2 Proofs.TcpProgressZw4.

(* the applications write nothing (any more) *)
Definition nosend (ev : net_event) : Prop := match ev with NSend _ _ => False | _ => True end.

Lemma written_nosend st ev st' z :
  net_step st ev = Ok st' -> nosend ev -> ep_written (net_get st' z) = ep_written (net_get st z).
Proof.
  intros H Hn.
  destruct (net_step_kind _ _ _ H) as [w ev0 e' Hse He -> | to i -> _ -> | d -> -> | w isn ts -> -> | to i Hd].
  - destruct (side_cases w z) as [-> | ->]; [|rewrite net_get_set_other; reflexivity].
    rewrite net_get_set_same.
    destruct (ep_step_spec _ _ _ He) as (s' & out & tags & _ & _ & _ & _ & _ & Hw & _). rewrite Hw.
    destruct ev; cbn [sock_event nosend] in *; try contradiction.
    + destruct Hse as (_ & p & _ & ->). reflexivity.
    + destruct Hse as (_ & ->). reflexivity.
    + destruct Hse as (_ & ->). reflexivity.
    + destruct Hse as (_ & ->). reflexivity.
  - reflexivity.
  - destruct z; reflexivity.
  - destruct (side_cases w z) as [-> | ->]; [rewrite net_get_set_same | rewrite net_get_set_other]; reflexivity.
  - unfold net_step in H. destruct Hd as [-> | ->]; inversion H; subst;
      destruct (side_cases (side_other to) z) as [E | E]; rewrite E;
      rewrite ?net_get_set_same, ?net_get_set_other; reflexivity.
Qed.

Lemma written_run_nosend : forall evs st st' z,
  net_run st evs = Ok st' -> Forall nosend evs -> ep_written (net_get st' z) = ep_written (net_get st z).
Proof.
  induction evs as [|ev r IH]; intros st st' z H HF; cbn [net_run] in H.
  - inversion H; subst. reflexivity.
  - apply obind_ok in H. destruct H as (st1 & Hs & Hr). inversion HF as [|? ? H0 H1]; subst.
    rewrite (IH _ _ z Hr H1). exact (written_nosend _ _ _ z Hs H0).
Qed.

Section Acked.
Variable x : side.
Notation y := (side_other x).
Variables Dt Da Dack : Z.

Lemma zsafe_bounds st :
  NI st -> zsafe x st ->
  una_off (net_get st x) <= l_len (ep_written (net_get st x)) /\
  read_off (net_get st y) <= rcv_off (net_get st y) <= l_len (ep_written (net_get st x)).
Proof.
  intros HN HZ. destruct (zs_cross x st HZ) as (_ & Hk0 & Hk1).
  pose proof (NI_live st x HN) as Il. pose proof (li_tx _ Il) as ((Hl0 & _) & _).
  destruct (zs_rcv x st HZ) as (_ & _ & ((Hr0 & _) & _) & _).
  unfold una_off, read_off, rcv_off, net_sock in *.
  destruct (s_rx_fin_received (ep_sock (net_get st y))); cbn [b2z] in *; lia.
Qed.

Theorem all_written_bytes_eventually_acked_zw : forall n evs fa st st' L,
  0 <= Dt -> 0 <= Da ->
  NI st -> opts_ok st -> dl_sync Da fa st -> dlb Dt fa st ->
  run_all (zsafe2 x Dack) st evs -> fair_run Dt Da fa st evs -> once_run Dt Da fa st evs -> net_run st evs = Ok st' ->
  Forall nosend evs -> l_len (ep_written (net_get st x)) = L ->
  (L - una_off (net_get st x)) + (L - read_off (net_get st y)) <= Z.of_nat n ->
  net_now st x + Z.of_nat n * Wz Dt Da < net_now st' x ->
  exists pre post st1, evs = pre ++ post /\ net_run st pre = Ok st1 /\ net_run st1 post = Ok st' /\
                       una_off (net_get st1 x) = L /\ read_off (net_get st1 y) = L /\
                       net_now st1 x <= net_now st x + Z.of_nat n * Wz Dt Da.
Proof.
  intros n. induction n as [|n IH]; intros evs fa st st' L HDt HDa HN Ho Hsy Hb HRun Hfair Honce Hrun HF HL Hn Hlate.
  - pose proof (run_all_here _ _ _ HRun) as (HZ & _). destruct (zsafe_bounds st HN HZ) as (B1 & B2 & B3).
    exists [], evs, st. split; [reflexivity|]. split; [reflexivity|]. split; [exact Hrun|]. cbn [Z.of_nat]. lia.
  - pose proof (run_all_here _ _ _ HRun) as (HZ & HM). destruct (zsafe_bounds st HN HZ) as (B1 & B2 & B3).
    destruct (Z.eq_dec (una_off (net_get st x)) L) as [Eu | Nu];
      [destruct (Z.eq_dec (read_off (net_get st y)) L) as [Er | Nr]|].
    { exists [], evs, st. split; [reflexivity|]. split; [reflexivity|]. split; [exact Hrun|]. split; [assumption|]. split; [assumption|].
      pose proof max_rto_us_pos as Hmr. assert (HW : 0 <= Wz Dt Da) by (unfold Wz; lia). nia. }
    all: pose proof max_rto_us_pos as Hmr; assert (HW : 0 <= Wz Dt Da) by (unfold Wz; lia);
      assert (Hlate1 : net_now st x + Wz Dt Da < net_now st' x) by (rewrite Nat2Z.inj_succ in Hlate; nia).
    all: assert (Hrnd : exists pre post fa1 st1,
              evs = pre ++ post /\ net_run st pre = Ok st1 /\ net_run st1 post = Ok st' /\
              run_all (zsafe2 x Dack) st1 post /\ fair_run Dt Da fa1 st1 post /\ once_run Dt Da fa1 st1 post /\
              NI st1 /\ opts_ok st1 /\ dl_sync Da fa1 st1 /\ dlb Dt fa1 st1 /\
              (read_off (net_get st y) < read_off (net_get st1 y) \/
               una_off (net_get st x) < una_off (net_get st1 x)) /\
              net_now st1 x <= net_now st x + Wz Dt Da).
    all: try
    (destruct (Z_lt_le_dec (read_off (net_get st y)) (rcv_off (net_get st y))) as [Hne | Hemp];
     [ pose proof (net_run_skew2 _ _ _ y x Hrun) as Hsk;
       destruct (zround_read x Dt Da Dack evs fa st st' _ HDt HDa HN Ho Hsy Hb HRun Hfair Honce Hrun eq_refl Hne
                   ltac:(unfold Wz in Hlate1; lia))
         as (pre & post & fa1 & st1 & E & Hp1 & Hp2 & HR1 & Hf1 & Ho1 & HN1 & Hoo1 & Hsy1 & Hb1 & HQ & Hclk);
       exists pre, post, fa1, st1; repeat (split; [assumption|]); split; [left; exact HQ|];
       pose proof (net_run_skew2 _ _ _ y x Hp1) as Hsk1; unfold Wz; lia
     | assert (Hl : 0 < txl x st)
         by (destruct (zs_cross x st HZ) as (_ & Hk0 & Hk1); unfold txl, una_off, net_sock in *; lia);
       destruct (zround x Dt Da Dack evs fa st st' _ _ HDt HDa HN Ho Hsy Hb HRun Hfair Honce Hrun eq_refl eq_refl (or_introl Hl) Hlate1)
         as (pre & post & fa1 & st1 & E & Hp1 & Hp2 & HR1 & Hf1 & Ho1 & HN1 & Hoo1 & Hsy1 & Hb1 & HG & Hclk);
       exists pre, post, fa1, st1; repeat (split; [assumption|]); split; [|exact Hclk];
       destruct HG as [X | X]; [right; exact X | left; exact X] ]).
    all: destruct Hrnd as (pre & post & fa1 & st1 & -> & Hp1 & Hp2 & HR1 & Hf1 & Ho1 & HN1 & Hoo1 & Hsy1 & Hb1 & HG & Hclk).
    all: pose proof (una_prefix_mono x Dt Da pre post fa st st1 HN Ho (run_all_zs x Dack _ _ HRun) Hfair Hp1) as Hum.
    all: assert (Hrm : read_off (net_get st y) <= read_off (net_get st1 y))
      by (destruct (net_run_mono _ _ _ Hp1 y) as (_ & Hr & _); apply TcpNetCompose_l_len_prefix in Hr; exact Hr).
    all: apply Forall_app in HF; destruct HF as (HFa & HFb).
    all: assert (HL1 : l_len (ep_written (net_get st1 x)) = L) by (rewrite (written_run_nosend _ _ _ x Hp1 HFa); exact HL).
    all: assert (Hn1 : (L - una_off (net_get st1 x)) + (L - read_off (net_get st1 y)) <= Z.of_nat n)
      by (rewrite Nat2Z.inj_succ in Hn; destruct HG as [X | X]; lia).
    all: assert (Hlate2 : net_now st1 x + Z.of_nat n * Wz Dt Da < net_now st' x) by (rewrite Nat2Z.inj_succ in Hlate; nia).
    all: destruct (IH post fa1 st1 st' L HDt HDa HN1 Hoo1 Hsy1 Hb1 HR1 Hf1 Ho1 Hp2 HFb HL1 Hn1 Hlate2)
      as (pre2 & post2 & st2 & -> & Hq1 & Hq2 & HU1 & HU2 & HU3);
      exists (pre ++ pre2), post2, st2; (split; [rewrite app_assoc; reflexivity|]);
      (split; [eapply net_run_app; eassumption|]); (split; [assumption|]); (split; [assumption|]); (split; [assumption|]);
      rewrite Nat2Z.inj_succ; nia.
Qed.

End Acked.
