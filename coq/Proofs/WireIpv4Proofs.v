(* Lemmas about Model/WireIpv4.v (properties C06, C07). *)
From SV Require Import Lib.Base Gen.WireFields Model.WireBase Model.WireIpv4 Proofs.WireBaseProofs.

Section Checksum.
Variable sum_ok : list Z -> bool.
Variable sum_fill : list Z -> Z.

(* the 20 octets emit produces, with checksum field [ck] *)
Definition ipv4_hdr (r : ipv4_repr) (ck : Z) : list Z :=
  [69; 0] ++ be_enc2 (ipv4_HEADER_LEN + ipv4_payload_len r) ++ [0; 0; 64; 0; ipv4_hop_limit r; ipv4_proto r] ++
  be_enc2 ck ++ ipv4_src r ++ ipv4_dst r.

Definition ipv4_ck (tx : bool) (r : ipv4_repr) : Z :=
  if tx then sum_fill (ipv4_hdr r 0) else 0.

Definition ipv4_bytes (tx : bool) (r : ipv4_repr) : list Z := ipv4_hdr r (ipv4_ck tx r).

(* link to C08: a filled-in header checksum verifies, and is a u16 *)
Definition ipv4_cksum_link : Prop :=
  (forall d, 0 <= sum_fill d < 65536) /\
  (forall r, ipv4_wf r = true -> sum_ok (ipv4_bytes true r) = true).

Lemma ipv4_wf_inv r : ipv4_wf r = true ->
  length (ipv4_src r) = 4%nat /\ length (ipv4_dst r) = 4%nat /\
  bytes_ok (ipv4_src r) = true /\ bytes_ok (ipv4_dst r) = true /\
  0 <= ipv4_proto r < 256 /\ 0 <= ipv4_hop_limit r < 256 /\
  0 <= ipv4_payload_len r /\ 20 + ipv4_payload_len r <= 65535.
Proof.
  unfold ipv4_wf, ipv4_HEADER_LEN. intros H. bsplit. zfold_in H0.
  repeat split; try lia; try assumption; apply blen_length; assumption.
Qed.

Lemma ipv4_hdr_len r ck : ipv4_wf r = true -> blen (ipv4_hdr r ck) = 20.
Proof.
  intros Hwf. apply ipv4_wf_inv in Hwf. destruct Hwf as (H1 & H2 & _).
  unfold ipv4_hdr, blen. rewrite !app_length, H1, H2. reflexivity.
Qed.

(* emit into a buffer whose first 20 octets are the header space: the header is written, the
   rest is left untouched *)
Lemma ipv4_emit_tail tx r h t : ipv4_wf r = true -> blen h = ipv4_buffer_len r ->
  ipv4_emit sum_fill tx r (h ++ t) = Ok (ipv4_bytes tx r ++ t).
Proof.
  intros Hwf Hb. apply ipv4_wf_inv in Hwf. destruct Hwf as (H1 & H2 & _ & _ & _ & _ & Hp0 & Hp).
  unfold ipv4_buffer_len in Hb. zfold_in Hb. apply (blen_length _ 20) in Hb.
  destruct r as [s d p pl h']; cbn [ipv4_src ipv4_dst ipv4_hop_limit ipv4_proto ipv4_payload_len] in *.
  cells Hb. cells H1. cells H2.
  unfold ipv4_bytes, ipv4_ck, ipv4_hdr, ipv4_HEADER_LEN.
  cbn [ipv4_src ipv4_dst ipv4_hop_limit ipv4_proto ipv4_payload_len]. zfold.
  unfold ipv4_emit, ipv4_set_version, ipv4_set_header_len, ipv4_set_dscp, ipv4_set_ecn.
  cbn [ipv4_src ipv4_dst ipv4_hop_limit ipv4_proto ipv4_payload_len].
  hstep. hstep. hstep. hstep. bits_norm.
  unfold ipv4_header_len. hstep. zfold.
  rewrite (Z.mod_small pl) by lia.
  unfold wb_assert. zbool. cbn [obind].
  unfold ipv4_set_total_len, ipv4_set_ident, ipv4_clear_flags, ipv4_set_more_frags, ipv4_set_dont_frag,
    ipv4_set_frag_offset, ipv4_set_hop_limit, ipv4_set_next_header, ipv4_set_src_addr, ipv4_set_dst_addr,
    wb_put_u16, wb_set_field.
  remember (20 + pl) as L.
  do 6 (hstep; rewrite ?be_dec_cells2_land).
  bits_norm.
  hstep. hstep. hstep. hstep.
  destruct tx.
  - unfold ipv4_fill_checksum, ipv4_set_checksum, ipv4_header_len, wb_put_u16. hstep. hstep. zfold. hstep.
    hstep. reflexivity.
  - unfold ipv4_set_checksum, wb_put_u16. hstep. reflexivity.
Qed.

Lemma ipv4_emit_spec tx r b : ipv4_wf r = true -> blen b = ipv4_buffer_len r ->
  ipv4_emit sum_fill tx r b = Ok (ipv4_bytes tx r).
Proof.
  intros Hwf Hb. rewrite <- (app_nil_r b). rewrite ipv4_emit_tail by assumption.
  rewrite app_nil_r. reflexivity.
Qed.

Lemma ipv4_emit_frame tx r h t : ipv4_wf r = true -> blen h = ipv4_buffer_len r ->
  ipv4_emit sum_fill tx r (h ++ t) = omap (fun x => x ++ t) (ipv4_emit sum_fill tx r h).
Proof.
  intros Hwf Hb. rewrite ipv4_emit_tail, ipv4_emit_spec by assumption. reflexivity.
Qed.

Lemma ipv4_bytes_len tx r : ipv4_wf r = true -> blen (ipv4_bytes tx r) = ipv4_buffer_len r.
Proof. intros; unfold ipv4_bytes; rewrite ipv4_hdr_len by assumption; reflexivity. Qed.

Lemma ipv4_emit_no_panic tx r b : ipv4_wf r = true -> blen b = ipv4_buffer_len r ->
  ipv4_emit sum_fill tx r b <> Panic.
Proof. intros; rewrite ipv4_emit_spec by assumption; discriminate. Qed.

Lemma ipv4_emit_ignores_old_bytes tx r b1 b2 : ipv4_wf r = true ->
  blen b1 = ipv4_buffer_len r -> blen b2 = ipv4_buffer_len r ->
  ipv4_emit sum_fill tx r b1 = ipv4_emit sum_fill tx r b2.
Proof. intros; rewrite !ipv4_emit_spec by assumption; reflexivity. Qed.

Lemma ipv4_ck_range tx r : (forall d, 0 <= sum_fill d < 65536) -> 0 <= ipv4_ck tx r < 65536.
Proof. intros Hr. unfold ipv4_ck. destruct tx; [apply Hr | lia]. Qed.

Lemma ipv4_parse_bytes tx rx r payload : ipv4_cksum_link -> ipv4_wf r = true ->
  (rx = true -> tx = true) -> blen payload = ipv4_payload_len r ->
  ipv4_parse sum_ok rx (ipv4_bytes tx r ++ payload) = Ok r /\
  ipv4_payload (ipv4_bytes tx r ++ payload) = Ok payload.
Proof.
  intros (Hrange & Hlink) Hwf Hmode Hpl.
  assert (Hok : rx = true -> sum_ok (ipv4_bytes tx r) = true).
  { intros Hrx. rewrite (Hmode Hrx). apply Hlink; assumption. }
  pose proof (ipv4_ck_range tx r Hrange) as Hck. clear Hlink Hmode.
  apply ipv4_wf_inv in Hwf. destruct Hwf as (H1 & H2 & _ & _ & Hpr & Hh & Hp0 & Hp).
  destruct r as [s d p pl h]; cbn [ipv4_src ipv4_dst ipv4_hop_limit ipv4_proto ipv4_payload_len] in *.
  revert Hpl. cells H1. cells H2. intros Hpl.
  revert Hok Hck. unfold ipv4_bytes, ipv4_hdr, ipv4_HEADER_LEN.
  match goal with |- context [ipv4_ck tx ?R] => generalize (ipv4_ck tx R) end.
  cbn [ipv4_src ipv4_dst ipv4_hop_limit ipv4_proto ipv4_payload_len]. zfold.
  intros ck. remember (20 + pl) as L eqn:HL. unfold be_enc2. cbn [app]. refold_tail payload. intros Hok Hck.
  split.
  - unfold ipv4_parse, ipv4_check_len, ipv4_header_len, ipv4_total_len, ipv4_version, ipv4_verify_checksum,
      ipv4_header_len, ipv4_src_addr, ipv4_dst_addr, ipv4_next_header, ipv4_hop_limit_, wb_get_u16, wb_field,
      ipv4_MINIMUM_IHL_BYTES. zfold.
    autorewrite with blen. zfold. zbool.
    hstep. zfold. zbool. hstep. rewrite (be_dec_cells2 L) by lia. zbool.
    cbn [wb_guard obind wb_assert].
    hstep. hstep. hstep. hstep. zfold.
    replace (L - 20) with pl by lia.
    unfold wb_arr. autorewrite with blen. zfold. zbool. cbn [wb_guard wb_assert obind].
    destruct rx; [|reflexivity].
    rewrite wb_upto_app_l by (autorewrite with blen; zfold; lia).
    match goal with |- context [wb_upto ?l 20] => replace (wb_upto l 20) with (Ok l)
      by (symmetry; apply wb_upto_all) end.
    cbn [obind]. rewrite (Hok eq_refl). reflexivity.
  - unfold ipv4_payload, ipv4_header_len, ipv4_total_len, wb_get_u16. zfold.
    hstep. zfold. hstep. rewrite (be_dec_cells2 L) by lia.
    apply wb_sub_tail; autorewrite with blen; zfold; lia.
Qed.

(* what the individual accessors read from an emitted header followed by its payload
   (used by the ICMPv4 model, which embeds an IPv4 header) *)
Lemma ipv4_bytes_accessors tx r payload : (forall d, 0 <= sum_fill d < 65536) -> ipv4_wf r = true ->
  blen payload = ipv4_payload_len r ->
  let bs := ipv4_bytes tx r ++ payload in
  ipv4_check_len bs = Ok tt /\ ipv4_header_len bs = Ok 20 /\
  ipv4_src_addr bs = Ok (ipv4_src r) /\ ipv4_dst_addr bs = Ok (ipv4_dst r) /\
  ipv4_next_header bs = Ok (ipv4_proto r) /\ ipv4_hop_limit_ bs = Ok (ipv4_hop_limit r).
Proof.
  intros Hrange Hwf Hpl.
  pose proof (ipv4_ck_range tx r Hrange) as Hck.
  apply ipv4_wf_inv in Hwf. destruct Hwf as (H1 & H2 & _ & _ & Hpr & Hh & Hp0 & Hp).
  destruct r as [s d p pl h]; cbn [ipv4_src ipv4_dst ipv4_hop_limit ipv4_proto ipv4_payload_len] in *.
  revert Hpl. cells H1. cells H2. intros Hpl.
  revert Hck. unfold ipv4_bytes, ipv4_hdr, ipv4_HEADER_LEN.
  match goal with |- context [ipv4_ck tx ?R] => generalize (ipv4_ck tx R) end.
  cbn [ipv4_src ipv4_dst ipv4_hop_limit ipv4_proto ipv4_payload_len]. zfold.
  intros ck. remember (20 + pl) as L eqn:HL. unfold be_enc2. cbn [app]. refold_tail payload. intros Hck.
  cbv zeta.
  unfold ipv4_check_len, ipv4_header_len, ipv4_total_len, ipv4_src_addr, ipv4_dst_addr, ipv4_next_header,
    ipv4_hop_limit_, wb_get_u16, wb_field, ipv4_MINIMUM_IHL_BYTES. zfold.
  autorewrite with blen. zfold. zbool.
  hstep. zfold. zbool. hstep. rewrite (be_dec_cells2 L) by lia. zbool.
  hstep. hstep. hstep. hstep.
  unfold wb_arr. autorewrite with blen. zfold. zbool. cbn [obind].
  repeat split; reflexivity.
Qed.

Lemma ipv4_roundtrip tx rx r b : ipv4_cksum_link -> ipv4_wf r = true -> (rx = true -> tx = true) ->
  blen b = ipv4_buffer_len r ->
  exists bs, ipv4_emit sum_fill tx r b = Ok bs /\ blen bs = ipv4_buffer_len r /\
    forall payload, blen payload = ipv4_payload_len r ->
      ipv4_parse sum_ok rx (bs ++ payload) = Ok r /\ ipv4_payload (bs ++ payload) = Ok payload.
Proof.
  intros Hl Hwf Hmode Hb. exists (ipv4_bytes tx r).
  split; [apply ipv4_emit_spec; assumption|]. split; [apply ipv4_bytes_len; assumption|].
  intros p Hp. apply ipv4_parse_bytes; assumption.
Qed.

(* ---------- C07 ---------- *)

Lemma ipv4_get_u8_ok bs i : 0 <= i < blen bs -> bytes_ok bs = true ->
  exists v, wb_get_u8 bs i = Ok v /\ 0 <= v < 256.
Proof.
  intros Hi Hb. rewrite wb_get_u8_ok by lia. eexists; split; [reflexivity|].
  apply bytes_ok_nth; [assumption | unfold blen in *; lia].
Qed.

Lemma wb_get_u16_ok bs f : 0 <= fst f -> fst f + 2 <= snd f -> snd f <= blen bs ->
  bytes_ok bs = true -> exists v, wb_get_u16 bs f = Ok v /\ 0 <= v < 65536.
Proof.
  intros H1 H2 H3 Hb. unfold wb_get_u16, wb_get_be. rewrite wb_sub_ok by lia. cbn [obind].
  set (s := firstn _ _).
  assert (Hs : blen s = snd f - fst f) by (unfold s; rewrite blen_firstn; [lia | rewrite blen_skipn; lia]).
  assert (Hbs : bytes_ok s = true) by (apply bytes_ok_firstn, bytes_ok_skipn, Hb).
  rewrite Hs. zbool. eexists; split; [reflexivity|]. zfold.
  destruct s as [|a [|b' s']]; [unfold blen in Hs; cbn in Hs; lia | unfold blen in Hs; cbn in Hs; lia |].
  cbn [firstn]. cbn [bytes_ok forallb] in Hbs. bsplit. rewrite be_dec2. lia.
Qed.

Lemma ipv4_check_len_inv bs : bytes_ok bs = true -> ipv4_check_len bs = Ok tt ->
  exists hl tl, ipv4_header_len bs = Ok hl /\ ipv4_total_len bs = Ok tl /\
    20 <= hl <= 60 /\ hl <= tl /\ tl <= blen bs /\ tl < 65536 /\ 20 <= blen bs.
Proof.
  intros Hb. unfold ipv4_check_len, ipv4_MINIMUM_IHL_BYTES. zfold.
  destruct (blen bs <? 20) eqn:E; [discriminate|]. bsplit.
  destruct (ipv4_get_u8_ok bs wipv4_f_VER_IHL) as (x & Hx & Rx); try (zfold; lia); try assumption.
  destruct (wb_get_u16_ok bs wipv4_f_LENGTH) as (tl & Htl & Rtl); try (zfold; lia); try assumption.
  unfold ipv4_header_len, ipv4_total_len. rewrite Hx, Htl. cbn [obind].
  pose proof (land_15_range x).
  repeat (case_if; [discriminate|]). bsplit. intros _.
  exists (Z.land x 15 * 4), tl. repeat split; try reflexivity; lia.
Qed.

Lemma ipv4_accessors_safe bs : bytes_ok bs = true -> ipv4_check_len bs = Ok tt ->
  ipv4_version bs <> Panic /\ ipv4_header_len bs <> Panic /\ ipv4_dscp bs <> Panic /\
  ipv4_ecn bs <> Panic /\ ipv4_total_len bs <> Panic /\ ipv4_ident bs <> Panic /\
  ipv4_dont_frag bs <> Panic /\ ipv4_more_frags bs <> Panic /\ ipv4_frag_offset bs <> Panic /\
  ipv4_hop_limit_ bs <> Panic /\ ipv4_next_header bs <> Panic /\ ipv4_checksum bs <> Panic /\
  ipv4_src_addr bs <> Panic /\ ipv4_dst_addr bs <> Panic /\ ipv4_payload bs <> Panic /\
  ipv4_verify_checksum sum_ok bs <> Panic.
Proof.
  intros Hb H. destruct (ipv4_check_len_inv bs Hb H) as (hl & tl & Hhl & Htl & R1 & R2 & R3 & R4 & R5).
  assert (G8 : forall i, 0 <= i < 20 -> exists v, wb_get_u8 bs i = Ok v).
  { intros i Hi. destruct (ipv4_get_u8_ok bs i) as (v & -> & _); [lia | assumption | eauto]. }
  assert (G16 : forall f, 0 <= fst f -> fst f + 2 <= snd f -> snd f <= 20 -> exists v, wb_get_u16 bs f = Ok v).
  { intros f ? ? ?. destruct (wb_get_u16_ok bs f) as (v & -> & _); try lia; try assumption. eauto. }
  assert (GA : forall f, 0 <= fst f -> fst f + 4 = snd f -> snd f <= 20 ->
                         (do s <- wb_field bs f; wb_arr 4 s) <> Panic).
  { intros f ? ? ?. unfold wb_field. rewrite wb_sub_ok by lia. cbn [obind]. unfold wb_arr.
    rewrite blen_firstn by (rewrite blen_skipn; lia). zbool. discriminate. }
  unfold ipv4_version, ipv4_dscp, ipv4_ecn, ipv4_ident, ipv4_dont_frag, ipv4_more_frags, ipv4_frag_offset,
    ipv4_hop_limit_, ipv4_next_header, ipv4_checksum, ipv4_src_addr, ipv4_dst_addr, ipv4_payload,
    ipv4_verify_checksum.
  rewrite Hhl, Htl. cbn [obind].
  destruct (G8 wipv4_f_VER_IHL) as (? & ->); [zfold; lia|].
  destruct (G8 wipv4_f_DSCP_ECN) as (? & ->); [zfold; lia|].
  destruct (G8 wipv4_f_TTL) as (? & ->); [zfold; lia|].
  destruct (G8 wipv4_f_PROTOCOL) as (? & ->); [zfold; lia|].
  destruct (G16 wipv4_f_IDENT) as (? & ->); try (zfold; lia).
  destruct (G16 wipv4_f_FLG_OFF) as (? & ->); try (zfold; lia).
  destruct (G16 wipv4_f_CHECKSUM) as (? & ->); try (zfold; lia).
  cbn [obind].
  repeat split; try discriminate; try (apply GA; zfold; lia).
  - apply wb_sub_nopanic; lia.
  - unfold wb_upto. zbool. cbn [obind]. discriminate.
Qed.

Lemma ipv4_parse_total rx bs : bytes_ok bs = true -> ipv4_parse sum_ok rx bs <> Panic.
Proof.
  intros Hb. unfold ipv4_parse.
  destruct (ipv4_check_len bs) as [[]| |] eqn:E; cbn [obind]; try discriminate.
  - destruct (ipv4_accessors_safe bs Hb E) as (A1 & A2 & A3 & A4 & A5 & A6 & A7 & A8 & A9 & A10 & A11 & A12 & A13 & A14 & A15 & A16).
    destruct (ipv4_check_len_inv bs Hb E) as (hl & tl & Hhl & Htl & R1 & R2 & _).
    rewrite Hhl, Htl.
    apply obind_nopanic; [assumption|]. intros v _.
    apply obind_nopanic; [destruct (v =? 4); discriminate|]. intros _ _.
    apply obind_nopanic.
    { destruct rx; [|discriminate]. apply obind_nopanic; [assumption|]. intros [] _; discriminate. }
    intros _ _. cbn [obind]. unfold wb_assert. zbool. cbn [obind]. nopanic.
  - exfalso. revert E. unfold ipv4_check_len, ipv4_MINIMUM_IHL_BYTES. zfold.
    destruct (blen bs <? 20) eqn:L; [discriminate|]. bsplit.
    destruct (ipv4_get_u8_ok bs wipv4_f_VER_IHL) as (x & Hx & _); try (zfold; lia); try assumption.
    destruct (wb_get_u16_ok bs wipv4_f_LENGTH) as (tl & Htl & _); try (zfold; lia); try assumption.
    unfold ipv4_header_len, ipv4_total_len. rewrite Hx, Htl. cbn [obind].
    repeat (case_if; [discriminate|]). discriminate.
Qed.

Lemma ipv4_parse_wf rx bs r : bytes_ok bs = true -> ipv4_parse sum_ok rx bs = Ok r -> ipv4_wf r = true.
Proof.
  intros Hb H. unfold ipv4_parse in H.
  destruct (ipv4_check_len bs) as [[]| |] eqn:E; cbn [obind] in H; try discriminate.
  destruct (ipv4_check_len_inv bs Hb E) as (hl & tl & Hhl & Htl & R1 & R2 & R3 & R4 & R5).
  rewrite Hhl, Htl in H.
  obind_inv H. injection H as <-.
  unfold ipv4_wf, ipv4_HEADER_LEN; cbn [ipv4_src ipv4_dst ipv4_proto ipv4_payload_len ipv4_hop_limit]. zfold.
  repeat match goal with X : Ok ?a = Ok ?b |- _ => assert (a = b) by congruence; clear X; subst end.
  assert (HA : forall f s, (do x <- wb_field bs f; wb_arr 4 x) = Ok s -> is_arr 4 s = true).
  { intros f s X. obind_inv X. unfold wb_arr in X.
    match type of X with (if blen ?x =? 4 then _ else _) = _ => destruct (blen x =? 4) eqn:L4; [|discriminate] end.
    injection X as <-. unfold is_arr. rewrite L4. cbn [andb]. eapply wb_sub_bytes; eassumption. }
  unfold ipv4_src_addr, ipv4_dst_addr in *.
  match goal with X : (do s <- wb_field bs wipv4_f_SRC_ADDR; wb_arr 4 s) = Ok _ |- _ => apply HA in X; rewrite X end.
  match goal with X : (do s <- wb_field bs wipv4_f_DST_ADDR; wb_arr 4 s) = Ok _ |- _ => apply HA in X; rewrite X end.
  unfold ipv4_next_header, ipv4_hop_limit_ in *.
  destruct (ipv4_get_u8_ok bs wipv4_f_PROTOCOL) as (p & Hp & Rp); try (zfold; lia); try assumption.
  destruct (ipv4_get_u8_ok bs wipv4_f_TTL) as (h & Hh & Rh); try (zfold; lia); try assumption.
  repeat match goal with
  | X : wb_get_u8 bs wipv4_f_PROTOCOL = Ok _ |- _ => rewrite Hp in X; injection X as <-
  | X : wb_get_u8 bs wipv4_f_TTL = Ok _ |- _ => rewrite Hh in X; injection X as <-
  end.
  unfold is_u8. zbool. reflexivity.
Qed.

Lemma ipv4_parse_payload_len rx bs r : bytes_ok bs = true -> ipv4_parse sum_ok rx bs = Ok r ->
  exists p, ipv4_payload bs = Ok p /\ blen p = ipv4_payload_len r.
Proof.
  intros Hb H. unfold ipv4_parse in H.
  destruct (ipv4_check_len bs) as [[]| |] eqn:E; cbn [obind] in H; try discriminate.
  destruct (ipv4_check_len_inv bs Hb E) as (hl & tl & Hhl & Htl & R1 & R2 & R3 & R4 & R5).
  rewrite Hhl, Htl in H. obind_inv H. injection H as <-.
  repeat match goal with X : Ok ?a = Ok ?b |- _ => assert (a = b) by congruence; clear X; subst end.
  unfold ipv4_payload. rewrite Hhl, Htl. cbn [obind]. rewrite wb_sub_ok by lia.
  eexists; split; [reflexivity|]. cbn [ipv4_payload_len].
  rewrite blen_firstn; [reflexivity | rewrite blen_skipn; lia].
Qed.

Lemma ipv4_reparse tx rx bs r : ipv4_cksum_link -> bytes_ok bs = true -> (rx = true -> tx = true) ->
  ipv4_parse sum_ok rx bs = Ok r ->
  ipv4_wf r = true /\
  forall b, blen b = ipv4_buffer_len r ->
    exists bs', ipv4_emit sum_fill tx r b = Ok bs' /\
      forall payload, blen payload = ipv4_payload_len r -> ipv4_parse sum_ok rx (bs' ++ payload) = Ok r.
Proof.
  intros Hl Hb Hmode H. pose proof (ipv4_parse_wf _ _ _ Hb H) as Hwf. split; [assumption|].
  intros b Hlen. destruct (ipv4_roundtrip tx rx r b Hl Hwf Hmode Hlen) as (bs' & He & _ & Hp).
  exists bs'. split; [assumption|]. intros p Hpl. apply Hp; assumption.
Qed.

End Checksum.
