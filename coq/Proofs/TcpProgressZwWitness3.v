(* C02 (liveness half): NON-VACUITY of transfer_zw_from_net_init (Proofs/TcpProgressZw6.v): a schedule from
   net_init that is fair and delivers nothing twice, on which the window CLOSES in the middle (A writes 12
   octets into B's 8-octet buffer; B acknowledges with window 0; A arms the probe timer; B's application
   reads; the window update arrives) and every premise of the theorem holds - in particular [zregime] in
   every state, checked by a sound decision procedure. *)
From SV Require Import Lib.Base Gen.Consts.
From SV Require Import Model.Seq32 Model.Assembler Model.TcpBuf Model.TcpTypes Model.Tcp Model.TcpNet.
From SV Require Import Proofs.TcpSendBase Proofs.TcpLiveBase Proofs.TcpLiveProofs Proofs.TcpLiveMore
  Proofs.TcpLiveProgress.
From SV Require Import Proofs.TcpNetBase.
From SV Require Proofs.TcpNetInv.
From SV Require Import Proofs.TcpProgressBase Proofs.TcpProgressFrame Proofs.TcpProgressCtl Proofs.TcpProgressRecv
  Proofs.TcpProgressSend Proofs.TcpProgressNet Proofs.TcpProgressData Proofs.TcpProgressAck Proofs.TcpProgressAll
  Proofs.TcpProgressSafe Proofs.TcpProgressHsNet Proofs.TcpProgressHsInit Proofs.TcpProgressHsLive Proofs.TcpProgressHsLive2
  Proofs.TcpProgressExample Proofs.TcpProgressWitness Proofs.TcpProgressSafeWitness
  Proofs.TcpProgressZwDup Proofs.TcpProgressZw1 Proofs.TcpProgressZw2 Proofs.TcpProgressZw3 Proofs.TcpProgressZwWitness
  Proofs.TcpProgressZw4 Proofs.TcpProgressZw5 Proofs.TcpProgressZwWitness2 Proofs.TcpProgressZw6.

Definition zw_full_sched : list net_event :=
  [NPoll SA true; NDeliver SB 0; NPoll SB true; NDeliver SA 0; NSend SA [1;2;3;4;5;6;7;8;9;10;11;12]; NPoll SA true;
   NDeliver SB 1; NPoll SB true; NDeliver SA 1; NRecv SB 8; NPoll SB true; NDeliver SA 2; NPoll SA true; NDeliver SB 2;
   NPoll SB true; NDeliver SA 3; NRecv SB 8; NPoll SB true; NDeliver SA 4; NTick 4400000000].

Definition zregimeb (st : net) : bool :=
  (if tcp_state_eqb (s_state (net_sock st SB)) SynReceived && is_some (s_remote_last_ack (net_sock st SB))
   then adv_Wb (net_sock st SB) 1 else true) &&
  (if tcp_state_eqb (s_state (net_sock st SA)) Established && tcp_state_eqb (s_state (net_sock st SB)) Established
   then zextrab st else true).

Lemma zregimeb_sound Dack st : zregimeb st = true -> zregime Dack st.
Proof.
  unfold zregimeb. intros H. apply andb_true_iff in H. destruct H as (H1 & H2). split.
  - intros Hs Hla. rewrite Hs in H1. cbn [tcp_state_eqb andb] in H1.
    destruct (s_remote_last_ack (net_sock st SB)); [|contradiction]. cbn [is_some] in H1.
    destruct (adv_Wb_sound _ _ H1) as (W & HW & E). exists W. split; [lia | exact E].
  - intros HG. rewrite (rg_est _ _ _ HG SA), (rg_est _ _ _ HG SB) in H2. cbn [tcp_state_eqb andb] in H2.
    apply zextrab_sound. exact H2.
Qed.

Fixpoint run_zregimeb (st : net) (evs : list net_event) : bool :=
  zregimeb st &&
  match evs with
  | [] => true
  | ev :: rest => match net_step st ev with Ok st' => run_zregimeb st' rest | _ => true end
  end.

Lemma run_zregimeb_sound Dack evs : forall st, run_zregimeb st evs = true -> run_all (zregime Dack) st evs.
Proof.
  induction evs as [|ev r IH]; intros st H; cbn [run_zregimeb run_all] in *;
    apply andb_true_iff in H; destruct H as (H1 & H2); (split; [apply zregimeb_sound; exact H1|]); [exact I|].
  destruct (net_step st ev); try exact I. apply IH. exact H2.
Qed.

Definition zfull_check (ca cb : ep_config) (evs : list net_event) (Dt Da : Z) : bool :=
  match net_init ca cb with
  | Ok st0 =>
      net_started st0 && forallb (app_evb SA) evs &&
      opts_okb st0 && fair_runb Dt Da (fa_init Dt Da st0) st0 evs && once_runb Dt Da (fa_init Dt Da st0) st0 evs &&
      run_zregimeb st0 evs && (0 <=? Dt) && (0 <=? Da) &&
      match net_run st0 evs with
      | Ok st' => (net_now st0 SA + 3 * Dt <? net_now st' SA) &&
                  (l_len (ep_written (net_get st' SA)) <? 2 ^ 30) && (l_len (ep_written (net_get st' SB)) <? 2 ^ 30)
      | _ => false
      end
  | _ => false
  end.

Lemma zfull_package ca cb evs Dt Da Dack :
  cfg_good ca -> cfg_good cb -> cfg_plain ca -> cfg_plain cb -> c_addr ca <> 0 ->
  match c_ack_delay cb with Some d => 0 <= d <= Dack | None => True end ->
  zfull_check ca cb evs Dt Da = true ->
  exists st0 st' pre post st1,
    start_ok Dack ca cb st0 /\ reliable_schedule Dt Da st0 evs /\ run_all (zregime Dack) st0 evs /\
    net_run st0 evs = Ok st' /\ evs = pre ++ post /\ net_run st0 pre = Ok st1 /\
    net_run st1 post = Ok st' /\ (forall z, s_state (net_sock st1 z) = Established) /\
    net_now st1 SA <= net_now st0 SA + 3 * Dt.
Proof.
  intros Ga Gb Pa Pb Haddr Hdel H. unfold zfull_check in H.
  destruct (net_init ca cb) as [st0|e|] eqn:Ei; try discriminate.
  apply andb_true_iff in H. destruct H as (H & Hend).
  apply andb_true_iff in H. destruct H as (H & Hd2).
  apply andb_true_iff in H. destruct H as (H & Hd1).
  apply andb_true_iff in H. destruct H as (H & Hzr).
  apply andb_true_iff in H. destruct H as (H & Honce).
  apply andb_true_iff in H. destruct H as (H & Hf).
  apply andb_true_iff in H. destruct H as (H & Ho).
  apply andb_true_iff in H. destruct H as (Hst & Hpa).
  destruct (net_run st0 evs) as [st'|e|] eqn:Es; try discriminate.
  apply andb_true_iff in Hend. destruct Hend as (Hend & Hsb).
  apply andb_true_iff in Hend. destruct Hend as (Hclk & Hsa).
  apply Z.leb_le in Hd1, Hd2. apply Z.ltb_lt in Hclk, Hsa, Hsb.
  assert (Hstart : start_ok Dack ca cb st0) by (unfold start_ok; auto 10).
  assert (Hrel : reliable_schedule Dt Da st0 evs).
  { split; [|exact (proj1 (once_runb_iff _ _ _ _ _) Honce)].
    split; [lia|]. split; [lia|]. split; [apply opts_okb_sound; exact Ho | apply fair_runb_sound; exact Hf]. }
  pose proof (run_zregimeb_sound Dack evs st0 Hzr) as Hzz.
  assert (Hsz : forall z, l_len (ep_written (net_get st' z)) < 2 ^ 30) by (intros z; destruct z; cbn [net_get] in *; lia).
  destruct (transfer_zw_from_net_init Dt Da Dack ca cb st0 evs st' Hstart Hrel (app_evb_sound SA _ Hpa) Es Hsz Hzz Hclk)
    as (pre & post & st1 & E & Hp1 & Hp2 & Hest & Hc & _).
  exists st0, st', pre, post, st1. split; [exact Hstart|]. split; [exact Hrel|]. split; [exact Hzz|].
  split; [exact Es|]. split; [exact E|]. split; [exact Hp1|]. split; [exact Hp2|]. split; [exact Hest | exact Hc].
Qed.

Lemma zfull_check_ok : zfull_check zcfg_a zcfg_b zw_full_sched 5000 5000 = true.
Proof. vm_compute. reflexivity. Qed.

Theorem transfer_zw_from_net_init_applies :
  exists st0 st' pre post st1,
    start_ok 10000 zcfg_a zcfg_b st0 /\ reliable_schedule 5000 5000 st0 zw_full_sched /\
    run_all (zregime 10000) st0 zw_full_sched /\
    net_run st0 zw_full_sched = Ok st' /\ zw_full_sched = pre ++ post /\ net_run st0 pre = Ok st1 /\
    net_run st1 post = Ok st' /\ (forall z, s_state (net_sock st1 z) = Established) /\
    net_now st1 SA <= net_now st0 SA + 3 * 5000.
Proof.
  destruct zcfg_good as (Ga & Gb).
  apply (zfull_package zcfg_a zcfg_b zw_full_sched 5000 5000 10000 Ga Gb); try exact zfull_check_ok.
  - split; reflexivity.
  - split; reflexivity.
  - cbn. lia.
  - cbn. exact I.
Qed.

(* ---------------------------------------------------------------------------------------- *)
(* the theorem for a fault prefix: the window update is lost before delivery becomes reliable  *)
(* ---------------------------------------------------------------------------------------- *)
Definition zwl_check (ca cb : ep_config) (pre suf : list net_event) (Dt Da L : Z) (n : nat) : bool :=
  match net_init ca cb with
  | Ok st0 =>
      net_started st0 && forallb (app_evb SA) pre &&
      match net_run st0 pre with
      | Ok st =>
          tcp_state_eqb (s_state (net_sock st SA)) Established && tcp_state_eqb (s_state (net_sock st SB)) Established &&
          opts_okb st && fair_runb Dt Da (fa_init Dt Da st) st suf &&
          once_runb Dt Da (fa_init Dt Da st) st suf && run_zextrab st suf && forallb (app_evb SA) suf &&
          (L <=? l_len (ep_written (net_get st SA))) &&
          (Z.max 0 (L - una_off (net_get st SA)) + Z.max 0 (L - read_off (net_get st SB)) <=? Z.of_nat n) &&
          (0 <=? Dt) && (0 <=? Da) &&
          match net_run st suf with
          | Ok st' => (net_now st SA + Z.of_nat n * Wz Dt Da <? net_now st' SA) &&
                      (l_len (ep_written (net_get st' SA)) <? 2 ^ 30) && (l_len (ep_written (net_get st' SB)) <? 2 ^ 30)
          | _ => false
          end
      | _ => false
      end
  | _ => false
  end.

Lemma zwl_package ca cb pre suf Dt Da Dack L n :
  cfg_good ca -> cfg_good cb -> cfg_plain ca -> cfg_plain cb -> c_addr ca <> 0 ->
  match c_ack_delay cb with Some d => 0 <= d <= Dack | None => True end ->
  zwl_check ca cb pre suf Dt Da L n = true ->
  exists st0 st st',
    start_ok Dack ca cb st0 /\ net_run st0 pre = Ok st /\ net_run st suf = Ok st' /\
    reliable_schedule Dt Da st suf /\ run_all (zextra SA) st suf /\
    exists p1 p2 st1, suf = p1 ++ p2 /\ net_run st p1 = Ok st1 /\ net_run st1 p2 = Ok st' /\
                      L <= read_off (net_get st1 SB).
Proof.
  intros Ga Gb Pa Pb Haddr Hdel H. unfold zwl_check in H.
  destruct (net_init ca cb) as [st0|e|] eqn:Ei; try discriminate.
  apply andb_true_iff in H. destruct H as (H & Hrest).
  apply andb_true_iff in H. destruct H as (Hst & Hpa).
  destruct (net_run st0 pre) as [st|e|] eqn:Ep; try discriminate.
  apply andb_true_iff in Hrest. destruct Hrest as (H & Hend).
  apply andb_true_iff in H. destruct H as (H & Hd2).
  apply andb_true_iff in H. destruct H as (H & Hd1).
  apply andb_true_iff in H. destruct H as (H & Hn).
  apply andb_true_iff in H. destruct H as (H & HL).
  apply andb_true_iff in H. destruct H as (H & Happ).
  apply andb_true_iff in H. destruct H as (H & Hzx).
  apply andb_true_iff in H. destruct H as (H & Honce).
  apply andb_true_iff in H. destruct H as (H & Hf).
  apply andb_true_iff in H. destruct H as (H & Ho).
  apply andb_true_iff in H. destruct H as (Hea & Heb).
  destruct (net_run st suf) as [st'|e|] eqn:Es; try discriminate.
  apply andb_true_iff in Hend. destruct Hend as (Hend & Hsb).
  apply andb_true_iff in Hend. destruct Hend as (Hclk & Hsa).
  apply Z.leb_le in Hd1, Hd2, HL, Hn. apply Z.ltb_lt in Hclk, Hsa, Hsb.
  assert (Hstart : start_ok Dack ca cb st0) by (unfold start_ok; auto 10).
  assert (Hrel : reliable_schedule Dt Da st suf).
  { split; [|exact (proj1 (once_runb_iff _ _ _ _ _) Honce)].
    split; [lia|]. split; [lia|]. split; [apply opts_okb_sound; exact Ho | apply fair_runb_sound; exact Hf]. }
  pose proof (run_zextrab_sound suf st Hzx) as Hz.
  assert (Hest : forall z, s_state (net_sock st z) = Established).
  { intros z. destruct z; apply tcp_state_eqb_eq; assumption. }
  exists st0, st, st'. split; [exact Hstart|]. split; [exact Ep|]. split; [exact Es|]. split; [exact Hrel|]. split; [exact Hz|].
  apply (oneway_delivery_zw_from_net_init Dt Da Dack ca cb st0 n pre suf st st' L Hstart (app_evb_sound SA _ Hpa) Ep Hest Hrel
           (app_evb_sound SA _ Happ) Es); try assumption.
  intros z. destruct z; cbn [net_get] in *; lia.
Qed.

Lemma zwl_check_ok : zwl_check zcfg_a zcfg_b zww_prefix zwd_suffix 5000 5000 12 8 = true.
Proof. vm_compute. reflexivity. Qed.

Theorem delivery_zw_from_net_init_applies :
  exists st0 st st',
    start_ok 10000 zcfg_a zcfg_b st0 /\ net_run st0 zww_prefix = Ok st /\ net_run st zwd_suffix = Ok st' /\
    reliable_schedule 5000 5000 st zwd_suffix /\ run_all (zextra SA) st zwd_suffix /\
    exists p1 p2 st1, zwd_suffix = p1 ++ p2 /\ net_run st p1 = Ok st1 /\ net_run st1 p2 = Ok st' /\
                      12 <= read_off (net_get st1 SB).
Proof.
  destruct zcfg_good as (Ga & Gb).
  apply (zwl_package zcfg_a zcfg_b zww_prefix zwd_suffix 5000 5000 10000 12 8 Ga Gb); try exact zwl_check_ok.
  - split; reflexivity.
  - split; reflexivity.
  - cbn. lia.
  - cbn. exact I.
Qed.
