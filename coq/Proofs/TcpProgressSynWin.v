(* C02 (liveness half): THE WINDOW A SYN-RECEIVED SOCKET HAS ADVERTISED - socket level.
   In SYN-RECEIVED the receive view changes only by an emission:
     process_synrecv_view   a segment that leaves the socket in SYN-RECEIVED: the view is unchanged, or an ACK was
                            replied (last ACK = RCV.NXT, last window = the scaled window)
     process_listen_view    LISTEN + SYN: no ACK has been sent yet
     dispatch_synrecv_view  a poll in SYN-RECEIVED: the view is unchanged, or the SYN|ACK went out (last ACK = RCV.NXT,
                            last window = (the unscaled window field) >> shift) *)
From SV Require Import Lib.Base Gen.Consts.
From SV Require Import Model.Seq32 Model.Assembler Model.TcpBuf Model.TcpTypes Model.Tcp.
From SV Require Import Proofs.AssemblerProofs Proofs.TcpRecvBase Proofs.TcpRecvWindow
  Proofs.TcpRecvPayload Proofs.TcpRecvInv Proofs.TcpRecvProcess.
From SV Require Proofs.TcpSendBase Proofs.TcpRecvDispatch Proofs.TcpRecvSync.
From SV Require Proofs.TcpLiveBase Proofs.TcpLiveProofs.
From SV Require Import Proofs.TcpProgressFrame Proofs.TcpProgressCtl Proofs.TcpProgressHs Proofs.TcpProgressHsD.

Definition sweq (s' s : socket) : Prop := rxv_eq s' s \/ rxv_acked s' s.

Lemma soa_sweq s' s rep : same_or_acked s' s rep -> s_state s' = s_state s /\ sweq s' s.
Proof. intros (A & B & _). split; assumption. Qed.

Lemma sweq_frame a b c : sweq a b -> frame b c -> sweq a c.
Proof.
  intros [H | H] (F & _).
  - left. eapply rxv_eq_trans; eassumption.
  - right. exact (rxv_acked_of_eq _ _ _ H F).
Qed.

(* the window check: a return leaves the view, or replies an ACK; a continuation only notes the sequence number *)
Lemma window_view cx s ip r res :
  tcp_process_window cx s ip r = Ok res ->
  match res with
  | Cont _ (s2, _, _) => frame s2 s
  | Ret _ s1 _ => s_state s1 = s_state s /\ sweq s1 s
  end.
Proof.
  unfold tcp_process_window. intros H.
  assert (Hmain :
    (let '(in_window, tg) := tcp_segment_in_window (tcp_window_start s) (tcp_window_end s)
                               (r_seq_number r) (seq_add (r_seq_number r) (l_len (r_payload r))) in
      if in_window then
        let overlap_start := seq_max (tcp_window_start s) (r_seq_number r) in
        let overlap_end := seq_min (tcp_window_end s) (seq_add (r_seq_number r) (l_len (r_payload r))) in
        if negb (seq_le overlap_start overlap_end) then Panic else
        let s := upd_local_rx_last_seq s (Some (r_seq_number r)) in
        do a <- seq_sub overlap_start (r_seq_number r);
        do b <- seq_sub overlap_end (r_seq_number r);
        do payload <- slice_range (r_payload r) a b;
        do off <- seq_sub overlap_start (tcp_window_start s);
        Ok (Cont tg (s, payload, off))
      else if control_eqb (r_control r) CRst then Ok (Ret (tg + 1000) s None)
      else
        let s := if tcp_state_eqb (s_state s) TimeWait
                 then upd_timer s (timer_set_for_close (cx_now cx)) else s in
        if (match r_payload r with [] => false | _ => true end)
           && (match r_control r with CNone | CPsh | CFin => true | _ => false end)
        then let '(s', p) := tcp_ack_reply cx s ip r in Ok (Ret (tg + 2000) s' (Some p))
        else let '(s', p) := tcp_challenge_ack_reply cx s ip r in Ok (Ret (tg + 3000) s' p)) = Ok res ->
    match res with
    | Cont _ (s2, _, _) => frame s2 s
    | Ret _ s1 _ => s_state s1 = s_state s /\ sweq s1 s
    end).
  { clear H. intros H. cbv zeta in H.
    destruct (tcp_segment_in_window _ _ _ _) as (inw, tg).
    destruct inw.
    - destruct (negb (seq_le _ _)); [discriminate|].
      repeat (apply obind_ok_inv in H; destruct H as (? & _ & H)).
      inversion H; subst res. frame_solve.
    - destruct (control_eqb (r_control r) CRst); [inversion H; subst res; split; [reflexivity | left; apply rxv_eq_refl]|].
      set (q := if tcp_state_eqb (s_state s) TimeWait
                then upd_timer s (timer_set_for_close (cx_now cx)) else s) in *.
      assert (Hq : frame q s) by (unfold q; destruct (tcp_state_eqb (s_state s) TimeWait); frame_solve).
      clearbody q.
      destruct ((match r_payload r with [] => false | _ => true end)
                && (match r_control r with CNone | CPsh | CFin => true | _ => false end)).
      + destruct (tcp_ack_reply cx q ip r) as (s', p) eqn:E.
        inversion H; subst res. exact (soa_sweq _ _ _ (ack_reply_same_or_acked _ _ _ _ _ _ _ Hq E)).
      + destruct (tcp_challenge_ack_reply cx q ip r) as (s', p) eqn:E.
        inversion H; subst res. exact (soa_sweq _ _ _ (challenge_same_or_acked _ _ _ _ _ _ _ Hq E)). }
  destruct (s_state s); try exact (Hmain H); inversion H; subst res; apply frame_refl.
Qed.

Theorem process_synrecv_view cx s ip r s' rep tags :
  s_state s = SynReceived -> tcp_process cx s ip r = Ok (s', rep, tags) -> s_state s' = SynReceived ->
  sweq s' s.
Proof.
  intros Hst H Hst'. unfold tcp_process in H.
  destruct (negb (tcp_accepts s ip r)); [discriminate|].
  apply obind_ok_inv in H. destruct H as (p1 & H1 & H).
  destruct p1 as [t1 []|t1 s1 rep1].
  2:{ inversion H; subst. exact (proj2 (soa_sweq _ _ _ (ack_check_ret _ _ _ _ _ _ _ H1))). }
  apply obind_ok_inv in H. destruct H as (p2 & H2 & H).
  pose proof (window_view _ _ _ _ _ H2) as P2.
  destruct p2 as [t2 ((s2, payload), off)|t2 s2r rep2].
  2:{ inversion H; subst. exact (proj2 P2). }
  destruct P2 as (V2 & S2).
  apply obind_ok_inv in H. destruct H as (((al & aof) & aall) & _ & H).
  apply obind_ok_inv in H. destruct H as (p3 & H3 & H).
  assert (Hsy : synced_state (s_state s2)) by (rewrite S2, Hst; exact I).
  pose proof (transition_synced _ _ _ _ _ _ _ _ Hsy H3) as P3.
  destruct p3 as [t3 s3|t3 s3r rep3].
  2:{ inversion H; subst s3r rep3 tags. destruct P3 as [P3 | [(_ & _ & X) | (X & _)]].
      - destruct (soa_sweq _ _ _ P3) as (_ & Q). exact (sweq_frame _ _ _ Q (conj V2 S2)).
      - rewrite X in Hst'. discriminate.
      - rewrite X in Hst'. unfold tcp_set_state in Hst'. revert Hst'. rproj. discriminate. }
  exfalso. destruct P3 as (Hat & _).
  apply obind_ok_inv in H. destruct H as ((s4 & wu) & H4 & H).
  destruct (update_remote_stf _ _ _ _ _ _ H4) as (E4 & _).
  apply obind_ok_inv in H. destruct H as ((s5 & t5) & H5 & H).
  destruct (dup_ack_stf _ _ _ _ _ _ _ H5) as (E5 & _).
  destruct (tsval_stf s5 r) as (E5' & _).
  set (q5 := match r_timestamp r with
             | Some (tsval, _) => upd_last_remote_tsval s5 tsval
             | None => s5
             end) in *. clearbody q5.
  destruct (timers_stf cx q5 al aall) as (E6 & _).
  destruct (tcp_process_timers cx q5 al aall) as (s6, t6). cbn [fst] in E6.
  destruct (zwp_stf cx s6 al) as (E7 & _).
  destruct (tcp_process_zwp cx s6 al) as (s7, t7). cbn [fst] in E7.
  apply obind_ok_inv in H. destruct H as (((s8 & rep8) & t8) & H8 & H).
  destruct (payload_stf _ _ _ _ _ _ _ _ _ H8) as (E8 & _).
  inversion H; subst s' rep tags.
  assert (E : s_state s8 = s_state s3) by congruence.
  rewrite E in Hst'. rewrite Hst' in Hat. exact Hat.
Qed.

(* LISTEN + SYN *)
Lemma transition_listen_rla cx s ip r ctl al aof t s3 :
  s_state s = Listen -> tcp_process_transition cx s ip r ctl al aof = Ok (Cont t s3) ->
  s_remote_last_ack s3 = None.
Proof.
  intros Est H. unfold tcp_process_transition in H. rewrite Est in H.
  destruct ctl; cbv beta iota in H; TcpRecvProcess.des_all H; inversion H; subst; clear H.
  all: unfold tcp_set_state; rproj.
  all: repeat match goal with |- context [if ?c then _ else _] => destruct c end; rproj; reflexivity.
Qed.

Theorem process_listen_view cx s ip r s' rep tags :
  s_state s = Listen -> tcp_process cx s ip r = Ok (s', rep, tags) -> s_state s' = SynReceived ->
  s_remote_last_ack s' = None.
Proof.
  intros Hst H Hst'. unfold tcp_process in H.
  destruct (negb (tcp_accepts s ip r)); [discriminate|].
  apply obind_ok_inv in H. destruct H as (p1 & H1 & H).
  destruct p1 as [t1 []|t1 s1 rep1].
  2:{ exfalso. inversion H; subst. destruct (ack_check_ret_stf _ _ _ _ _ _ _ H1) as (E & _). congruence. }
  apply obind_ok_inv in H. destruct H as (p2 & H2 & H).
  assert (E2 : p2 = Cont 128 (s, [], 0)) by (unfold tcp_process_window in H2; rewrite Hst in H2; inversion H2; reflexivity).
  subst p2.
  apply obind_ok_inv in H. destruct H as (((al & aof) & aall) & _ & H).
  apply obind_ok_inv in H. destruct H as (p3 & H3 & H).
  destruct p3 as [t3 s3|t3 s3r rep3].
  2:{ exfalso. destruct (TcpRecvSync.transition_unsynced _ _ _ _ _ _ _ _ (or_introl Hst) H3) as (_ & _ & X).
      inversion H; subst. destruct X as [X | X]; congruence. }
  pose proof (transition_listen_rla _ _ _ _ _ _ _ _ _ Hst H3) as R3.
  apply obind_ok_inv in H. destruct H as ((s4 & wu) & H4 & H).
  destruct (update_remote_frame _ _ _ _ _ _ H4) as ((_ & _ & _ & _ & R4 & _) & _).
  apply obind_ok_inv in H. destruct H as ((s5 & t5) & H5 & H).
  destruct (dup_ack_frame _ _ _ _ _ _ _ H5) as ((_ & _ & _ & _ & R5 & _) & _).
  destruct (tsval_frame s5 r) as ((_ & _ & _ & _ & R5' & _) & _).
  set (q5 := match r_timestamp r with
             | Some (tsval, _) => upd_last_remote_tsval s5 tsval
             | None => s5
             end) in *. clearbody q5.
  destruct (timers_frame cx q5 al aall) as ((_ & _ & _ & _ & R6 & _) & _).
  destruct (tcp_process_timers cx q5 al aall) as (s6, t6). cbn [fst] in R6.
  destruct (zwp_frame cx s6 al) as ((_ & _ & _ & _ & R7 & _) & _).
  destruct (tcp_process_zwp cx s6 al) as (s7, t7). cbn [fst] in R7.
  rewrite payload_nil in H. cbn [obind] in H. inversion H; subst s' rep tags. congruence.
Qed.

(* a poll in SYN-RECEIVED *)
Theorem dispatch_synrecv_view : forall cx s t ok s' res tags,
  TcpLiveProofs.tcp_live_inv s -> s_state s = SynReceived -> s_timeout s = None ->
  s_tuple s = Some t -> tu_local_addr t = cx_addr cx ->
  tcp_dispatch cx s ok = Ok (s', res, tags) ->
  s_rx_buffer s' = s_rx_buffer s /\ s_remote_win_shift s' = s_remote_win_shift s /\
  tcp_window_start s' = tcp_window_start s /\
  ((s_remote_last_ack s' = s_remote_last_ack s /\ s_remote_last_win s' = s_remote_last_win s) \/
   (s_remote_last_ack s' = Some (tcp_window_start s) /\
    s_remote_last_win s' = shr (u16_try (rb_window (s_rx_buffer s))) (s_remote_win_shift s))).
Proof.
  intros cx s t ok s' res tags I Hst Hto Htu Haddr H.
  assert (Hhs : hs_state (s_state s)) by (right; left; exact Hst).
  destruct (dispatch_keeps _ _ _ _ _ _ _ I Hhs Hto Htu Haddr H) as (Kst & _).
  unfold tcp_dispatch in H. rewrite Htu, Haddr, Z.eqb_refl in H. cbn [negb] in H.
  apply obind_ok_inv in H. destruct H as ((s1 & t1) & Edt & H).
  pose proof (TcpRecvDispatch.dispatch_timers_frame _ _ _ _ Edt) as (V1 & Sc1).
  pose proof (rxv_eq_window_start _ _ V1) as Hws.
  assert (D3 : s_state s1 = SynReceived).
  { destruct Sc1 as [X | X]; [congruence|]. exfalso.
    pose proof (TcpLiveProofs.dt_pre_core cx s) as (Q5 & _).
    pose proof (TcpProgressSend.not_timed_out (TcpLiveProofs.dt_pre cx s) (cx_now cx)
                  ltac:(rewrite TcpProgressSend.dt_pre_timeout; exact Hto)) as Hnto.
    destruct (TcpLiveProofs.dt_spec _ _ _ _ Edt) as [(Y & _) | [(_ & _ & ->) | (_ & _ & D4 & _)]].
    - rewrite Hnto in Y. discriminate.
    - rewrite Q5, Hst in X. discriminate.
    - rewrite D4, Q5, Hst in X. discriminate. }
  destruct V1 as (V11 & V12 & V13 & V14 & V15 & V16 & V17).
  apply obind_ok_inv in H. destruct H as (((s2 & go) & t2) & Edd & H).
  destruct (dispatch_decide_cases _ _ _ _ _ Edd) as [-> | (-> & Hc2)].
  2:{ cbn [negb] in H. inversion H; subst. rewrite Hc2 in Kst. rewrite Hst in Kst. discriminate. }
  assert (Hsame : s_rx_buffer s1 = s_rx_buffer s /\ s_remote_win_shift s1 = s_remote_win_shift s /\
                  tcp_window_start s1 = tcp_window_start s /\
                  ((s_remote_last_ack s1 = s_remote_last_ack s /\ s_remote_last_win s1 = s_remote_last_win s) \/
                   (s_remote_last_ack s1 = Some (tcp_window_start s) /\
                    s_remote_last_win s1 = shr (u16_try (rb_window (s_rx_buffer s))) (s_remote_win_shift s))))
    by (split; [exact V12|]; split; [exact V17|]; split; [exact Hws|]; left; split; assumption).
  destruct (negb go); [inversion H; subst; exact Hsame|].
  apply obind_ok_inv in H. destruct H as (((((s3 & o) & z) & k) & t3) & Ebd & H).
  unfold tcp_dispatch_build in Ebd.
  set (ts := if s_tsval_generator s1 then Some (cx_tsval cx, s_last_remote_tsval s1) else None) in *.
  set (repr0 := mkRepr (tu_local_port t) (tu_remote_port t) CNone (s_remote_last_seq s1)
                       (Some (tcp_window_start s1)) (tcp_scaled_window s1) None None false no_sack ts []) in *.
  assert (Hb : exists repr,
            s3 = s1 /\ z = false /\ k = false /\ o = Some repr /\ r_control repr = CSyn /\
            r_ack_number repr = Some (tcp_window_start s1) /\
            r_window_len repr = u16_try (rb_window (s_rx_buffer s1))).
  { rewrite D3 in Ebd. cbn [obind] in Ebd.
    unfold tcp_syn_repr, repr_is_empty in Ebd; cbn [r_payload r_control control_eqb andb] in Ebd;
      rewrite Bool.andb_false_r in Ebd; cbn [control_eqb] in Ebd.
    apply obind_ok_inv in Ebd. destruct Ebd as (rp & E & Ebd). inversion Ebd; subst.
    cbn [r_control control_eqb] in E. apply obind_ok_inv in E. destruct E as (m & _ & E). inversion E; subst.
    eexists. cbn. repeat split; reflexivity. }
  destruct Hb as (repr & -> & -> & -> & -> & B3 & B5 & B7).
  destruct (negb ok); [inversion H; subst; exact Hsame|].
  destruct (tcp_dispatch_finish cx s1 repr false false) as (s4, t4) eqn:Ef.
  destruct (TcpRecvDispatch.dispatch_finish_spec _ _ _ _ _ _ _ Ef) as ((R1 & R2 & R3 & R4 & R5) & _ & Hcase).
  inversion H; subst s' res tags; clear H.
  split; [congruence|]. split; [congruence|].
  split; [unfold tcp_window_start in *; rewrite R4, R2; exact Hws|].
  destruct Hcase as [(_ & _ & _ & _ & X5 & X6 & _) | (X5 & X6)].
  - left. split; congruence.
  - right. rewrite B3 in X6. cbn [control_eqb] in X6. rewrite X5, X6, B5, B7, Hws, V12, V17. split; reflexivity.
Qed.
