(* C04, layer 5a: one segment through `process` / `process_tcp` preserves the receiver invariant
   (synchronised socket), establishes it (SYN in LISTEN / SYN-SENT) or keeps the socket
   unsynchronised. *)
From SV Require Import Lib.Base Gen.Consts.
From SV Require Import Model.Seq32 Model.Assembler Model.TcpBuf Model.TcpTypes Model.Tcp.
From SV Require Import Proofs.AssemblerProofs Proofs.TcpRecvBase Proofs.TcpRecvWindow
  Proofs.TcpRecvPayload Proofs.TcpRecvInv Proofs.TcpRecvProcess.

Lemma l_slice_len lo n l : 0 <= lo -> 0 <= n -> lo + n <= l_len l -> l_len (l_slice lo n l) = n.
Proof.
  intros H1 H2 H3. rewrite l_slice_spec, firstn_len_Z by exact H2. rewrite skipn_len_Z by exact H1. lia.
Qed.

Lemma l_slice_znth lo n l j : 0 <= lo -> 0 <= j < n -> znth (l_slice lo n l) j = znth l (lo + j).
Proof.
  intros H1 H2. rewrite l_slice_spec, znth_firstn by exact H2. apply znth_skipn; lia.
Qed.

Section Step.
  Variable S : Z -> Z.
  Variable F : option Z.

  Lemma rx_synced_mono (have have' : Z -> Prop) irs c s :
    (forall k, have k -> have' k) -> rx_synced S F have irs c s -> rx_synced S F have' irs c s.
  Proof.
    intros Hm (Hb & Hrest). split; [eapply buf_inv_mono; eassumption | exact Hrest].
  Qed.

  Lemma same_or_acked_synced have irs c s' s rep :
    same_or_acked s' s rep -> rx_synced S F have irs c s ->
    rx_synced S F have irs c s' /\ reply_ok s' rep.
  Proof.
    intros (Hst & Hv & Hrep) Hinv. split; [|exact Hrep].
    assert (Hsto : st_ok c s').
    { pose proof Hinv as (_ & _ & _ & _ & Hso). unfold st_ok in *. rewrite Hst.
      destruct Hv as [(E1 & E2 & E3 & _) | (E1 & E2 & E3 & _)]; rewrite E1, E2, E3; exact Hso. }
    destruct Hv as [He | Ha].
    - eapply rx_synced_view; eassumption.
    - eapply rx_synced_acked; eassumption.
  Qed.

  Lemma scaled_window_ok s :
    rb_wf (s_rx_buffer s) -> 0 <= s_remote_win_shift s ->
    0 <= tcp_scaled_window s /\
    shl (tcp_scaled_window s) (s_remote_win_shift s) <= rb_window (s_rx_buffer s).
  Proof.
    intros (Hl & _) Hm2. unfold tcp_scaled_window, rb_window.
    pose proof (shr_nonneg (rb_cap (s_rx_buffer s) - rb_len (s_rx_buffer s)) (s_remote_win_shift s) ltac:(lia) Hm2) as H0.
    pose proof (u16_try_bounds _ H0) as H1. split; [lia|].
    eapply Z.le_trans; [apply shl_mono; [apply H1 | exact Hm2]|].
    apply shl_shr_le; lia.
  Qed.

  (* width of the window advertised last, counted from RCV.NXT (model values only, no ghost) *)
  Definition adv_width (s : socket) : Z := seq_sdiff (tcp_window_end s) (tcp_window_start s).

  (* nothing at or beyond the advertised right edge is written into the ring: the storage cell
     of every logical index at or beyond it (positions computed with the read pointer before the
     segment) holds the same octet afterwards *)
  Definition beyond_untouched (s' s : socket) : Prop :=
    forall i, rb_len (s_rx_buffer s) + adv_width s <= i < rb_cap (s_rx_buffer s) ->
              znth (rb_store (s_rx_buffer s')) (rb_get_idx (s_rx_buffer s) i) = rb_cell (s_rx_buffer s) i.

  (* --- one segment on a synchronised socket --- *)
  Theorem process_synced have irs c s cx ip r s' rep tags :
    rx_synced S F have irs c s -> seg_ok S F c s r ->
    tcp_process cx s ip r = Ok (s', rep, tags) ->
    reply_ok s' rep /\
    (rx_synced S F (have_seg have c s r) irs c s' \/
     (rx_unsynced s' /\ s_state s' = Listen /\ rep = None /\ c = 0 /\
      rb_len (s_rx_buffer s) = 0 /\ s_rx_fin_received s = false)) /\
    beyond_untouched s' s /\
    (s_rx_fin_received s' = true -> s_rx_fin_received s = true \/ r_control r = CFin) /\
    wsq c s <= wsq c s'.
  Proof.
    intros Hinv Hseg H.
    assert (Hmono : forall k, have k -> have_seg have c s r k) by (intros k Hk; left; exact Hk).
    assert (Hret : forall s1 rp, same_or_acked s1 s rp ->
              reply_ok s1 rp /\ (rx_synced S F (have_seg have c s r) irs c s1 \/
                                  (rx_unsynced s1 /\ s_state s1 = Listen /\ rp = None /\ c = 0 /\
                                   rb_len (s_rx_buffer s) = 0 /\ s_rx_fin_received s = false)) /\
              beyond_untouched s1 s /\
              (s_rx_fin_received s1 = true -> s_rx_fin_received s = true \/ r_control r = CFin) /\
              wsq c s <= wsq c s1).
    { intros s1 rp Hsa. destruct (same_or_acked_synced have irs c s1 s rp Hsa Hinv) as (H1 & H2).
      split; [exact H2|]. split; [left; eapply rx_synced_mono; eassumption|]. split; [|split].
      - intros i _. destruct Hsa as (_ & [(_ & -> & _) | (_ & -> & _)] & _); reflexivity.
      - intros Hf. left. destruct Hsa as (_ & [(_ & _ & E & _) | (_ & _ & E & _)] & _); congruence.
      - unfold wsq, finz. destruct Hsa as (_ & [(_ & E2 & E3 & _) | (_ & E2 & E3 & _)] & _); rewrite E2, E3; lia. }
    unfold tcp_process in H. destruct (tcp_accepts s ip r); cbn [negb] in H; [|discriminate].
    apply obind_ok_inv in H. destruct H as (p1 & Hp1 & H).
    destruct p1 as [t1 []|t1 s1 rep1].
    2:{ inversion H; subst. apply Hret. eapply ack_check_ret. exact Hp1. }
    apply obind_ok_inv in H. destruct H as (p2 & Hp2 & H).
    (* the window *)
    pose proof (synced_window_start S F _ _ _ _ Hinv) as Hws.
    destruct (synced_window_end S F _ _ _ _ Hinv) as (W & Hwe & HW & Hla).
    pose proof Hinv as (Hb & (Hrn & Hfin) & (Hm1 & Hm2 & Hm3) & Hwin & Hsto).
    pose proof Hb as (Hwf & Hcap & Hawf & Halen & Hc0 & _). pose proof Hwf as (Hlen0 & _).
    destruct Hseg as (Hn & Hsq & Hnear).
    set (d := seg_d s r) in *. set (n := l_len (r_payload r)) in *.
    pose proof (l_len_nonneg (r_payload r)) as Hn0. fold n in Hn0.
    assert (Hd : -2147483648 <= d < 2147483648) by apply seq_sdiff_range.
    assert (Hseq : r_seq_number r = seq_norm (irs + 1 + wsq c s + d)).
    { rewrite (seq_norm_of_sdiff (r_seq_number r) (tcp_window_start s) Hsq). fold (seg_d s r). fold d.
      rewrite Hws. change (seq_norm (seq_norm (irs + 1 + wsq c s) + d)) with (seq_add (seq_norm (irs + 1 + wsq c s)) d).
      apply seq_add_norm. }
    assert (HWp : 0 <= W <= p30) by (unfold rb_window in HW; lia).
    assert (Hst_ok : match s_state s with Listen | SynSent => False | _ => True end).
    { unfold st_ok in Hsto. destruct (s_state s); tauto. }
    pose proof (process_window_spec cx s ip r (irs + 1 + wsq c s) W d Hws Hwe Hseq HWp
                  ltac:(unfold p30; fold n; lia) Hd Hst_ok) as Hwin_spec.
    cbv zeta in Hwin_spec. rewrite Hp2 in Hwin_spec.
    destruct p2 as [t2 ((s2, payload), off)|t2 s1 rep1].
    2:{ inversion H; subst. apply Hret.
        destruct Hwin_spec as [(-> & ->) | (s0 & Hs0 & [(p & Har & ->) | Hch])].
        - split; [reflexivity|]. split; [left; apply rxv_eq_refl | exact I].
        - eapply ack_reply_same_or_acked; [|exact Har].
          destruct Hs0 as [-> | ->]; [apply frame_refl | frame_solve].
        - eapply challenge_same_or_acked; [|exact Hch].
          destruct Hs0 as [-> | ->]; [apply frame_refl | frame_solve]. }
    destruct Hwin_spec as (Hinw & Hs2 & Hoff & Hpayload). fold n in Hinw, Hpayload.
    assert (Hf2 : frame s2 s) by (subst s2; frame_solve).
    pose proof (in_window_Z_near W d n ltac:(lia) Hn0 Hinw) as (Hnear1 & Hnear2 & Hnear3).
    assert (Hnr : seg_near s r).
    { unfold seg_near. fold d. unfold in_window_Z in Hinw. unfold p30 in *. lia. }
    destruct (Hnear Hnr) as (Hbytes & HFseg & HFfin). unfold seg_q in *. fold d in Hbytes, HFseg, HFfin.
    (* ack_len, quash, table *)
    apply obind_ok_inv in H. destruct H as (((al & aof) & aall) & _ & H).
    set (ctl := tcp_process_quash s2 r) in *.
    assert (Hquash := process_quash_fin s2 r (irs + 1 + wsq c s) W d).
    rewrite (rxv_eq_window_start _ _ (proj1 Hf2)), (rxv_eq_window_end _ _ (proj1 Hf2)) in Hquash.
    specialize (Hquash Hws Hwe Hseq HWp ltac:(unfold p30; fold n; lia) Hinw). cbv zeta in Hquash.
    fold ctl in Hquash. fold n in Hquash.
    apply obind_ok_inv in H. destruct H as (p3 & Hp3 & H).
    assert (Hsy2 : synced_state (s_state s2)).
    { destruct Hf2 as (_ & ->). unfold synced_state. destruct (s_state s); tauto. }
    pose proof (transition_synced cx s2 ip r ctl al aof p3 Hsy2 Hp3) as Htr.
    destruct p3 as [t3 s3|t3 s3 rep3].
    2:{ inversion H; subst s' rep tags; clear H.
        destruct Htr as [Hsa | [(He & -> & Hstate) | (Es3 & -> & Hsr)]].
        - apply Hret. destruct Hsa as (Hst & Hv & Hrp). destruct Hf2 as (He2 & Hst2).
          split; [congruence|]. split; [|exact Hrp].
          destruct Hv as [Hv|Hv]; [left; eapply rxv_eq_trans; eassumption
                                  | right; eapply rxv_acked_of_eq; eassumption].
        - split; [exact I|]. pose proof (rxv_eq_trans _ _ _ He (proj1 Hf2)) as He'.
          split; [|split; [intros i _; destruct He' as (_ & -> & _); reflexivity
                          | split; [intros Hf; left; destruct He' as (_ & _ & E & _); congruence
                                   | unfold wsq, finz; destruct He' as (_ & E2 & E3 & _); rewrite E2, E3; lia]]].
          left. eapply rx_synced_mono; [exact Hmono|].
          eapply rx_synced_view; [exact He' | unfold st_ok; rewrite Hstate; exact I | exact Hinv].
        - (* RST in SYN-RECEIVED of a listener: pristine LISTEN *)
          destruct Hf2 as ((U1 & U2 & U3 & _) & Hst2). rewrite Hst2 in Hsr.
          unfold st_ok in Hsto. rewrite Hsr in Hsto. destruct Hsto as (Hl0 & Ha0 & Hf0 & Hc00).
          destruct (relisten_unsynced s2 (s_listen_endpoint s2) ltac:(rewrite U2; exact Hwf)
                      ltac:(rewrite U2; exact Hcap)) as (Hun & Hstore & Hli).
          rewrite <- Es3 in Hun, Hstore, Hli. clear Es3.
          split; [exact I|]. split; [|split; [|split]].
          + right. split; [exact Hun|]. split; [exact Hli|].
            split; [reflexivity | split; [exact Hc00 | split; assumption]].
          + intros i _. rewrite Hstore, U2. reflexivity.
          + intros Hf. destruct Hun as (_ & _ & _ & _ & E & _). congruence.
          + unfold wsq, finz. destruct Hun as (_ & _ & E1 & _ & E2 & _). rewrite E1, E2, Hl0, Hf0. lia. }
    destruct Htr as (Hats & Htr).
    (* the phases after the table keep the view *)
    apply obind_ok_inv in H. destruct H as ((s4 & iwu) & Hp4 & H).
    apply obind_ok_inv in H. destruct H as ((s5 & t5) & Hp5 & H).
    pose proof (update_remote_frame _ _ _ _ _ _ Hp4) as Hf4.
    pose proof (dup_ack_frame _ _ _ _ _ _ _ Hp5) as Hf5.
    set (s5' := match r_timestamp r with Some (tsval, _) => upd_last_remote_tsval s5 tsval | None => s5 end) in *.
    pose proof (tsval_frame s5 r) as Hf5'. fold s5' in Hf5'.
    pose proof (timers_frame cx s5' al aall) as Hf6.
    destruct (tcp_process_timers cx s5' al aall) as (s6, t6). cbn [fst] in Hf6.
    pose proof (zwp_frame cx s6 al) as Hf7.
    destruct (tcp_process_zwp cx s6 al) as (s7, t7). cbn [fst] in Hf7.
    assert (Hf73 : frame s7 s3).
    { eapply frame_trans; [exact Hf7|]. eapply frame_trans; [exact Hf6|].
      eapply frame_trans; [exact Hf5'|]. eapply frame_trans; [exact Hf5 | exact Hf4]. }
    clear Hf4 Hf5 Hf5' Hf6 Hf7 Hp4 Hp5.
    apply obind_ok_inv in H. destruct H as (((s8 & rep8) & t8) & Hp8 & H).
    inversion H; subst s' rep tags; clear H.
    (* the receive view of s7 in terms of s *)
    destruct Hf73 as ((V1 & V2 & V3 & V4 & V5 & V6 & V7) & Vst).
    destruct Hf2 as ((U1 & U2 & U3 & U4 & U5 & U6 & U7) & Ust).
    assert (Hbuf7 : s_rx_buffer s7 = s_rx_buffer s /\ s_assembler s7 = s_assembler s).
    { destruct Htr as [(_ & (T1 & T2 & _)) | (_ & (T1 & T2 & _))]; split; congruence. }
    destruct Hbuf7 as (Hrx7 & Hasm7).
    (* a non-empty accepted payload excludes an earlier FIN *)
    assert (Hpl : l_len payload = trim_len W d n).
    { rewrite Hpayload. unfold trim_lo, trim_len. apply l_slice_len; fold n; lia. }
    assert (Hnofin : 0 < l_len payload -> s_rx_fin_received s = false).
    { intros Hpos. destruct (s_rx_fin_received s) eqn:Efin; [|reflexivity]. exfalso.
      pose proof (Hfin eq_refl) as HF1.
      assert (0 < n) by (unfold trim_len in Hpl; lia).
      specialize (HFseg ltac:(lia) ltac:(unfold trim_len in Hpl; lia) _ HF1). unfold wsq, finz in HFseg. rewrite Efin in HFseg. cbn [b2z] in HFseg.
      unfold trim_len in Hpl. lia. }
    (* payload phase *)
    pose proof (payload_synced S F have (have_seg have c s r) c s7 cx ip r payload off (Ok (s8, rep8, t8)) W) as Hps.
    rewrite Hrx7, Hasm7 in Hps.
    specialize (Hps Hb Hmono ltac:(subst off; unfold trim_off; lia)
                    ltac:(subst off; rewrite Hpl; unfold trim_off, trim_len; lia) (proj2 HW)).
    assert (Hpay_bytes : forall j, 0 <= j < l_len payload ->
              znth payload j = S (c + rb_len (s_rx_buffer s) + off + j) /\
              have_seg have c s r (c + rb_len (s_rx_buffer s) + off + j)).
    { intros j Hj. pose proof (Hnofin ltac:(lia)) as Efin.
      assert (Hwsq : wsq c s = c + rb_len (s_rx_buffer s)) by (unfold wsq, finz; rewrite Efin; cbn [b2z]; lia).
      rewrite Hpayload. rewrite Hpl in Hj. unfold trim_lo, trim_len, trim_off in *.
      rewrite l_slice_znth by lia. rewrite Hbytes by lia. subst off. split.
      - f_equal. lia.
      - right. split; [exact Hnr|]. unfold seg_q. fold d. fold n. lia. }
    specialize (Hps Hpay_bytes).
    assert (HFp : 0 < l_len payload -> forall f, F = Some f ->
              c + rb_len (s_rx_buffer s) + off + l_len payload <= f).
    { intros Hpos f Hf. pose proof (Hnofin Hpos) as Efin.
      assert (Hwsq : wsq c s = c + rb_len (s_rx_buffer s)) by (unfold wsq, finz; rewrite Efin; cbn [b2z]; lia).
      assert (0 < n) by (unfold trim_len in Hpl; lia).
      specialize (HFseg ltac:(lia) ltac:(unfold trim_len in Hpl; lia) f Hf). subst off. rewrite Hpl. unfold trim_off, trim_len. lia. }
    specialize (Hps HFp Hp8).
    destruct Hps as (s8' & rep8' & t8' & Heq & P1 & P2 & P3 & P4 & P5 & P5r & P6 & P7 & P8 & P9 & P10 & P11 & P12).
    inversion Heq; subst s8' rep8' t8'; clear Heq.
    split; [exact P8|].
    assert (Hfinfrom : s_rx_fin_received s8 = true -> s_rx_fin_received s = true \/ r_control r = CFin).
    { intros Hf8. rewrite P2, V3 in Hf8.
      destruct Htr as [(_ & (_ & _ & T3 & _)) | (Hc1 & _)].
      - left. congruence.
      - right. rewrite Hc1 in Hquash. exact (proj1 Hquash). }
    cut (((rx_synced S F (have_seg have c s r) irs c s8 \/
           rx_unsynced s8 /\ s_state s8 = Listen /\ rep8 = None /\ c = 0 /\
           rb_len (s_rx_buffer s) = 0 /\ s_rx_fin_received s = false) /\
          wsq c s <= wsq c s8) /\ beyond_untouched s8 s).
    { intros ((X1 & X3) & X2). split; [exact X1|]. split; [exact X2|]. split; [exact Hfinfrom | exact X3]. }
    split.
    2:{ intros i Hi.
        assert (HadvW : adv_width s = W).
        { unfold adv_width. rewrite Hws, Hwe. rewrite seq_sdiff_norm; unfold p30 in *; lia. }
        rewrite HadvW in Hi.
        assert (off + l_len payload <= W) by (subst off; rewrite Hpl; unfold trim_off, trim_len; lia).
        rewrite <- P12 by lia. unfold rb_cell, rb_get_idx. rewrite P5, P5r. reflexivity. }
    cut (rx_synced S F (have_seg have c s r) irs c s8 /\ wsq c s <= wsq c s8).
    { intros (X1 & X2). split; [left; exact X1 | exact X2]. }
    apply and_comm. split.
    { unfold wsq, finz. rewrite ?Hrx7 in P7.
      assert (b2z (s_rx_fin_received s) <= b2z (s_rx_fin_received s8)).
      { rewrite P2, V3. destruct Htr as [(_ & (_ & _ & T3 & _)) | (_ & (_ & _ & T3 & _))].
        - rewrite T3, U3. cbn [s_rx_fin_received]. lia.
        - rewrite T3. pose proof (b2z_range (s_rx_fin_received s)). cbn [b2z]. lia. }
      lia. }
    (* assemble the invariant of the final state *)
    pose proof (b2z_range (s_rx_fin_received s)) as Hfr.
    assert (Hcap8 : rb_cap (s_rx_buffer s8) = rb_cap (s_rx_buffer s)) by congruence.
    pose proof P6 as (Hwf8 & _). pose proof Hwf8 as (Hlen8 & _).
    (* fin flag and RCV.NXT after the table *)
    assert (Hfin8 : (ctl <> CFin /\ s_rx_fin_received s8 = s_rx_fin_received s /\
                     s_remote_seq_no s8 = s_remote_seq_no s) \/
                    (ctl = CFin /\ s_rx_fin_received s8 = true /\
                     s_remote_seq_no s8 = seq_add (s_remote_seq_no s) 1)).
    { destruct Htr as [(Hc1 & (T1 & T2 & T3 & T4 & _)) | (Hc1 & (T1 & T2 & T3 & T4 & _))].
      - left. split; [exact Hc1|]. split; congruence.
      - right. split; [exact Hc1|]. split; congruence. }
    assert (Hla8 : s_remote_last_ack s7 = s_remote_last_ack s /\ s_remote_last_win s7 = s_remote_last_win s /\
                   s_remote_win_shift s7 = s_remote_win_shift s).
    { destruct Htr as [(_ & (_ & _ & _ & _ & T5 & T6 & T7)) | (_ & (_ & _ & _ & _ & T5 & T6 & T7))];
        repeat split; congruence. }
    destruct Hla8 as (L1 & L2 & L3).
    unfold rx_synced. split; [exact P6|].
    (* the FIN case fixes the length *)
    assert (HfinF : ctl = CFin -> s_rx_fin_received s = false /\
                    F = Some (c + rb_len (s_rx_buffer s8))).
    { intros Hctl. rewrite Hctl in Hquash. destruct Hquash as (Hrc & Hd0 & Hdn & Hto & Htl).
      pose proof (HFfin Hrc) as HF1.
      assert (Efin : s_rx_fin_received s = false).
      { destruct (s_rx_fin_received s) eqn:Efin; [|reflexivity]. exfalso.
        pose proof (Hfin eq_refl) as HF2. rewrite HF1 in HF2. inversion HF2.
        unfold wsq, finz in *. rewrite Efin in *. cbn [b2z] in *. lia. }
      split; [exact Efin|].
      assert (Hwsq : wsq c s = c + rb_len (s_rx_buffer s)) by (unfold wsq, finz; rewrite Efin; cbn [b2z]; lia).
      rewrite (P10 (wsq c s + d + n) ltac:(subst off; exact Hto) HF1 ltac:(rewrite Hpl, Htl; lia)).
      rewrite HF1. f_equal. rewrite Hpl, Htl. lia. }
    assert (Hseq8 : seq_ok F irs c s8).
    { unfold seq_ok, finz. destruct Hfin8 as [(Hc1 & F1 & F2) | (Hc1 & F1 & F2)].
      - rewrite F1, F2. split; [exact Hrn|]. intros Hf.
        (* an earlier FIN: nothing was appended *)
        assert (Hz : l_len payload = 0).
        { destruct (Z.eq_dec (l_len payload) 0) as [E|E]; [exact E|].
          pose proof (l_len_nonneg payload).
          pose proof (Hnofin ltac:(lia)). congruence. }
        rewrite (P11 Hz). rewrite Hrx7. apply Hfin. exact Hf.
      - destruct (HfinF Hc1) as (Efin & HF8). rewrite F1, F2, Hrn, seq_add_norm. unfold finz. rewrite Efin.
        cbn [b2z]. split; [f_equal; lia|]. intros _. exact HF8. }
    split; [exact Hseq8|].
    assert (Hshift8 : s_remote_win_shift s8 = s_remote_win_shift s) by congruence.
    assert (Hfz8 : finz s <= finz s8 <= 1 /\ (finz s8 = finz s \/ (ctl = CFin /\ finz s = 0 /\ finz s8 = 1))).
    { unfold finz. destruct Hfin8 as [(Hc1 & F1 & F2) | (Hc1 & F1 & F2)].
      - rewrite F1. split; [lia|]. left. reflexivity.
      - destruct (HfinF Hc1) as (Efin & _). rewrite F1, Efin. cbn [b2z]. split; [lia|]. right. tauto. }
    destruct P9 as [(Q1 & Q2 & Q3 & Q4) | (Q1 & Q2)].
    - (* no ACK emitted *)
      rewrite L1 in Q1. rewrite L2 in Q2.
      assert (Hlwb8 : lwb s8 = lwb s) by (unfold lwb; congruence).
      split; [unfold misc_ok; fold (lwb s8); rewrite Hlwb8, Q2, Hshift8, Hcap8; repeat split; assumption|].
      split.
      + unfold win_ok. rewrite Q1, Hlwb8, Hcap8. unfold win_ok in Hwin.
        destruct (s_remote_last_ack s) as [a|]; [|exact I].
        destruct Hwin as (ao & Ha & Hao & Hk & Hj).
        destruct Hla as (ao' & Ha' & Hao' & Hj' & HWv).
        assert (ao' = ao).
        { rewrite Ha in Ha'. unfold seq_norm in Ha'. rewrite seq_modulus_val in Ha'.
          pose proof (shl_nonneg _ _ Hm1 Hm2) as Hlw0. fold (lwb s) in Hlw0.
          unfold wsq in *. unfold p30 in *. lia. }
        subst ao'. exists ao. split; [exact Ha|].
        unfold wsq in *. rewrite ?Hrx7 in Q4.
        assert (Hoffpl : off + l_len payload <= W) by (subst off; rewrite Hpl; unfold trim_off, trim_len; lia).
        destruct Hfz8 as (Hz1 & Hz2). split; [lia|]. split; [lia|].
        pose proof (l_len_nonneg payload) as Hpl0. fold (finz s) in Hfr.
        destruct Q4 as [Q4 | (Q4a & Q4b)]; rewrite ?Q4, ?Q4b; lia.
      + unfold st_ok. rewrite P1, Vst. unfold after_table_state in Hats. destruct (s_state s3); first [exact I | destruct Hats].
    - (* ACK emitted *)
      destruct (scaled_window_ok s8 Hwf8 ltac:(rewrite Hshift8; exact Hm2)) as (Hsw0 & Hsw1).
      assert (Hws8 : tcp_window_start s8 = seq_norm (irs + 1 + wsq c s8)).
      { unfold tcp_window_start. destruct Hseq8 as (Hrn8 & _). rewrite Hrn8, seq_add_norm. f_equal.
        unfold wsq. lia. }
      split; [unfold misc_ok, lwb; rewrite Q2, Hshift8 in *; unfold rb_window in Hsw1; repeat split; try assumption; lia|].
      split.
      + unfold win_ok. rewrite Q1, Hws8. exists (wsq c s8). split; [reflexivity|].
        unfold lwb. rewrite Q2. unfold rb_window in Hsw1. unfold wsq in *.
        pose proof (b2z_range (s_rx_fin_received s8)) as Hfr8. fold (finz s8) in Hfr8.
        assert (Hsh8 : 0 <= s_remote_win_shift s8) by (rewrite Hshift8; exact Hm2).
        pose proof (shl_nonneg _ _ Hsw0 Hsh8).
        lia.
      + unfold st_ok. rewrite P1, Vst. unfold after_table_state in Hats. destruct (s_state s3); first [exact I | destruct Hats].
  Qed.
End Step.
